(* Regex-shape obligations by reflection, second part: the shape hypotheses of the decoder theorems of
   Proofs/B64HexProofs.v (base64 call forms, bare base64, hex, FromHexString, PowerShell byte arrays, the
   xor key) and of Proofs/PathDecProofs.v (Windows paths, PE files, file names, POSIX paths) are
   discharged for the GENERATED regex terms (Generated/Regexes.v, referred to by name only):
   the regex-dependent step is a vm_compute of explore / group_mandatory / minlen on the term, the meaning
   of each monitor is proved once, independently of the term.  With the soundness of the backtracking
   matcher (Regex/BacktrackProofs.v) this closes the decoder theorems end to end, for ALL inputs.
   The infrastructure (fi_cases, group_mandatory, gmon, mtch_ok_group0 / mtch_ok_groupk) is that of
   Proofs/Shapes1.v. *)
From Coq Require Import List ZArith NArith Bool Lia Arith.
From MD Require Import Lib.Base Model.Node Regex.Syntax Regex.DerivProofs Regex.MonitorProofs
  Regex.Backtrack Regex.BacktrackProofs Generated.Regexes Model.Dec.ReLib.
From MD Require Import Model.Dec.NtPath Model.Dec.PathDec Proofs.PathDecProofs.
From MD Require Import Model.Codec.Base64 Model.Codec.Hex Model.Codec.PyInt Model.Dec.XmlChr Model.Dec.B64Hex.
From MD Require Import Proofs.BaseProofs Proofs.Base64Proofs Proofs.HexProofs Proofs.PyIntProofs
  Proofs.B64HexProofs Proofs.Shapes1.
Import ListNotations.
Open Scope Z_scope.

(* ------------------------------------------------------------------ *)
(* 0.  Generic glue                                                    *)
(* ------------------------------------------------------------------ *)
Lemma even_of_nat n : Z.even (Z.of_nat n) = Nat.even n.
Proof.
  induction n as [|n IH]; [reflexivity|].
  rewrite Nat2Z.inj_succ, Z.even_succ, Nat.even_succ, <- Z.negb_even, <- Nat.negb_even, IH. reflexivity.
Qed.

Lemma Forall2_Forall_r {A B} (P : A -> B -> Prop) (Q : B -> Prop) l l' :
  (forall x y, In x l -> P x y -> Q y) -> Forall2 P l l' -> Forall Q l'.
Proof.
  intros H F. induction F as [|x y l l' Hxy _ IH]; [constructor|]. constructor.
  - apply (H x y); [left; reflexivity | exact Hxy].
  - apply IH. intros x' y' Hin. apply H. right. exact Hin.
Qed.

Lemma Forall_flat_map_in {A B} (P : B -> Prop) (f : A -> list B) l :
  (forall x, In x l -> Forall P (f x)) -> Forall P (flat_map f l).
Proof.
  induction l as [|x l IH]; intros H; [constructor|]. cbn [flat_map]. apply Forall_app. split.
  - apply H. left. reflexivity.
  - apply IH. intros y Hy. apply H. right. exact Hy.
Qed.

(* a class mask below a boolean predicate on bytes, by enumeration *)
Definition mask_below (mk : N) (f : N -> bool) : bool :=
  mask_ok mk && forallb (fun c => implb (N.testbit mk c) (f c)) bytes256.

Lemma mask_below_spec mk f c : mask_below mk f = true -> N.testbit mk c = true -> f c = true.
Proof.
  unfold mask_below. intros H Hc. apply andb_true_iff in H. destruct H as [Hok H].
  pose proof (mask_ok_bit mk c Hok Hc) as Hlt. rewrite forallb_forall in H.
  specialize (H c (bytes256_in c Hlt)). rewrite Hc in H. exact H.
Qed.

Lemma Forall_mask_below mk f w :
  mask_below mk f = true -> Forall (fun c => N.testbit mk c = true) w -> forallb f w = true.
Proof.
  intros H F. apply forallb_forall. rewrite Forall_forall in F. intros c Hc.
  apply (mask_below_spec mk f c H (F c Hc)).
Qed.

(* the match objects of the matcher in the vocabulary of B64HexProofs *)
Lemma mtch_ok_span0 r ng data mt :
  mtch_ok r ng data mt ->
  exists s e, nth 0 mt None = Some (s, e) /\ 0 <= s /\ s <= e /\ e <= blen data /\ Lang r (slice data s e).
Proof.
  intros (s & e & groups & -> & _ & H0 & H1 & H2 & HL & _). exists s, e.
  split; [reflexivity|]. repeat (split; [assumption|]). rewrite <- sub_slice by assumption. exact HL.
Qed.

Lemma mtch_ok_span_ok r ng data mt : mtch_ok r ng data mt -> span_ok data mt.
Proof. intros H. destruct (mtch_ok_span0 _ _ _ _ H) as (s & e & E & H0 & H1 & H2 & _). exists s, e. auto. Qed.

Lemma mtch_ok_grp0 r ng data mt (P : bytes -> Prop) :
  mtch_ok r ng data mt -> (forall w, Lang r w -> P w) -> grp_ok data mt 0 P.
Proof.
  intros H HP. destruct (mtch_ok_span0 _ _ _ _ H) as (s & e & E & H0 & H1 & H2 & HL).
  exists s, e. repeat (split; [assumption|]). apply HP, HL.
Qed.

Lemma mtch_ok_grpk r ng data mt k (P : bytes -> Prop) :
  mtch_ok r ng data mt -> participates mt (S k) = true ->
  (forall body w, In body (group_re r (S k)) -> Lang body w -> P w) ->
  grp_ok data mt (S k) P /\ m_start mt 0 <= m_start mt (S k) /\ m_end mt (S k) <= m_end mt 0.
Proof.
  intros H Hp HP. destruct (mtch_ok_groupk _ _ _ _ k H Hp) as (Hs & B1 & B2 & body & Hb & HL).
  split; [|split; assumption].
  destruct (EscDecProofs.span_ok_nth data mt (S k) Hs) as [_ (s & e & En & H0 & H1 & H2)].
  exists s, e. repeat (split; [assumption|]). apply (HP body); [exact Hb|].
  unfold group in HL. rewrite En in HL. exact HL.
Qed.

(* span facts of a group in terms of m_start / m_end *)
Lemma grp_ok_bounds data m g P :
  grp_ok data m g P ->
  0 <= m_start m g /\ m_start m g <= m_end m g /\ m_end m g <= blen data /\
  group data m g = slice data (m_start m g) (m_end m g).
Proof.
  intros (s & e & E & H0 & H1 & H2 & _). unfold m_start, m_end, span, group. rewrite E. cbn [fst snd].
  repeat split; assumption.
Qed.

(* a mandatory group participates in the match re.search reports *)
Theorem search_mandatory r ng data mt g :
  group_mandatory r g = true -> (1 <= g)%nat -> (g <= ng)%nat ->
  search r ng data = Some (Some mt) -> participates mt g = true.
Proof.
  intros Hg H1 H2 H. unfold search in H.
  destruct (search_pos default_fuel r (List.length data) (start_pos data)) as [| |s e c] eqn:ES;
    try discriminate H.
  injection H as <-. apply mk_mtch_participates; [exact H1 | exact H2|].
  apply (match_here_mandatory _ _ _ _ _ _ Hg (search_pos_found _ _ _ _ _ _ _ ES)).
Qed.

(* what re.search returns, in the form the decoder theorems want *)
Lemma search_cases r ng data :
  re_search r ng data = Hang \/ re_search r ng data = Ok None \/
  exists mt, re_search r ng data = Ok (Some mt) /\ mtch_ok r ng data mt /\
             forall g, group_mandatory r g = true -> (1 <= g)%nat -> (g <= ng)%nat -> participates mt g = true.
Proof.
  unfold re_search. destruct (search r ng data) as [[mt|]|] eqn:E; [right; right | right; left; reflexivity | left; reflexivity].
  exists mt. split; [reflexivity|]. split; [apply (search_sound _ _ _ _ E)|].
  intros g Hg H1 H2. apply (search_mandatory _ _ _ _ _ Hg H1 H2 E).
Qed.

Lemma fi_not_raise r ng data e : fi r ng data <> Raise e.
Proof. unfold fi. destruct (finditer r ng data); discriminate. Qed.

(* ------------------------------------------------------------------ *)
(* 0b.  A counting monitor: every byte in a class, length between lo and hi *)
(* ------------------------------------------------------------------ *)
Section CountMonitor.
  Variable mask : N.
  Variables lo hi : nat.

  Definition cnt_step (n : nat) (c : N) : option nat :=
    if N.testbit mask c && Nat.ltb n hi then Some (S n) else None.
  Definition cnt_acc (n : nat) : bool := Nat.leb lo n.

  Lemma nat_eqb_eq a b : Nat.eqb a b = true -> a = b.
  Proof. apply Nat.eqb_eq. Qed.

  Definition count_monitor : monitor := gmon nat Nat.eqb nat_eqb_eq N.of_nat cnt_step cnt_acc mask.
  Definition count_q0 : mst count_monitor := Some 0%nat.

  Definition cnt_inv (w : list N) (n : nat) : Prop :=
    List.length w = n /\ (n <= hi)%nat /\ Forall (fun c => N.testbit mask c = true) w.

  Lemma cnt_inv_step w n c n' : cnt_inv w n -> cnt_step n c = Some n' -> cnt_inv (w ++ [c]) n'.
  Proof.
    intros (Hl & Hh & Hf) Hs. unfold cnt_step in Hs.
    destruct (N.testbit mask c) eqn:Ec; [|discriminate Hs].
    destruct (Nat.ltb_spec n hi) as [Hlt|_]; [|discriminate Hs]. injection Hs as <-.
    split; [rewrite app_length, Hl; cbn [List.length]; lia|]. split; [lia|].
    apply Forall_app. split; [exact Hf | constructor; [exact Ec | constructor]].
  Qed.

  Lemma count_monitor_meaning w :
    macc count_monitor (run count_monitor count_q0 w) = true ->
    Forall (fun c => N.testbit mask c = true) w /\ (lo <= List.length w <= hi)%nat.
  Proof.
    intros H. apply (gmon_meaning _ _ nat_eqb_eq _ _ _ _ cnt_inv cnt_inv_step) in H.
    - destruct H as (n & (Hl & Hh & Hf) & Hacc). unfold cnt_acc in Hacc. apply Nat.leb_le in Hacc.
      split; [exact Hf | lia].
    - split; [reflexivity|]. split; [lia | constructor].
  Qed.
End CountMonitor.

(* ------------------------------------------------------------------ *)
(* 1.  xor key: group 1 of XOR_RE is one to three decimal digits        *)
(* ------------------------------------------------------------------ *)
Lemma digit_mask_below : mask_below digit_mask is_digit_ascii = true.
Proof. vm_compute. reflexivity. Qed.

(* OBLIGATIONS on the generated regex term, by computation *)
Lemma xor_group1_explore :
  forallb (fun body => explore (count_monitor digit_mask 1 3) shape_fuel body (count_q0 digit_mask 1 3))
          (group_re RE_xor_helper_XOR_RE 1) = true.
Proof. vm_cast_no_check (eq_refl true). Time Qed.

Lemma xor_group1_mandatory :
  group_mandatory RE_xor_helper_XOR_RE 1 && Nat.leb 1 NG_xor_helper_XOR_RE = true.
Proof. vm_compute. reflexivity. Qed.

Theorem xor_group1_shape body w : In body (group_re RE_xor_helper_XOR_RE 1) -> Lang body w -> key_text_ok w.
Proof.
  intros Hb H. pose proof xor_group1_explore as E. rewrite forallb_forall in E.
  pose proof (explore_sound_nowf _ shape_fuel _ _ (E _ Hb) w H) as Hm.
  apply count_monitor_meaning in Hm. destruct Hm as [Hf Hl]. split.
  - unfold all_digits. eapply Forall_impl; [|exact Hf]. intros c Hc.
    apply (mask_below_spec _ _ c digit_mask_below Hc).
  - unfold blen. lia.
Qed.

(* END TO END: int() of the key text cannot raise; the key is a natural number below 1000 *)
Theorem get_xorkey_cases : forall data,
  get_xorkey data = Hang \/ exists k, get_xorkey data = Ok k /\ key_ok k.
Proof.
  intros data. unfold get_xorkey.
  destruct (search_cases RE_xor_helper_XOR_RE NG_xor_helper_XOR_RE data) as [H|[H|(mt & H & Hok & Hmand)]];
    rewrite H; cbn [bind]; [left; reflexivity | right; exists None; split; [reflexivity | exact I] | right].
  pose proof xor_group1_mandatory as Hg. apply andb_true_iff in Hg. destruct Hg as [Hg1 Hg2].
  apply Nat.leb_le in Hg2. specialize (Hmand 1%nat Hg1 (le_n 1) Hg2).
  destruct (mtch_ok_grpk _ _ _ _ 0 key_text_ok Hok Hmand xor_group1_shape) as [Hgrp _].
  destruct (get_xorkey_of_some data mt Hgrp) as [E B]. eexists. split; [exact E | exact B].
Qed.

Theorem get_xorkey_total : forall data,
  get_xorkey data = Hang \/ exists k, get_xorkey data = Ok k.
Proof.
  intros data. destruct (get_xorkey_cases data) as [H|(k & H & _)]; [left; exact H | right; exists k; exact H].
Qed.

Theorem get_xorkey_range : forall data k key,
  get_xorkey data = Ok k -> k = Some key -> 0 <= key <= 999.
Proof.
  intros data k key H ->. destruct (get_xorkey_cases data) as [H'|(k' & H' & Hk)]; rewrite H in H'; [discriminate H'|].
  injection H' as <-. exact Hk.
Qed.

(* ------------------------------------------------------------------ *)
(* 2.  hex: an even number of hex digits, at least twenty               *)
(* ------------------------------------------------------------------ *)
Definition hex_mask : N := Eval vm_compute in mask_of (L"0123456789abcdefABCDEF").

Lemma hex_mask_below : mask_below hex_mask is_hex_digit = true.
Proof. vm_compute. reflexivity. Qed.

Definition hex_shape (w : bytes) : Prop := even_hex w /\ 20 <= blen w.

(* what the three checks mean (regex independent) *)
Lemma hex_checks_meaning r w :
  explore (alphabet_monitor hex_mask) shape_fuel r true = true ->
  explore even_monitor shape_fuel r true = true ->
  Nat.leb 20 (minlen r) = true ->
  Lang r w -> hex_shape w.
Proof.
  intros Ha He Hm HL. split; [split|].
  - unfold blen. rewrite even_of_nat. apply (even_sound_nowf _ _ He w HL).
  - apply (Forall_mask_below _ _ _ hex_mask_below). apply (alphabet_sound_nowf _ _ _ Ha w HL).
  - apply Nat.leb_le in Hm. pose proof (minlen_correct r w HL). unfold blen. lia.
Qed.

Definition hex_checks (r : re) : bool :=
  explore (alphabet_monitor hex_mask) shape_fuel r true && explore even_monitor shape_fuel r true &&
  Nat.leb 20 (minlen r).

Lemma hex_checks_sound r w : hex_checks r = true -> Lang r w -> hex_shape w.
Proof.
  unfold hex_checks. intros H. apply andb_true_iff in H. destruct H as [H Hm].
  apply andb_true_iff in H. destruct H as [Ha He]. apply hex_checks_meaning; assumption.
Qed.

(* OBLIGATIONS on the generated regex terms, by computation *)
Lemma hex_explore : hex_checks RE_hex_HEX_RE = true.
Proof. vm_cast_no_check (eq_refl true). Time Qed.

Lemma fromhex_group2_explore : forallb hex_checks (group_re RE_hex_FROMHEXSTRING_RE 2) = true.
Proof. vm_cast_no_check (eq_refl true). Time Qed.

Lemma fromhex_group2_mandatory :
  group_mandatory RE_hex_FROMHEXSTRING_RE 2 && Nat.leb 2 NG_hex_FROMHEXSTRING_RE = true.
Proof. vm_compute. reflexivity. Qed.

Theorem hex_lang_shape w : Lang RE_hex_HEX_RE w -> hex_shape w.
Proof. apply hex_checks_sound, hex_explore. Qed.

Theorem fromhex_group2_shape body w : In body (group_re RE_hex_FROMHEXSTRING_RE 2) -> Lang body w -> hex_shape w.
Proof.
  intros Hb. pose proof fromhex_group2_explore as E. rewrite forallb_forall in E. apply hex_checks_sound, E, Hb.
Qed.

(* END TO END *)
Definition hex_node_ok (data : bytes) (n : node) : Prop :=
  n_ty n = [] /\ n_obf n = L"decoded.hexadecimal" /\ n_kids n = [] /\
  0 <= n_st n /\ n_st n + 20 <= n_en n /\ n_en n <= blen data /\
  even_hex (slice data (n_st n) (n_en n)) /\
  hex_spells (slice data (n_st n) (n_en n)) (n_val n).

Theorem find_hex_total : forall data,
  find_hex data = Hang \/ exists nodes, find_hex data = Ok nodes /\ Forall (hex_node_ok data) nodes.
Proof.
  intros data. unfold find_hex.
  destruct (fi_cases RE_hex_HEX_RE NG_hex_HEX_RE data) as [H|(ms & Hfi & Hok & _)];
    [left; rewrite H; reflexivity | right]. rewrite Hfi. cbn [bind].
  assert (Hms : Forall (fun m => span_ok data m /\ grp_ok data m 0 hex_shape) ms).
  { eapply Forall_impl; [|exact Hok]. intros m Hm. split; [apply (mtch_ok_span_ok _ _ _ _ Hm)|].
    apply (mtch_ok_grp0 _ _ _ _ hex_shape Hm hex_lang_shape). }
  assert (Hms' : ms_ok_hex 0 data ms).
  { eapply Forall_impl; [|exact Hms]. intros m [Hs (s & e & E & H0 & H1 & H2 & [Hh _])].
    split; [exact Hs|]. exists s, e. repeat (split; [assumption|]). exact Hh. }
  destruct (find_hex_post_spec data ms Hms') as (out & Eo & F). exists out. split; [exact Eo|].
  revert F. apply Forall2_Forall_r. intros m n Hin (v & Hv & ->).
  rewrite Forall_forall in Hms. destruct (Hms m Hin) as [_ Hg].
  destruct (grp_ok_bounds _ _ _ _ Hg) as (B0 & B1 & B2 & Eg).
  pose proof (grp_ok_text _ _ _ _ Hg) as [Heven Hlen]. rewrite Eg in Heven, Hlen, Hv.
  rewrite blen_slice in Hlen by assumption.
  unfold hex_node_ok. cbn [n_ty n_obf n_kids n_st n_en n_val].
  split; [reflexivity|]. split; [reflexivity|]. split; [reflexivity|].
  split; [exact B0|]. split; [lia|]. split; [exact B2|]. split; [exact Heven | exact Hv].
Qed.

(* find_FromHexString: group 2 is the hex text; the node spans the whole call; the xor child is
   key_kids of the key found in the whole data *)
Definition fromhex_node_ok (data : bytes) (key : option Z) (n : node) : Prop :=
  n_ty n = L"powershell.bytes" /\ n_obf n = L"encoding.hexidecimal" /\
  0 <= n_st n /\ n_st n <= n_en n /\ n_en n <= blen data /\
  n_kids n = key_kids (L"powershell.bytes") key (n_val n) /\
  exists gs ge, n_st n <= gs /\ gs + 20 <= ge /\ ge <= n_en n /\
                even_hex (slice data gs ge) /\ hex_spells (slice data gs ge) (n_val n).

Theorem find_FromHexString_total : forall data,
  find_FromHexString data = Hang \/
  exists key nodes, get_xorkey data = Ok key /\ key_ok key /\
                    find_FromHexString data = Ok nodes /\ Forall (fromhex_node_ok data key) nodes.
Proof.
  intros data. unfold find_FromHexString.
  destruct (get_xorkey_cases data) as [H|(key & Hkey & Hk)]; [left; rewrite H; reflexivity|].
  rewrite Hkey. cbn [bind].
  destruct (fi_cases RE_hex_FROMHEXSTRING_RE NG_hex_FROMHEXSTRING_RE data) as [H|(ms & Hfi & Hok & Hmand)];
    [left; rewrite H; reflexivity | right]. rewrite Hfi. cbn [bind].
  pose proof fromhex_group2_mandatory as Hg. apply andb_true_iff in Hg. destruct Hg as [Hg1 Hg2].
  apply Nat.leb_le in Hg2. specialize (Hmand 2%nat Hg1 ltac:(lia) Hg2).
  assert (Hms : Forall (fun m => span_ok data m /\ grp_ok data m 2 hex_shape /\
                                 m_start m 0 <= m_start m 2 /\ m_end m 2 <= m_end m 0) ms).
  { rewrite Forall_forall in Hok, Hmand. apply Forall_forall. intros m Hin.
    specialize (Hok m Hin). specialize (Hmand m Hin). cbv beta in Hmand.
    split; [apply (mtch_ok_span_ok _ _ _ _ Hok)|].
    apply (mtch_ok_grpk _ _ _ _ 1 hex_shape Hok Hmand fromhex_group2_shape). }
  assert (Hms' : ms_ok_hex 2 data ms).
  { eapply Forall_impl; [|exact Hms]. intros m [Hs [(s & e & E & H0 & H1 & H2 & [Hh _]) _]].
    split; [exact Hs|]. exists s, e. repeat (split; [assumption|]). exact Hh. }
  destruct (find_FromHexString_post_ok key data ms Hk Hms') as (out & Eo & F).
  exists key, out. split; [reflexivity|]. split; [exact Hk|]. split; [exact Eo|].
  revert F. apply Forall2_Forall_r. intros m n Hin (v & Hv & ->).
  rewrite Forall_forall in Hms. destruct (Hms m Hin) as [Hs [Hg [C1 C2]]].
  destruct (span_ok_bounds _ _ Hs) as (A0 & A1 & A2).
  destruct (grp_ok_bounds _ _ _ _ Hg) as (B0 & B1 & B2 & Eg).
  pose proof (grp_ok_text _ _ _ _ Hg) as [Heven Hlen]. rewrite Eg in Heven, Hlen, Hv.
  rewrite blen_slice in Hlen by assumption.
  unfold fromhex_node_ok. cbn [n_ty n_obf n_kids n_st n_en n_val].
  split; [reflexivity|]. split; [reflexivity|]. split; [exact A0|]. split; [exact A1|]. split; [exact A2|].
  split; [reflexivity|]. exists (m_start m 2), (m_end m 2).
  split; [exact C1|]. split; [lia|]. split; [exact C2|]. split; [exact Heven | exact Hv].
Qed.

(* ------------------------------------------------------------------ *)
(* 3.  base64 call forms: alphabet characters, then at most two '='    *)
(* ------------------------------------------------------------------ *)
(* state: the number of '=' read so far *)
Definition b64_step (k : nat) (c : N) : option nat :=
  match k with
  | O => if is_b64_char c then Some 0%nat else if (c =? b64_pad)%N then Some 1%nat else None
  | S O => if (c =? b64_pad)%N then Some 2%nat else None
  | _ => None
  end.

Definition b64_mask : N :=
  Eval vm_compute in mask_of (L"ABCDEFGHIJKLMNOPQRSTUVWXYZabcdefghijklmnopqrstuvwxyz0123456789+/=").

Definition b64arg_monitor : monitor := gmon nat Nat.eqb (nat_eqb_eq) N.of_nat b64_step (fun _ => true) b64_mask.
Definition b64arg_q0 : mst b64arg_monitor := Some 0%nat.

Definition b64_inv (w : list N) (k : nat) : Prop :=
  exists body, forallb is_b64_char body = true /\ w = body ++ repeat b64_pad k /\ (k <= 2)%nat.

Lemma b64_inv_step w k c k' : b64_inv w k -> b64_step k c = Some k' -> b64_inv (w ++ [c]) k'.
Proof.
  intros (body & Hb & Hw & Hk) Hs. destruct k as [|[|k]]; cbn [b64_step] in Hs.
  - destruct (is_b64_char c) eqn:Ec.
    + injection Hs as <-. exists (body ++ [c]). split; [|split; [|lia]].
      * rewrite forallb_app, Hb. cbn [forallb]. rewrite Ec. reflexivity.
      * rewrite Hw. cbn [repeat]. rewrite !app_nil_r. reflexivity.
    + destruct (N.eqb_spec c b64_pad) as [->|_]; [|discriminate Hs]. injection Hs as <-.
      exists body. split; [exact Hb|]. split; [|lia]. rewrite Hw. cbn [repeat]. rewrite app_nil_r. reflexivity.
  - destruct (N.eqb_spec c b64_pad) as [->|_]; [|discriminate Hs]. injection Hs as <-.
    exists body. split; [exact Hb|]. split; [|lia]. rewrite Hw, <- app_assoc. reflexivity.
  - discriminate Hs.
Qed.

(* MEANING of the monitor (regex independent) *)
Lemma b64arg_monitor_meaning w : macc b64arg_monitor (run b64arg_monitor b64arg_q0 w) = true -> b64_arg w.
Proof.
  intros H. apply (gmon_meaning _ _ (nat_eqb_eq) _ _ _ _ b64_inv b64_inv_step) in H.
  - destruct H as (k & (body & Hb & Hw & Hk) & _). exists body, (repeat b64_pad k).
    split; [exact Hw|]. split; [exact Hb|].
    destruct k as [|[|[|k]]]; [left | right; left | right; right | lia]; reflexivity.
  - exists []. split; [reflexivity|]. split; [reflexivity | lia].
Qed.

Definition b64arg_checks (r : re) (g : nat) (ng : nat) : bool :=
  forallb (fun body => explore b64arg_monitor shape_fuel body b64arg_q0) (group_re r g) &&
  group_mandatory r g && Nat.leb 1 g && Nat.leb g ng.

(* OBLIGATIONS on the generated regex terms, by computation *)
Lemma atob_explore : b64arg_checks RE_base64_ATOB_RE 1 NG_base64_ATOB_RE = true.
Proof. vm_cast_no_check (eq_refl true). Time Qed.
Lemma base64decode_explore : b64arg_checks RE_base64_BASE64DECODE_RE 1 NG_base64_BASE64DECODE_RE = true.
Proof. vm_cast_no_check (eq_refl true). Time Qed.
Lemma fromb64_explore : b64arg_checks RE_base64_FROMB64STRING_RE 2 NG_base64_FROMB64STRING_RE = true.
Proof. vm_cast_no_check (eq_refl true). Time Qed.

(* what the check gives for the match list of finditer *)
Lemma b64arg_checks_ms r g ng data ms :
  b64arg_checks r g ng = true -> fi r ng data = Ok ms ->
  Forall (fun m => span_ok data m /\ grp_ok data m g b64_arg /\
                   m_start m 0 <= m_start m g /\ m_end m g <= m_end m 0) ms.
Proof.
  unfold b64arg_checks. intros H Hfi.
  apply andb_true_iff in H. destruct H as [H H4]. apply andb_true_iff in H. destruct H as [H H3].
  apply andb_true_iff in H. destruct H as [H1 H2]. apply Nat.leb_le in H3, H4.
  destruct (fi_cases r ng data) as [Hh|(ms' & Hfi' & Hok & Hmand)]; [congruence|].
  rewrite Hfi in Hfi'. injection Hfi' as <-. specialize (Hmand g H2 H3 H4).
  rewrite Forall_forall in Hok, Hmand. apply Forall_forall. intros m Hin.
  specialize (Hok m Hin). specialize (Hmand m Hin). cbv beta in Hmand.
  split; [apply (mtch_ok_span_ok _ _ _ _ Hok)|].
  destruct g as [|k]; [lia|]. apply (mtch_ok_grpk _ _ _ _ k b64_arg Hok Hmand).
  intros body w Hb HL. apply b64arg_monitor_meaning. rewrite forallb_forall in H1.
  apply (explore_sound_nowf b64arg_monitor shape_fuel _ _ (H1 _ Hb) w HL).
Qed.

(* END TO END.  The value is a2b_base64 of the argument text, which lies inside the node span and has
   the shape b64_arg; when its length is a multiple of four it is the RFC 4648 decoding. *)
Definition b64_value_ok (data : bytes) (n : node) : Prop :=
  exists gs ge, n_st n <= gs /\ gs <= ge /\ ge <= n_en n /\ b64_arg (slice data gs ge) /\
                a2b_base64 (slice data gs ge) = Ok (n_val n) /\
                (blen (slice data gs ge) mod 4 = 0 -> b64_decode_strict (slice data gs ge) = Some (n_val n)).

Definition b64_node_ok (ty : label) (data : bytes) (n : node) : Prop :=
  n_ty n = ty /\ n_obf n = L"encoding.base64" /\ n_kids n = [] /\
  0 <= n_st n /\ n_st n <= n_en n /\ n_en n <= blen data /\ b64_value_ok data n.

Lemma b64_value_ok_intro data m g ty obf kids b :
  grp_ok data m g b64_arg -> m_start m 0 <= m_start m g -> m_end m g <= m_end m 0 ->
  a2b_base64 (group data m g) = Ok b ->
  b64_value_ok data (Node ty b obf (m_start m 0) (m_end m 0) kids).
Proof.
  intros Hg C1 C2 E. destruct (grp_ok_bounds _ _ _ _ Hg) as (B0 & B1 & B2 & Eg).
  pose proof (grp_ok_text _ _ _ _ Hg) as Harg. rewrite Eg in Harg, E.
  exists (m_start m g), (m_end m g). cbn [n_st n_en n_val].
  split; [exact C1|]. split; [exact B1|]. split; [exact C2|]. split; [exact Harg|]. split; [exact E|].
  intros H4. destruct (b64_arg_canonical _ Harg H4) as [p Ep].
  pose proof (a2b_agrees_strict _ _ Ep) as E'. rewrite E in E'. injection E' as ->. exact Ep.
Qed.

Lemma b64_call_total r ng ty data :
  b64arg_checks r 1 ng = true ->
  (do ms <- fi r ng data; b64_call_post ty 1 data ms) = Hang \/
  exists nodes, (do ms <- fi r ng data; b64_call_post ty 1 data ms) = Ok nodes /\
                Forall (b64_node_ok ty data) nodes.
Proof.
  intros Hc. destruct (fi r ng data) as [ms|e|] eqn:Hfi; [right | exfalso; apply (fi_not_raise _ _ _ _ Hfi) | left; reflexivity].
  cbn [bind]. pose proof (b64arg_checks_ms _ _ _ _ _ Hc Hfi) as Hms.
  eexists. split.
  - apply b64_call_post_spec. eapply Forall_impl; [|exact Hms]. intros m (_ & Hg & _).
    apply (grp_ok_participates _ _ _ _ Hg).
  - apply Forall_flat_map_in. intros m Hin. rewrite Forall_forall in Hms. destruct (Hms m Hin) as (Hs & Hg & C1 & C2).
    unfold b64_nodes. destruct (a2b_base64 (group data m 1)) as [b| |] eqn:E; try constructor; [|constructor].
    destruct (span_ok_bounds _ _ Hs) as (A0 & A1 & A2).
    unfold b64_node_ok. cbn [n_ty n_obf n_kids n_st n_en].
    split; [reflexivity|]. split; [reflexivity|]. split; [reflexivity|].
    split; [exact A0|]. split; [exact A1|]. split; [exact A2|].
    apply (b64_value_ok_intro data m 1 _ _ _ b Hg C1 C2 E).
Qed.

Theorem find_atob_total : forall data,
  find_atob data = Hang \/
  exists nodes, find_atob data = Ok nodes /\ Forall (b64_node_ok (L"javascript.string") data) nodes.
Proof. intros data. apply (b64_call_total _ _ _ data atob_explore). Qed.

Theorem find_Base64Decode_total : forall data,
  find_Base64Decode data = Hang \/
  exists nodes, find_Base64Decode data = Ok nodes /\ Forall (b64_node_ok (L"vba.string") data) nodes.
Proof. intros data. apply (b64_call_total _ _ _ data base64decode_explore). Qed.

Definition fromb64_node_ok (data : bytes) (key : option Z) (n : node) : Prop :=
  n_ty n = L"powershell.bytes" /\ n_obf n = L"encoding.base64" /\
  n_kids n = key_kids (L"powershell.bytes") key (n_val n) /\
  0 <= n_st n /\ n_st n <= n_en n /\ n_en n <= blen data /\ b64_value_ok data n.

Theorem find_FromBase64String_total : forall data,
  find_FromBase64String data = Hang \/
  exists key nodes, get_xorkey data = Ok key /\ key_ok key /\
                    find_FromBase64String data = Ok nodes /\ Forall (fromb64_node_ok data key) nodes.
Proof.
  intros data. unfold find_FromBase64String.
  destruct (get_xorkey_cases data) as [H|(key & Hkey & Hk)]; [left; rewrite H; reflexivity|].
  rewrite Hkey. cbn [bind].
  destruct (fi RE_base64_FROMB64STRING_RE NG_base64_FROMB64STRING_RE data) as [ms|e|] eqn:Hfi;
    [right | exfalso; apply (fi_not_raise _ _ _ _ Hfi) | left; reflexivity].
  cbn [bind]. pose proof (b64arg_checks_ms _ _ _ _ _ fromb64_explore Hfi) as Hms.
  exists key. eexists. split; [reflexivity|]. split; [exact Hk|]. split.
  - apply find_FromBase64String_post_spec; [exact Hk|]. eapply Forall_impl; [|exact Hms]. intros m (_ & Hg & _).
    apply (grp_ok_participates _ _ _ _ Hg).
  - apply Forall_flat_map_in. intros m Hin. rewrite Forall_forall in Hms. destruct (Hms m Hin) as (Hs & Hg & C1 & C2).
    unfold fromb64_nodes. destruct (a2b_base64 (group data m 2)) as [b| |] eqn:E; try constructor; [|constructor].
    destruct (span_ok_bounds _ _ Hs) as (A0 & A1 & A2).
    unfold fromb64_node_ok. cbn [n_ty n_obf n_kids n_st n_en n_val].
    split; [reflexivity|]. split; [reflexivity|]. split; [reflexivity|].
    split; [exact A0|]. split; [exact A1|]. split; [exact A2|].
    apply (b64_value_ok_intro data m 2 _ _ _ b Hg C1 C2 E).
Qed.

(* ------------------------------------------------------------------ *)
(* 4.  bare base64: the alphabet of a match, nothing can be raised      *)
(* ------------------------------------------------------------------ *)
(* base64 alphabet, '=', CR, LF, and the bytes of the marker and of the character references *)
Definition base64_text_mask : N :=
  Eval vm_compute in
    mask_of (L"ABCDEFGHIJKLMNOPQRSTUVWXYZabcdefghijklmnopqrstuvwxyz0123456789+/=" ++ [13; 10; 60; 0; 32; 38; 35; 59]%N).

Definition base64_text_ok (w : bytes) : Prop :=
  Forall (fun c => N.testbit base64_text_mask c = true) w /\ 22 <= blen w.

(* OBLIGATION on the generated regex term, by computation *)
Lemma base64_explore :
  explore (alphabet_monitor base64_text_mask) shape_fuel RE_base64_BASE64_RE true &&
  Nat.leb 22 (minlen RE_base64_BASE64_RE) = true.
Proof. vm_cast_no_check (eq_refl true). Time Qed.

Theorem base64_lang_shape w : Lang RE_base64_BASE64_RE w -> base64_text_ok w.
Proof.
  intros HL. pose proof base64_explore as H. apply andb_true_iff in H. destruct H as [Ha Hm]. split.
  - apply (alphabet_sound_nowf _ _ _ Ha w HL).
  - apply Nat.leb_le in Hm. pose proof (minlen_correct _ w HL). unfold blen. lia.
Qed.

(* END TO END: never raises (the ZeroDivisionError is unreachable, binascii.Error is caught); every node
   is the a2b_base64 of the cleaned match text, which passed the five acceptance tests *)
Definition base64_node_ok (data : bytes) (n : node) : Prop :=
  n_ty n = [] /\ n_obf n = L"encoding.base64" /\ n_kids n = [] /\
  0 <= n_st n /\ n_st n + 22 <= n_en n /\ n_en n <= blen data /\
  base64_text_ok (slice data (n_st n) (n_en n)) /\
  exists s, b64_clean (slice data (n_st n) (n_en n)) = Ok s /\ accept_facts s /\
            ~ In 10%N s /\ ~ In 13%N s /\ a2b_base64 s = Ok (n_val n).

Theorem find_base64_total : forall data,
  find_base64 data = Hang \/ exists nodes, find_base64 data = Ok nodes /\ Forall (base64_node_ok data) nodes.
Proof.
  intros data. unfold find_base64.
  destruct (fi_cases RE_base64_BASE64_RE NG_base64_BASE64_RE data) as [H|(ms & Hfi & Hok & _)];
    [left; rewrite H; reflexivity|]. rewrite Hfi. cbn [bind].
  assert (Hms : Forall (fun m => span_ok data m /\ grp_ok data m 0 base64_text_ok) ms).
  { eapply Forall_impl; [|exact Hok]. intros m Hm. split; [apply (mtch_ok_span_ok _ _ _ _ Hm)|].
    apply (mtch_ok_grp0 _ _ _ _ base64_text_ok Hm base64_lang_shape). }
  assert (Hp : Forall (fun m => participates m 0 = true) ms).
  { eapply Forall_impl; [|exact Hms]. intros m [Hs _]. apply (span_ok_participates _ _ Hs). }
  destruct (find_base64_post data ms) as [out|e|] eqn:E;
    [right | exfalso; apply (find_base64_post_no_raise data ms e Hp E) | left; reflexivity].
  exists out. split; [reflexivity|]. apply Forall_forall. intros n Hin.
  destruct (find_base64_post_sound data ms out n Hp E Hin) as (m & s & Hm & Hc & Hacc & Ha & Hn).
  rewrite Forall_forall in Hms. destruct (Hms m Hm) as [_ Hg].
  destruct (grp_ok_bounds _ _ _ _ Hg) as (B0 & B1 & B2 & Eg).
  pose proof (grp_ok_text _ _ _ _ Hg) as Ht. rewrite Eg in Ht, Hc.
  pose proof Ht as [_ Hlen]. rewrite blen_slice in Hlen by assumption.
  destruct (b64_clean_no_crlf _ _ Hc) as [N10 N13].
  rewrite Hn. unfold base64_node_ok. cbn [n_ty n_obf n_kids n_st n_en n_val].
  split; [reflexivity|]. split; [reflexivity|]. split; [reflexivity|].
  split; [exact B0|]. split; [lia|]. split; [exact B2|]. split; [exact Ht|].
  exists s. repeat (split; [assumption|]). exact Ha.
Qed.

(* ------------------------------------------------------------------ *)
(* 5.  PowerShell byte arrays                                          *)
(* ------------------------------------------------------------------ *)
(* The tokens between the commas: optional white space, then 0x / 0X and two hex digits, or one to
   three decimal digits (the pattern is case-insensitive, so the capital X is part of the shape). *)
Definition ps_core (core : bytes) : Prop :=
  (exists x h1 h2, core = [48%N; x; h1; h2] /\ is_x x = true /\ is_hex_digit h1 = true /\ is_hex_digit h2 = true)
  \/ (all_digits core /\ 1 <= blen core <= 3).

Definition ps_token (tok : bytes) : Prop := exists w1 core, tok = w1 ++ core /\ ws w1 /\ ps_core core.

Definition ps_shape (w : bytes) : Prop :=
  Forall ps_token (split_on 44%N w) /\ (501 <= List.length (split_on 44%N w))%nat.

(* position inside the current token *)
Inductive pst := PWs | PZero | PD (n : nat) | PX | PX1 | PHex.

Definition pst_eqb (a b : pst) : bool :=
  match a, b with
  | PWs, PWs | PZero, PZero | PX, PX | PX1, PX1 | PHex, PHex => true
  | PD x, PD y => Nat.eqb x y
  | _, _ => false
  end.

Lemma pst_eqb_eq a b : pst_eqb a b = true -> a = b.
Proof.
  destruct a, b; cbn [pst_eqb]; try discriminate; try reflexivity.
  intros H. apply Nat.eqb_eq in H. subst. reflexivity.
Qed.

Definition pst_code (s : pst) : N :=
  match s with PWs => 0 | PZero => 1 | PX => 2 | PX1 => 3 | PHex => 4 | PD n => 5 + N.of_nat n end%N.

Definition ps_complete (s : pst) : bool := match s with PZero | PD _ | PHex => true | _ => false end.

Definition ptk_step (s : pst) (c : N) : option pst :=
  match s with
  | PWs => if is_space_ascii c then Some PWs
           else if (c =? 48)%N then Some PZero
           else if is_digit_ascii c then Some (PD 1) else None
  | PZero => if is_x c then Some PX else if is_digit_ascii c then Some (PD 2) else None
  | PD n => if is_digit_ascii c && Nat.ltb n 3 then Some (PD (S n)) else None
  | PX => if is_hex_digit c then Some PX1 else None
  | PX1 => if is_hex_digit c then Some PHex else None
  | PHex => None
  end.

Section PsbMonitor.
  (* the number of commas is counted up to K *)
  Variable K : nat.

  Definition psb_st := (nat * pst)%type.

  Definition psb_eqb (a b : psb_st) : bool := Nat.eqb (fst a) (fst b) && pst_eqb (snd a) (snd b).

  Lemma psb_eqb_eq a b : psb_eqb a b = true -> a = b.
  Proof.
    destruct a as [n s], b as [n' s']. unfold psb_eqb. cbn [fst snd]. intros H.
    apply andb_true_iff in H. destruct H as [H1 H2]. apply Nat.eqb_eq in H1. apply pst_eqb_eq in H2.
    subst. reflexivity.
  Qed.

  Definition psb_hash (q : psb_st) : N := (N.of_nat (fst q) * 16 + pst_code (snd q))%N.

  Definition psb_step (q : psb_st) (c : N) : option psb_st :=
    let (n, s) := q in
    if (c =? 44)%N then (if ps_complete s then Some (Nat.min K (S n), PWs) else None)
    else match ptk_step s c with Some s' => Some (n, s') | None => None end.

  Definition psb_acc (q : psb_st) : bool := ps_complete (snd q) && Nat.leb K (fst q).

  (* digits, hex letters, x X, the comma and the six white-space bytes *)
  Definition psb_mask : N := Eval vm_compute in mask_of (L"0123456789abcdefABCDEFxX," ++ [32; 9; 10; 11; 12; 13]%N).

  Definition psb_monitor : monitor := gmon psb_st psb_eqb psb_eqb_eq psb_hash psb_step psb_acc psb_mask.
  Definition psb_q0 : mst psb_monitor := Some (0%nat, PWs).

  Definition part_ok (part : bytes) (s : pst) : Prop :=
    match s with
    | PWs => part = []
    | PZero => part = [48%N]
    | PD n => all_digits part /\ List.length part = n /\ (1 <= n <= 3)%nat
    | PX => exists x, part = [48%N; x] /\ is_x x = true
    | PX1 => exists x h1, part = [48%N; x; h1] /\ is_x x = true /\ is_hex_digit h1 = true
    | PHex => exists x h1 h2, part = [48%N; x; h1; h2] /\ is_x x = true /\ is_hex_digit h1 = true /\
                              is_hex_digit h2 = true
    end.

  Definition with_commas (toks : list bytes) : bytes := concat (map (fun t => t ++ [44%N]) toks).

  Definition psb_inv (w : list N) (q : psb_st) : Prop :=
    exists init w1 part,
      w = with_commas init ++ w1 ++ part /\ Forall ps_token init /\
      fst q = Nat.min K (List.length init) /\ ws w1 /\ part_ok part (snd q).

  Lemma part_ok_complete part s : part_ok part s -> ps_complete s = true -> ps_core part.
  Proof.
    destruct s; cbn [part_ok ps_complete]; try discriminate; intros H _.
    - subst part. right. split; [repeat constructor | unfold blen; cbn [List.length]; lia].
    - destruct H as (Hd & Hl & Hn). right. split; [exact Hd | unfold blen; lia].
    - left. exact H.
  Qed.

  Lemma with_commas_snoc init t : with_commas (init ++ [t]) = with_commas init ++ t ++ [44%N].
  Proof. unfold with_commas. rewrite map_app, concat_app. cbn [map concat]. rewrite app_nil_r. reflexivity. Qed.

  Lemma psb_inv_step w q c q' : psb_inv w q -> psb_step q c = Some q' -> psb_inv (w ++ [c]) q'.
  Proof.
    destruct q as [n s]. intros (init & w1 & part & Hw & Hi & Hn & Hw1 & Hp) Hs. cbn [fst snd] in Hn, Hp.
    cbn [psb_step] in Hs. destruct (N.eqb_spec c 44) as [->|Hc].
    - destruct (ps_complete s) eqn:Ec; [|discriminate Hs]. injection Hs as <-.
      exists (init ++ [w1 ++ part]), [], []. cbn [fst snd].
      split; [rewrite Hw, with_commas_snoc, !app_nil_r, <- !app_assoc; reflexivity|].
      split; [apply Forall_app; split; [exact Hi|]; constructor; [|constructor];
              exists w1, part; split; [reflexivity|]; split; [exact Hw1 | apply (part_ok_complete _ _ Hp Ec)]|].
      split; [rewrite app_length; cbn [List.length]; lia|]. split; [constructor | reflexivity].
    - destruct (ptk_step s c) as [s'|] eqn:Es; [|discriminate Hs]. injection Hs as <-. cbn [fst snd].
      assert (Keep : forall part', part_ok part' s' -> part' = part ++ [c] ->
                psb_inv (w ++ [c]) (n, s')).
      { intros part' Hp' ->. exists init, w1, (part ++ [c]). cbn [fst snd].
        split; [rewrite Hw, <- !app_assoc; reflexivity|]. repeat (split; [assumption|]). exact Hp'. }
      destruct s as [| |k| | |]; cbn [ptk_step part_ok] in Es, Hp.
      + subst part. destruct (is_space_ascii c) eqn:Esp.
        * injection Es as <-. exists init, (w1 ++ [c]), []. cbn [fst snd].
          split; [rewrite Hw, !app_nil_r, <- app_assoc; reflexivity|]. split; [exact Hi|]. split; [exact Hn|].
          split; [apply Forall_app; split; [exact Hw1 | constructor; [exact Esp | constructor]] | reflexivity].
        * destruct (N.eqb_spec c 48) as [->|_].
          -- injection Es as <-. apply (Keep [48%N]); reflexivity.
          -- destruct (is_digit_ascii c) eqn:Ed; [|discriminate Es]. injection Es as <-.
             apply (Keep [c]); [|reflexivity]. cbn [part_ok].
             split; [constructor; [exact Ed | constructor]|]. split; [reflexivity | lia].
      + subst part. destruct (is_x c) eqn:Ex.
        * injection Es as <-. apply (Keep [48%N; c]); [|reflexivity]. exists c. split; [reflexivity | exact Ex].
        * destruct (is_digit_ascii c) eqn:Ed; [|discriminate Es]. injection Es as <-.
          apply (Keep [48%N; c]); [|reflexivity]. cbn [part_ok].
          split; [constructor; [reflexivity | constructor; [exact Ed | constructor]]|]. split; [reflexivity | lia].
      + destruct Hp as (Hd & Hl & Hk). destruct (is_digit_ascii c) eqn:Ed; [|discriminate Es].
        destruct (Nat.ltb_spec k 3) as [Hlt|_]; [|discriminate Es]. injection Es as <-.
        apply (Keep (part ++ [c])); [|reflexivity]. cbn [part_ok].
        split; [apply Forall_app; split; [exact Hd | constructor; [exact Ed | constructor]]|].
        split; [rewrite app_length, Hl; cbn [List.length]; lia | lia].
      + destruct Hp as (x & -> & Hx). destruct (is_hex_digit c) eqn:Eh; [|discriminate Es]. injection Es as <-.
        apply (Keep [48%N; x; c]); [|reflexivity]. exists x, c. repeat split; assumption.
      + destruct Hp as (x & h1 & -> & Hx & Hh1). destruct (is_hex_digit c) eqn:Eh; [|discriminate Es].
        injection Es as <-. apply (Keep [48%N; x; h1; c]); [|reflexivity]. exists x, h1, c. repeat split; assumption.
      + discriminate Es.
  Qed.

  (* the comma does not occur inside a token *)
  Lemma ps_token_no_comma tok : ps_token tok -> Forall (fun c => c <> 44%N) tok.
  Proof.
    intros (w1 & core & -> & Hw1 & Hc). apply Forall_app. split.
    - eapply Forall_impl; [|exact Hw1]. intros c Hsp ->. discriminate Hsp.
    - destruct Hc as [(x & h1 & h2 & -> & Hx & Hh1 & Hh2)|[Hd _]].
      + constructor; [discriminate|]. constructor; [intros ->; discriminate Hx|].
        constructor; [intros ->; discriminate Hh1|]. constructor; [intros ->; discriminate Hh2 | constructor].
      + eapply Forall_impl; [|exact Hd]. intros c Hdg ->. discriminate Hdg.
  Qed.

  Lemma split_on_nosep' sep t : Forall (fun c => c <> sep) t -> split_on sep t = [t].
  Proof.
    induction 1 as [|c t Hc _ IH]; [reflexivity|]. rewrite PercentProofs.split_on_cons, IH.
    apply N.eqb_neq in Hc. rewrite Hc. reflexivity.
  Qed.

  Lemma split_on_with_commas init last :
    Forall (Forall (fun c => c <> 44%N)) init -> Forall (fun c => c <> 44%N) last ->
    split_on 44%N (with_commas init ++ last) = init ++ [last].
  Proof.
    intros Hi Hl. induction Hi as [|t init Ht _ IH]; [apply split_on_nosep', Hl|].
    unfold with_commas in *. cbn [map concat]. rewrite <- !app_assoc. cbn [app].
    rewrite XmlChrProofs.split_on_item by exact Ht. rewrite IH. reflexivity.
  Qed.

  (* MEANING of the monitor (regex independent) *)
  Lemma psb_monitor_meaning w :
    macc psb_monitor (run psb_monitor psb_q0 w) = true ->
    Forall ps_token (split_on 44%N w) /\ (S K <= List.length (split_on 44%N w))%nat.
  Proof.
    intros H. apply (gmon_meaning _ _ psb_eqb_eq _ _ _ _ psb_inv psb_inv_step) in H.
    - destruct H as ([n s] & (init & w1 & part & Hw & Hi & Hn & Hw1 & Hp) & Hacc).
      cbn [fst snd] in Hn, Hp. unfold psb_acc in Hacc. cbn [fst snd] in Hacc.
      apply andb_true_iff in Hacc. destruct Hacc as [Hc Hk]. apply Nat.leb_le in Hk.
      assert (Hlast : ps_token (w1 ++ part)).
      { exists w1, part. split; [reflexivity|]. split; [exact Hw1 | apply (part_ok_complete _ _ Hp Hc)]. }
      rewrite Hw, split_on_with_commas.
      + split; [apply Forall_app; split; [exact Hi | constructor; [exact Hlast | constructor]]|].
        rewrite app_length. cbn [List.length]. unfold bytes in *. lia.
      + eapply Forall_impl; [|exact Hi]. apply ps_token_no_comma.
      + apply ps_token_no_comma, Hlast.
    - exists [], [], []. cbn [fst snd]. split; [reflexivity|]. split; [constructor|].
      split; [cbn [List.length]; lia|]. split; [constructor | reflexivity].
  Qed.
End PsbMonitor.

(* OBLIGATION on the generated regex term (the repeat count is NOT relaxed), by computation *)
Lemma psb_explore :
  explore (psb_monitor 500) shape_fuel RE_powershell_POWERSHELL_BYTES_RE (psb_q0 500) = true.
Proof. vm_cast_no_check (eq_refl true). Time Qed.

Theorem psb_lang_shape w : Lang RE_powershell_POWERSHELL_BYTES_RE w -> ps_shape w.
Proof.
  intros H. apply (psb_monitor_meaning 500).
  apply (explore_sound_nowf (psb_monitor 500) shape_fuel _ _ psb_explore w H).
Qed.

(* --- the conversion of one array can only fail with an exception the handler catches --- *)
Definition caught (e : label) : Prop := beqb e py_value_error || beqb e unicode_decode_error = true.

Lemma mapM_caught {A B} (f : A -> res B) (P : B -> Prop) (E : label -> Prop) l :
  (forall x, (exists y, f x = Ok y /\ P y) \/ (exists e, f x = Raise e /\ E e)) ->
  (exists ys, mapM f l = Ok ys /\ Forall P ys) \/ (exists e, mapM f l = Raise e /\ E e).
Proof.
  intros Hf. induction l as [|x l IH]; [left; exists []; split; [reflexivity | constructor]|].
  cbn [mapM]. destruct (Hf x) as [(y & -> & Hy)|(e & -> & He)]; cbn [bind]; [|right; exists e; split; [reflexivity | exact He]].
  destruct IH as [(ys & -> & Hys)|(e & -> & He)]; cbn [bind].
  - left. exists (y :: ys). split; [reflexivity | constructor; assumption].
  - right. exists e. split; [reflexivity | exact He].
Qed.

Lemma int_of_bytes_cases base b : (exists v, int_of_bytes base b = Ok v) \/ int_of_bytes base b = Raise py_value_error.
Proof.
  unfold int_of_bytes. destruct (int_parse base b) as [[v cnt]|]; [|right; reflexivity].
  destruct ((base =? 10) && (MAX_STR_DIGITS <? cnt)); [right; reflexivity | left; exists v; reflexivity].
Qed.

Lemma ps_tok_decode_cases tok :
  (exists n, (do z <- decode_byte tok; byte_of_int z) = Ok n /\ (n < 256)%N) \/
  (exists e, (do z <- decode_byte tok; byte_of_int z) = Raise e /\ caught e).
Proof.
  unfold decode_byte, decode_ascii.
  destruct (forallb (fun c => (c <? 128)%N) (strip tok)); cbn [bind];
    [|right; exists unicode_decode_error; split; reflexivity].
  destruct (int_of_bytes_cases (if startswith (strip tok) (L"0x") then 16 else 10) (strip tok)) as [[v ->]| ->];
    cbn [bind]; [|right; exists py_value_error; split; reflexivity].
  unfold byte_of_int. destruct (Z.ltb_spec v 0) as [H0|H0]; cbn [orb];
    [right; exists py_value_error; split; reflexivity|].
  destruct (Z.ltb_spec 255 v) as [H1|H1]; [right; exists py_value_error; split; reflexivity|].
  left. exists (Z.to_N v). split; [reflexivity | lia].
Qed.

(* for ANY text: the byte values, or None when some token is not a byte (ValueError, caught) *)
Theorem ps_binary_total t :
  exists o, ps_binary t = Ok o /\ match o with Some b => wf_bytes b | None => True end.
Proof.
  unfold ps_binary.
  destruct (mapM_caught (fun tok => do z <- decode_byte tok; byte_of_int z) (fun n => (n < 256)%N) caught
              (split_on 44%N t) ps_tok_decode_cases) as [(ys & -> & Hys)|(e & -> & He)].
  - exists (Some ys). split; [reflexivity | exact Hys].
  - unfold caught in He. rewrite He. exists None. split; [reflexivity | exact I].
Qed.

(* --- the two spellings of the hex prefix --- *)
Lemma split_on_keeps' (P : N -> Prop) sep s : Forall P s -> Forall (Forall P) (split_on sep s).
Proof.
  induction 1 as [|x r Hx _ IH]; [repeat constructor|]. rewrite PercentProofs.split_on_cons.
  destruct (split_on sep r) as [|h t]; [repeat constructor; exact Hx|].
  inversion IH as [|? ? Hh Ht]; subst. destruct (x =? sep)%N; constructor; try assumption; constructor; assumption.
Qed.

Lemma split_on_exists c sep s : In c s -> c <> sep -> Exists (In c) (split_on sep s).
Proof.
  intros Hin Hne. induction s as [|x r IH]; [destruct Hin|]. rewrite PercentProofs.split_on_cons.
  destruct (split_on sep r) as [|h t] eqn:E; [elim (PercentProofs.split_on_nonempty sep r E)|].
  destruct (N.eqb_spec x sep) as [->|Hx].
  - destruct Hin as [->|Hin]; [congruence|]. apply Exists_cons_tl, IH, Hin.
  - destruct Hin as [->|Hin]; [apply Exists_cons_hd; left; reflexivity|].
    specialize (IH Hin). inversion IH as [? ? Hh|? ? Ht]; subst.
    + apply Exists_cons_hd. right. exact Hh.
    + apply Exists_cons_tl. exact Ht.
Qed.

Lemma is_hex_digit_val c : is_hex_digit c = true -> exists v, hex_digit_val c = Some v.
Proof. unfold is_hex_digit. destruct (hex_digit_val c) as [v|]; [exists v; reflexivity | discriminate]. Qed.

(* int("0X" h1 h2, 10): ValueError *)
Lemma int10_0X_two_hex h1 h2 :
  is_hex_digit h1 = true -> is_hex_digit h2 = true -> int_of_bytes 10 [48; 88; h1; h2]%N = Raise py_value_error.
Proof.
  intros H1 H2. destruct (is_hex_digit_val _ H1) as [x Hx]. destruct (is_hex_digit_val _ H2) as [y Hy].
  assert (F : forallb (fun a => forallb (fun b =>
                implb (is_hex_digit a && is_hex_digit b)
                      (match int_of_bytes 10 [48; 88; a; b]%N with Raise e => beqb e py_value_error | _ => false end))
                (map N.of_nat (seq 0 128))) (map N.of_nat (seq 0 128)) = true)
    by (vm_compute; reflexivity).
  rewrite forallb_forall in F. specialize (F h1 (in_range 128 h1 (hex_digit_small h1 x Hx))).
  rewrite forallb_forall in F. specialize (F h2 (in_range 128 h2 (hex_digit_small h2 y Hy))).
  rewrite H1, H2 in F. cbn [andb implb] in F.
  destruct (int_of_bytes 10 [48; 88; h1; h2]%N) as [z|e|]; try discriminate F.
  apply beqb_eq in F. subst e. reflexivity.
Qed.

Lemma tok_capital_x_raises w1 h1 h2 :
  ws w1 -> is_hex_digit h1 = true -> is_hex_digit h2 = true ->
  (do z <- decode_byte (w1 ++ [48; 88; h1; h2]%N); byte_of_int z) = Raise py_value_error.
Proof.
  intros Hw H1 H2. destruct (is_hex_digit_val _ H1) as [x Hx]. destruct (is_hex_digit_val _ H2) as [y Hy].
  unfold decode_byte. rewrite <- (app_nil_r [48; 88; h1; h2]%N).
  rewrite strip_core; [|exact Hw | constructor | discriminate|].
  2:{ repeat constructor; try reflexivity; eapply hex_digit_not_space; eassumption. }
  unfold decode_ascii.
  assert (Ha : forallb (fun c => (c <? 128)%N) [48; 88; h1; h2]%N = true).
  { cbn [forallb]. pose proof (hex_digit_small h1 x Hx). pose proof (hex_digit_small h2 y Hy).
    replace (h1 <? 128)%N with true by (symmetry; apply N.ltb_lt; assumption).
    replace (h2 <? 128)%N with true by (symmetry; apply N.ltb_lt; assumption). reflexivity. }
  rewrite Ha. cbn [bind]. replace (startswith [48; 88; h1; h2]%N (L"0x")) with false by reflexivity.
  rewrite int10_0X_two_hex by assumption. reflexivity.
Qed.

(* THE KNOWN QUIRK: an array that spells one prefix with a capital X is matched by the (case-insensitive)
   pattern but never decoded - int("0X41", 10) raises ValueError, which the handler takes for
   "byte not in range" and skips the whole array *)
Theorem ps_binary_capital_x t :
  Forall ps_token (split_on 44%N t) -> In 88%N t -> ps_binary t = Ok None.
Proof.
  intros Ht Hin. destruct (ps_binary_total t) as (o & E & _). destruct o as [b|]; [exfalso | exact E].
  unfold ps_binary in E.
  destruct (mapM (fun tok => do z <- decode_byte tok; byte_of_int z) (split_on 44%N t)) as [ys|e|] eqn:Em;
    [|destruct (beqb e py_value_error || beqb e unicode_decode_error); discriminate E | discriminate E].
  pose proof (split_on_exists 88%N 44%N t Hin ltac:(discriminate)) as Hex.
  apply Exists_exists in Hex. destruct Hex as (tok & Htok & H88).
  destruct (mapM_ok_nth _ _ _ Em tok Htok) as (y & _ & Ey).
  rewrite Forall_forall in Ht. destruct (Ht tok Htok) as (w1 & core & -> & Hw1 & Hc).
  apply in_app_or in H88. destruct H88 as [H88|H88].
  { unfold ws in Hw1. rewrite Forall_forall in Hw1. specialize (Hw1 _ H88). discriminate Hw1. }
  destruct Hc as [(x & h1 & h2 & -> & Hx & Hh1 & Hh2)|[Hd _]].
  - assert (x = 88%N) as ->.
    { destruct H88 as [H|[H|[H|[H|[]]]]]; [discriminate H | exact H | subst h1; discriminate Hh1 | subst h2; discriminate Hh2]. }
    rewrite tok_capital_x_raises in Ey by assumption. discriminate Ey.
  - unfold all_digits in Hd. rewrite Forall_forall in Hd. specialize (Hd _ H88). discriminate Hd.
Qed.

(* without a capital X every token has one of the two shapes of B64HexProofs.ps_tok, so ps_binary_spec applies:
   the value is exactly the list of the numbers the tokens denote *)
Lemma ps_token_lower_tok tok : ps_token tok -> ~ In 88%N tok -> exists v, ps_tok tok v.
Proof.
  intros (w1 & core & -> & Hw1 & Hc) Hno. destruct Hc as [(x & h1 & h2 & -> & Hx & Hh1 & Hh2)|[Hd Hl]].
  - destruct (is_hex_digit_val _ Hh1) as [a Ha]. destruct (is_hex_digit_val _ Hh2) as [b Hb].
    assert (x = 120%N) as ->.
    { unfold is_x in Hx. apply orb_true_iff in Hx. destruct Hx as [Hx|Hx]; apply N.eqb_eq in Hx; [exact Hx|].
      subst x. exfalso. apply Hno. apply in_or_app. right. right. left. reflexivity. }
    eexists. apply (ps_tok_hex w1 [] h1 h2 a b Hw1 ltac:(constructor) Ha Hb).
  - exists (dec_value core). replace (w1 ++ core) with (w1 ++ core ++ []) by (rewrite app_nil_r; reflexivity).
    apply ps_tok_dec; [exact Hw1 | constructor | exact Hd | exact Hl].
Qed.

Theorem ps_binary_lower t :
  Forall ps_token (split_on 44%N t) -> ~ In 88%N t ->
  exists vals, Forall2 ps_tok (split_on 44%N t) vals /\
               ps_binary t = Ok (if forallb (fun v => v <=? 255) vals then Some (map Z.to_N vals) else None).
Proof.
  intros Ht Hno.
  assert (Hk : Forall (Forall (fun c => c <> 88%N)) (split_on 44%N t)).
  { apply split_on_keeps'. apply Forall_forall. intros c Hc ->. exact (Hno Hc). }
  assert (Hex : Forall (fun tok => exists v, ps_tok tok v) (split_on 44%N t)).
  { rewrite Forall_forall in Ht, Hk. apply Forall_forall. intros tok Hin.
    apply (ps_token_lower_tok tok (Ht tok Hin)). intros H88. specialize (Hk tok Hin).
    rewrite Forall_forall in Hk. exact (Hk _ H88 eq_refl). }
  destruct (Forall_exists_Forall2 _ _ Hex) as (vals & F). exists vals. split; [exact F|].
  apply ps_binary_spec, F.
Qed.

Section PsbTotal.
  Variable xortool : bytes -> list bytes.

  Definition psb_node_ok (data : bytes) (n : node) : Prop :=
    n_ty n = L"powershell.bytes" /\ n_obf n = [] /\
    0 <= n_st n /\ n_st n <= n_en n /\ n_en n <= blen data /\
    ps_shape (slice data (n_st n) (n_en n)) /\
    ps_binary (slice data (n_st n) (n_en n)) = Ok (Some (n_val n)) /\ wf_bytes (n_val n) /\
    exists key, get_xorkey data = Ok key /\ key_ok key /\ n_kids n = ps_kids xortool data key (n_val n).

  Lemma find_powershell_bytes_post_cases data ms :
    Forall (fun m => span_ok data m /\ grp_ok data m 0 ps_shape) ms ->
    find_powershell_bytes_post xortool data ms = Hang \/
    exists out, find_powershell_bytes_post xortool data ms = Ok out /\ Forall (psb_node_ok data) out.
  Proof.
    induction 1 as [|m ms [Hs Hg] _ IH]; [right; exists []; split; [reflexivity | constructor]|].
    cbn [find_powershell_bytes_post]. rewrite group_arg_ok by (apply (span_ok_participates _ _ Hs)). cbn [bind].
    destruct (ps_binary_total (group data m 0)) as (o & Eb & Hwf). rewrite Eb. cbn [bind].
    destruct o as [binary|].
    - destruct (get_xorkey_cases data) as [Hx|(key & Hx & Hk)]; rewrite Hx; cbn [bind]; [left; reflexivity|].
      assert (Hhd : exists nd, (match truthy_key key with
                     | Some k => do nd' <- apply_xor_key k binary
                                   (Node POWERSHELL_BYTES_TYPE binary [] (m_start m 0) (m_end m 0) []) POWERSHELL_BYTES_TYPE;
                                 Ok (Some nd')
                     | None =>
                         if contains data (L"-bxor") then
                           match xortool binary with
                           | p :: _ => Ok (Some (set_kids (Node POWERSHELL_BYTES_TYPE binary [] (m_start m 0) (m_end m 0) [])
                                                   [Node POWERSHELL_BYTES_TYPE p (L"cipher.multibyte_xor") 0 (blen binary) []]))
                           | [] => Ok (Some (Node POWERSHELL_BYTES_TYPE binary [] (m_start m 0) (m_end m 0) []))
                           end
                         else Ok (Some (Node POWERSHELL_BYTES_TYPE binary [] (m_start m 0) (m_end m 0) []))
                     end) = Ok (Some nd) /\
                     nd = Node POWERSHELL_BYTES_TYPE binary [] (m_start m 0) (m_end m 0) (ps_kids xortool data key binary)).
      { unfold ps_kids. destruct (truthy_key key) as [k|] eqn:Et.
        - rewrite apply_xor_key_spec; [|pose proof (truthy_key_ok _ _ Hk Et); lia | exact Hwf].
          cbn [bind]. eexists. split; reflexivity.
        - destruct (contains data (L"-bxor")); [|eexists; split; reflexivity].
          destruct (xortool binary); eexists; split; reflexivity. }
      destruct Hhd as (nd & -> & End). cbn [bind].
      destruct IH as [-> |(out & -> & Hout)]; cbn [bind]; [left; reflexivity | right].
      exists (nd :: out). split; [reflexivity|]. constructor; [|exact Hout].
      destruct (grp_ok_bounds _ _ _ _ Hg) as (B0 & B1 & B2 & Eg).
      pose proof (grp_ok_text _ _ _ _ Hg) as Hshape. rewrite Eg in Hshape, Eb.
      rewrite End. unfold psb_node_ok. cbn [n_ty n_obf n_kids n_st n_en n_val].
      split; [reflexivity|]. split; [reflexivity|]. split; [exact B0|]. split; [exact B1|]. split; [exact B2|].
      split; [exact Hshape|]. split; [exact Eb|]. split; [exact Hwf|].
      exists key. split; [exact Hx|]. split; [exact Hk | reflexivity].
    - destruct IH as [-> |(out & -> & Hout)]; cbn [bind]; [left; reflexivity | right].
      exists out. split; [reflexivity | exact Hout].
  Qed.

  (* END TO END, for any total oracle xortool *)
  Theorem find_powershell_bytes_total : forall data,
    find_powershell_bytes xortool data = Hang \/
    exists nodes, find_powershell_bytes xortool data = Ok nodes /\ Forall (psb_node_ok data) nodes.
  Proof.
    intros data. unfold find_powershell_bytes.
    destruct (fi_cases RE_powershell_POWERSHELL_BYTES_RE NG_powershell_POWERSHELL_BYTES_RE data)
      as [H|(ms & Hfi & Hok & _)]; [left; rewrite H; reflexivity|]. rewrite Hfi. cbn [bind].
    apply find_powershell_bytes_post_cases. eapply Forall_impl; [|exact Hok]. intros m Hm.
    split; [apply (mtch_ok_span_ok _ _ _ _ Hm)|]. apply (mtch_ok_grp0 _ _ _ _ ps_shape Hm psb_lang_shape).
  Qed.
End PsbTotal.

(* ------------------------------------------------------------------ *)
(* 6.  Windows paths: a text that begins with two separators has four   *)
(* ------------------------------------------------------------------ *)
(* state: length so far (up to 2), "every byte so far is a separator" (frozen after two bytes),
   number of separators so far (up to 4).  A slash counts as a separator, as in replace_altsep. *)
Definition wp_st := (nat * bool * nat)%type.

Definition wp_step (q : wp_st) (k : N) : wp_st :=
  let '(l, u, n) := q in
  let s := (k =? 1)%N in
  (Nat.min 2 (S l), if Nat.ltb l 2 then u && s else u, if s then Nat.min 4 (S n) else n).

Definition wp_acc (q : wp_st) : bool :=
  let '(l, u, n) := q in negb (Nat.eqb l 2 && u) || Nat.eqb n 4.

Definition wp_eqb (a b : wp_st) : bool :=
  let '(l, u, n) := a in let '(l', u', n') := b in Nat.eqb l l' && Bool.eqb u u' && Nat.eqb n n'.

Definition wp_monitor : monitor.
Proof.
  refine {| mst := wp_st; meqb := wp_eqb;
            mhash := fun q => let '(l, u, n) := q in (N.of_nat l * 16 + N.of_nat n * 2 + (if u then 1 else 0))%N;
            mclass := fun c => if is_sep c then 1%N else 0%N;
            mstep := wp_step; macc := wp_acc; mtop := fun _ => false |}.
  - intros [[l u] n] [[l' u'] n'] H. cbn [wp_eqb] in H.
    apply andb_true_iff in H. destruct H as [H H3]. apply andb_true_iff in H. destruct H as [H1 H2].
    apply Nat.eqb_eq in H1, H3. apply eqb_prop in H2. subst. reflexivity.
  - intros q H. discriminate H.
Defined.

Definition wp_q0 : mst wp_monitor := (0%nat, true, 0%nat).

Definition wp_summary (w : bytes) : wp_st :=
  (Nat.min 2 (List.length w), forallb is_sep (firstn 2 w), Nat.min 4 (count_sep (replace_altsep w))).

Lemma replace_altsep_app a b : replace_altsep (a ++ b) = replace_altsep a ++ replace_altsep b.
Proof. unfold replace_altsep. apply map_app. Qed.

Lemma count_sep_altsep1 c : count_sep (replace_altsep [c]) = if is_sep c then 1%nat else 0%nat.
Proof.
  unfold count_sep, replace_altsep, is_sep. cbn [map filter].
  destruct (N.eqb_spec c ALTSEP) as [->|Ha]; [reflexivity|]. rewrite orb_false_r.
  destruct (c =? SEP)%N; reflexivity.
Qed.

Lemma wp_run w : run wp_monitor wp_q0 w = wp_summary w.
Proof.
  induction w as [|c w IH] using rev_ind; [reflexivity|]. rewrite run_snoc, IH. unfold wp_summary.
  cbn [wp_monitor mstep mclass wp_step].
  rewrite app_length, firstn_app, forallb_app, replace_altsep_app, count_sep_app, count_sep_altsep1.
  cbn [List.length]. f_equal; [f_equal|].
  - lia.
  - destruct (Nat.ltb_spec (Nat.min 2 (List.length w)) 2) as [Hlt|Hge].
    + replace (2 - List.length w)%nat with (S (1 - List.length w)) by lia.
      change (firstn (S (1 - List.length w)) [c]) with (c :: firstn (1 - List.length w) []).
      rewrite firstn_nil. cbn [forallb]. rewrite andb_true_r. destruct (is_sep c); reflexivity.
    + replace (2 - List.length w)%nat with 0%nat by lia. change (firstn 0 [c]) with (@nil N).
      cbn [forallb]. rewrite andb_true_r. reflexivity.
  - destruct (is_sep c); cbn [N.eqb Pos.eqb]; lia.
Qed.

(* MEANING of the monitor (regex independent) *)
Lemma wp_monitor_meaning w : macc wp_monitor (run wp_monitor wp_q0 w) = true -> wpath_text_ok w.
Proof.
  rewrite wp_run. unfold wp_summary, wpath_text_ok. cbn [wp_monitor macc wp_acc]. intros H Hs.
  unfold startswith, PFX_UNC, replace_altsep in Hs.
  destruct w as [|a [|b r]]; cbn [map prefixb] in Hs; [discriminate Hs | rewrite andb_false_r in Hs; discriminate Hs|].
  apply andb_true_iff in Hs. destruct Hs as [Ha Hs]. apply andb_true_iff in Hs. destruct Hs as [Hb _].
  assert (Sa : is_sep a = true).
  { unfold is_sep. destruct (a =? ALTSEP)%N; [apply orb_true_r|]. rewrite N.eqb_sym, Ha. reflexivity. }
  assert (Sb : is_sep b = true).
  { unfold is_sep. destruct (b =? ALTSEP)%N; [apply orb_true_r|]. rewrite N.eqb_sym, Hb. reflexivity. }
  change (Nat.min 2 (List.length (a :: b :: r))) with 2%nat in H.
  cbn [firstn forallb] in H. rewrite Sa, Sb in H. cbn [andb negb orb Nat.eqb] in H.
  apply Nat.eqb_eq in H. lia.
Qed.

(* OBLIGATION on the generated regex term, by computation *)
Lemma wpath_explore : explore wp_monitor shape_fuel RE_path_WINDOWS_PATH_RE wp_q0 = true.
Proof. vm_cast_no_check (eq_refl true). Time Qed.

Theorem wpath_lang_shape w : Lang RE_path_WINDOWS_PATH_RE w -> wpath_text_ok w.
Proof.
  intros H. apply wp_monitor_meaning. apply (explore_sound_nowf wp_monitor shape_fuel _ _ wpath_explore w H).
Qed.

(* END TO END, for any is_domain: never raises (the IndexError of segments[..] is unreachable) *)
Definition wpath_node_ok (data : bytes) (n : node) : Prop :=
  0 <= n_st n /\ n_st n <= n_en n /\ n_en n <= blen data /\
  wpath_text_ok (slice data (n_st n) (n_en n)) /\
  n_val n = ntpath_normpath (slice data (n_st n) (n_en n)) /\
  (n_obf n = DOTPATH_OBF <-> blen (n_val n) < n_en n - n_st n) /\
  (n_obf n = [] <-> n_en n - n_st n <= blen (n_val n)) /\
  Forall (child_in_bounds (n_val n)) (n_kids n) /\
  Forall (child_faithful (n_val n)) (n_kids n).

Theorem find_windows_path_total : forall is_domain data,
  find_windows_path is_domain data = Hang \/
  exists nodes, find_windows_path is_domain data = Ok nodes /\ Forall (wpath_node_ok data) nodes.
Proof.
  intros is_domain data. unfold find_windows_path.
  destruct (fi_cases RE_path_WINDOWS_PATH_RE NG_path_WINDOWS_PATH_RE data) as [H|(ms & Hfi & Hok & _)];
    [left; rewrite H; reflexivity | right]. rewrite Hfi. cbn [bind].
  assert (Hms : Forall (fun m => grp_ok data m 0 wpath_text_ok) ms).
  { eapply Forall_impl; [|exact Hok]. intros m Hm. apply (mtch_ok_grp0 _ _ _ _ wpath_text_ok Hm wpath_lang_shape). }
  destruct (find_windows_path_post_total is_domain data ms) as [ns Hns].
  { eapply Forall_impl; [|exact Hms]. intros m Hg. apply (grp_ok_text _ _ _ _ Hg). }
  exists ns. split; [exact Hns|].
  pose proof (find_windows_path_post_spec is_domain data ms ns Hns) as F.
  revert F. apply Forall2_Forall_r. intros m n Hin Hn. rewrite Forall_forall in Hms. specialize (Hms m Hin).
  destruct (grp_ok_bounds _ _ _ _ Hms) as (B0 & B1 & B2 & Eg).
  pose proof (grp_ok_text _ _ _ _ Hms) as Ht.
  unfold windows_node_ok in Hn. cbv zeta in Hn. destruct Hn as (Hv & Hs & He & Ho1 & Ho2 & Hb & Hf).
  assert (Hlen : blen (group data m 0) = n_en n - n_st n).
  { rewrite Eg, Hs, He. apply blen_slice; assumption. }
  rewrite Hlen in Ho1, Ho2. rewrite Eg, <- Hs, <- He in Ht, Hv. rewrite <- Hs in B0, B1. rewrite <- He in B1, B2.
  unfold wpath_node_ok. repeat (split; [assumption|]). exact Hf.
Qed.

(* ------------------------------------------------------------------ *)
(* 7.  PE files, file names, POSIX paths                               *)
(* ------------------------------------------------------------------ *)
(* the two-byte pattern of find_pe_files matches exactly the MZ signature *)
Definition mz_mask : N := Eval vm_compute in mask_of MZ_SIG.

Definition mz_monitor : monitor :=
  gmon (list N) beqb beqb_true_eq bytes_hash pst_step (fun w => beqb w MZ_SIG) mz_mask.
Definition mz_q0 : mst mz_monitor := Some [].

Lemma mz_monitor_meaning w : macc mz_monitor (run mz_monitor mz_q0 w) = true -> w = MZ_SIG.
Proof.
  intros H. apply (gmon_meaning _ _ beqb_true_eq _ _ _ _ (fun w s => s = w)) in H.
  - destruct H as (s & -> & Hacc). apply beqb_eq, Hacc.
  - intros w0 s c s' -> Hs. unfold pst_step in Hs. destruct (Nat.ltb _ _); [|discriminate Hs].
    injection Hs as <-. reflexivity.
  - reflexivity.
Qed.

Lemma mz_explore : explore mz_monitor shape_fuel RE_pe_file_find_pe_files_0 mz_q0 = true.
Proof. vm_cast_no_check (eq_refl true). Time Qed.

Theorem mz_lang_shape w : Lang RE_pe_file_find_pe_files_0 w -> w = MZ_SIG.
Proof.
  intros H. apply mz_monitor_meaning. apply (explore_sound_nowf mz_monitor shape_fuel _ _ mz_explore w H).
Qed.

Lemma pe_matches_ok data ms :
  fi RE_pe_file_find_pe_files_0 NG_pe_file_find_pe_files_0 data = Ok ms -> pe_ms_ok data ms.
Proof.
  intros Hfi. destruct (fi_cases RE_pe_file_find_pe_files_0 NG_pe_file_find_pe_files_0 data)
    as [H|(ms' & Hfi' & Hok & _)]; [congruence|]. rewrite Hfi in Hfi'. injection Hfi' as <-.
  unfold pe_ms_ok. eapply Forall_impl; [|exact Hok]. intros m Hm.
  pose proof (mtch_ok_grp0 _ _ _ _ (fun w => w = MZ_SIG) Hm mz_lang_shape) as Hg.
  destruct (grp_ok_bounds _ _ _ _ Hg) as (B0 & B1 & B2 & Eg). pose proof (grp_ok_text _ _ _ _ Hg) as Ht.
  cbv beta in Ht. rewrite Eg in Ht. split; [exact B0|].
  assert (Hl : blen (slice data (m_start m 0) (m_end m 0)) = 2) by (rewrite Ht; reflexivity).
  rewrite blen_slice in Hl by assumption. replace (m_start m 0 + 2) with (m_end m 0) by lia. exact Ht.
Qed.

(* END TO END, for ANY oracle pe_size: never raises (struct.error is unreachable) *)
Theorem find_pe_files_total : forall pe_size data,
  find_pe_files pe_size data = Hang \/
  exists nodes, find_pe_files pe_size data = Ok nodes /\ Forall (pe_node_ok data) nodes /\
                ((forall b, 0 <= pe_size b) ->
                 Forall (fun n => 0 <= n_st n /\ n_st n < n_en n /\ n_en n <= blen data /\ n_val n <> []) nodes).
Proof.
  intros pe_size data. unfold find_pe_files.
  destruct (fi RE_pe_file_find_pe_files_0 NG_pe_file_find_pe_files_0 data) as [ms|e|] eqn:Hfi;
    [right | exfalso; apply (fi_not_raise _ _ _ _ Hfi) | left; reflexivity].
  cbn [bind]. pose proof (pe_matches_ok data ms Hfi) as Hok.
  destruct (find_pe_files_post_total pe_size data ms) as [ns Hns].
  { eapply Forall_impl; [|exact Hok]. intros m [H0 _]. exact H0. }
  exists ns. split; [exact Hns|]. split.
  - apply (find_pe_files_post_spec pe_size data ms ns Hok Hns).
  - intros Hpos. apply (find_pe_files_post_spans pe_size data ms ns Hpos Hok Hns).
Qed.

(* the regex_hits decoders: the value is the matched text, a word of the pattern *)
Definition hit_node_ok (r : re) (lbl : label) (data : bytes) (n : node) : Prop :=
  n_ty n = lbl /\ n_obf n = [] /\ n_kids n = [] /\
  0 <= n_st n /\ n_st n <= n_en n /\ n_en n <= blen data /\
  n_val n = slice data (n_st n) (n_en n) /\ Lang r (n_val n).

Lemma regex_hits_total r ng lbl data :
  (do ms <- fi r ng data; regex_hits_post lbl data ms) = Hang \/
  exists nodes, (do ms <- fi r ng data; regex_hits_post lbl data ms) = Ok nodes /\
                Forall (hit_node_ok r lbl data) nodes.
Proof.
  destruct (fi_cases r ng data) as [H|(ms & Hfi & Hok & _)]; [left; rewrite H; reflexivity | right].
  rewrite Hfi. cbn [bind]. eexists. split; [reflexivity|]. apply Forall_map.
  eapply Forall_impl; [|exact Hok]. intros m Hm.
  pose proof (mtch_ok_grp0 _ _ _ _ (Lang r) Hm (fun w H => H)) as Hg.
  destruct (grp_ok_bounds _ _ _ _ Hg) as (B0 & B1 & B2 & Eg). pose proof (grp_ok_text _ _ _ _ Hg) as Ht.
  unfold hit_node_ok, match_to_hit. cbn [n_ty n_obf n_kids n_st n_en n_val].
  repeat (split; [reflexivity || assumption|]). exact Ht.
Qed.

Theorem find_executable_name_total : forall data,
  find_executable_name data = Hang \/
  exists nodes, find_executable_name data = Ok nodes /\
                Forall (hit_node_ok RE_filename_EXECUTABLE_RE (L"executable.filename") data) nodes.
Proof. intros data. apply regex_hits_total. Qed.

Theorem find_library_total : forall data,
  find_library data = Hang \/
  exists nodes, find_library data = Ok nodes /\
                Forall (hit_node_ok RE_filename_LIBRARY_RE (L"executable.library.filename") data) nodes.
Proof. intros data. apply regex_hits_total. Qed.

Theorem find_path_total : forall data,
  find_path data = Hang \/
  exists nodes, find_path data = Ok nodes /\ Forall (hit_node_ok RE_path_PATH_RE (L"path") data) nodes.
Proof. intros data. apply regex_hits_total. Qed.

(* ------------------------------------------------------------------ *)
(* 8.  Examples                                                        *)
(* ------------------------------------------------------------------ *)
(* language membership (derivative matcher on the generated term) = regex.fullmatch in Python 3.12 /
   regex 2023 for the same bytes, and what the monitors say about the same words *)
Example hex_py1 : map (matchb RE_hex_HEX_RE)
    [L"0123456789abcdefabcd"; L"0123456789abcdefab"; L"0123456789abcdefabcd0"; L"0123456789ABCDEFABCD";
     L"0123456789abcdefABCD"; L"0123456789abcdefabcg"] = [true; false; false; true; false; false].
Proof. vm_compute. reflexivity. Qed.
Example fromhex_py1 : map (matchb RE_hex_FROMHEXSTRING_RE)
    [L"FromHexString('0123456789abcdefABCD')"; L"[System.Convert]::fromhexstring('00112233445566778899')";
     L"FromHexString('0011223344556677889')"] = [true; true; false].
Proof. vm_compute. reflexivity. Qed.
Example atob_py1 : map (matchb RE_base64_ATOB_RE)
    [L"atob('QUJD')"; L"atob('QUJD===')"; L"atob('')"; L"atob('QU=JD')"] = [true; false; false; false].
Proof. vm_compute. reflexivity. Qed.
Example b64dec_py1 : map (matchb RE_base64_BASE64DECODE_RE)
    [L"base64decode('qujd=')"; L"Base64Decode('QU-D')"] = [true; false].
Proof. vm_compute. reflexivity. Qed.
Example fromb64_py1 : map (matchb RE_base64_FROMB64STRING_RE)
    [L"[System.Convert]::FromBase64String('QUJD')"; L"FromBase64String('QQ===')"] = [true; false].
Proof. vm_compute. reflexivity. Qed.
Example xor_py1 : map (matchb RE_xor_helper_XOR_RE)
    [L"-bxor 12"; L"-XOR123"; L"-bxor 1234"; L"-bxor"; [45; 120; 111; 114; 9; 10; 55]%N] = [true; true; false; false; true].
Proof. vm_compute. reflexivity. Qed.
Example psb_py1 : map (matchb RE_powershell_POWERSHELL_BYTES_RE)
    [rep_bytes 500 (L"1,") ++ L"2"; rep_bytes 499 (L"1,") ++ L"2"; rep_bytes 500 (L"0x41, ") ++ L"0X42";
     rep_bytes 500 (L"1,") ++ L"0x4"; rep_bytes 500 (L"1 ,") ++ L"2"; rep_bytes 500 (L" 1,") ++ L"2";
     rep_bytes 500 [49; 44; 10; 9; 32]%N ++ L"255"] = [true; false; true; false; false; false; true].
Proof. vm_compute. reflexivity. Qed.
Example wpath_py1 : map (matchb RE_path_WINDOWS_PATH_RE)
    [[67; 58; 92; 87; 105; 110; 100; 111; 119; 115; 92; 115; 121; 115; 116; 101; 109; 51; 50; 92; 99; 109; 100; 46; 101; 120; 101]%N;
     [92; 92; 115; 101; 114; 118; 101; 114; 92; 115; 104; 97; 114; 101; 92; 102; 105; 108; 101; 46; 116; 120; 116]%N;
     [92; 92; 46; 92; 67; 58; 92; 100; 105; 114; 92; 102; 105; 108; 101; 46; 116; 120; 116]%N;
     [92; 92; 97; 98]%N;
     [92; 92; 63; 92; 85; 78; 67; 92; 104; 111; 115; 116; 92; 99; 36; 92; 100; 105; 114; 92; 102; 105; 108; 101]%N;
     [46; 46; 92; 46; 46; 92; 97; 98; 99]%N;
     [92; 92; 104; 111; 115; 116; 64; 83; 83; 76; 64; 56; 48; 56; 48; 92; 100; 105; 114; 92; 102; 105; 108; 101]%N;
     [92; 92; 92; 97; 98; 99; 92; 100; 101; 102]%N;
     [100; 105; 114; 92; 102; 105; 108; 101]%N]
    = [true; true; true; false; true; true; true; false; true].
Proof. vm_compute. reflexivity. Qed.
Example mz_py1 : map (matchb RE_pe_file_find_pe_files_0) [L"MZ"; L"mz"; L"M"; L"MZZ"] = [true; false; false; false].
Proof. vm_compute. reflexivity. Qed.
Example base64_py1 : map (matchb RE_base64_BASE64_RE)
    [rep_bytes 5 (L"QUJD") ++ L"QQ=="; rep_bytes 5 (L"QUJD") ++ L"Q"; rep_bytes 5 [81; 85; 74; 68; 13; 10]%N ++ L"QUJD";
     rep_bytes 5 (L"QUJD&#13;&#10;") ++ L"QUJD"; rep_bytes 5 [81; 85; 74; 68; 60; 0; 32; 32; 0]%N ++ L"QU=";
     rep_bytes 5 [81; 85; 74; 10]%N ++ L"QUJD"] = [true; false; true; true; true; false].
Proof. vm_compute. reflexivity. Qed.

Definition b64arg_acc (w : list N) : bool := macc b64arg_monitor (run b64arg_monitor b64arg_q0 w).
Example b64arg_acc1 : map b64arg_acc [L"QUJD"; L"QUJD=="; L"QUJD==="; L"QU=JD"; L"QU-D"; []] = [true; true; false; false; false; true].
Proof. vm_compute. reflexivity. Qed.
Definition key_acc (w : list N) : bool :=
  macc (count_monitor digit_mask 1 3) (run (count_monitor digit_mask 1 3) (count_q0 digit_mask 1 3) w).
Example key_acc1 : map key_acc [L"7"; L"007"; L"999"; L"1234"; L"1a"; []] = [true; true; true; false; false; false].
Proof. vm_compute. reflexivity. Qed.
Definition psb2_acc (w : list N) : bool := macc (psb_monitor 2) (run (psb_monitor 2) (psb_q0 2) w).
Example psb2_acc1 : map psb2_acc [L"1,2,3"; [48; 120; 52; 49; 44; 32; 48; 88; 52; 50; 44; 9; 55]%N; L"1,2"; L"0x4,1,2"; L"1,2,3,";
                                  L"1,,2,3"; L"1 ,2,3"; L"1,2,3,4"; L"0,00,000,0x00"; L"0000,1,2"]
                      = [true; true; false; false; false; false; false; true; true; false].
Proof. vm_compute. reflexivity. Qed.
Definition wp_acc' (w : list N) : bool := macc wp_monitor (run wp_monitor wp_q0 w).
Example wp_acc1 : map wp_acc' [[92; 92; 97; 98]%N; [92; 92; 97; 92; 98; 92]%N; [92; 47; 97; 47; 98; 92]%N; [97; 92; 92]%N; [92]%N; []]
                  = [false; true; true; true; true; true].
Proof. vm_compute. reflexivity. Qed.

(* PROPERTY-RELEVANT edits of a pattern are refuted (hand-written variants of the shipped shapes) *)
Module Mutants2.
  Import OldXml.
  Definition c_hexd : re := cls (L"0123456789abcdefABCDEF").
  Definition c_b64 : re := cls (L"ABCDEFGHIJKLMNOPQRSTUVWXYZabcdefghijklmnopqrstuvwxyz0123456789+/").
  Definition c_bs : re := cls [92%N].
  (* ten or more hex DIGITS instead of ten or more PAIRS *)
  Example hex_odd_refuted : hex_checks (Rep 20 None c_hexd) = false /\ hex_checks (Rep 10 None (Rep 2 (Some 2%nat) c_hexd)) = true.
  Proof. vm_compute. split; reflexivity. Qed.
  Example hex_odd_cex : explore_cex even_monitor shape_fuel (Rep 20 None c_hexd) true = CexWord (repeat 48%N 21).
  Proof. vm_compute. reflexivity. Qed.
  (* nine pairs are enough *)
  Example hex_short_refuted : hex_checks (Rep 9 None (Rep 2 (Some 2%nat) c_hexd)) = false.
  Proof. vm_compute. reflexivity. Qed.
  (* up to three padding characters *)
  Definition b64_three : re := Seq (Rep 1 None c_b64) (Rep 0 (Some 3%nat) (cls (L"="))).
  Example b64_three_refuted : explore b64arg_monitor shape_fuel b64_three b64arg_q0 = false.
  Proof. vm_compute. reflexivity. Qed.
  Example b64_three_cex : explore_cex b64arg_monitor shape_fuel b64_three b64arg_q0 = CexWord (L"z===").
  Proof. vm_compute. reflexivity. Qed.
  Example b64_two_ok : explore b64arg_monitor shape_fuel (Seq (Rep 1 None c_b64) (Rep 0 (Some 2%nat) (cls (L"=")))) b64arg_q0 = true.
  Proof. vm_compute. reflexivity. Qed.
  (* a key of up to four digits *)
  Example key_four_refuted :
    explore (count_monitor digit_mask 1 3) shape_fuel (Rep 1 (Some 4%nat) c_dig) (count_q0 digit_mask 1 3) = false.
  Proof. vm_compute. reflexivity. Qed.
  Example key_four_cex :
    explore_cex (count_monitor digit_mask 1 3) shape_fuel (Rep 1 (Some 4%nat) c_dig) (count_q0 digit_mask 1 3) = CexWord (L"9999").
  Proof. vm_compute. reflexivity. Qed.
  (* an optional sign in front of the key *)
  Example key_sign_refuted :
    explore (count_monitor digit_mask 1 3) shape_fuel (Seq (Rep 0 (Some 1%nat) (cls (L"-"))) (Rep 1 (Some 3%nat) c_dig))
            (count_q0 digit_mask 1 3) = false.
  Proof. vm_compute. reflexivity. Qed.
  (* byte arrays: one OR two hex digits after the prefix; white space BEFORE the comma; minimum count 2 *)
  Definition psb_item (lo : nat) : re :=
    Alt (Seq (cls (L"0")) (Seq (cls (L"xX")) (Rep lo (Some 2%nat) c_hexd))) (Rep 1 (Some 3%nat) c_dig).
  Definition c_ws : re := cls [32; 9; 10; 11; 12; 13]%N.
  Definition psb_like (lo n : nat) (before : bool) : re :=
    Seq (Rep n None (Seq (psb_item lo) (Seq (if before then Rep 0 None c_ws else Eps) (Seq (cls (L",")) (Rep 0 None c_ws))))) (psb_item lo).
  Example psb_like_ok : explore (psb_monitor 2) shape_fuel (psb_like 2 2 false) (psb_q0 2) = true.
  Proof. vm_compute. reflexivity. Qed.
  Example psb_one_hex_refuted : explore (psb_monitor 2) shape_fuel (psb_like 1 2 false) (psb_q0 2) = false.
  Proof. vm_compute. reflexivity. Qed.
  Example psb_ws_before_refuted : explore (psb_monitor 2) shape_fuel (psb_like 2 2 true) (psb_q0 2) = false.
  Proof. vm_compute. reflexivity. Qed.
  Example psb_count_refuted : explore (psb_monitor 2) shape_fuel (psb_like 2 1 false) (psb_q0 2) = false.
  Proof. vm_compute. reflexivity. Qed.
  (* a device alternative without the segment structure: two backslashes, a dot, a backslash and a name *)
  Definition wpath_short : re := Seq c_bs (Seq c_bs (Seq (cls (L".")) (Seq c_bs (Rep 3 None c_alnum)))).
  Example wpath_short_refuted : explore wp_monitor shape_fuel wpath_short wp_q0 = false.
  Proof. vm_compute. reflexivity. Qed.
  Definition wpath_long : re := Seq c_bs (Seq c_bs (Seq (Rep 1 None c_alnum) (Seq c_bs (Seq (Rep 3 None c_alnum) (Seq c_bs (Rep 3 None c_alnum)))))).
  Example wpath_long_ok : explore wp_monitor shape_fuel wpath_long wp_q0 = true.
  Proof. vm_compute. reflexivity. Qed.
  (* the text of the short variant makes the decoder raise *)
  Example wpath_short_raises :
    matchb wpath_short [92; 92; 46; 92; 85; 78; 67]%N = true /\
    windows_path_node (fun _ => false) [92; 92; 46; 92; 85; 78; 67]%N [Some (0, 7)] = Raise index_err.
  Proof. vm_compute. split; reflexivity. Qed.
  (* a case-insensitive MZ *)
  Example mz_ci_refuted : explore mz_monitor shape_fuel (Seq (cls (L"mM")) (cls (L"zZ"))) mz_q0 = false.
  Proof. vm_compute. reflexivity. Qed.
  (* an optional hex group in the FromHexString call *)
  Example optional_group2 :
    group_mandatory (Seq (cls (L"(")) (Seq (Rep 0 (Some 1%nat) (Grp 2 (Rep 10 None c_hexd))) (cls (L")")))) 2 = false.
  Proof. vm_compute. reflexivity. Qed.
End Mutants2.

(* the decoders on concrete inputs: the values are what /venv/bin/python 3.12.1 prints for the real decoders *)
Example e2e_hex :
  find_hex (L"xx00112233445566778899aAyy0011223344556677889AAbb")
  = Ok [Node [] [0; 17; 34; 51; 68; 85; 102; 119; 136; 153]%N (L"decoded.hexadecimal") 2 22 [];
        Node [] [0; 17; 34; 51; 68; 85; 102; 119; 136; 154]%N (L"decoded.hexadecimal") 26 46 []].
Proof. vm_compute. reflexivity. Qed.
Example e2e_fromhex :
  find_FromHexString (L"-bxor 65 FromHexString('4142434445464748494a')")
  = Ok [Node (L"powershell.bytes") (L"ABCDEFGHIJ") (L"encoding.hexidecimal") 9 46
          [Node (L"powershell.bytes") [0; 3; 2; 5; 4; 7; 6; 9; 8; 11]%N (L"cipher.xor65") 0 10 []]].
Proof. vm_compute. reflexivity. Qed.
Example e2e_fromb64 :
  find_FromBase64String (L"FromBase64String('QUJD') -xor 300")
  = Ok [Node (L"powershell.bytes") (L"ABC") (L"encoding.base64") 0 24 []].
Proof. vm_compute. reflexivity. Qed.
Example e2e_xorkey :
  (get_xorkey (L"a -bxor 007 b"), get_xorkey (L"-bxor x"), get_xorkey [45; 88; 79; 82; 10; 57; 57; 57]%N)
  = (Ok (Some 7), Ok None, Ok (Some 999)).
Proof. vm_compute. reflexivity. Qed.
Example e2e_exe :
  find_executable_name (L"run CMD.exe now") = Ok [Node (L"executable.filename") (L"CMD.exe") [] 4 11 []].
Proof. vm_compute. reflexivity. Qed.
Example e2e_path :
  find_path (L"see /usr/local/bin ok") = Ok [Node (L"path") (L"/usr/local/bin") [] 4 18 []].
Proof. vm_compute. reflexivity. Qed.
(* the capital-X quirk, on the smallest texts the pattern matches: 500 decimal items and one hex item *)
Example e2e_psb_quirk :
  find_powershell_bytes (fun _ => []) (rep_bytes 500 (L"1,") ++ L"0X41") = Ok [] /\
  find_powershell_bytes (fun _ => []) (rep_bytes 500 (L"1,") ++ L"0x41")
  = Ok [Node (L"powershell.bytes") (repeat 1%N 500 ++ [65%N]) [] 0 1004 []] /\
  find_powershell_bytes (fun _ => []) (rep_bytes 500 (L"1,") ++ L"256") = Ok [].
Proof. vm_compute. repeat split; reflexivity. Qed.
Example ps_binary_ex :
  map ps_binary [L"1,0X41"; L"1, 0x41,255"; L"1,256"; L"1,,2"; [49; 44; 200]%N]
  = [Ok None; Ok (Some [1; 65; 255]%N); Ok None; Ok None; Ok None].
Proof. vm_compute. reflexivity. Qed.

Print Assumptions search_mandatory.
Print Assumptions xor_group1_shape.
Print Assumptions get_xorkey_cases.
Print Assumptions get_xorkey_total.
Print Assumptions get_xorkey_range.
Print Assumptions hex_lang_shape.
Print Assumptions fromhex_group2_shape.
Print Assumptions find_hex_total.
Print Assumptions find_FromHexString_total.
Print Assumptions find_atob_total.
Print Assumptions find_Base64Decode_total.
Print Assumptions find_FromBase64String_total.
Print Assumptions base64_lang_shape.
Print Assumptions find_base64_total.
Print Assumptions psb_lang_shape.
Print Assumptions ps_binary_total.
Print Assumptions ps_binary_capital_x.
Print Assumptions ps_binary_lower.
Print Assumptions find_powershell_bytes_total.
Print Assumptions wpath_lang_shape.
Print Assumptions find_windows_path_total.
Print Assumptions mz_lang_shape.
Print Assumptions find_pe_files_total.
Print Assumptions find_executable_name_total.
Print Assumptions find_library_total.
Print Assumptions find_path_total.
