(* Proofs about Model/Dec/XmlChr.v : unescape_xml on well-shaped references, chr(int(...)).encode(). *)
From MD Require Import Lib.Base Model.Codec.PyInt Model.Codec.Utf Model.Codec.Percent Model.Dec.XmlChr.
From MD Require Import Proofs.PyIntProofs Proofs.UtfProofs Proofs.PercentProofs.

Definition AMP : N := 38%N.
Definition SEMI : N := 59%N.

(* ---------- bytes.replace(b"&#", b"") ---------- *)
Lemma replace_amp_hash_here rest :
  replace_aux [38; 35]%N [] O (38 :: 35 :: rest)%N = replace_aux [38; 35]%N [] O rest.
Proof. reflexivity. Qed.

Lemma replace_amp_other c rest :
  c <> AMP -> replace_aux [38; 35]%N [] O (c :: rest) = c :: replace_aux [38; 35]%N [] O rest.
Proof.
  intros H. cbn [replace_aux prefixb]. replace (38 =? c)%N with false; [reflexivity|].
  symmetry. apply N.eqb_neq. intros E. apply H. symmetry. exact E.
Qed.

Lemma replace_amp_skip i rest :
  Forall (fun c => c <> AMP) i ->
  replace_aux [38; 35]%N [] O (i ++ rest) = i ++ replace_aux [38; 35]%N [] O rest.
Proof.
  induction 1 as [|c i Hc Hi IH]; [reflexivity|].
  cbn [app]. rewrite replace_amp_other by exact Hc. rewrite IH. reflexivity.
Qed.

(* ---------- bytes.split(b";") ---------- *)
Lemma split_on_item sep i rest :
  Forall (fun c => c <> sep) i -> split_on sep (i ++ sep :: rest) = i :: split_on sep rest.
Proof.
  induction 1 as [|c i Hc Hi IH].
  - cbn [app]. rewrite split_on_cons, N.eqb_refl.
    destruct (split_on sep rest) eqn:E; [elim (split_on_nonempty sep rest E)|reflexivity].
  - cbn [app]. rewrite split_on_cons, IH. apply N.eqb_neq in Hc. rewrite Hc. reflexivity.
Qed.

Lemma split_on_items sep items :
  Forall (Forall (fun c => c <> sep)) items ->
  split_on sep (concat (map (fun i => i ++ [sep]) items)) = items ++ [[]].
Proof.
  induction 1 as [|i items Hi Hitems IH]; [reflexivity|].
  cbn [map concat]. rewrite <- app_assoc. cbn [app]. rewrite split_on_item by exact Hi. rewrite IH. reflexivity.
Qed.

(* ---------- the characters of a well-shaped item ---------- *)
Definition item_char (c : N) : bool := is_hex_ascii c || is_x c.

Lemma item_char_small c : item_char c = true -> (c < 128)%N.
Proof.
  unfold item_char. intros H. apply orb_true_iff in H as [H|H]; [apply is_hex_small, H|].
  unfold is_x in H. apply orb_true_iff in H as [H|H]; apply N.eqb_eq in H; subst; reflexivity.
Qed.

Lemma item_char_not_sep c : item_char c = true -> c <> AMP /\ c <> SEMI.
Proof.
  intros H.
  assert (F : forallb (fun c => implb (item_char c) (negb (c =? AMP)%N && negb (c =? SEMI)%N))
                      (map N.of_nat (seq 0 128)) = true) by (vm_compute; reflexivity).
  rewrite forallb_forall in F. specialize (F c (in_small_range c 128 (item_char_small c H))).
  rewrite H in F. cbn [implb] in F. apply andb_true_iff in F as [F1 F2].
  split; intros ->; discriminate.
Qed.

Lemma digit_is_hex c : is_digit_ascii c = true -> is_hex_ascii c = true.
Proof. intros H. unfold is_hex_ascii. rewrite H. reflexivity. Qed.

Lemma xml_item_ok_chars i : xml_item_okb i = true -> Forall (fun c => item_char c = true) i.
Proof.
  destruct i as [|p rest]; [discriminate|]. cbn [xml_item_okb]. destruct (is_x p) eqn:Ex.
  - destruct rest as [|h1 [|h2 [|? ?]]]; try discriminate. intros H. apply andb_true_iff in H as [H1 H2].
    unfold item_char. repeat constructor; [rewrite Ex; apply orb_true_r|rewrite H1|rewrite H2]; reflexivity.
  - intros H. apply andb_true_iff in H as [H _]. apply andb_true_iff in H as [H _].
    rewrite forallb_forall in H. apply Forall_forall. intros c Hc. unfold item_char.
    rewrite (digit_is_hex c (H c Hc)). reflexivity.
Qed.

(* ---------- the value of one item ---------- *)
Lemma int16_two_hex h1 h2 :
  is_hex_ascii h1 = true -> is_hex_ascii h2 = true -> int_of_bytes 16 [h1; h2] = Ok (Z.of_N (hex_byte h1 h2)).
Proof.
  intros H1 H2.
  assert (F : forallb (fun a => forallb (fun b =>
                implb (is_hex_ascii a && is_hex_ascii b)
                      match int_of_bytes 16 [a; b] with
                      | Ok v => v =? Z.of_N (hex_byte a b)
                      | _ => false
                      end) (map N.of_nat (seq 0 128))) (map N.of_nat (seq 0 128)) = true)
    by (vm_compute; reflexivity).
  rewrite forallb_forall in F. specialize (F h1 (in_small_range h1 128 (is_hex_small h1 H1))).
  rewrite forallb_forall in F. specialize (F h2 (in_small_range h2 128 (is_hex_small h2 H2))).
  rewrite H1, H2 in F. cbn [andb implb] in F.
  destruct (int_of_bytes 16 [h1; h2]) as [v| |]; try discriminate. apply Z.eqb_eq in F. congruence.
Qed.

Lemma forallb_all_digits d : forallb is_digit_ascii d = true -> all_digits d.
Proof. intros H. rewrite forallb_forall in H. apply Forall_forall. exact H. Qed.

Lemma xml_item_value_ok i :
  xml_item_okb i = true ->
  xml_item_value i = Ok (Z.of_N (xml_item_num i)) /\ (xml_item_num i < 256)%N.
Proof.
  destruct i as [|p rest]; [discriminate|]. cbn [xml_item_okb xml_item_num].
  unfold xml_item_value, startswith. change (L"x") with [120%N]. change (L"X") with [88%N]. cbn [prefixb].
  rewrite !andb_true_r. rewrite (N.eqb_sym 120 p), (N.eqb_sym 88 p). fold (is_x p).
  destruct (is_x p) eqn:Ex.
  - destruct rest as [|h1 [|h2 [|? ?]]]; try discriminate. intros H. apply andb_true_iff in H as [H1 H2].
    change (slice_from [p; h1; h2] 1) with [h1; h2]. split; [apply int16_two_hex; assumption|apply hex_byte_small; assumption].
  - intros H. apply andb_true_iff in H as [H Hv]. apply andb_true_iff in H as [Hd Hl].
    apply forallb_all_digits in Hd. apply Z.leb_le in Hl. apply Z.leb_le in Hv.
    rewrite int_of_bytes_digits by (try exact Hd; discriminate).
    replace (blen (p :: rest) <=? MAX_STR_DIGITS) with true by (symmetry; apply Z.leb_le; unfold MAX_STR_DIGITS; lia).
    pose proof (dec_value_range (p :: rest) Hd) as [Hnn _].
    rewrite Z2N.id by exact Hnn. split; [reflexivity|lia].
Qed.

Lemma xml_items_values items :
  xml_items_ok items ->
  mapM xml_item_value items = Ok (map (fun i => Z.of_N (xml_item_num i)) items) /\
  Forall (fun i => (xml_item_num i < 256)%N) items.
Proof.
  induction 1 as [|i items Hi Hitems [IH1 IH2]]; [split; [reflexivity|constructor]|].
  destruct (xml_item_value_ok i Hi) as [E Hs]. cbn [mapM map]. rewrite E, IH1. cbn [bind].
  split; [reflexivity|constructor; assumption].
Qed.

(* ---------- unescape_xml on a run of well-shaped references ---------- *)
Theorem unescape_xml_items items :
  xml_items_ok items ->
  unescape_xml (concat (map xml_reference items)) = Ok (map xml_item_num items) /\
  wf_bytes (map xml_item_num items).
Proof.
  intros Hok.
  assert (Hchars : Forall (fun i => Forall (fun c => c <> AMP /\ c <> SEMI) i) items).
  { eapply Forall_impl; [|exact Hok]. intros i Hi. cbv beta in Hi.
    eapply Forall_impl; [|apply xml_item_ok_chars, Hi]. intros c Hc. apply item_char_not_sep, Hc. }
  assert (Hrep : replace (concat (map xml_reference items)) (L"&#") [] =
                 concat (map (fun i => i ++ [SEMI]) items)).
  { change (L"&#") with [38; 35]%N. cbn [replace].
    induction Hchars as [|i items Hi Hitems IH]; [reflexivity|].
    inversion Hok as [|? ? _ Hok']; subst.
    cbn [map concat]. unfold xml_reference at 1. change (L"&#") with [38; 35]%N. change (L";") with [SEMI].
    rewrite <- !app_assoc. cbn [app]. rewrite replace_amp_hash_here.
    rewrite replace_amp_skip by (eapply Forall_impl; [|exact Hi]; cbv beta; tauto).
    cbn [app]. rewrite replace_amp_other by discriminate. rewrite (IH Hok'). reflexivity. }
  unfold unescape_xml. rewrite Hrep. change 59%N with SEMI.
  rewrite split_on_items by (eapply Forall_impl; [|exact Hchars]; cbv beta; intros i Hi;
                             eapply Forall_impl; [|exact Hi]; cbv beta; tauto).
  rewrite removelast_last.
  destruct (xml_items_values items Hok) as [E Hsmall]. rewrite E. cbn [bind].
  rewrite bytes_of_ints_ok.
  - rewrite map_map. split.
    + f_equal. apply map_ext. intros i. apply N2Z.id.
    + apply Forall_map. exact Hsmall.
  - apply Forall_map. eapply Forall_impl; [|exact Hsmall]. cbv beta. intros i Hi. lia.
Qed.

(* unescape_xml never hangs and raises nothing but ValueError *)
Theorem unescape_xml_outcomes data :
  (exists b, unescape_xml data = Ok b /\ wf_bytes b) \/ unescape_xml data = Raise value_error.
Proof.
  unfold unescape_xml. set (items := removelast _). clearbody items.
  assert (H : (exists l, mapM xml_item_value items = Ok l) \/ mapM xml_item_value items = Raise value_error).
  { induction items as [|i items IH]; [left; eexists; reflexivity|].
    cbn [mapM].
    assert (Hi : (exists v, xml_item_value i = Ok v) \/ xml_item_value i = Raise value_error)
      by (unfold xml_item_value; destruct (_ || _); apply int_of_bytes_outcomes).
    destruct Hi as [[v ->]| ->]; [|right; reflexivity]. cbn [bind].
    destruct IH as [[l ->]| ->]; [left; eexists; reflexivity|right; reflexivity]. }
  destruct H as [[l ->]| ->]; [|right; reflexivity]. cbn [bind]. apply bytes_of_ints_outcomes.
Qed.

(* ---------- chr(int(digits)).encode() ---------- *)
Theorem chr_value_spec d b :
  all_digits d -> d <> [] -> blen d <= MAX_STR_DIGITS ->
  (chr_value d = Some b <-> utf8_encode_cp (dec_value d) = Ok b).
Proof.
  intros Hd Hne Hlen. unfold chr_value, chr_value_res. rewrite int_of_bytes_digits by assumption.
  replace (blen d <=? MAX_STR_DIGITS) with true by (symmetry; apply Z.leb_le; exact Hlen).
  destruct (utf8_encode_cp (dec_value d)) as [b'|e|].
  - split; intros H; congruence.
  - destruct (beqb e value_error || beqb e unicode_encode_error); split; intros H; discriminate.
  - split; intros H; discriminate.
Qed.

(* more than 4300 digit characters (leading zeros included): int() raises ValueError, which find_chr swallows *)
Theorem chr_value_too_long d :
  all_digits d -> MAX_STR_DIGITS < blen d -> chr_value_res d = Ok None.
Proof.
  intros Hd Hlen. unfold chr_value_res. rewrite int_of_bytes_digits.
  - replace (blen d <=? MAX_STR_DIGITS) with false by (symmetry; apply Z.leb_gt; exact Hlen). reflexivity.
  - exact Hd.
  - intros ->. unfold MAX_STR_DIGITS, blen in Hlen. cbn in Hlen. lia.
Qed.

(* No exception escapes from the try block when the number fits a C int
   (CHR_RE allows at most five significant digits). *)
Theorem chr_value_res_no_escape d :
  all_digits d -> d <> [] -> dec_value d <= 2147483647 -> chr_value_res d = Ok (chr_value d).
Proof.
  intros Hd Hne Hv. unfold chr_value.
  destruct (Z.leb_spec (blen d) MAX_STR_DIGITS) as [Hlen|Hlen]; [|rewrite chr_value_too_long by assumption; reflexivity].
  unfold chr_value_res. rewrite int_of_bytes_digits by assumption.
  replace (blen d <=? MAX_STR_DIGITS) with true by (symmetry; apply Z.leb_le; exact Hlen).
  pose proof (dec_value_range d Hd) as [Hnn _]. rewrite utf8_encode_cp_raise.
  replace (dec_value d <? -2147483648) with false by (symmetry; apply Z.ltb_ge; lia).
  replace (2147483647 <? dec_value d) with false by (symmetry; apply Z.ltb_ge; lia).
  cbn [orb]. destruct ((dec_value d <? 0) || (1114111 <? dec_value d)); [reflexivity|].
  destruct ((55296 <=? dec_value d) && (dec_value d <=? 57343)); reflexivity.
Qed.

(* the shape CHR_RE captures: any number of zeros, then one to five digits *)
Corollary chr_value_regex_shape (k : nat) d' :
  all_digits d' -> 1 <= blen d' <= 5 ->
  let d := repeat 48%N k ++ d' in
  chr_value_res d = Ok (chr_value d) /\
  (blen d <= MAX_STR_DIGITS ->
   chr_value d = if is_surrogate (dec_value d') then None else Some (utf8_bytes_cp (dec_value d'))).
Proof.
  intros Hd' Hlen d.
  assert (Hne' : d' <> []) by (intros ->; unfold blen in Hlen; cbn in Hlen; lia).
  assert (Hd : all_digits d).
  { apply Forall_app. split; [|exact Hd']. apply Forall_forall. intros c Hc. apply repeat_spec in Hc. subst. reflexivity. }
  assert (Hne : d <> []) by (unfold d; destruct (repeat 48%N k); [exact Hne'|discriminate]).
  assert (Hv : dec_value d = dec_value d') by apply dec_value_leading_zeros.
  pose proof (dec_value_range d' Hd') as [Hnn Hub].
  assert (Hub' : dec_value d' < 100000).
  { eapply Z.lt_le_trans; [exact Hub|]. change 100000 with (10 ^ 5). apply Z.pow_le_mono_r; lia. }
  split; [apply chr_value_res_no_escape; [exact Hd|exact Hne|lia]|].
  intros Hl. unfold chr_value, chr_value_res. rewrite int_of_bytes_digits by assumption.
  replace (blen d <=? MAX_STR_DIGITS) with true by (symmetry; apply Z.leb_le; exact Hl).
  rewrite Hv, utf8_encode_cp_raise.
  replace (dec_value d' <? -2147483648) with false by (symmetry; apply Z.ltb_ge; lia).
  replace (2147483647 <? dec_value d') with false by (symmetry; apply Z.ltb_ge; lia).
  replace (dec_value d' <? 0) with false by (symmetry; apply Z.ltb_ge; lia).
  replace (1114111 <? dec_value d') with false by (symmetry; apply Z.ltb_ge; lia).
  cbn [orb]. fold (is_surrogate (dec_value d')). destruct (is_surrogate (dec_value d')); reflexivity.
Qed.

(* ---------- test vectors: every right-hand side was printed by /venv/bin/python (3.12.1) ---------- *)
Example xml_ex01 : unescape_xml (L"&#x41;&#X42;&#67;") = Ok (L"ABC"). Proof. vm_compute. reflexivity. Qed.
Example xml_ex02 : unescape_xml [] = Ok []. Proof. vm_compute. reflexivity. Qed.
Example xml_ex03 : unescape_xml (L"&#x41") = Ok []. Proof. vm_compute. reflexivity. Qed.
Example xml_ex04 : unescape_xml (L"&#65;junk") = Ok (L"A"). Proof. vm_compute. reflexivity. Qed.
Example xml_ex05 : unescape_xml (L"&#256;") = Raise value_error. Proof. vm_compute. reflexivity. Qed.
Example xml_ex06 : unescape_xml (L"&#-1;") = Raise value_error. Proof. vm_compute. reflexivity. Qed.
Example xml_ex07 : unescape_xml (L"&# 6_5 ;") = Ok (L"A"). Proof. vm_compute. reflexivity. Qed.
Example xml_ex08 : unescape_xml (L"&#x0x41;") = Ok (L"A"). Proof. vm_compute. reflexivity. Qed.
Example xml_ex09 : unescape_xml (L"&#x_41;") = Raise value_error. Proof. vm_compute. reflexivity. Qed.
Example xml_ex10 : unescape_xml (L";") = Raise value_error. Proof. vm_compute. reflexivity. Qed.
Example xml_ex11 : unescape_xml (L"&&##65;") = Raise value_error. Proof. vm_compute. reflexivity. Qed.
Example xml_ex12 : unescape_xml (L"&#&#65;") = Ok (L"A"). Proof. vm_compute. reflexivity. Qed.
Example xml_ex13 : unescape_xml (L"&#xzz;") = Raise value_error. Proof. vm_compute. reflexivity. Qed.
Example xml_ex14 : unescape_xml (L"65;&#") = Ok (L"A"). Proof. vm_compute. reflexivity. Qed.
Example repl_ex01 : replace (L"a&#b&&##c") (L"&#") [] = L"ab&#c". Proof. vm_compute. reflexivity. Qed.
Example repl_ex02 : replace (L"abc") [] (L"-") = L"-a-b-c-". Proof. vm_compute. reflexivity. Qed.
Example repl_ex03 : replace (L"aaa") (L"aa") (L"b") = L"ba". Proof. vm_compute. reflexivity. Qed.
Example split_ex01 : split_on 59%N (L"a;;b;") = [L"a"; []; L"b"; []]. Proof. vm_compute. reflexivity. Qed.
Example split_ex02 : split_on 59%N [] = [[]]. Proof. vm_compute. reflexivity. Qed.
Example chr_ex01 : chr_value (L"0065") = Some (L"A"). Proof. vm_compute. reflexivity. Qed.
Example chr_ex02 : chr_value (L"55296") = None. Proof. vm_compute. reflexivity. Qed.
Example chr_ex03 : chr_value (L"99999") = Some [240; 152; 154; 159]%N. Proof. vm_compute. reflexivity. Qed.
Example chr_ex04 : chr_value (L"8364") = Some [226; 130; 172]%N. Proof. vm_compute. reflexivity. Qed.
Example chr_ex05 : chr_value (L"1114112") = None. Proof. vm_compute. reflexivity. Qed.
Example chr_ex06 : chr_value (repeat 48%N 4298 ++ L"65") = Some (L"A"). Proof. vm_compute. reflexivity. Qed.
Example chr_ex07 : chr_value (repeat 48%N 4299 ++ L"65") = None. Proof. vm_compute. reflexivity. Qed.
Example chr_ex08 : chr_value_res (L"2147483648") = Raise overflow_error. Proof. vm_compute. reflexivity. Qed.

Print Assumptions unescape_xml_items.
Print Assumptions unescape_xml_outcomes.
Print Assumptions chr_value_spec.
Print Assumptions chr_value_too_long.
Print Assumptions chr_value_res_no_escape.
Print Assumptions chr_value_regex_shape.
