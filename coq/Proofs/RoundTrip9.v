(* RoundTrip9: END-TO-END instance -> find round trip for UNC Windows paths (find_windows_path).
   Extends the drive-path part of RoundTrip6: two backslashes, a host name, a backslash, then the share and the
   directories (each at least three class bytes: for the pattern the share is an ordinary segment) and a file name
   with an extension.  The node has type windows.unc.path, the text as value, no label, and the children
   [host child (as host_children decides: IP address, domain when is_domain says so, or nothing)] ++ [file name]. *)
From Coq Require Import List ZArith NArith Bool Lia Arith.
From MD Require Import Lib.Base Model.Node Regex.Syntax Regex.DerivProofs Regex.MonitorProofs
  Regex.Backtrack Regex.BacktrackProofs Regex.LocalityProofs Generated.Regexes Generated.Consts Model.Dec.ReLib.
From MD Require Import Model.Dec.Ip Model.Dec.Network Generated.Tables Model.Dec.NtPath Model.Dec.PathDec.
From MD Require Import Proofs.BaseProofs Proofs.IpProofs Proofs.Shapes1 Proofs.Shapes2 Proofs.Shapes3 Proofs.RoundTrip Proofs.RoundTrip2
  Proofs.RoundTrip3 Proofs.RoundTrip4 Proofs.NtPathProofs Proofs.PathDecProofs Proofs.RoundTrip6.
Import ListNotations.
Open Scope Z_scope.

(* ---- matcher facts ---- *)
Lemma blocked_2lits c1 c2 rest t1 y :
  hd_out c2 y -> blocked (S (S (spine (Seq (Cls c2) rest))) + spine (Seq (Cls c1) (Seq (Cls c2) rest))) (Seq (Cls c1) (Seq (Cls c2) rest)) (t1 :: y).
Proof.
  intros Hy. destruct (N.testbit c1 t1) eqn:E1.
  - apply (RoundTrip3.blocked_mono (S (S (spine (Seq (Cls c2) rest))))); [|lia].
    apply blocked_seq_cls; [exact E1|]. apply (blocked_first (Seq (Cls c2) rest) y); [reflexivity | exact Hy].
  - apply (RoundTrip3.blocked_mono (spine (Seq (Cls c1) (Seq (Cls c2) rest)))); [|lia].
    apply (blocked_first (Seq (Cls c1) (Seq (Cls c2) rest))); [reflexivity | exact E1].
Qed.

(* ---- the text class ---- *)
(* the host: bytes of the class, not empty, not starting with a full stop (two backslashes, a full stop and a
   backslash start a device path; the question mark is not in the class) *)
Definition whost_ok (host : bytes) : bool :=
  forallb wseg_byte host && match host with [] => false | h0 :: _ => negb (h0 =? 46)%N end.
(* segs = the share followed by the directories *)
Definition wunc_form (host : bytes) (segs : list bytes) (fname : bytes) : bytes :=
  [92%N; 92%N] ++ host ++ [92%N] ++ wsegs_text segs ++ fname.

Lemma whost_ok_parts host : whost_ok host = true ->
  forallb wseg_byte host = true /\ exists h0 h', host = h0 :: h' /\ wseg_byte h0 = true /\ h0 <> 46%N.
Proof.
  unfold whost_ok. intros H. apply andb_true_iff in H. destruct H as [H1 H2]. split; [exact H1|].
  destruct host as [|h0 h']; [discriminate H2|]. exists h0, h'. split; [reflexivity|].
  cbn [forallb] in H1. apply andb_true_iff in H1. destruct H1 as [H1 _]. split; [exact H1|].
  apply negb_true_iff, N.eqb_neq in H2. exact H2.
Qed.

(* ---- the tail of the pattern (segments and file name) ---- *)
Lemma wtail_runs segs fname suf :
  wsegs_ok segs = true ->
  forallb wseg_byte fname = true -> (3 <= List.length fname)%nat -> wpath_stop suf = true ->
  runs (2 * List.length (wsegs_text segs) + List.length fname + 40) (seq_r RE_path_WINDOWS_PATH_RE) (wsegs_text segs ++ fname) suf cf_id.
Proof.
  intros Hsegs Hfn Hflen Hstop. destruct (wsegs_ok_parts segs Hsegs) as [Hne HF].
  assert (Hs : match suf with [] => True | b :: _ => wpath_stop_byte b = true end) by (destruct suf; [exact I | exact Hstop]).
  assert (Hcl : (List.length (map (fun s => s ++ [92%N]) segs) <= List.length (wsegs_text segs))%nat).
  { unfold wsegs_text. clear. induction segs as [|s ss IH]; [cbn; lia|]. cbn [map concat List.length].
    rewrite !app_length. cbn [List.length]. lia. }
  unfold RE_path_WINDOWS_PATH_RE, seq_r.
  eapply runs_ext; [|eapply runs_mono;
    [ eapply (runs_seq _ _ _ _ (wsegs_text segs) fname suf);
        [ unfold wsegs_text;
          eapply (runs_rep_chunks (List.length (wsegs_text segs) + 10) _ _ (fname ++ suf));
          [ eapply wseg_end_blocked;
            [ apply (Forall_in_not wseg_byte _ _ fname wseg_byte_lt); [vm_compute; reflexivity | exact Hfn]
            | exact Hflen
            | eapply (hd_out_of_pred _ wpath_stop_byte); [vm_compute; reflexivity | vm_compute; reflexivity | exact Hs]
            | eapply (hd_out_of_pred _ wpath_stop_byte); [vm_compute; reflexivity | vm_compute; reflexivity | exact Hs] ]
          | apply Forall_forall; intros w Hw; apply in_map_iff in Hw; destruct Hw as (s & <- & Hin);
            rewrite Forall_forall in HF; destruct (HF s Hin) as [Hsb Hsl];
            split; [destruct s; discriminate|]; intros x';
            eapply runs_mono;
            [ eapply wseg_chunk_runs;
              [ apply (Forall_in_not wseg_byte _ _ s wseg_byte_lt); [vm_compute; reflexivity | exact Hsb]
              | exact Hsl | vm_compute; reflexivity | vm_compute; reflexivity ]
            | assert (Hin2 : In (s ++ [92%N]) (map (fun s => s ++ [92%N]) segs)) by (exact (in_map (fun s => s ++ [92%N]) segs s Hin));
              apply in_concat_length in Hin2; fold (wsegs_text segs) in Hin2; rewrite app_length in Hin2; lia ]
          | rewrite map_length; destruct segs; [congruence | cbn [List.length]; lia] ]
        | eapply runs_rep_cls;
          [ apply (Forall_of_pred _ wseg_byte); [exact wseg_byte_lt | vm_compute; reflexivity | exact Hfn]
          | eapply (hd_out_of_pred _ wpath_stop_byte); [vm_compute; reflexivity | vm_compute; reflexivity | exact Hs]
          | exact Hflen ] ]
    | cbn [spine nullable]; unfold bytes in *; lia ]]; intros i c; reflexivity.
Qed.

Lemma hd_out_class_cons mk (P : N -> bool) b y :
  (forall c, (c < 256)%N -> P c = true -> N.testbit mk c = false) -> (forall c, P c = true -> (c < 256)%N) ->
  P b = true -> hd_out mk (b :: y).
Proof. intros H L Hb. cbn [hd_out]. apply H; [apply L; exact Hb | exact Hb]. Qed.

Lemma wseg_not_in mk (Q : N -> bool) c : wseg_byte c = true -> Q c = true ->
  forallb (fun c => negb (wseg_byte c && Q c && N.testbit mk c)) bytes256 = true ->
  N.testbit mk c = false.
Proof.
  intros Hc HQ H. pose proof (wseg_byte_lt c Hc) as Hl.
  rewrite forallb_forall in H. specialize (H c (bytes256_in c Hl)). rewrite Hc, HQ in H. cbn [andb] in H.
  apply negb_true_iff in H. exact H.
Qed.

(* ---- the pattern runs over a UNC path ---- *)
Lemma wunc_runs host segs fname suf :
  whost_ok host = true -> wsegs_ok segs = true ->
  forallb wseg_byte fname = true -> (3 <= List.length fname)%nat -> wpath_stop suf = true ->
  runs (2 * List.length (wsegs_text segs) + List.length fname + List.length host + 80) RE_path_WINDOWS_PATH_RE
       (wunc_form host segs fname) suf cf_id.
Proof.
  intros Hhost Hsegs Hfn Hflen Hstop.
  pose proof (wtail_runs segs fname suf Hsegs Hfn Hflen Hstop) as RT.
  destruct (whost_ok_parts host Hhost) as (Hhb & h0 & h' & Eh & Hh0 & Hh0d).
  destruct (wsegs_ok_parts segs Hsegs) as [Hne HF].
  destruct segs as [|share dirs]; [congruence|].
  inversion HF as [|? ? [Hshb Hshl] _]; subst.
  destruct (seg3_split share Hshl) as (s0 & s1 & s2 & sr & Esh).
  assert (Hs1 : wseg_byte s1 = true).
  { rewrite Esh in Hshb. cbn [forallb] in Hshb. apply andb_true_iff in Hshb. destruct Hshb as [_ Hshb].
    apply andb_true_iff in Hshb. destruct Hshb as [Hshb _]. exact Hshb. }
  set (x := wsegs_text (share :: dirs) ++ fname) in *.
  assert (Ex : exists y, x = s0 :: s1 :: y).
  { unfold x, wsegs_text. cbn [map concat]. rewrite Esh. cbn [app]. eexists. reflexivity. }
  destruct Ex as [y Ex].
  unfold wunc_form. fold x.
  revert RT. unfold RE_path_WINDOWS_PATH_RE, seq_r. intros RT.
  replace ([92%N; 92%N] ++ (h0 :: h') ++ [92%N] ++ x) with ((92%N :: 92%N :: (h0 :: h') ++ [92%N]) ++ x)
    by (cbn [app]; rewrite <- app_assoc; reflexivity).
  eapply runs_ext; [|eapply runs_mono;
    [ eapply (runs_seq _ _ _ _ (92%N :: 92%N :: (h0 :: h') ++ [92%N]) x suf);
      [ eapply runs_opt_once; [discriminate|];
        eapply runs_alt_r;
        [ cbn [app]; eapply blocked_3lits; cbn [hd_out];
          apply (wseg_not_in _ (fun c => negb (c =? 46)%N) h0 Hh0);
          [ apply negb_true_iff, N.eqb_neq; exact Hh0d | vm_compute; reflexivity ] |];
        eapply runs_alt_l;
        eapply runs_seq_cls; [vm_compute; reflexivity|];
        eapply runs_seq_cls; [vm_compute; reflexivity|];
        eapply (runs_seq _ _ _ _ (h0 :: h') [92%N] (x ++ suf));
        [ eapply runs_rep_cls;
          [ apply (Forall_of_pred _ wseg_byte); [exact wseg_byte_lt | vm_compute; reflexivity | exact Hhb]
          | vm_compute; reflexivity
          | cbn [List.length]; lia ]
        | eapply runs_seq_skip;
          [ eapply runs_opt_skip; [vm_compute; reflexivity | vm_compute; reflexivity] |];
          eapply runs_seq_skip;
          [ eapply runs_opt_skip; [vm_compute; reflexivity | vm_compute; reflexivity] |];
          eapply (runs_seq_cls _ _ _ 92%N [] (x ++ suf)); [vm_compute; reflexivity|];
          eapply runs_rep_stop_blocked;
          rewrite Ex; cbn [app]; eapply blocked_2lits; cbn [hd_out];
          apply (wseg_not_in _ (fun _ => true) s1 Hs1); [ reflexivity | vm_compute; reflexivity ] ]
      | exact RT ]
    | cbn [spine nullable]; unfold bytes in *; cbn [List.length]; lia ]]; intros i c; reflexivity.
Qed.

(* ---- the Python after finditer ---- *)
Lemma wseg_notsep w : forallb wseg_byte w = true -> Forall notsep w.
Proof.
  intros H. apply Forall_forall. intros c Hc. rewrite forallb_forall in H. specialize (H c Hc). unfold notsep.
  apply negb_true_iff. exact (pred_table wseg_byte (fun c => negb (is_sep c)) wseg_byte_lt ltac:(vm_compute; reflexivity) c H).
Qed.

Lemma join_noalt l : Forall (fun x => ~ In ALTSEP x) l -> ~ In ALTSEP (Ip.join [SEP] l).
Proof.
  intros Hnoalt. induction l as [|x l IH]; [intros []|].
  inversion Hnoalt as [|? ? Hx Hl']; subst. destruct l as [|y l']; [exact Hx|].
  rewrite join_cons2. intros Hin. apply in_app_or in Hin. destruct Hin as [Hin|Hin]; [exact (Hx Hin)|].
  apply in_app_or in Hin. destruct Hin as [Hin|Hin]; [cbn in Hin; destruct Hin as [Hin|[]]; discriminate Hin|].
  exact (IH Hl' Hin).
Qed.

Lemma normpath_wunc host share dirs fname :
  whost_ok host = true -> wsegs_ok (share :: dirs) = true -> forallb wseg_byte fname = true -> (3 <= List.length fname)%nat ->
  ntpath_normpath (wunc_form host (share :: dirs) fname) = wunc_form host (share :: dirs) fname /\
  Ip.split_on SEP (wunc_form host (share :: dirs) fname) = [] :: [] :: host :: share :: dirs ++ [fname].
Proof.
  intros Hhost Hsegs Hfn Hflen. destruct (wsegs_ok_parts _ Hsegs) as [_ HF].
  destruct (whost_ok_parts host Hhost) as (Hhb & h0 & h' & Eh & Hh0 & Hh0d).
  inversion HF as [|a0 b0 [Hshb Hshl] HFd Ea0]; clear Ea0.
  assert (Hcomps : Forall (fun x => ~ In SEP x) (dirs ++ [fname]) /\ Forall NtPathProofs.plain (dirs ++ [fname]) /\
                   Forall (fun x => ~ In ALTSEP x) (dirs ++ [fname])).
  { repeat split; apply Forall_app; split;
      try (apply Forall_forall; intros s Hs; rewrite Forall_forall in HFd; destruct (HFd s Hs) as [Hb Hl]);
      try (constructor; [|constructor]);
      try (apply (proj1 (wseg_no_sep _ Hb))); try (apply (proj2 (wseg_no_sep _ Hb)));
      try (apply long_plain; assumption);
      try (apply (proj1 (wseg_no_sep _ Hfn))); try (apply (proj2 (wseg_no_sep _ Hfn))). }
  destruct Hcomps as (Hnosep & Hplain & Hnoalt).
  assert (Hl : dirs ++ [fname] <> []) by (destruct dirs; discriminate).
  set (tail := Ip.join [SEP] (dirs ++ [fname])).
  assert (Eform : wunc_form host (share :: dirs) fname = 92%N :: 92%N :: host ++ 92%N :: share ++ 92%N :: tail).
  { unfold wunc_form. rewrite (wsegs_text_join (share :: dirs) fname). cbn [app].
    destruct (dirs ++ [fname]) as [|z zs] eqn:Ez; [congruence|]. rewrite join_cons2. unfold tail.
    cbn [app]. reflexivity. }
  rewrite Eform.
  assert (Hsplit : Ip.split_on SEP tail = dirs ++ [fname]) by (apply split_on_join; assumption).
  assert (Hnoalt_tail : ~ In ALTSEP tail) by (apply join_noalt; exact Hnoalt).
  destruct (wseg_no_sep _ Hhb) as [Hhs Hha]. destruct (wseg_no_sep _ Hshb) as [Hss Hsa].
  split.
  - assert (Hform_noalt : ~ In ALTSEP (92%N :: 92%N :: host ++ 92%N :: share ++ 92%N :: tail)).
    { intros Hin. destruct Hin as [Hin|[Hin|Hin]]; try discriminate Hin.
      apply in_app_or in Hin. destruct Hin as [Hin|[Hin|Hin]]; [exact (Hha Hin) | discriminate Hin |].
      apply in_app_or in Hin. destruct Hin as [Hin|[Hin|Hin]]; [exact (Hsa Hin) | discriminate Hin | exact (Hnoalt_tail Hin)]. }
    assert (Hroot : ntpath_splitroot (replace_altsep (92%N :: 92%N :: host ++ 92%N :: share ++ 92%N :: tail))
                    = (92%N :: 92%N :: host ++ 92%N :: share, [92%N], tail)).
    { rewrite (replace_altsep_id _ Hform_noalt).
      assert (Hst : unc_start (92%N :: 92%N :: host ++ 92%N :: share ++ 92%N :: tail) = 2%nat).
      { unfold unc_start. rewrite Eh. cbn [app firstn replace_altsep map upper beqb UNC_PREFIX].
        assert (E63 : (upper1 (if (h0 =? ALTSEP)%N then SEP else h0) =? 63)%N = false).
        { apply negb_true_iff.
          exact (pred_table wseg_byte (fun c => negb (upper1 (if (c =? ALTSEP)%N then SEP else c) =? 63)%N) wseg_byte_lt
                   ltac:(vm_compute; reflexivity) h0 Hh0). }
        change (upper1 (if (92 =? ALTSEP)%N then SEP else 92) =? SEP)%N with true. cbn [andb].
        rewrite E63. reflexivity. }
      unfold ntpath_splitroot. change (is_sep 92) with true. cbn iota. rewrite Hst. cbn [skipn firstn].
      rewrite (break_sep_app host 92%N (share ++ 92%N :: tail) (wseg_notsep _ Hhb) eq_refl).
      rewrite (break_sep_app share 92%N tail (wseg_notsep _ Hshb) eq_refl). cbn [app]. reflexivity. }
    rewrite (normpath_unfold _ _ _ _ Hroot). rewrite Hsplit. change (negb (beqb [92%N] [])) with true.
    rewrite (norm_comps_plain _ Hplain). unfold final_comps. cbn [app]. rewrite <- !app_assoc. cbn [app]. reflexivity.
  - change (92%N :: 92%N :: host ++ 92%N :: share ++ 92%N :: tail) with ([] ++ SEP :: [] ++ SEP :: host ++ SEP :: share ++ SEP :: tail).
    rewrite split_on_app by (intros []). rewrite split_on_app by (intros []).
    rewrite split_on_app by exact Hhs. rewrite split_on_app by exact Hss. rewrite Hsplit. reflexivity.
Qed.

(* the child for the host, as host_children decides (it never raises: host_children_spec) *)
Definition wunc_host_kids (is_domain : bytes -> bool) (host : bytes) : list node :=
  match host_children is_domain host 2 with Ok ks => ks | _ => [] end.
Definition wunc_kids (is_domain : bytes -> bool) (host form base ext : bytes) : list node :=
  wunc_host_kids is_domain host ++ wpath_kids form base ext.

Lemma before_at_plain host : ~ In AT host -> before_at host = host.
Proof.
  intros H. unfold before_at.
  pose proof (split_on_join AT [host] ltac:(discriminate) ltac:(constructor; [exact H | constructor])) as E.
  cbn [Ip.join] in E. rewrite E. reflexivity.
Qed.

Lemma windows_path_node_unc is_domain data mt host share dirs base ext s e :
  whost_ok host = true -> wsegs_ok (share :: dirs) = true -> wfile_ok base ext = true ->
  nth 0 mt None = Some (s, e) -> slice data s e = wunc_form host (share :: dirs) (wfile base ext) ->
  windows_path_node is_domain data mt
  = Ok (Node UNC_PATH_TYPE (wunc_form host (share :: dirs) (wfile base ext)) [] s e
          (wunc_kids is_domain host (wunc_form host (share :: dirs) (wfile base ext)) base ext)).
Proof.
  intros Hhost Hsegs Hfile Hn Hsl. destruct (wfile_bytes base ext Hfile) as [Hfb Hfl].
  destruct (normpath_wunc host share dirs (wfile base ext) Hhost Hsegs Hfb Hfl) as [Hnorm Hsplit].
  destruct (whost_ok_parts host Hhost) as (Hhb & h0 & h' & Eh & Hh0 & Hh0d).
  unfold windows_path_node. unfold group, m_start, m_end, span. rewrite Hn. cbn [fst snd option_map]. rewrite Hsl, Hnorm.
  set (form := wunc_form host (share :: dirs) (wfile base ext)) in *. rewrite Z.ltb_irrefl.
  assert (E46 : (DOT =? h0)%N = false) by (apply N.eqb_neq; intros E; apply Hh0d; symmetry; exact E).
  assert (E63 : (63 =? h0)%N = false).
  { apply negb_true_iff. exact (pred_table wseg_byte (fun c => negb (63 =? c)%N) wseg_byte_lt ltac:(vm_compute; reflexivity) h0 Hh0). }
  assert (S1 : startswith form PFX_DEV_DOT = false)
    by (unfold startswith, form, wunc_form, PFX_DEV_DOT; rewrite Eh; cbn [app prefixb]; rewrite E46; reflexivity).
  assert (S2 : startswith form PFX_DEV_QM = false)
    by (unfold startswith, form, wunc_form, PFX_DEV_QM; rewrite Eh; cbn [app prefixb]; rewrite E63; reflexivity).
  assert (S3 : startswith form PFX_UNC = true) by reflexivity.
  rewrite S1, S2, S3. cbn [orb]. rewrite Hsplit. cbn [seg_at nth_error bind].
  assert (Hnoat : ~ In AT host) by (apply (notin_class wseg_byte); [reflexivity | exact Hhb]).
  rewrite (before_at_plain host Hnoat).
  unfold wunc_kids, wunc_host_kids.
  destruct (host_children_spec is_domain host 2) as (ks & Hks & _). rewrite Hks. cbn [bind].
  match goal with |- context [seg_last ?l] => assert (Hlast : seg_last l = Ok (wfile base ext)) end.
  { unfold seg_last. change ([] :: [] :: host :: share :: dirs ++ [wfile base ext]) with (([] :: [] :: host :: share :: dirs) ++ [wfile base ext]).
    rewrite rev_app_distr. reflexivity. }
  rewrite Hlast. cbn [bind]. rewrite (splitext_wfile base ext Hfile). reflexivity.
Qed.

(* ---- the round trip ---- *)
Theorem find_windows_path_roundtrip_unc_quiet is_domain pre host share dirs base ext suf :
  whost_ok host = true -> wsegs_ok (share :: dirs) = true -> wfile_ok base ext = true -> wpath_stop suf = true ->
  let form := wunc_form host (share :: dirs) (wfile base ext) in
  (2 * List.length form + 100 <= default_fuel)%nat ->
  let data := pre ++ form ++ suf in
  quiet default_fuel RE_path_WINDOWS_PATH_RE (List.length pre) (start_pos data) ->
  find_windows_path is_domain data = Hang \/
  exists rest, find_windows_path is_domain data
               = Ok (Node UNC_PATH_TYPE form [] (blen pre) (blen pre + blen form) (wunc_kids is_domain host form base ext) :: rest) /\
               Forall (fun nd => blen pre + blen form <= n_st nd) rest.
Proof.
  intros Hhost Hsegs Hfile Hstop form Hfuel data Hq.
  destruct (wfile_bytes base ext Hfile) as [Hfb Hfl].
  pose proof (wunc_runs host (share :: dirs) (wfile base ext) suf Hhost Hsegs Hfb Hfl Hstop) as R. fold form in R.
  assert (Hfne : form <> []) by discriminate.
  assert (Hflen : (List.length (wsegs_text (share :: dirs)) + List.length (wfile base ext) + List.length host <= List.length form)%nat).
  { unfold form, wunc_form. rewrite !app_length. lia. }
  destruct (fi_form RE_path_WINDOWS_PATH_RE NG_path_WINDOWS_PATH_RE pre form suf _ _ Hq R ltac:(lia) Hfne)
    as [H | (rest & Hfi & Hrest)].
  { left. unfold find_windows_path. fold data in H. rewrite H. reflexivity. }
  fold data in Hfi.
  set (s := blen pre) in *. set (e := s + blen form) in *.
  change (mk_mtch NG_path_WINDOWS_PATH_RE s e (cf_id s [])) with ([Some (s, e)] : mtch) in Hfi.
  set (mt := ([Some (s, e)] : mtch)) in *.
  assert (Eone : windows_path_node is_domain data mt = Ok (Node UNC_PATH_TYPE form [] s e (wunc_kids is_domain host form base ext))).
  { apply (windows_path_node_unc is_domain data mt host share dirs base ext s e Hhost Hsegs Hfile eq_refl).
    unfold e, s, data. apply slice_mid. }
  unfold find_windows_path. rewrite Hfi. cbn [bind]. unfold find_windows_path_post. cbn [mapM]. rewrite Eone. cbn [bind].
  destruct (mapM (windows_path_node is_domain data) rest) as [out|ex|] eqn:ER; cbn [bind].
  - right. exists out. split; [reflexivity|]. apply (windows_path_post_starts is_domain data e rest out Hrest ER).
  - exfalso. destruct (find_windows_path_total is_domain data) as [HT | (nodes & HT & _)];
      unfold find_windows_path in HT; rewrite Hfi in HT; cbn [bind] in HT; unfold find_windows_path_post in HT; cbn [mapM] in HT;
      rewrite Eone in HT; cbn [bind] in HT; rewrite ER in HT; discriminate HT.
  - left. reflexivity.
Qed.

(* decidable form: no byte of the prefix can start a match (no byte of the class, no backslash) *)
Theorem find_windows_path_roundtrip_unc is_domain pre host share dirs base ext suf :
  whost_ok host = true -> wsegs_ok (share :: dirs) = true -> wfile_ok base ext = true -> wpath_stop suf = true ->
  let form := wunc_form host (share :: dirs) (wfile base ext) in
  neutral RE_path_WINDOWS_PATH_RE pre = true ->
  (2 * List.length form + 100 <= default_fuel)%nat ->
  let data := pre ++ form ++ suf in
  find_windows_path is_domain data = Hang \/
  exists rest, find_windows_path is_domain data
               = Ok (Node UNC_PATH_TYPE form [] (blen pre) (blen pre + blen form) (wunc_kids is_domain host form base ext) :: rest) /\
               Forall (fun nd => blen pre + blen form <= n_st nd) rest.
Proof.
  intros Hhost Hsegs Hfile Hstop form Hn Hfuel data.
  apply find_windows_path_roundtrip_unc_quiet; try assumption.
  apply quiet_no_first; [vm_compute; reflexivity | spine_goal | exact Hn].
Qed.

(* ---- the host child ---- *)
(* whatever the host is: no child, or one child at 2 .. 2 + len host that is a domain (when is_domain says so) or an IP address *)
Lemma wunc_host_kids_spec is_domain host : host_kid_spec is_domain host 2 (wunc_host_kids is_domain host).
Proof. unfold wunc_host_kids. destruct (host_children_spec is_domain host 2) as (ks & Hks & Hspec). rewrite Hks. exact Hspec. Qed.

(* a dotted name that ends in letters is no IP address: the child is decided by is_domain alone *)
Lemma wunc_host_kids_domain is_domain labels tld : labels_ok labels = true -> tld_ok tld = true ->
  let host := dotted labels ++ tld in
  wunc_host_kids is_domain host
  = if is_domain host then [Node DOMAIN_TYPE host [] 2 (2 + blen host) []] else [].
Proof.
  intros Hl Ht host. unfold wunc_host_kids, host_children. unfold host. rewrite (parse_ip_node_domain labels tld Hl Ht).
  change (beqb value_error value_error) with true. cbn iota. destruct (is_domain (dotted labels ++ tld)); reflexivity.
Qed.

Corollary find_windows_path_roundtrip_unc_domain tlds pre labels tld share dirs base ext suf :
  labels_ok labels = true -> tld_ok tld = true -> In (upper tld) tlds ->
  let host := dotted labels ++ tld in
  whost_ok host = true -> wsegs_ok (share :: dirs) = true -> wfile_ok base ext = true -> wpath_stop suf = true ->
  let form := wunc_form host (share :: dirs) (wfile base ext) in
  neutral RE_path_WINDOWS_PATH_RE pre = true ->
  (2 * List.length form + 100 <= default_fuel)%nat ->
  let data := pre ++ form ++ suf in
  find_windows_path (is_domain tlds) data = Hang \/
  exists rest, find_windows_path (is_domain tlds) data
               = Ok (Node UNC_PATH_TYPE form [] (blen pre) (blen pre + blen form)
                       (Node DOMAIN_TYPE host [] 2 (2 + blen host) [] :: wpath_kids form base ext) :: rest) /\
               Forall (fun nd => blen pre + blen form <= n_st nd) rest.
Proof.
  intros Hl Ht Hin host. subst host. intros Hhost Hsegs Hfile Hstop form Hn Hfuel data.
  pose proof (find_windows_path_roundtrip_unc (is_domain tlds) pre _ share dirs base ext suf Hhost Hsegs Hfile Hstop Hn Hfuel) as H.
  unfold wunc_kids in H. rewrite (wunc_host_kids_domain (is_domain tlds) labels tld Hl Ht) in H.
  rewrite (is_domain_dotted tlds labels tld Hl Ht Hin) in H. exact H.
Qed.

(* ---- Examples (expected values printed by multidecoder.decoders.path.find_windows_path under /venv/bin/python) ---- *)
Definition dom9 : bytes -> bool := is_domain TOP_LEVEL_DOMAINS.

Example rt9_unc_hyps :
  whost_ok (L"server1") = true /\ wsegs_ok [L"share"; L"dir"] = true /\ wfile_ok (L"notes") (L"txt") = true /\
  wpath_stop ([34%N] ++ L" ") = true /\ neutral RE_path_WINDOWS_PATH_RE [62; 32]%N = true /\
  wunc_form (L"server1") [L"share"; L"dir"] (wfile (L"notes") (L"txt")) = L"\\server1\share\dir\notes.txt" /\
  whost_ok (L"fs01.example.com") = true /\ whost_ok (L"10.0.0.5") = true /\ whost_ok (L"0x7f.1") = true /\
  dotted [L"fs01"; L"example"] ++ L"com" = L"fs01.example.com".
Proof. vm_compute. repeat split; reflexivity. Qed.

Example rt9_unc_run :
  find_windows_path dom9 ([62; 32]%N ++ L"\\server1\share\dir\notes.txt" ++ [34%N] ++ L" ")
  = Ok [Node (L"windows.unc.path") (L"\\server1\share\dir\notes.txt") [] 2 31 [Node (L"filename") (L"notes.txt") [] 20 29 []]] /\
  find_windows_path dom9 ([62; 32]%N ++ L"\\fs01.example.com\share\dir\notes.txt" ++ [34%N] ++ L" ")
  = Ok [Node (L"windows.unc.path") (L"\\fs01.example.com\share\dir\notes.txt") [] 2 40
          [Node (L"network.domain") (L"fs01.example.com") [] 2 18 []; Node (L"filename") (L"notes.txt") [] 29 38 []]] /\
  find_windows_path dom9 (L" \\example.com\share\run.exe,")
  = Ok [Node (L"windows.unc.path") (L"\\example.com\share\run.exe") [] 1 28
          [Node (L"network.domain") (L"example.com") [] 2 13 []; Node (L"executable.filename") (L"run.exe") [] 20 27 []]] /\
  find_windows_path dom9 (L" \\10.0.0.5\pub\a.b")
  = Ok [Node (L"windows.unc.path") (L"\\10.0.0.5\pub\a.b") [] 1 19
          [Node (L"network.ip") (L"10.0.0.5") [] 2 10 []; Node (L"filename") (L"a.b") [] 15 18 []]] /\
  find_windows_path dom9 (L" \\0x7f.1\share\a.txt ")
  = Ok [Node (L"windows.unc.path") (L"\\0x7f.1\share\a.txt") [] 1 21
          [Node (L"network.ip") (L"127.0.0.1") (L"ip_obfuscation") 2 8 []; Node (L"filename") (L"a.txt") [] 15 20 []]] /\
  find_windows_path dom9 (L" \\fs01.example.zzzz\share\a.dll ")
  = Ok [Node (L"windows.unc.path") (L"\\fs01.example.zzzz\share\a.dll") [] 1 32
          [Node (L"executable.library.filename") (L"a.dll") [] 26 31 []]].
Proof. vm_compute. repeat split; reflexivity. Qed.

Example rt9_unc_kids :
  wunc_host_kids dom9 (L"server1") = [] /\
  wunc_host_kids dom9 (L"fs01.example.com") = [Node (L"network.domain") (L"fs01.example.com") [] 2 18 []] /\
  wunc_host_kids dom9 (L"10.0.0.5") = [Node (L"network.ip") (L"10.0.0.5") [] 2 10 []] /\
  wunc_host_kids no_domain (L"fs01.example.com") = [].
Proof. vm_compute. repeat split; reflexivity. Qed.

Example rt9_unc_thm :
  let data := [62; 32]%N ++ wunc_form (L"server1") [L"share"; L"dir"] (wfile (L"notes") (L"txt")) ++ [34%N] ++ L" " in
  find_windows_path dom9 data = Hang \/
  exists rest, find_windows_path dom9 data
               = Ok (Node (L"windows.unc.path") (L"\\server1\share\dir\notes.txt") [] 2 31 [Node (L"filename") (L"notes.txt") [] 20 29 []] :: rest) /\
               Forall (fun nd => 31 <= n_st nd) rest.
Proof.
  apply (find_windows_path_roundtrip_unc dom9 [62; 32]%N (L"server1") (L"share") [L"dir"] (L"notes") (L"txt") ([34%N] ++ L" "));
    [ vm_compute; reflexivity | vm_compute; reflexivity | vm_compute; reflexivity | vm_compute; reflexivity
    | vm_compute; reflexivity | small_fuel6 ].
Qed.

Example rt9_unc_domain_thm :
  let data := [62; 32]%N ++ wunc_form (dotted [L"fs01"; L"example"] ++ L"com") [L"share"; L"dir"] (wfile (L"notes") (L"txt")) ++ [34%N] ++ L" " in
  find_windows_path dom9 data = Hang \/
  exists rest, find_windows_path dom9 data
               = Ok (Node (L"windows.unc.path") (L"\\fs01.example.com\share\dir\notes.txt") [] 2 40
                       [Node (L"network.domain") (L"fs01.example.com") [] 2 18 []; Node (L"filename") (L"notes.txt") [] 29 38 []] :: rest) /\
               Forall (fun nd => 40 <= n_st nd) rest.
Proof.
  apply (find_windows_path_roundtrip_unc_domain TOP_LEVEL_DOMAINS [62; 32]%N [L"fs01"; L"example"] (L"com") (L"share") [L"dir"]
           (L"notes") (L"txt") ([34%N] ++ L" "));
    [ vm_compute; reflexivity | vm_compute; reflexivity | apply tld_in_table; vm_compute; reflexivity
    | vm_compute; reflexivity | vm_compute; reflexivity | vm_compute; reflexivity | vm_compute; reflexivity
    | vm_compute; reflexivity | small_fuel6 ].
Qed.

(* SIDE CONDITIONS (all agree with Python) *)
(* for the pattern the share is an ordinary segment: it needs three bytes of the class.  With a shorter share the
   text is NOT reported as a UNC path at all: a later rooted path is reported instead *)
Example rt9_side_unc_short_share :
  wsegs_ok [L"ab"; L"dir"] = false /\
  find_windows_path dom9 (L" \\host\ab\dir\a.txt ")
  = Ok [Node (L"windows.path") (L"\dir\a.txt") [] 10 20 [Node (L"filename") (L"a.txt") [] 5 10 []]].
Proof. vm_compute. split; reflexivity. Qed.
(* the host must not be a single full stop: that is a device path.  whost_ok (first byte not a full stop) is
   sufficient, not necessary: a longer host that begins with a full stop is still a UNC host *)
Example rt9_side_unc_device :
  whost_ok (L".") = false /\ whost_ok (L".ab") = false /\ whost_ok [] = false /\ whost_ok (L"?") = false /\
  find_windows_path dom9 (L" \\.\share\dir\a.txt ")
  = Ok [Node (L"windows.device.path") (L"\\.\share\dir\a.txt") [] 1 20 [Node (L"filename") (L"a.txt") [] 14 19 []]] /\
  find_windows_path dom9 (L" \\.ab\share\a.txt ")
  = Ok [Node (L"windows.unc.path") (L"\\.ab\share\a.txt") [] 1 18 [Node (L"filename") (L"a.txt") [] 12 17 []]].
Proof. vm_compute. repeat split; reflexivity. Qed.
(* outside the class but still UNC paths: an administrative share (letter, dollar sign), the WebDAV suffixes of the host
   (the host child is then computed from the part before the first commercial at) *)
Example rt9_unc_outside_class :
  find_windows_path dom9 (L" \\host\c$\dir\a.txt ")
  = Ok [Node (L"windows.unc.path") (L"\\host\c$\dir\a.txt") [] 1 20 [Node (L"filename") (L"a.txt") [] 14 19 []]] /\
  find_windows_path dom9 (L" \\host@SSL@443\share\a.txt ")
  = Ok [Node (L"windows.unc.path") (L"\\host@SSL@443\share\a.txt") [] 1 27 [Node (L"filename") (L"a.txt") [] 21 26 []]].
Proof. vm_compute. repeat split; reflexivity. Qed.
(* the suffix, dot segments, no extension: as for drive paths *)
Example rt9_side_unc_suffix_dots :
  find_windows_path dom9 (L" \\host\share\a.txt\more")
  = Ok [Node (L"windows.unc.path") (L"\\host\share\a.txt\more") [] 1 24 []] /\
  find_windows_path dom9 (L" \\host\share\..\a.txt ")
  = Ok [Node (L"windows.unc.path") (L"\\host\share\a.txt") (L"windows.dotpath") 1 22 [Node (L"filename") (L"a.txt") [] 13 18 []]] /\
  find_windows_path dom9 (L" \\host\share\notes")
  = Ok [Node (L"windows.unc.path") (L"\\host\share\notes") [] 1 19 []].
Proof. vm_compute. repeat split; reflexivity. Qed.

Print Assumptions blocked_2lits.
Print Assumptions wtail_runs.
Print Assumptions wunc_runs.
Print Assumptions normpath_wunc.
Print Assumptions windows_path_node_unc.
Print Assumptions wunc_host_kids_spec.
Print Assumptions wunc_host_kids_domain.
Print Assumptions find_windows_path_roundtrip_unc_quiet.
Print Assumptions find_windows_path_roundtrip_unc.
Print Assumptions find_windows_path_roundtrip_unc_domain.
