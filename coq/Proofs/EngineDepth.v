(* C07: the depth limit bounds the recursion of scan_node and only truncates the result tree.
   C08: the sub-results of a decoded node are exactly a scan of its decoded value.
   Everything is about the step machine of Model/Engine.v. *)
From MD Require Import Lib.Base Model.Node Model.Engine Proofs.BaseProofs Proofs.EngineRefine.

Local Arguments shift : simpl never.

(* ====================================================================== *)
(* Extra definitions                                                      *)
(* ====================================================================== *)

(* small tree <= big tree: identical headers, every child list of the small tree is an
   order-preserving sub-list of the corresponding list of the big tree, pointwise tree_le *)
Inductive tree_le : node -> node -> Prop :=
| tle t v o s e ks ks' : sub_le ks ks' -> tree_le (Node t v o s e ks) (Node t v o s e ks')
with sub_le : list node -> list node -> Prop :=
| sub_nil l : sub_le [] l
| sub_take x y l l' : tree_le x y -> sub_le l l' -> sub_le (x :: l) (y :: l')
| sub_skip y l l' : sub_le l l' -> sub_le l (y :: l').

Scheme tree_le_mind := Minimality for tree_le Sort Prop
  with sub_le_mind := Minimality for sub_le Sort Prop.
Combined Scheme tree_sub_le_ind from tree_le_mind, sub_le_mind.

(* number of edges on the longest root-to-leaf path *)
Fixpoint height (n : node) : nat :=
  match n with
  | Node _ _ _ _ _ ks => fold_right (fun k m => Nat.max (S (height k)) m) O ks
  end.

(* r1 succeeds whenever r2 does, with related results *)
Definition res_down {A B} (P : A -> B -> Prop) (r1 : res A) (r2 : res B) : Prop :=
  forall b, r2 = Ok b -> exists a, r1 = Ok a /\ P a b.

(* ---------- the logging twin of scan_node ---------- *)
Definition slog := list (nat * bytes).

Section EngineLog.
  Variable search : bytes -> list node.

  Definition step_log (rec : node -> res (node * slog)) (sl : state * slog) (hit : node) : res (state * slog) :=
    let s := fst sl in
    let lg := snd sl in
    if n_en hit <=? decode_end s then Ok (s, lg) else
    do r <- pop_until (n_en hit) (cur s) (stack s) (offset s);
    let '(c, stk, off) := r in
    let hit' := shift hit (- off) in
    let nd := f_node c in
    if restates nd hit' then
      Ok ({| cur := c; stack := stk; decode_end := decode_end s; offset := off |}, lg)
    else if is_decoding (n_val nd) hit' then
      do hl <- rec hit';
      Ok ({| cur := add_kid c (fst hl); stack := stk; decode_end := n_en hit' + off; offset := off |},
          lg ++ snd hl)
    else
      Ok ({| cur := open_frame hit'; stack := c :: stk; decode_end := decode_end s; offset := off + n_st hit' |}, lg).

  Fixpoint mapM_log (f : node -> res (node * slog)) (l : list node) : res (list node * slog) :=
    match l with
    | [] => Ok ([], [])
    | x :: xs => do y <- f x; do ys <- mapM_log f xs; Ok (fst y :: fst ys, snd y ++ snd ys)
    end.

  (* records (remaining depth, searched value) wherever scan_node evaluates [results search n] *)
  Fixpoint scan_node_log (d : nat) (n : node) : res (node * slog) :=
    match d with
    | O => Ok (n, [])
    | S d' =>
        match n_kids n with
        | _ :: _ => do r <- mapM_log (scan_node_log d') (n_kids n); Ok (set_kids n (fst r), snd r)
        | [] => do sl <- foldM (step_log (scan_node_log d')) (results search n) (init_state n, [(S d', n_val n)]);
                Ok (unwind (cur (fst sl)) (stack (fst sl)), snd sl)
        end
    end.
End EngineLog.

(* the registry in which every decoded value can be decoded again *)
Definition search_again (v : bytes) : list node :=
  match v with
  | [] => []
  | _ => [Node (L"again") (v ++ [33%N]) [] 0 (blen v) []]
  end.

(* ====================================================================== *)
(* tree_le / sub_le                                                       *)
(* ====================================================================== *)

Lemma Forall2_sub_le l l' : Forall2 tree_le l l' -> sub_le l l'.
Proof. induction 1; constructor; assumption. Qed.

Lemma tree_le_refl : forall n, tree_le n n.
Proof.
  induction n as [t v o s e ks IH] using node_ind'.
  constructor. induction IH; constructor; assumption.
Qed.

Lemma Forall2_tree_le_refl l : Forall2 tree_le l l.
Proof. induction l; constructor; [apply tree_le_refl | assumption]. Qed.

Lemma sub_le_refl l : sub_le l l.
Proof. apply Forall2_sub_le, Forall2_tree_le_refl. Qed.

Lemma sub_le_app l1 l1' l2 l2' : sub_le l1 l1' -> sub_le l2 l2' -> sub_le (l1 ++ l2) (l1' ++ l2').
Proof.
  intros H1 H2. induction H1 as [l | x y l l' Hxy Hl IH | y l l' Hl IH]; cbn [app].
  - induction l as [|y l IH]; cbn [app]; [exact H2 | apply sub_skip; exact IH].
  - apply sub_take; assumption.
  - apply sub_skip; assumption.
Qed.

Lemma sub_le_rev l l' : sub_le l l' -> sub_le (rev l) (rev l').
Proof.
  induction 1 as [l | x y l l' Hxy Hl IH | y l l' Hl IH]; cbn [rev].
  - apply sub_nil.
  - apply sub_le_app; [exact IH | apply sub_take; [exact Hxy | apply sub_nil]].
  - rewrite <- (app_nil_r (rev l)). apply sub_le_app; [exact IH | apply sub_nil].
Qed.

Lemma tree_le_set_kids n ks ks' : sub_le ks ks' -> tree_le (set_kids n ks) (set_kids n ks').
Proof. destruct n; cbn [set_kids]; apply tle. Qed.

Lemma tree_sub_le_trans :
  (forall a b, tree_le a b -> forall c, tree_le b c -> tree_le a c) /\
  (forall l m, sub_le l m -> forall k, sub_le m k -> sub_le l k).
Proof.
  apply tree_sub_le_ind.
  - intros t v o s e ks ks' _ IH c Hc. inversion Hc; subst. constructor. apply IH. assumption.
  - intros l k _. apply sub_nil.
  - intros x y l l' _ IHx _ IHl k Hk.
    induction k as [|z k IHk]; inversion Hk; subst.
    + apply sub_take; [apply IHx | apply IHl]; assumption.
    + apply sub_skip. apply IHk. assumption.
  - intros y l l' _ IHl k Hk.
    induction k as [|z k IHk]; inversion Hk; subst.
    + apply sub_skip. apply IHl. assumption.
    + apply sub_skip. apply IHk. assumption.
Qed.

Lemma tree_le_trans a b c : tree_le a b -> tree_le b c -> tree_le a c.
Proof. intros H1 H2. exact (proj1 tree_sub_le_trans a b H1 c H2). Qed.

Lemma tree_le_hdr a b : tree_le a b -> set_kids a [] = set_kids b [].
Proof. destruct 1; reflexivity. Qed.

Lemma tree_le_height_aux :
  (forall a b, tree_le a b -> (height a <= height b)%nat) /\
  (forall l m, sub_le l m ->
     (fold_right (fun k x => Nat.max (S (height k)) x) O l <= fold_right (fun k x => Nat.max (S (height k)) x) O m)%nat).
Proof.
  apply tree_sub_le_ind; cbn [height fold_right]; intros; lia.
Qed.

Lemma tree_le_height a b : tree_le a b -> (height a <= height b)%nat.
Proof. apply tree_le_height_aux. Qed.

(* ====================================================================== *)
(* C07 - fold simulation between two recursive callbacks                  *)
(* ====================================================================== *)

Lemma Forall2_app_rev {A B} (R : A -> B -> Prop) l l' : Forall2 R l l' -> Forall2 R (rev l) (rev l').
Proof.
  induction 1 as [|x y l l' Hxy Hl IH]; cbn [rev]; [constructor|].
  apply Forall2_app; [exact IH | constructor; [exact Hxy | constructor]].
Qed.

(* corresponding frames: same node, pointwise tree_le children *)
Definition frame_le (f g : frame) : Prop :=
  f_node f = f_node g /\ Forall2 tree_le (f_rkids f) (f_rkids g).

Lemma close_le f g : frame_le f g -> tree_le (close f) (close g).
Proof.
  intros [Hn Hk]. unfold close. rewrite Hn. apply tree_le_set_kids.
  apply Forall2_sub_le, Forall2_app_rev, Hk.
Qed.

Lemma add_kid_le f g x y : frame_le f g -> tree_le x y -> frame_le (add_kid f x) (add_kid g y).
Proof. intros [Hn Hk] Hxy. split; cbn; [exact Hn | constructor; assumption]. Qed.

Definition pop_le (r r2 : frame * list frame * Z) : Prop :=
  frame_le (fst (fst r)) (fst (fst r2)) /\ Forall2 frame_le (snd (fst r)) (snd (fst r2)) /\ snd r = snd r2.

Lemma pop_until_le hend : forall stk stk2 c c2 off,
  frame_le c c2 -> Forall2 frame_le stk stk2 ->
  res_match pop_le (pop_until hend c stk off) (pop_until hend c2 stk2 off).
Proof.
  induction stk as [|p stk IH]; intros stk2 c c2 off Hc Hs; inversion Hs; subst; cbn [pop_until];
    pose proof Hc as [Hn _]; rewrite <- Hn.
  - destruct (hend >? off + blen (n_val (f_node c))).
    + destruct (n_st (f_node c) <? 0); cbn [res_match]; [|exact I].
      repeat split; cbn; try assumption. apply Hc.
    + cbn [res_match]. repeat split; cbn; try assumption. apply Hc.
  - destruct (hend >? off + blen (n_val (f_node c))).
    + apply IH; [|assumption]. apply add_kid_le; [assumption | apply close_le; exact Hc].
    + cbn [res_match]. repeat split; cbn; try assumption. apply Hc.
Qed.

Record state_le (s s2 : state) : Prop := {
  sl_cur : frame_le (cur s) (cur s2);
  sl_stk : Forall2 frame_le (stack s) (stack s2);
  sl_dec : decode_end s = decode_end s2;
  sl_off : offset s = offset s2 }.

Lemma step_le rec1 rec2 s s2 hit :
  (forall h, res_down tree_le (rec1 h) (rec2 h)) -> state_le s s2 ->
  res_down state_le (step rec1 s hit) (step rec2 s2 hit).
Proof.
  intros Hrec [Hc Hs Hd Ho] b. unfold step. rewrite <- Hd, <- Ho.
  destruct (n_en hit <=? decode_end s).
  { intros [= <-]. eexists; split; [reflexivity | constructor; assumption]. }
  pose proof (pop_until_le (n_en hit) _ _ _ _ (offset s) Hc Hs) as Hp.
  destruct (pop_until (n_en hit) (cur s) (stack s) (offset s)) as [[[c stk] off]| |],
           (pop_until (n_en hit) (cur s2) (stack s2) (offset s)) as [[[c2 stk2] off2]| |];
    cbn [res_match bind] in *; try contradiction; try discriminate.
  destruct Hp as (Hc' & Hs' & Hoff). cbn [fst snd] in *. subst off2.
  pose proof Hc' as [Hn' _]. rewrite <- Hn'.
  destruct (restates (f_node c) (shift hit (- off))).
  { intros [= <-]. eexists; split; [reflexivity | constructor; cbn; auto]. }
  destruct (is_decoding (n_val (f_node c)) (shift hit (- off))).
  - specialize (Hrec (shift hit (- off))).
    destruct (rec2 (shift hit (- off))) as [h2| |]; cbn [bind]; try discriminate.
    destruct (Hrec h2 eq_refl) as (h1 & -> & Hle). cbn [bind].
    intros [= <-]. eexists; split; [reflexivity|].
    constructor; cbn; auto. apply add_kid_le; assumption.
  - intros [= <-]. eexists; split; [reflexivity|].
    constructor; cbn; auto. split; [reflexivity | constructor].
Qed.

Lemma fold_le rec1 rec2 :
  (forall h, res_down tree_le (rec1 h) (rec2 h)) ->
  forall l s s2, state_le s s2 -> res_down state_le (foldM (step rec1) l s) (foldM (step rec2) l s2).
Proof.
  intros Hrec. induction l as [|h l IH]; intros s s2 Hs b; cbn [foldM].
  - intros [= <-]. eexists; split; [reflexivity | exact Hs].
  - pose proof (step_le rec1 rec2 s s2 h Hrec Hs) as Hstep.
    destruct (step rec2 s2 h) as [s2'| |]; cbn [bind]; try discriminate.
    destruct (Hstep s2' eq_refl) as (s' & -> & Hs'). cbn [bind]. apply IH. exact Hs'.
Qed.

Lemma unwind_le : forall stk stk2 c c2, frame_le c c2 -> Forall2 frame_le stk stk2 ->
  tree_le (unwind c stk) (unwind c2 stk2).
Proof.
  induction stk as [|p stk IH]; intros stk2 c c2 Hc Hs; inversion Hs; subst; cbn [unwind].
  - apply close_le, Hc.
  - apply IH; [|assumption]. apply add_kid_le; [assumption | apply close_le, Hc].
Qed.

Lemma mapM_le (rec1 rec2 : node -> res node) : (forall h, res_down tree_le (rec1 h) (rec2 h)) ->
  forall l, res_down (Forall2 tree_le) (mapM rec1 l) (mapM rec2 l).
Proof.
  intros Hrec. induction l as [|x l IH]; intros b; cbn [mapM].
  - intros [= <-]. eexists; split; [reflexivity | constructor].
  - specialize (Hrec x). destruct (rec2 x) as [y2| |]; cbn [bind]; try discriminate.
    destruct (Hrec y2 eq_refl) as (y1 & -> & Hy). cbn [bind].
    destruct (mapM rec2 l) as [ys2| |]; cbn [bind]; try discriminate.
    destruct (IH ys2 eq_refl) as (ys1 & -> & Hys). cbn [bind].
    intros [= <-]. eexists; split; [reflexivity | constructor; assumption].
Qed.

(* ---------- the scanned node keeps its header: it stays the bottom frame ---------- *)
Definition bottom (c : frame) (stk : list frame) : node := f_node (last stk c).

Lemma last_cons2 {A} (x : A) l d : last (x :: l) d = last l x.
Proof.
  revert x d; induction l as [|z l IH]; intros x d; [reflexivity|].
  change (last (z :: l) d = last (z :: l) x). rewrite !IH. reflexivity.
Qed.

Lemma pop_until_bottom hend : forall stk c off c' stk' off',
  pop_until hend c stk off = Ok (c', stk', off') -> bottom c' stk' = bottom c stk.
Proof.
  unfold bottom. induction stk as [|p stk IH]; intros c off c' stk' off'; cbn [pop_until].
  - destruct (hend >? off + blen (n_val (f_node c))).
    + destruct (n_st (f_node c) <? 0); [|discriminate]. intros [= <- <- <-]. reflexivity.
    + intros [= <- <- <-]. reflexivity.
  - destruct (hend >? off + blen (n_val (f_node c))).
    + intros H. apply IH in H. rewrite H. rewrite last_cons2.
      destruct stk; [reflexivity | rewrite !last_cons2; reflexivity].
    + intros [= <- <- <-]. reflexivity.
Qed.

Lemma step_bottom rec s hit s' : step rec s hit = Ok s' -> bottom (cur s') (stack s') = bottom (cur s) (stack s).
Proof.
  unfold step. destruct (n_en hit <=? decode_end s); [intros [= <-]; reflexivity|].
  destruct (pop_until (n_en hit) (cur s) (stack s) (offset s)) as [[[c stk] off]| |] eqn:Ep; cbn [bind]; try discriminate.
  apply pop_until_bottom in Ep. rewrite <- Ep.
  destruct (restates (f_node c) (shift hit (- off))); [intros [= <-]; reflexivity|].
  destruct (is_decoding (n_val (f_node c)) (shift hit (- off))).
  - destruct (rec (shift hit (- off))); cbn [bind]; try discriminate. intros [= <-]. cbn.
    unfold bottom. destruct stk; [reflexivity | rewrite !last_cons2; reflexivity].
  - intros [= <-]. cbn. unfold bottom. rewrite last_cons2. reflexivity.
Qed.

Lemma fold_bottom rec : forall l s s', foldM (step rec) l s = Ok s' ->
  bottom (cur s') (stack s') = bottom (cur s) (stack s).
Proof.
  induction l as [|h l IH]; intros s s'; cbn [foldM]; [intros [= <-]; reflexivity|].
  destruct (step rec s h) as [s1| |] eqn:E; cbn [bind]; try discriminate.
  intros H. apply IH in H. rewrite H. eapply step_bottom; exact E.
Qed.

Lemma unwind_bottom : forall stk c, exists ks, unwind c stk = set_kids (bottom c stk) ks.
Proof.
  unfold bottom. induction stk as [|p stk IH]; intros c; cbn [unwind].
  - eexists. reflexivity.
  - destruct (IH (add_kid p (close c))) as [ks Hks]. exists ks. rewrite Hks.
    rewrite last_cons2. destruct stk; [reflexivity | rewrite !last_cons2; reflexivity].
Qed.

Lemma mapM_Ok_id {A} : forall l : list A, mapM (@Ok A) l = Ok l.
Proof. induction l as [|x l IH]; [reflexivity|]. cbn [mapM bind]. rewrite IH. reflexivity. Qed.

Lemma set_kids_id n : set_kids n (n_kids n) = n.
Proof. destruct n; reflexivity. Qed.

Section Depth.
  Variable search : bytes -> list node.

  Theorem scan_nonpositive depth data : depth <= 0 -> scan search depth data = Ok (root_node data).
  Proof. intros H. unfold scan. apply Z.leb_le in H. rewrite H. reflexivity. Qed.

  (* every scan returns the scanned node with a new child list *)
  Lemma scan_node_hdr d n t : scan_node search d n = Ok t -> exists ks, t = set_kids n ks.
  Proof.
    destruct d as [|d]; cbn [scan_node].
    - intros [= <-]. exists (n_kids n). symmetry. apply set_kids_id.
    - destruct (n_kids n) as [|k0 ks0].
      + destruct (foldM (step (scan_node search d)) (results search n) (init_state n)) as [s| |] eqn:E; cbn [bind]; try discriminate.
        intros [= <-]. apply fold_bottom in E. destruct (unwind_bottom (stack s) (cur s)) as [ks Hks].
        exists ks. rewrite Hks, E. reflexivity.
      + destruct (mapM (scan_node search d) (k0 :: ks0)) as [ks| |]; cbn [bind]; try discriminate.
        intros [= <-]. eexists; reflexivity.
  Qed.

  Lemma state_le_refl s : state_le s s.
  Proof.
    assert (Hf : forall f, frame_le f f) by (intros f; split; [reflexivity | apply Forall2_tree_le_refl]).
    constructor; try reflexivity; [apply Hf|].
    induction (stack s); constructor; [apply Hf | assumption].
  Qed.

  (* mono and ok_down in one statement *)
  Theorem scan_node_down : forall d n, res_down tree_le (scan_node search d n) (scan_node search (S d) n).
  Proof.
    induction d as [|d IH]; intros n t' Ht'.
    - exists n. split; [reflexivity|].
      destruct (scan_node_hdr _ _ _ Ht') as [ks' ->].
      cbn [scan_node] in Ht'. destruct n as [t v o s e ks]. cbn [n_kids set_kids] in *.
      destruct ks as [|k0 ks0].
      + constructor. apply sub_nil.
      + rewrite mapM_Ok_id in Ht'. cbn [bind] in Ht'. injection Ht' as <-. apply tree_le_refl.
    - remember (S d) as d1 eqn:Ed1. cbn [scan_node] in Ht'. subst d1. cbn [scan_node].
      destruct (n_kids n) as [|k0 ks0].
      + pose proof (fold_le _ _ IH (results search n) _ _ (state_le_refl (init_state n))) as Hf.
        destruct (foldM (step (scan_node search (S d))) (results search n) (init_state n)) as [s2| |]; cbn [bind] in Ht'; try discriminate.
        destruct (Hf s2 eq_refl) as (s1 & -> & [Hc Hs _ _]). cbn [bind].
        injection Ht' as <-. eexists; split; [reflexivity|]. apply unwind_le; assumption.
      + pose proof (mapM_le _ _ IH (k0 :: ks0)) as Hm.
        destruct (mapM (scan_node search (S d)) (k0 :: ks0)) as [ks2| |]; cbn [bind] in Ht'; try discriminate.
        destruct (Hm ks2 eq_refl) as (ks1 & -> & Hks). cbn [bind].
        injection Ht' as <-. eexists; split; [reflexivity|].
        apply tree_le_set_kids, Forall2_sub_le, Hks.
  Qed.

  Theorem scan_node_mono d n t t' :
    scan_node search d n = Ok t -> scan_node search (S d) n = Ok t' -> tree_le t t'.
  Proof.
    intros H1 H2. destruct (scan_node_down d n t' H2) as (t0 & H0 & Hle). congruence.
  Qed.

  Theorem scan_node_ok_down d n t' :
    scan_node search (S d) n = Ok t' -> exists t, scan_node search d n = Ok t.
  Proof. intros H2. destruct (scan_node_down d n t' H2) as (t0 & H0 & _). eauto. Qed.

  (* any two depths *)
  Theorem scan_node_mono_le d d' n t t' : (d <= d')%nat ->
    scan_node search d n = Ok t -> scan_node search d' n = Ok t' -> tree_le t t'.
  Proof.
    intros Hle. revert t'. induction Hle as [|d' Hle IH]; intros t' H1 H2.
    - assert (t = t') by congruence. subst. apply tree_le_refl.
    - destruct (scan_node_down d' n t' H2) as (t0 & H0 & Hle0).
      eapply tree_le_trans; [apply (IH t0); assumption | exact Hle0].
  Qed.

  Theorem scan_node_ok_down_le d d' n t' : (d <= d')%nat ->
    scan_node search d' n = Ok t' -> exists t, scan_node search d n = Ok t.
  Proof.
    intros Hle. revert t'. induction Hle as [|d' Hle IH]; intros t' H2; [eauto|].
    destruct (scan_node_ok_down d' n t' H2) as (t0 & H0). eapply IH; exact H0.
  Qed.

  Theorem scan_mono k data t t' :
    scan search k data = Ok t -> scan search (k + 1) data = Ok t' -> tree_le t t'.
  Proof.
    unfold scan. destruct (k <=? 0) eqn:E1, (k + 1 <=? 0) eqn:E2; intros H1 H2.
    - assert (t = t') by congruence. subst. apply tree_le_refl.
    - apply Z.leb_le in E1. apply Z.leb_gt in E2. assert (k = 0) by lia. subst k.
      change (Z.to_nat (0 + 1)) with 1%nat in H2. injection H1 as <-.
      apply (scan_node_mono 0 (root_node data)); [reflexivity | exact H2].
    - apply Z.leb_gt in E1. apply Z.leb_le in E2. lia.
    - apply Z.leb_gt in E1. replace (Z.to_nat (k + 1)) with (S (Z.to_nat k)) in H2 by lia.
      eapply scan_node_mono; eassumption.
  Qed.

  Theorem scan_ok_down k data t' :
    scan search (k + 1) data = Ok t' -> exists t, scan search k data = Ok t.
  Proof.
    unfold scan. destruct (k <=? 0) eqn:E1; [eauto|].
    apply Z.leb_gt in E1. replace (k + 1 <=? 0) with false by (symmetry; apply Z.leb_gt; lia).
    replace (Z.to_nat (k + 1)) with (S (Z.to_nat k)) by lia. apply scan_node_ok_down.
  Qed.
End Depth.

(* ====================================================================== *)
(* C07 - termination even when every decoded value can be decoded again   *)
(* ====================================================================== *)
(* scan_node is a structural Fixpoint on the depth: it is total for every registry.  With the
   registry [search_again] the recursion stops exactly at the limit. *)
Example scan_again_5 :
  map_res height (scan search_again 5 (L"ab")) = Ok 5%nat.
Proof. vm_compute. reflexivity. Qed.

Example scan_again_5_tree :
  scan search_again 5 (L"ab") =
  Ok (Node [] (L"ab") [] 0 2
       [Node (L"again") (L"ab!") [] 0 2
         [Node (L"again") (L"ab!!") [] 0 3
           [Node (L"again") (L"ab!!!") [] 0 4
             [Node (L"again") (L"ab!!!!") [] 0 5
               [Node (L"again") (L"ab!!!!!") [] 0 6 []]]]]]).
Proof. vm_compute. reflexivity. Qed.

Example scan_again_heights :
  map (fun k => map_res height (scan search_again k (L"ab"))) [-1; 0; 1; 2; 3; 7]
  = [Ok 0%nat; Ok 0%nat; Ok 1%nat; Ok 2%nat; Ok 3%nat; Ok 7%nat].
Proof. vm_compute. reflexivity. Qed.

(* ====================================================================== *)
(* C07 - the logging twin                                                 *)
(* ====================================================================== *)
Section LogProofs.
  Variable search : bytes -> list node.

  Lemma step_log_erase recl rec sl hit :
    (forall h, map_res fst (recl h) = rec h) ->
    map_res fst (step_log recl sl hit) = step rec (fst sl) hit.
  Proof.
    intros Hrec. destruct sl as [s lg]. unfold step_log, step. cbn [fst snd].
    destruct (n_en hit <=? decode_end s); [reflexivity|].
    destruct (pop_until (n_en hit) (cur s) (stack s) (offset s)) as [[[c stk] off]| |]; cbn [bind map_res]; try reflexivity.
    destruct (restates (f_node c) (shift hit (- off))); [reflexivity|].
    destruct (is_decoding (n_val (f_node c)) (shift hit (- off))); [|reflexivity].
    rewrite <- Hrec. destruct (recl (shift hit (- off))) as [[h2 lg2]| |]; reflexivity.
  Qed.

  Lemma fold_log_erase recl rec : (forall h, map_res fst (recl h) = rec h) ->
    forall l sl, map_res fst (foldM (step_log recl) l sl) = foldM (step rec) l (fst sl).
  Proof.
    intros Hrec. induction l as [|h l IH]; intros sl; cbn [foldM]; [reflexivity|].
    rewrite <- (step_log_erase recl rec sl h Hrec).
    destruct (step_log recl sl h) as [sl'| |]; cbn [bind map_res]; try reflexivity. apply IH.
  Qed.

  Lemma mapM_log_erase recl rec : (forall h, map_res fst (recl h) = rec h) ->
    forall l, map_res fst (mapM_log recl l) = mapM rec l.
  Proof.
    intros Hrec. induction l as [|x l IH]; cbn [mapM_log mapM]; [reflexivity|].
    rewrite <- Hrec, <- IH.
    destruct (recl x) as [y| |]; cbn [bind map_res]; try reflexivity.
    destruct (mapM_log recl l) as [ys| |]; reflexivity.
  Qed.

  Theorem scan_node_log_erase : forall d n,
    map_res fst (scan_node_log search d n) = scan_node search d n.
  Proof.
    induction d as [|d IH]; intros n; [reflexivity|].
    cbn [scan_node_log scan_node]. destruct (n_kids n) as [|k0 ks0].
    - pose proof (fold_log_erase _ _ IH (results search n) (init_state n, [(S d, n_val n)])) as H.
      cbn [fst] in H. rewrite <- H.
      destruct (foldM (step_log (scan_node_log search d)) (results search n) (init_state n, [(S d, n_val n)])); reflexivity.
    - rewrite <- (mapM_log_erase _ _ IH (k0 :: ks0)).
      destruct (mapM_log (scan_node_log search d) (k0 :: ks0)); reflexivity.
  Qed.

  Definition log_bound (d : nat) (lg : slog) : Prop := Forall (fun e => (1 <= fst e <= d)%nat) lg.

  Lemma log_bound_S d lg : log_bound d lg -> log_bound (S d) lg.
  Proof. apply Forall_impl. intros e He. lia. Qed.

  Lemma step_log_bound d recl sl hit sl' :
    (forall h r, recl h = Ok r -> log_bound d (snd r)) ->
    log_bound (S d) (snd sl) -> step_log recl sl hit = Ok sl' -> log_bound (S d) (snd sl').
  Proof.
    intros Hrec Hlg. destruct sl as [s lg]. unfold step_log. cbn [fst snd] in *.
    destruct (n_en hit <=? decode_end s); [intros [= <-]; exact Hlg|].
    destruct (pop_until (n_en hit) (cur s) (stack s) (offset s)) as [[[c stk] off]| |]; cbn [bind]; try discriminate.
    destruct (restates (f_node c) (shift hit (- off))); [intros [= <-]; exact Hlg|].
    destruct (is_decoding (n_val (f_node c)) (shift hit (- off))); [|intros [= <-]; exact Hlg].
    destruct (recl (shift hit (- off))) as [hl| |] eqn:E; cbn [bind]; try discriminate.
    intros [= <-]. cbn [snd]. apply Forall_app. split; [exact Hlg|].
    apply log_bound_S. eapply Hrec; exact E.
  Qed.

  Lemma fold_log_bound d recl : (forall h r, recl h = Ok r -> log_bound d (snd r)) ->
    forall l sl sl', log_bound (S d) (snd sl) -> foldM (step_log recl) l sl = Ok sl' -> log_bound (S d) (snd sl').
  Proof.
    intros Hrec. induction l as [|h l IH]; intros sl sl' Hlg; cbn [foldM]; [intros [= <-]; exact Hlg|].
    destruct (step_log recl sl h) as [sl1| |] eqn:E; cbn [bind]; try discriminate.
    apply IH. eapply step_log_bound; eassumption.
  Qed.

  Lemma mapM_log_bound d recl : (forall h r, recl h = Ok r -> log_bound d (snd r)) ->
    forall l r, mapM_log recl l = Ok r -> log_bound d (snd r).
  Proof.
    intros Hrec. induction l as [|x l IH]; intros r; cbn [mapM_log].
    - intros [= <-]. constructor.
    - destruct (recl x) as [y| |] eqn:E; cbn [bind]; try discriminate.
      destruct (mapM_log recl l) as [ys| |]; cbn [bind]; try discriminate.
      intros [= <-]. cbn [snd]. apply Forall_app. split; [eapply Hrec; exact E | apply IH; reflexivity].
  Qed.

  Lemma scan_node_log_bound' : forall d n r, scan_node_log search d n = Ok r -> log_bound d (snd r).
  Proof.
    induction d as [|d IH]; intros n r; cbn [scan_node_log].
    - intros [= <-]. constructor.
    - destruct (n_kids n) as [|k0 ks0].
      + destruct (foldM (step_log (scan_node_log search d)) (results search n) (init_state n, [(S d, n_val n)])) as [sl| |] eqn:E;
          cbn [bind]; try discriminate.
        intros [= <-]. cbn [snd]. eapply fold_log_bound; [exact IH | | exact E].
        cbn [snd]. constructor; [cbn; lia | constructor].
      + destruct (mapM_log (scan_node_log search d) (k0 :: ks0)) as [r0| |] eqn:E; cbn [bind]; try discriminate.
        intros [= <-]. cbn [snd]. apply log_bound_S. eapply mapM_log_bound; [exact IH | exact E].
  Qed.

  (* a value is searched only when fewer than d decoding / descending steps separate it from the scanned node *)
  Theorem scan_node_log_bound d n t lg :
    scan_node_log search d n = Ok (t, lg) -> Forall (fun e => (1 <= fst e <= d)%nat) lg.
  Proof. intros H. exact (scan_node_log_bound' d n (t, lg) H). Qed.

  Corollary scan_node_log_0 n : scan_node_log search 0 n = Ok (n, []).
  Proof. reflexivity. Qed.

  (* a childless node scanned with a positive depth is itself searched first, with the full remaining depth *)
  Lemma fold_log_prefix recl : forall l sl sl', foldM (step_log recl) l sl = Ok sl' -> exists lg', snd sl' = snd sl ++ lg'.
  Proof.
    induction l as [|h l IH]; intros sl sl'; cbn [foldM].
    - intros [= <-]. exists []. symmetry. apply app_nil_r.
    - destruct (step_log recl sl h) as [sl1| |] eqn:E; cbn [bind]; try discriminate.
      intros H. apply IH in H. destruct H as [lg' ->].
      assert (exists lg1, snd sl1 = snd sl ++ lg1) as [lg1 ->].
      { revert E. destruct sl as [s lg]. unfold step_log. cbn [fst snd].
        destruct (n_en h <=? decode_end s); [intros [= <-]; exists []; symmetry; apply app_nil_r|].
        destruct (pop_until (n_en h) (cur s) (stack s) (offset s)) as [[[c stk] off]| |]; cbn [bind]; try discriminate.
        destruct (restates (f_node c) (shift h (- off))); [intros [= <-]; exists []; symmetry; apply app_nil_r|].
        destruct (is_decoding (n_val (f_node c)) (shift h (- off))); [|intros [= <-]; exists []; symmetry; apply app_nil_r].
        destruct (recl (shift h (- off))) as [hl| |]; cbn [bind]; try discriminate.
        intros [= <-]; eexists; reflexivity. }
      exists (lg1 ++ lg'). symmetry. apply app_assoc.
  Qed.
End LogProofs.

Theorem scan_node_log_head search d n t lg : n_kids n = [] ->
  scan_node_log search (S d) n = Ok (t, lg) -> exists lg', lg = (S d, n_val n) :: lg'.
Proof.
  intros Hk. cbn [scan_node_log]. rewrite Hk.
  destruct (foldM (step_log (scan_node_log search d)) (results search n) (init_state n, [(S d, n_val n)])) as [sl| |] eqn:E;
    cbn [bind]; try discriminate.
  intros [= <- <-]. apply fold_log_prefix in E. destruct E as [lg' ->]. exists lg'. reflexivity.
Qed.

(* ====================================================================== *)
(* C08 - the children produced by a scan depend only on type and value    *)
(* ====================================================================== *)

(* two frame chains that differ only in the node of the bottom frame *)
Inductive chain_rel (n n' : node) : frame -> list frame -> frame -> list frame -> Prop :=
| chain_bot ks : chain_rel n n' {| f_node := n; f_rkids := ks |} [] {| f_node := n'; f_rkids := ks |} []
| chain_cons c p stk p' stk' : chain_rel n n' p stk p' stk' -> chain_rel n n' c (p :: stk) c (p' :: stk').

(* the offset of the bottom frame, recomputed from the offset of the current one *)
Fixpoint bottom_off (c : frame) (stk : list frame) (off : Z) : Z :=
  match stk with
  | [] => off
  | p :: stk' => bottom_off p stk' (off - n_st (f_node c))
  end.

Lemma bottom_off_add_kid c k stk off : bottom_off (add_kid c k) stk off = bottom_off c stk off.
Proof. destruct stk; reflexivity. Qed.

Lemma chain_rel_add_kid n n' c stk c' stk' k :
  chain_rel n n' c stk c' stk' -> chain_rel n n' (add_kid c k) stk (add_kid c' k) stk'.
Proof.
  intros H. destruct H as [ks | c p stk p' stk' H].
  - apply (chain_bot n n' (k :: ks)).
  - apply chain_cons. exact H.
Qed.

Lemma chain_rel_cur n n' c stk c' stk' : n_val n = n_val n' -> n_ty n = n_ty n' ->
  chain_rel n n' c stk c' stk' ->
  n_val (f_node c) = n_val (f_node c') /\ n_ty (f_node c) = n_ty (f_node c').
Proof. intros Hv Ht H. destruct H; cbn [f_node]; auto. Qed.

Definition pop_fresh n n' (r r' : frame * list frame * Z) : Prop :=
  chain_rel n n' (fst (fst r)) (snd (fst r)) (fst (fst r')) (snd (fst r')) /\ snd r = snd r' /\
  bottom_off (fst (fst r)) (snd (fst r)) (snd r) = 0.

Lemma pop_until_fresh n n' hend : n_val n = n_val n' -> hend <= blen (n_val n) ->
  forall stk c c' stk' off, chain_rel n n' c stk c' stk' -> bottom_off c stk off = 0 ->
  res_match (pop_fresh n n') (pop_until hend c stk off) (pop_until hend c' stk' off).
Proof.
  intros Hv Hend. induction stk as [|p stk IH]; intros c c' stk' off H Hoff; inversion H; subst; cbn [pop_until].
  - cbn [bottom_off] in Hoff. subst off. cbn [f_node]. rewrite <- Hv.
    replace (hend >? 0 + blen (n_val n)) with false by (symmetry; rewrite Z.gtb_ltb; apply Z.ltb_ge; lia).
    cbn [res_match]. repeat split; cbn [fst snd]. apply chain_bot.
  - destruct (hend >? off + blen (n_val (f_node c'))).
    + apply IH.
      * apply chain_rel_add_kid. assumption.
      * rewrite bottom_off_add_kid. exact Hoff.
    + cbn [res_match]. repeat split; cbn [fst snd]; assumption.
Qed.

Record state_fresh (n n' : node) (s s' : state) : Prop := {
  sf_chain : chain_rel n n' (cur s) (stack s) (cur s') (stack s');
  sf_dec : decode_end s = decode_end s';
  sf_off : offset s = offset s';
  sf_boff : bottom_off (cur s) (stack s) (offset s) = 0 }.

Lemma step_fresh n n' rec s s' hit :
  n_val n = n_val n' -> n_ty n = n_ty n' -> n_en hit <= blen (n_val n) ->
  state_fresh n n' s s' ->
  res_match (state_fresh n n') (step rec s hit) (step rec s' hit).
Proof.
  intros Hv Ht Hend [Hch Hd Ho Hb]. unfold step. rewrite <- Hd, <- Ho.
  destruct (n_en hit <=? decode_end s).
  { cbn [res_match]. constructor; assumption. }
  pose proof (pop_until_fresh n n' (n_en hit) Hv Hend _ _ _ _ (offset s) Hch Hb) as Hp.
  destruct (pop_until (n_en hit) (cur s) (stack s) (offset s)) as [[[c stk] off]| |],
           (pop_until (n_en hit) (cur s') (stack s') (offset s)) as [[[c2 stk2] off2]| |];
    cbn [res_match bind] in *; try contradiction; try exact I; try assumption.
  destruct Hp as (Hch' & Hoff & Hb'). cbn [fst snd] in *. subst off2.
  destruct (chain_rel_cur n n' _ _ _ _ Hv Ht Hch') as [Hcv Hct].
  unfold restates. rewrite <- Hcv, <- Hct.
  destruct ((n_st (shift hit (- off)) =? 0) && beqb (n_val (shift hit (- off))) (n_val (f_node c)) &&
            beqb (n_ty (shift hit (- off))) (n_ty (f_node c))).
  { cbn [res_match]. constructor; cbn; auto. }
  destruct (is_decoding (n_val (f_node c)) (shift hit (- off))).
  - destruct (rec (shift hit (- off))) as [h2| |]; cbn [bind res_match]; auto.
    constructor; cbn; auto.
    + apply chain_rel_add_kid. exact Hch'.
    + rewrite bottom_off_add_kid. exact Hb'.
  - cbn [res_match]. constructor; cbn [cur stack decode_end offset]; auto.
    + apply chain_cons. exact Hch'.
    + cbn [bottom_off open_frame f_node].
      replace (off + n_st (shift hit (- off)) - n_st (shift hit (- off))) with off by lia. exact Hb'.
Qed.

Lemma fold_fresh n n' rec : n_val n = n_val n' -> n_ty n = n_ty n' ->
  forall l s s', Forall (fun h => n_en h <= blen (n_val n)) l -> state_fresh n n' s s' ->
  res_match (state_fresh n n') (foldM (step rec) l s) (foldM (step rec) l s').
Proof.
  intros Hv Ht. induction l as [|h l IH]; intros s s' Hl Hs; cbn [foldM]; [exact Hs|].
  inversion Hl as [|? ? Hh Hl']; subst.
  pose proof (step_fresh n n' rec s s' h Hv Ht Hh Hs) as Hstep.
  destruct (step rec s h) as [s1| |], (step rec s' h) as [s1'| |]; cbn [res_match bind] in *; try contradiction; auto.
Qed.

Lemma unwind_fresh n n' : forall stk c c' stk', chain_rel n n' c stk c' stk' ->
  exists ks, unwind c stk = set_kids n ks /\ unwind c' stk' = set_kids n' ks.
Proof.
  induction stk as [|p stk IH]; intros c c' stk' H; inversion H; subst; cbn [unwind].
  - eexists. split; reflexivity.
  - apply IH. apply chain_rel_add_kid. assumption.
Qed.

Definition same_kids (n n' t t' : node) : Prop := exists ks, t = set_kids n ks /\ t' = set_kids n' ks.

Section Fresh.
  Variable search : bytes -> list node.
  Hypothesis Hwf : wf_search search.

  (* both runs behave alike - also when they raise or hang - and attach the same children *)
  Theorem scan_node_fresh_res d n n' :
    n_kids n = [] -> n_kids n' = [] -> n_val n = n_val n' -> n_ty n = n_ty n' ->
    res_match (same_kids n n') (scan_node search d n) (scan_node search d n').
  Proof.
    intros Hk Hk' Hv Ht. destruct d as [|d]; cbn [scan_node res_match].
    - exists []. destruct n, n'; cbn in *; subst; split; reflexivity.
    - rewrite Hk, Hk'. unfold results. rewrite <- Hv.
      fold (results search n).
      assert (Hl : Forall (fun h => n_en h <= blen (n_val n)) (results search n)).
      { eapply Forall_impl; [|apply (results_ok search Hwf n)]. intros h (_ & _ & H). exact H. }
      assert (Hinit : state_fresh n n' (init_state n) (init_state n')).
      { constructor; cbn; try reflexivity.
        pose proof (chain_bot n n' []) as H. exact H. }
      pose proof (fold_fresh n n' (scan_node search d) Hv Ht _ _ _ Hl Hinit) as Hf.
      destruct (foldM (step (scan_node search d)) (results search n) (init_state n)) as [s1| |],
               (foldM (step (scan_node search d)) (results search n) (init_state n')) as [s1'| |];
        cbn [res_match bind] in *; try contradiction; auto.
      destruct Hf as [Hch _ _ _]. apply unwind_fresh. exact Hch.
  Qed.

  Theorem scan_node_fresh d ty v o s e o' s' e' t :
    scan_node search d (Node ty v o s e []) = Ok t ->
    scan_node search d (Node ty v o' s' e' []) = Ok (Node ty v o' s' e' (n_kids t)) /\
    (exists ks, t = Node ty v o s e ks).
  Proof.
    intros H.
    pose proof (scan_node_fresh_res d (Node ty v o s e []) (Node ty v o' s' e' []) eq_refl eq_refl eq_refl eq_refl) as Hr.
    rewrite H in Hr.
    destruct (scan_node search d (Node ty v o' s' e' [])) as [t'| |]; cbn [res_match] in Hr; try contradiction.
    destruct Hr as (ks & -> & ->). cbn [set_kids n_kids]. split; [reflexivity | eexists; reflexivity].
  Qed.

  (* the scan of a decoded hit (no decoder-supplied children) is the hit with the children of a scan of
     a fresh root-like node carrying only its type and value *)
  Definition fresh_node (h : node) : node := Node (n_ty h) (n_val h) [] 0 (blen (n_val h)) [].

  Corollary scan_node_decoded_fresh d h h2 : n_kids h = [] ->
    scan_node search d h = Ok h2 ->
    exists t, scan_node search d (fresh_node h) = Ok t /\ h2 = set_kids h (n_kids t).
  Proof.
    intros Hk H. destruct h as [ty v o s e ks]. cbn in Hk. subst ks.
    destruct (scan_node_fresh d ty v o s e [] 0 (blen v) h2 H) as [H1 [ks ->]].
    eexists. split; [exact H1 | reflexivity].
  Qed.
End Fresh.

(* ---------- what one iteration does ---------- *)
Lemma n_en_shift_back hit off : n_en (shift hit (- off)) + off = n_en hit.
Proof. rewrite n_en_shift. lia. Qed.

(* complete case analysis of a successful iteration *)
Lemma step_cases rec s hit s' : step rec s hit = Ok s' ->
  (n_en hit <= decode_end s /\ s' = s) \/
  exists c stk off,
    decode_end s < n_en hit /\
    pop_until (n_en hit) (cur s) (stack s) (offset s) = Ok (c, stk, off) /\
    let hit' := shift hit (- off) in
    (restates (f_node c) hit' = true /\
       s' = {| cur := c; stack := stk; decode_end := decode_end s; offset := off |}) \/
    (restates (f_node c) hit' = false /\ is_decoding (n_val (f_node c)) hit' = true /\
       exists h2, rec hit' = Ok h2 /\
       s' = {| cur := add_kid c h2; stack := stk; decode_end := n_en hit; offset := off |}) \/
    (restates (f_node c) hit' = false /\ is_decoding (n_val (f_node c)) hit' = false /\
       s' = {| cur := open_frame hit'; stack := c :: stk; decode_end := decode_end s; offset := off + n_st hit' |}).
Proof.
  unfold step. destruct (n_en hit <=? decode_end s) eqn:Ed.
  { intros [= <-]. left. apply Z.leb_le in Ed. auto. }
  apply Z.leb_gt in Ed.
  destruct (pop_until (n_en hit) (cur s) (stack s) (offset s)) as [[[c stk] off]| |]; cbn [bind]; try discriminate.
  intros H. right. exists c, stk, off. split; [exact Ed|]. split; [reflexivity|]. cbn zeta.
  destruct (restates (f_node c) (shift hit (- off))).
  { injection H as <-. left. auto. }
  destruct (is_decoding (n_val (f_node c)) (shift hit (- off))).
  - destruct (rec (shift hit (- off))) as [h2| |]; cbn [bind] in H; try discriminate.
    injection H as <-. right; left. repeat split. exists h2. rewrite n_en_shift_back. auto.
  - injection H as <-. right; right. auto.
Qed.

(* in the decoding branch the appended child is exactly [rec] applied to the shifted hit *)
Lemma step_attaches_scan rec s hit s' c stk off :
  step rec s hit = Ok s' ->
  decode_end s < n_en hit ->
  pop_until (n_en hit) (cur s) (stack s) (offset s) = Ok (c, stk, off) ->
  restates (f_node c) (shift hit (- off)) = false ->
  is_decoding (n_val (f_node c)) (shift hit (- off)) = true ->
  exists h2, rec (shift hit (- off)) = Ok h2 /\
    f_node (cur s') = f_node c /\ f_rkids (cur s') = h2 :: f_rkids c /\
    stack s' = stk /\ decode_end s' = n_en hit /\ offset s' = off.
Proof.
  intros H Hd Hp Hr Hdec. apply step_cases in H.
  destruct H as [[Hle _] | (c0 & stk0 & off0 & _ & Hp0 & H)]; [lia|].
  rewrite Hp in Hp0. injection Hp0 as <- <- <-. cbn zeta in H.
  destruct H as [[Hr' _] | [(_ & _ & h2 & Hrec & ->) | (_ & Hdec' & _)]]; try congruence.
  exists h2. cbn. repeat split; assumption.
Qed.

Lemma step_ext rec1 rec2 s hit : (forall h, rec1 h = rec2 h) -> step rec1 s hit = step rec2 s hit.
Proof.
  intros Hrec. unfold step. destruct (n_en hit <=? decode_end s); [reflexivity|].
  destruct (pop_until (n_en hit) (cur s) (stack s) (offset s)) as [[[c stk] off]| |]; cbn [bind]; try reflexivity.
  rewrite Hrec. reflexivity.
Qed.

Lemma fold_ext rec1 rec2 : (forall h, rec1 h = rec2 h) ->
  forall l s, foldM (step rec1) l s = foldM (step rec2) l s.
Proof.
  intros Hrec. induction l as [|h l IH]; intros s; cbn [foldM]; [reflexivity|].
  rewrite (step_ext rec1 rec2 s h Hrec). destruct (step rec2 s h); cbn [bind]; auto.
Qed.

Section Attach.
  Variable search : bytes -> list node.
  Hypothesis Hwf : wf_search search.

  (* the recursive call of the decoding branch, re-expressed: a hit without decoder-supplied children
     receives the children of an independent scan of its decoded value *)
  Definition rec_fresh (d : nat) (h : node) : res node :=
    match n_kids h with
    | [] => do t <- scan_node search d (fresh_node h); Ok (set_kids h (n_kids t))
    | _ :: _ => scan_node search d h
    end.

  Lemma n_kids_set_kids n ks : n_kids (set_kids n ks) = ks.
  Proof. destruct n; reflexivity. Qed.

  Theorem scan_node_rec_fresh d h : scan_node search d h = rec_fresh d h.
  Proof.
    unfold rec_fresh. destruct (n_kids h) as [|k0 ks0] eqn:Ek; [|reflexivity].
    pose proof (scan_node_fresh_res search Hwf d h (fresh_node h) Ek eq_refl eq_refl eq_refl) as Hr.
    destruct (scan_node search d h) as [t| |], (scan_node search d (fresh_node h)) as [t'| |];
      cbn [res_match bind] in *; try contradiction; try congruence.
    destruct Hr as (ks & -> & ->). rewrite n_kids_set_kids. reflexivity.
  Qed.

  (* C08, whole engine: scanning a childless node is the fold whose decoding branch attaches, to every
     decoded hit, the children of a fresh scan of the decoded value (one level less) *)
  Theorem scan_node_attaches_fresh_scans d n : n_kids n = [] ->
    scan_node search (S d) n =
    do s <- foldM (step (rec_fresh d)) (results search n) (init_state n); Ok (unwind (cur s) (stack s)).
  Proof.
    intros Hk. cbn [scan_node]. rewrite Hk.
    rewrite (fold_ext _ _ (scan_node_rec_fresh d)). reflexivity.
  Qed.

  (* C08, one iteration: the children of a decoded hit are the children of a scan of its decoded value *)
  Theorem step_decoded_children d s hit s' c stk off :
    step (scan_node search d) s hit = Ok s' ->
    decode_end s < n_en hit ->
    pop_until (n_en hit) (cur s) (stack s) (offset s) = Ok (c, stk, off) ->
    restates (f_node c) (shift hit (- off)) = false ->
    is_decoding (n_val (f_node c)) (shift hit (- off)) = true ->
    n_kids hit = [] ->
    exists t, scan_node search d (Node (n_ty hit) (n_val hit) [] 0 (blen (n_val hit)) []) = Ok t /\
      f_rkids (cur s') = set_kids (shift hit (- off)) (n_kids t) :: f_rkids c.
  Proof.
    intros H Hd Hp Hr Hdec Hk.
    destruct (step_attaches_scan _ _ _ _ _ _ _ H Hd Hp Hr Hdec) as (h2 & Hrec & _ & Hkids & _).
    assert (Hk' : n_kids (shift hit (- off)) = []) by (rewrite n_kids_shift; exact Hk).
    destruct (scan_node_decoded_fresh search Hwf d _ h2 Hk' Hrec) as (t & Ht & ->).
    exists t. split; [|exact Hkids].
    unfold fresh_node in Ht. rewrite n_ty_shift, n_val_shift in Ht. exact Ht.
  Qed.
End Attach.

(* ====================================================================== *)
(* Test vectors: expected values printed by /venv/bin/python for the same registries *)
(* ====================================================================== *)
Definition search_fix (v : bytes) : list node :=
  if beqb v (L"a[bc]d") then [Node (L"br") (L"[bc]") [] 1 5 []; Node (L"in") (L"BCx") (L"dec") 2 4 []]
  else if beqb v (L"BCx") then [Node (L"q") (L"zz") (L"sub") 0 1 []; Node (L"cx") (L"Cx") [] 1 3 []]
  else if beqb v (L"zz") then [Node (L"z") (L"Z!") (L"up") 0 2 []]
  else if beqb v (L"Cx") then [Node (L"cx") (L"Cx") [] 0 2 []]
  else if beqb v (L"Z!") then [Node (L"e") [] [] 0 1 []; Node (L"pre") (L"k") [] 0 1 [Node (L"kid") (L"zz") [] 0 1 []]]
  else [].

(* an out-of-bounds hit: not wf_search *)
Definition search_oob (v : bytes) : list node :=
  match v with [] => [] | _ => [Node (L"x") (L"zz") [] 0 (blen v + 1) []] end.

Example scan_fix_0 : scan search_fix 0 (L"a[bc]d") =
  Ok (Node (L"") (L"a[bc]d") (L"") 0 6 []).
Proof. vm_compute. reflexivity. Qed.

Example scan_fix_1 : scan search_fix 1 (L"a[bc]d") =
  Ok (Node (L"") (L"a[bc]d") (L"") 0 6 [(Node (L"br") (L"[bc]") (L"") 1 5 [(Node (L"in") (L"BCx") (L"dec") 1 3 [])])]).
Proof. vm_compute. reflexivity. Qed.

Example scan_fix_2 : scan search_fix 2 (L"a[bc]d") =
  Ok (Node (L"") (L"a[bc]d") (L"") 0 6 [(Node (L"br") (L"[bc]") (L"") 1 5 [(Node (L"in") (L"BCx") (L"dec") 1 3 [(Node (L"q") (L"zz") (L"sub") 0 1 []); (Node (L"cx") (L"Cx") (L"") 1 3 [])])])]).
Proof. vm_compute. reflexivity. Qed.

Example scan_fix_3 : scan search_fix 3 (L"a[bc]d") =
  Ok (Node (L"") (L"a[bc]d") (L"") 0 6 [(Node (L"br") (L"[bc]") (L"") 1 5 [(Node (L"in") (L"BCx") (L"dec") 1 3 [(Node (L"q") (L"zz") (L"sub") 0 1 [(Node (L"z") (L"Z!") (L"up") 0 2 [])]); (Node (L"cx") (L"Cx") (L"") 1 3 [])])])]).
Proof. vm_compute. reflexivity. Qed.

Example scan_fix_4 : scan search_fix 4 (L"a[bc]d") =
  Ok (Node (L"") (L"a[bc]d") (L"") 0 6 [(Node (L"br") (L"[bc]") (L"") 1 5 [(Node (L"in") (L"BCx") (L"dec") 1 3 [(Node (L"q") (L"zz") (L"sub") 0 1 [(Node (L"z") (L"Z!") (L"up") 0 2 [(Node (L"pre") (L"k") (L"") 0 1 [(Node (L"kid") (L"zz") (L"") 0 1 [])])])]); (Node (L"cx") (L"Cx") (L"") 1 3 [])])])]).
Proof. vm_compute. reflexivity. Qed.

Example scan_fix_5 : scan search_fix 5 (L"a[bc]d") =
  Ok (Node (L"") (L"a[bc]d") (L"") 0 6 [(Node (L"br") (L"[bc]") (L"") 1 5 [(Node (L"in") (L"BCx") (L"dec") 1 3 [(Node (L"q") (L"zz") (L"sub") 0 1 [(Node (L"z") (L"Z!") (L"up") 0 2 [(Node (L"pre") (L"k") (L"") 0 1 [(Node (L"kid") (L"zz") (L"") 0 1 [])])])]); (Node (L"cx") (L"Cx") (L"") 1 3 [])])])]).
Proof. vm_compute. reflexivity. Qed.

Example scan_fix_6 : scan search_fix 6 (L"a[bc]d") =
  Ok (Node (L"") (L"a[bc]d") (L"") 0 6 [(Node (L"br") (L"[bc]") (L"") 1 5 [(Node (L"in") (L"BCx") (L"dec") 1 3 [(Node (L"q") (L"zz") (L"sub") 0 1 [(Node (L"z") (L"Z!") (L"up") 0 2 [(Node (L"pre") (L"k") (L"") 0 1 [(Node (L"kid") (L"zz") (L"") 0 1 [(Node (L"z") (L"Z!") (L"up") 0 2 [])])])])]); (Node (L"cx") (L"Cx") (L"") 1 3 [])])])]).
Proof. vm_compute. reflexivity. Qed.

Example scan_node_fix_hdr_1 : scan_node search_fix 1 (Node (L"t") (L"BCx") (L"o") 7 9 []) =
  Ok (Node (L"t") (L"BCx") (L"o") 7 9 [(Node (L"q") (L"zz") (L"sub") 0 1 []); (Node (L"cx") (L"Cx") (L"") 1 3 [])]).
Proof. vm_compute. reflexivity. Qed.

Example scan_node_fix_hdr_3 : scan_node search_fix 3 (Node (L"t") (L"BCx") (L"o") 7 9 []) =
  Ok (Node (L"t") (L"BCx") (L"o") 7 9 [(Node (L"q") (L"zz") (L"sub") 0 1 [(Node (L"z") (L"Z!") (L"up") 0 2 [(Node (L"pre") (L"k") (L"") 0 1 [(Node (L"kid") (L"zz") (L"") 0 1 [])])])]); (Node (L"cx") (L"Cx") (L"") 1 3 [])]).
Proof. vm_compute. reflexivity. Qed.

(* without wf_search the scanned node's own start IS read (empty-stack branch of pop_until):
   scan_node_fresh fails for this registry - Python loops forever on the first node too *)
Example scan_oob_neg : scan_node search_oob 1 (Node [] (L"ab") [] (-1) 2 []) =
  Ok (Node (L"") (L"ab") (L"") (-1) 2 [(Node (L"x") (L"zz") (L"") (-1) 2 [])]).
Proof. vm_compute. reflexivity. Qed.

Example scan_oob_hang : scan_node search_oob 1 (Node [] (L"ab") [] 0 2 []) = Hang.
Proof. vm_compute. reflexivity. Qed.

(* searched values in the order Python calls the registry, with the remaining depth *)
Example scan_log_fix_0 : map_res snd (scan_node_log search_fix 0 (root_node (L"a[bc]d"))) = Ok [].
Proof. vm_compute. reflexivity. Qed.
Example scan_log_fix_1 : map_res snd (scan_node_log search_fix 1 (root_node (L"a[bc]d"))) = Ok [(1%nat, L"a[bc]d")].
Proof. vm_compute. reflexivity. Qed.
Example scan_log_fix_3 : map_res snd (scan_node_log search_fix 3 (root_node (L"a[bc]d"))) =
  Ok [(3%nat, L"a[bc]d"); (2%nat, L"BCx"); (1%nat, L"zz")].
Proof. vm_compute. reflexivity. Qed.
Example scan_log_fix_6 : map_res snd (scan_node_log search_fix 6 (root_node (L"a[bc]d"))) =
  Ok [(6%nat, L"a[bc]d"); (5%nat, L"BCx"); (4%nat, L"zz"); (3%nat, L"Z!"); (1%nat, L"zz")].
Proof. vm_compute. reflexivity. Qed.
Example scan_log_again_3 : map_res snd (scan_node_log search_again 3 (root_node (L"ab"))) =
  Ok [(3%nat, L"ab"); (2%nat, L"ab!"); (1%nat, L"ab!!")].
Proof. vm_compute. reflexivity. Qed.

(* search_fix and search_again satisfy the C08 precondition; search_oob does not *)
Lemma wf_search_again : wf_search search_again.
Proof.
  intros v h Hin _. destruct v as [|b v]; [contradiction|].
  destruct Hin as [<-|[]]. unfold hit_ok, blen. cbn [n_st n_en List.length]. lia.
Qed.

(* ====================================================================== *)
Print Assumptions scan_nonpositive.
Print Assumptions scan_node_down.
Print Assumptions scan_node_mono.
Print Assumptions scan_node_ok_down.
Print Assumptions scan_node_mono_le.
Print Assumptions scan_node_ok_down_le.
Print Assumptions scan_mono.
Print Assumptions scan_ok_down.
Print Assumptions tree_le_trans.
Print Assumptions tree_le_height.
Print Assumptions scan_again_5.
Print Assumptions scan_node_log_erase.
Print Assumptions scan_node_log_bound.
Print Assumptions scan_node_log_head.
Print Assumptions scan_node_fresh_res.
Print Assumptions scan_node_fresh.
Print Assumptions scan_node_decoded_fresh.
Print Assumptions step_cases.
Print Assumptions step_attaches_scan.
Print Assumptions scan_node_rec_fresh.
Print Assumptions scan_node_attaches_fresh_scans.
Print Assumptions step_decoded_children.
Print Assumptions wf_search_again.
