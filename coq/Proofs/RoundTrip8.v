(* END-TO-END round trips  instance -> find  for URLs WITH AN EXPLICIT PORT (C11 / C10), continuation of
   Proofs/RoundTrip6.v (same conclusion shape, same fuel discipline; the regenerated pattern is referred to by name
   only, its parts are reached by projections and unfolded by the proof scripts).

   [find_urls_roundtrip_port]: URLs  scheme :// host : port path  with scheme, host (dotted labels and a top level
   domain of the table) and path as in RoundTrip6.find_urls_roundtrip_simple, port = 1 to 4 decimal digits ([port_ok]).
   The port group of the pattern is an optional digit of 0 to 6 followed by at most four digits: it consumes WHOLE
   exactly the digit strings of length 0 to 4 and those of length 5 whose first digit is 0 to 6; of any other run of
   digits it takes a proper prefix (4 digits when the first digit is 7, 8 or 9, 5 digits otherwise) and the match ENDS
   there, because the path part needs a slash, question mark or hash: [rt8_port_truncated_7] (http://example.com:70000/x
   is reported as http://example.com:7000, span 0 to 23).  Documented heuristic of the pattern, reported as a finding.
   The userinfo part of the pattern (its class contains the colon and the digits) first swallows host, colon, port and
   the trailing punctuation, finds no at sign and gives everything back (RoundTrip6.runs_userinfo_skip).
   The Python after finditer: urlsplit keeps  host:port  as netloc, .port parses the digits (at most 9999, so never the
   ValueError of a port above 65535), parse_authority removes the colon and the digits from the host; the model (and
   the code) reports NO node for the port: the children are scheme, network.domain (span of the host only) and the path,
   which starts after the port ([url_port_kids]).

   [find_urls_roundtrip_iphost]: URLs  scheme :// quad path  whose host is a canonical dotted quad (Ip.canonical_quad,
   the predicate of RoundTrip3.find_ips_roundtrip), no port: an instance of RoundTrip6.find_urls_roundtrip_gen (a quad
   is 7 to 15 bytes of the host class); parse_authority types the host network.ip, value = the text, no label
   ([url_ip_kids]).  No condition on the table of top level domains, and none of the filters of find_ips (final octet
   0 or 255, context before the address) applies to the host of a URL (rt8_ip_run2). *)
From Coq Require Import List ZArith NArith Bool Lia Arith.
From MD Require Import Lib.Base Model.Node Regex.Syntax Regex.DerivProofs Regex.MonitorProofs
  Regex.Backtrack Regex.BacktrackProofs Regex.LocalityProofs Generated.Regexes Generated.Consts Model.Dec.ReLib.
From MD Require Import Model.Codec.Percent Model.Dec.Ip Model.Dec.UrlPath Model.Dec.UrlSplit Model.Dec.Network
  Generated.Tables.
From MD Require Import Proofs.BaseProofs Proofs.IpProofs Proofs.PercentProofs Proofs.UrlPathProofs Proofs.UrlSplitProofs
  Proofs.NetworkProofs Proofs.Shapes1 Proofs.Shapes2 Proofs.Shapes3 Proofs.RoundTrip Proofs.RoundTrip2 Proofs.RoundTrip3
  Proofs.RoundTrip4 Proofs.RoundTrip6.
Import ListNotations.
Open Scope Z_scope.

(* ------------------------------------------------------------------ *)
(* 1.  The port and the netloc                                           *)
(* ------------------------------------------------------------------ *)
Definition port_ok (port : bytes) : bool :=
  forallb is_digit_ascii port && (1 <=? List.length port)%nat && (List.length port <=? 4)%nat.
(* bytes of  host : port *)
Definition nl_byte (c : N) : bool := host_byte c || (c =? 58)%N.
Definition hostport (host port : bytes) : bytes := host ++ 58%N :: port.
(* bytes of the whole text *)
Definition form_byte (c : N) : bool := nl_byte c || rest_byte c.

Lemma nl_byte_lt c : nl_byte c = true -> (c < 256)%N.
Proof.
  unfold nl_byte. intros H. apply orb_true_iff in H. destruct H as [H|H]; [apply host_byte_lt; exact H|].
  apply N.eqb_eq in H. subst c. reflexivity.
Qed.

Lemma form_byte_lt c : form_byte c = true -> (c < 256)%N.
Proof.
  unfold form_byte. intros H. apply orb_true_iff in H. destruct H as [H|H]; [apply nl_byte_lt | apply rest_byte_lt]; exact H.
Qed.

Lemma port_ok_parts port : port_ok port = true ->
  forallb is_digit_ascii port = true /\ (1 <= List.length port <= 4)%nat.
Proof.
  unfold port_ok. intros H. apply andb_true_iff in H. destruct H as [H H3]. apply andb_true_iff in H. destruct H as [H1 H2].
  apply Nat.leb_le in H2, H3. split; [exact H1 | lia].
Qed.

Lemma hostport_bytes host port :
  forallb host_byte host = true -> forallb is_digit_ascii port = true -> forallb nl_byte (hostport host port) = true.
Proof.
  intros Hh Hp. unfold hostport. rewrite forallb_app. cbn [forallb].
  rewrite (forallb_table host_byte nl_byte host host_byte_lt ltac:(vm_compute; reflexivity) Hh).
  rewrite (forallb_table is_digit_ascii nl_byte port is_digit_lt ltac:(vm_compute; reflexivity) Hp). reflexivity.
Qed.

(* ------------------------------------------------------------------ *)
(* 2.  Matcher facts                                                     *)
(* ------------------------------------------------------------------ *)
(* (colon (d6)? (digit){0,4})?  on a colon and one to four digits followed by a non-digit *)
Lemma runs_port C D6 D p0 pr x :
  N.testbit C 58 = true -> startable (Cls D6) = true ->
  N.testbit D p0 = true -> Forall (fun c => N.testbit D c = true) pr -> (List.length pr <= 3)%nat -> hd_out D x ->
  runs 30 (Rep 0 (Some 1%nat) (Seq (Cls C) (Seq (Rep 0 (Some 1%nat) (Cls D6)) (Rep 0 (Some 4%nat) (Cls D)))))
       (58%N :: p0 :: pr) x cf_id.
Proof.
  intros HC HS HD0 HDr Hlen Hx.
  assert (Hin : runs (List.length pr + 8) (Seq (Rep 0 (Some 1%nat) (Cls D6)) (Rep 0 (Some 4%nat) (Cls D))) (p0 :: pr) x cf_id).
  { destruct (N.testbit D6 p0) eqn:E6.
    - eapply runs_ext; [|eapply runs_mono;
        [ eapply (runs_seq _ _ _ _ [p0] pr x);
          [ eapply runs_opt_take; exact E6
          | eapply runs_rep_cls_hi; [exact HDr | lia | right; exact Hx] ]
        | lia ]]; intros i c; reflexivity.
    - eapply runs_mono;
        [ eapply runs_seq_skip;
          [ eapply runs_opt_skip; [exact HS | cbn [first_cls app hd_out]; exact E6]
          | eapply runs_rep_cls_hi; [constructor; assumption | cbn [List.length]; lia | right; exact Hx] ]
        | cbn [spine List.length]; lia ]. }
  eapply runs_ext; [|eapply runs_mono;
    [ eapply runs_opt_once; [discriminate|]; eapply runs_seq_cls; [exact HC | exact Hin]
    | lia ]]; intros i c; reflexivity.
Qed.

Lemma host_hd_out_pct host y :
  forallb host_byte host = true -> host <> [] -> hd_out (mask_of (L"%")) (host ++ y).
Proof.
  intros Hhost Hne. destruct host as [|h0 host']; [congruence|]. cbn [app hd_out].
  cbn [forallb] in Hhost. apply andb_true_iff in Hhost. destruct Hhost as [Hh0 _]. apply negb_true_iff.
  exact (pred_table host_byte (fun c => negb (N.testbit (mask_of (L"%")) c)) host_byte_lt
           ltac:(vm_compute; reflexivity) h0 Hh0).
Qed.

Lemma app3_assoc (a b c d : bytes) : (a ++ b ++ c) ++ d = (a ++ b) ++ c ++ d.
Proof. rewrite <- !app_assoc. reflexivity. Qed.

(* no path: the userinfo star runs over host, colon, port AND the trailing punctuation *)
Lemma url_tail_runs_port_nopath host p0 pr suf :
  forallb host_byte host = true -> (URL_HOST_MIN <= List.length host <= URL_HOST_MAX)%nat ->
  forallb is_digit_ascii (p0 :: pr) = true -> (List.length pr <= 3)%nat -> url_stop suf = true ->
  runs (List.length host + List.length (take_trail suf) + 60) URL_TAIL_RE (host ++ 58%N :: p0 :: pr) suf cf_id.
Proof.
  intros Hhost Hlen Hport Hplen Hstop. pose proof url_host_min_pos as Hmin.
  destruct (trail_split suf) as [Esuf Ht]. set (t := take_trail suf) in *. set (x := drop_trail suf) in *.
  assert (Hne : host <> []) by (destruct host; [cbn [List.length] in Hlen; lia | discriminate]).
  pose proof (host_hd_out_pct host ((58%N :: p0 :: pr) ++ suf) Hhost Hne) as Hh0.
  pose proof (hostport_bytes host (p0 :: pr) Hhost Hport) as Hnl. unfold hostport in Hnl.
  cbn [forallb] in Hport. apply andb_true_iff in Hport. destruct Hport as [Hp0 Hpr].
  unfold URL_TAIL_RE, RE_network_URL_RE. cbn [seq_r].
  eapply runs_ext; [|eapply runs_mono;
    [ eapply runs_seq_skip;
      [ replace ((host ++ 58%N :: p0 :: pr) ++ suf) with (((host ++ 58%N :: p0 :: pr) ++ t) ++ x)
          by (rewrite <- (app_assoc _ t x), <- Esuf; reflexivity);
        eapply runs_userinfo_skip;
        [ apply Forall_app; split;
          [ apply (Forall_in_not nl_byte _ _ _ nl_byte_lt); [vm_compute; reflexivity | exact Hnl]
          | apply (Forall_in_not trail_byte _ _ t trail_byte_lt); [vm_compute; reflexivity | exact Ht] ]
        | hd_drop Hstop | hd_drop Hstop ]
      | eapply (runs_seq _ _ _ _ host (58%N :: p0 :: pr) suf);
        [ eapply runs_alt_l; eapply runs_seq_skip;
          [ eapply runs_nlook_blocked; eapply blocked_first; [reflexivity | cbn [first_cls nullable]; exact Hh0]
          | eapply runs_rep_cls_hi;
            [ apply (Forall_of_pred _ host_byte); [exact host_byte_lt | vm_compute; reflexivity | exact Hhost]
            | exact Hlen
            | right; cbn [app hd_out]; vm_compute; reflexivity ] ]
        | eapply runs_seq_end;
          [ eapply runs_port;
            [ vm_compute; reflexivity | vm_compute; reflexivity
            | eapply (testbit_in_table is_digit_ascii); [exact is_digit_lt | vm_compute; reflexivity | exact Hp0]
            | apply (Forall_of_pred _ is_digit_ascii); [exact is_digit_lt | vm_compute; reflexivity | exact Hpr]
            | exact Hplen
            | hd_stop Hstop ]
          | eapply runs_opt_skip; [vm_compute; reflexivity | cbn [first_cls nullable]; hd_stop Hstop] ] ] ]
    | cbn [spine nullable]; rewrite ?app_length; cbn [List.length]; lia ]]; intros i c; reflexivity.
Qed.

(* something after the port *)
Lemma url_tail_runs_port_rest host p0 pr d0 w suf :
  forallb host_byte host = true -> (URL_HOST_MIN <= List.length host <= URL_HOST_MAX)%nat ->
  forallb is_digit_ascii (p0 :: pr) = true -> (List.length pr <= 3)%nat ->
  delim_byte d0 = true -> forallb rest_byte w = true -> rest_end_byte (last w 47%N) = true -> url_stop suf = true ->
  runs (List.length host + List.length w + List.length (take_trail suf) + 60) URL_TAIL_RE
       (host ++ (58%N :: p0 :: pr) ++ d0 :: w) suf cf_id.
Proof.
  intros Hhost Hlen Hport Hplen Hd0 Hw Hl Hstop. pose proof url_host_min_pos as Hmin.
  destruct (trail_split suf) as [Esuf Ht]. set (t := take_trail suf) in *. set (x := drop_trail suf) in *.
  assert (Hne : host <> []) by (destruct host; [cbn [List.length] in Hlen; lia | discriminate]).
  pose proof (host_hd_out_pct host (((58%N :: p0 :: pr) ++ d0 :: w) ++ suf) Hhost Hne) as Hh0.
  pose proof (hostport_bytes host (p0 :: pr) Hhost Hport) as Hnl. unfold hostport in Hnl.
  cbn [forallb] in Hport. apply andb_true_iff in Hport. destruct Hport as [Hp0 Hpr].
  unfold URL_TAIL_RE, RE_network_URL_RE. cbn [seq_r].
  eapply runs_ext; [|eapply runs_mono;
    [ eapply runs_seq_skip;
      [ rewrite (app3_assoc host (58%N :: p0 :: pr) (d0 :: w) suf); eapply runs_userinfo_skip;
        [ apply (Forall_in_not nl_byte _ _ _ nl_byte_lt); [vm_compute; reflexivity | exact Hnl]
        | cbn [app hd_out]; eapply (testbit_out_table delim_byte); [exact delim_byte_lt | vm_compute; reflexivity | exact Hd0]
        | cbn [app hd_out]; eapply (testbit_out_table delim_byte); [exact delim_byte_lt | vm_compute; reflexivity | exact Hd0] ]
      | eapply (runs_seq _ _ _ _ host ((58%N :: p0 :: pr) ++ d0 :: w) suf);
        [ eapply runs_alt_l; eapply runs_seq_skip;
          [ eapply runs_nlook_blocked; eapply blocked_first; [reflexivity | cbn [first_cls nullable]; exact Hh0]
          | eapply runs_rep_cls_hi;
            [ apply (Forall_of_pred _ host_byte); [exact host_byte_lt | vm_compute; reflexivity | exact Hhost]
            | exact Hlen
            | right; cbn [app hd_out]; vm_compute; reflexivity ] ]
        | eapply (runs_seq _ _ _ _ (58%N :: p0 :: pr) (d0 :: w) suf);
          [ eapply runs_port;
            [ vm_compute; reflexivity | vm_compute; reflexivity
            | eapply (testbit_in_table is_digit_ascii); [exact is_digit_lt | vm_compute; reflexivity | exact Hp0]
            | apply (Forall_of_pred _ is_digit_ascii); [exact is_digit_lt | vm_compute; reflexivity | exact Hpr]
            | exact Hplen
            | cbn [app hd_out]; eapply (testbit_out_table delim_byte); [exact delim_byte_lt | vm_compute; reflexivity | exact Hd0] ]
          | eapply runs_opt_once; [discriminate|];
            eapply runs_seq_cls; [eapply (testbit_in_table delim_byte); [exact delim_byte_lt | vm_compute; reflexivity | exact Hd0]|];
            rewrite Esuf; eapply runs_path_inner;
            [ apply (Forall_of_pred _ rest_byte); [exact rest_byte_lt | vm_compute; reflexivity | exact Hw]
            | destruct w as [|w0 w1]; [left; reflexivity | right];
              replace (last (w0 :: w1) 0%N) with (last (w0 :: w1) 47%N) by (apply last_default; discriminate);
              revert Hl; generalize (last (w0 :: w1) 47%N); by_table rest_end_byte rest_end_byte_lt
            | apply (Forall_in_not trail_byte _ _ t trail_byte_lt); [vm_compute; reflexivity | exact Ht]
            | hd_drop Hstop | hd_drop Hstop ] ] ] ]
    | cbn [spine nullable]; rewrite ?app_length; cbn [List.length]; lia ]]; intros i c; reflexivity.
Qed.

Lemma url_tail_runs_port host port rest suf :
  forallb host_byte host = true -> (URL_HOST_MIN <= List.length host <= URL_HOST_MAX)%nat ->
  port_ok port = true -> url_rest_ok rest = true -> url_stop suf = true ->
  runs (List.length host + List.length rest + List.length (take_trail suf) + 60) URL_TAIL_RE
       (hostport host port ++ rest) suf cf_id.
Proof.
  intros Hhost Hlen Hport Hrest Hstop. destruct (port_ok_parts port Hport) as [Hpd Hpl].
  destruct port as [|p0 pr]; [cbn [List.length] in Hpl; lia|]. cbn [List.length] in Hpl.
  unfold hostport.
  destruct (url_rest_ok_parts rest Hrest) as [-> | (d0 & w & -> & Hd0 & Hw & Hl)].
  - rewrite app_nil_r. eapply runs_mono; [apply url_tail_runs_port_nopath; try assumption; lia | cbn [List.length]; lia].
  - rewrite <- app_assoc. change ((58%N :: p0 :: pr) ++ d0 :: w) with ((58%N :: p0 :: pr) ++ d0 :: w).
    eapply runs_mono; [apply url_tail_runs_port_rest; try assumption; lia | cbn [List.length]; lia].
Qed.

(* the whole pattern over  scheme :// body  once the tail runs over the body *)
Lemma url_runs_tail scheme body suf n :
  url_scheme_ok scheme -> runs n URL_TAIL_RE body suf cf_id ->
  runs (n + 40) RE_network_URL_RE (url_form scheme body []) suf cf_id.
Proof.
  intros Hsch T.
  unfold URL_TAIL_RE in T. unfold RE_network_URL_RE in T |- *. cbn [seq_r] in T. unfold url_form. rewrite app_nil_r.
  change (L"://") with [58; 47; 47]%N.
  destruct Hsch as [-> | [-> | ->]].
  - change (L"http") with [104; 116; 116; 112]%N. cbn [app].
    eapply runs_ext; [|eapply runs_mono;
      [ eapply (runs_seq _ _ _ _ [104; 116; 116; 112]%N (58 :: 47 :: 47 :: body)%N suf);
        [ eapply runs_alt_r; [blocked_tac | step_lits; eapply (runs_opt_skip (Cls _)); [reflexivity | hd_goal]]
        | step_lits; exact T ]
      | cbn [spine nullable]; lia ]]; intros i c; reflexivity.
  - change (L"https") with [104; 116; 116; 112; 115]%N. cbn [app].
    eapply runs_ext; [|eapply runs_mono;
      [ eapply (runs_seq _ _ _ _ [104; 116; 116; 112; 115]%N (58 :: 47 :: 47 :: body)%N suf);
        [ eapply runs_alt_r; [blocked_tac | step_lits; eapply runs_opt_take; vm_compute; reflexivity]
        | step_lits; exact T ]
      | cbn [spine nullable]; lia ]]; intros i c; reflexivity.
  - change (L"ftp") with [102; 116; 112]%N. cbn [app].
    eapply runs_ext; [|eapply runs_mono;
      [ eapply (runs_seq _ _ _ _ [102; 116; 112]%N (58 :: 47 :: 47 :: body)%N suf);
        [ eapply runs_alt_l; last_lits
        | step_lits; exact T ]
      | cbn [spine nullable]; lia ]]; intros i c; reflexivity.
Qed.

Lemma url_form_body scheme nl rest : url_form scheme nl rest = url_form scheme (nl ++ rest) [].
Proof. unfold url_form. rewrite app_nil_r. reflexivity. Qed.

(* ------------------------------------------------------------------ *)
(* 3.  The Python after finditer                                         *)
(* ------------------------------------------------------------------ *)
Lemma form_bytes scheme nl rest :
  url_scheme_ok scheme -> forallb nl_byte nl = true -> forallb rest_byte rest = true ->
  forallb form_byte (url_form scheme nl rest) = true.
Proof.
  intros Hs Hn Hr. unfold url_form. rewrite !forallb_app.
  rewrite (forallb_table nl_byte form_byte nl nl_byte_lt ltac:(vm_compute; reflexivity) Hn).
  rewrite (forallb_table rest_byte form_byte rest rest_byte_lt ltac:(vm_compute; reflexivity) Hr).
  destruct Hs as [-> | [-> | ->]]; reflexivity.
Qed.

Lemma form_facts scheme nl rest :
  url_scheme_ok scheme -> forallb nl_byte nl = true -> forallb rest_byte rest = true ->
  let form := url_form scheme nl rest in
  is_ascii form = true /\ clean form /\ ~ In PCT form /\ ~ In 39%N form /\ ~ In 41%N form /\ form <> [].
Proof.
  intros Hs Hn Hr form. pose proof (form_bytes scheme nl rest Hs Hn Hr) as Hb. fold form in Hb.
  destruct (scheme_facts scheme Hs) as (Hne & _ & _ & _ & _ & _ & _ & _ & C0 & _).
  split; [|split; [|split; [|split; [|split]]]].
  - unfold is_ascii. apply (forallb_table form_byte _ form form_byte_lt); [vm_compute; reflexivity | exact Hb].
  - unfold clean. split.
    + unfold form, url_form. destruct scheme as [|c0 sch]; [congruence|]. exact C0.
    + apply (forallb_table form_byte _ form form_byte_lt); [vm_compute; reflexivity | exact Hb].
  - apply (notin_class form_byte); [reflexivity | exact Hb].
  - apply (notin_class form_byte); [reflexivity | exact Hb].
  - apply (notin_class form_byte); [reflexivity | exact Hb].
  - unfold form, url_form. destruct scheme; [congruence | discriminate].
Qed.

Lemma nl_facts nl : forallb nl_byte nl = true ->
  forallb (fun c => negb (is_netloc_delim c)) nl = true /\
  ~ In b_at nl /\ ~ In b_lbr nl /\ ~ In b_rbr nl /\ ~ In PCT nl /\
  has_byte b_lbr nl = false /\ has_byte b_rbr nl = false /\ has_byte b_at nl = false.
Proof.
  intros H. split.
  - apply (forallb_table nl_byte _ nl nl_byte_lt); [vm_compute; reflexivity | exact H].
  - repeat split; try (apply (notin_class nl_byte); [reflexivity | exact H]);
      apply (has_byte_class nl_byte); try reflexivity; exact H.
Qed.

Theorem urlsplit_port scheme host port path :
  url_scheme_ok scheme -> forallb host_byte host = true -> forallb is_digit_ascii port = true ->
  url_path_shape path = true ->
  urlsplit (url_form scheme (hostport host port) path) = Ok (mkSplit scheme (hostport host port) path [] []).
Proof.
  intros Hs Hh Hpd Hp. unfold urlsplit.
  pose proof (path_rest_bytes path (url_path_shape_bytes path Hp)) as Hrest.
  pose proof (hostport_bytes host port Hh Hpd) as Hnl. set (nl := hostport host port) in *.
  destruct (form_facts scheme nl path Hs Hnl Hrest) as (Hasc & Hcl & _).
  rewrite Hasc. cbn [negb]. rewrite (clean_url_id _ Hcl).
  destruct (scheme_facts scheme Hs) as (Hne & Ha & Hsc & Hc & Hl & _).
  destruct (nl_facts nl Hnl) as (Hd & _ & _ & _ & _ & Blb & Brb & _).
  destruct (path_facts path Hp) as (_ & Hp0 & Hhash & Hq & _).
  unfold url_form. change (L"://" ++ nl ++ path) with (b_colon :: b_slash :: b_slash :: nl ++ path).
  rewrite (split_scheme_lit scheme _ Hne Ha Hsc Hc), Hl.
  rewrite split_netloc_slashes, (span_until_stop is_netloc_delim nl path Hd Hp0).
  unfold check_netloc. rewrite Blb, Brb. cbn [andb negb orb bind].
  rewrite (partition_absent b_hash path Hhash), (partition_absent b_qmark path Hq). reflexivity.
Qed.

Lemma hostinfo_port host port : forallb host_byte host = true -> forallb is_digit_ascii port = true -> port <> [] ->
  hostinfo (hostport host port) = (host, Some port).
Proof.
  intros Hh Hpd Hne. destruct (host_facts host Hh) as (_ & _ & _ & _ & _ & Hc & _).
  destruct (nl_facts _ (hostport_bytes host port Hh Hpd)) as (_ & Hat & Hlb & _).
  unfold hostinfo. rewrite (rpartition_absent b_at _ Hat), (partition_absent b_lbr _ Hlb).
  unfold hostport. change 58%N with b_colon. rewrite (partition_at b_colon host port Hc).
  destruct port; [congruence | reflexivity].
Qed.

Lemma port_value_ok p : forallb is_digit_ascii p = true -> (List.length p <= 4)%nat -> (65535 <? Ip.dec_value p) = false.
Proof.
  intros Hd Hl. apply Z.ltb_ge.
  destruct p as [|a [|b [|c [|d [|e r]]]]]; cbn [List.length] in Hl; try lia; cbn [forallb] in Hd;
    repeat (apply andb_true_iff in Hd; let H := fresh "D" in destruct Hd as [H Hd]; unfold is_digit_ascii in H;
            apply andb_true_iff in H; destruct H as [?H ?H]);
    repeat match goal with H : (_ <=? _)%N = true |- _ => apply N.leb_le in H end;
    unfold Ip.dec_value; cbn [fold_left]; lia.
Qed.

Theorem is_url_port scheme host port path :
  url_scheme_ok scheme -> forallb host_byte host = true -> host <> [] -> port_ok port = true ->
  url_path_shape path = true ->
  is_url (url_form scheme (hostport host port) path) = Ok true.
Proof.
  intros Hs Hh Hne Hport Hp. destruct (port_ok_parts port Hport) as [Hpd Hpl].
  assert (Hpne : port <> []) by (destruct port; [cbn [List.length] in Hpl; lia | discriminate]).
  unfold is_url. rewrite (urlsplit_port scheme host port path Hs Hh Hpd Hp). cbn [bind].
  unfold sr_port, sr_hostname. cbn [sr_netloc sr_scheme]. rewrite (hostinfo_port host port Hh Hpd Hpne). cbn [fst snd].
  rewrite Hpd. cbn [negb].
  assert (Hbl : (int_max_str_digits <? blen port) = false).
  { apply Z.ltb_ge. unfold int_max_str_digits, blen. lia. }
  rewrite Hbl, (port_value_ok port Hpd ltac:(lia)). cbn [bind].
  destruct (host_facts host Hh) as (_ & _ & _ & _ & _ & _ & Hpct & _).
  rewrite (partition_absent b_pct host Hpct).
  destruct (scheme_facts scheme Hs) as (Hsne & _ & _ & _ & _ & _ & Hm & _). rewrite Hm.
  destruct scheme as [|s0 sch]; [congruence|]. destruct host as [|h0 host']; [congruence|]. reflexivity.
Qed.

Lemma rpartition_at c a b : ~ In c b -> rpartition c (a ++ c :: b) = (a, true, b).
Proof.
  intros H. unfold rpartition. rewrite rev_app_distr. cbn [rev]. rewrite <- app_assoc. cbn [app].
  rewrite (partition_at c (rev b) (rev a)); [rewrite !rev_involutive; reflexivity|].
  intros Hin. apply H, in_rev. exact Hin.
Qed.

(* the children: scheme, host (network.domain, without the port), path (after the port); no node for the port *)
Definition url_port_kids (scheme host port path : bytes) : list node :=
  let o := blen scheme + 3 in
  let nl := blen host + 1 + blen port in
  Node SCHEME_TYPE scheme [] 0 (blen scheme) [] ::
  Node DOMAIN_TYPE host [] o (o + blen host) [] ::
  match path with
  | [] => []
  | _ :: _ => [Node PATH_TYPE path [] (o + nl) (o + nl + blen path) []]
  end.

Lemma parse_authority_domain_port tlds labels tld port :
  labels_ok labels = true -> tld_ok tld = true -> In (upper tld) tlds -> forallb is_digit_ascii port = true ->
  let host := dotted labels ++ tld in
  parse_authority tlds (hostport host port) = Ok [Node DOMAIN_TYPE host [] 0 (blen host) []].
Proof.
  intros Hl Ht Hin Hpd host. destruct (domain_host_bytes labels tld Hl Ht) as [Hh Hne]. fold host in Hh, Hne.
  destruct (host_facts host Hh) as (_ & _ & _ & Hlb & _ & _ & Hpct & _).
  destruct (nl_facts _ (hostport_bytes host port Hh Hpd)) as (_ & Hat & _ & _ & _ & _ & _ & Bat).
  assert (Hpc : ~ In b_colon port) by (apply (notin_class is_digit_ascii); [reflexivity | exact Hpd]).
  unfold parse_authority, auth_split, ends_colon_digits.
  rewrite (rpartition_absent b_at _ Hat). unfold hostport at 1 2. change 58%N with b_colon.
  rewrite (rpartition_at b_colon host port Hpc). rewrite Hpd. cbn [andb fst snd].
  change (partition b_colon []) with (@nil N, false, @nil N).
  cbn [auth_user_nodes UrlSplit.nonempty has_byte existsb].
  assert (Nh : UrlSplit.nonempty host = true) by (destruct host; [congruence | reflexivity]).
  rewrite Nh, Bat. cbn [negb].
  rewrite (unquote_no_percent host Hpct).
  unfold auth_host_nodes.
  assert (Sw : startswith host [b_lbr] = false).
  { destruct host as [|h0 host']; [congruence|]. unfold startswith. cbn [prefixb]. rewrite andb_true_r.
    apply N.eqb_neq. intros E. apply Hlb. left. symmetry. exact E. }
  rewrite Sw. unfold host. rewrite (parse_ip_node_domain labels tld Hl Ht). cbn [bind catch_value_error].
  change (is_value_error value_error) with true. cbv iota.
  rewrite (is_domain_dotted tlds labels tld Hl Ht Hin). reflexivity.
Qed.

Theorem parse_url_port tlds scheme labels tld port path :
  url_scheme_ok scheme -> labels_ok labels = true -> tld_ok tld = true -> In (upper tld) tlds ->
  forallb is_digit_ascii port = true -> url_path_shape path = true ->
  let host := dotted labels ++ tld in
  parse_url tlds (url_form scheme (hostport host port) path) = Ok (url_port_kids scheme host port path).
Proof.
  intros Hs Hl Ht Hin Hpd Hp host. destruct (domain_host_bytes labels tld Hl Ht) as [Hh Hne]. fold host in Hh, Hne.
  unfold parse_url. rewrite (urlsplit_port scheme host port path Hs Hh Hpd Hp). cbn [bind sr_scheme sr_netloc].
  destruct (scheme_facts scheme Hs) as (Hsne & _).
  assert (Ns : UrlSplit.nonempty scheme = true) by (destruct scheme; [congruence | reflexivity]).
  assert (Nh : UrlSplit.nonempty (hostport host port) = true) by (unfold hostport; destruct host; reflexivity).
  unfold url_scheme_nodes. rewrite Ns.
  assert (Hhead : slice (url_form scheme (hostport host port) path) 0 (blen scheme) = scheme) by (unfold url_form; apply slice_prefix).
  rewrite Hhead, beqb_refl. cbn [orb]. rewrite Nh.
  unfold host at 1. rewrite (parse_authority_domain_port tlds labels tld port Hl Ht Hin Hpd). fold host.
  cbn [bind catch_value_error map shift].
  unfold url_tail_nodes. cbn [sr_path sr_query sr_fragment UrlSplit.nonempty].
  assert (Hnlen : blen (hostport host port) = blen host + 1 + blen port).
  { unfold hostport. rewrite blen_app, blen_cons1. lia. }
  unfold url_port_kids. destruct path as [|p0 path'].
  - cbn [UrlSplit.nonempty app]. do 3 f_equal. f_equal; lia.
  - cbn [UrlSplit.nonempty]. rewrite (normalize_path_simple (p0 :: path') ltac:(discriminate) Hp). cbn [app].
    rewrite Hnlen. do 3 f_equal; [f_equal; lia|]. f_equal. f_equal; lia.
Qed.

(* ------------------------------------------------------------------ *)
(* 4.  The round trip                                                    *)
(* ------------------------------------------------------------------ *)
Theorem find_urls_roundtrip_port_quiet tlds pre scheme labels tld port path suf :
  url_scheme_ok scheme -> labels_ok labels = true -> tld_ok tld = true -> In (upper tld) tlds ->
  let host := dotted labels ++ tld in
  (URL_HOST_MIN <= List.length host <= URL_HOST_MAX)%nat ->
  port_ok port = true -> url_path_ok path = true -> url_stop suf = true ->
  let form := url_form scheme (hostport host port) path in
  url_ctx_ok pre form suf = true ->
  (List.length form + List.length (take_trail suf) + 200 <= default_fuel)%nat ->
  let data := pre ++ form ++ suf in
  quiet default_fuel RE_network_URL_RE (List.length pre) (start_pos data) ->
  find_urls tlds data = Hang \/
  exists rest, find_urls tlds data
               = Ok (Node URL_TYPE form [] (blen pre) (blen pre + blen form) (url_port_kids scheme host port path) :: rest) /\
               Forall (fun nd => blen pre + blen form <= n_st nd) rest.
Proof.
  intros Hs Hl Ht Hin host Hlen Hport Hp0 Hstop form Hctx Hfuel data Hq.
  destruct (domain_host_bytes labels tld Hl Ht) as [Hh Hne]. fold host in Hh, Hne.
  pose proof (url_path_ok_shape path Hp0) as Hp.
  destruct (port_ok_parts port Hport) as [Hpd Hpl].
  pose proof (url_path_rest path Hp0) as Hrest. pose proof (url_rest_bytes path Hrest) as Hrb.
  pose proof (hostport_bytes host port Hh Hpd) as Hnl.
  pose proof (is_url_port scheme host port path Hs Hh Hne Hport Hp) as Hisurl. fold form in Hisurl.
  pose proof (parse_url_port tlds scheme labels tld port path Hs Hl Ht Hin Hpd Hp) as Hparse. cbv zeta in Hparse.
  fold host in Hparse. fold form in Hparse.
  set (kids := url_port_kids scheme host port path) in *.
  pose proof (url_runs_tail scheme _ suf _ Hs (url_tail_runs_port host port path suf Hh Hlen Hport Hrest Hstop)) as R.
  rewrite <- url_form_body in R. fold form in R.
  destruct (form_facts scheme (hostport host port) path Hs Hnl Hrb) as (_ & _ & Hnopct & H39 & H41 & Hfne).
  fold form in Hnopct, H39, H41, Hfne.
  assert (Hflen : (List.length host + List.length path <= List.length form)%nat).
  { unfold form, url_form, hostport. rewrite !app_length. cbn [List.length]. rewrite ?app_length. lia. }
  destruct (fi_form RE_network_URL_RE NG_network_URL_RE pre form suf _ _ Hq R ltac:(lia) Hfne)
    as [H | (others & Hfi & Hothers)].
  { left. unfold find_urls. fold data in H. rewrite H. reflexivity. }
  fold data in Hfi.
  set (s := blen pre) in *. set (e := s + blen form) in *.
  change (mk_mtch NG_network_URL_RE s e (cf_id s [])) with ([Some (s, e)] : mtch) in Hfi.
  set (mt := ([Some (s, e)] : mtch)) in *.
  assert (Eg0 : group data mt 0 = form) by (unfold group, mt; cbn [nth]; unfold e, s, data; apply slice_mid).
  assert (Hget : exists prev, getitem data (s - 1) = Ok prev /\
                              ((s =? 0) = true \/ url_pascal_cut data form s prev = false)).
  { unfold url_ctx_ok in Hctx. destruct (rev pre) as [|prev rp] eqn:Er.
    - assert (pre = []) by (rewrite <- (rev_involutive pre), Er; reflexivity). subst pre.
      destruct (getitem_ok data (s - 1)) as [c Hc].
      + unfold s, data. cbn [app]. change (blen []) with 0. rewrite blen_app.
        pose proof (blen_nonneg suf). assert (0 < blen form) by (destruct form; [congruence | rewrite blen_cons1; pose proof (blen_nonneg form); lia]). lia.
      + exists c. split; [exact Hc | left; reflexivity].
    - assert (Epre : pre = rev rp ++ [prev]) by (rewrite <- (rev_involutive pre), Er; reflexivity).
      exists prev. split.
      + unfold s, data. rewrite Epre. apply getitem_last_of_prefix.
      + right. apply negb_true_iff in Hctx. exact Hctx. }
  destruct Hget as (prev & Hgi & Hcut).
  assert (Eone : find_urls_one tlds data mt = Ok (Some (Node URL_TYPE form [] s e kids))).
  { unfold find_urls_one. rewrite Eg0. unfold m_start, m_end, span, mt. cbn [nth fst snd option_map].
    rewrite Hgi. cbn [bind]. rewrite (url_context_cut_none data form s e prev H39 H41 Hcut).
    rewrite Hisurl. cbn [bind negb].
    rewrite (normalize_percent_encoding_simple form Hnopct).
    rewrite Hisurl. cbn [bind negb]. rewrite Hparse. reflexivity. }
  unfold find_urls. rewrite Hfi. cbn [bind]. unfold find_urls_post. cbn [collect]. rewrite Eone. cbn [bind].
  destruct (collect (find_urls_one tlds data) others) as [out|ex|] eqn:ER; cbn [bind].
  - right. exists out. split; [reflexivity|]. apply (find_urls_post_starts tlds data e others out Hothers ER).
  - exfalso. destruct (find_urls_total tlds data) as [HT | (nodes & HT & _)];
      unfold find_urls in HT; rewrite Hfi in HT; cbn [bind] in HT; unfold find_urls_post in HT; cbn [collect] in HT;
      rewrite Eone in HT; cbn [bind] in HT; rewrite ER in HT; discriminate HT.
  - left. reflexivity.
Qed.

(* decidable form of the hypothesis on the prefix: no byte of it can start a match (h, H, f, F) *)
Theorem find_urls_roundtrip_port tlds pre scheme labels tld port path suf :
  url_scheme_ok scheme -> labels_ok labels = true -> tld_ok tld = true -> In (upper tld) tlds ->
  let host := dotted labels ++ tld in
  (URL_HOST_MIN <= List.length host <= URL_HOST_MAX)%nat ->
  port_ok port = true -> url_path_ok path = true -> url_stop suf = true ->
  let form := url_form scheme (hostport host port) path in
  neutral RE_network_URL_RE pre = true -> url_ctx_ok pre form suf = true ->
  (List.length form + List.length (take_trail suf) + 200 <= default_fuel)%nat ->
  let data := pre ++ form ++ suf in
  find_urls tlds data = Hang \/
  exists rest, find_urls tlds data
               = Ok (Node URL_TYPE form [] (blen pre) (blen pre + blen form) (url_port_kids scheme host port path) :: rest) /\
               Forall (fun nd => blen pre + blen form <= n_st nd) rest.
Proof.
  intros Hs Hl Ht Hin host Hlen Hport Hp Hstop form Hn Hctx Hfuel data.
  apply find_urls_roundtrip_port_quiet; try assumption.
  apply quiet_no_first; [vm_compute; reflexivity | spine_goal | exact Hn].
Qed.

(* the round trip with the regenerated table of top level domains and a printable prefix *)
Corollary find_urls_roundtrip_port_table pre scheme labels tld port path suf :
  url_scheme_ok scheme -> labels_ok labels = true -> tld_ok tld = true -> mem (upper tld) TOP_LEVEL_DOMAINS = true ->
  let host := dotted labels ++ tld in
  (URL_HOST_MIN <= List.length host <= URL_HOST_MAX)%nat ->
  port_ok port = true -> url_path_ok path = true -> url_stop suf = true ->
  let form := url_form scheme (hostport host port) path in
  neutral RE_network_URL_RE pre = true -> is_printable pre = true ->
  (List.length form + List.length (take_trail suf) + 200 <= default_fuel)%nat ->
  let data := pre ++ form ++ suf in
  find_urls TOP_LEVEL_DOMAINS data = Hang \/
  exists rest, find_urls TOP_LEVEL_DOMAINS data
               = Ok (Node URL_TYPE form [] (blen pre) (blen pre + blen form) (url_port_kids scheme host port path) :: rest) /\
               Forall (fun nd => blen pre + blen form <= n_st nd) rest.
Proof.
  intros Hs Hl Ht Hin host Hlen Hport Hp Hstop form Hn Hpr Hfuel data.
  apply find_urls_roundtrip_port; try assumption.
  - apply tld_in_table. exact Hin.
  - apply url_ctx_ok_printable. exact Hpr.
Qed.

(* ------------------------------------------------------------------ *)
(* 4b.  A canonical dotted quad as host                                  *)
(* ------------------------------------------------------------------ *)
Definition octet_host_chk (a : Z) : bool :=
  forallb host_byte (dec_octet a) && (1 <=? List.length (dec_octet a))%nat && (List.length (dec_octet a) <=? 3)%nat.

Lemma octet_host a : 0 <= a < 256 ->
  forallb host_byte (dec_octet a) = true /\ (1 <= List.length (dec_octet a) <= 3)%nat.
Proof.
  intros Ha. pose proof (octet_forall octet_host_chk ltac:(vm_compute; reflexivity) a Ha) as H. unfold octet_host_chk in H.
  apply andb_true_iff in H. destruct H as [H H3]. apply andb_true_iff in H. destruct H as [H1 H2].
  apply Nat.leb_le in H2, H3. split; [exact H1 | lia].
Qed.

Lemma quad_host q : canonical_quad q = true ->
  forallb host_byte q = true /\ (7 <= List.length q <= 15)%nat.
Proof.
  intros Hc. apply canonical_quad_iff in Hc. destruct Hc as (a & b & c & d & Ha & Hb & Hc & Hd & ->).
  destruct (octet_host a Ha) as [A1 A2]. destruct (octet_host b Hb) as [B1 B2].
  destruct (octet_host c Hc) as [C1 C2]. destruct (octet_host d Hd) as [D1 D2].
  unfold quad. split.
  - rewrite forallb_app. cbn [forallb]. rewrite forallb_app. cbn [forallb]. rewrite forallb_app. cbn [forallb].
    rewrite A1, B1, C1, D1. reflexivity.
  - rewrite app_length. cbn [List.length]. rewrite app_length. cbn [List.length]. rewrite app_length. cbn [List.length]. lia.
Qed.

Lemma quad_host_len q : canonical_quad q = true -> (URL_HOST_MIN <= List.length q <= URL_HOST_MAX)%nat.
Proof.
  intros Hc. destruct (quad_host q Hc) as [_ H].
  assert (H1 : (URL_HOST_MIN <= 7)%nat) by (apply Nat.leb_le; vm_compute; reflexivity).
  assert (H2 : (15 <= URL_HOST_MAX)%nat) by (apply Nat.leb_le; vm_compute; reflexivity). lia.
Qed.

(* the children: scheme, host typed network.ip, path *)
Definition url_ip_kids (scheme host path : bytes) : list node :=
  let o := blen scheme + 3 in
  Node SCHEME_TYPE scheme [] 0 (blen scheme) [] ::
  Node IP_TYPE host [] o (o + blen host) [] ::
  match path with
  | [] => []
  | _ :: _ => [Node PATH_TYPE path [] (o + blen host) (o + blen host + blen path) []]
  end.

Lemma parse_authority_ip tlds q : canonical_quad q = true ->
  parse_authority tlds q = Ok [Node IP_TYPE q [] 0 (blen q) []].
Proof.
  intros Hq. destruct (quad_host q Hq) as [Hh Hlen].
  assert (Hne : q <> []) by (destruct q; [cbn [List.length] in Hlen; lia | discriminate]).
  destruct (host_facts q Hh) as (_ & _ & Hat & Hlb & _ & Hc & Hpct & _ & _ & _ & Bat).
  unfold parse_authority, auth_split, ends_colon_digits.
  rewrite (rpartition_absent b_at q Hat), (rpartition_absent b_colon q Hc). cbn [andb fst snd].
  change (partition b_colon []) with (@nil N, false, @nil N).
  cbn [auth_user_nodes UrlSplit.nonempty has_byte existsb].
  assert (Nh : UrlSplit.nonempty q = true) by (destruct q; [congruence | reflexivity]).
  rewrite Nh, Bat. cbn [negb].
  rewrite (unquote_no_percent q Hpct).
  unfold auth_host_nodes.
  assert (Sw : startswith q [b_lbr] = false).
  { destruct q as [|h0 q']; [congruence|]. unfold startswith. cbn [prefixb]. rewrite andb_true_r.
    apply N.eqb_neq. intros E. apply Hlb. left. symmetry. exact E. }
  rewrite Sw. rewrite (parse_ip_node_verbatim q ltac:(rewrite is_ip_iff_canonical; exact Hq)).
  cbn [bind catch_value_error shift set_end app]. reflexivity.
Qed.

Theorem parse_url_ip tlds scheme q path :
  url_scheme_ok scheme -> canonical_quad q = true -> url_path_shape path = true ->
  parse_url tlds (url_form scheme q path) = Ok (url_ip_kids scheme q path).
Proof.
  intros Hs Hq Hp. destruct (quad_host q Hq) as [Hh Hlen].
  assert (Hne : q <> []) by (destruct q; [cbn [List.length] in Hlen; lia | discriminate]).
  unfold parse_url. rewrite (urlsplit_simple scheme q path Hs Hh Hp). cbn [bind sr_scheme sr_netloc].
  destruct (scheme_facts scheme Hs) as (Hsne & _).
  assert (Ns : UrlSplit.nonempty scheme = true) by (destruct scheme; [congruence | reflexivity]).
  assert (Nh : UrlSplit.nonempty q = true) by (destruct q; [congruence | reflexivity]).
  unfold url_scheme_nodes. rewrite Ns.
  assert (Hhead : slice (url_form scheme q path) 0 (blen scheme) = scheme) by (unfold url_form; apply slice_prefix).
  rewrite Hhead, beqb_refl. cbn [orb]. rewrite Nh.
  rewrite (parse_authority_ip tlds q Hq).
  cbn [bind catch_value_error map shift].
  unfold url_tail_nodes. cbn [sr_path sr_query sr_fragment UrlSplit.nonempty].
  unfold url_ip_kids. destruct path as [|p0 path'].
  - cbn [UrlSplit.nonempty app]. do 3 f_equal. f_equal; lia.
  - cbn [UrlSplit.nonempty]. rewrite (normalize_path_simple (p0 :: path') ltac:(discriminate) Hp). cbn [app].
    do 3 f_equal; [f_equal; lia|]. f_equal. f_equal; lia.
Qed.

(* no condition on the table of top level domains, and none of the filters of find_ips (final octet 0 or 255,
   context) applies to the host of a URL *)
Theorem find_urls_roundtrip_iphost tlds pre scheme q path suf :
  url_scheme_ok scheme -> canonical_quad q = true ->
  url_path_ok path = true -> url_stop suf = true ->
  let form := url_form scheme q path in
  neutral RE_network_URL_RE pre = true -> url_ctx_ok pre form suf = true ->
  (List.length form + List.length (take_trail suf) + 100 <= default_fuel)%nat ->
  let data := pre ++ form ++ suf in
  find_urls tlds data = Hang \/
  exists rest, find_urls tlds data
               = Ok (Node URL_TYPE form [] (blen pre) (blen pre + blen form) (url_ip_kids scheme q path) :: rest) /\
               Forall (fun nd => blen pre + blen form <= n_st nd) rest.
Proof.
  intros Hs Hq Hp0 Hstop form Hn Hctx Hfuel data.
  destruct (quad_host q Hq) as [Hh Hlen].
  assert (Hne : q <> []) by (destruct q; [cbn [List.length] in Hlen; lia | discriminate]).
  pose proof (url_path_ok_shape path Hp0) as Hp.
  apply (find_urls_roundtrip_gen tlds pre scheme q path (url_ip_kids scheme q path) suf Hs Hh (quad_host_len q Hq)
           (url_path_rest path Hp0) Hstop); try assumption.
  - apply (is_url_simple scheme q path Hs Hh Hne Hp).
  - apply (parse_url_ip tlds scheme q path Hs Hq Hp).
  - apply quiet_no_first; [vm_compute; reflexivity | spine_goal | exact Hn].
Qed.

(* ------------------------------------------------------------------ *)
(* 5.  Examples (each run checked against /venv/bin/python)              *)
(* ------------------------------------------------------------------ *)
(* the port group of the pattern, read off the term: colon, optional digit 0 to 6, at most four digits *)
Definition URL_PORT_RE : re := seq_l (seq_r (seq_r URL_TAIL_RE)).
Example rt8_port_pattern :
  exists C D6 D, URL_PORT_RE = Rep 0 (Some 1%nat) (Seq (Cls C) (Seq (Rep 0 (Some 1%nat) (Cls D6)) (Rep 0 (Some 4%nat) (Cls D)))) /\
    forallb (fun c => Bool.eqb (N.testbit C c) (c =? 58)%N) bytes256 = true /\
    forallb (fun c => Bool.eqb (N.testbit D6 c) ((48 <=? c)%N && (c <=? 54)%N)) bytes256 = true /\
    forallb (fun c => Bool.eqb (N.testbit D c) (is_digit_ascii c)) bytes256 = true.
Proof. do 3 eexists. split; [vm_compute; reflexivity|]. vm_compute. repeat split; reflexivity. Qed.

Example rt8_port_hyps :
  url_scheme_ok (L"http") /\ labels_ok [L"example"] = true /\ tld_ok (L"com") = true /\
  mem (upper (L"com")) TOP_LEVEL_DOMAINS = true /\ port_ok (L"8080") = true /\ url_path_ok (L"/a/b") = true /\
  url_stop (L", x") = true /\ neutral RE_network_URL_RE (L"see ") = true /\ is_printable (L"see ") = true /\
  url_form (L"http") (hostport (dotted [L"example"] ++ L"com") (L"8080")) (L"/a/b") = L"http://example.com:8080/a/b".
Proof. split; [left; reflexivity|]. vm_compute. repeat split; reflexivity. Qed.
Example rt8_port_run :
  find_urls TOP_LEVEL_DOMAINS (L"see " ++ L"http://example.com:8080/a/b" ++ L", x")
  = Ok [Node (L"network.url") (L"http://example.com:8080/a/b") [] 4 31
          [Node (L"network.url.scheme") (L"http") [] 0 4 [];
           Node (L"network.domain") (L"example.com") [] 7 18 [];
           Node (L"network.url.path") (L"/a/b") [] 23 27 []]].
Proof. vm_compute. reflexivity. Qed.
Example rt8_port_thm :
  let data := L"see " ++ url_form (L"http") (hostport (dotted [L"example"] ++ L"com") (L"8080")) (L"/a/b") ++ L", x" in
  find_urls TOP_LEVEL_DOMAINS data = Hang \/
  exists rest, find_urls TOP_LEVEL_DOMAINS data
               = Ok (Node (L"network.url") (L"http://example.com:8080/a/b") [] 4 31
                       [Node (L"network.url.scheme") (L"http") [] 0 4 [];
                        Node (L"network.domain") (L"example.com") [] 7 18 [];
                        Node (L"network.url.path") (L"/a/b") [] 23 27 []] :: rest) /\
               Forall (fun nd => 31 <= n_st nd) rest.
Proof.
  apply (find_urls_roundtrip_port_table (L"see ") (L"http") [L"example"] (L"com") (L"8080") (L"/a/b") (L", x"));
    [ left; reflexivity | vm_compute; reflexivity | vm_compute; reflexivity | vm_compute; reflexivity
    | split; apply Nat.leb_le; vm_compute; reflexivity | vm_compute; reflexivity | vm_compute; reflexivity
    | vm_compute; reflexivity | vm_compute; reflexivity | vm_compute; reflexivity
    | apply (Nat.le_trans _ 2000); [apply Nat.leb_le; vm_compute; reflexivity | unfold default_fuel; lia] ].
Qed.
(* no path, a first digit above 6 (the optional digit of the pattern is skipped), a leading zero, https with a query
   after the port (outside the theorem: the query class) *)
Example rt8_port_run2 :
  find_urls TOP_LEVEL_DOMAINS (L"go " ++ url_form (L"ftp") (hostport (dotted [L"files"; L"example"] ++ L"org") (L"21")) [] ++ L" now")
  = Ok [Node (L"network.url") (L"ftp://files.example.org:21") [] 3 29
          [Node (L"network.url.scheme") (L"ftp") [] 0 3 []; Node (L"network.domain") (L"files.example.org") [] 6 23 []]] /\
  find_urls TOP_LEVEL_DOMAINS (L"http://example.com:9999/x")
  = Ok [Node (L"network.url") (L"http://example.com:9999/x") [] 0 25
          [Node (L"network.url.scheme") (L"http") [] 0 4 []; Node (L"network.domain") (L"example.com") [] 7 18 [];
           Node (L"network.url.path") (L"/x") [] 23 25 []]] /\
  find_urls TOP_LEVEL_DOMAINS (L"http://example.com:080/x")
  = Ok [Node (L"network.url") (L"http://example.com:080/x") [] 0 24
          [Node (L"network.url.scheme") (L"http") [] 0 4 []; Node (L"network.domain") (L"example.com") [] 7 18 [];
           Node (L"network.url.path") (L"/x") [] 22 24 []]] /\
  find_urls TOP_LEVEL_DOMAINS (L"https://example.com:443?q=1")
  = Ok [Node (L"network.url") (L"https://example.com:443?q=1") [] 0 27
          [Node (L"network.url.scheme") (L"https") [] 0 5 []; Node (L"network.domain") (L"example.com") [] 8 19 [];
           Node (L"network.url.query") (L"q=1") [] 24 27 []]].
Proof. vm_compute. repeat split; reflexivity. Qed.
(* FINDING (documented heuristic of the pattern): a five digit port whose first digit is 7, 8 or 9 is cut after four
   digits and the URL ENDS there, with the wrong port and without its path *)
Example rt8_port_truncated_7 :
  port_ok (L"70000") = false /\
  find_urls TOP_LEVEL_DOMAINS (L"http://example.com:70000/x")
  = Ok [Node (L"network.url") (L"http://example.com:7000") [] 0 23
          [Node (L"network.url.scheme") (L"http") [] 0 4 []; Node (L"network.domain") (L"example.com") [] 7 18 []]].
Proof. vm_compute. split; reflexivity. Qed.
(* side condition (at most four digits): five digits starting with 0 to 6 are consumed whole by the pattern, but
   .port raises ValueError above 65535 and is_url refuses the text: 65535 is reported, 65536 gives nothing at all *)
Example rt8_side_port_range :
  port_ok (L"65535") = false /\
  find_urls TOP_LEVEL_DOMAINS (L"http://example.com:65535/x")
  = Ok [Node (L"network.url") (L"http://example.com:65535/x") [] 0 26
          [Node (L"network.url.scheme") (L"http") [] 0 4 []; Node (L"network.domain") (L"example.com") [] 7 18 [];
           Node (L"network.url.path") (L"/x") [] 24 26 []]] /\
  find_urls TOP_LEVEL_DOMAINS (L"http://example.com:65536/x") = Ok [].
Proof. vm_compute. repeat split; reflexivity. Qed.
(* side condition (at least one digit) is NOT necessary: an empty port is accepted by the pattern and by urlsplit *)
Example rt8_side_port_empty :
  port_ok [] = false /\
  find_urls TOP_LEVEL_DOMAINS (L"http://example.com:/x")
  = Ok [Node (L"network.url") (L"http://example.com:/x") [] 0 21
          [Node (L"network.url.scheme") (L"http") [] 0 4 []; Node (L"network.domain") (L"example.com") [] 7 18 [];
           Node (L"network.url.path") (L"/x") [] 19 21 []]].
Proof. vm_compute. split; reflexivity. Qed.
(* side condition on the suffix (url_stop): a full stop after the port is outside every class that could continue, so
   here (unlike after a host without port, RoundTrip6.rt6_side_url_full_stop) it is harmless *)
Example rt8_side_port_full_stop :
  url_stop (L".") = false /\
  find_urls TOP_LEVEL_DOMAINS (L"http://example.com:80.")
  = Ok [Node (L"network.url") (L"http://example.com:80") [] 0 21
          [Node (L"network.url.scheme") (L"http") [] 0 4 []; Node (L"network.domain") (L"example.com") [] 7 18 []]].
Proof. vm_compute. split; reflexivity. Qed.

Print Assumptions find_urls_roundtrip_port_quiet.
Print Assumptions find_urls_roundtrip_port.
Print Assumptions find_urls_roundtrip_port_table.

(* ---- a dotted quad as host ---- *)
Example rt8_ip_hyps :
  url_scheme_ok (L"http") /\ canonical_quad (L"10.1.2.3") = true /\ url_path_ok (L"/a") = true /\
  url_stop (L" y") = true /\ neutral RE_network_URL_RE (L"x ") = true /\ is_printable (L"x ") = true.
Proof. split; [left; reflexivity|]. vm_compute. repeat split; reflexivity. Qed.
Example rt8_ip_run :
  find_urls TOP_LEVEL_DOMAINS (L"x " ++ L"http://10.1.2.3/a" ++ L" y")
  = Ok [Node (L"network.url") (L"http://10.1.2.3/a") [] 2 19
          [Node (L"network.url.scheme") (L"http") [] 0 4 [];
           Node (L"network.ip") (L"10.1.2.3") [] 7 15 [];
           Node (L"network.url.path") (L"/a") [] 15 17 []]].
Proof. vm_compute. reflexivity. Qed.
Example rt8_ip_thm :
  let data := L"x " ++ url_form (L"http") (L"10.1.2.3") (L"/a") ++ L" y" in
  find_urls TOP_LEVEL_DOMAINS data = Hang \/
  exists rest, find_urls TOP_LEVEL_DOMAINS data
               = Ok (Node (L"network.url") (L"http://10.1.2.3/a") [] 2 19
                       [Node (L"network.url.scheme") (L"http") [] 0 4 [];
                        Node (L"network.ip") (L"10.1.2.3") [] 7 15 [];
                        Node (L"network.url.path") (L"/a") [] 15 17 []] :: rest) /\
               Forall (fun nd => 19 <= n_st nd) rest.
Proof.
  apply (find_urls_roundtrip_iphost TOP_LEVEL_DOMAINS (L"x ") (L"http") (L"10.1.2.3") (L"/a") (L" y"));
    [ left; reflexivity | vm_compute; reflexivity | vm_compute; reflexivity | vm_compute; reflexivity
    | vm_compute; reflexivity | apply url_ctx_ok_printable; vm_compute; reflexivity
    | apply (Nat.le_trans _ 2000); [apply Nat.leb_le; vm_compute; reflexivity | unfold default_fuel; lia] ].
Qed.
(* no path; a final octet 0 or 255 (find_ips drops such addresses, the host of a URL keeps them); with a port (outside
   the theorem) *)
Example rt8_ip_run2 :
  find_urls TOP_LEVEL_DOMAINS (L"http://10.1.2.3")
  = Ok [Node (L"network.url") (L"http://10.1.2.3") [] 0 15
          [Node (L"network.url.scheme") (L"http") [] 0 4 []; Node (L"network.ip") (L"10.1.2.3") [] 7 15 []]] /\
  find_urls TOP_LEVEL_DOMAINS (L"ftp://192.168.1.255/x")
  = Ok [Node (L"network.url") (L"ftp://192.168.1.255/x") [] 0 21
          [Node (L"network.url.scheme") (L"ftp") [] 0 3 []; Node (L"network.ip") (L"192.168.1.255") [] 6 19 [];
           Node (L"network.url.path") (L"/x") [] 19 21 []]] /\
  find_urls TOP_LEVEL_DOMAINS (L"x http://10.1.2.3:8080/a y")
  = Ok [Node (L"network.url") (L"http://10.1.2.3:8080/a") [] 2 24
          [Node (L"network.url.scheme") (L"http") [] 0 4 []; Node (L"network.ip") (L"10.1.2.3") [] 7 15 [];
           Node (L"network.url.path") (L"/a") [] 20 22 []]].
Proof. vm_compute. repeat split; reflexivity. Qed.
(* side condition (canonical): a leading zero makes the octet octal for inet_aton; the host child then carries the
   canonical value, the label ip_obfuscation, and the span of the text *)
Example rt8_side_ip_not_canonical :
  canonical_quad (L"010.1.2.3") = false /\
  find_urls TOP_LEVEL_DOMAINS (L"http://010.1.2.3/a")
  = Ok [Node (L"network.url") (L"http://010.1.2.3/a") [] 0 18
          [Node (L"network.url.scheme") (L"http") [] 0 4 []; Node (L"network.ip") (L"8.1.2.3") (L"ip_obfuscation") 7 16 [];
           Node (L"network.url.path") (L"/a") [] 16 18 []]].
Proof. vm_compute. split; reflexivity. Qed.
(* side condition on the suffix (url_stop refuses a full stop): after a quad without path the full stop belongs to the
   host class, the host is no longer an address and the URL node has NO host child *)
Example rt8_side_ip_full_stop :
  url_stop (L".") = false /\
  find_urls TOP_LEVEL_DOMAINS (L"http://1.2.3.4.")
  = Ok [Node (L"network.url") (L"http://1.2.3.4.") [] 0 15 [Node (L"network.url.scheme") (L"http") [] 0 4 []]].
Proof. vm_compute. split; reflexivity. Qed.

Print Assumptions find_urls_roundtrip_iphost.
