(* C02 (engine part): the composition law for layered obfuscation, for an ARBITRARY registry.
   A payload wrapped in a stack of encodings yields one nested node per layer, outermost first, whose
   values are the successive plaintexts; the outermost covers exactly the encoded span; flattening
   substitutes the decoded text (string-typed results re-quoted).
   The decoder-specific part (each layer's decoder reports the blob with its exact span and decodes it)
   is the hypothesis [dominant] below; it is discharged per decoder elsewhere. *)
From Coq Require Import Sorting.Sorted Sorting.Permutation.
From MD Require Import Lib.Base Model.Node Model.Engine Model.Flatten
  Proofs.BaseProofs Proofs.SortProofs Proofs.EngineRefine Proofs.EngineDepth Proofs.EngineTotal
  Proofs.JsonProofs.
From MD Require Proofs.FlattenProofs.

(* ====================================================================== *)
(* Definitions                                                            *)
(* ====================================================================== *)

(* x occurs in l, and y does not occur before that occurrence of x *)
Definition before {A} (x y : A) (l : list A) : Prop :=
  exists l1 l2, l = l1 ++ x :: l2 /\ ~ In y l1.

(* At the searched value [v] (of a node of type [ty]) the registry's dominant hit is [h]:
   it is reported, kept by the `if hit.value` filter, has no decoder-supplied children, is in bounds and
   non-empty, decodes (its value differs from the covered text up to ASCII case), does not restate the
   searched node, and every other kept hit reported on [v] lies inside h's span and, when it has the same
   span, comes after h in registry order. *)
Definition dominant (search : bytes -> list node) (ty : label) (v : bytes) (h : node) : Prop :=
  In h (search v) /\ nonempty_val h = true /\ n_kids h = [] /\
  0 <= n_st h /\ n_st h < n_en h /\ n_en h <= blen v /\
  lower (n_val h) <> lower (slice v (n_st h) (n_en h)) /\
  ~ (n_st h = 0 /\ n_val h = v /\ n_ty h = ty) /\
  (forall g, In g (search v) -> nonempty_val g = true -> g <> h ->
     n_st h <= n_st g /\ n_en g <= n_en h /\
     (n_st g = n_st h /\ n_en g = n_en h -> before h g (search v))).

(* a stack of layers: [h :: hs] is a chain for the value [v] (type [ty]) with [S d] levels of depth left when
   h is dominant at v and hs is a chain for h's decoded value with d levels left.  Nothing is claimed
   below the last layer (the innermost payload may itself contain indicators). *)
Inductive chain (search : bytes -> list node) : nat -> label -> bytes -> list node -> Prop :=
| chain_done d ty v : chain search d ty v []
| chain_layer d ty v h hs :
    dominant search ty v h -> chain search d (n_ty h) (n_val h) hs -> chain search (S d) ty v (h :: hs).

(* c carries the header of h: type, value, obfuscation, start, end *)
Definition hdr_eq (c h : node) : Prop :=
  n_ty c = n_ty h /\ n_val c = n_val h /\ n_obf c = n_obf h /\ n_st c = n_st h /\ n_en c = n_en h.

(* one nested node per layer, outermost first: t has exactly one child, which carries the header of the
   first layer, and so on *)
Fixpoint nested (t : node) (hs : list node) : Prop :=
  match hs with
  | [] => True
  | h :: hs' => exists c, n_kids t = [c] /\ hdr_eq c h /\ nested c hs'
  end.

(* the node reached by following the first child k times *)
Fixpoint innermost (t : node) (k : nat) {struct k} : node :=
  match k with
  | O => t
  | S k' => match n_kids t with c :: _ => innermost c k' | [] => t end
  end.

(* the nodes met on that path (t itself excluded) *)
Fixpoint spine (t : node) (k : nat) {struct k} : list node :=
  match k with
  | O => []
  | S k' => match n_kids t with c :: _ => c :: spine c k' | [] => [] end
  end.

(* v with the span of the first layer replaced by the (re-quoted) flattening of that layer, recursively;
   [inner] is the flattened value of the node below the last layer *)
Fixpoint flat_of (v : bytes) (hs : list node) (inner : bytes) : bytes :=
  match hs with
  | [] => inner
  | h :: hs' =>
      slice v 0 (n_st h) ++ quote_if_string (n_ty h) (flat_of (n_val h) hs' inner) ++ slice_from v (n_en h)
  end.

(* at every level the child's flattened value differs from the text it covers (otherwise Node.flatten
   leaves the covered text alone), and the child does not start below 0 *)
Fixpoint substituted (v : bytes) (hs : list node) (inner : bytes) : Prop :=
  match hs with
  | [] => True
  | h :: hs' =>
      0 <= n_st h /\ flat_of (n_val h) hs' inner <> slice v (n_st h) (n_en h) /\
      substituted (n_val h) hs' inner
  end.

(* the neutral text with the payload substituted: flat_of when nothing is found below the last layer *)
Fixpoint subst_chain (v : bytes) (hs : list node) : bytes :=
  match hs with
  | [] => v
  | h :: hs' =>
      slice v 0 (n_st h) ++ quote_if_string (n_ty h) (subst_chain (n_val h) hs') ++ slice_from v (n_en h)
  end.

(* ====================================================================== *)
(* 1. the dominant hit is the first sorted result                         *)
(* ====================================================================== *)

Lemma node_eq_dec (a b : node) : a = b \/ a <> b.
Proof.
  destruct (node_eqb a b) eqn:E; [left; apply node_eqb_eq | right; apply node_eqb_neq]; exact E.
Qed.

Lemma before_filter {A} (f : A -> bool) x y l : f x = true -> before x y l -> before x y (filter f l).
Proof.
  intros Hx (l1 & l2 & -> & Hn). exists (filter f l1), (filter f l2). split.
  - rewrite filter_app. cbn [filter]. rewrite Hx. reflexivity.
  - intros Hin. apply filter_In in Hin. apply Hn. apply Hin.
Qed.

Lemma before_tail {A} (x y z : A) l : z <> x -> before x y (z :: l) -> before x y l.
Proof.
  intros Hz (l1 & l2 & E & Hn). destruct l1 as [|z0 l1]; cbn [app] in E.
  - injection E as E _. contradiction.
  - injection E as _ E. exists l1, l2. split; [exact E|]. intros Hin. apply Hn. right. exact Hin.
Qed.

Lemma before_head_neq {A} (x y : A) l : y <> x -> ~ before x y (y :: l).
Proof.
  intros Hy (l1 & l2 & E & Hn). destruct l1 as [|z0 l1]; cbn [app] in E.
  - injection E as E _. contradiction.
  - injection E as E _. apply Hn. left. symmetry. exact E.
Qed.

Lemma sort_hits_cons y l : sort_hits (y :: l) = insert_hit y (sort_hits l).
Proof. reflexivity. Qed.

(* a minimum of the sort key that precedes (in the input) every other element with the same key is the
   head of the (stable) sorted list *)
Lemma sort_hits_head h : forall l,
  In h l -> (forall g, In g l -> hit_le h g = true) ->
  (forall g, In g l -> g <> h -> hit_le g h = true -> before h g l) ->
  exists rest, sort_hits l = h :: rest.
Proof.
  induction l as [|y l IH]; intros Hin Hmin Hbef; [destruct Hin|].
  rewrite sort_hits_cons.
  destruct (node_eq_dec y h) as [->|Hne].
  - destruct (sort_hits l) as [|z r] eqn:E; [exists []; reflexivity|].
    assert (Hz : In z l).
    { apply (Permutation_in _ (sort_hits_perm l)). rewrite E. left. reflexivity. }
    cbn [insert_hit]. rewrite (Hmin z (or_intror Hz)). eexists; reflexivity.
  - assert (Hin' : In h l) by (destruct Hin as [E|Hin]; [contradiction | exact Hin]).
    destruct (IH Hin') as [rest Hrest].
    + intros g Hg. apply Hmin. right. exact Hg.
    + intros g Hg Hgh Hle. apply (before_tail h g y l Hne). apply Hbef; [right; exact Hg | exact Hgh | exact Hle].
    + rewrite Hrest. cbn [insert_hit].
      destruct (hit_le y h) eqn:Ey.
      * exfalso. apply (before_head_neq h y l Hne). apply Hbef; [left; reflexivity | exact Hne | exact Ey].
      * eexists; reflexivity.
Qed.

Section Chain.
  Variable search : bytes -> list node.

  Lemma dominant_kept ty v h g : dominant search ty v h ->
    In g (filter nonempty_val (search v)) -> n_st h <= n_st g /\ n_en g <= n_en h.
  Proof.
    intros (_ & _ & _ & _ & _ & _ & _ & _ & Hall) Hg. apply filter_In in Hg. destruct Hg as [Hg Hne].
    destruct (node_eq_dec g h) as [->|Hgh]; [lia|].
    destruct (Hall g Hg Hne Hgh) as (H1 & H2 & _). lia.
  Qed.

  (* Theorem 1 *)
  Theorem dominant_first n h : dominant search (n_ty n) (n_val n) h ->
    exists rest, results search n = h :: rest /\ Forall (fun g => n_en g <= n_en h) rest.
  Proof.
    intros Hdom. pose proof Hdom as (Hin & Hne & _ & _ & _ & _ & _ & _ & Hall).
    unfold results.
    assert (Hinf : In h (filter nonempty_val (search (n_val n)))) by (apply filter_In; split; assumption).
    destruct (sort_hits_head h (filter nonempty_val (search (n_val n))) Hinf) as [rest Hrest].
    - intros g Hg. destruct (dominant_kept _ _ _ _ Hdom Hg) as [H1 H2]. apply hit_le_spec. lia.
    - intros g Hg Hgh Hle. pose proof (dominant_kept _ _ _ _ Hdom Hg) as [H1 H2].
      apply filter_In in Hg. destruct Hg as [Hg Hgne].
      apply before_filter; [exact Hne|].
      destruct (Hall g Hg Hgne Hgh) as (_ & _ & Hb). apply Hb.
      apply hit_le_spec in Hle. lia.
    - exists rest. split; [exact Hrest|].
      apply Forall_forall. intros g Hg.
      assert (Hg' : In g (filter nonempty_val (search (n_val n)))).
      { apply (Permutation_in _ (sort_hits_perm _)). rewrite Hrest. right. exact Hg. }
      destruct (dominant_kept _ _ _ _ Hdom Hg') as [_ H2]. exact H2.
  Qed.

  (* ====================================================================== *)
  (* 2. one pass over a value with a dominant hit                           *)
  (* ====================================================================== *)

  Lemma shift_0 h : shift h (- 0) = h.
  Proof. destruct h as [t v o s e k]. cbn [shift Z.opp]. rewrite !Z.add_0_r. reflexivity. Qed.

  (* the iteration on the dominant hit, from the initial state: the hit is decoded and rescanned *)
  Lemma step_dominant rec n h : dominant search (n_ty n) (n_val n) h ->
    step rec (init_state n) h =
    do h2 <- rec h;
    Ok {| cur := add_kid (open_frame n) h2; stack := []; decode_end := n_en h; offset := 0 |}.
  Proof.
    intros (_ & _ & Hk & H0 & Hse & Hen & Hlow & Hrest & _).
    unfold step, init_state. cbn [decode_end cur stack offset].
    destruct (n_en h <=? 0) eqn:E0; [apply Z.leb_le in E0; lia|].
    cbn [pop_until open_frame f_node]. rewrite Z.add_0_l, Z.gtb_ltb.
    destruct (blen (n_val n) <? n_en h) eqn:E1; [apply Z.ltb_lt in E1; lia|].
    cbn [bind]. rewrite shift_0.
    assert (Hr : restates n h = false).
    { unfold restates. destruct (n_st h =? 0) eqn:A; [|reflexivity].
      destruct (beqb (n_val h) (n_val n)) eqn:B; [|reflexivity].
      destruct (beqb (n_ty h) (n_ty n)) eqn:C; [|reflexivity].
      exfalso. apply Hrest. apply Z.eqb_eq in A. apply beqb_eq in B. apply beqb_eq in C. auto. }
    assert (Hd : is_decoding (n_val n) h = true).
    { unfold is_decoding, original. apply orb_true_iff. left. apply negb_true_iff. apply beqb_neq. exact Hlow. }
    change (f_node (open_frame n)) with n. rewrite Hr, Hd. rewrite Z.add_0_r. reflexivity.
  Qed.

  (* hits ending inside the decoded span are dropped *)
  Lemma fold_skipped rec : forall l s, Forall (fun g => n_en g <= decode_end s) l -> foldM (step rec) l s = Ok s.
  Proof.
    induction l as [|g l IH]; intros s Hall; [reflexivity|].
    inversion Hall as [|? ? Hg Hl]; subst. cbn [foldM]. unfold step at 1.
    apply Z.leb_le in Hg. rewrite Hg. cbn [bind]. apply IH. exact Hl.
  Qed.

  (* equational form (also covers a raising / hanging recursive scan) *)
  Theorem scan_dominant_res d n h : n_kids n = [] -> dominant search (n_ty n) (n_val n) h ->
    scan_node search (S d) n = do h2 <- scan_node search d h; Ok (set_kids n [h2]).
  Proof.
    intros Hk Hdom. cbn [scan_node]. rewrite Hk.
    destruct (dominant_first n h Hdom) as (rest & Hres & Hrest). rewrite Hres.
    cbn [foldM]. rewrite (step_dominant _ n h Hdom).
    destruct (scan_node search d h) as [h2| |]; cbn [bind]; try reflexivity.
    rewrite fold_skipped by exact Hrest. reflexivity.
  Qed.

  (* Theorem 2: the scanned node gets exactly one child, the decoded hit scanned with one level less *)
  Theorem scan_dominant d n h h2 : n_kids n = [] -> dominant search (n_ty n) (n_val n) h ->
    scan_node search d h = Ok h2 -> scan_node search (S d) n = Ok (set_kids n [h2]).
  Proof. intros Hk Hdom H2. rewrite (scan_dominant_res d n h Hk Hdom), H2. reflexivity. Qed.

  (* ... and that child keeps the header of the hit *)
  Corollary scan_dominant_hdr d n h h2 : n_kids n = [] -> dominant search (n_ty n) (n_val n) h ->
    scan_node search d h = Ok h2 ->
    scan_node search (S d) n = Ok (set_kids n [h2]) /\ (exists ks, h2 = set_kids h ks) /\ hdr_eq h2 h.
  Proof.
    intros Hk Hdom H2. split; [apply (scan_dominant d n h h2); assumption|].
    destruct (scan_node_hdr search d h h2 H2) as [ks ->].
    split; [exists ks; reflexivity|]. destruct h; repeat split.
  Qed.

  (* the inner scan succeeds whenever the outer one does *)
  Lemma scan_dominant_inv d n h t : n_kids n = [] -> dominant search (n_ty n) (n_val n) h ->
    scan_node search (S d) n = Ok t ->
    exists h2, scan_node search d h = Ok h2 /\ t = set_kids n [h2].
  Proof.
    intros Hk Hdom Ht. rewrite (scan_dominant_res d n h Hk Hdom) in Ht.
    destruct (scan_node search d h) as [h2| |]; cbn [bind] in Ht; try discriminate.
    injection Ht as <-. exists h2. split; reflexivity.
  Qed.

  (* ====================================================================== *)
  (* 3. the whole chain                                                     *)
  (* ====================================================================== *)

  Lemma n_kids_set_kids' n ks : n_kids (set_kids n ks) = ks.
  Proof. destruct n; reflexivity. Qed.

  Lemma hdr_eq_set_kids h ks : hdr_eq (set_kids h ks) h.
  Proof. destruct h; repeat split. Qed.

  (* Theorem 3 *)
  Theorem scan_chain : forall hs d n t,
    chain search d (n_ty n) (n_val n) hs -> n_kids n = [] -> scan_node search d n = Ok t -> nested t hs.
  Proof.
    induction hs as [|h hs IH]; intros d n t Hch Hk Ht; [exact I|].
    inversion Hch as [|d' ty v h' hs' Hdom Hch']; subst.
    destruct (scan_dominant_inv d' n h t Hk Hdom Ht) as (h2 & H2 & ->).
    destruct (scan_node_hdr search d' h h2 H2) as [ks Hks].
    cbn [nested]. exists h2. split; [apply n_kids_set_kids'|].
    split; [rewrite Hks; apply hdr_eq_set_kids|].
    apply (IH d' h h2); [exact Hch' | | exact H2].
    destruct Hdom as (_ & _ & Hkh & _). exact Hkh.
  Qed.

  (* the scanned node itself keeps its header *)
  Lemma scan_chain_root d n t : scan_node search d n = Ok t -> hdr_eq t n.
  Proof. intros Ht. destruct (scan_node_hdr search d n t Ht) as [ks ->]. apply hdr_eq_set_kids. Qed.

  (* with a registry whose kept hits are in bounds the scan does succeed *)
  Corollary scan_chain_total : wf_search search -> forall hs d n,
    chain search d (n_ty n) (n_val n) hs -> n_kids n = [] ->
    exists t, scan_node search d n = Ok t /\ hdr_eq t n /\ nested t hs.
  Proof.
    intros Hwf hs d n Hch Hk. destruct (scan_node_total search Hwf d n) as [t Ht].
    exists t. split; [exact Ht|]. split; [eapply scan_chain_root; exact Ht | eapply scan_chain; eassumption].
  Qed.

  (* Multidecoder.scan *)
  Corollary scan_chain_scan depth data hs t : 0 < depth ->
    chain search (Z.to_nat depth) [] data hs -> scan search depth data = Ok t ->
    n_val t = data /\ nested t hs.
  Proof.
    intros Hd Hch Ht. unfold scan in Ht.
    destruct (depth <=? 0) eqn:E; [apply Z.leb_le in E; lia|].
    split.
    - destruct (scan_chain_root _ _ _ Ht) as (_ & Hv & _). exact Hv.
    - apply (scan_chain hs (Z.to_nat depth) (root_node data) t); [exact Hch | reflexivity | exact Ht].
  Qed.
End Chain.

(* ---------- reading [nested] ---------- *)

(* the nodes on the first-child path carry, in order, the headers of the layers: in particular their
   values are the successive plaintexts *)
Lemma nested_spine : forall hs t, nested t hs -> Forall2 hdr_eq (spine t (List.length hs)) hs.
Proof.
  induction hs as [|h hs IH]; intros t Hn.
  - cbn. apply Forall2_nil.
  - destruct Hn as (c & Hk & Hh & Hn). change (List.length (h :: hs)) with (S (List.length hs)).
    cbn [spine]. rewrite Hk. constructor; [exact Hh | apply IH; exact Hn].
Qed.

Lemma hdr_eq_values l l' : Forall2 hdr_eq l l' -> map n_val l = map n_val l'.
Proof.
  induction 1 as [|c h l l' Hh _ IH]; [reflexivity|].
  cbn [map]. destruct Hh as (_ & -> & _). rewrite IH. reflexivity.
Qed.

Corollary nested_values hs t : nested t hs -> map n_val (spine t (List.length hs)) = map n_val hs.
Proof. intros Hn. apply hdr_eq_values, nested_spine, Hn. Qed.

(* the outermost node covers exactly the encoded span *)
Corollary nested_outer t h hs : nested t (h :: hs) ->
  exists c, n_kids t = [c] /\ n_st c = n_st h /\ n_en c = n_en h /\ n_val c = n_val h /\ n_ty c = n_ty h.
Proof. intros (c & Hk & (Hty & Hv & _ & Hs & He) & _). exists c. auto. Qed.

Lemma nested_innermost : forall hs t h, nested t (hs ++ [h]) -> hdr_eq (innermost t (List.length (hs ++ [h]))) h.
Proof.
  induction hs as [|g hs IH]; intros t h Hn.
  - destruct Hn as (c & Hk & Hh & _). cbn [app List.length innermost]. rewrite Hk. exact Hh.
  - destruct Hn as (c & Hk & _ & Hn). cbn [app List.length innermost]. rewrite Hk. apply IH. exact Hn.
Qed.

(* ====================================================================== *)
(* 4. flattening                                                          *)
(* ====================================================================== *)

Lemma lower_neq a b : lower a <> lower b -> a <> b.
Proof. intros H E. apply H. rewrite E. reflexivity. Qed.

(* one level: a single child whose flattened value differs from the text it covers is substituted *)
Lemma flatten_single_child t v o s e c :
  0 <= n_st c -> flatten c <> slice v (n_st c) (n_en c) ->
  flatten (Node t v o s e [c]) =
  slice v 0 (n_st c) ++ quote_if_string (n_ty c) (flatten c) ++ slice_from v (n_en c).
Proof.
  intros Hs Hne.
  rewrite FlattenProofs.flatten_unfold, FlattenProofs.flatten_loop_cons, FlattenProofs.flatten_loop_nil.
  destruct (n_st c <? 0) eqn:E; [apply Z.ltb_lt in E; lia|].
  apply beqb_neq in Hne. rewrite Hne. reflexivity.
Qed.

(* ... and one whose flattened value equals the covered text is not (so the hypothesis is needed) *)
Lemma flatten_single_child_same t v o s e c :
  flatten c = slice v (n_st c) (n_en c) -> flatten (Node t v o s e [c]) = v.
Proof.
  intros He.
  rewrite FlattenProofs.flatten_unfold, FlattenProofs.flatten_loop_cons, FlattenProofs.flatten_loop_nil.
  destruct (n_st c <? 0); [apply FlattenProofs.slice_from_0|].
  rewrite He, beqb_refl. apply FlattenProofs.slice_from_0.
Qed.

(* Theorem 4: the chain *)
Theorem flatten_chain : forall hs t,
  nested t hs ->
  substituted (n_val t) hs (flatten (innermost t (List.length hs))) ->
  flatten t = flat_of (n_val t) hs (flatten (innermost t (List.length hs))).
Proof.
  induction hs as [|h hs IH]; intros t Hn Hsub; [reflexivity|].
  destruct Hn as (c & Hk & (Hty & Hv & _ & Hst & Hen) & Hn).
  destruct t as [ty v o s e ks]. cbn [n_kids n_val] in *. subst ks.
  cbn [List.length innermost n_kids flat_of substituted] in *.
  destruct Hsub as (H0 & Hne & Hsub).
  rewrite <- Hv in Hsub, Hne. specialize (IH c Hn Hsub).
  rewrite flatten_single_child.
  - rewrite Hst, Hen, Hty, IH, Hv. reflexivity.
  - lia.
  - rewrite IH, Hst, Hen. exact Hne.
Qed.

(* when the node below the last layer is a leaf (nothing found in the payload, or depth exhausted),
   flattening gives the neutral text with the payload substituted *)
Lemma flat_of_subst_chain : forall hs v h,
  flat_of v (hs ++ [h]) (n_val h) = subst_chain v (hs ++ [h]).
Proof.
  induction hs as [|g hs IH]; intros v h; cbn [app flat_of subst_chain]; [reflexivity|].
  rewrite IH. reflexivity.
Qed.

Lemma flatten_leaf_node c : n_kids c = [] -> flatten c = n_val c.
Proof. destruct c as [t v o s e ks]. cbn [n_kids n_val]. intros ->. apply FlattenProofs.flatten_leaf. Qed.

Corollary flatten_chain_leaf hs h t :
  nested t (hs ++ [h]) -> n_kids (innermost t (List.length (hs ++ [h]))) = [] ->
  substituted (n_val t) (hs ++ [h]) (n_val h) ->
  flatten t = subst_chain (n_val t) (hs ++ [h]).
Proof.
  intros Hn Hleaf Hsub.
  assert (Hin : flatten (innermost t (List.length (hs ++ [h]))) = n_val h).
  { rewrite (flatten_leaf_node _ Hleaf). destruct (nested_innermost hs t h Hn) as (_ & Hv & _). exact Hv. }
  rewrite (flatten_chain (hs ++ [h]) t Hn); rewrite Hin; [apply flat_of_subst_chain | exact Hsub].
Qed.

(* scan then flatten, depth = number of layers: the last decoded value is not searched *)
Lemma scan_depth_leaf search : forall hs d n t,
  chain search d (n_ty n) (n_val n) hs -> n_kids n = [] -> d = List.length hs ->
  scan_node search d n = Ok t -> n_kids (innermost t (List.length hs)) = [].
Proof.
  induction hs as [|h hs IH]; intros d n t Hch Hk Hd Ht.
  - subst d. cbn in Ht. injection Ht as <-. exact Hk.
  - change (List.length (h :: hs)) with (S (List.length hs)) in *. subst d.
    inversion Hch as [|d' ty v h' hs' Hdom Hch']; subst.
    destruct (scan_dominant_inv search _ n h t Hk Hdom Ht) as (h2 & H2 & ->).
    cbn [innermost]. rewrite n_kids_set_kids'.
    apply (IH (List.length hs) h h2); [exact Hch' | | reflexivity | exact H2].
    destruct Hdom as (_ & _ & Hkh & _). exact Hkh.
Qed.

Theorem scan_flatten_chain search hs h n t :
  chain search (List.length (hs ++ [h])) (n_ty n) (n_val n) (hs ++ [h]) -> n_kids n = [] ->
  scan_node search (List.length (hs ++ [h])) n = Ok t ->
  substituted (n_val n) (hs ++ [h]) (n_val h) ->
  flatten t = subst_chain (n_val n) (hs ++ [h]).
Proof.
  intros Hch Hk Ht Hsub.
  destruct (scan_chain_root search _ _ _ Ht) as (_ & Hv & _).
  rewrite <- Hv in *.
  apply flatten_chain_leaf.
  - eapply scan_chain; [|exact Hk | exact Ht]. rewrite <- Hv. exact Hch.
  - eapply scan_depth_leaf; [| exact Hk | reflexivity | exact Ht]. rewrite <- Hv. exact Hch.
  - exact Hsub.
Qed.

(* for the last layer the `differs` hypothesis follows from [dominant] *)
Lemma dominant_substituted_last search ty v h :
  dominant search ty v h -> substituted v [h] (n_val h).
Proof.
  intros (_ & _ & _ & H0 & _ & _ & Hlow & _). cbn [substituted flat_of].
  split; [exact H0|]. split; [apply lower_neq; exact Hlow | exact I].
Qed.

(* ====================================================================== *)
(* 5. Non-vacuity: a three-layer registry.  The expected trees and flattened values below were printed by
      /venv/bin/python (Multidecoder(decoders=[reg]).scan(v0, d), .flatten()) for the same registry. *)
(* ====================================================================== *)
Definition ex3_v0 : bytes := L"run AAAA now".
Definition ex3_v1 : bytes := L"x=BBBB;".
Definition ex3_v2 : bytes := L"hi CC".
Definition ex3_v3 : bytes := L"payload".

Definition ex3_h1 : node := Node (L"enc.one") ex3_v1 (L"o1") 4 8 [].
Definition ex3_h2 : node := Node (L"powershell.string") ex3_v2 (L"o2") 2 6 [].
Definition ex3_h3 : node := Node (L"enc.three") ex3_v3 (L"o3") 3 5 [].

(* besides the dominant hits: an empty-valued hit (filtered out), an undecoded hit inside the span that is
   reported BEFORE the dominant one, a competing decoding of the same span reported AFTER it, a hit ending
   with the span; below the last layer the payload contains further indicators *)
Definition ex3_e : node := Node (L"e") [] [] 0 2 [].
Definition ex3_junk : node := Node (L"junk") (L"AA") [] 5 7 [].
Definition ex3_alt : node := Node (L"alt") (L"zzz") [] 4 8 [].
Definition ex3_tail : node := Node (L"tail") (L"A") [] 7 8 [].
Definition ex3_in : node := Node (L"in") (L"BB") [] 3 5 [].

Definition ex3_search (v : bytes) : list node :=
  if beqb v ex3_v0 then [ex3_e; ex3_junk; ex3_h1; ex3_alt; ex3_tail]
  else if beqb v ex3_v1 then [ex3_in; ex3_h2]
  else if beqb v ex3_v2 then [ex3_h3]
  else if beqb v ex3_v3 then [Node (L"kw") (L"load") [] 3 7 []; Node (L"more") (L"LOADED") (L"o4") 3 7 []]
  else [].

Ltac ex_num := vm_compute; first [reflexivity | discriminate].
Ltac ex_conj := repeat match goal with |- _ /\ _ => split end.
Ltac ex_other :=
  split; [ex_num | split; [ex_num | intros [Hs He]; try (vm_compute in Hs; discriminate Hs);
                                    try (vm_compute in He; discriminate He)]].

Lemma ex3_dom1 : dominant ex3_search [] ex3_v0 ex3_h1.
Proof.
  unfold dominant.
  assert (E : ex3_search ex3_v0 = [ex3_e; ex3_junk; ex3_h1; ex3_alt; ex3_tail]) by (vm_compute; reflexivity).
  rewrite E. ex_conj; try ex_num.
  - cbn [In]. tauto.
  - intros (H & _). vm_compute in H. discriminate H.
  - intros g Hg Hne Hgh. cbn [In] in Hg. destruct Hg as [<-|[<-|[<-|[<-|[<-|[]]]]]].
    + discriminate Hne.
    + ex_other.
    + congruence.
    + ex_other. exists [ex3_e; ex3_junk], [ex3_alt; ex3_tail]. split; [reflexivity|].
      cbn [In]. intros [H|[H|[]]]; vm_compute in H; discriminate H.
    + ex_other.
Qed.

Lemma ex3_dom2 : dominant ex3_search (n_ty ex3_h1) (n_val ex3_h1) ex3_h2.
Proof.
  unfold dominant.
  assert (E : ex3_search (n_val ex3_h1) = [ex3_in; ex3_h2]) by (vm_compute; reflexivity).
  rewrite E. ex_conj; try ex_num.
  - cbn [In]. tauto.
  - intros (H & _). vm_compute in H. discriminate H.
  - intros g Hg Hne Hgh. cbn [In] in Hg. destruct Hg as [<-|[<-|[]]].
    + ex_other.
    + congruence.
Qed.

Lemma ex3_dom3 : dominant ex3_search (n_ty ex3_h2) (n_val ex3_h2) ex3_h3.
Proof.
  unfold dominant.
  assert (E : ex3_search (n_val ex3_h2) = [ex3_h3]) by (vm_compute; reflexivity).
  rewrite E. ex_conj; try ex_num.
  - cbn [In]. tauto.
  - intros (H & _). vm_compute in H. discriminate H.
  - intros g Hg Hne Hgh. cbn [In] in Hg. destruct Hg as [<-|[]]. congruence.
Qed.

Definition ex3_layers : list node := [ex3_h1; ex3_h2; ex3_h3].

(* the chain holds with any depth >= 3 *)
Lemma ex3_chain d : chain ex3_search (S (S (S d))) [] ex3_v0 ex3_layers.
Proof.
  apply chain_layer; [exact ex3_dom1|].
  apply chain_layer; [exact ex3_dom2|].
  apply chain_layer; [exact ex3_dom3|].
  apply chain_done.
Qed.

Definition ex3_tree (below : list node) : node :=
  Node [] ex3_v0 [] 0 12
    [Node (L"enc.one") ex3_v1 (L"o1") 4 8
      [Node (L"powershell.string") ex3_v2 (L"o2") 2 6
        [Node (L"enc.three") ex3_v3 (L"o3") 3 5 below]]].

Definition ex3_below : list node :=
  [Node (L"kw") (L"load") [] 3 7 [Node (L"more") (L"LOADED") (L"o4") 0 4 []]].

Example ex3_scan_0 : scan ex3_search 0 ex3_v0 = Ok (Node [] ex3_v0 [] 0 12 []).
Proof. vm_compute. reflexivity. Qed.
Example ex3_scan_1 : scan ex3_search 1 ex3_v0 = Ok (Node [] ex3_v0 [] 0 12 [ex3_h1]).
Proof. vm_compute. reflexivity. Qed.
Example ex3_scan_2 : scan ex3_search 2 ex3_v0 =
  Ok (Node [] ex3_v0 [] 0 12 [Node (L"enc.one") ex3_v1 (L"o1") 4 8 [ex3_h2]]).
Proof. vm_compute. reflexivity. Qed.
Example ex3_scan_3 : scan ex3_search 3 ex3_v0 = Ok (ex3_tree []).
Proof. vm_compute. reflexivity. Qed.
Example ex3_scan_4 : scan ex3_search 4 ex3_v0 = Ok (ex3_tree ex3_below).
Proof. vm_compute. reflexivity. Qed.
Example ex3_scan_5 : scan ex3_search 5 ex3_v0 = Ok (ex3_tree ex3_below).
Proof. vm_compute. reflexivity. Qed.

(* what the theorems give, against what the computation gives *)
Example ex3_nested_3 : nested (ex3_tree []) ex3_layers.
Proof.
  destruct (scan_chain_scan ex3_search 3 ex3_v0 ex3_layers (ex3_tree []) ltac:(lia) (ex3_chain 0) ex3_scan_3)
    as [_ H]. exact H.
Qed.

Example ex3_nested_5 : nested (ex3_tree ex3_below) ex3_layers.
Proof.
  destruct (scan_chain_scan ex3_search 5 ex3_v0 ex3_layers (ex3_tree ex3_below) ltac:(lia) (ex3_chain 2) ex3_scan_5)
    as [_ H]. exact H.
Qed.

Example ex3_spine_values : map n_val (spine (ex3_tree ex3_below) 3) = [ex3_v1; ex3_v2; ex3_v3].
Proof. exact (nested_values ex3_layers _ ex3_nested_5). Qed.

Example ex3_scan_dominant :
  scan_node ex3_search 3 (root_node ex3_v0) =
  do h2 <- scan_node ex3_search 2 ex3_h1; Ok (set_kids (root_node ex3_v0) [h2]).
Proof. exact (scan_dominant_res ex3_search 2 (root_node ex3_v0) ex3_h1 eq_refl ex3_dom1). Qed.

Lemma ex3_substituted : substituted ex3_v0 ex3_layers ex3_v3.
Proof. unfold ex3_layers. cbn [substituted flat_of]. repeat split; ex_num. Qed.

(* depth = number of layers: the text with the payload substituted, the string-typed layer re-quoted *)
Example ex3_flatten_3 : flatten (ex3_tree []) = subst_chain ex3_v0 ex3_layers.
Proof.
  apply (scan_flatten_chain ex3_search [ex3_h1; ex3_h2] ex3_h3 (root_node ex3_v0) (ex3_tree [])).
  - exact (ex3_chain 0).
  - reflexivity.
  - exact ex3_scan_3.
  - exact ex3_substituted.
Qed.

Example ex3_subst_chain_value :
  subst_chain ex3_v0 ex3_layers = L"run x=" ++ [34%N] ++ L"hi payload" ++ [34%N] ++ L"; now".
Proof. vm_compute. reflexivity. Qed.

Example ex3_flatten_3_value :
  flatten (ex3_tree []) = L"run x=" ++ [34%N] ++ L"hi payload" ++ [34%N] ++ L"; now".
Proof. vm_compute. reflexivity. Qed.

(* deeper scan: whatever the node below the last layer flattens to is substituted *)
Example ex3_flatten_5 :
  flatten (ex3_tree ex3_below) = flat_of ex3_v0 ex3_layers (L"payLOADED").
Proof.
  rewrite (flatten_chain ex3_layers (ex3_tree ex3_below) ex3_nested_5).
  - vm_compute. reflexivity.
  - vm_compute. repeat split; discriminate.
Qed.

Example ex3_flatten_5_value :
  flatten (ex3_tree ex3_below) = L"run x=" ++ [34%N] ++ L"hi payLOADED" ++ [34%N] ++ L"; now".
Proof. vm_compute. reflexivity. Qed.

(* the registry order matters for equal spans: with the competing decoding reported first, it wins *)
Definition ex3_search_swapped (v : bytes) : list node :=
  if beqb v ex3_v0 then [ex3_alt; ex3_h1] else [].
Example ex3_swapped : scan ex3_search_swapped 1 ex3_v0 = Ok (Node [] ex3_v0 [] 0 12 [ex3_alt]).
Proof. vm_compute. reflexivity. Qed.

(* a child that flattens to the text it covers is not substituted (so it is not re-quoted either) *)
Example ex3_same_not_substituted :
  flatten (Node [] (L"say hi now") [] 0 10 [Node (L"string") (L"hi") [] 4 6 []]) = L"say hi now".
Proof. vm_compute. reflexivity. Qed.

(* ====================================================================== *)
Print Assumptions sort_hits_head.
Print Assumptions dominant_first.
Print Assumptions step_dominant.
Print Assumptions scan_dominant_res.
Print Assumptions scan_dominant.
Print Assumptions scan_dominant_hdr.
Print Assumptions scan_dominant_inv.
Print Assumptions scan_chain.
Print Assumptions scan_chain_total.
Print Assumptions scan_chain_scan.
Print Assumptions nested_spine.
Print Assumptions nested_values.
Print Assumptions nested_outer.
Print Assumptions flatten_single_child.
Print Assumptions flatten_single_child_same.
Print Assumptions flatten_chain.
Print Assumptions flatten_chain_leaf.
Print Assumptions scan_flatten_chain.
Print Assumptions dominant_substituted_last.
Print Assumptions ex3_chain.
Print Assumptions ex3_nested_5.
Print Assumptions ex3_flatten_3.
Print Assumptions ex3_flatten_5.
