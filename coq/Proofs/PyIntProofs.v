(* Proofs about Model/Codec/PyInt.v : int(bytes, base), str(int), bytes(ints). *)
From MD Require Import Lib.Base Model.Codec.PyInt.

(* ---------- a small tactic for goals made of N / Z comparisons ---------- *)
Ltac bdestruct :=
  repeat match goal with
  | |- context [(?a =? ?b)%N] => destruct (N.eqb_spec a b)
  | |- context [(?a <=? ?b)%N] => destruct (N.leb_spec a b)
  | |- context [(?a <? ?b)%N] => destruct (N.ltb_spec a b)
  | |- context [(?a =? ?b)%Z] => destruct (Z.eqb_spec a b)
  | |- context [(?a <=? ?b)%Z] => destruct (Z.leb_spec a b)
  | |- context [(?a <? ?b)%Z] => destruct (Z.ltb_spec a b)
  end.
Ltac bool_lia := bdestruct; cbn [andb orb negb]; try reflexivity; try discriminate; try lia.

Lemma digit_range c : is_digit_ascii c = true <-> (48 <= c <= 57)%N.
Proof. unfold is_digit_ascii. rewrite andb_true_iff, N.leb_le, N.leb_le. tauto. Qed.

Lemma digit_not_space c : is_digit_ascii c = true -> is_space_ascii c = false.
Proof. rewrite digit_range. intros H. unfold is_space_ascii. bool_lia. Qed.

Lemma digit_value_digit c :
  is_digit_ascii c = true -> digit_value c = Some (Z.of_N c - 48) /\ 0 <= Z.of_N c - 48 < 10.
Proof.
  intros H. unfold digit_value. rewrite H. split; [reflexivity|]. apply digit_range in H. lia.
Qed.

(* ---------- stripping ---------- *)
Lemma lstrip_space_head c r : is_space_ascii c = false -> lstrip_space (c :: r) = c :: r.
Proof. intros H. cbn [lstrip_space]. rewrite H. reflexivity. Qed.

Lemma rstrip_space_nospace b :
  Forall (fun c => is_space_ascii c = false) b -> rstrip_space b = b.
Proof.
  induction 1 as [|c r Hc Hr IH]; [reflexivity|].
  cbn [rstrip_space]. rewrite IH. destruct r; [rewrite Hc|]; reflexivity.
Qed.

(* ---------- the digit loop on a plain digit string ---------- *)
Definition dstep (a : Z) (c : N) : Z := a * 10 + (Z.of_N c - 48).

Lemma dec_value_fold d : dec_value d = fold_left dstep d 0.
Proof. reflexivity. Qed.

Lemma parse_digits_cons base pu acc cnt c s :
  parse_digits base pu acc cnt (c :: s) =
  if (c =? 95)%N then (if pu then None else parse_digits base true acc cnt s)
  else match digit_value c with
       | Some d => if d <? base then parse_digits base false (acc * base + d) (cnt + 1) s else None
       | None => None
       end.
Proof. reflexivity. Qed.

Lemma parse_digits_plain d : forall c pu acc cnt,
  all_digits (c :: d) ->
  parse_digits 10 pu acc cnt (c :: d) = Some (fold_left dstep (c :: d) acc, cnt + blen (c :: d)).
Proof.
  induction d as [|c' d IH]; intros c pu acc cnt H; inversion H as [|? ? Hc Hd]; subst;
    rewrite parse_digits_cons; destruct (digit_value_digit c Hc) as [-> Hr];
    apply digit_range in Hc; replace (c =? 95)%N with false by bool_lia;
    replace (Z.of_N c - 48 <? 10) with true by bool_lia.
  - cbn [parse_digits fold_left]. unfold dstep, blen. cbn [List.length]. f_equal.
  - rewrite (IH c' false _ _ Hd). cbn [fold_left]. unfold dstep at 3. f_equal. f_equal.
    unfold blen. cbn [List.length]. lia.
Qed.

Lemma fold_dstep_acc d : forall acc, fold_left dstep d acc = acc * 10 ^ blen d + fold_left dstep d 0.
Proof.
  induction d as [|c d IH]; intros acc.
  - cbn. lia.
  - cbn [fold_left]. rewrite (IH (dstep acc c)), (IH (dstep 0 c)). unfold dstep.
    replace (blen (c :: d)) with (1 + blen d) by (unfold blen; cbn [List.length]; lia).
    rewrite Z.pow_add_r by (unfold blen; lia). lia.
Qed.

(* int_parse on a non-empty string of digits *)
Lemma int_parse_digits d :
  all_digits d -> d <> [] -> int_parse 10 d = Some (dec_value d, blen d).
Proof.
  intros H Hne. destruct d as [|c d]; [congruence|]. clear Hne.
  assert (Hns : Forall (fun c => is_space_ascii c = false) (c :: d)).
  { eapply Forall_impl; [|exact H]. intros a Ha. apply digit_not_space, Ha. }
  inversion H as [|? ? Hc Hd]; subst.
  unfold int_parse. rewrite lstrip_space_head by (apply digit_not_space, Hc).
  rewrite rstrip_space_nospace by exact Hns.
  unfold strip_sign. apply digit_range in Hc.
  replace (c =? 45)%N with false by bool_lia. replace (c =? 43)%N with false by bool_lia.
  unfold strip_prefix16. replace (10 =? 16) with false by reflexivity.
  rewrite parse_digits_plain by exact H. reflexivity.
Qed.

Lemma int_of_bytes_digits d :
  all_digits d -> d <> [] ->
  int_of_bytes 10 d = if blen d <=? MAX_STR_DIGITS then Ok (dec_value d) else Raise value_error.
Proof.
  intros H Hne. unfold int_of_bytes. rewrite int_parse_digits by assumption.
  replace (10 =? 10) with true by reflexivity. cbn [andb].
  destruct (Z.ltb_spec MAX_STR_DIGITS (blen d)); destruct (Z.leb_spec (blen d) MAX_STR_DIGITS); try lia; reflexivity.
Qed.

(* "-" followed by digits *)
Lemma int_parse_neg_digits d :
  all_digits d -> d <> [] -> int_parse 10 (45%N :: d) = Some (- dec_value d, blen d).
Proof.
  intros H Hne. destruct d as [|c d]; [congruence|]. clear Hne.
  assert (Hns : Forall (fun c => is_space_ascii c = false) (45%N :: c :: d)).
  { constructor; [reflexivity|]. eapply Forall_impl; [|exact H]. intros a Ha. apply digit_not_space, Ha. }
  unfold int_parse. rewrite lstrip_space_head by reflexivity.
  rewrite rstrip_space_nospace by exact Hns.
  unfold strip_sign. replace (45 =? 45)%N with true by reflexivity.
  unfold strip_prefix16. replace (10 =? 16) with false by reflexivity.
  rewrite parse_digits_plain by exact H. reflexivity.
Qed.

(* ---------- numeric value of a digit string ---------- *)
Lemma dec_value_app a b : dec_value (a ++ b) = dec_value a * 10 ^ blen b + dec_value b.
Proof. unfold dec_value. rewrite fold_left_app. fold dstep. apply fold_dstep_acc. Qed.

Lemma dec_value_range d : all_digits d -> 0 <= dec_value d < 10 ^ blen d.
Proof.
  induction d as [|c d IH] using rev_ind; intros H.
  - cbn. lia.
  - apply Forall_app in H as [Hd Hc]. inversion Hc as [|? ? Hc' _]; subst. apply digit_range in Hc'.
    rewrite dec_value_app. specialize (IH Hd).
    replace (blen (d ++ [c])) with (Z.succ (blen d)) by (unfold blen; rewrite app_length; cbn [List.length]; lia).
    rewrite Z.pow_succ_r by (unfold blen; lia).
    replace (blen [c]) with 1 by reflexivity. rewrite Z.pow_1_r.
    replace (dec_value [c]) with (Z.of_N c - 48) by (unfold dec_value; cbn [fold_left]; lia). lia.
Qed.

Lemma dec_value_zeros (k : nat) : dec_value (repeat 48%N k) = 0.
Proof.
  unfold dec_value. fold dstep. induction k as [|k IH]; [reflexivity|].
  cbn [repeat fold_left]. replace (dstep 0 48%N) with 0 by reflexivity. exact IH.
Qed.

(* leading zeros do not change the value *)
Lemma dec_value_leading_zeros (k : nat) d : dec_value (repeat 48%N k ++ d) = dec_value d.
Proof. rewrite dec_value_app, dec_value_zeros. lia. Qed.

(* ---------- str(n) ---------- *)
Lemma dec_digits_fuel_spec f : forall n acc,
  0 <= n < 10 ^ Z.of_nat f -> (0 < f)%nat ->
  exists ds, dec_digits_fuel f n acc = ds ++ acc /\ all_digits ds /\ ds <> [] /\
             dec_value ds = n /\ 10 ^ (blen ds - 1) <= Z.max 1 n.
Proof.
  induction f as [|f IH]; intros n acc Hn Hf; [lia|].
  cbn [dec_digits_fuel].
  assert (Hm : 0 <= n mod 10 < 10) by (apply Z.mod_pos_bound; lia).
  assert (Hd : is_digit_ascii (Z.to_N (48 + n mod 10)) = true) by (apply digit_range; lia).
  destruct (Z.ltb_spec n 10) as [Hlt|Hge].
  - exists [Z.to_N (48 + n mod 10)]. split; [reflexivity|]. split; [constructor; [exact Hd|constructor]|].
    split; [discriminate|]. split.
    + unfold dec_value. cbn [fold_left]. rewrite Z.mod_small by lia. lia.
    + unfold blen. cbn [List.length]. change (Z.of_nat 1 - 1) with 0. rewrite Z.pow_0_r. lia.
  - assert (Hq : 1 <= n / 10) by (apply Z.div_le_lower_bound; lia).
    assert (Hf' : (0 < f)%nat).
    { destruct f; [|lia]. change (Z.of_nat 1) with 1 in Hn. rewrite Z.pow_1_r in Hn. lia. }
    assert (Hq2 : 0 <= n / 10 < 10 ^ Z.of_nat f).
    { split; [lia|]. apply Z.div_lt_upper_bound; [lia|].
      rewrite Nat2Z.inj_succ, Z.pow_succ_r in Hn by lia. lia. }
    destruct (IH (n / 10) (Z.to_N (48 + n mod 10) :: acc) Hq2 Hf') as (ds & E & Hall & Hne & Hv & Hlen).
    exists (ds ++ [Z.to_N (48 + n mod 10)]). split; [rewrite E, <- app_assoc; reflexivity|].
    split; [apply Forall_app; split; [exact Hall|constructor; [exact Hd|constructor]]|].
    split; [destruct ds; discriminate|]. split.
    + unfold dec_value in *. rewrite fold_left_app. cbn [fold_left]. rewrite Hv.
      rewrite Z2N.id by lia. pose proof (Z.div_mod n 10). lia.
    + replace (blen (ds ++ [Z.to_N (48 + n mod 10)]) - 1) with (Z.succ (blen ds - 1))
        by (unfold blen; rewrite app_length; cbn [List.length]; lia).
      assert (0 <= blen ds - 1) by (destruct ds; [congruence|unfold blen; cbn [List.length]; lia]).
      rewrite Z.pow_succ_r by lia. pose proof (Z.div_mod n 10). lia.
Qed.

Lemma dec_digits_spec n :
  0 <= n ->
  exists ds, dec_digits n = ds /\ all_digits ds /\ ds <> [] /\ dec_value ds = n /\
             10 ^ (blen ds - 1) <= Z.max 1 n.
Proof.
  intros Hn. unfold dec_digits.
  destruct (dec_digits_fuel_spec (S (Z.to_nat (Z.log2 n))) n []) as (ds & E & H); [|lia|].
  - split; [lia|]. rewrite Nat2Z.inj_succ, Z2Nat.id by apply Z.log2_nonneg.
    destruct (Z.eq_dec n 0) as [->|Hnz]; [cbn; lia|].
    assert (Hl : n < 2 ^ Z.succ (Z.log2 n)) by (apply Z.log2_spec; lia).
    eapply Z.lt_le_trans; [exact Hl|].
    apply Z.pow_le_mono_l. lia.
  - exists ds. rewrite app_nil_r in E. tauto.
Qed.

(* the parser inverts str(); cnt is the number of digits *)
Theorem int_parse_str_of_Z n :
  exists cnt, int_parse 10 (str_of_Z n) = Some (n, cnt) /\ 10 ^ (cnt - 1) <= Z.max 1 (Z.abs n).
Proof.
  unfold str_of_Z. destruct (Z.ltb_spec n 0) as [Hneg|Hpos].
  - destruct (dec_digits_spec (- n)) as (ds & -> & Hall & Hne & Hv & Hlen); [lia|].
    exists (blen ds). rewrite int_parse_neg_digits by assumption. rewrite Hv.
    split; [f_equal; f_equal; lia|]. rewrite Z.abs_neq by lia. exact Hlen.
  - destruct (dec_digits_spec n) as (ds & -> & Hall & Hne & Hv & Hlen); [lia|].
    exists (blen ds). rewrite int_parse_digits by assumption. rewrite Hv.
    split; [reflexivity|]. rewrite Z.abs_eq by lia. exact Hlen.
Qed.

Theorem str_of_Z_inj n m : str_of_Z n = str_of_Z m -> n = m.
Proof.
  intros E. destruct (int_parse_str_of_Z n) as (c1 & H1 & _).
  destruct (int_parse_str_of_Z m) as (c2 & H2 & _). rewrite E in H1. congruence.
Qed.

(* int(str(n).encode()) == n  - whenever str(n) exists at all, i.e. below the 4300 digit limit *)
Theorem int_of_bytes_str_of_Z n :
  Z.abs n < 10 ^ MAX_STR_DIGITS -> int_of_bytes 10 (str_of_Z n) = Ok n.
Proof.
  intros Hn. destruct (int_parse_str_of_Z n) as (cnt & E & Hc).
  unfold int_of_bytes. rewrite E. replace (10 =? 10) with true by reflexivity. cbn [andb].
  destruct (Z.ltb_spec MAX_STR_DIGITS cnt) as [Hbig|]; [|reflexivity]. exfalso.
  assert (H1 : 10 ^ MAX_STR_DIGITS <= 10 ^ (cnt - 1)) by (apply Z.pow_le_mono_r; lia).
  assert (H2 : 1 < 10 ^ MAX_STR_DIGITS).
  { apply Z.pow_gt_1; [lia|]. unfold MAX_STR_DIGITS. lia. }
  lia.
Qed.

(* str(n) never has more digits than the limit allows, under the same hypothesis, and the sign/digit shape *)
Theorem str_of_Z_nonneg_digits n : 0 <= n -> all_digits (str_of_Z n) /\ str_of_Z n <> [] /\ dec_value (str_of_Z n) = n.
Proof.
  intros Hn. unfold str_of_Z. destruct (Z.ltb_spec n 0); [lia|].
  destruct (dec_digits_spec n Hn) as (ds & -> & Hall & Hne & Hv & _). tauto.
Qed.

(* int() can only succeed or raise ValueError *)
Theorem int_of_bytes_outcomes base b :
  (exists v, int_of_bytes base b = Ok v) \/ int_of_bytes base b = Raise value_error.
Proof.
  unfold int_of_bytes. destruct (int_parse base b) as [[v cnt]|]; [|right; reflexivity].
  destruct ((base =? 10) && (MAX_STR_DIGITS <? cnt)); [right; reflexivity|left; eexists; reflexivity].
Qed.

(* base 16 has no digit limit *)
Theorem int_of_bytes_16_parse b :
  int_of_bytes 16 b = match int_parse 16 b with Some (v, _) => Ok v | None => Raise value_error end.
Proof. unfold int_of_bytes. destruct (int_parse 16 b) as [[v cnt]|]; reflexivity. Qed.

(* ---------- bytes(ints) ---------- *)
Theorem bytes_of_ints_ok l :
  Forall (fun z => 0 <= z <= 255) l -> bytes_of_ints l = Ok (map Z.to_N l).
Proof.
  unfold bytes_of_ints. induction 1 as [|z l Hz Hl IH]; [reflexivity|].
  cbn [mapM map]. unfold byte_of_int at 1.
  replace ((z <? 0) || (255 <? z)) with false by bool_lia.
  cbn [bind]. rewrite IH. reflexivity.
Qed.

Theorem bytes_of_ints_ok_iff l :
  (exists b, bytes_of_ints l = Ok b) <-> Forall (fun z => 0 <= z <= 255) l.
Proof.
  split; [|intros H; eexists; apply bytes_of_ints_ok, H].
  unfold bytes_of_ints. induction l as [|z l IH]; intros [b Hb]; [constructor|].
  cbn [mapM] in Hb. unfold byte_of_int at 1 in Hb.
  destruct (Z.ltb_spec z 0); [discriminate|]. destruct (Z.ltb_spec 255 z); [discriminate|].
  cbn [orb bind] in Hb. destruct (mapM byte_of_int l) as [b'| |] eqn:E; try discriminate.
  constructor; [lia|]. apply IH. eexists; reflexivity.
Qed.

Lemma byte_of_int_cases z :
  (0 <= z <= 255 /\ byte_of_int z = Ok (Z.to_N z)) \/ byte_of_int z = Raise value_error.
Proof.
  unfold byte_of_int. destruct (Z.ltb_spec z 0); [right; reflexivity|].
  destruct (Z.ltb_spec 255 z); [right; reflexivity|]. left. split; [lia|reflexivity].
Qed.

Theorem bytes_of_ints_outcomes l :
  (exists b, bytes_of_ints l = Ok b /\ wf_bytes b) \/ bytes_of_ints l = Raise value_error.
Proof.
  unfold bytes_of_ints. induction l as [|z l IH]; [left; exists []; split; [reflexivity|constructor]|].
  cbn [mapM]. destruct (byte_of_int_cases z) as [[Hz ->]| ->]; [|right; reflexivity].
  cbn [bind]. destruct IH as [(b & -> & Hb)| ->]; [left|right; reflexivity].
  exists (Z.to_N z :: b). split; [reflexivity|]. constructor; [lia|exact Hb].
Qed.

(* ---------- test vectors: every right-hand side was printed by /venv/bin/python (3.12.1) ---------- *)
Example int_ex01 : int_of_bytes 10 (L" 12 ") = Ok 12. Proof. vm_compute. reflexivity. Qed.
Example int_ex02 : int_of_bytes 10 [9;10;11;12;13;32;49;50;13;10]%N = Ok 12. Proof. vm_compute. reflexivity. Qed.
Example int_ex03 : int_of_bytes 10 [28;49;50]%N = Raise value_error. Proof. vm_compute. reflexivity. Qed.
Example int_ex04 : int_of_bytes 10 (L"-12") = Ok (-12). Proof. vm_compute. reflexivity. Qed.
Example int_ex05 : int_of_bytes 10 (L"+-12") = Raise value_error. Proof. vm_compute. reflexivity. Qed.
Example int_ex06 : int_of_bytes 10 (L"+ 12") = Raise value_error. Proof. vm_compute. reflexivity. Qed.
Example int_ex07 : int_of_bytes 10 (L"1_2_3") = Ok 123. Proof. vm_compute. reflexivity. Qed.
Example int_ex08 : int_of_bytes 10 (L"1__2") = Raise value_error. Proof. vm_compute. reflexivity. Qed.
Example int_ex09 : int_of_bytes 10 (L"_12") = Raise value_error. Proof. vm_compute. reflexivity. Qed.
Example int_ex10 : int_of_bytes 10 (L"12_") = Raise value_error. Proof. vm_compute. reflexivity. Qed.
Example int_ex11 : int_of_bytes 10 [49;50;0]%N = Raise value_error. Proof. vm_compute. reflexivity. Qed.
Example int_ex12 : int_of_bytes 10 (L"0x12") = Raise value_error. Proof. vm_compute. reflexivity. Qed.
Example int_ex13 : int_of_bytes 10 (L"0012") = Ok 12. Proof. vm_compute. reflexivity. Qed.
Example int_ex14 : int_of_bytes 10 [] = Raise value_error. Proof. vm_compute. reflexivity. Qed.
Example int_ex15 : int_of_bytes 10 (L"  ") = Raise value_error. Proof. vm_compute. reflexivity. Qed.
Example int_ex16 : int_of_bytes 16 (L"0x_1f") = Ok 31. Proof. vm_compute. reflexivity. Qed.
Example int_ex17 : int_of_bytes 16 (L"0x__1f") = Raise value_error. Proof. vm_compute. reflexivity. Qed.
Example int_ex18 : int_of_bytes 16 (L" -0X_A ") = Ok (-10). Proof. vm_compute. reflexivity. Qed.
Example int_ex19 : int_of_bytes 16 (L"0x") = Raise value_error. Proof. vm_compute. reflexivity. Qed.
Example int_ex20 : int_of_bytes 16 (L"0b1") = Ok 177. Proof. vm_compute. reflexivity. Qed.
Example int_ex21 : int_of_bytes 16 (L"0x0x1") = Raise value_error. Proof. vm_compute. reflexivity. Qed.
Example int_ex22 : int_of_bytes 16 (L"fF") = Ok 255. Proof. vm_compute. reflexivity. Qed.
Example int_ex23 : int_of_bytes 16 (L"g") = Raise value_error. Proof. vm_compute. reflexivity. Qed.
Example int_ex24 : int_of_bytes 16 (L"0_1") = Ok 1. Proof. vm_compute. reflexivity. Qed.
(* the 4300 digit limit counts leading zeros but not underscores, and only applies to base 10 *)
Example int_ex25 : int_of_bytes 10 (repeat 48%N 4300) = Ok 0. Proof. vm_compute. reflexivity. Qed.
Example int_ex26 : int_of_bytes 10 (repeat 48%N 4301) = Raise value_error. Proof. vm_compute. reflexivity. Qed.
Example int_ex27 : int_of_bytes 16 (repeat 48%N 4301) = Ok 0. Proof. vm_compute. reflexivity. Qed.
Example str_ex01 : str_of_Z 0 = L"0". Proof. vm_compute. reflexivity. Qed.
Example str_ex02 : str_of_Z (-1050) = L"-1050". Proof. vm_compute. reflexivity. Qed.
Example str_ex03 : str_of_Z 18446744073709551616 = L"18446744073709551616". Proof. vm_compute. reflexivity. Qed.
Example boi_ex01 : bytes_of_ints [0; 255] = Ok [0; 255]%N. Proof. vm_compute. reflexivity. Qed.
Example boi_ex02 : bytes_of_ints [0; 256] = Raise value_error. Proof. vm_compute. reflexivity. Qed.
Example boi_ex03 : bytes_of_ints [-1] = Raise value_error. Proof. vm_compute. reflexivity. Qed.

Print Assumptions dec_value_range.
Print Assumptions int_parse_str_of_Z.
Print Assumptions str_of_Z_inj.
Print Assumptions int_of_bytes_str_of_Z.
Print Assumptions int_of_bytes_digits.
Print Assumptions int_of_bytes_outcomes.
Print Assumptions bytes_of_ints_ok_iff.
Print Assumptions bytes_of_ints_outcomes.
