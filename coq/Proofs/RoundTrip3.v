(* END-TO-END round trips  instance -> find  for the PLAIN INDICATORS (property C11): a canonical dotted quad,
   an executable / library file name, an e-mail address, embedded at ANY byte offset between a prefix in which
   no match attempt succeeds ([quiet]; decidable sufficient conditions are given) and a suffix that does not
   extend the token, is reported by find_ips / find_executable_name / find_library / find_emails as the FIRST
   node, with exactly its span and the text itself as value.  Span selection is done by the model's own
   backtracking matcher (Regex/Backtrack.v) on the regenerated regex terms, referred to by name only.

   These patterns start with an assertion about the byte BEFORE the attempt (a one-byte negative look-behind
   or a word boundary, lb_width = 1) and end with an assertion about the byte after it, so they are outside
   [front_ok] of Proofs/RoundTrip.v.  Section 1 extends the [runs] calculus with a predicate on the bytes
   before the position ([runsB]), the assertion steps, a bounded greedy repeat over a class, and the
   give-back step of a star in front of a part that needs the byte.  Section 2 is finditer on
   prefix ++ form ++ suffix for such runs, section 3 the neutrality criterion for patterns that begin with an
   assertion, sections 4-6 the decoders, section 7 the examples (expected values printed by /venv/bin/python).

   Side conditions the statements need (each has an Example in section 7 where the conclusion fails without it):
   - find_ips: the byte before must not be a word byte, a dot or a hyphen (a digit before EXTENDS the token: another
     address is reported), the byte after must not be a word byte, a dot or a hyphen: an address that ends a
     sentence (followed by a full stop) is not reported.  The filters of find_ips itself: endings .0 and .255, and
     the three context filters (ip_context).  The filter on the bytes 0 x . is subsumed by the .0 filter once
     is_ip has passed (canonical_allzero): it can never fire on its own.
   - file names: the bytes before and after must not be ASCII word bytes (bytes above 127 are not word bytes).
   - find_emails: the local part needs three bytes and must BEGIN with a word byte (a leading sign of its class is cut
     off by the word boundary); the byte after must not be a word byte (a digit 0 included, although the look-ahead
     of the domain pattern admits it), a full stop, a hyphen, an opening parenthesis or an equals sign; the number
     of letters of the top level domain must lie within the bounds of the letter repeat of the pattern (TLD_MIN,
     TLD_MAX: read off the regenerated term, not written here).  With the pattern as first verified (2 to 12
     letters) 14 purely alphabetic names of the regenerated table (13 to 18 letters) could never be matched; that
     defect has been fixed in the source, and rt3_table_tlds_fit now proves that every purely alphabetic name of the
     table is within the bounds (rt3_email_long_tld: such addresses are reported). *)
From Coq Require Import List ZArith NArith Bool Lia Arith.
From MD Require Import Lib.Base Model.Node Regex.Syntax Regex.DerivProofs Regex.MonitorProofs
  Regex.Backtrack Regex.BacktrackProofs Regex.LocalityProofs Generated.Regexes Model.Dec.ReLib.
From MD Require Import Model.Dec.UrlSplit Model.Dec.Ip Model.Dec.Network Model.Dec.PathDec Generated.Tables.
From MD Require Proofs.Base64Proofs.
From MD Require Import Proofs.BaseProofs Proofs.IpProofs Proofs.NetworkProofs Proofs.PathDecProofs Proofs.RoundTrip.
Import ListNotations.
Open Scope Z_scope.

(* ------------------------------------------------------------------ *)
(* 1.  Runs that depend on the bytes before the position                *)
(* ------------------------------------------------------------------ *)
(* [runsB B n r w x cf]: as [runs], for the positions whose bytes before (nearest first) satisfy B *)
Definition runsB (B : list N -> Prop) (n : nat) (r : re) (w x : list N) (cf : Z -> caps -> caps) : Prop :=
  forall f p c k, p_after p = w ++ x -> B (p_before p) -> (n <= f)%nat ->
    k (seek (List.length w) p) (cf (p_i p) c) <> NoMatch ->
    m f r p c k = k (seek (List.length w) p) (cf (p_i p) c).

Definition anyB : list N -> Prop := fun _ => True.

Lemma runsB_of_runs B n r w x cf : runs n r w x cf -> runsB B n r w x cf.
Proof. intros H f p c k Hp _ Hf Hk. apply H; assumption. Qed.

Lemma runs_of_runsB n r w x cf : runsB anyB n r w x cf -> runs n r w x cf.
Proof. intros H f p c k Hp Hf Hk. apply H; [exact Hp | exact I | exact Hf | exact Hk]. Qed.

Lemma runsB_mono B n n' r w x cf : runsB B n r w x cf -> (n <= n')%nat -> runsB B n' r w x cf.
Proof. intros H Hle f p c k Hp HB Hf Hk. apply H; [exact Hp | exact HB | lia | exact Hk]. Qed.

Lemma runsB_weaken (B B' : list N -> Prop) n r w x cf :
  (forall bf, B' bf -> B bf) -> runsB B n r w x cf -> runsB B' n r w x cf.
Proof. intros HBB H f p c k Hp HB Hf Hk. apply H; [exact Hp | apply HBB; exact HB | exact Hf | exact Hk]. Qed.

Lemma runsB_ext B n r w x cf cf' : (forall i c, cf i c = cf' i c) -> runsB B n r w x cf -> runsB B n r w x cf'.
Proof. intros E H f p c k Hp HB Hf Hk. rewrite <- E in Hk |- *. apply H; assumption. Qed.

Lemma seek_before : forall u p x, p_after p = u ++ x -> p_before (seek (List.length u) p) = rev u ++ p_before p.
Proof. intros u p x H. rewrite (seek_app u p x H). reflexivity. Qed.

(* sequence: the second part starts after the bytes the first part has consumed *)
Lemma runsB_seq (B B' : list N -> Prop) na nb a b wa wb x cfa cfb :
  runsB B na a wa (wb ++ x) cfa -> runsB B' nb b wb x cfb ->
  (forall bf, B bf -> B' (rev wa ++ bf)) ->
  runsB B (S (Nat.max na nb)) (Seq a b) (wa ++ wb) x
        (fun i c => cfb (i + Z.of_nat (List.length wa)) (cfa i c)).
Proof.
  intros Ha Hb HBB f p c k Hp HB Hf Hk. destruct f as [|f]; [lia|]. cbn [m].
  rewrite <- app_assoc in Hp.
  destruct (seek_word wa p (wb ++ x) (List.length wb) Hp) as (S1 & S2 & S3).
  pose proof (seek_before wa p (wb ++ x) Hp) as S4.
  rewrite app_length, S1 in Hk |- *. rewrite <- S3 in Hk |- *.
  assert (E : m f b (seek (List.length wa) p) (cfa (p_i p) c) k
              = k (seek (List.length wb) (seek (List.length wa) p))
                  (cfb (p_i (seek (List.length wa) p)) (cfa (p_i p) c))).
  { apply Hb; [exact S2 | rewrite S4; apply HBB; exact HB | lia | exact Hk]. }
  rewrite (Ha f p c (fun p' c' => m f b p' c' k) Hp HB ltac:(lia)); [exact E|].
  rewrite E. exact Hk.
Qed.

(* a zero-width first part: the second part sees the same bytes before *)
Lemma runsB_seq_skip B na nb a b w x cfb :
  runsB B na a [] (w ++ x) cf_id -> runsB B nb b w x cfb -> runsB B (S (Nat.max na nb)) (Seq a b) w x cfb.
Proof.
  intros Ha Hb. eapply runsB_ext; [|apply (runsB_seq B B na nb a b [] w x cf_id cfb Ha Hb)].
  - intros i c. cbn [List.length]. unfold cf_id. rewrite Z.add_0_r. reflexivity.
  - intros bf H. exact H.
Qed.

(* a zero-width last part, which sees the bytes the first part has consumed *)
Lemma runsB_seq_end (B B' : list N -> Prop) na nb a b w x cfa :
  runsB B na a w x cfa -> runsB B' nb b [] x cf_id -> (forall bf, B bf -> B' (rev w ++ bf)) ->
  runsB B (S (Nat.max na nb)) (Seq a b) w x cfa.
Proof.
  intros Ha Hb HBB. pose proof (runsB_seq B B' na nb a b w [] x cfa cf_id) as H. rewrite app_nil_r in H.
  eapply runsB_ext; [|apply H; assumption]. intros i c. reflexivity.
Qed.

Lemma runsB_grp B n g a w x cf :
  runsB B n a w x cf ->
  runsB B (S n) (Grp g a) w x (fun i c => (g, (i, i + Z.of_nat (List.length w))) :: cf i c).
Proof.
  intros Ha f p c k Hp HB Hf Hk. destruct f as [|f]; [lia|]. cbn [m].
  destruct (seek_word w p x 0 Hp) as (_ & _ & S3). rewrite <- S3 in Hk |- *.
  apply (Ha f p c (fun p' c' => k p' ((g, (p_i p, p_i p')) :: c')) Hp HB ltac:(lia)). exact Hk.
Qed.

(* ---- the assertions ---- *)
(* the word boundary: exactly one of the two neighbours is a word byte *)
Definition wordb_at (x : list N) : list N -> Prop := fun bf => xorb (word_at bf) (word_at x) = true.

Lemma runsB_wordb x : runsB (wordb_at x) 1 WordB [] x cf_id.
Proof.
  intros f p c k Hp HB Hf Hk. destruct f as [|f]; [lia|]. cbn [m]. cbn [app] in Hp.
  unfold wordb_at in HB. rewrite Hp, HB. reflexivity.
Qed.

(* the one-byte negative look-behind: there is no byte before, or it is outside the class *)
Lemma runsB_lookbehind mk x : runsB (hd_out mk) 2 (NLook true (Cls mk)) [] x cf_id.
Proof.
  intros f p c k Hp HB Hf Hk. destruct f as [|f]; [lia|]. cbn [m width back].
  destruct (p_before p) as [|b bf] eqn:Eb; [reflexivity|].
  destruct f as [|f]; [lia|]. cbn [m]. unfold adv. cbn [p_after].
  cbn [hd_out] in HB. rewrite HB. reflexivity.
Qed.

(* the one-byte negative look-ahead: there is no next byte, or it is outside the class *)
Lemma runs_lookahead mk x : hd_out mk x -> runs 2 (NLook false (Cls mk)) [] x cf_id.
Proof.
  intros Hx f p c k Hp Hf Hk. destruct f as [|f]; [lia|]. cbn [m]. cbn [app] in Hp.
  destruct f as [|f]; [lia|]. cbn [m]. unfold adv. rewrite Hp.
  destruct x as [|b x]; [reflexivity|]. cbn [hd_out] in Hx. rewrite Hx. reflexivity.
Qed.

(* ---- a bounded greedy repeat over a class (between lo and hi times): it takes all the bytes of the class when there are at
   most hi of them (and either exactly hi, or the next byte is outside the class) ---- *)
Lemma runs_rep_cls_hi mk : forall w lo hi x,
  Forall (fun c => N.testbit mk c = true) w -> (lo <= List.length w <= hi)%nat ->
  (List.length w = hi \/ hd_out mk x) ->
  runs (List.length w + 2) (Rep lo (Some hi) (Cls mk)) w x cf_id.
Proof.
  induction w as [|b w IH]; intros lo hi x HF Hlen Hstop.
  - cbn [List.length] in *. assert (lo = 0%nat) by lia. subst lo.
    destruct Hstop as [<- | Hx].
    + apply (runs_mono 1); [apply runs_rep_stop_hi | lia].
    + apply (runs_opt_skip (Cls mk)); [reflexivity | exact Hx].
  - inversion HF as [|? ? Hb HF']; subst. cbn [List.length] in *.
    destruct hi as [|hi]; [lia|].
    apply (runs_mono (S (Nat.max 1 (List.length w + 2)))); [|lia].
    apply (runs_rep_step 1 _ lo (Some (S hi)) (Cls mk) [b] w x cf_id cf_id);
      [discriminate | discriminate | apply runs_cls; exact Hb |].
    cbn [option_map pred]. apply IH; [exact HF' | lia |].
    destruct Hstop as [E | Hx]; [left; lia | right; exact Hx].
Qed.

(* ---- a star over a class in front of a part rest, on a single byte of the class that rest needs: the star takes the byte, rest fails after it,
   the byte is given back and rest runs over it ---- *)
Lemma m_seq_eq f a b p c k : m (S f) (Seq a b) p c k = m f a p c (fun p' c' => m f b p' c' k).
Proof. reflexivity. Qed.

Lemma m_star_giveback f a p c k :
  m f a p c (fun p' c' => if p_i p' =? p_i p then NoMatch else m f (Rep 0 None a) p' c' k) = NoMatch ->
  m (S f) (Rep 0 None a) p c k = k p c.
Proof. intros H. cbn [m pred option_map]. rewrite H. reflexivity. Qed.

Lemma runs_star_back1 nb nr mk rest b x cf :
  N.testbit mk b = true -> hd_out mk x -> blocked nb rest x -> runs nr rest [b] x cf ->
  runs (S (S (S (S (Nat.max nb nr))))) (Seq (Rep 0 None (Cls mk)) rest) [b] x cf.
Proof.
  intros Hb Hx Hbl Hr f p c k Hp Hf Hk. destruct f as [|F]; [lia|]. rewrite m_seq_eq.
  destruct F as [|F1]; [lia|]. cbn [app] in Hp.
  rewrite m_star_giveback.
  - apply Hr; [exact Hp | lia | exact Hk].
  - rewrite (m_cls_take F1 mk p c _ b x Hp Hb ltac:(lia)). cbn [p_i].
    replace (p_i p + 1 =? p_i p) with false by (symmetry; apply Z.eqb_neq; lia).
    destruct F1 as [|F2]; [lia|].
    set (p1 := {| p_i := p_i p + 1; p_before := b :: p_before p; p_after := x |}).
    rewrite m_star_giveback.
    + apply (Hbl (S (S F2)) p1 c k eq_refl). lia.
    + apply (blocked_first (Cls mk) x); [reflexivity | exact Hx | reflexivity | cbn [spine]; lia].
Qed.

(* ---- a part that cannot start, after a literal byte ---- *)
Lemma hd_out_mask_ok mk (P : N -> bool) b :
  mask_ok mk = true ->
  forallb (fun c => implb (N.testbit mk c) (P c)) bytes256 = true -> P b = false -> N.testbit mk b = false.
Proof.
  intros Hm Hchk Hb. destruct (N.testbit mk b) eqn:E; [|reflexivity]. exfalso.
  pose proof (mask_ok_bit mk b Hm E) as Hlt. rewrite forallb_forall in Hchk.
  specialize (Hchk b (bytes256_in b Hlt)). rewrite E, Hb in Hchk. discriminate Hchk.
Qed.

Lemma testbit_of_pred mk (P : N -> bool) b :
  (forall c, P c = true -> (c < 256)%N) ->
  forallb (fun c => implb (P c) (N.testbit mk c)) bytes256 = true -> P b = true -> N.testbit mk b = true.
Proof.
  intros Hlt Hchk Hb. rewrite forallb_forall in Hchk.
  specialize (Hchk b (bytes256_in b (Hlt b Hb))). rewrite Hb in Hchk. exact Hchk.
Qed.

Lemma Forall_of_pred mk (P : N -> bool) w :
  (forall c, P c = true -> (c < 256)%N) ->
  forallb (fun c => implb (P c) (N.testbit mk c)) bytes256 = true -> forallb P w = true ->
  Forall (fun c => N.testbit mk c = true) w.
Proof.
  intros Hlt Hchk Hw. apply Forall_forall. intros c Hc. rewrite forallb_forall in Hw.
  apply (testbit_of_pred mk P c Hlt Hchk). apply Hw. exact Hc.
Qed.

(* ------------------------------------------------------------------ *)
(* 2.  finditer on  prefix ++ form ++ suffix  for such runs              *)
(* ------------------------------------------------------------------ *)
Theorem match_here_formB B n r form suf cf fuel p :
  runsB B n r form suf cf -> p_after p = form ++ suf -> B (p_before p) -> (n <= fuel)%nat ->
  match_here fuel r p = Found (seek (List.length form) p) (cf (p_i p) []).
Proof.
  intros Hr Hp HB Hn. unfold match_here. apply (Hr fuel p [] (fun p' c' => Found p' c') Hp HB Hn). discriminate.
Qed.

(* SPAN SELECTION, with the bytes before: B holds for the reversed prefix *)
Theorem fi_formB B r ng pre form suf n cf :
  quiet default_fuel r (List.length pre) (start_pos (pre ++ form ++ suf)) ->
  runsB B n r form suf cf -> B (rev pre) -> (n <= default_fuel)%nat -> form <> [] ->
  fi r ng (pre ++ form ++ suf) = Hang \/
  exists rest, fi r ng (pre ++ form ++ suf)
               = Ok (mk_mtch ng (blen pre) (blen pre + blen form) (cf (blen pre) []) :: rest) /\
               Forall (fun mt => blen pre + blen form <= m_start mt 0) rest.
Proof.
  intros Hq Hr HB Hn Hne. unfold fi, finditer.
  rewrite (finditer_pos_quiet default_fuel r ng _ (List.length pre) (start_pos (pre ++ form ++ suf)));
    [| cbn [start_pos p_after]; rewrite app_length; lia | exact Hq].
  pose proof (start_pos_ok (pre ++ form ++ suf)) as Hp0.
  destruct (seek_ok _ (List.length pre) _ Hp0) as (Hp & _ & _).
  destruct (seek_ok _ (List.length form) _ Hp) as (He & _ & _).
  rewrite seek_start_pos in Hp, He |- *.
  set (p := pos_at pre (form ++ suf)) in *.
  set (e := seek (List.length form) p) in *.
  assert (Hpa : p_after p = form ++ suf) by reflexivity.
  assert (Hpi : p_i p = blen pre) by reflexivity.
  destruct (seek_word form p suf 0 Hpa) as (_ & _ & S3). fold e in S3.
  assert (HM : match_here default_fuel r p = Found e (cf (p_i p) [])).
  { apply (match_here_formB B n r form suf cf default_fuel p Hr Hpa HB Hn). }
  cbn [finditer_pos]. rewrite (search_pos_here _ _ _ _ _ _ HM).
  assert (Hlen : 0 < Z.of_nat (List.length form)) by (destruct form; [congruence | cbn [List.length]; lia]).
  replace (p_i e =? p_i p) with false by (symmetry; apply Z.eqb_neq; lia).
  destruct (finditer_pos default_fuel r ng (List.length (pre ++ form ++ suf)) e) as [rest|] eqn:ER;
    [right | left; reflexivity].
  exists rest. split.
  - rewrite S3, Hpi. unfold blen. reflexivity.
  - destruct (finditer_pos_sound _ _ _ _ _ _ _ He ER) as (F1 & _ & F3).
    rewrite Forall_forall in F1, F3. apply Forall_forall. intros mt Hin.
    rewrite (mtch_ok_m_start _ _ _ _ (F1 mt Hin)). specialize (F3 mt Hin). cbv beta in F3.
    rewrite S3, Hpi in F3. unfold blen. exact F3.
Qed.

(* ------------------------------------------------------------------ *)
(* 3.  Neutral prefixes for patterns that begin with an assertion        *)
(* ------------------------------------------------------------------ *)
(* a zero-width test of the neighbouring bytes: it fails or hands the same position to its continuation *)
Definition is_assert (a : re) : bool :=
  match a with
  | WordB | Bol | Eol => true
  | NLook _ (Cls _) => true
  | _ => false
  end.

Lemma m_assert f a p c K : is_assert a = true -> (2 <= f)%nat -> m f a p c K = NoMatch \/ m f a p c K = K p c.
Proof.
  intros Ha Hf. destruct f as [|f]; [lia|]. destruct f as [|f]; [lia|].
  destruct a as [| |mk|a1 a2|a1 a2|lo hi a1|g a1|bh a1| | |]; try discriminate Ha.
  - destruct a1 as [| |mk| | | | | | | |]; try discriminate Ha. destruct bh.
    + cbn [m width]. destruct (back 1 p) as [q|]; [|right; reflexivity].
      unfold adv. destruct (p_after q) as [|b l]; [right; reflexivity|].
      destruct (N.testbit mk b); [|right; reflexivity].
      destruct (_ =? _); [left; reflexivity | right; reflexivity].
    + cbn [m]. unfold adv. destruct (p_after p) as [|b l]; [right; reflexivity|].
      destruct (N.testbit mk b); [left; reflexivity | right; reflexivity].
  - cbn [m]. destruct (xorb _ _); [right | left]; reflexivity.
  - cbn [m]. destruct (p_before p); [right | left]; reflexivity.
  - cbn [m]. destruct (p_after p) as [|x l]; [right; reflexivity|].
    destruct x as [|px]; [left; reflexivity|].
    repeat (destruct px as [px|px|]; try (left; reflexivity));
      (destruct l; [right | left]; reflexivity).
Qed.

(* the pattern is an assertion followed by a part that has to consume a byte of its first set *)
Definition startable_tail (r : re) : bool :=
  match r with Seq a rest => is_assert a && startable rest | _ => false end.
Definition tail_of (r : re) : re := match r with Seq _ rest => rest | _ => Emp end.
Definition neutral_tail (r : re) (pre : list N) : bool := neutral (tail_of r) pre.

Lemma spine_pos r : (1 <= spine r)%nat.
Proof. destruct r; cbn [spine]; lia. Qed.

Lemma quiet_no_first_tail_gen fuel r : startable_tail r = true -> (spine (tail_of r) + 2 <= fuel)%nat ->
  forall pre body p, p_after p = pre ++ body -> neutral_tail r pre = true -> quiet fuel r (List.length pre) p.
Proof.
  intros Hs Hf. destruct r as [| | |a rest| | | | | | |]; try discriminate Hs.
  cbn [startable_tail tail_of] in Hs, Hf. apply andb_true_iff in Hs. destruct Hs as [Ha Hs].
  unfold neutral_tail. cbn [tail_of].
  induction pre as [|b pre IH]; intros body p Hp Hn; [exact I|].
  apply neutral_cons in Hn. destruct Hn as [Hb Hn]. cbn [List.length quiet]. split.
  - unfold match_here. destruct fuel as [|f]; [lia|]. cbn [m]. pose proof (spine_pos rest) as Hsp.
    assert (E : forall c', m f rest p c' (fun p' c'' => Found p' c'') = NoMatch).
    { intros c'. apply (blocked_first rest (p_after p) Hs); [rewrite Hp; exact Hb | reflexivity | lia]. }
    destruct (m_assert f a p [] (fun p' c' => m f rest p' c' (fun p'' c'' => Found p'' c'')) Ha ltac:(lia)) as [H | H];
      [exact H | rewrite H; apply E].
  - unfold adv. rewrite Hp. cbn [app]. apply (IH body); [reflexivity | exact Hn].
Qed.

Theorem quiet_no_first_tail r pre body :
  startable_tail r = true -> (spine (tail_of r) + 2 <= default_fuel)%nat -> neutral_tail r pre = true ->
  quiet default_fuel r (List.length pre) (start_pos (pre ++ body)).
Proof. intros Hs Hf Hn. apply (quiet_no_first_tail_gen _ _ Hs Hf pre body); [reflexivity | exact Hn]. Qed.

(* ------------------------------------------------------------------ *)
(* 4.  find_ips: canonical dotted quads                                  *)
(* ------------------------------------------------------------------ *)
(* the parts of the regenerated pattern, by position: look-behind, three times (octet, dot), octet, look-ahead *)
Definition seq_l (r : re) : re := match r with Seq a _ => a | _ => Emp end.
Definition seq_r (r : re) : re := match r with Seq _ b => b | _ => Emp end.
Definition IP_OCTET_RE : re := seq_l (seq_r (seq_r RE_network_IP_RE)).

(* what the octet part of the pattern is run over: one to three digits, no leading zero *)
Definition octet_text (ds : bytes) : bool :=
  forallb is_digit_ascii ds && (1 <=? List.length ds)%nat && (List.length ds <=? 3)%nat
  && (beqb ds [48%N] || negb (hd 0%N ds =? 48)%N).

(* the byte after an octet: not a digit, not the letter of the hexadecimal form *)
Definition oct_stop_byte (b : N) : bool := negb (is_digit_ascii b) && negb (b =? 120)%N && negb (b =? 88)%N.
Definition oct_stop (x : bytes) : bool := match x with [] => true | b :: _ => oct_stop_byte b end.

Lemma is_digit_lt c : is_digit_ascii c = true -> (c < 256)%N.
Proof. unfold is_digit_ascii. intros H. apply andb_true_iff in H. destruct H as [_ H]. apply N.leb_le in H. lia. Qed.

Ltac oct_hd Hs :=
  eapply (hd_out_of_pred _ oct_stop_byte); [vm_compute; reflexivity | vm_compute; reflexivity | exact Hs].

(* the octet alternative runs over a canonical octet: the hexadecimal branch fails (at once, or after the
   zero), the star over zeros takes nothing (or takes the single zero and gives it back), the digits are taken greedily *)
Lemma octet_runs ds x : octet_text ds = true -> oct_stop x = true -> runs 20 IP_OCTET_RE ds x cf_id.
Proof.
  intros Hds Hstop.
  assert (Hs : match x with [] => True | b :: _ => oct_stop_byte b = true end) by (destruct x; [exact I | exact Hstop]).
  unfold octet_text in Hds.
  apply andb_true_iff in Hds. destruct Hds as [Hds H4]. apply andb_true_iff in Hds. destruct Hds as [Hds H3].
  apply andb_true_iff in Hds. destruct Hds as [Hdig H1]. apply Nat.leb_le in H1, H3.
  unfold IP_OCTET_RE, RE_network_IP_RE. cbn [seq_l seq_r].
  destruct (beqb ds [48%N]) eqn:E48.
  - apply beqb_eq in E48. subst ds.
    eapply runs_mono;
      [ eapply runs_alt_r;
        [ cbn [app]; eapply blocked_seq_cls;
          [vm_compute; reflexivity | eapply blocked_first; [vm_compute; reflexivity | oct_hd Hs]]
        | eapply runs_star_back1;
          [ vm_compute; reflexivity | oct_hd Hs | eapply blocked_first; [vm_compute; reflexivity | oct_hd Hs]
          | eapply runs_rep_cls_hi;
            [ repeat constructor; vm_compute; reflexivity | cbn [List.length]; lia | right; oct_hd Hs ] ] ]
      | cbn [spine nullable List.length]; lia ].
  - cbn [orb] in H4. apply negb_true_iff in H4.
    destruct ds as [|d1 tl]; [cbn [List.length] in H1; lia|]. cbn [hd] in H4.
    eapply runs_mono;
      [ eapply runs_alt_r;
        [ eapply blocked_first;
          [ vm_compute; reflexivity
          | cbn [app hd_out];
            eapply (hd_out_mask_ok _ (fun c => (c =? 48)%N)); [vm_compute; reflexivity | vm_compute; reflexivity | exact H4] ]
        | eapply runs_seq_skip;
          [ eapply runs_opt_skip;
            [ vm_compute; reflexivity
            | cbn [app hd_out];
              eapply (hd_out_mask_ok _ (fun c => (c =? 48)%N)); [vm_compute; reflexivity | vm_compute; reflexivity | exact H4] ]
          | eapply runs_rep_cls_hi;
            [ eapply (Forall_of_pred _ is_digit_ascii); [exact is_digit_lt | vm_compute; reflexivity | exact Hdig]
            | split; [exact H1 | exact H3] | right; oct_hd Hs ] ] ]
      | cbn [spine nullable]; lia ].
Qed.

(* a byte that neither abuts nor extends the address: not a word byte, not a dot, not a hyphen *)
Definition ip_edge_byte (b : N) : bool := negb (is_word b || (b =? 46)%N || (b =? 45)%N).
Definition ip_abut_ok (pre : bytes) : bool := match rev pre with [] => true | b :: _ => ip_edge_byte b end.
Definition ip_stop (suf : bytes) : bool := match suf with [] => true | b :: _ => ip_edge_byte b end.
Definition ip_edge (l : list N) : Prop := match l with [] => True | b :: _ => ip_edge_byte b = true end.

Lemma ip_edge_of_bool l : match l with [] => true | b :: _ => ip_edge_byte b end = true -> ip_edge l.
Proof. destruct l; [intros _; exact I | intros H; exact H]. Qed.

Lemma ip_edge_oct_stop suf : ip_stop suf = true -> oct_stop suf = true.
Proof.
  destruct suf as [|b suf]; [reflexivity|]. cbn [ip_stop oct_stop]. unfold ip_edge_byte, oct_stop_byte, is_word, is_digit_ascii.
  intros H. apply negb_true_iff in H. apply orb_false_iff in H. destruct H as [H _].
  apply orb_false_iff in H. destruct H as [H _].
  repeat (apply orb_false_iff in H; destruct H as [H ?]).
  rewrite H. cbn [negb andb].
  destruct (N.eqb_spec b 120) as [->|_]; [discriminate|]. destruct (N.eqb_spec b 88) as [->|_]; [discriminate|]. reflexivity.
Qed.

(* octet dot *)
Lemma octet_dot_runs mk ds x : N.testbit mk 46 = true -> octet_text ds = true ->
  runs 22 (Seq IP_OCTET_RE (Cls mk)) (ds ++ [46%N]) x cf_id.
Proof.
  intros Hmk Hds. eapply runs_ext; [|eapply runs_mono;
    [ eapply (runs_seq _ _ _ _ ds [46%N] x); [apply octet_runs; [exact Hds | reflexivity] | apply runs_cls; exact Hmk]
    | lia ]].
  intros i c. reflexivity.
Qed.

(* the whole pattern on a dotted quad of such octets *)
Lemma ip_runs o1 o2 o3 o4 suf :
  octet_text o1 = true -> octet_text o2 = true -> octet_text o3 = true -> octet_text o4 = true ->
  ip_stop suf = true ->
  runsB ip_edge 60 RE_network_IP_RE (o1 ++ 46%N :: o2 ++ 46%N :: o3 ++ 46%N :: o4) suf cf_id.
Proof.
  intros H1 H2 H3 H4 Hstop.
  assert (Hs : ip_edge suf) by (apply ip_edge_of_bool; exact Hstop).
  replace (o1 ++ 46%N :: o2 ++ 46%N :: o3 ++ 46%N :: o4)
    with (((o1 ++ [46%N]) ++ (o2 ++ [46%N]) ++ (o3 ++ [46%N]) ++ []) ++ o4)
    by (rewrite app_nil_r, <- !app_assoc; reflexivity).
  assert (EO : seq_l (seq_r (seq_r RE_network_IP_RE)) = IP_OCTET_RE) by reflexivity.
  unfold RE_network_IP_RE in EO |- *. cbn [seq_l seq_r] in EO. rewrite EO.
  eapply runsB_ext; [|eapply runsB_mono;
    [ eapply runsB_seq_skip;
      [ eapply (runsB_weaken (hd_out _)); [|apply runsB_lookbehind];
        intros bf Hbf; eapply (hd_out_of_pred _ ip_edge_byte); [vm_compute; reflexivity | vm_compute; reflexivity | exact Hbf]
      | apply runsB_of_runs;
        eapply (runs_seq _ _ _ _ ((o1 ++ [46%N]) ++ (o2 ++ [46%N]) ++ (o3 ++ [46%N]) ++ []) o4 suf);
        [ eapply (runs_rep_step _ _ 3 (Some 3%nat) _ (o1 ++ [46%N]));
          [ discriminate | destruct o1; discriminate | apply octet_dot_runs; [vm_compute; reflexivity | exact H1] |];
          cbn [pred option_map];
          eapply (runs_rep_step _ _ 2 (Some 2%nat) _ (o2 ++ [46%N]));
          [ discriminate | destruct o2; discriminate | apply octet_dot_runs; [vm_compute; reflexivity | exact H2] |];
          cbn [pred option_map];
          eapply (runs_rep_step _ _ 1 (Some 1%nat) _ (o3 ++ [46%N]) []);
          [ discriminate | destruct o3; discriminate | apply octet_dot_runs; [vm_compute; reflexivity | exact H3] |];
          cbn [pred option_map]; apply runs_rep_stop_hi
        | eapply runs_seq_end;
          [ apply octet_runs; [exact H4 | apply ip_edge_oct_stop; exact Hstop]
          | apply runs_lookahead;
            eapply (hd_out_of_pred _ ip_edge_byte); [vm_compute; reflexivity | vm_compute; reflexivity | exact Hs] ] ] ]
    | cbn [Nat.max]; lia ]].
  intros i c. reflexivity.
Qed.

(* ---- the Python after finditer ---- *)
Lemma dec_octet_text a : 0 <= a < 256 -> octet_text (dec_octet a) = true.
Proof. apply (octet_forall (fun a => octet_text (dec_octet a))). vm_compute. reflexivity. Qed.

(* the three context filters of find_ips, as one function of the text and the start offset:
   an XML tag just before, the word "section" (or ".sec") before, the word "version" within ten bytes before *)
Definition ip_version_ctx (data : bytes) (start : Z) : res bool :=
  let offset := rfind data (L"ersion") (Z.max (start - 10) 0) start in
  if 0 <=? offset
  then do m2 <- re_match RE_network_find_ips_2 NG_network_find_ips_2 (slice data (offset + 6) start); Ok (is_some m2)
  else Ok false.

Definition ip_context (data : bytes) (start : Z) : res bool :=
  let prefix := rev (slice data 0 start) in
  do m0 <- re_match RE_network_find_ips_0 NG_network_find_ips_0 prefix;
  if is_some m0 then Ok true else
  do m1 <- re_match RE_network_find_ips_1 NG_network_find_ips_1 prefix;
  if is_some m1 then Ok true else ip_version_ctx data start.

Lemma find_ips_one_ctx data mt :
  is_ip (group data mt 0) = true ->
  forallb (fun c => has_byte c (L"0x.")) (group data mt 0) = false ->
  endswith (group data mt 0) (L".0") = false -> endswith (group data mt 0) (L".255") = false ->
  ip_context data (m_start mt 0) = Ok false ->
  find_ips_one data mt
  = Ok (Some (Node ip_type (group data mt 0) [] (0 + m_start mt 0) (blen (group data mt 0) + m_start mt 0) [])).
Proof.
  intros Hip Hz H0 H255 Hctx. unfold find_ips_one. rewrite Hip, Hz, H0, H255. cbn [negb orb].
  unfold ip_context in Hctx.
  destruct (re_match RE_network_find_ips_0 _ _) as [m0| |]; cbn [bind] in Hctx |- *; try discriminate Hctx.
  destruct (is_some m0); [discriminate Hctx|].
  destruct (re_match RE_network_find_ips_1 _ _) as [m1| |]; cbn [bind] in Hctx |- *; try discriminate Hctx.
  destruct (is_some m1); [discriminate Hctx|].
  unfold ip_version_ctx in Hctx. rewrite (parse_ip_node_verbatim _ Hip).
  destruct (0 <=? _).
  - destruct (re_match RE_network_find_ips_2 _ _) as [m2| |]; cbn [bind] in Hctx |- *; try discriminate Hctx.
    destruct (is_some m2); [discriminate Hctx|]. reflexivity.
  - reflexivity.
Qed.

(* the context looks only at the text before the start offset *)
Lemma prefixb_app_le : forall p d t, (List.length p <= List.length d)%nat -> prefixb p (d ++ t) = prefixb p d.
Proof.
  induction p as [|x p IH]; intros d t Hle; [destruct d; reflexivity|].
  destruct d as [|y d]; [cbn [List.length] in Hle; lia|]. cbn [app prefixb]. rewrite IH; [reflexivity|].
  cbn [List.length] in Hle. lia.
Qed.

Lemma rfind_at_beyond p : 0 < blen p -> forall t i0 lo hi, hi <= i0 -> rfind_at p t i0 lo hi = -1.
Proof.
  intros Hp. induction t as [|c t IH]; intros i0 lo hi Hhi; [reflexivity|]. cbn [rfind_at].
  rewrite IH by lia. cbn [Z.leb]. replace (i0 + blen p <=? hi) with false by (symmetry; apply Z.leb_gt; lia).
  rewrite andb_false_r. reflexivity.
Qed.

Lemma rfind_at_app p t : 0 < blen p -> forall d i0 lo hi, hi <= i0 + blen d ->
  rfind_at p (d ++ t) i0 lo hi = rfind_at p d i0 lo hi.
Proof.
  intros Hp. induction d as [|c d IH]; intros i0 lo hi Hhi.
  - cbn [app]. unfold blen in Hhi. cbn [List.length] in Hhi. rewrite rfind_at_beyond by lia.
    reflexivity.
  - cbn [app rfind_at]. rewrite IH by (unfold blen in *; cbn [List.length] in Hhi; lia).
    destruct (0 <=? rfind_at p d (i0 + 1) lo hi); [reflexivity|].
    destruct (Z.leb_spec (i0 + blen p) hi) as [Hle|Hgt]; [|rewrite !andb_false_r; reflexivity].
    change (c :: d ++ t) with ((c :: d) ++ t). rewrite prefixb_app_le; [reflexivity|].
    unfold blen in *. lia.
Qed.

Lemma rfind_app d t p lo : 0 < blen p -> 0 <= lo <= blen d -> rfind (d ++ t) p lo (blen d) = rfind d p lo (blen d).
Proof.
  intros Hp Hlo. unfold rfind.
  assert (Hd : 0 <= blen d) by apply blen_nonneg. assert (Ht : 0 <= blen t) by apply blen_nonneg.
  rewrite Base64Proofs.blen_app. rewrite (clamp_in (blen d) (blen d)) by lia.
  assert (E : forall i, 0 <= i <= blen d -> clamp_idx (blen d + blen t) i = i).
  { intros i Hi. unfold clamp_idx. destruct (Z.ltb_spec i 0); lia. }
  rewrite !E by lia. rewrite rfind_at_app by lia.
  rewrite (clamp_in (blen d) lo) by lia. reflexivity.
Qed.

Lemma slice_app_prefix {A} (d t : list A) a : 0 <= a -> slice (d ++ t) a (blen d) = slice d a (blen d).
Proof.
  intros Ha. unfold slice. rewrite Base64Proofs.blen_app.
  assert (Hd : 0 <= blen d) by apply blen_nonneg. assert (Ht : 0 <= blen t) by apply blen_nonneg.
  rewrite (clamp_in (blen d) (blen d)) by lia.
  replace (clamp_idx (blen d + blen t) (blen d)) with (blen d)
    by (unfold clamp_idx; destruct (Z.ltb_spec (blen d) 0); lia).
  destruct (Z.le_gt_cases a (blen d)) as [Hle|Hgt].
  - rewrite (clamp_in (blen d) a) by lia.
    replace (clamp_idx (blen d + blen t) a) with a by (unfold clamp_idx; destruct (Z.ltb_spec a 0); lia).
    rewrite skipn_app. replace (Z.to_nat a - List.length d)%nat with 0%nat by (unfold blen in *; lia).
    cbn [skipn]. rewrite firstn_app.
    replace (Z.to_nat (blen d - a) - List.length (skipn (Z.to_nat a) d))%nat with 0%nat
      by (rewrite skipn_length; unfold blen in *; lia).
    cbn [firstn]. apply app_nil_r.
  - replace (Z.to_nat (blen d - clamp_idx (blen d + blen t) a)) with 0%nat
      by (unfold clamp_idx; destruct (Z.ltb_spec a 0); lia).
    replace (Z.to_nat (blen d - clamp_idx (blen d) a)) with 0%nat
      by (unfold clamp_idx; destruct (Z.ltb_spec a 0); lia).
    reflexivity.
Qed.

Lemma ip_context_app pre t : ip_context (pre ++ t) (blen pre) = ip_context pre (blen pre).
Proof.
  assert (Hd : 0 <= blen pre) by apply blen_nonneg.
  unfold ip_context, ip_version_ctx. rewrite slice_app_prefix by lia.
  rewrite rfind_app by (try reflexivity; lia).
  destruct (0 <=? rfind pre (L"ersion") (Z.max (blen pre - 10) 0) (blen pre)) eqn:E; [|reflexivity].
  apply Z.leb_le in E. rewrite slice_app_prefix by lia. reflexivity.
Qed.

Lemma find_ips_post_starts data lo : forall ms out,
  Forall (fun mt => lo <= m_start mt 0) ms -> find_ips_post data ms = Ok out ->
  Forall (fun nd => lo <= n_st nd) out.
Proof.
  unfold find_ips_post. induction ms as [|mt ms IH]; intros out HF H; cbn [collect] in H.
  - injection H as <-. constructor.
  - inversion HF as [|? ? Hm HF']; subst.
    destruct (find_ips_one data mt) as [o| |] eqn:E1; cbn [bind] in H; try discriminate H.
    destruct (collect (find_ips_one data) ms) as [out'| |]; cbn [bind] in H; try discriminate H.
    injection H as <-. destruct o as [n|]; [|apply IH; [exact HF' | reflexivity]].
    constructor; [|apply IH; [exact HF' | reflexivity]].
    apply find_ips_one_some in E1. destruct E1 as [_ ->]. cbn [n_st]. lia.
Qed.

(* a canonical quad all of whose bytes are among  0 x .  is 0.0.0.0, which ends with .0 : the second filter of
   find_ips is subsumed by the third on canonical quads *)
Lemma forallb_app_r {A} (P : A -> bool) x y : forallb P (x ++ y) = true -> forallb P y = true.
Proof. rewrite forallb_app. intros H. apply andb_true_iff in H. apply H. Qed.

Lemma forallb_cons_r {A} (P : A -> bool) c y : forallb P (c :: y) = true -> forallb P y = true.
Proof. cbn [forallb]. intros H. apply andb_true_iff in H. apply H. Qed.

Lemma prefixb_app_self : forall l t, prefixb l (l ++ t) = true.
Proof. induction l as [|x l IH]; intros t; [reflexivity|]. cbn [app prefixb]. rewrite N.eqb_refl. apply IH. Qed.

Lemma endswith_app_self X p : endswith (X ++ p) p = true.
Proof. unfold endswith. rewrite rev_app_distr. apply prefixb_app_self. Qed.

Lemma canonical_allzero q :
  canonical_quad q = true -> forallb (fun c => has_byte c (L"0x.")) q = true -> endswith q (L".0") = true.
Proof.
  intros Hc Hz. apply canonical_quad_iff in Hc. destruct Hc as (a & b & c & d & Ha & Hb & Hc & Hd & ->).
  unfold quad in Hz |- *.
  apply forallb_app_r, forallb_cons_r, forallb_app_r, forallb_cons_r, forallb_app_r, forallb_cons_r in Hz.
  assert (E : dec_octet d = [48%N]).
  { pose proof (octet_forall (fun d => implb (forallb (fun c => has_byte c (L"0x.")) (dec_octet d)) (beqb (dec_octet d) [48%N]))
                  ltac:(vm_compute; reflexivity) d Hd) as H.
    cbv beta in H. rewrite Hz in H. apply beqb_eq. exact H. }
  rewrite E.
  replace (dec_octet a ++ ch_dot :: dec_octet b ++ ch_dot :: dec_octet c ++ [ch_dot; 48%N])
    with ((dec_octet a ++ ch_dot :: dec_octet b ++ ch_dot :: dec_octet c) ++ L".0").
  - apply endswith_app_self.
  - rewrite <- app_assoc. cbn [app]. rewrite <- app_assoc. cbn [app]. reflexivity.
Qed.

(* ---- the round trip ---- *)
Theorem find_ips_roundtrip_quiet pre q suf :
  canonical_quad q = true ->
  endswith q (L".0") = false -> endswith q (L".255") = false ->
  ip_abut_ok pre = true -> ip_stop suf = true ->
  ip_context pre (blen pre) = Ok false ->
  let data := pre ++ q ++ suf in
  quiet default_fuel RE_network_IP_RE (List.length pre) (start_pos data) ->
  find_ips data = Hang \/
  exists rest, find_ips data = Ok (Node (L"network.ip") q [] (blen pre) (blen pre + blen q) [] :: rest) /\
               Forall (fun nd => blen pre + blen q <= n_st nd) rest.
Proof.
  intros Hc H0 H255 Hab Hst Hctx data Hq.
  pose proof Hc as Hc'. apply canonical_quad_iff in Hc'.
  destruct Hc' as (a & b & c & d & Ha & Hb & Hc2 & Hd & Eq).
  assert (R : runsB ip_edge 60 RE_network_IP_RE q suf cf_id).
  { rewrite Eq. unfold quad. apply ip_runs; try (apply dec_octet_text; assumption). exact Hst. }
  assert (Hne : q <> []) by (intros ->; vm_compute in Hc; discriminate Hc).
  assert (HB : ip_edge (rev pre)) by (apply ip_edge_of_bool; exact Hab).
  assert (Hfuel : (60 <= default_fuel)%nat) by (apply (Nat.le_trans _ 1000); [lia | exact fuel_1000]).
  destruct (fi_formB ip_edge RE_network_IP_RE NG_network_IP_RE pre q suf 60 cf_id Hq R HB Hfuel Hne)
    as [H | (rest & Hfi & Hrest)].
  { left. unfold find_ips. fold data in H. rewrite H. reflexivity. }
  fold data in Hfi.
  set (s := blen pre) in *. set (e := s + blen q) in *.
  change (mk_mtch NG_network_IP_RE s e (cf_id s [])) with ([Some (s, e)] : mtch) in Hfi.
  set (mt := ([Some (s, e)] : mtch)) in *.
  assert (Eg : group data mt 0 = q) by (unfold group, mt; cbn [nth]; unfold e, s, data; apply slice_mid).
  assert (Es : m_start mt 0 = s) by reflexivity.
  assert (Hz : forallb (fun c => has_byte c (L"0x.")) q = false).
  { destruct (forallb (fun c => has_byte c (L"0x.")) q) eqn:E; [|reflexivity].
    rewrite (canonical_allzero q Hc E) in H0. discriminate H0. }
  assert (Eone : find_ips_one data mt = Ok (Some (Node ip_type q [] (0 + s) (blen q + s) []))).
  { assert (X : find_ips_one data mt
                 = Ok (Some (Node ip_type (group data mt 0) [] (0 + m_start mt 0) (blen (group data mt 0) + m_start mt 0) []))).
    { apply find_ips_one_ctx; rewrite ?Eg, ?Es.
      - rewrite is_ip_iff_canonical. exact Hc.
      - exact Hz.
      - exact H0.
      - exact H255.
      - unfold data, s. rewrite ip_context_app. exact Hctx. }
    rewrite Eg, Es in X. exact X. }
  unfold find_ips. rewrite Hfi. cbn [bind]. unfold find_ips_post. cbn [collect]. rewrite Eone. cbn [bind].
  destruct (collect (find_ips_one data) rest) as [out|ex|] eqn:ER; cbn [bind].
  - right. exists out. split.
    + replace (0 + s) with s by lia. replace (blen q + s) with e by (unfold e; lia). reflexivity.
    + apply (find_ips_post_starts data e rest out Hrest ER).
  - exfalso. exact (find_ips_post_no_raise data rest ex ER).
  - left. reflexivity.
Qed.

(* the decidable form of the hypothesis on the prefix: it contains no digit (no byte that the pattern can
   consume first) *)
Theorem find_ips_roundtrip pre q suf :
  canonical_quad q = true ->
  endswith q (L".0") = false -> endswith q (L".255") = false ->
  ip_abut_ok pre = true -> ip_stop suf = true ->
  ip_context pre (blen pre) = Ok false ->
  neutral_tail RE_network_IP_RE pre = true ->
  let data := pre ++ q ++ suf in
  find_ips data = Hang \/
  exists rest, find_ips data = Ok (Node (L"network.ip") q [] (blen pre) (blen pre + blen q) [] :: rest) /\
               Forall (fun nd => blen pre + blen q <= n_st nd) rest.
Proof.
  intros Hc H0 H255 Hab Hst Hctx Hn data.
  apply find_ips_roundtrip_quiet; try assumption.
  apply quiet_no_first_tail; [vm_compute; reflexivity | | exact Hn].
  apply (Nat.le_trans _ 1000); [apply Nat.leb_le; vm_compute; reflexivity | exact fuel_1000].
Qed.

(* ------------------------------------------------------------------ *)
(* 5.  find_executable_name / find_library:  name . ext                  *)
(* ------------------------------------------------------------------ *)
Lemma is_word_lt c : is_word c = true -> (c < 256)%N.
Proof.
  intros H. destruct (N.ltb_spec c 256) as [Hlt|Hge]; [exact Hlt | exfalso]. unfold is_word in H.
  replace (c <=? 57)%N with false in H by (symmetry; apply N.leb_gt; lia).
  replace (c <=? 90)%N with false in H by (symmetry; apply N.leb_gt; lia).
  replace (c <=? 122)%N with false in H by (symmetry; apply N.leb_gt; lia).
  replace (c =? 95)%N with false in H by (symmetry; apply N.eqb_neq; lia).
  rewrite !andb_false_r in H. discriminate H.
Qed.

Lemma is_word_lower1 b : is_word (lower1 b) = is_word b.
Proof.
  destruct (N.ltb_spec b 256) as [Hlt|Hge].
  - assert (H : forallb (fun b => Bool.eqb (is_word (lower1 b)) (is_word b)) bytes256 = true) by (vm_compute; reflexivity).
    rewrite forallb_forall in H. apply eqb_prop. apply H. apply bytes256_in. exact Hlt.
  - unfold lower1, is_upper_ascii. replace (b <=? 90)%N with false by (symmetry; apply N.leb_gt; lia).
    rewrite andb_false_r. reflexivity.
Qed.

(* a literal word byte followed by the closing word boundary *)
Lemma runs_cls_wordb mk b x :
  N.testbit mk b = true -> is_word b = true -> word_at x = false -> runs 2 (Seq (Cls mk) WordB) [b] x cf_id.
Proof.
  intros Hb Hw Hx f p c k Hp Hf Hk. destruct f as [|f]; [lia|]. rewrite m_seq_eq. cbn [app] in Hp.
  rewrite (m_cls_take f mk p c _ b x Hp Hb ltac:(lia)).
  destruct f as [|f]; [lia|]. cbn [m p_before p_after word_at]. rewrite Hw, Hx. cbn [xorb].
  cbn [List.length seek]. unfold adv. rewrite Hp. reflexivity.
Qed.

Lemma word_at_app_word name x : forallb is_word name = true -> name <> [] -> word_at (name ++ x) = true.
Proof.
  intros HF Hne. destruct name as [|b name]; [congruence|]. cbn [app word_at].
  cbn [forallb] in HF. apply andb_true_iff in HF. apply HF.
Qed.

(* the shape shared by the two patterns: word boundary, word bytes, a dot, three letters in any case, word boundary *)
Definition file_form (name ext : bytes) : bytes := name ++ [46%N] ++ ext.

Ltac ext_lit :=
  first [ vm_compute; reflexivity
        | eapply testbit_lower; [eassumption | vm_compute; reflexivity | vm_compute; reflexivity] ].

Ltac file_runs_tac name HF Hne Hsuf :=
  eapply runsB_ext; [|eapply runsB_mono;
    [ eapply runsB_seq_skip;
      [ eapply (runsB_weaken (wordb_at _)); [|apply runsB_wordb];
        intros bf Hbf; unfold wordb_at; rewrite Hbf;
        match goal with |- xorb false (word_at ((name ++ ?y) ++ ?z)) = true =>
          rewrite <- (app_assoc name y z), (word_at_app_word name _ HF Hne); reflexivity end
      | apply runsB_of_runs;
        eapply (runs_seq _ _ _ _ name [_; _; _; _]);
        [ eapply runs_rep_cls;
          [ eapply (Forall_of_pred _ is_word); [exact is_word_lt | vm_compute; reflexivity | exact HF]
          | cbn [app hd_out]; vm_compute; reflexivity
          | destruct name; [congruence | cbn [List.length]; lia] ]
        | eapply runs_seq_cls; [ext_lit|]; eapply runs_seq_cls; [ext_lit|]; eapply runs_seq_cls; [ext_lit|];
          eapply runs_cls_wordb; [ext_lit | | exact Hsuf];
          rewrite <- is_word_lower1;
          match goal with H : lower1 ?b = _ |- is_word (lower1 ?b) = true => rewrite H; reflexivity end ] ]
    | cbn [Nat.max]; lia ]];
  intros i c; reflexivity.

Lemma exe_runs name ext suf :
  forallb is_word name = true -> name <> [] -> lower ext = L"exe" -> word_at suf = false ->
  runsB (fun bf => word_at bf = false) (List.length name + 20) RE_filename_EXECUTABLE_RE (file_form name ext) suf cf_id.
Proof.
  intros HF Hne Hext Hsuf. change (L"exe") with [101; 120; 101]%N in Hext. split_name Hext.
  unfold RE_filename_EXECUTABLE_RE, file_form. cbn [app].
  file_runs_tac name HF Hne Hsuf.
Qed.

Lemma dll_runs name ext suf :
  forallb is_word name = true -> name <> [] -> lower ext = L"dll" -> word_at suf = false ->
  runsB (fun bf => word_at bf = false) (List.length name + 20) RE_filename_LIBRARY_RE (file_form name ext) suf cf_id.
Proof.
  intros HF Hne Hext Hsuf. change (L"dll") with [100; 108; 108]%N in Hext. split_name Hext.
  unfold RE_filename_LIBRARY_RE, file_form. cbn [app].
  file_runs_tac name HF Hne Hsuf.
Qed.

(* hit.regex_hits after span selection: the first node is the form itself *)
Lemma mk_mtch_g0 ng s e c : nth 0 (mk_mtch ng s e c) None = Some (s, e).
Proof. reflexivity. Qed.

Theorem regex_hits_roundtrip (B : list N -> Prop) r ng lbl pre form suf n cf :
  quiet default_fuel r (List.length pre) (start_pos (pre ++ form ++ suf)) ->
  runsB B n r form suf cf -> B (rev pre) -> (n <= default_fuel)%nat -> form <> [] ->
  let data := pre ++ form ++ suf in
  (do ms <- fi r ng data; regex_hits_post lbl data ms) = Hang \/
  exists rest, (do ms <- fi r ng data; regex_hits_post lbl data ms)
               = Ok (Node lbl form [] (blen pre) (blen pre + blen form) [] :: rest) /\
               Forall (fun nd => blen pre + blen form <= n_st nd) rest.
Proof.
  intros Hq R HB Hn Hne data.
  destruct (fi_formB B r ng pre form suf n cf Hq R HB Hn Hne) as [H | (rest & Hfi & Hrest)].
  { left. fold data in H. rewrite H. reflexivity. }
  fold data in Hfi. right. rewrite Hfi. cbn [bind]. unfold regex_hits_post. cbn [map].
  eexists. split; [f_equal; f_equal|].
  - unfold match_to_hit, group, m_start, m_end, span. rewrite mk_mtch_g0. cbn [fst snd].
    unfold data. rewrite slice_mid. reflexivity.
  - apply Forall_map. eapply Forall_impl; [|exact Hrest]. intros mt Hmt. cbn [match_to_hit n_st]. exact Hmt.
Qed.

Lemma file_form_nonempty name ext : file_form name ext <> [].
Proof. unfold file_form. destruct name; discriminate. Qed.

Lemma fuel_plus n : (n + 64 <= default_fuel)%nat -> (n + 20 <= default_fuel)%nat.
Proof. lia. Qed.

(* ---- find_executable_name: any letter case of the extension (the pattern has the flag i), names over the
   ASCII word bytes; the byte before the name and the byte after the extension are not word bytes ---- *)
Theorem find_executable_name_roundtrip_quiet pre name ext suf :
  forallb is_word name = true -> name <> [] -> lower ext = L"exe" ->
  word_at (rev pre) = false -> word_at suf = false ->
  (List.length name + 64 <= default_fuel)%nat ->
  let form := file_form name ext in
  let data := pre ++ form ++ suf in
  quiet default_fuel RE_filename_EXECUTABLE_RE (List.length pre) (start_pos data) ->
  find_executable_name data = Hang \/
  exists rest, find_executable_name data
               = Ok (Node (L"executable.filename") form [] (blen pre) (blen pre + blen form) [] :: rest) /\
               Forall (fun nd => blen pre + blen form <= n_st nd) rest.
Proof.
  intros HF Hne Hext Hpre Hsuf Hfuel form data Hq.
  apply (regex_hits_roundtrip (fun bf => word_at bf = false) RE_filename_EXECUTABLE_RE NG_filename_EXECUTABLE_RE
           EXECUTABLE_TYPE pre form suf _ _ Hq (exe_runs name ext suf HF Hne Hext Hsuf) Hpre (fuel_plus _ Hfuel)
           (file_form_nonempty name ext)).
Qed.

Theorem find_library_roundtrip_quiet pre name ext suf :
  forallb is_word name = true -> name <> [] -> lower ext = L"dll" ->
  word_at (rev pre) = false -> word_at suf = false ->
  (List.length name + 64 <= default_fuel)%nat ->
  let form := file_form name ext in
  let data := pre ++ form ++ suf in
  quiet default_fuel RE_filename_LIBRARY_RE (List.length pre) (start_pos data) ->
  find_library data = Hang \/
  exists rest, find_library data
               = Ok (Node (L"executable.library.filename") form [] (blen pre) (blen pre + blen form) [] :: rest) /\
               Forall (fun nd => blen pre + blen form <= n_st nd) rest.
Proof.
  intros HF Hne Hext Hpre Hsuf Hfuel form data Hq.
  apply (regex_hits_roundtrip (fun bf => word_at bf = false) RE_filename_LIBRARY_RE NG_filename_LIBRARY_RE
           LIBRARY_TYPE pre form suf _ _ Hq (dll_runs name ext suf HF Hne Hext Hsuf) Hpre (fuel_plus _ Hfuel)
           (file_form_nonempty name ext)).
Qed.

(* ------------------------------------------------------------------ *)
(* 5b.  A larger decidable class of quiet prefixes: separator-free text  *)
(* ------------------------------------------------------------------ *)
(* For a pattern of the shape  assertion, at least lo bytes of a class, a separator byte, rest  (the two file-name patterns with the
   dot, the e-mail pattern with the at sign): no attempt succeeds inside a prefix that contains no separator
   byte and whose last byte is outside the class (so that a run of class bytes cannot reach the form). *)
Definition sep_shape (r : re) : bool :=
  match r with Seq a (Seq (Rep _ None (Cls _)) (Seq (Cls _) _)) => is_assert a | _ => false end.
Definition run_cls (r : re) : N :=
  match r with Seq _ (Seq (Rep _ None (Cls w)) _) => w | _ => 0%N end.
Definition sep_cls (r : re) : N :=
  match r with Seq _ (Seq _ (Seq (Cls d) _)) => d | _ => 0%N end.
Definition sep_free (r : re) (pre : list N) : bool :=
  match pre with
  | [] => true
  | _ => forallb (fun c => negb (N.testbit (sep_cls r) c)) pre && negb (N.testbit (run_cls r) (last pre 0%N))
  end.

Lemma sep_free_tail r b pre : sep_free r (b :: pre) = true -> sep_free r pre = true.
Proof.
  destruct pre as [|b' pre]; [reflexivity|]. unfold sep_free. intros H. apply andb_true_iff in H. destruct H as [H1 H2].
  apply andb_true_iff. split; [|exact H2].
  rewrite forallb_forall in H1 |- *. intros x Hx. apply H1. right. exact Hx.
Qed.

Lemma m_rep_unfold f lo a p c k :
  m (S f) (Rep lo None a) p c k
  = match lo with
    | S _ => m f a p c (fun p' c' => if p_i p' =? p_i p then NoMatch else m f (Rep (pred lo) None a) p' c' k)
    | O => match m f a p c (fun p' c' => if p_i p' =? p_i p then NoMatch else m f (Rep (pred lo) None a) p' c' k) with
           | NoMatch => k p c
           | Fuel => Fuel
           | Found e c0 => Found e c0
           end
    end.
Proof. cbn [m option_map]. destruct lo; [|reflexivity]. destruct (m f a p c _); reflexivity. Qed.

(* the greedy run of class bytes ends inside u, and the separator is found at none of the positions tried *)
Lemma rep_sep_fail w d body : forall u,
  u <> [] -> forallb (fun c => negb (N.testbit d c)) u = true -> N.testbit w (last u 0%N) = false ->
  forall f lo p c K, p_after p = u ++ body -> (List.length u + 2 <= f)%nat ->
    (forall p' c', hd_out d (p_after p') -> K p' c' = NoMatch) ->
    m f (Rep lo None (Cls w)) p c K = NoMatch.
Proof.
  induction u as [|b u IH]; intros Hne Hd Hl f lo p c K Hp Hf HK; [congruence|].
  destruct f as [|f]; [lia|]. rewrite m_rep_unfold.
  cbn [forallb] in Hd. apply andb_true_iff in Hd. destruct Hd as [Hb Hd]. apply negb_true_iff in Hb.
  assert (K0 : K p c = NoMatch) by (apply HK; rewrite Hp; exact Hb).
  cbn [List.length] in Hf. cbn [app] in Hp.
  assert (A : m f (Cls w) p c
                (fun p' c' => if p_i p' =? p_i p then NoMatch else m f (Rep (pred lo) None (Cls w)) p' c' K) = NoMatch).
  { destruct (N.testbit w b) eqn:Ew.
    - rewrite (m_cls_take f w p c _ b (u ++ body) Hp Ew ltac:(lia)). cbn [p_i].
      replace (p_i p + 1 =? p_i p) with false by (symmetry; apply Z.eqb_neq; lia).
      destruct u as [|b' u']; [cbn [last] in Hl; congruence|].
      apply IH; [discriminate | exact Hd | exact Hl | reflexivity | lia | exact HK].
    - destruct f as [|f]; [lia|]. cbn [m]. unfold adv. rewrite Hp, Ew. reflexivity. }
  rewrite A. destruct lo; [exact K0 | reflexivity].
Qed.

Lemma quiet_sep_free_gen fuel r : sep_shape r = true ->
  forall pre body p, p_after p = pre ++ body -> sep_free r pre = true -> (List.length pre + 6 <= fuel)%nat ->
  quiet fuel r (List.length pre) p.
Proof.
  intros Hs. destruct r as [| | |a r1| | | | | | |]; try discriminate Hs.
  destruct r1 as [| | |r2 r3| | | | | | |]; try discriminate Hs.
  destruct r2 as [| | | | |lo hi r2| | | | |]; try discriminate Hs.
  destruct hi as [hi|]; [discriminate Hs|].
  destruct r2 as [| |w| | | | | | | |]; try discriminate Hs.
  destruct r3 as [| | |r4 rest| | | | | | |]; try discriminate Hs.
  destruct r4 as [| |d| | | | | | | |]; try discriminate Hs.
  cbn [sep_shape] in Hs.
  induction pre as [|b pre IH]; intros body p Hp Hn Hf; [exact I|].
  cbn [List.length quiet]. split.
  - unfold match_here. cbn [List.length] in Hf. destruct fuel as [|f]; [lia|]. rewrite m_seq_eq.
    assert (E : forall c', m f (Seq (Rep lo None (Cls w)) (Seq (Cls d) rest)) p c' (fun p' c'' => Found p' c'') = NoMatch).
    { intros c'. destruct f as [|f1]; [lia|]. rewrite m_seq_eq.
      apply (rep_sep_fail w d body (b :: pre)); [discriminate | | | exact Hp | cbn [List.length]; lia |].
      - unfold sep_free in Hn. cbn [sep_cls] in Hn. apply andb_true_iff in Hn. apply Hn.
      - unfold sep_free in Hn. cbn [run_cls] in Hn. apply andb_true_iff in Hn. destruct Hn as [_ Hn].
        apply negb_true_iff in Hn. exact Hn.
      - intros p' c'' Hh. destruct f1 as [|f2]; [lia|]. rewrite m_seq_eq.
        destruct f2 as [|f3]; [lia|]. cbn [m]. unfold adv. destruct (p_after p') as [|y l]; [reflexivity|].
        cbn [hd_out] in Hh. rewrite Hh. reflexivity. }
    destruct (m_assert f a p [] (fun p' c' => m f (Seq (Rep lo None (Cls w)) (Seq (Cls d) rest)) p' c' (fun p'' c'' => Found p'' c''))
                Hs ltac:(lia)) as [H | H]; [exact H | rewrite H; apply E].
  - unfold adv. rewrite Hp. cbn [app]. apply (IH body); [reflexivity | apply (sep_free_tail _ b); exact Hn |].
    cbn [List.length] in Hf. lia.
Qed.

Theorem quiet_sep_free r pre body :
  sep_shape r = true -> sep_free r pre = true -> (List.length pre + 6 <= default_fuel)%nat ->
  quiet default_fuel r (List.length pre) (start_pos (pre ++ body)).
Proof. intros Hs Hn Hf. apply (quiet_sep_free_gen _ _ Hs pre body); [reflexivity | exact Hn | exact Hf]. Qed.

Lemma rev_last_hd {A} (l : list A) d : l <> [] -> exists t, rev l = last l d :: t.
Proof.
  destruct (rev l) as [|x t] eqn:E.
  - intros H. apply (f_equal (@rev A)) in E. rewrite rev_involutive in E. cbn in E. congruence.
  - intros _. exists t. f_equal. apply (f_equal (@rev A)) in E. rewrite rev_involutive in E. cbn [rev] in E.
    rewrite E. symmetry. apply last_last.
Qed.

(* when the class contains the word bytes, such a prefix does not end with a word byte *)
Lemma sep_free_word_before r pre :
  forallb (fun c => implb (is_word c) (N.testbit (run_cls r) c)) bytes256 = true ->
  sep_free r pre = true -> word_at (rev pre) = false.
Proof.
  intros Hchk Hn. destruct pre as [|b pre]; [reflexivity|].
  destruct (rev_last_hd (b :: pre) 0%N ltac:(discriminate)) as [t E]. rewrite E. cbn [word_at].
  unfold sep_free in Hn. apply andb_true_iff in Hn. destruct Hn as [_ Hn]. apply negb_true_iff in Hn.
  destruct (is_word (last (b :: pre) 0%N)) eqn:Ew; [|reflexivity].
  rewrite (testbit_of_pred _ is_word _ is_word_lt Hchk Ew) in Hn. discriminate Hn.
Qed.

Theorem find_executable_name_roundtrip pre name ext suf :
  forallb is_word name = true -> name <> [] -> lower ext = L"exe" ->
  sep_free RE_filename_EXECUTABLE_RE pre = true -> word_at suf = false ->
  (List.length pre + List.length name + 64 <= default_fuel)%nat ->
  let form := file_form name ext in
  let data := pre ++ form ++ suf in
  find_executable_name data = Hang \/
  exists rest, find_executable_name data
               = Ok (Node (L"executable.filename") form [] (blen pre) (blen pre + blen form) [] :: rest) /\
               Forall (fun nd => blen pre + blen form <= n_st nd) rest.
Proof.
  intros HF Hne Hext Hpre Hsuf Hfuel form data.
  apply find_executable_name_roundtrip_quiet; try assumption.
  - apply (sep_free_word_before RE_filename_EXECUTABLE_RE); [vm_compute; reflexivity | exact Hpre].
  - lia.
  - apply quiet_sep_free; [reflexivity | exact Hpre | lia].
Qed.

Theorem find_library_roundtrip pre name ext suf :
  forallb is_word name = true -> name <> [] -> lower ext = L"dll" ->
  sep_free RE_filename_LIBRARY_RE pre = true -> word_at suf = false ->
  (List.length pre + List.length name + 64 <= default_fuel)%nat ->
  let form := file_form name ext in
  let data := pre ++ form ++ suf in
  find_library data = Hang \/
  exists rest, find_library data
               = Ok (Node (L"executable.library.filename") form [] (blen pre) (blen pre + blen form) [] :: rest) /\
               Forall (fun nd => blen pre + blen form <= n_st nd) rest.
Proof.
  intros HF Hne Hext Hpre Hsuf Hfuel form data.
  apply find_library_roundtrip_quiet; try assumption.
  - apply (sep_free_word_before RE_filename_LIBRARY_RE); [vm_compute; reflexivity | exact Hpre].
  - lia.
  - apply quiet_sep_free; [reflexivity | exact Hpre | lia].
Qed.

(* ------------------------------------------------------------------ *)
(* 6.  find_emails:  local @ label . label . ... . tld                    *)
(* ------------------------------------------------------------------ *)
Lemma blocked_mono n n' r x : blocked n r x -> (n <= n')%nat -> blocked n' r x.
Proof. intros H Hle f p c k Hp Hf. apply H; [exact Hp | lia]. Qed.

(* a repeat over a class followed by a separator class fails on a text without separator whose run of class bytes is followed by a byte that is
   neither in the class nor a separator (or by the end of the text): every give-back position is tried *)
Lemma rep_sep_fail2 w d x : hd_out w x -> hd_out d x -> forall u,
  forallb (fun c => negb (N.testbit d c)) u = true ->
  forall f lo p c K, p_after p = u ++ x -> (List.length u + 2 <= f)%nat ->
    (forall p' c', hd_out d (p_after p') -> K p' c' = NoMatch) ->
    m f (Rep lo None (Cls w)) p c K = NoMatch.
Proof.
  intros Hxw Hxd. induction u as [|b u IH]; intros Hd f lo p c K Hp Hf HK.
  - cbn [app] in Hp. destruct f as [|f]; [lia|]. rewrite m_rep_unfold.
    assert (K0 : K p c = NoMatch) by (apply HK; rewrite Hp; exact Hxd).
    assert (A : forall K', m f (Cls w) p c K' = NoMatch).
    { intros K'. apply (blocked_first (Cls w) x); [reflexivity | exact Hxw | exact Hp | cbn [spine List.length] in *; lia]. }
    rewrite A. destruct lo; [exact K0 | reflexivity].
  - destruct f as [|f]; [lia|]. rewrite m_rep_unfold.
    cbn [forallb] in Hd. apply andb_true_iff in Hd. destruct Hd as [Hb Hd]. apply negb_true_iff in Hb.
    cbn [List.length] in Hf. cbn [app] in Hp.
    assert (K0 : K p c = NoMatch) by (apply HK; rewrite Hp; exact Hb).
    assert (A : m f (Cls w) p c
                  (fun p' c' => if p_i p' =? p_i p then NoMatch else m f (Rep (pred lo) None (Cls w)) p' c' K) = NoMatch).
    { destruct (N.testbit w b) eqn:Ew.
      - rewrite (m_cls_take f w p c _ b (u ++ x) Hp Ew ltac:(lia)). cbn [p_i].
        replace (p_i p + 1 =? p_i p) with false by (symmetry; apply Z.eqb_neq; lia).
        apply IH; [exact Hd | reflexivity | lia | exact HK].
      - destruct f as [|f]; [lia|]. cbn [m]. unfold adv. rewrite Hp, Ew. reflexivity. }
    rewrite A. destruct lo; [exact K0 | reflexivity].
Qed.

Lemma blocked_run_sep w d lo u x :
  forallb (fun c => negb (N.testbit d c)) u = true -> hd_out w x -> hd_out d x ->
  blocked (List.length u + 5) (Seq (Rep lo None (Cls w)) (Cls d)) (u ++ x).
Proof.
  intros Hu Hxw Hxd f p c k Hp Hf. destruct f as [|f]; [lia|]. rewrite m_seq_eq.
  apply (rep_sep_fail2 w d x Hxw Hxd u Hu); [exact Hp | lia|].
  intros p' c' Hh. destruct f as [|f1]; [lia|]. cbn [m]. unfold adv. destruct (p_after p') as [|y l]; [reflexivity|].
  cbn [hd_out] in Hh. rewrite Hh. reflexivity.
Qed.

(* three literal classes in a row fail on a text whose third byte is outside the third class *)
Lemma blocked_3lits c1 c2 c3 rest t1 t2 y :
  hd_out c3 y -> blocked 6 (Seq (Cls c1) (Seq (Cls c2) (Seq (Cls c3) rest))) (t1 :: t2 :: y).
Proof.
  intros Hy. destruct (N.testbit c1 t1) eqn:E1.
  - apply blocked_seq_cls; [exact E1|]. destruct (N.testbit c2 t2) eqn:E2.
    + apply blocked_seq_cls; [exact E2|]. apply (blocked_first (Seq (Cls c3) rest) y); [reflexivity | exact Hy].
    + apply (blocked_mono 2); [|lia]. apply (blocked_first (Seq (Cls c2) (Seq (Cls c3) rest))); [reflexivity | exact E2].
  - apply (blocked_mono 2); [|lia].
    apply (blocked_first (Seq (Cls c1) (Seq (Cls c2) (Seq (Cls c3) rest)))); [reflexivity | exact E1].
Qed.

(* ---- the text classes (the pattern has the flag i) ---- *)
Definition email_local_byte (c : N) : bool := is_word c || (c =? 46)%N || (c =? 37)%N || (c =? 43)%N || (c =? 45)%N.
Definition label_byte (c : N) : bool := is_alnum_ascii c || (c =? 45)%N.
(* the byte after the address: not a word byte (closing word boundary), and none of  . ( = -  (look-ahead of
   the domain part; the other bytes of its class are word bytes) *)
Definition email_stop_byte (b : N) : bool :=
  negb (is_word b || (b =? 46)%N || (b =? 40)%N || (b =? 61)%N || (b =? 45)%N).
Definition email_stop (suf : bytes) : bool := match suf with [] => true | b :: _ => email_stop_byte b end.

Lemma email_local_lt c : email_local_byte c = true -> (c < 256)%N.
Proof.
  unfold email_local_byte. intros H.
  do 4 (apply orb_true_iff in H; destruct H as [H|H]; [|apply N.eqb_eq in H; subst c; reflexivity]).
  apply is_word_lt. exact H.
Qed.

Lemma is_alnum_word c : is_alnum_ascii c = true -> is_word c = true.
Proof.
  unfold is_alnum_ascii, is_alpha_ascii, is_upper_ascii, is_lower_ascii, is_digit_ascii, is_word. intros H.
  apply orb_true_iff in H. destruct H as [H|H]; [apply orb_true_iff in H; destruct H as [H|H]|]; rewrite H;
    rewrite ?orb_true_r; reflexivity.
Qed.

Lemma label_byte_lt c : label_byte c = true -> (c < 256)%N.
Proof.
  unfold label_byte. intros H. apply orb_true_iff in H. destruct H as [H|H].
  - apply is_word_lt, is_alnum_word. exact H.
  - apply N.eqb_eq in H. subst c. reflexivity.
Qed.

Lemma is_alpha_lt c : is_alpha_ascii c = true -> (c < 256)%N.
Proof. intros H. apply is_word_lt, is_alnum_word. unfold is_alnum_ascii. rewrite H. reflexivity. Qed.

(* the domain text: at least one label, each followed by a dot, then the top level domain *)
Definition dotted (labels : list bytes) : bytes := concat (map (fun l => l ++ [46%N]) labels).
Definition labels_ok (labels : list bytes) : bool :=
  match labels with [] => false | _ => forallb (fun l => forallb label_byte l && negb (beqb l [])) labels end.
Definition grp_body (r : re) : re := match r with Grp _ a => a | _ => Emp end.
Definition alt_r (r : re) : re := match r with Alt _ b => b | _ => Emp end.
Definition rep_lo (r : re) : nat := match r with Rep lo _ _ => lo | _ => O end.
Definition rep_hi (r : re) : nat := match r with Rep _ (Some hi) _ => hi | _ => O end.
Definition EMAIL_DOMAIN_RE : re := grp_body (seq_l (seq_r (seq_r (seq_r RE_network_EMAIL_RE)))).
Definition DOMAIN_REST_RE : re := seq_r EMAIL_DOMAIN_RE.
(* the letter repeat of the top level domain (second alternative after the labels) and its bounds, read off the
   regenerated term: the statements below follow the pattern when the bounds are edited *)
Definition TLD_REP_RE : re := alt_r (seq_l (seq_r DOMAIN_REST_RE)).
Definition TLD_MIN : nat := rep_lo TLD_REP_RE.
Definition TLD_MAX : nat := rep_hi TLD_REP_RE.
Definition tld_ok (tld : bytes) : bool :=
  forallb is_alpha_ascii tld && (TLD_MIN <=? List.length tld)%nat && (List.length tld <=? TLD_MAX)%nat.
(* the proofs need two letters at least (the punycode alternative is refuted within its first three bytes) *)
Lemma tld_min_2 : (2 <= TLD_MIN)%nat.
Proof. apply Nat.leb_le. vm_compute. reflexivity. Qed.

Lemma in_concat_length {A} (w : list A) (l : list (list A)) : In w l -> (List.length w <= List.length (concat l))%nat.
Proof.
  induction l as [|x l IH]; [intros []|]. intros [->|H]; cbn [concat]; rewrite app_length; [lia|].
  specialize (IH H). lia.
Qed.

Lemma dotted_cons l ls : dotted (l :: ls) = (l ++ [46%N]) ++ dotted ls.
Proof. reflexivity. Qed.

Lemma dotted_length labels : (List.length labels <= List.length (dotted labels))%nat.
Proof.
  induction labels as [|l ls IH]; [cbn; lia|]. rewrite dotted_cons, !app_length. cbn [List.length]. lia.
Qed.

Ltac em_hd Hs :=
  eapply (hd_out_of_pred _ email_stop_byte); [vm_compute; reflexivity | vm_compute; reflexivity | exact Hs].

(* label dot *)
Lemma label_chunk_runs lab dot l :
  forallb (fun c => implb (label_byte c) (N.testbit lab c)) bytes256 = true ->
  N.testbit lab 46 = false -> N.testbit dot 46 = true ->
  forallb label_byte l = true -> l <> [] ->
  forall x', runs (List.length l + 4) (Seq (Rep 1 None (Cls lab)) (Cls dot)) (l ++ [46%N]) x' cf_id.
Proof.
  intros Hlab Hnd Hdot Hl Hne x'.
  eapply runs_ext; [|eapply runs_mono;
    [ eapply (runs_seq _ _ _ _ l [46%N] x');
      [ apply runs_rep_cls;
        [ apply (Forall_of_pred _ label_byte); [exact label_byte_lt | exact Hlab | exact Hl]
        | cbn [app hd_out]; exact Hnd
        | destruct l; [congruence | cbn [List.length]; lia] ]
      | apply runs_cls; exact Hdot ]
    | lia ]].
  intros i c. reflexivity.
Qed.

Lemma tld_ok_parts tld : tld_ok tld = true ->
  forallb is_alpha_ascii tld = true /\ (TLD_MIN <= List.length tld <= TLD_MAX)%nat.
Proof.
  unfold tld_ok. intros H. apply andb_true_iff in H. destruct H as [H H3]. apply andb_true_iff in H. destruct H as [H1 H2].
  apply Nat.leb_le in H2, H3. split; [exact H1 | lia].
Qed.

(* the part of the domain pattern after its look-behind: the labels (the last attempt of the label loop runs
   over the top level domain and fails for lack of a dot), then the letters of the top level domain (the
   punycode alternative fails within three bytes), then the look-ahead *)
Lemma domain_rest_runs labels tld suf :
  labels_ok labels = true -> tld_ok tld = true -> email_stop suf = true ->
  runs (2 * List.length (dotted labels) + List.length tld + 30) DOMAIN_REST_RE (dotted labels ++ tld) suf cf_id.
Proof.
  intros Hlabels Htld Hstop.
  assert (Hs : match suf with [] => True | b :: _ => email_stop_byte b = true end) by (destruct suf; [exact I | exact Hstop]).
  destruct (tld_ok_parts tld Htld) as [Halpha Hlen]. pose proof tld_min_2 as Hmin.
  pose proof (dotted_length labels) as HL.
  unfold DOMAIN_REST_RE, EMAIL_DOMAIN_RE, RE_network_EMAIL_RE. cbn [seq_l seq_r grp_body].
  eapply runs_ext; [|eapply runs_mono;
    [ eapply (runs_seq _ _ _ _ (dotted labels) tld suf);
      [ unfold dotted;
        eapply (runs_rep_chunks (List.length (dotted labels) + 4) _ _ (tld ++ suf));
        [ eapply blocked_run_sep;
          [ rewrite forallb_forall in Halpha |- *; intros c Hc; apply negb_true_iff;
            eapply (hd_out_mask_ok _ (fun c => negb (is_alpha_ascii c)));
            [vm_compute; reflexivity | vm_compute; reflexivity | rewrite (Halpha c Hc); reflexivity]
          | em_hd Hs | em_hd Hs ]
        | apply Forall_forall; intros w Hw; apply in_map_iff in Hw; destruct Hw as (l & <- & Hl);
          assert (Hl2 : forallb label_byte l = true /\ l <> []);
          [ destruct labels as [|l0 ls]; [discriminate Hlabels|]; unfold labels_ok in Hlabels;
            rewrite forallb_forall in Hlabels; specialize (Hlabels l Hl); apply andb_true_iff in Hlabels;
            destruct Hlabels as [Ha Hb]; split; [exact Ha | apply negb_true_iff, beqb_neq in Hb; exact Hb]
          | destruct Hl2 as [Ha Hb]; split; [destruct l; [congruence | discriminate]|]; intros x';
            eapply runs_mono;
            [ apply label_chunk_runs; [vm_compute; reflexivity | vm_compute; reflexivity | vm_compute; reflexivity | exact Ha | exact Hb]
            | assert (Hin : In (l ++ [46%N]) (map (fun l => l ++ [46%N]) labels)) by (exact (in_map (fun l => l ++ [46%N]) labels l Hl));
              apply in_concat_length in Hin; fold (dotted labels) in Hin; rewrite app_length in Hin; lia ] ]
        | rewrite map_length; destruct labels; [discriminate Hlabels | cbn [List.length]; lia] ]
      | eapply runs_seq_end;
        [ eapply runs_alt_r;
          [ destruct tld as [|t1 [|t2 tl]]; [cbn [List.length] in Hlen; lia | cbn [List.length] in Hlen; lia |]; clear Hlen;
            cbn [app]; apply blocked_3lits;
            destruct tl as [|t3 tl];
            [ cbn [app]; em_hd Hs
            | cbn [app hd_out]; cbn [forallb] in Halpha;
              apply andb_true_iff in Halpha; destruct Halpha as [_ Halpha];
              apply andb_true_iff in Halpha; destruct Halpha as [_ Halpha];
              apply andb_true_iff in Halpha; destruct Halpha as [Ht3 _];
              eapply (hd_out_mask_ok _ (fun c => negb (is_alpha_ascii c)));
              [vm_compute; reflexivity | vm_compute; reflexivity | rewrite Ht3; reflexivity] ]
          | apply runs_rep_cls_hi;
            [ apply (Forall_of_pred _ is_alpha_ascii); [exact is_alpha_lt | vm_compute; reflexivity | exact Halpha]
            | exact Hlen | right; em_hd Hs ] ]
        | apply runs_lookahead; em_hd Hs ] ]
    | rewrite map_length; unfold bytes in HL |- *; lia ]].
  intros i c. reflexivity.
Qed.

Lemma word_at_rev_end X t bf : forallb is_word t = true -> t <> [] -> word_at (rev (X ++ t) ++ bf) = true.
Proof.
  intros HF Hne. rewrite rev_app_distr, <- app_assoc.
  destruct (rev_last_hd t 0%N Hne) as [tl E]. rewrite E. cbn [app word_at].
  rewrite forallb_forall in HF. apply HF. apply in_rev. rewrite E. left. reflexivity.
Qed.

Lemma email_stop_word_at suf : email_stop suf = true -> word_at suf = false.
Proof.
  destruct suf as [|b suf]; [reflexivity|]. cbn [email_stop word_at]. unfold email_stop_byte. intros H.
  apply negb_true_iff in H. do 4 (apply orb_false_iff in H; destruct H as [H _]). exact H.
Qed.

Definition email_form (local labels_tld : bytes) : bytes := local ++ [64%N] ++ labels_tld.

(* the whole pattern *)
Lemma email_runs local labels tld suf :
  forallb email_local_byte local = true -> (3 <= List.length local)%nat -> is_word (hd 0%N local) = true ->
  labels_ok labels = true -> tld_ok tld = true -> email_stop suf = true ->
  runsB (fun bf => word_at bf = false)
        (List.length local + 2 * List.length (dotted labels) + List.length tld + 50)
        RE_network_EMAIL_RE (email_form local (dotted labels ++ tld)) suf
        (fun i c => (1%nat, (i + Z.of_nat (List.length local) + 1,
                             i + Z.of_nat (List.length local) + 1 + Z.of_nat (List.length (dotted labels ++ tld)))) :: c).
Proof.
  intros Hloc Hl3 Hhd Hlabels Htld Hstop.
  destruct (tld_ok_parts tld Htld) as [Halpha Hlen]. pose proof tld_min_2 as Hmin.
  assert (Hw : forallb is_word tld = true).
  { rewrite forallb_forall in Halpha |- *. intros c Hc. apply is_alnum_word. unfold is_alnum_ascii.
    rewrite (Halpha c Hc). reflexivity. }
  assert (Htne : tld <> []) by (destruct tld; [cbn [List.length] in Hlen; lia | discriminate]).
  assert (ED : seq_r (grp_body (seq_l (seq_r (seq_r (seq_r RE_network_EMAIL_RE))))) = DOMAIN_REST_RE) by reflexivity.
  unfold RE_network_EMAIL_RE in ED |- *. cbn [seq_l seq_r grp_body] in ED. rewrite ED. unfold email_form.
  eapply runsB_ext; [|eapply runsB_mono;
    [ eapply runsB_seq_skip;
      [ eapply (runsB_weaken (wordb_at _)); [|apply runsB_wordb];
        intros bf Hbf; unfold wordb_at; rewrite Hbf;
        destruct local as [|l0 local']; [cbn [List.length] in Hl3; lia|]; cbn [app word_at hd] in Hhd |- *;
        rewrite Hhd; reflexivity
      | eapply (runsB_seq _ anyB _ _ _ _ local ([64%N] ++ dotted labels ++ tld) suf);
        [ apply runsB_of_runs; apply runs_rep_cls;
          [ apply (Forall_of_pred _ email_local_byte); [exact email_local_lt | vm_compute; reflexivity | exact Hloc]
          | cbn [app hd_out]; vm_compute; reflexivity
          | exact Hl3 ]
        | eapply (runsB_seq anyB (hd_out _) _ _ _ _ [64%N] (dotted labels ++ tld) suf);
          [ apply runsB_of_runs; apply runs_cls; vm_compute; reflexivity
          | eapply (runsB_seq_end (hd_out _) (wordb_at suf));
            [ apply runsB_grp; eapply runsB_seq_skip;
              [ apply runsB_lookbehind
              | apply runsB_of_runs; apply domain_rest_runs; [exact Hlabels | exact Htld | exact Hstop] ]
            | apply runsB_wordb
            | intros bf _; unfold wordb_at;
              rewrite (word_at_rev_end (dotted labels) tld bf Hw Htne), (email_stop_word_at suf Hstop); reflexivity ]
          | intros bf _; cbn [rev app hd_out]; vm_compute; reflexivity ]
        | intros bf _; exact I ] ]
    | lia ]].
  intros i c. cbv beta. unfold cf_id. cbn [List.length]. change (Z.of_nat 1) with 1. reflexivity.
Qed.

(* ---- the Python after finditer ---- *)
Lemma dotted_name labels : labels_ok labels = true -> exists name, dotted labels = name ++ [46%N] /\ name <> [].
Proof.
  intros H. destruct labels as [|l0 ls]; [discriminate H|].
  destruct (@exists_last _ (l0 :: ls) ltac:(discriminate)) as (ini & l & E). rewrite E in H |- *.
  assert (Hl : l <> []).
  { destruct (ini ++ [l]) as [|x y] eqn:E2; [destruct ini; discriminate E2|]. rewrite <- E2 in H. unfold labels_ok in H.
    rewrite E2 in H at 1. rewrite forallb_forall in H. specialize (H l ltac:(apply in_or_app; right; left; reflexivity)).
    apply andb_true_iff in H. destruct H as [_ H]. apply negb_true_iff, beqb_neq in H. exact H. }
  exists (dotted ini ++ l). split.
  - unfold dotted. rewrite map_app, concat_app. cbn [map concat]. rewrite app_nil_r, app_assoc. reflexivity.
  - destruct (dotted ini); [exact Hl | discriminate].
Qed.

Lemma find_emails_post_starts tlds data lo : forall ms out,
  Forall (fun mt => lo <= m_start mt 0) ms -> find_emails_post tlds data ms = Ok out ->
  Forall (fun nd => lo <= n_st nd) out.
Proof.
  unfold find_emails_post. induction ms as [|mt ms IH]; intros out HF H; cbn [collect] in H.
  - injection H as <-. constructor.
  - inversion HF as [|? ? Hm HF']; subst.
    destruct (find_emails_one tlds data mt) as [o| |] eqn:E1; cbn [bind] in H; try discriminate H.
    destruct (collect (find_emails_one tlds data) ms) as [out'| |]; cbn [bind] in H; try discriminate H.
    injection H as <-. destruct o as [n|]; [|apply IH; [exact HF' | reflexivity]].
    constructor; [|apply IH; [exact HF' | reflexivity]].
    unfold find_emails_one in E1. destruct (is_domain tlds _); [|discriminate E1].
    injection E1 as <-. cbn [match_to_hit n_st]. exact Hm.
Qed.

(* ---- the round trip: local part of at least three bytes of the class that begins with a word byte, labels over
   letters digits hyphen, a top level domain of TLD_MIN to TLD_MAX letters that is in the table ---- *)
Theorem find_emails_roundtrip_quiet tlds pre local labels tld suf :
  forallb email_local_byte local = true -> (3 <= List.length local)%nat -> is_word (hd 0%N local) = true ->
  labels_ok labels = true -> tld_ok tld = true -> In (upper tld) tlds ->
  word_at (rev pre) = false -> email_stop suf = true ->
  (List.length local + 2 * List.length (dotted labels) + List.length tld + 64 <= default_fuel)%nat ->
  let form := email_form local (dotted labels ++ tld) in
  let data := pre ++ form ++ suf in
  quiet default_fuel RE_network_EMAIL_RE (List.length pre) (start_pos data) ->
  find_emails tlds data = Hang \/
  exists rest, find_emails tlds data
               = Ok (Node (L"network.email") form [] (blen pre) (blen pre + blen form) [] :: rest) /\
               Forall (fun nd => blen pre + blen form <= n_st nd) rest.
Proof.
  intros Hloc Hl3 Hhd Hlabels Htld Hin Hpre Hstop Hfuel form data Hq.
  pose proof (email_runs local labels tld suf Hloc Hl3 Hhd Hlabels Htld Hstop) as R. fold form in R.
  assert (Hne : form <> []) by (unfold form, email_form; destruct local; discriminate).
  destruct (fi_formB _ RE_network_EMAIL_RE NG_network_EMAIL_RE pre form suf _ _ Hq R Hpre ltac:(lia) Hne)
    as [H | (rest & Hfi & Hrest)].
  { left. unfold find_emails. fold data in H. rewrite H. reflexivity. }
  fold data in Hfi.
  set (s := blen pre) in *. set (e := s + blen form) in *.
  set (dom := dotted labels ++ tld) in *.
  set (g1 := (s + Z.of_nat (List.length local) + 1, s + Z.of_nat (List.length local) + 1 + Z.of_nat (List.length dom))) in *.
  destruct (mk_mtch_g1 NG_network_EMAIL_RE s e g1 [] ltac:(apply le_n)) as [N0 N1].
  set (mt := mk_mtch NG_network_EMAIL_RE s e [(1%nat, g1)]) in *.
  assert (Eg0 : group data mt 0 = form) by (unfold group; rewrite N0; unfold e, s, data; apply slice_mid).
  assert (Eg1 : group data mt 1 = dom).
  { unfold group. rewrite N1. unfold g1, s.
    replace data with ((pre ++ local ++ [64%N]) ++ dom ++ suf)
      by (unfold data, form, email_form; rewrite <- !app_assoc; reflexivity).
    replace (blen pre + Z.of_nat (List.length local) + 1) with (blen (pre ++ local ++ [64%N]))
      by (unfold blen; rewrite !app_length; cbn [List.length]; lia).
    apply slice_mid. }
  assert (Hdom : is_domain tlds dom = true).
  { destruct (dotted_name labels Hlabels) as (name & En & Hnn). unfold dom. rewrite En, <- app_assoc.
    apply is_domain_complete; [exact Hnn | exact Hin |].
    intros Hd. destruct (tld_ok_parts tld Htld) as [Halpha _]. rewrite forallb_forall in Halpha.
    specialize (Halpha _ Hd). vm_compute in Halpha. discriminate Halpha. }
  assert (Eone : find_emails_one tlds data mt = Ok (Some (Node (L"network.email") form [] s e []))).
  { unfold find_emails_one. rewrite Eg1, Hdom. unfold match_to_hit. rewrite Eg0. unfold m_start, m_end, span.
    rewrite N0. reflexivity. }
  unfold find_emails. rewrite Hfi. cbn [bind]. unfold find_emails_post. cbn [collect]. rewrite Eone. cbn [bind].
  destruct (find_emails_post_total tlds data rest) as [out Hout]. unfold find_emails_post in Hout. rewrite Hout.
  cbn [bind]. right. exists out. split; [reflexivity|].
  apply (find_emails_post_starts tlds data e rest out Hrest Hout).
Qed.

(* decidable form: the prefix contains no at sign and does not end with a byte of the local-part class *)
Theorem find_emails_roundtrip tlds pre local labels tld suf :
  forallb email_local_byte local = true -> (3 <= List.length local)%nat -> is_word (hd 0%N local) = true ->
  labels_ok labels = true -> tld_ok tld = true -> In (upper tld) tlds ->
  sep_free RE_network_EMAIL_RE pre = true -> email_stop suf = true ->
  (List.length pre + List.length local + 2 * List.length (dotted labels) + List.length tld + 64 <= default_fuel)%nat ->
  let form := email_form local (dotted labels ++ tld) in
  let data := pre ++ form ++ suf in
  find_emails tlds data = Hang \/
  exists rest, find_emails tlds data
               = Ok (Node (L"network.email") form [] (blen pre) (blen pre + blen form) [] :: rest) /\
               Forall (fun nd => blen pre + blen form <= n_st nd) rest.
Proof.
  intros Hloc Hl3 Hhd Hlabels Htld Hin Hpre Hstop Hfuel form data.
  apply find_emails_roundtrip_quiet; try assumption.
  - apply (sep_free_word_before RE_network_EMAIL_RE); [vm_compute; reflexivity | exact Hpre].
  - lia.
  - apply quiet_sep_free; [reflexivity | exact Hpre | lia].
Qed.

(* ------------------------------------------------------------------ *)
(* 7.  Examples: non-vacuity, the tie with Python, the side conditions   *)
(* ------------------------------------------------------------------ *)
(* Expected values = what /venv/bin/python prints for the same bytes with multidecoder.decoders.network.find_ips /
   find_emails and multidecoder.decoders.filename.find_executable_name / find_library. *)

(* ---- find_ips ---- *)
Example rt3_shapes :
  startable_tail RE_network_IP_RE = true /\ sep_shape RE_filename_EXECUTABLE_RE = true /\
  sep_shape RE_filename_LIBRARY_RE = true /\ sep_shape RE_network_EMAIL_RE = true /\
  startable_tail RE_filename_EXECUTABLE_RE = true /\ startable_tail RE_network_EMAIL_RE = true /\
  map lb_width [RE_network_IP_RE; RE_filename_EXECUTABLE_RE; RE_filename_LIBRARY_RE; RE_network_EMAIL_RE] = [1; 1; 1; 1]%nat.
Proof. vm_compute. repeat split; reflexivity. Qed.

Example rt3_ip_hyps :
  canonical_quad (L"10.1.2.3") = true /\ endswith (L"10.1.2.3") (L".0") = false /\ endswith (L"10.1.2.3") (L".255") = false /\
  ip_abut_ok (L"host ") = true /\ ip_stop (L", x") = true /\ ip_context (L"host ") 5 = Ok false /\
  neutral_tail RE_network_IP_RE (L"host ") = true.
Proof. vm_compute. repeat split; reflexivity. Qed.
Example rt3_ip_run :
  find_ips (L"host " ++ L"10.1.2.3" ++ L", x") = Ok [Node (L"network.ip") (L"10.1.2.3") [] 5 13 []].
Proof. vm_compute. reflexivity. Qed.
(* the theorem applied: the first node, whatever the scan of the suffix gives *)
Example rt3_ip_thm :
  find_ips (L"host " ++ L"10.1.2.3" ++ L", x") = Hang \/
  exists rest, find_ips (L"host " ++ L"10.1.2.3" ++ L", x") = Ok (Node (L"network.ip") (L"10.1.2.3") [] 5 13 [] :: rest) /\
               Forall (fun nd => 13 <= n_st nd) rest.
Proof. apply (find_ips_roundtrip (L"host ") (L"10.1.2.3") (L", x")); vm_compute; reflexivity. Qed.
(* an octet 0 in the middle (star over zeros gives the byte back), three-digit octets, brackets, end of text *)
Example rt3_ip_run2 :
  find_ips (L"gw (" ++ L"192.168.0.254" ++ L")") = Ok [Node (L"network.ip") (L"192.168.0.254") [] 4 17 []] /\
  find_ips (L"dns=" ++ L"1.0.0.1" ++ L"") = Ok [Node (L"network.ip") (L"1.0.0.1") [] 4 11 []].
Proof. vm_compute. split; reflexivity. Qed.
(* bytes above 127 are neutral neighbours; a second address in the suffix comes after *)
Example rt3_ip_run3 :
  ip_abut_ok [233%N] = true /\ ip_stop [233%N] = true /\
  find_ips ([233%N] ++ L"10.1.2.3" ++ [233%N]) = Ok [Node (L"network.ip") (L"10.1.2.3") [] 1 9 []] /\
  find_ips (L"see " ++ L"10.1.2.3" ++ L" and 4.5.6.7 ")
  = Ok [Node (L"network.ip") (L"10.1.2.3") [] 4 12 []; Node (L"network.ip") (L"4.5.6.7") [] 17 24 []].
Proof. vm_compute. repeat split; reflexivity. Qed.
(* the neutrality criterion (no digit in the prefix) is sufficient, not necessary: this prefix is quiet *)
Example rt3_ip_quiet_digit :
  neutral_tail RE_network_IP_RE (L"v1 ") = false /\
  quiet default_fuel RE_network_IP_RE 3 (start_pos (L"v1 " ++ L"10.1.2.3" ++ L" ")) /\
  find_ips (L"v1 " ++ L"10.1.2.3" ++ L" ") = Ok [Node (L"network.ip") (L"10.1.2.3") [] 3 11 []].
Proof. split; [vm_compute; reflexivity|]. split; [|vm_compute; reflexivity]. cbn [quiet]. repeat split; vm_compute; reflexivity. Qed.

(* SIDE CONDITIONS of find_ips (all agree with Python) *)
(* the byte before: a digit extends the token (another address is reported, from offset 0) ... *)
Example rt3_side_ip_pre_digit :
  ip_abut_ok (L"1") = false /\ find_ips (L"1" ++ L"10.1.2.3") = Ok [Node (L"network.ip") (L"110.1.2.3") [] 0 9 []].
Proof. vm_compute. split; reflexivity. Qed.
(* ... a dot, a hyphen, an underscore or a letter before hides the address *)
Example rt3_side_ip_pre_abut :
  map ip_abut_ok [L"x."; L"ip-"; L"_"; L"v"] = [false; false; false; false] /\
  find_ips (L"x." ++ L"10.1.2.3" ++ L" ") = Ok [] /\ find_ips (L"ip-" ++ L"10.1.2.3" ++ L" ") = Ok [] /\
  find_ips (L"_" ++ L"10.1.2.3") = Ok [] /\ find_ips (L"v" ++ L"10.1.2.3") = Ok [].
Proof. vm_compute. repeat split; reflexivity. Qed.
(* the byte after: a full stop (the address ends a sentence), a hyphen or a word byte hides the address *)
Example rt3_side_ip_suf :
  map ip_stop [L"."; L"-a"; L"x"; L"_"] = [false; false; false; false] /\
  find_ips (L"connect to " ++ L"10.1.2.3" ++ L".") = Ok [] /\ find_ips (L"10.1.2.3" ++ L"-a") = Ok [] /\
  find_ips (L"10.1.2.3" ++ L"x") = Ok [] /\ find_ips (L"10.1.2.3" ++ L"_") = Ok [].
Proof. vm_compute. repeat split; reflexivity. Qed.
(* the filters of find_ips itself: network / broadcast endings and 0.0.0.0 ... *)
Example rt3_side_ip_endings :
  endswith (L"10.1.2.0") (L".0") = true /\ endswith (L"10.1.2.255") (L".255") = true /\
  find_ips (L"a " ++ L"10.1.2.0" ++ L" ") = Ok [] /\ find_ips (L"a " ++ L"10.1.2.255" ++ L" ") = Ok [] /\
  find_ips (L"a " ++ L"0.0.0.0" ++ L" ") = Ok [].
Proof. vm_compute. repeat split; reflexivity. Qed.
(* ... and the three context filters: the word version within ten bytes, the word section, an XML text tag *)
Example rt3_side_ip_context :
  ip_context (L"version ") 8 = Ok true /\ ip_context (L"Version=" ++ [34%N]) 9 = Ok true /\
  ip_context (L"section ") 8 = Ok true /\ ip_context (L"<t> ") 4 = Ok true /\ ip_context (L"<w:t>") 5 = Ok true /\
  find_ips (L"version " ++ L"10.1.2.3") = Ok [] /\ find_ips (L"Version=" ++ [34%N] ++ L"10.1.2.3") = Ok [] /\
  find_ips (L"section " ++ L"10.1.2.3") = Ok [] /\ find_ips (L"<t> " ++ L"10.1.2.3") = Ok [] /\
  find_ips (L"<w:t>" ++ L"1.2.3.4") = Ok [].
Proof. vm_compute. repeat split; reflexivity. Qed.
(* the word version further than ten bytes before does not count *)
Example rt3_ip_version_far :
  ip_context (L"ersion " ++ [0%N] ++ L" " ++ [9%N] ++ L"=" ++ [34%N]) 12 = Ok false /\
  find_ips ((L"ersion " ++ [0%N] ++ L" " ++ [9%N] ++ L"=" ++ [34%N]) ++ L"10.1.2.3")
  = Ok [Node (L"network.ip") (L"10.1.2.3") [] 12 20 []].
Proof. vm_compute. split; reflexivity. Qed.

(* ---- find_executable_name / find_library ---- *)
Ltac small_fuel3 := apply (Nat.le_trans _ 1000); [apply Nat.leb_le; vm_compute; reflexivity | exact fuel_1000].

Example rt3_exe_hyps :
  forallb is_word (L"cmd") = true /\ lower (L"eXE") = L"exe" /\
  sep_free RE_filename_EXECUTABLE_RE (L"run ") = true /\ word_at (L" now") = false /\
  file_form (L"cmd") (L"eXE") = L"cmd.eXE".
Proof. vm_compute. repeat split; reflexivity. Qed.
Example rt3_exe_run :
  find_executable_name (L"run " ++ file_form (L"cmd") (L"eXE") ++ L" now")
  = Ok [Node (L"executable.filename") (L"cmd.eXE") [] 4 11 []].
Proof. vm_compute. reflexivity. Qed.
Example rt3_exe_thm :
  find_executable_name (L"run " ++ file_form (L"cmd") (L"eXE") ++ L" now") = Hang \/
  exists rest, find_executable_name (L"run " ++ file_form (L"cmd") (L"eXE") ++ L" now")
               = Ok (Node (L"executable.filename") (L"cmd.eXE") [] 4 11 [] :: rest) /\ Forall (fun nd => 11 <= n_st nd) rest.
Proof.
  apply (find_executable_name_roundtrip (L"run ") (L"cmd") (L"eXE") (L" now"));
    [vm_compute; reflexivity | discriminate | reflexivity | vm_compute; reflexivity | reflexivity | small_fuel3].
Qed.
(* a full stop, a hyphen, a byte above 127 are not word bytes: they delimit the name on either side *)
Example rt3_exe_run2 :
  find_executable_name (L"run " ++ file_form (L"Cmd") (L"EXE") ++ L".") = Ok [Node (L"executable.filename") (L"Cmd.EXE") [] 4 11 []] /\
  find_executable_name (L"-" ++ file_form (L"cmd") (L"exe") ++ L"-") = Ok [Node (L"executable.filename") (L"cmd.exe") [] 1 8 []] /\
  find_executable_name ([233%N] ++ file_form (L"cmd") (L"exe") ++ [233%N]) = Ok [Node (L"executable.filename") (L"cmd.exe") [] 1 8 []].
Proof. vm_compute. repeat split; reflexivity. Qed.
(* a prefix with a dot is not separator-free, but it is quiet when no name.exe starts in it *)
Example rt3_exe_quiet_dot :
  sep_free RE_filename_EXECUTABLE_RE (L"a.") = false /\
  quiet default_fuel RE_filename_EXECUTABLE_RE 2 (start_pos (L"a." ++ file_form (L"cmd") (L"exe"))) /\
  find_executable_name (L"a." ++ file_form (L"cmd") (L"exe")) = Ok [Node (L"executable.filename") (L"cmd.exe") [] 2 9 []].
Proof. split; [vm_compute; reflexivity|]. split; [|vm_compute; reflexivity]. cbn [quiet]. repeat split; vm_compute; reflexivity. Qed.
Example rt3_dll_hyps :
  forallb is_word (L"KERNEL32") = true /\ lower (L"dll") = L"dll" /\
  sep_free RE_filename_LIBRARY_RE (L"load ") = true /\ word_at (L"!") = false.
Proof. vm_compute. repeat split; reflexivity. Qed.
Example rt3_dll_run :
  find_library (L"load " ++ file_form (L"KERNEL32") (L"dll") ++ L"!")
  = Ok [Node (L"executable.library.filename") (L"KERNEL32.dll") [] 5 17 []] /\
  find_library (file_form (L"a") (L"Dll")) = Ok [Node (L"executable.library.filename") (L"a.Dll") [] 0 5 []].
Proof. vm_compute. split; reflexivity. Qed.
Example rt3_dll_thm :
  find_library (L"load " ++ file_form (L"KERNEL32") (L"dll") ++ L"!") = Hang \/
  exists rest, find_library (L"load " ++ file_form (L"KERNEL32") (L"dll") ++ L"!")
               = Ok (Node (L"executable.library.filename") (L"KERNEL32.dll") [] 5 17 [] :: rest) /\ Forall (fun nd => 17 <= n_st nd) rest.
Proof.
  apply (find_library_roundtrip (L"load ") (L"KERNEL32") (L"dll") (L"!"));
    [vm_compute; reflexivity | discriminate | reflexivity | vm_compute; reflexivity | reflexivity | small_fuel3].
Qed.
(* SIDE CONDITIONS: a word byte before extends the name (the node starts earlier) ... *)
Example rt3_side_exe_pre :
  word_at (rev (L"x")) = true /\
  find_executable_name (L"x" ++ file_form (L"cmd") (L"exe")) = Ok [Node (L"executable.filename") (L"xcmd.exe") [] 0 8 []].
Proof. vm_compute. split; reflexivity. Qed.
(* ... a word byte after (a digit, an underscore) hides it ... *)
Example rt3_side_exe_suf :
  word_at (L"1") = true /\ word_at (L"_") = true /\
  find_executable_name (file_form (L"cmd") (L"exe") ++ L"1") = Ok [] /\
  find_executable_name (file_form (L"cmd") (L"exe") ++ L"_") = Ok [].
Proof. vm_compute. repeat split; reflexivity. Qed.
(* ... and a complete name.exe inside the prefix comes first (the prefix must be quiet) *)
Example rt3_side_exe_prefix :
  find_executable_name (L"a.exe " ++ file_form (L"cmd") (L"exe"))
  = Ok [Node (L"executable.filename") (L"a.exe") [] 0 5 []; Node (L"executable.filename") (L"cmd.exe") [] 6 13 []].
Proof. vm_compute. reflexivity. Qed.

(* ---- find_emails (with the regenerated table of top level domains) ---- *)
Lemma tld_in_table t : mem t TOP_LEVEL_DOMAINS = true -> In t TOP_LEVEL_DOMAINS.
Proof. apply mem_in. Qed.

Example rt3_email_hyps :
  forallb email_local_byte (L"joe.doe+tag") = true /\ is_word (hd 0%N (L"joe.doe+tag")) = true /\
  labels_ok [L"mail"; L"example"] = true /\ tld_ok (L"org") = true /\ mem (upper (L"org")) TOP_LEVEL_DOMAINS = true /\
  sep_free RE_network_EMAIL_RE (L"x ") = true /\ email_stop (L",") = true /\
  email_form (L"joe.doe+tag") (dotted [L"mail"; L"example"] ++ L"org") = L"joe.doe+tag@mail.example.org".
Proof. vm_compute. repeat split; reflexivity. Qed.
Example rt3_email_run :
  find_emails TOP_LEVEL_DOMAINS (L"x " ++ email_form (L"joe.doe+tag") (dotted [L"mail"; L"example"] ++ L"org") ++ L",")
  = Ok [Node (L"network.email") (L"joe.doe+tag@mail.example.org") [] 2 30 []].
Proof. vm_compute. reflexivity. Qed.
Example rt3_email_thm :
  let data := L"x " ++ email_form (L"joe.doe+tag") (dotted [L"mail"; L"example"] ++ L"org") ++ L"," in
  find_emails TOP_LEVEL_DOMAINS data = Hang \/
  exists rest, find_emails TOP_LEVEL_DOMAINS data
               = Ok (Node (L"network.email") (L"joe.doe+tag@mail.example.org") [] 2 30 [] :: rest) /\
               Forall (fun nd => 30 <= n_st nd) rest.
Proof.
  apply (find_emails_roundtrip TOP_LEVEL_DOMAINS (L"x ") (L"joe.doe+tag") [L"mail"; L"example"] (L"org") (L","));
    [ vm_compute; reflexivity | apply Nat.leb_le; vm_compute; reflexivity | vm_compute; reflexivity | vm_compute; reflexivity
    | vm_compute; reflexivity | apply tld_in_table; vm_compute; reflexivity | vm_compute; reflexivity
    | vm_compute; reflexivity | small_fuel3 ].
Qed.
(* letter case, a hyphen in a label, a long top level domain, a byte above 127 after; a second address after *)
Example rt3_email_run2 :
  find_emails TOP_LEVEL_DOMAINS (L"to: " ++ email_form (L"Joe_99") (dotted [L"Mail"; L"Example"] ++ L"COM") ++ L";")
  = Ok [Node (L"network.email") (L"Joe_99@Mail.Example.COM") [] 4 27 []] /\
  find_emails TOP_LEVEL_DOMAINS (email_form (L"joe") (dotted [L"x-y"; L"example"] ++ L"museum") ++ [233%N])
  = Ok [Node (L"network.email") (L"joe@x-y.example.museum") [] 0 22 []] /\
  find_emails TOP_LEVEL_DOMAINS (L"mail " ++ email_form (L"joe") (dotted [L"example"] ++ L"com") ++ L" now bob@site.org")
  = Ok [Node (L"network.email") (L"joe@example.com") [] 5 20 []; Node (L"network.email") (L"bob@site.org") [] 25 37 []].
Proof. vm_compute. repeat split; reflexivity. Qed.
(* an at sign in the prefix: not separator-free, but quiet *)
Example rt3_email_quiet_at :
  sep_free RE_network_EMAIL_RE (L"a@b ") = false /\
  quiet default_fuel RE_network_EMAIL_RE 4 (start_pos (L"a@b " ++ email_form (L"joe") (dotted [L"example"] ++ L"com"))) /\
  find_emails TOP_LEVEL_DOMAINS (L"a@b " ++ email_form (L"joe") (dotted [L"example"] ++ L"com"))
  = Ok [Node (L"network.email") (L"joe@example.com") [] 4 19 []].
Proof. split; [vm_compute; reflexivity|]. split; [|vm_compute; reflexivity]. cbn [quiet]. repeat split; vm_compute; reflexivity. Qed.
(* SIDE CONDITIONS of find_emails *)
(* the byte after: a full stop (the address ends a sentence), a hyphen, a parenthesis, an equals sign, a digit
   or any other word byte hides the address *)
Example rt3_side_email_suf :
  map email_stop [L"."; L"-"; L"("; L"="; L"0"; L"x"; L"_"] = [false; false; false; false; false; false; false] /\
  map (fun suf => find_emails TOP_LEVEL_DOMAINS (email_form (L"joe") (dotted [L"example"] ++ L"com") ++ suf))
      [L"."; L"-"; L"("; L"="; L"0"; L"x"; L"_"] = [Ok []; Ok []; Ok []; Ok []; Ok []; Ok []; Ok []].
Proof. vm_compute. split; reflexivity. Qed.
(* the local part: three bytes at least ... *)
Example rt3_side_email_short :
  find_emails TOP_LEVEL_DOMAINS (email_form (L"ab") (dotted [L"example"] ++ L"com")) = Ok [].
Proof. vm_compute. reflexivity. Qed.
(* ... and it must begin with a word byte: a leading sign of the class is cut off by the word boundary *)
Example rt3_side_email_local_hd :
  is_word (hd 0%N (L"+joe")) = false /\
  find_emails TOP_LEVEL_DOMAINS (L" " ++ email_form (L"+joe") (dotted [L"example"] ++ L"com") ++ L" ")
  = Ok [Node (L"network.email") (L"joe@example.com") [] 2 17 []].
Proof. vm_compute. split; reflexivity. Qed.
(* the top level domain: in the table ... *)
Example rt3_side_email_tld :
  mem (upper (L"zzzz")) TOP_LEVEL_DOMAINS = false /\
  find_emails TOP_LEVEL_DOMAINS (email_form (L"joe") (dotted [L"example"] ++ L"zzzz") ++ L" ") = Ok [].
Proof. vm_compute. split; reflexivity. Qed.
(* ... and its length within the bounds of the pattern.  Every purely alphabetic name of the regenerated table is
   within the bounds (with the earlier upper bound of 12 letters, 14 names of 13 to 18 letters were out of reach:
   fixed in the source), so addresses under the longest names are reported *)
Example rt3_table_tlds_fit :
  forallb (fun t => implb (forallb is_alpha_ascii t) (tld_ok t)) TOP_LEVEL_DOMAINS = true /\
  List.length (filter (fun t => (12 <? List.length t)%nat && forallb is_alpha_ascii t) TOP_LEVEL_DOMAINS) = 14%nat.
Proof. vm_compute. split; reflexivity. Qed.
Example rt3_email_long_tld :
  mem (upper (L"travelersinsurance")) TOP_LEVEL_DOMAINS = true /\ tld_ok (L"travelersinsurance") = true /\
  tld_ok (L"NorthWesternMutual") = true /\ tld_ok (L"international") = true /\
  find_emails TOP_LEVEL_DOMAINS (L"mail " ++ email_form (L"joe") (dotted [L"example"] ++ L"travelersinsurance") ++ L" now")
  = Ok [Node (L"network.email") (L"joe@example.travelersinsurance") [] 5 35 []] /\
  find_emails TOP_LEVEL_DOMAINS (L"mail " ++ email_form (L"joe") (dotted [L"example"] ++ L"international") ++ L" now")
  = Ok [Node (L"network.email") (L"joe@example.international") [] 5 30 []] /\
  find_emails TOP_LEVEL_DOMAINS (L"x " ++ email_form (L"joe") (dotted [L"example"] ++ L"NorthWesternMutual") ++ L";")
  = Ok [Node (L"network.email") (L"joe@example.NorthWesternMutual") [] 2 32 []].
Proof. vm_compute. repeat split; reflexivity. Qed.
(* SIDE CONDITION: beyond the upper bound of the pattern nothing is matched, even with the name added to the table (upper
   case, as the table is); at the bound it is *)
Example rt3_side_email_tld_too_long :
  tld_ok (repeat 97%N (S TLD_MAX)) = false /\
  find_emails (repeat 65%N (S TLD_MAX) :: repeat 65%N TLD_MAX :: TOP_LEVEL_DOMAINS)
    (email_form (L"joe") (dotted [L"example"] ++ repeat 97%N (S TLD_MAX)) ++ L" ") = Ok [] /\
  tld_ok (repeat 97%N TLD_MAX) = true /\
  find_emails (repeat 65%N (S TLD_MAX) :: repeat 65%N TLD_MAX :: TOP_LEVEL_DOMAINS)
    (email_form (L"joe") (dotted [L"example"] ++ repeat 97%N TLD_MAX) ++ L" ")
  = Ok [Node (L"network.email") (email_form (L"joe") (dotted [L"example"] ++ repeat 97%N TLD_MAX)) [] 0
             (blen (email_form (L"joe") (dotted [L"example"] ++ repeat 97%N TLD_MAX))) []].
Proof. vm_compute. repeat split; reflexivity. Qed.
(* a word byte before extends the local part *)
Example rt3_side_email_pre :
  find_emails TOP_LEVEL_DOMAINS (L"x" ++ email_form (L"joe") (dotted [L"example"] ++ L"com"))
  = Ok [Node (L"network.email") (L"xjoe@example.com") [] 0 16 []].
Proof. vm_compute. reflexivity. Qed.

(* the e-mail round trip with the regenerated table, the membership being a computation *)
Corollary find_emails_roundtrip_table pre local labels tld suf :
  forallb email_local_byte local = true -> (3 <= List.length local)%nat -> is_word (hd 0%N local) = true ->
  labels_ok labels = true -> tld_ok tld = true -> mem (upper tld) TOP_LEVEL_DOMAINS = true ->
  sep_free RE_network_EMAIL_RE pre = true -> email_stop suf = true ->
  (List.length pre + List.length local + 2 * List.length (dotted labels) + List.length tld + 64 <= default_fuel)%nat ->
  let form := email_form local (dotted labels ++ tld) in
  let data := pre ++ form ++ suf in
  find_emails TOP_LEVEL_DOMAINS data = Hang \/
  exists rest, find_emails TOP_LEVEL_DOMAINS data
               = Ok (Node (L"network.email") form [] (blen pre) (blen pre + blen form) [] :: rest) /\
               Forall (fun nd => blen pre + blen form <= n_st nd) rest.
Proof.
  intros Hloc Hl3 Hhd Hlabels Htld Hin Hpre Hstop Hfuel.
  apply find_emails_roundtrip; try assumption. apply tld_in_table. exact Hin.
Qed.

Example rt3_email_long_tld_thm :
  let data := L"mail " ++ email_form (L"joe") (dotted [L"example"] ++ L"travelersinsurance") ++ L" now" in
  find_emails TOP_LEVEL_DOMAINS data = Hang \/
  exists rest, find_emails TOP_LEVEL_DOMAINS data
               = Ok (Node (L"network.email") (L"joe@example.travelersinsurance") [] 5 35 [] :: rest) /\
               Forall (fun nd => 35 <= n_st nd) rest.
Proof.
  apply (find_emails_roundtrip_table (L"mail ") (L"joe") [L"example"] (L"travelersinsurance") (L" now"));
    [ vm_compute; reflexivity | apply Nat.leb_le; vm_compute; reflexivity | vm_compute; reflexivity | vm_compute; reflexivity
    | vm_compute; reflexivity | vm_compute; reflexivity | vm_compute; reflexivity
    | vm_compute; reflexivity | small_fuel3 ].
Qed.

Print Assumptions runsB_seq.
Print Assumptions runsB_seq_end.
Print Assumptions runsB_grp.
Print Assumptions runsB_wordb.
Print Assumptions runsB_lookbehind.
Print Assumptions runs_lookahead.
Print Assumptions runs_rep_cls_hi.
Print Assumptions runs_star_back1.
Print Assumptions match_here_formB.
Print Assumptions fi_formB.
Print Assumptions m_assert.
Print Assumptions quiet_no_first_tail.
Print Assumptions octet_runs.
Print Assumptions ip_runs.
Print Assumptions find_ips_one_ctx.
Print Assumptions rfind_app.
Print Assumptions ip_context_app.
Print Assumptions canonical_allzero.
Print Assumptions find_ips_roundtrip_quiet.
Print Assumptions find_ips_roundtrip.
Print Assumptions exe_runs.
Print Assumptions dll_runs.
Print Assumptions regex_hits_roundtrip.
Print Assumptions find_executable_name_roundtrip_quiet.
Print Assumptions find_library_roundtrip_quiet.
Print Assumptions rep_sep_fail.
Print Assumptions quiet_sep_free.
Print Assumptions sep_free_word_before.
Print Assumptions find_executable_name_roundtrip.
Print Assumptions find_library_roundtrip.
Print Assumptions rep_sep_fail2.
Print Assumptions blocked_run_sep.
Print Assumptions blocked_3lits.
Print Assumptions domain_rest_runs.
Print Assumptions email_runs.
Print Assumptions find_emails_roundtrip_quiet.
Print Assumptions find_emails_roundtrip.
Print Assumptions find_emails_roundtrip_table.
