(* Regex-shape obligations by reflection: the shape hypotheses of the decoder theorems
   (Proofs/EscDecProofs.v, Proofs/ShellProofs.v) are discharged for the GENERATED regex terms
   (Generated/Regexes.v, referred to by name only) by running the product exploration of
   Regex/MonitorProofs.v under vm_compute; the meaning of each monitor is proved once, independently
   of the regex term.  Together with the soundness of the backtracking matcher
   (Regex/BacktrackProofs.v) this closes the decoder theorems end to end, for ALL inputs. *)
From Coq Require Import List ZArith NArith Bool Lia Arith.
From MD Require Import Lib.Base Model.Node Regex.Syntax Regex.DerivProofs Regex.MonitorProofs
  Regex.Backtrack Regex.BacktrackProofs Generated.Regexes Model.Dec.ReLib.
From MD Require Import Model.Codec.PyInt Model.Codec.Utf Model.Codec.Percent Model.Dec.XmlChr Model.Dec.EscDec
  Model.Dec.Carets Model.Dec.Shell.
From MD Require Import Proofs.BaseProofs Proofs.PyIntProofs Proofs.UtfProofs Proofs.PercentProofs Proofs.XmlChrProofs
  Proofs.EscDecProofs Proofs.ShellProofs.
Import ListNotations.
Open Scope Z_scope.

Definition shape_fuel : nat := N.to_nat 400000.

(* ------------------------------------------------------------------ *)
(* 0.  Generic glue                                                    *)
(* ------------------------------------------------------------------ *)
Lemma Forall_exists_Forall2 {A B} (P : A -> B -> Prop) (l : list A) :
  Forall (fun x => exists y, P x y) l -> exists l', Forall2 P l l'.
Proof.
  induction 1 as [|x l (y & Hy) _ (l' & IH)]; [exists []; constructor|].
  exists (y :: l'). constructor; assumption.
Qed.

Lemma Forall2_combine_Forall {A B} (P : A -> B -> Prop) (Q : A * B -> Prop) l l' :
  (forall x y, P x y -> Q (x, y)) -> Forall2 P l l' -> Forall Q (combine l l').
Proof.
  intros HPQ. induction 1 as [|x y l l' Hxy _ IH]; [constructor|].
  cbn [combine]. constructor; [apply HPQ; exact Hxy | exact IH].
Qed.

Lemma Forall2_weaken {A B} (P Q : A -> B -> Prop) l l' :
  (forall x y, P x y -> Q x y) -> Forall2 P l l' -> Forall2 Q l l'.
Proof. intros HPQ. induction 1; constructor; auto. Qed.

Lemma run_app (M : monitor) (q : mst M) (u v : list N) : run M q (u ++ v) = run M (run M q u) v.
Proof. unfold run. apply fold_left_app. Qed.

Lemma run_snoc (M : monitor) (q : mst M) (u : list N) (c : N) :
  run M q (u ++ [c]) = mstep M (run M q u) (mclass M c).
Proof. rewrite run_app. reflexivity. Qed.

(* a match object that satisfies mtch_ok: group 0 participates, is in bounds, and its text is in the language *)
Lemma mtch_ok_group0 r ng data mt :
  mtch_ok r ng data mt ->
  span_ok data mt 0 /\ Lang r (group data mt 0) /\ List.length mt = S ng.
Proof.
  intros (s & e & groups & -> & Hl & H0 & H1 & H2 & HL & _). split; [|split].
  - exists s, e. split; [reflexivity|]. repeat split; assumption.
  - unfold group. cbn [nth]. rewrite <- sub_slice by assumption. exact HL.
  - cbn [List.length]. rewrite Hl. reflexivity.
Qed.

(* a participating group k >= 1: inside the match, text in the language of one of the bodies of group k *)
Lemma mtch_ok_groupk r ng data mt k :
  mtch_ok r ng data mt -> participates mt (S k) = true ->
  span_ok data mt (S k) /\ m_start mt 0 <= m_start mt (S k) /\ m_end mt (S k) <= m_end mt 0 /\
  exists body, In body (group_re r (S k)) /\ Lang body (group data mt (S k)).
Proof.
  intros (s & e & groups & -> & Hl & H0 & H1 & H2 & _ & HG) Hp.
  unfold participates in Hp. cbn [nth] in Hp.
  destruct (nth k groups None) as [[gs ge]|] eqn:En; [|discriminate Hp].
  assert (Hne : nth_error groups k = Some (Some (gs, ge))).
  { destruct (nth_error groups k) as [o|] eqn:E.
    - apply nth_error_nth with (d := None) in E. rewrite En in E. subst o. reflexivity.
    - apply nth_error_None in E. rewrite nth_overflow in En by exact E. discriminate En. }
  destruct (HG _ _ _ Hne) as (G1 & G2 & G3 & body & Hb & HLb). split; [|split; [|split]].
  - exists gs, ge. split; [exact Hne|]. repeat split; lia.
  - unfold m_start, span. cbn [nth]. rewrite En. exact G1.
  - unfold m_end, span. cbn [nth]. rewrite En. exact G3.
  - exists body. split; [exact Hb|]. unfold group. cbn [nth]. rewrite En.
    rewrite <- sub_slice by lia. exact HLb.
Qed.

(* ------------------------------------------------------------------ *)
(* 0b.  Mandatory groups (a structural fact about the pattern)         *)
(* ------------------------------------------------------------------ *)
(* Grp g occurs on every successful path: not under an alternative that lacks it, not under a
   repeat that may run zero times, not inside a look-around *)
Fixpoint group_mandatory (r : re) (g : nat) : bool :=
  match r with
  | Seq a b => group_mandatory a g || group_mandatory b g
  | Alt a b => group_mandatory a g && group_mandatory b g
  | Rep lo _ a => Nat.leb 1 lo && group_mandatory a g
  | Grp k a => Nat.eqb k g || group_mandatory a g
  | _ => false
  end.

Lemma m_mandatory g : forall fuel r p c k e c',
  m fuel r p c k = Found e c' ->
  exists q added, k q (added ++ c) = Found e c' /\
                  (group_mandatory r g = true -> In g (map fst added)).
Proof.
  induction fuel as [|f IH]; intros r p c k e c' H; [discriminate H|].
  assert (ZW : forall r0, group_mandatory r0 g = false -> k p c = Found e c' ->
                 exists q added, k q (added ++ c) = Found e c' /\
                                 (group_mandatory r0 g = true -> In g (map fst added))).
  { intros r0 H0 Hk. exists p, []. split; [exact Hk|]. intros E. congruence. }
  destruct r as [| |mk|a b|a b|lo hi a|g' a|bh a| | |]; cbn [m] in H.
  - discriminate H.
  - apply ZW; [reflexivity | exact H].
  - destruct (adv p) as [[b p']|]; [|discriminate H].
    destruct (N.testbit mk b); [|discriminate H].
    exists p', []. split; [exact H|]. intros E. discriminate E.
  - (* Seq *)
    destruct (IH _ _ _ _ _ _ H) as (q1 & ad1 & Hk1 & Hm1).
    destruct (IH _ _ _ _ _ _ Hk1) as (q & ad2 & Hk2 & Hm2).
    exists q, (ad2 ++ ad1). split; [rewrite <- app_assoc; exact Hk2|].
    cbn [group_mandatory]. intros E. rewrite map_app. apply in_or_app.
    apply orb_true_iff in E. destruct E as [E|E]; [right; apply Hm1, E | left; apply Hm2, E].
  - (* Alt *)
    cbn [group_mandatory].
    destruct (m f a p c k) as [| |e0 c0] eqn:Ea.
    + destruct (IH _ _ _ _ _ _ H) as (q & ad & Hk & Hm). exists q, ad. split; [exact Hk|].
      intros E. apply andb_true_iff in E. apply Hm, E.
    + discriminate H.
    + rewrite H in Ea. destruct (IH _ _ _ _ _ _ Ea) as (q & ad & Hk & Hm). exists q, ad. split; [exact Hk|].
      intros E. apply andb_true_iff in E. apply Hm, E.
  - (* Rep *)
    assert (Again :
              m f a p c (fun p' c' => if p_i p' =? p_i p then NoMatch
                                      else m f (Rep (pred lo) (option_map pred hi) a) p' c' k) = Found e c' ->
              exists q added, k q (added ++ c) = Found e c' /\
                              (group_mandatory (Rep lo hi a) g = true -> In g (map fst added))).
    { intros HA. destruct (IH _ _ _ _ _ _ HA) as (q1 & ad1 & Hk1 & Hm1).
      destruct (p_i q1 =? p_i p); [discriminate Hk1|].
      destruct (IH _ _ _ _ _ _ Hk1) as (q & ad2 & Hk2 & _).
      exists q, (ad2 ++ ad1). split; [rewrite <- app_assoc; exact Hk2|].
      cbn [group_mandatory]. intros E. apply andb_true_iff in E. destruct E as [_ E].
      rewrite map_app. apply in_or_app. right. apply Hm1, E. }
    assert (Zero : lo = 0%nat -> group_mandatory (Rep lo hi a) g = false).
    { intros ->. reflexivity. }
    destruct hi as [[|h]|].
    + destruct lo as [|lo]; [|discriminate H]. apply ZW; [apply Zero; reflexivity | exact H].
    + destruct lo as [|lo].
      * match type of H with match ?x with _ => _ end = _ => destruct x eqn:EA end.
        -- apply ZW; [apply Zero; reflexivity | exact H].
        -- discriminate H.
        -- apply Again. exact H.
      * apply Again. exact H.
    + destruct lo as [|lo].
      * match type of H with match ?x with _ => _ end = _ => destruct x eqn:EA end.
        -- apply ZW; [apply Zero; reflexivity | exact H].
        -- discriminate H.
        -- apply Again. exact H.
      * apply Again. exact H.
  - (* Grp *)
    destruct (IH _ _ _ _ _ _ H) as (q & ad & Hk & Hm).
    exists q, ((g', (p_i p, p_i q)) :: ad). split; [exact Hk|].
    cbn [group_mandatory map fst]. intros E. apply orb_true_iff in E. destruct E as [E|E].
    + left. apply Nat.eqb_eq. exact E.
    + right. apply Hm, E.
  - destruct bh; dmatch H; try discriminate H; (apply ZW; [reflexivity | exact H]).
  - dmatch H; try discriminate H; (apply ZW; [reflexivity | exact H]).
  - dmatch H; try discriminate H; (apply ZW; [reflexivity | exact H]).
  - dmatch H; try discriminate H; (apply ZW; [reflexivity | exact H]).
Qed.

Lemma lookup_cap_present g : forall c, In g (map fst c) -> exists sp, lookup_cap g c = Some sp.
Proof.
  induction c as [|[g' sp] c IH]; intros H; [destruct H|]. cbn [lookup_cap].
  destruct (Nat.eqb g g') eqn:E; [eexists; reflexivity|].
  destruct H as [H|H]; [|apply IH, H]. cbn [fst] in H. subst g'. rewrite Nat.eqb_refl in E. discriminate E.
Qed.

Lemma match_here_mandatory fuel r p e c g :
  group_mandatory r g = true -> match_here fuel r p = Found e c -> exists sp, lookup_cap g c = Some sp.
Proof.
  intros Hg H. unfold match_here in H.
  destruct (m_mandatory g _ _ _ _ _ _ _ H) as (q & added & Hk & Hm).
  injection Hk as _ <-. apply lookup_cap_present. rewrite map_app. apply in_or_app. left. apply Hm, Hg.
Qed.

Lemma mk_mtch_participates ng s e c g :
  (1 <= g)%nat -> (g <= ng)%nat -> (exists sp, lookup_cap g c = Some sp) ->
  participates (mk_mtch ng s e c) g = true.
Proof.
  intros H1 H2 (sp & Hsp). unfold participates, mk_mtch.
  destruct g as [|k]; [lia|]. cbn [nth].
  assert (E : nth k (map (fun g => lookup_cap g c) (seq 1 ng)) None = lookup_cap (S k) c).
  { apply nth_error_nth. rewrite nth_error_map.
    rewrite (nth_error_nth' _ 0%nat) by (rewrite seq_length; lia).
    rewrite seq_nth by lia. reflexivity. }
  rewrite E, Hsp. reflexivity.
Qed.

Lemma search_pos_found fuel r : forall n p s e c,
  search_pos fuel r n p = SFound s e c -> match_here fuel r s = Found e c.
Proof.
  induction n as [|n IH]; intros p s e c H; cbn [search_pos] in H;
    destruct (match_here fuel r p) as [| |e0 c0] eqn:EM; try discriminate H.
  - injection H as <- <- <-. exact EM.
  - destruct (adv p) as [[b p']|]; [|discriminate H]. apply (IH _ _ _ _ H).
  - injection H as <- <- <-. exact EM.
Qed.

Lemma finditer_pos_all fuel r ng (P : mtch -> Prop) :
  (forall s e c, match_here fuel r s = Found e c -> P (mk_mtch ng (p_i s) (p_i e) c)) ->
  forall n p ms, finditer_pos fuel r ng n p = Some ms -> Forall P ms.
Proof.
  intros HP. induction n as [|n IH]; intros p ms H; cbn [finditer_pos] in H.
  - injection H as <-. constructor.
  - destruct (search_pos fuel r (List.length (p_after p)) p) as [| |s e c] eqn:ES.
    + injection H as <-. constructor.
    + discriminate H.
    + pose proof (HP _ _ _ (search_pos_found _ _ _ _ _ _ _ ES)) as H1.
      destruct (if p_i e =? p_i s then match adv e with Some (_, q) => Some q | None => None end else Some e) as [q|].
      * destruct (finditer_pos fuel r ng n q) as [rest|] eqn:ER; [|discriminate H].
        injection H as <-. constructor; [exact H1 | apply (IH _ _ ER)].
      * injection H as <-. constructor; [exact H1 | constructor].
Qed.

(* a mandatory group participates in every match finditer reports *)
Theorem finditer_mandatory r ng data ms g :
  group_mandatory r g = true -> (1 <= g)%nat -> (g <= ng)%nat ->
  finditer r ng data = Some ms -> Forall (fun mt => participates mt g = true) ms.
Proof.
  intros Hg H1 H2 H. unfold finditer in H. revert H. apply finditer_pos_all.
  intros s e c HM. apply mk_mtch_participates; [exact H1 | exact H2|].
  apply (match_here_mandatory _ _ _ _ _ _ Hg HM).
Qed.

Example group_mandatory_ex1 : group_mandatory xr1 1 = true /\ group_mandatory xr1 2 = false.
Proof. split; reflexivity. Qed.

(* what finditer returns, in the form the decoder theorems want *)
Lemma fi_cases r ng data :
  fi r ng data = Hang \/
  exists ms, fi r ng data = Ok ms /\ Forall (mtch_ok r ng data) ms /\
             forall g, group_mandatory r g = true -> (1 <= g)%nat -> (g <= ng)%nat ->
                       Forall (fun mt => participates mt g = true) ms.
Proof.
  unfold fi. destruct (finditer r ng data) as [ms|] eqn:E; [right | left; reflexivity].
  exists ms. split; [reflexivity|]. split; [apply (finditer_sound _ _ _ _ E)|].
  intros g Hg H1 H2. apply (finditer_mandatory _ _ _ _ _ Hg H1 H2 E).
Qed.

(* ------------------------------------------------------------------ *)
(* 0c.  A generic way to build monitors and to prove what they mean     *)
(* ------------------------------------------------------------------ *)
(* The automaton is given by a partial step function on the BYTES (None = reject for ever).
   Bytes outside [mask] are all mapped to one class on which the monitor rejects, so that the
   exploration has few representatives to try; this is sound whatever the mask is. *)
Definition mask_of (l : list N) : N := fold_left (fun mk c => N.lor mk (N.shiftl 1 c)) l 0%N.

Section GenMonitor.
  Variable S : Type.
  Variable s_eqb : S -> S -> bool.
  Hypothesis s_eqb_eq : forall a b, s_eqb a b = true -> a = b.
  Variable s_hash : S -> N.
  Variable s_step : S -> N -> option S.
  Variable s_acc : S -> bool.
  Variable mask : N.

  Definition g_eqb (a b : option S) : bool :=
    match a, b with
    | None, None => true
    | Some x, Some y => s_eqb x y
    | _, _ => false
    end.

  Definition g_step (q : option S) (k : N) : option S :=
    match q with
    | None => None
    | Some s => match k with 0%N => None | _ => s_step s (N.pred k) end
    end.

  Definition gmon : monitor.
  Proof.
    refine {| mst := option S; meqb := g_eqb;
              mhash := fun q => match q with None => 0%N | Some s => N.succ (s_hash s) end;
              mclass := fun c => if N.testbit mask c then N.succ c else 0%N;
              mstep := g_step;
              macc := fun q => match q with Some s => s_acc s | None => false end;
              mtop := fun _ => false |}.
    - intros [a|] [b|] H; cbn [g_eqb] in H; try discriminate H; [|reflexivity].
      apply s_eqb_eq in H. subst b. reflexivity.
    - intros q H. discriminate H.
  Defined.

  Variable Inv : list N -> S -> Prop.
  Hypothesis Inv_step : forall w s c s', Inv w s -> s_step s c = Some s' -> Inv (w ++ [c]) s'.

  Lemma gmon_run_inv s0 : Inv [] s0 ->
    forall w, match run gmon (Some s0) w with Some s => Inv w s | None => True end.
  Proof.
    intros H0. induction w as [|c w IH] using rev_ind; [exact H0|].
    rewrite run_snoc. destruct (run gmon (Some s0) w) as [s|]; [|exact I].
    cbn [gmon mstep mclass g_step]. destruct (N.testbit mask c); [|exact I].
    destruct (N.succ c) eqn:Es; [exact I|]. rewrite <- Es, N.pred_succ.
    destruct (s_step s c) as [s'|] eqn:E; [|exact I]. apply (Inv_step _ _ _ _ IH E).
  Qed.

  Lemma gmon_meaning s0 w : Inv [] s0 -> macc gmon (run gmon (Some s0) w) = true ->
    exists s, Inv w s /\ s_acc s = true.
  Proof.
    intros H0 H. pose proof (gmon_run_inv s0 H0 w) as Hi.
    destruct (run gmon (Some s0) w) as [s|]; [|discriminate H]. exists s. split; [exact Hi | exact H].
  Qed.
End GenMonitor.

(* ------------------------------------------------------------------ *)
(* 1.  XML: a run of at least five well-shaped character references    *)
(* ------------------------------------------------------------------ *)
Inductive xpos := XBetween | XAmp | XItem (acc : list N).
Definition xst := (nat * xpos)%type.

Definition xpos_eqb (a b : xpos) : bool :=
  match a, b with
  | XBetween, XBetween | XAmp, XAmp => true
  | XItem x, XItem y => beqb x y
  | _, _ => false
  end.

Definition xst_eqb (a b : xst) : bool := Nat.eqb (fst a) (fst b) && xpos_eqb (snd a) (snd b).

Definition bytes_hash (l : list N) : N := fold_left (fun h c => (h * 257 + c + 1)%N) l 0%N.

Definition xst_hash (q : xst) : N :=
  (N.of_nat (fst q) + 7 * match snd q with XBetween => 1 | XAmp => 2 | XItem acc => 3 + bytes_hash acc end)%N.

(* count of complete references (saturating at 5), position inside the current reference *)
Definition xst_step (q : xst) (c : N) : option xst :=
  let (n, p) := q in
  match p with
  | XBetween => if (c =? 38)%N then Some (n, XAmp) else None
  | XAmp => if (c =? 35)%N then Some (n, XItem []) else None
  | XItem acc =>
      if (c =? 59)%N then (if xml_item_okb acc then Some (Nat.min 5 (S n), XBetween) else None)
      else Some (n, XItem (acc ++ [c]))
  end.

Definition xst_acc (q : xst) : bool :=
  match q with (n, XBetween) => Nat.leb 5 n | _ => false end.

Lemma xst_eqb_eq a b : xst_eqb a b = true -> a = b.
Proof.
  destruct a as [n p], b as [n' p']; unfold xst_eqb; cbn [fst snd].
  intros H. apply andb_true_iff in H. destruct H as [H1 H2]. apply Nat.eqb_eq in H1. subst n'.
  destruct p as [| |x], p' as [| |y]; cbn [xpos_eqb] in H2; try discriminate; try reflexivity.
  apply beqb_eq in H2. subst y. reflexivity.
Qed.

(* the bytes of the references: ampersand, hash, semicolon, x, X, digits, hex letters *)
Definition xml_mask : N := 1329237978842880005185852165662441472%N.

Definition xml_monitor : monitor := gmon xst xst_eqb xst_eqb_eq xst_hash xst_step xst_acc xml_mask.
Definition xml_q0 : mst xml_monitor := Some (0%nat, XBetween).

Definition xtail (p : xpos) : list N :=
  match p with XBetween => [] | XAmp => [38%N] | XItem acc => 38%N :: 35%N :: acc end.

Definition xml_inv (w : list N) (q : xst) : Prop :=
  exists items, fst q = Nat.min 5 (List.length items) /\ xml_items_ok items /\
                w = concat (map xml_reference items) ++ xtail (snd q).

Lemma xml_reference_eq i : xml_reference i = 38%N :: 35%N :: i ++ [59%N].
Proof. reflexivity. Qed.

Lemma xml_inv_step w q c q' : xml_inv w q -> xst_step q c = Some q' -> xml_inv (w ++ [c]) q'.
Proof.
  destruct q as [n p]. intros (items & Hn & Hok & Hw) Hs. cbn [fst snd] in Hn, Hw.
  destruct p as [| |acc]; cbn [xst_step] in Hs.
  - destruct (N.eqb_spec c 38) as [->|_]; [|discriminate Hs]. injection Hs as <-.
    exists items. split; [exact Hn|]. split; [exact Hok|]. rewrite Hw. cbn [xtail snd]. rewrite app_nil_r. reflexivity.
  - destruct (N.eqb_spec c 35) as [->|_]; [|discriminate Hs]. injection Hs as <-.
    exists items. split; [exact Hn|]. split; [exact Hok|]. rewrite Hw. cbn [xtail snd]. rewrite <- app_assoc. reflexivity.
  - destruct (N.eqb_spec c 59) as [->|_].
    + destruct (xml_item_okb acc) eqn:Eok; [|discriminate Hs]. injection Hs as <-.
      exists (items ++ [acc]). split; [|split].
      * change (Nat.min 5 (S n) = Nat.min 5 (List.length (items ++ [acc]))). rewrite app_length.
        change (List.length [acc]) with 1%nat. lia.
      * apply Forall_app. split; [exact Hok | constructor; [exact Eok | constructor]].
      * rewrite Hw. cbn [xtail snd]. rewrite map_app, concat_app. cbn [map concat].
        rewrite xml_reference_eq, !app_nil_r, <- app_assoc. reflexivity.
    + injection Hs as <-. exists items. split; [exact Hn|]. split; [exact Hok|]. rewrite Hw. cbn [xtail snd].
      rewrite <- app_assoc. reflexivity.
Qed.

Definition xml_shape (w : list N) : Prop :=
  exists items, w = concat (map xml_reference items) /\ xml_items_ok items /\ (5 <= List.length items)%nat.

(* MEANING of the monitor (regex independent) *)
Lemma xml_monitor_meaning w : macc xml_monitor (run xml_monitor xml_q0 w) = true -> xml_shape w.
Proof.
  intros H. apply (gmon_meaning _ _ xst_eqb_eq _ _ _ _ xml_inv xml_inv_step) in H.
  - destruct H as ([n p] & (items & Hn & Hok & Hw) & Hacc). cbn [fst snd] in Hn, Hw.
    destruct p; try discriminate Hacc. change (Nat.leb 5 n = true) in Hacc. apply Nat.leb_le in Hacc.
    exists items. cbn [xtail] in Hw. rewrite app_nil_r in Hw. split; [exact Hw|]. split; [exact Hok | lia].
  - exists []. split; [reflexivity|]. split; [constructor | reflexivity].
Qed.

(* OBLIGATION on the generated regex term, by computation *)
Lemma xml_explore : explore xml_monitor shape_fuel RE_xml_XML_ESCAPE_RE xml_q0 = true.
Proof. vm_cast_no_check (eq_refl true). Time Qed.

Theorem xml_lang_shape w : Lang RE_xml_XML_ESCAPE_RE w -> xml_shape w.
Proof.
  intros H. apply xml_monitor_meaning. apply (explore_sound_nowf xml_monitor shape_fuel _ _ xml_explore w H).
Qed.

(* The shape the pattern had BEFORE the source fix (two characters out of a-z 0-9 after the x,
   instead of two hex digits), written by hand: the same obligation is refuted, with a witness. *)
Module OldXml.
  Definition cls (l : list N) : re := Cls (mask_of l).
  Definition c_dig : re := cls (L"0123456789").
  Definition c_alnum : re := cls (L"abcdefghijklmnopqrstuvwxyzABCDEFGHIJKLMNOPQRSTUVWXYZ0123456789").
  Definition old_item : re :=
    Alt (Seq (cls (L"xX")) (Rep 2 (Some 2%nat) c_alnum))
        (Alt (Seq (cls (L"2")) (Seq (cls (L"5")) (cls (L"012345"))))
             (Alt (Seq (cls (L"2")) (Seq (cls (L"01234")) c_dig))
                  (Seq (Rep 0 (Some 1%nat) (cls (L"01"))) (Rep 1 (Some 2%nat) c_dig)))).
  Definition old_re : re :=
    Rep 5 None (Seq (cls (L"&")) (Seq (cls (L"#")) (Seq (Grp 1 old_item) (cls (L";"))))).
End OldXml.

Example xml_old_explore : explore xml_monitor shape_fuel OldXml.old_re xml_q0 = false.
Proof. vm_compute. reflexivity. Qed.

(* five times ampersand, hash, x, x, x, semicolon: the second and third x are not hex digits *)
Example xml_old_cex :
  explore_cex xml_monitor shape_fuel OldXml.old_re xml_q0 = CexWord (concat (repeat (L"&#xxx;") 5)).
Proof. vm_compute. reflexivity. Qed.

Example xml_old_cex_raises : unescape_xml (concat (repeat (L"&#xxx;") 5)) = Raise value_error.
Proof. vm_compute. reflexivity. Qed.

(* END TO END *)
Definition xml_node_ok (data : bytes) (n : node) : Prop :=
  n_ty n = [] /\ n_obf n = L"unescape.xml" /\ n_kids n = [] /\
  0 <= n_st n /\ n_st n <= n_en n /\ n_en n <= blen data /\
  exists items, slice data (n_st n) (n_en n) = concat (map xml_reference items) /\
                xml_items_ok items /\ (5 <= List.length items)%nat /\
                n_val n = map xml_item_num items.

Theorem find_xml_hex_total : forall data,
  find_xml_hex data = Hang \/
  exists nodes, find_xml_hex data = Ok nodes /\ Forall (xml_node_ok data) nodes.
Proof.
  intros data. unfold find_xml_hex.
  destruct (fi_cases RE_xml_XML_ESCAPE_RE NG_xml_XML_ESCAPE_RE data) as [H|(ms & Hfi & Hok & _)];
    [left; rewrite H; reflexivity | right]. rewrite Hfi. cbn [bind].
  assert (Hex : Forall (fun m => exists items, xml_m_ok data m items /\ (5 <= List.length items)%nat) ms).
  { eapply Forall_impl; [|exact Hok]. intros m Hm.
    destruct (mtch_ok_group0 _ _ _ _ Hm) as (Hs & HL & _).
    destruct (xml_lang_shape _ HL) as (items & Hw & Hi & Hn).
    exists items. split; [|exact Hn]. split; [exact Hs|]. split; [exact Hw | exact Hi]. }
  destruct (Forall_exists_Forall2 _ _ Hex) as (itemss & H2).
  assert (H2' : Forall2 (xml_m_ok data) ms itemss).
  { revert H2. apply Forall2_weaken. intros m items [H _]. exact H. }
  eexists. split; [apply find_xml_hex_post_exact, H2'|].
  apply Forall_map. revert H2. apply Forall2_combine_Forall.
  intros m items ((Hs & Hg & Hi) & Hn). unfold xml_node_ok, xml_expected.
  cbn [fst snd n_ty n_obf n_kids n_st n_en n_val].
  destruct (span_ok_bounds data m 0 Hs) as (B0 & B1 & B2 & Bg & _).
  split; [reflexivity|]. split; [reflexivity|]. split; [reflexivity|].
  split; [exact B0|]. split; [exact B1|]. split; [exact B2|].
  exists items. split; [rewrite <- Bg; exact Hg|]. split; [exact Hi|]. split; [exact Hn | reflexivity].
Qed.

(* ------------------------------------------------------------------ *)
(* 2.  chr: group 1 is zeros followed by one to five digits            *)
(* ------------------------------------------------------------------ *)
(* CZ b: only zeros so far (b: at least one); CT n: zeros, then n digits the first of which is not a zero *)
Inductive cst := CZ (b : bool) | CT (n : nat).

Definition cst_eqb (a b : cst) : bool :=
  match a, b with
  | CZ x, CZ y => Bool.eqb x y
  | CT x, CT y => Nat.eqb x y
  | _, _ => false
  end.

Lemma cst_eqb_eq a b : cst_eqb a b = true -> a = b.
Proof.
  destruct a as [x|x], b as [y|y]; cbn [cst_eqb]; try discriminate; intros H.
  - apply eqb_prop in H. subst y. reflexivity.
  - apply Nat.eqb_eq in H. subst y. reflexivity.
Qed.

Definition cst_hash (q : cst) : N :=
  match q with CZ b => if b then 1%N else 0%N | CT n => (2 + N.of_nat n)%N end.

Definition cst_step (q : cst) (c : N) : option cst :=
  match q with
  | CZ b => if (c =? 48)%N then Some (CZ true) else if is_digit_ascii c then Some (CT 1) else None
  | CT n => if is_digit_ascii c && Nat.ltb n 5 then Some (CT (S n)) else None
  end.

Definition cst_acc (q : cst) : bool := match q with CZ b => b | CT _ => true end.

Definition digit_mask : N := 287948901175001088%N.

Definition chr_monitor : monitor := gmon cst cst_eqb cst_eqb_eq cst_hash cst_step cst_acc digit_mask.
Definition chr_q0 : mst chr_monitor := Some (CZ false).

Definition chr_inv (w : list N) (q : cst) : Prop :=
  match q with
  | CZ b => exists a, w = repeat 48%N a /\ b = negb (Nat.eqb a 0)
  | CT n => exists a t, w = repeat 48%N a ++ t /\ all_digits t /\ List.length t = n /\ (1 <= n <= 5)%nat
  end.

Lemma repeat_snoc {A} (x : A) n : repeat x n ++ [x] = repeat x (S n).
Proof. symmetry. apply repeat_cons. Qed.

Lemma chr_inv_step w q c q' : chr_inv w q -> cst_step q c = Some q' -> chr_inv (w ++ [c]) q'.
Proof.
  destruct q as [b|n]; cbn [chr_inv cst_step].
  - intros (a & Hw & Hb) Hs. destruct (N.eqb_spec c 48) as [->|_].
    + injection Hs as <-. exists (S a). split; [rewrite Hw; apply repeat_snoc | reflexivity].
    + destruct (is_digit_ascii c) eqn:Ed; [|discriminate Hs]. injection Hs as <-.
      exists a, [c]. split; [rewrite Hw; reflexivity|]. split; [constructor; [exact Ed | constructor]|].
      split; [reflexivity | lia].
  - intros (a & t & Hw & Ht & Hl & Hn) Hs.
    destruct (is_digit_ascii c) eqn:Ed; [|discriminate Hs]. destruct (Nat.ltb_spec n 5) as [Hlt|_]; [|discriminate Hs].
    injection Hs as <-. exists a, (t ++ [c]). split; [rewrite Hw, app_assoc; reflexivity|].
    split; [apply Forall_app; split; [exact Ht | constructor; [exact Ed | constructor]]|].
    split; [rewrite app_length, Hl; cbn [List.length]; lia | lia].
Qed.

Definition chr_shape (w : list N) : Prop :=
  exists (k : nat) d', w = repeat 48%N k ++ d' /\ all_digits d' /\ 1 <= blen d' <= 5.

Lemma chr_monitor_meaning w : macc chr_monitor (run chr_monitor chr_q0 w) = true -> chr_shape w.
Proof.
  intros H. apply (gmon_meaning _ _ cst_eqb_eq _ _ _ _ chr_inv chr_inv_step) in H.
  - destruct H as ([b|n] & Hi & Hacc); cbn [chr_inv cst_acc] in Hi, Hacc.
    + destruct Hi as (a & Hw & Hb). subst b. destruct a as [|a]; [discriminate Hacc|].
      exists a, [48%N]. split; [rewrite Hw; symmetry; apply repeat_snoc|].
      split; [constructor; [reflexivity | constructor] | unfold blen; cbn [List.length]; lia].
    + destruct Hi as (a & t & Hw & Ht & Hl & Hn). exists a, t. split; [exact Hw|]. split; [exact Ht|].
      unfold blen. lia.
  - exists 0%nat. split; reflexivity.
Qed.

(* OBLIGATIONS on the generated regex term, by computation *)
Lemma chr_explore :
  forallb (fun body => explore chr_monitor shape_fuel body chr_q0) (group_re RE_chr_CHR_RE 1) = true.
Proof. vm_cast_no_check (eq_refl true). Time Qed.

Lemma chr_group1_mandatory :
  group_mandatory RE_chr_CHR_RE 1 && Nat.leb 1 NG_chr_CHR_RE = true.
Proof. vm_compute. reflexivity. Qed.

Theorem chr_group1_shape body w : In body (group_re RE_chr_CHR_RE 1) -> Lang body w -> chr_shape w.
Proof.
  intros Hb H. apply chr_monitor_meaning.
  pose proof chr_explore as E. rewrite forallb_forall in E.
  apply (explore_sound_nowf chr_monitor shape_fuel _ _ (E _ Hb) w H).
Qed.

(* END TO END *)
Definition chr_node_ok (data : bytes) (n : node) : Prop :=
  n_ty n = L"string" /\ n_obf n = L"function.chr" /\ n_kids n = [] /\
  0 <= n_st n /\ n_st n <= n_en n /\ n_en n <= blen data /\
  exists gs ge cp,
    n_st n <= gs /\ gs <= ge /\ ge <= n_en n /\ all_digits (slice data gs ge) /\
    cp = dec_value (slice data gs ge) /\
    0 <= cp < 100000 /\ is_surrogate cp = false /\ n_val n = utf8_bytes_cp cp.

Lemma Forall_flat_map' {A B} (P : B -> Prop) (f : A -> list B) l :
  Forall (fun x => Forall P (f x)) l -> Forall P (flat_map f l).
Proof.
  induction 1 as [|x l Hx _ IH]; [constructor|]. cbn [flat_map]. apply Forall_app. split; assumption.
Qed.

Theorem find_chr_total : forall data,
  find_chr data = Hang \/
  exists nodes, find_chr data = Ok nodes /\ Forall (chr_node_ok data) nodes.
Proof.
  intros data. unfold find_chr.
  destruct (fi_cases RE_chr_CHR_RE NG_chr_CHR_RE data) as [H|(ms & Hfi & Hok & Hmand)];
    [left; rewrite H; reflexivity | right]. rewrite Hfi. cbn [bind].
  pose proof chr_group1_mandatory as Hg. apply andb_true_iff in Hg. destruct Hg as [Hg1 Hg2].
  apply Nat.leb_le in Hg2. specialize (Hmand 1%nat Hg1 (le_n 1) Hg2).
  assert (Hex : Forall (fun m => exists kd, chr_m_ok data m kd /\
                   m_start m 0 <= m_start m 1 /\ m_end m 1 <= m_end m 0) ms).
  { rewrite Forall_forall in Hok, Hmand. apply Forall_forall. intros m Hin.
    specialize (Hok m Hin). specialize (Hmand m Hin). cbv beta in Hmand.
    destruct (mtch_ok_group0 _ _ _ _ Hok) as (Hs0 & _ & _).
    destruct (mtch_ok_groupk _ _ _ _ 0 Hok Hmand) as (Hs1 & B1 & B2 & body & Hb & HL).
    destruct (chr_group1_shape body _ Hb HL) as (k & d' & Hw & Hd & Hl).
    exists (k, d'). split; [|split; assumption]. split; [exact Hs0|]. split; [exact Hs1|].
    cbn [fst snd]. split; [exact Hw|]. split; [exact Hd | exact Hl]. }
  destruct (Forall_exists_Forall2 _ _ Hex) as (kds & H2).
  assert (H2' : Forall2 (chr_m_ok data) ms kds).
  { revert H2. apply Forall2_weaken. intros m kd [H _]. exact H. }
  eexists. split; [apply find_chr_post_exact, H2'|].
  apply Forall_flat_map'. revert H2. apply Forall2_combine_Forall.
  intros m [k d'] ((Hs0 & Hs1 & Hw & Hd & Hl) & B1 & B2). cbn [fst snd] in Hw, Hd, Hl.
  unfold chr_expected. cbn [fst snd].
  destruct (_ || is_surrogate (dec_value d')) eqn:E; [constructor|]. apply orb_false_iff in E. destruct E as [_ Esur].
  constructor; [|constructor]. unfold chr_node_ok. cbn [n_ty n_obf n_kids n_st n_en n_val].
  destruct (span_ok_bounds data m 0 Hs0) as (A0 & A1 & A2 & _).
  destruct (span_ok_bounds data m 1 Hs1) as (C0 & C1 & C2 & Cg & _).
  split; [reflexivity|]. split; [reflexivity|]. split; [reflexivity|].
  split; [exact A0|]. split; [exact A1|]. split; [exact A2|].
  exists (m_start m 1), (m_end m 1), (dec_value d'). rewrite <- Cg, Hw.
  split; [exact B1|]. split; [exact C1|]. split; [exact B2|].
  split. { apply Forall_app. split; [|exact Hd]. apply Forall_forall. intros c Hc. apply repeat_spec in Hc. subst c. reflexivity. }
  split; [symmetry; apply dec_value_leading_zeros|].
  split; [|split; [exact Esur | reflexivity]].
  pose proof (dec_value_range d' Hd) as [R0 R1]. split; [exact R0|].
  assert (10 ^ blen d' <= 10 ^ 5) by (apply Z.pow_le_mono_r; lia). lia.
Qed.

(* ------------------------------------------------------------------ *)
(* 3.  javascript unescape: group 1 takes part in every match          *)
(* ------------------------------------------------------------------ *)
Lemma unescape_group1_mandatory :
  group_mandatory RE_javascript_UNESCAPE_RE 1 && Nat.leb 1 NG_javascript_UNESCAPE_RE = true.
Proof. vm_compute. reflexivity. Qed.

(* group 1 never contains a single quote (alphabet monitor of Regex/MonitorProofs.v) *)
Definition no_squote_mask : N := (2 ^ 256 - 1 - 2 ^ 39)%N.

Lemma unescape_group1_explore :
  forallb (fun body => explore (alphabet_monitor no_squote_mask) shape_fuel body true)
          (group_re RE_javascript_UNESCAPE_RE 1) = true.
Proof. vm_cast_no_check (eq_refl true). Time Qed.

Theorem unescape_group1_shape body w :
  In body (group_re RE_javascript_UNESCAPE_RE 1) -> Lang body w -> ~ In ch_squote w.
Proof.
  intros Hb H Hin. pose proof unescape_group1_explore as E. rewrite forallb_forall in E.
  pose proof (alphabet_sound_nowf no_squote_mask shape_fuel _ (E _ Hb) w H) as HF.
  rewrite Forall_forall in HF. specialize (HF _ Hin). vm_compute in HF. discriminate HF.
Qed.

Definition unescape_node_ok (data : bytes) (n : node) : Prop :=
  n_ty n = L"string" /\ n_obf n = L"function.unescape" /\ n_kids n = [] /\
  0 <= n_st n /\ n_st n <= n_en n /\ n_en n <= blen data /\
  (wf_bytes data -> wf_bytes (n_val n)) /\
  exists gs ge, n_st n <= gs /\ gs <= ge /\ ge <= n_en n /\
                ~ In ch_squote (slice data gs ge) /\
                n_val n = unquote_to_bytes (slice data gs ge).

Theorem find_unescape_total : forall data,
  find_unescape data = Hang \/
  exists nodes, find_unescape data = Ok nodes /\ Forall (unescape_node_ok data) nodes.
Proof.
  intros data. unfold find_unescape.
  destruct (fi_cases RE_javascript_UNESCAPE_RE NG_javascript_UNESCAPE_RE data) as [H|(ms & Hfi & Hok & Hmand)];
    [left; rewrite H; reflexivity | right]. rewrite Hfi. cbn [bind].
  pose proof unescape_group1_mandatory as Hg. apply andb_true_iff in Hg. destruct Hg as [Hg1 Hg2].
  apply Nat.leb_le in Hg2. specialize (Hmand 1%nat Hg1 (le_n 1) Hg2).
  assert (Hex : Forall (fun m => span_ok data m 0 /\ span_ok data m 1 /\
                   m_start m 0 <= m_start m 1 /\ m_end m 1 <= m_end m 0 /\
                   ~ In ch_squote (group data m 1)) ms).
  { rewrite Forall_forall in Hok, Hmand. apply Forall_forall. intros m Hin.
    specialize (Hok m Hin). specialize (Hmand m Hin). cbv beta in Hmand.
    destruct (mtch_ok_group0 _ _ _ _ Hok) as (Hs0 & _ & _).
    destruct (mtch_ok_groupk _ _ _ _ 0 Hok Hmand) as (Hs1 & B1 & B2 & body & Hb & HL).
    repeat split; try assumption. apply (unescape_group1_shape body _ Hb HL). }
  eexists. split.
  - apply find_unescape_post_exact. eapply Forall_impl; [|exact Hex]. cbv beta. tauto.
  - apply Forall_map. eapply Forall_impl; [|exact Hex]. intros m (Hs0 & Hs1 & B1 & B2 & Hq).
    unfold unescape_node_ok, unescape_expected. cbn [n_ty n_obf n_kids n_st n_en n_val].
    destruct (span_ok_bounds data m 0 Hs0) as (A0 & A1 & A2 & _).
    destruct (span_ok_bounds data m 1 Hs1) as (C0 & C1 & C2 & Cg & _).
    split; [reflexivity|]. split; [reflexivity|]. split; [reflexivity|].
    split; [exact A0|]. split; [exact A1|]. split; [exact A2|].
    split; [intros Hwf; apply unquote_wf, wf_bytes_group, Hwf|].
    exists (m_start m 1), (m_end m 1). rewrite <- Cg. repeat split; assumption.
Qed.

(* ------------------------------------------------------------------ *)
(* 4.  utf-16: every second byte is zero                               *)
(* ------------------------------------------------------------------ *)
(* state: false = at a code-unit boundary, true = the low byte was read, the zero high byte is due *)
Definition ust_step (q : bool) (c : N) : option bool :=
  if q then (if (c =? 0)%N then Some false else None)
  else (if (c <? 256)%N then Some true else None).

Definition all_mask : N := (2 ^ 256 - 1)%N.

Definition utf16_monitor : monitor :=
  gmon bool Bool.eqb eqb_prop (fun q => if q then 1%N else 0%N) ust_step negb all_mask.
Definition utf16_q0 : mst utf16_monitor := Some false.

Definition utf16_inv (w : list N) (q : bool) : Prop :=
  if q then exists units c, w = interleave0 units ++ [c] /\ wf_bytes units /\ (c < 256)%N
  else exists units, w = interleave0 units /\ wf_bytes units.

Lemma utf16_inv_step w q c q' : utf16_inv w q -> ust_step q c = Some q' -> utf16_inv (w ++ [c]) q'.
Proof.
  destruct q; cbn [utf16_inv ust_step].
  - intros (units & c0 & Hw & Hu & Hc) Hs. destruct (N.eqb_spec c 0) as [->|_]; [|discriminate Hs].
    injection Hs as <-. exists (units ++ [c0]). split.
    + rewrite Hw, interleave0_app, <- app_assoc. reflexivity.
    + apply Forall_app. split; [exact Hu | constructor; [exact Hc | constructor]].
  - intros (units & Hw & Hu) Hs. destruct (N.ltb_spec c 256) as [Hc|_]; [|discriminate Hs].
    injection Hs as <-. exists units, c. split; [rewrite Hw; reflexivity|]. split; assumption.
Qed.

Definition utf16_shape (w : list N) : Prop := exists units, w = interleave0 units /\ wf_bytes units.

Lemma utf16_monitor_meaning w : macc utf16_monitor (run utf16_monitor utf16_q0 w) = true -> utf16_shape w.
Proof.
  intros H. apply (gmon_meaning _ _ eqb_prop _ _ _ _ utf16_inv utf16_inv_step) in H.
  - destruct H as ([|] & Hi & Hacc); [discriminate Hacc | exact Hi].
  - exists []. split; [reflexivity | constructor].
Qed.

Lemma utf16_explore : explore utf16_monitor shape_fuel RE_codec_UTF16_RE utf16_q0 = true.
Proof. vm_cast_no_check (eq_refl true). Time Qed.

Theorem utf16_lang_shape w : Lang RE_codec_UTF16_RE w -> utf16_shape w.
Proof.
  intros H. apply utf16_monitor_meaning. apply (explore_sound_nowf utf16_monitor shape_fuel _ _ utf16_explore w H).
Qed.

Definition utf16_node_ok (data : bytes) (n : node) : Prop :=
  n_ty n = [] /\ n_obf n = L"codec.uft-16" /\ n_kids n = [] /\
  0 <= n_st n /\ n_st n <= n_en n /\ n_en n <= blen data /\
  exists units, slice data (n_st n) (n_en n) = interleave0 units /\ wf_bytes units /\
                n_val n = flat_map utf8_latin1 units.

Theorem find_utf16_total : forall data,
  find_utf16 data = Hang \/
  exists nodes, find_utf16 data = Ok nodes /\ Forall (utf16_node_ok data) nodes.
Proof.
  intros data. unfold find_utf16.
  destruct (fi_cases RE_codec_UTF16_RE NG_codec_UTF16_RE data) as [H|(ms & Hfi & Hok & _)];
    [left; rewrite H; reflexivity | right]. rewrite Hfi. cbn [bind].
  assert (Hex : Forall (fun m => exists units, utf16_m_ok data m units) ms).
  { eapply Forall_impl; [|exact Hok]. intros m Hm.
    destruct (mtch_ok_group0 _ _ _ _ Hm) as (Hs & HL & _).
    destruct (utf16_lang_shape _ HL) as (units & Hw & Hu).
    exists units. split; [exact Hs|]. split; [exact Hw | exact Hu]. }
  destruct (Forall_exists_Forall2 _ _ Hex) as (unitss & H2).
  eexists. split; [apply find_utf16_post_exact, H2|].
  apply Forall_map. revert H2. apply Forall2_combine_Forall.
  intros m units (Hs & Hg & Hu). unfold utf16_node_ok, utf16_expected.
  cbn [fst snd n_ty n_obf n_kids n_st n_en n_val].
  destruct (span_ok_bounds data m 0 Hs) as (B0 & B1 & B2 & Bg & _).
  split; [reflexivity|]. split; [reflexivity|]. split; [reflexivity|].
  split; [exact B0|]. split; [exact B1|]. split; [exact B2|].
  exists units. split; [rewrite <- Bg; exact Hg|]. split; [exact Hu | reflexivity].
Qed.

(* ------------------------------------------------------------------ *)
(* 5.  cmd: a match is not empty and starts with a byte that is not    *)
(*     white space, not a caret, not a closing parenthesis             *)
(* ------------------------------------------------------------------ *)
Definition cmd_first_okb (c : N) : bool :=
  negb (is_space_ascii c) && negb (c =? ch_caret)%N && negb (c =? ch_rparen)%N.

Lemma cmd_first_okb_spec c : cmd_first_okb c = true -> cmd_first_ok c.
Proof.
  unfold cmd_first_okb, cmd_first_ok. intros H.
  apply andb_true_iff in H. destruct H as [H H3]. apply andb_true_iff in H. destruct H as [H1 H2].
  apply negb_true_iff in H1, H2, H3. apply N.eqb_neq in H2, H3. repeat split; assumption.
Qed.

Inductive fst_st := FStart | FGood | FBad.

(* this monitor uses the accepting sink: after a good first byte nothing is looked at any more *)
Definition cmd_monitor : monitor.
Proof.
  refine {| mst := fst_st;
            meqb := fun a b => match a, b with
                               | FStart, FStart | FGood, FGood | FBad, FBad => true
                               | _, _ => false
                               end;
            mhash := fun q => match q with FStart => 0%N | FGood => 1%N | FBad => 2%N end;
            mclass := fun c => if cmd_first_okb c then 1%N else 0%N;
            mstep := fun q k => match q with
                                | FStart => if (k =? 1)%N then FGood else FBad
                                | _ => q
                                end;
            macc := fun q => match q with FGood => true | _ => false end;
            mtop := fun q => match q with FGood => true | _ => false end |}.
  - intros [| |] [| |] H; try discriminate H; reflexivity.
  - intros [| |] H; try discriminate H. split; [reflexivity | intros k; reflexivity].
Defined.

Lemma cmd_run_fixed q w : q <> FStart -> run cmd_monitor q w = q.
Proof.
  intros Hq. induction w as [|c w IH] using rev_ind; [reflexivity|].
  rewrite run_snoc, IH. destruct q; [congruence | reflexivity | reflexivity].
Qed.

Definition cmd_shape (w : list N) : Prop := exists c rest, w = c :: rest /\ cmd_first_ok c.

Lemma cmd_monitor_meaning w : macc cmd_monitor (run cmd_monitor FStart w) = true -> cmd_shape w.
Proof.
  destruct w as [|c rest]; [discriminate|]. intros H.
  change (run cmd_monitor FStart (c :: rest))
    with (run cmd_monitor (if ((if cmd_first_okb c then 1 else 0) =? 1)%N then FGood else FBad) rest) in H.
  destruct (cmd_first_okb c) eqn:E.
  - exists c, rest. split; [reflexivity | apply cmd_first_okb_spec, E].
  - cbn [N.eqb] in H. rewrite cmd_run_fixed in H by discriminate. discriminate H.
Qed.

Lemma cmd_explore : explore cmd_monitor shape_fuel RE_shell_CMD_RE FStart = true.
Proof. vm_cast_no_check (eq_refl true). Time Qed.

Theorem cmd_lang_shape w : Lang RE_shell_CMD_RE w -> cmd_shape w.
Proof.
  intros H. apply cmd_monitor_meaning. apply (explore_sound_nowf cmd_monitor shape_fuel _ _ cmd_explore w H).
Qed.

Theorem cmd_matches_ok data ms :
  fi RE_shell_CMD_RE NG_shell_CMD_RE data = Ok ms -> Forall (cmd_match_ok data) ms.
Proof.
  intros Hfi. destruct (fi_cases RE_shell_CMD_RE NG_shell_CMD_RE data) as [H|(ms' & Hfi' & Hok & _)];
    [congruence|]. rewrite Hfi in Hfi'. injection Hfi' as <-.
  eapply Forall_impl; [|exact Hok]. intros m Hm.
  destruct (mtch_ok_group0 _ _ _ _ Hm) as (Hs & HL & _).
  destruct (cmd_lang_shape _ HL) as (c & rest & Hw & Hc).
  destruct (span_ok_nth data m 0 Hs) as [_ (s & e & Hn & B0 & B1 & B2)].
  exists s, e. split; [exact Hn|]. split; [exact B0|]. split; [exact B1|]. split; [exact B2|].
  exists c, rest. split; [|exact Hc]. rewrite <- Hw. unfold group. rewrite Hn. reflexivity.
Qed.

Definition cmd_node_ok (data : bytes) (n : node) : Prop :=
  n_ty n = cmd_type /\ n_kids n = [] /\ 0 <= n_st n /\ n_st n < n_en n /\ n_en n <= blen data.

Lemma cmd_nodes_spans data ms nodes :
  Forall (cmd_match_ok data) ms -> Forall2 (cmd_node_of data) ms nodes -> Forall (cmd_node_ok data) nodes.
Proof.
  intros Hok H2. revert Hok. induction H2 as [|m n ms nodes Hmn _ IH]; intros Hok; [constructor|].
  inversion Hok as [|? ? Hm Hms]; subst. constructor; [|apply IH, Hms].
  destruct Hmn as (T1 & T2 & T3 & T4 & T5 & T6).
  destruct Hm as (s & e & Hnth & B0 & B1 & B2 & _).
  destruct (span0 m s e Hnth) as (Es & Ee & _). rewrite Es in T3, T5. rewrite Ee in T6.
  unfold cmd_node_ok. repeat split; try assumption; lia.
Qed.

Theorem find_cmd_strings_never_raises : forall data,
  find_cmd_strings data = Hang \/
  exists nodes, find_cmd_strings data = Ok nodes /\ Forall (cmd_node_ok data) nodes /\
    exists ms, fi RE_shell_CMD_RE NG_shell_CMD_RE data = Ok ms /\
               Forall (cmd_match_ok data) ms /\ Forall2 (cmd_node_of data) ms nodes.
Proof.
  intros data. unfold find_cmd_strings.
  destruct (fi RE_shell_CMD_RE NG_shell_CMD_RE data) as [ms| |] eqn:Hfi.
  - right. cbn [bind]. pose proof (cmd_matches_ok data ms Hfi) as Hok.
    destruct (find_cmd_strings_total data ms Hok) as (nodes & Hn & H2).
    exists nodes. split; [exact Hn|]. split; [apply (cmd_nodes_spans data ms nodes Hok H2)|].
    exists ms. split; [reflexivity|]. split; assumption.
  - exfalso. unfold fi in Hfi. destruct (finditer _ _ _); discriminate Hfi.
  - left. reflexivity.
Qed.

(* ------------------------------------------------------------------ *)
(* 6.  powershell look-back: one of three delimiters                   *)
(* ------------------------------------------------------------------ *)
Definition bound_okb (b : bytes) : bool :=
  beqb b bound_for || beqb b [ch_dquote] || beqb b [ch_squote].

Lemma bound_okb_spec b : bound_okb b = true -> bound_ok b.
Proof.
  unfold bound_okb, bound_ok. intros H.
  apply orb_true_iff in H. destruct H as [H|H]; [apply orb_true_iff in H; destruct H as [H|H]|];
    apply beqb_eq in H; auto.
Qed.

(* the state is the word read so far (at most two bytes) *)
Definition pst_step (acc : list N) (c : N) : option (list N) :=
  if Nat.ltb (List.length acc) 2 then Some (acc ++ [c]) else None.

Lemma beqb_true_eq a b : beqb a b = true -> a = b.
Proof. apply beqb_eq. Qed.

(* single quote, double quote, opening parenthesis *)
Definition ps_mask : N := 1666447310848%N.

Definition ps_monitor : monitor := gmon (list N) beqb beqb_true_eq bytes_hash pst_step bound_okb ps_mask.
Definition ps_q0 : mst ps_monitor := Some [].

Lemma ps_monitor_meaning w : macc ps_monitor (run ps_monitor ps_q0 w) = true -> bound_ok w.
Proof.
  intros H. apply (gmon_meaning _ _ beqb_true_eq _ _ _ _ (fun w s => s = w)) in H.
  - destruct H as (s & -> & Hacc). apply bound_okb_spec, Hacc.
  - intros w0 s c s' -> Hs. unfold pst_step in Hs. destruct (Nat.ltb _ _); [|discriminate Hs].
    injection Hs as <-. reflexivity.
  - reflexivity.
Qed.

Lemma ps_explore :
  explore ps_monitor shape_fuel RE_shell_find_powershell_strings_0 ps_q0 = true.
Proof. vm_cast_no_check (eq_refl true). Time Qed.

Theorem ps_lookback_lang_shape w : Lang RE_shell_find_powershell_strings_0 w -> bound_ok w.
Proof.
  intros H. apply ps_monitor_meaning. apply (explore_sound_nowf ps_monitor shape_fuel _ _ ps_explore w H).
Qed.

Theorem ps_bounds_ok_all data ms : ps_bounds_ok data ms.
Proof.
  intros ind b _ H. unfold ps_context in H.
  destruct (re_match_at RE_shell_ENC_RE NG_shell_ENC_RE data (m_end ind 0)) as [[e|]| |]; cbn [bind] in H;
    try discriminate H.
  unfold re_search in H.
  destruct (search RE_shell_find_powershell_strings_0 NG_shell_find_powershell_strings_0
              (rev_prefix data (m_start ind 1))) as [[bm|]|] eqn:ES; cbn [bind] in H; try discriminate H.
  injection H as <-. apply search_sound in ES.
  destruct (mtch_ok_group0 _ _ _ _ ES) as (_ & HL & _). apply ps_lookback_lang_shape, HL.
Qed.

Theorem find_powershell_strings_never_raises : forall data,
  find_powershell_strings data = Hang \/ exists nodes, find_powershell_strings data = Ok nodes.
Proof.
  intros data. unfold find_powershell_strings.
  destruct (fi RE_shell_POWERSHELL_INDICATOR_RE NG_shell_POWERSHELL_INDICATOR_RE data) as [ms| |] eqn:Hfi.
  - cbn [bind]. destruct (find_powershell_strings_post data ms) as [nodes|e|] eqn:E.
    + right. exists nodes. reflexivity.
    + exfalso. revert E. apply find_powershell_strings_post_total. apply ps_bounds_ok_all.
    + left. reflexivity.
  - exfalso. unfold fi in Hfi. destruct (finditer _ _ _); discriminate Hfi.
  - left. reflexivity.
Qed.

(* ------------------------------------------------------------------ *)
(* 7.  Examples                                                        *)
(* ------------------------------------------------------------------ *)
(* the masks are what they are said to be *)
Example xml_mask_eq : xml_mask = mask_of (L"&#;xX0123456789abcdefABCDEF").
Proof. vm_compute. reflexivity. Qed.
Example digit_mask_eq : digit_mask = mask_of (L"0123456789").
Proof. vm_compute. reflexivity. Qed.
Example ps_mask_eq : ps_mask = mask_of [ch_squote; ch_dquote; ch_lparen].
Proof. vm_compute. reflexivity. Qed.

(* language membership (derivative matcher on the generated term) = regex.fullmatch in Python 3.12 /
   regex 2023, and what the monitor says about the same word *)
Definition xml_acc (w : list N) : bool := macc xml_monitor (run xml_monitor xml_q0 w).
Definition rep_bytes (n : nat) (b : list N) : list N := concat (repeat b n).

Example xml_py1 : matchb RE_xml_XML_ESCAPE_RE (L"&#x41;&#X42;&#67;&#068;&#x45;") = true
                  /\ xml_acc (L"&#x41;&#X42;&#67;&#068;&#x45;") = true.
Proof. vm_compute. split; reflexivity. Qed.
Example xml_py2 : matchb RE_xml_XML_ESCAPE_RE (rep_bytes 4 (L"&#x41;")) = false
                  /\ xml_acc (rep_bytes 4 (L"&#x41;")) = false.
Proof. vm_compute. split; reflexivity. Qed.
Example xml_py3 : matchb RE_xml_XML_ESCAPE_RE (rep_bytes 5 (L"&#255;")) = true
                  /\ xml_acc (rep_bytes 5 (L"&#255;")) = true.
Proof. vm_compute. split; reflexivity. Qed.
Example xml_py4 : matchb RE_xml_XML_ESCAPE_RE (rep_bytes 5 (L"&#256;")) = false
                  /\ xml_acc (rep_bytes 5 (L"&#256;")) = false.
Proof. vm_compute. split; reflexivity. Qed.
Example xml_py5 : matchb RE_xml_XML_ESCAPE_RE (rep_bytes 5 (L"&#xfg;")) = false
                  /\ xml_acc (rep_bytes 5 (L"&#xfg;")) = false.
Proof. vm_compute. split; reflexivity. Qed.
Example xml_py6 : matchb RE_xml_XML_ESCAPE_RE (L"&#1;&#22;&#199;&#249;&#250;&#x0a;") = true
                  /\ xml_acc (L"&#1;&#22;&#199;&#249;&#250;&#x0a;") = true.
Proof. vm_compute. split; reflexivity. Qed.
Example xml_py7 : matchb RE_xml_XML_ESCAPE_RE (rep_bytes 5 (L"&#0001;")) = false
                  /\ xml_acc (rep_bytes 5 (L"&#0001;")) = false.
Proof. vm_compute. split; reflexivity. Qed.
Example xml_py8 : matchb RE_xml_XML_ESCAPE_RE (rep_bytes 5 (L"&#x41;") ++ L"&") = false
                  /\ xml_acc (rep_bytes 5 (L"&#x41;") ++ L"&") = false.
Proof. vm_compute. split; reflexivity. Qed.

Definition chr_acc (w : list N) : bool := macc chr_monitor (run chr_monitor chr_q0 w).
Example chr_py1 : map (fun body => matchb body (L"65")) (group_re RE_chr_CHR_RE 1) = [true] /\ chr_acc (L"65") = true.
Proof. vm_compute. split; reflexivity. Qed.
Example chr_py2 : map (fun body => matchb body (L"000123456")) (group_re RE_chr_CHR_RE 1) = [false]
                  /\ chr_acc (L"000123456") = false.
Proof. vm_compute. split; reflexivity. Qed.
Example chr_py3 : map (fun body => matchb body (L"00000")) (group_re RE_chr_CHR_RE 1) = [true] /\ chr_acc (L"00000") = true.
Proof. vm_compute. split; reflexivity. Qed.
Example chr_py4 : matchb RE_chr_CHR_RE (L"ChrW(0)") = true /\ matchb RE_chr_CHR_RE (L"chr()") = false
                  /\ matchb RE_chr_CHR_RE (L"chr(123456)") = false /\ chr_acc [] = false /\ chr_acc (L"0000000") = true.
Proof. vm_compute. repeat split; reflexivity. Qed.

Definition utf16_acc (w : list N) : bool := macc utf16_monitor (run utf16_monitor utf16_q0 w).
Example utf16_py1 : matchb RE_codec_UTF16_RE (rep_bytes 7 [104; 0]%N) = true /\ utf16_acc (rep_bytes 7 [104; 0]%N) = true.
Proof. vm_compute. split; reflexivity. Qed.
Example utf16_py2 : matchb RE_codec_UTF16_RE (rep_bytes 6 [104; 0]%N) = false.
Proof. vm_compute. reflexivity. Qed.
Example utf16_py3 : matchb RE_codec_UTF16_RE (rep_bytes 7 [104; 0]%N ++ [0; 0]%N ++ rep_bytes 7 [105; 0]%N) = true
                    /\ matchb RE_codec_UTF16_RE (rep_bytes 7 [104; 0]%N ++ [0; 0; 0; 0]%N ++ rep_bytes 7 [105; 0]%N) = true.
Proof. vm_compute. split; reflexivity. Qed.
Example utf16_py4 : matchb RE_codec_UTF16_RE (rep_bytes 7 [104; 0]%N ++ [0; 0; 0]%N) = false
                    /\ utf16_acc (rep_bytes 7 [104; 0]%N ++ [0; 0; 0]%N) = false.
Proof. vm_compute. split; reflexivity. Qed.
Example utf16_py5 : matchb RE_codec_UTF16_RE (rep_bytes 7 [104; 1]%N) = false /\ utf16_acc (rep_bytes 7 [104; 1]%N) = false.
Proof. vm_compute. split; reflexivity. Qed.

Definition cmd_acc (w : list N) : bool := macc cmd_monitor (run cmd_monitor FStart w).
Example cmd_acc1 : cmd_acc (L"cmd /c dir") = true /\ cmd_acc (L" cmd /c") = false /\ cmd_acc [] = false
                   /\ cmd_acc (L"^cmd") = false /\ cmd_acc (L")") = false.
Proof. vm_compute. repeat split; reflexivity. Qed.

Definition ps_acc (w : list N) : bool := macc ps_monitor (run ps_monitor ps_q0 w).
Example ps_acc1 : ps_acc (L"'(") = true /\ ps_acc (L"'") = true /\ ps_acc [34%N] = true /\ ps_acc [] = false
                  /\ ps_acc (L"(") = false /\ ps_acc (L"''") = false /\ ps_acc (L"'('") = false.
Proof. vm_compute. repeat split; reflexivity. Qed.

(* PROPERTY-RELEVANT edits of a pattern are refuted (hand-written variants of the shipped shapes) *)
Module Mutants.
  Import OldXml.
  (* zeros, then one to SIX digits *)
  Definition chr_six : re := Seq (Rep 0 None (cls (L"0"))) (Rep 1 (Some 6%nat) c_dig).
  Example chr_six_refuted : explore chr_monitor shape_fuel chr_six chr_q0 = false.
  Proof. vm_compute. reflexivity. Qed.
  Example chr_six_cex : explore_cex chr_monitor shape_fuel chr_six chr_q0 = CexWord (L"999999").
  Proof. vm_compute. reflexivity. Qed.
  Definition chr_five : re := Seq (Rep 0 None (cls (L"0"))) (Rep 1 (Some 5%nat) c_dig).
  Example chr_five_ok : explore chr_monitor shape_fuel chr_five chr_q0 = true.
  Proof. vm_compute. reflexivity. Qed.
  (* the high byte may be 0 or 1 *)
  Definition utf16_loose : re := Rep 7 None (Seq c_alnum (Cls 3)).
  Example utf16_loose_refuted : explore utf16_monitor shape_fuel utf16_loose utf16_q0 = false.
  Proof. vm_compute. reflexivity. Qed.
  Definition utf16_strict : re := Rep 7 None (Seq c_alnum (Cls 1)).
  Example utf16_strict_ok : explore utf16_monitor shape_fuel utf16_strict utf16_q0 = true.
  Proof. vm_compute. reflexivity. Qed.
  (* optional leading white space before the command name *)
  Definition cmd_ws : re := Seq (Rep 0 None (cls [32%N])) (Seq (cls (L"c")) (Rep 0 None c_alnum)).
  Example cmd_ws_refuted : explore cmd_monitor shape_fuel cmd_ws FStart = false.
  Proof. vm_compute. reflexivity. Qed.
  Example cmd_ws_cex : explore_cex cmd_monitor shape_fuel cmd_ws FStart = CexWord (L" c").
  Proof. vm_compute. reflexivity. Qed.
  (* a fourth delimiter *)
  Definition ps_four : re := Alt (Seq (cls (L"'")) (cls (L"("))) (cls [39; 34; 96]%N).
  Example ps_four_refuted : explore ps_monitor shape_fuel ps_four ps_q0 = false.
  Proof. vm_compute. reflexivity. Qed.
  Example ps_four_cex : explore_cex ps_monitor shape_fuel ps_four ps_q0 = CexWord [96%N].
  Proof. vm_compute. reflexivity. Qed.
  (* group 1 made optional: no longer mandatory *)
  Example optional_group : group_mandatory (Seq (cls (L"(")) (Seq (Rep 0 (Some 1%nat) (Grp 1 c_dig)) (cls (L")")))) 1 = false
                           /\ group_mandatory (Seq (cls (L"(")) (Seq (Rep 1 (Some 2%nat) (Grp 1 c_dig)) (cls (L")")))) 1 = true
                           /\ group_mandatory (Alt (Grp 1 c_dig) c_alnum) 1 = false
                           /\ group_mandatory (Alt (Grp 1 c_dig) (Grp 1 c_alnum)) 1 = true.
  Proof. vm_compute. repeat split; reflexivity. Qed.
  (* the matcher on the optional-group pattern really reports a match without group 1 *)
  Example optional_group_run :
    finditer (Seq (cls (L"(")) (Seq (Rep 0 (Some 1%nat) (Grp 1 c_dig)) (cls (L")")))) 1 (L"()(1)")
    = Some [[Some (0, 2); None]; [Some (2, 5); Some (3, 4)]].
  Proof. vm_compute. reflexivity. Qed.
End Mutants.

(* the decoders on concrete inputs (same values as Python, see EscDecProofs) fall in the Ok case *)
Example total_ex1 : exists nodes, find_xml_hex (L"a&#104;&#105;&#32;&#x74;&#x6f;&#255;z") = Ok nodes /\ List.length nodes = 1%nat.
Proof. eexists. split; [vm_compute; reflexivity | reflexivity]. Qed.
Example total_ex2 : find_cmd_strings (L"x cmd /c echo hi") = Ok [Node cmd_type (L"cmd /c echo hi") [] 2 16 []].
Proof. vm_compute. reflexivity. Qed.

Print Assumptions finditer_mandatory.
Print Assumptions xml_lang_shape.
Print Assumptions find_xml_hex_total.
Print Assumptions chr_group1_shape.
Print Assumptions find_chr_total.
Print Assumptions unescape_group1_shape.
Print Assumptions find_unescape_total.
Print Assumptions utf16_lang_shape.
Print Assumptions find_utf16_total.
Print Assumptions cmd_lang_shape.
Print Assumptions cmd_matches_ok.
Print Assumptions find_cmd_strings_never_raises.
Print Assumptions ps_lookback_lang_shape.
Print Assumptions ps_bounds_ok_all.
Print Assumptions find_powershell_strings_never_raises.
