(* C13 "bit-exact": proofs about Model/Dec/B64Hex.v (xor helper, base64 / hex / PowerShell byte-array decoders).
   All statements are about the [_post] functions on ARBITRARY match lists satisfying an explicit [ms_ok]
   hypothesis; nothing is proved here about the matcher itself (the inner regex calls of find_base64,
   find_hex_space and find_hex_comma appear as explicit hypotheses / outcomes). *)
From MD Require Import Lib.Base Model.Node Regex.Syntax Regex.Backtrack Generated.Regexes Model.Dec.ReLib.
From MD Require Import Model.Codec.Base64 Model.Codec.Hex Model.Codec.PyInt Model.Dec.XmlChr Model.Dec.B64Hex.
From MD Require Import Proofs.BaseProofs Proofs.Base64Proofs Proofs.HexProofs Proofs.PyIntProofs.

Ltac bool_lia :=
  repeat match goal with
  | H : _ && _ = true |- _ => apply andb_true_iff in H; destruct H
  | H : _ || _ = false |- _ => apply orb_false_iff in H; destruct H
  | H : (_ <=? _)%N = true |- _ => apply N.leb_le in H
  | H : (_ <=? _)%N = false |- _ => apply N.leb_gt in H
  | H : (_ <? _)%N = true |- _ => apply N.ltb_lt in H
  | H : (_ <? _)%N = false |- _ => apply N.ltb_ge in H
  | H : (_ =? _)%N = true |- _ => apply N.eqb_eq in H
  | H : (_ =? _)%N = false |- _ => apply N.eqb_neq in H
  | H : (_ <=? _) = true |- _ => apply Z.leb_le in H
  | H : (_ <=? _) = false |- _ => apply Z.leb_gt in H
  | H : (_ <? _) = true |- _ => apply Z.ltb_lt in H
  | H : (_ <? _) = false |- _ => apply Z.ltb_ge in H
  | H : (_ =? _) = true |- _ => apply Z.eqb_eq in H
  | H : (_ =? _) = false |- _ => apply Z.eqb_neq in H
  end; try lia.

(* ================================================================== *)
(* generic helpers                                                     *)
(* ================================================================== *)

Lemma bind_ok {A B} (r : res A) (f : A -> res B) a : r = Ok a -> bind r f = f a.
Proof. intros ->. reflexivity. Qed.

Lemma Forall2_imp {A B} (P Q : A -> B -> Prop) l1 l2 :
  (forall a b, P a b -> Q a b) -> Forall2 P l1 l2 -> Forall2 Q l1 l2.
Proof. intros H. induction 1; constructor; auto. Qed.

Lemma wf_bytes_in b c : wf_bytes b -> In c b -> (c < 256)%N.
Proof. intros H. unfold wf_bytes in H. rewrite Forall_forall in H. apply H. Qed.

Lemma group_arg_ok data m g :
  participates m g = true -> group_arg data m g = Ok (group data m g).
Proof. intros H. unfold group_arg. rewrite H. reflexivity. Qed.

(* what a match must provide: group 0 (the whole match) with a span inside the data *)
Definition span_ok (data : bytes) (m : mtch) : Prop :=
  exists s e, nth 0 m None = Some (s, e) /\ 0 <= s /\ s <= e /\ e <= blen data.

(* group g participated, lies inside the data and its text satisfies P *)
Definition grp_ok (data : bytes) (m : mtch) (g : nat) (P : bytes -> Prop) : Prop :=
  exists s e, nth g m None = Some (s, e) /\ 0 <= s /\ s <= e /\ e <= blen data /\ P (slice data s e).

Lemma grp_ok_participates data m g P : grp_ok data m g P -> participates m g = true.
Proof. intros (s & e & E & _). unfold participates. rewrite E. reflexivity. Qed.

Lemma grp_ok_text data m g P : grp_ok data m g P -> P (group data m g).
Proof. intros (s & e & E & _ & _ & _ & H). unfold group. rewrite E. exact H. Qed.

Lemma span_ok_participates data m : span_ok data m -> participates m 0 = true.
Proof. intros (s & e & E & _). unfold participates. rewrite E. reflexivity. Qed.

Lemma span_ok_bounds data m : span_ok data m -> 0 <= m_start m 0 /\ m_start m 0 <= m_end m 0 /\ m_end m 0 <= blen data.
Proof. intros (s & e & E & H). unfold m_start, m_end, span. rewrite E. exact H. Qed.

Lemma span_ok_length data m : span_ok data m -> blen (group data m 0) = m_end m 0 - m_start m 0.
Proof.
  intros (s & e & E & H0 & H1 & H2). unfold group, m_start, m_end, span. rewrite E. cbn [fst snd].
  apply blen_slice; assumption.
Qed.

(* ================================================================== *)
(* xor_helper.py                                                       *)
(* ================================================================== *)

Lemma Z_lxor_of_N a b : Z.lxor (Z.of_N a) (Z.of_N b) = Z.of_N (N.lxor a b).
Proof. destruct a, b; reflexivity. Qed.

Lemma N_lxor_byte a b : (a < 256)%N -> (b < 256)%N -> (N.lxor a b < 256)%N.
Proof.
  intros Ha Hb.
  assert (F : forallb (fun x => forallb (fun y => (N.lxor x y <? 256)%N) (map N.of_nat (seq 0 256)))
                      (map N.of_nat (seq 0 256)) = true) by (vm_compute; reflexivity).
  rewrite forallb_forall in F. specialize (F a (in_range 256 a Ha)).
  rewrite forallb_forall in F. specialize (F b (in_range 256 b Hb)).
  apply N.ltb_lt in F. exact F.
Qed.

(* bytes(b ^ key for b in data) for a single-byte key *)
Theorem xor_bytes_ok key data :
  0 <= key <= 255 -> wf_bytes data -> xor_bytes key data = Ok (map (N.lxor (Z.to_N key)) data).
Proof.
  intros Hk Hd. unfold xor_bytes. induction Hd as [|c d Hc Hd IH]; [reflexivity|].
  cbn [mapM map]. rewrite IH.
  assert (Hz : Z.lxor (Z.of_N c) key = Z.of_N (N.lxor c (Z.to_N key))).
  { rewrite <- Z_lxor_of_N. rewrite Z2N.id by lia. reflexivity. }
  rewrite Hz. unfold byte_of_int.
  assert (Hx : (N.lxor c (Z.to_N key) < 256)%N) by (apply N_lxor_byte; [exact Hc|lia]).
  replace ((Z.of_N (N.lxor c (Z.to_N key)) <? 0) || (255 <? Z.of_N (N.lxor c (Z.to_N key)))) with false
    by (symmetry; apply orb_false_iff; split; [apply Z.ltb_ge|apply Z.ltb_ge]; lia).
  cbn [bind]. rewrite N2Z.id, N.lxor_comm. reflexivity.
Qed.

Definition xor_child (ty : label) (key : Z) (data : bytes) : node :=
  Node ty (map (N.lxor (Z.to_N key)) data) (L"cipher.xor" ++ str_of_Z key) 0 (blen data) [].

(* key <= 255: exactly one child is appended, nothing else changes *)
Theorem apply_xor_key_small key data nd ty :
  0 <= key <= 255 -> wf_bytes data ->
  apply_xor_key key data nd ty = Ok (set_kids nd (n_kids nd ++ [xor_child ty key data])).
Proof.
  intros Hk Hd. unfold apply_xor_key. replace (255 <? key) with false by (symmetry; apply Z.ltb_ge; lia).
  rewrite (xor_bytes_ok key data Hk Hd). cbn [bind]. unfold xor_child. rewrite blen_map. reflexivity.
Qed.

(* key > 255: "not a single-byte key", the node is returned unchanged *)
Theorem apply_xor_key_big key data nd ty : 255 < key -> apply_xor_key key data nd ty = Ok nd.
Proof. intros Hk. unfold apply_xor_key. replace (255 <? key) with true by (symmetry; apply Z.ltb_lt; lia). reflexivity. Qed.

(* the resulting node in one formula *)
Definition xor_kids (ty : label) (key : Z) (data : bytes) : list node :=
  if 255 <? key then [] else [xor_child ty key data].

Theorem apply_xor_key_spec key data nd ty :
  0 <= key -> wf_bytes data ->
  apply_xor_key key data nd ty = Ok (set_kids nd (n_kids nd ++ xor_kids ty key data)).
Proof.
  intros Hk Hd. unfold xor_kids. destruct (Z.ltb_spec 255 key) as [Hb|Hs].
  - rewrite apply_xor_key_big by exact Hb. rewrite app_nil_r. destruct nd; reflexivity.
  - apply apply_xor_key_small; [lia|exact Hd].
Qed.

(* never raises for a non-negative key and well-formed data *)
Corollary apply_xor_key_total key data nd ty :
  0 <= key -> wf_bytes data -> exists nd', apply_xor_key key data nd ty = Ok nd'.
Proof. intros Hk Hd. eexists. apply apply_xor_key_spec; assumption. Qed.

(* the child of the theorem: value, label, span *)
Lemma xor_child_fields ty key data :
  n_ty (xor_child ty key data) = ty /\
  n_val (xor_child ty key data) = map (N.lxor (Z.to_N key)) data /\
  n_obf (xor_child ty key data) = L"cipher.xor" ++ str_of_Z key /\
  n_st (xor_child ty key data) = 0 /\ n_en (xor_child ty key data) = blen data /\
  n_kids (xor_child ty key data) = [].
Proof. repeat split. Qed.

(* xor with the same key is an involution: the child value decodes back to the parent value *)
Lemma xor_involutive k data : map (N.lxor k) (map (N.lxor k) data) = data.
Proof.
  induction data as [|c d IH]; [reflexivity|]. cbn [map]. rewrite IH.
  rewrite <- N.lxor_assoc, N.lxor_nilpotent, N.lxor_0_l. reflexivity.
Qed.

(* --- get_xorkey --- *)

(* the shape XOR_RE gives to group 1: one to three decimal digits *)
Definition key_text_ok (t : bytes) : Prop := all_digits t /\ 1 <= blen t <= 3.

Lemma digits_dec_value_bound d : all_digits d -> blen d <= 3 -> 0 <= dec_value d <= 999.
Proof.
  intros Hd Hl. pose proof (dec_value_range d Hd) as [H0 H1]. split; [exact H0|].
  pose proof (blen_nonneg d) as Hn.
  assert (10 ^ blen d <= 10 ^ 3) by (apply Z.pow_le_mono_r; lia). change (10 ^ 3) with 1000 in *. lia.
Qed.

Lemma int10_short_digits d : all_digits d -> 1 <= blen d <= 3 -> int_of_bytes 10 d = Ok (dec_value d).
Proof.
  intros Hd Hl. rewrite int_of_bytes_digits; [|exact Hd|intros ->; unfold blen in Hl; cbn in Hl; lia].
  replace (blen d <=? MAX_STR_DIGITS) with true; [reflexivity|].
  symmetry. apply Z.leb_le. unfold MAX_STR_DIGITS. lia.
Qed.

Theorem get_xorkey_of_none data : get_xorkey_of data None = Ok None.
Proof. reflexivity. Qed.

Theorem get_xorkey_of_some data m :
  grp_ok data m 1 key_text_ok ->
  get_xorkey_of data (Some m) = Ok (Some (dec_value (group data m 1))) /\
  0 <= dec_value (group data m 1) <= 999.
Proof.
  intros H. pose proof (grp_ok_text _ _ _ _ H) as [Hd Hl].
  unfold get_xorkey_of. rewrite group_arg_ok by (eapply grp_ok_participates; exact H). cbn [bind].
  rewrite int10_short_digits by assumption. cbn [bind]. split; [reflexivity|].
  apply digits_dec_value_bound; [exact Hd|lia].
Qed.

(* what the callers can rely on: a key is a natural number below 1000 *)
Definition key_ok (k : option Z) : Prop := match k with Some z => 0 <= z <= 999 | None => True end.

Corollary get_xorkey_of_ok data o :
  match o with Some m => grp_ok data m 1 key_text_ok | None => True end ->
  exists k, get_xorkey_of data o = Ok k /\ key_ok k.
Proof.
  destruct o as [m|]; intros H.
  - destruct (get_xorkey_of_some data m H) as [E B]. eexists. split; [exact E|exact B].
  - exists None. split; [reflexivity|exact I].
Qed.

Lemma truthy_key_ok k z : key_ok k -> truthy_key k = Some z -> 1 <= z <= 999.
Proof.
  destruct k as [x|]; cbn [key_ok truthy_key]; [|discriminate].
  intros H. destruct (Z.eqb_spec x 0); [discriminate|]. intros [= <-]. lia.
Qed.

(* `if xorkey: node = apply_xor_key(...)` as one formula *)
Definition key_kids (ty : label) (key : option Z) (value : bytes) : list node :=
  match truthy_key key with Some k => xor_kids ty k value | None => [] end.

Lemma maybe_xor_spec key value nd ty :
  key_ok key -> wf_bytes value ->
  maybe_xor key value nd ty = Ok (set_kids nd (n_kids nd ++ key_kids ty key value)).
Proof.
  intros Hk Hv. unfold maybe_xor, key_kids. destruct (truthy_key key) as [z|] eqn:E.
  - apply apply_xor_key_spec; [|exact Hv]. pose proof (truthy_key_ok _ _ Hk E). lia.
  - rewrite app_nil_r. destruct nd; reflexivity.
Qed.

(* ================================================================== *)
(* base64.py: the call-form decoders (atob, Base64Decode)              *)
(* ================================================================== *)

Lemma try_a2b_cases t :
  (exists b, a2b_base64 t = Ok b /\ try_a2b t = Ok (Some b)) \/
  (a2b_base64 t = Raise (L"Error") /\ try_a2b t = Ok None).
Proof.
  unfold try_a2b. destruct (a2b_total t) as [[b E]|E]; rewrite E.
  - left. exists b. split; reflexivity.
  - right. split; reflexivity.
Qed.

(* the nodes one match contributes: one node when a2b_base64 succeeds, none when it raises binascii.Error *)
Definition b64_nodes (ty : label) (g : nat) (data : bytes) (m : mtch) : list node :=
  match a2b_base64 (group data m g) with
  | Ok b => [Node ty b ENC_B64 (m_start m 0) (m_end m 0) []]
  | _ => []
  end.

(* exact characterisation: the decoder never raises and emits, in order, one node per decodable argument *)
Theorem b64_call_post_spec ty g data ms :
  Forall (fun m => participates m g = true) ms ->
  b64_call_post ty g data ms = Ok (flat_map (b64_nodes ty g data) ms).
Proof.
  induction 1 as [|m ms Hm Hms IH]; [reflexivity|].
  cbn [b64_call_post flat_map]. rewrite group_arg_ok by exact Hm. cbn [bind].
  rewrite IH. remember (flat_map (b64_nodes ty g data) ms) as tl. unfold b64_nodes.
  destruct (try_a2b_cases (group data m g)) as [(b & E & T)|[E T]]; rewrite T, E; reflexivity.
Qed.

(* group g = base64 alphabet characters followed by at most two '=' *)
Definition b64_arg (t : bytes) : Prop :=
  exists body pad, t = body ++ pad /\ forallb is_b64_char body = true /\
                   (pad = [] \/ pad = [b64_pad] \/ pad = [b64_pad; b64_pad]).

Definition ms_ok_b64 (g : nat) (data : bytes) (ms : list mtch) : Prop :=
  Forall (fun m => span_ok data m /\ grp_ok data m g b64_arg) ms.

Lemma ms_ok_b64_participates g data ms : ms_ok_b64 g data ms -> Forall (fun m => participates m g = true) ms.
Proof. apply Forall_impl. intros m [_ H]. eapply grp_ok_participates, H. Qed.

(* every emitted node: value = a2b_base64 of the group, label, type, span of the whole match, no children *)
Theorem b64_call_post_sound ty g data ms out n :
  Forall (fun m => participates m g = true) ms ->
  b64_call_post ty g data ms = Ok out -> In n out ->
  exists m, In m ms /\ a2b_base64 (group data m g) = Ok (n_val n) /\
            n = Node ty (n_val n) (L"encoding.base64") (m_start m 0) (m_end m 0) [].
Proof.
  intros Hp E Hin. rewrite b64_call_post_spec in E by exact Hp. injection E as <-.
  apply in_flat_map in Hin as (m & Hm & Hn). exists m. split; [exact Hm|].
  unfold b64_nodes in Hn. destruct (a2b_base64 (group data m g)) as [b| |]; try contradiction.
  destruct Hn as [<-|[]]. split; reflexivity.
Qed.

(* conversely every match whose argument decodes yields its node *)
Theorem b64_call_post_complete ty g data ms m b :
  Forall (fun m => participates m g = true) ms ->
  In m ms -> a2b_base64 (group data m g) = Ok b ->
  exists out, b64_call_post ty g data ms = Ok out /\
              In (Node ty b (L"encoding.base64") (m_start m 0) (m_end m 0) []) out.
Proof.
  intros Hp Hm E. eexists. split; [apply b64_call_post_spec, Hp|].
  apply in_flat_map. exists m. split; [exact Hm|]. unfold b64_nodes. rewrite E. left. reflexivity.
Qed.

(* a text of the regex shape whose length is a multiple of 4 is canonical: the RFC 4648 decoder accepts it *)
Lemma b64_char_index c : is_b64_char c = true -> exists v, b64_alphabet_index c = Some v.
Proof. unfold is_b64_char. destruct (b64_alphabet_index c) as [v|]; [eexists; reflexivity|discriminate]. Qed.

Lemma b64_shape_strict body pad :
  forallb is_b64_char body = true ->
  (pad = [] \/ pad = [b64_pad] \/ pad = [b64_pad; b64_pad]) ->
  blen (body ++ pad) mod 4 = 0 ->
  exists p, b64_decode_strict (body ++ pad) = Some p.
Proof.
  intros Hb Hp. revert Hb.
  induction body as [|a|a b|a b c|a b c d r IH] using quad_ind; intros Hb Hl.
  - destruct Hp as [->|[->| ->]]; [exists []; reflexivity|discriminate Hl|discriminate Hl].
  - destruct Hp as [->|[->| ->]]; discriminate Hl.
  - destruct Hp as [->|[->| ->]]; try discriminate Hl.
    cbn [forallb] in Hb. apply andb_true_iff in Hb as [Ha Hb]. apply andb_true_iff in Hb as [Hb _].
    destruct (b64_char_index a Ha) as [ia Ea], (b64_char_index b Hb) as [ib Eb].
    cbn [app]. rewrite b64_decode_strict_last. unfold b64_dec_last. rewrite N.eqb_refl, Ea, Eb.
    eexists; reflexivity.
  - destruct Hp as [->|[->| ->]]; try discriminate Hl.
    cbn [forallb] in Hb. apply andb_true_iff in Hb as [Ha Hb]. apply andb_true_iff in Hb as [Hb Hc].
    apply andb_true_iff in Hc as [Hc _].
    destruct (b64_char_index a Ha) as [ia Ea], (b64_char_index b Hb) as [ib Eb], (b64_char_index c Hc) as [ic Ec].
    cbn [app]. rewrite b64_decode_strict_last. unfold b64_dec_last.
    rewrite N.eqb_refl, (b64_index_not_pad c ic Ec), Ea, Eb, Ec. eexists; reflexivity.
  - cbn [forallb] in Hb. apply andb_true_iff in Hb as [Ha Hb]. apply andb_true_iff in Hb as [Hb Hc].
    apply andb_true_iff in Hc as [Hc Hd]. apply andb_true_iff in Hd as [Hd Hr].
    destruct (b64_char_index a Ha) as [ia Ea], (b64_char_index b Hb) as [ib Eb],
             (b64_char_index c Hc) as [ic Ec], (b64_char_index d Hd) as [id Ed].
    assert (Hl' : blen (r ++ pad) mod 4 = 0).
    { cbn [app] in Hl. rewrite !blen_cons in Hl.
      replace (blen (r ++ pad) + 1 + 1 + 1 + 1) with (blen (r ++ pad) + 1 * 4) in Hl by lia.
      rewrite Z.mod_add in Hl by lia. exact Hl. }
    destruct (IH Hr Hl') as [p Ep].
    cbn [app]. erewrite b64_decode_strict_quad; [|unfold b64_dec_quad; rewrite Ea, Eb, Ec, Ed; reflexivity].
    rewrite Ep. eexists; reflexivity.
Qed.

Theorem b64_arg_canonical t :
  b64_arg t -> blen t mod 4 = 0 -> exists p, b64_decode_strict t = Some p.
Proof. intros (body & pad & -> & Hb & Hp) Hl. apply b64_shape_strict; assumption. Qed.

(* C13 for the call forms: under ms_ok the decoder is total; a canonical argument is decoded as RFC 4648 says *)
Theorem b64_call_post_canonical ty g data ms m :
  ms_ok_b64 g data ms -> In m ms -> blen (group data m g) mod 4 = 0 ->
  exists p out, b64_decode_strict (group data m g) = Some p /\
                b64_call_post ty g data ms = Ok out /\
                In (Node ty p (L"encoding.base64") (m_start m 0) (m_end m 0) []) out.
Proof.
  intros Hok Hm Hl. pose proof Hok as Hok'. unfold ms_ok_b64 in Hok'. rewrite Forall_forall in Hok'.
  destruct (Hok' m Hm) as [_ Hg]. apply (grp_ok_text data m g b64_arg) in Hg.
  destruct (b64_arg_canonical _ Hg Hl) as [p Ep]. exists p.
  destruct (b64_call_post_complete ty g data ms m p (ms_ok_b64_participates _ _ _ Hok) Hm
              (a2b_agrees_strict _ _ Ep)) as (out & Eo & Hin).
  exists out. repeat split; assumption.
Qed.

(* the three registered instances *)
Theorem find_atob_post_spec data ms :
  ms_ok_b64 1 data ms ->
  find_atob_post data ms = Ok (flat_map (b64_nodes (L"javascript.string") 1 data) ms).
Proof. intros H. apply b64_call_post_spec. exact (ms_ok_b64_participates 1 data ms H). Qed.

Theorem find_Base64Decode_post_spec data ms :
  ms_ok_b64 1 data ms ->
  find_Base64Decode_post data ms = Ok (flat_map (b64_nodes (L"vba.string") 1 data) ms).
Proof. intros H. apply b64_call_post_spec. exact (ms_ok_b64_participates 1 data ms H). Qed.

(* emitted spans are the spans of the whole matches, hence inside the data *)
Lemma b64_nodes_span ty g data m n :
  span_ok data m -> In n (b64_nodes ty g data m) -> 0 <= n_st n /\ n_st n <= n_en n /\ n_en n <= blen data.
Proof.
  intros Hs Hn. unfold b64_nodes in Hn. destruct (a2b_base64 (group data m g)); try contradiction.
  destruct Hn as [<-|[]]. cbn [n_st n_en]. apply (span_ok_bounds _ _ Hs).
Qed.

(* ================================================================== *)
(* find_FromBase64String                                               *)
(* ================================================================== *)

Definition fromb64_nodes (key : option Z) (data : bytes) (m : mtch) : list node :=
  match a2b_base64 (group data m 2) with
  | Ok b => [Node (L"powershell.bytes") b (L"encoding.base64") (m_start m 0) (m_end m 0)
                  (key_kids (L"powershell.bytes") key b)]
  | _ => []
  end.

Theorem find_FromBase64String_post_spec key data ms :
  key_ok key -> Forall (fun m => participates m 2 = true) ms ->
  find_FromBase64String_post key data ms = Ok (flat_map (fromb64_nodes key data) ms).
Proof.
  intros Hk. induction 1 as [|m ms Hm Hms IH]; [reflexivity|].
  cbn [find_FromBase64String_post flat_map]. rewrite group_arg_ok by exact Hm. cbn [bind].
  rewrite IH. remember (flat_map (fromb64_nodes key data) ms) as tl. unfold fromb64_nodes.
  destruct (try_a2b_cases (group data m 2)) as [(b & E & T)|[E T]]; rewrite T, E; cbn [bind]; [|reflexivity].
  rewrite maybe_xor_spec by (try exact Hk; eapply a2b_wf, E). reflexivity.
Qed.

(* every emitted node, spelled out: value, label, type, span; the xor child when a single-byte key was found *)
Theorem find_FromBase64String_post_sound key data ms out n :
  key_ok key -> ms_ok_b64 2 data ms ->
  find_FromBase64String_post key data ms = Ok out -> In n out ->
  exists m, In m ms /\ a2b_base64 (group data m 2) = Ok (n_val n) /\
            n_ty n = L"powershell.bytes" /\ n_obf n = L"encoding.base64" /\
            n_st n = m_start m 0 /\ n_en n = m_end m 0 /\
            n_kids n = match truthy_key key with
                       | Some k => if 255 <? k then []
                                   else [Node (L"powershell.bytes") (map (N.lxor (Z.to_N k)) (n_val n))
                                              (L"cipher.xor" ++ str_of_Z k) 0 (blen (n_val n)) []]
                       | None => []
                       end.
Proof.
  intros Hk Hok E Hin.
  rewrite find_FromBase64String_post_spec in E by (try exact Hk; exact (ms_ok_b64_participates 2 data ms Hok)).
  injection E as <-. apply in_flat_map in Hin as (m & Hm & Hn). exists m. split; [exact Hm|].
  unfold fromb64_nodes in Hn. destruct (a2b_base64 (group data m 2)) as [b| |]; try contradiction.
  destruct Hn as [<-|[]]. cbn [n_val n_ty n_obf n_st n_en n_kids]. repeat split.
Qed.

(* a canonical argument is decoded as RFC 4648 says (the children are as in find_FromBase64String_post_sound) *)
Theorem find_FromBase64String_post_canonical key data ms m :
  key_ok key -> ms_ok_b64 2 data ms -> In m ms -> blen (group data m 2) mod 4 = 0 ->
  exists p out, b64_decode_strict (group data m 2) = Some p /\
                find_FromBase64String_post key data ms = Ok out /\
                In (Node (L"powershell.bytes") p (L"encoding.base64") (m_start m 0) (m_end m 0)
                         (key_kids (L"powershell.bytes") key p)) out.
Proof.
  intros Hk Hok Hm Hl. pose proof Hok as Hok'. unfold ms_ok_b64 in Hok'. rewrite Forall_forall in Hok'.
  destruct (Hok' m Hm) as [_ Hg]. apply (grp_ok_text data m 2 b64_arg) in Hg.
  destruct (b64_arg_canonical _ Hg Hl) as [p Ep]. exists p. eexists. split; [exact Ep|]. split.
  - apply find_FromBase64String_post_spec; [exact Hk|exact (ms_ok_b64_participates 2 data ms Hok)].
  - apply in_flat_map. exists m. split; [exact Hm|]. unfold fromb64_nodes.
    rewrite (a2b_agrees_strict _ _ Ep). left. reflexivity.
Qed.

(* ================================================================== *)
(* find_base64                                                         *)
(* ================================================================== *)

(* --- the cleaning step --- *)

(* the cleaned text is the match text with the HTML_ESCAPE_RE matches spliced out, then LF, CR and the
   marker removed, in this order *)
Theorem b64_clean_spec t s :
  b64_clean t = Ok s <->
  exists hs, fi RE_base64_HTML_ESCAPE_RE NG_base64_HTML_ESCAPE_RE t = Ok hs /\
             s = replace (replace (replace (splice_const t [] 0 hs) [10%N] []) [13%N] []) B64_MARKER [].
Proof.
  unfold b64_clean, re_sub_const.
  destruct (fi RE_base64_HTML_ESCAPE_RE NG_base64_HTML_ESCAPE_RE t) as [hs| |]; cbn [bind]; split.
  - intros [= <-]. exists hs. split; reflexivity.
  - intros (hs' & [= <-] & ->). reflexivity.
  - discriminate.
  - intros (hs' & E & _). discriminate E.
  - discriminate.
  - intros (hs' & E & _). discriminate E.
Qed.

(* b64_clean never raises *)
Lemma b64_clean_no_raise t e : b64_clean t <> Raise e.
Proof.
  unfold b64_clean, re_sub_const, fi.
  destruct (finditer RE_base64_HTML_ESCAPE_RE NG_base64_HTML_ESCAPE_RE t); cbn [bind]; discriminate.
Qed.

(* bytes.replace(one byte, b"") is a filter *)
Lemma replace_single_nil b x : replace b [x] [] = filter (fun c => negb (N.eqb x c)) b.
Proof.
  unfold replace. induction b as [|c r IH]; [reflexivity|].
  cbn [replace_aux prefixb filter List.length Nat.pred app]. rewrite andb_true_r.
  destruct (N.eqb x c); cbn [negb]; rewrite IH; reflexivity.
Qed.

(* removing occurrences of a pattern only deletes bytes *)
Lemma replace_aux_nil_incl old b : forall skip c, In c (replace_aux old [] skip b) -> In c b.
Proof.
  induction b as [|x r IH]; intros skip c H; [exact H|].
  cbn [replace_aux] in H. destruct skip as [|k].
  - destruct (prefixb old (x :: r)).
    + cbn [app] in H. right. eapply IH, H.
    + destruct H as [->|H]; [left; reflexivity|right; eapply IH, H].
  - right. eapply IH, H.
Qed.

Lemma replace_nil_incl b old c : old <> [] -> In c (replace b old []) -> In c b.
Proof. intros Hne. unfold replace. destruct old; [congruence|]. apply replace_aux_nil_incl. Qed.

(* the cleaned text contains no LF and no CR *)
Theorem b64_clean_no_crlf t s : b64_clean t = Ok s -> ~ In 10%N s /\ ~ In 13%N s.
Proof.
  intros E. apply b64_clean_spec in E as (hs & _ & ->).
  set (u := splice_const t [] 0 hs).
  split; intros H; apply replace_nil_incl in H; try (unfold B64_MARKER; discriminate).
  - apply replace_nil_incl in H; [|discriminate]. rewrite replace_single_nil in H.
    apply filter_In in H as [_ H]. rewrite N.eqb_refl in H. discriminate H.
  - rewrite replace_single_nil in H. apply filter_In in H as [_ H]. rewrite N.eqb_refl in H. discriminate H.
Qed.

(* --- the acceptance tests --- *)

Lemma distinct_incl l : forall c, In c (distinct l) -> In c l.
Proof.
  induction l as [|x r IH]; intros c H; [exact H|]. cbn [distinct] in H.
  destruct (existsb (N.eqb x) r); [right; apply IH, H|].
  destruct H as [->|H]; [left; reflexivity|right; apply IH, H].
Qed.

Lemma distinct_NoDup l : NoDup (distinct l).
Proof.
  induction l as [|x r IH]; [constructor|]. cbn [distinct].
  destruct (existsb (N.eqb x) r) eqn:E; [exact IH|]. constructor; [|exact IH].
  intros H. apply distinct_incl in H.
  assert (existsb (N.eqb x) r = true) by (apply existsb_exists; exists x; split; [exact H|apply N.eqb_refl]).
  congruence.
Qed.

Lemma distinct_complete l : forall c, In c l -> In c (distinct l).
Proof.
  induction l as [|x r IH]; intros c H; [exact H|]. cbn [distinct].
  destruct (existsb (N.eqb x) r) eqn:E.
  - destruct H as [<-|H]; [|apply IH, H]. apply existsb_exists in E as (y & Hy & Exy).
    apply N.eqb_eq in Exy. subst y. apply IH, Hy.
  - destruct H as [<-|H]; [left; reflexivity|right; apply IH, H].
Qed.

(* n_distinct is len(set(s)): the length of a duplicate-free list with the same elements *)
Theorem n_distinct_spec s :
  NoDup (distinct s) /\ (forall c, In c (distinct s) <-> In c s) /\ n_distinct s = blen (distinct s).
Proof.
  split; [apply distinct_NoDup|]. split; [|reflexivity].
  intros c. split; [apply distinct_incl|apply distinct_complete].
Qed.

Lemma n_distinct_le s : n_distinct s <= blen s.
Proof.
  unfold n_distinct. induction s as [|x r IH]; [cbn [distinct]; lia|]. cbn [distinct].
  destruct (existsb (N.eqb x) r); rewrite ?blen_cons; lia.
Qed.

Lemma re_fullmatch_cases r s : (exists b, re_fullmatch r s = Ok b) \/ re_fullmatch r s = Hang.
Proof. unfold re_fullmatch. destruct (fullmatch r s) as [b|]; [left; eexists; reflexivity|right; reflexivity]. Qed.

(* the facts a text that reaches a2b_base64 has passed *)
Definition accept_facts (s : bytes) : Prop :=
  blen s mod 4 = 0 /\                                      (* length multiple of 4 *)
  MIN_B64_CHARS < n_distinct s /\                          (* more than 6 distinct bytes *)
  re_fullmatch RE_base64_HEX_RE s = Ok false /\            (* not all hex digits *)
  re_fullmatch RE_base64_CAMEL_RE s = Ok false /\          (* not all letters *)
  32 * count_byte 47%N s <= 3 * blen s.                    (* at most 3/32 slashes *)

Theorem b64_accept_true s : b64_accept s = Ok true <-> accept_facts s.
Proof.
  unfold b64_accept, accept_facts. pose proof (n_distinct_le s) as Hle.
  destruct (Z.eqb_spec (blen s mod 4) 0) as [H4|H4]; cbn [negb orb].
  2:{ split; [discriminate|intros (H & _); contradiction]. }
  destruct (Z.leb_spec (n_distinct s) MIN_B64_CHARS) as [Hd|Hd].
  { split; [discriminate|intros (_ & H & _); lia]. }
  destruct (re_fullmatch RE_base64_HEX_RE s) as [[|]| |]; cbn [bind];
    try (split; [discriminate|intros (_ & _ & H & _); discriminate H]).
  destruct (re_fullmatch RE_base64_CAMEL_RE s) as [[|]| |]; cbn [bind];
    try (split; [discriminate|intros (_ & _ & _ & H & _); discriminate H]).
  destruct (Z.eqb_spec (blen s) 0) as [H0|H0].
  { unfold MIN_B64_CHARS in Hd. lia. }
  destruct (Z.ltb_spec (3 * blen s) (32 * count_byte 47%N s)) as [Hs|Hs].
  - split; [discriminate|intros (_ & _ & _ & _ & H); lia].
  - split; [intros _; repeat split; try assumption; lia|reflexivity].
Qed.

(* the ZeroDivisionError of `count / len` is unreachable, and nothing else can raise *)
Theorem b64_accept_no_raise s e : b64_accept s <> Raise e.
Proof.
  unfold b64_accept. pose proof (n_distinct_le s) as Hle.
  destruct (negb (blen s mod 4 =? 0)); cbn [orb]; [discriminate|].
  destruct (Z.leb_spec (n_distinct s) MIN_B64_CHARS) as [Hd|Hd]; [discriminate|].
  destruct (re_fullmatch_cases RE_base64_HEX_RE s) as [[h ->]| ->]; cbn [bind]; [|discriminate].
  destruct h; [discriminate|].
  destruct (re_fullmatch_cases RE_base64_CAMEL_RE s) as [[c ->]| ->]; cbn [bind]; [|discriminate].
  destruct c; [discriminate|].
  destruct (Z.eqb_spec (blen s) 0) as [H0|H0]; [unfold MIN_B64_CHARS in Hd; lia|].
  destruct (3 * blen s <? 32 * count_byte 47%N s); discriminate.
Qed.

(* --- the loop --- *)

(* what one match contributes *)
Definition base64_item (data : bytes) (m : mtch) : res (list node) :=
  do s <- b64_clean (group data m 0);
  do ok <- b64_accept s;
  Ok (if ok then match a2b_base64 s with
                 | Ok b => [Node [] b ENC_B64 (m_start m 0) (m_end m 0) []]
                 | _ => []
                 end
      else []).

Theorem find_base64_post_items data ms :
  Forall (fun m => participates m 0 = true) ms ->
  find_base64_post data ms = do ls <- mapM (base64_item data) ms; Ok (concat ls).
Proof.
  induction 1 as [|m ms Hm Hms IH]; [reflexivity|].
  cbn [find_base64_post mapM]. rewrite group_arg_ok by exact Hm. cbn [bind]. unfold base64_item at 1.
  destruct (b64_clean (group data m 0)) as [s| |]; cbn [bind]; try reflexivity.
  destruct (b64_accept s) as [[|]| |]; cbn [bind]; try reflexivity.
  - destruct (try_a2b_cases s) as [(b & E & T)|[E T]]; rewrite T, E; cbn [bind]; rewrite IH;
      destruct (mapM (base64_item data) ms); reflexivity.
  - rewrite IH. destruct (mapM (base64_item data) ms); reflexivity.
Qed.

Lemma mapM_ok_in {A B} (f : A -> res B) l : forall ls,
  mapM f l = Ok ls -> forall y, In y ls -> exists x, In x l /\ f x = Ok y.
Proof.
  induction l as [|x l IH]; intros ls E y Hy.
  - injection E as <-. contradiction.
  - cbn [mapM] in E. destruct (f x) as [b| |] eqn:Ex; try discriminate. cbn [bind] in E.
    destruct (mapM f l) as [bs| |]; try discriminate. injection E as <-.
    destruct Hy as [<-|Hy].
    + exists x. split; [left; reflexivity|exact Ex].
    + destruct (IH bs eq_refl y Hy) as (x' & Hin & Ex'). exists x'. split; [right; exact Hin|exact Ex'].
Qed.

Lemma mapM_ok_nth {A B} (f : A -> res B) l : forall ls,
  mapM f l = Ok ls -> forall x, In x l -> exists y, In y ls /\ f x = Ok y.
Proof.
  induction l as [|a l IH]; intros ls E x Hx; [contradiction|].
  cbn [mapM] in E. destruct (f a) as [b| |] eqn:Ea; try discriminate. cbn [bind] in E.
  destruct (mapM f l) as [bs| |]; try discriminate. injection E as <-.
  destruct Hx as [<-|Hx].
  - exists b. split; [left; reflexivity|exact Ea].
  - destruct (IH bs eq_refl x Hx) as (y & Hin & Ey). exists y. split; [right; exact Hin|exact Ey].
Qed.

Lemma mapM_total {A B} (f : A -> res B) l :
  (forall x, In x l -> exists y, f x = Ok y) -> exists ls, mapM f l = Ok ls.
Proof.
  induction l as [|a l IH]; intros H; [exists []; reflexivity|].
  destruct (H a (or_introl eq_refl)) as [y Ey].
  destruct IH as [ls Els]; [intros x Hx; apply H; right; exact Hx|].
  exists (y :: ls). cbn [mapM]. rewrite Ey, Els. reflexivity.
Qed.

Lemma mapM_no_raise {A B} (f : A -> res B) l e :
  (forall x e', In x l -> f x <> Raise e') -> mapM f l <> Raise e.
Proof.
  induction l as [|a l IH]; intros H; [discriminate|].
  cbn [mapM]. destruct (f a) as [b| |] eqn:Ea; cbn [bind].
  - pose proof (IH (fun x e' Hx => H x e' (or_intror Hx))) as IH'.
    destruct (mapM f l); cbn [bind]; try discriminate. exact IH'.
  - exfalso. eapply (H a exn); [left; reflexivity|exact Ea].
  - discriminate.
Qed.

(* C13 for find_base64, soundness: every emitted node is the a2b_base64 of the cleaned match text, that text
   passed all five acceptance tests, and the span is the span of the match *)
Theorem find_base64_post_sound data ms out n :
  Forall (fun m => participates m 0 = true) ms ->
  find_base64_post data ms = Ok out -> In n out ->
  exists m s, In m ms /\ b64_clean (group data m 0) = Ok s /\ accept_facts s /\
              a2b_base64 s = Ok (n_val n) /\
              n = Node [] (n_val n) (L"encoding.base64") (m_start m 0) (m_end m 0) [].
Proof.
  intros Hp E Hin. rewrite find_base64_post_items in E by exact Hp.
  destruct (mapM (base64_item data) ms) as [ls| |] eqn:El; try discriminate. cbn [bind] in E.
  injection E as <-. apply in_concat in Hin as (l & Hl & Hn).
  destruct (mapM_ok_in _ _ _ El l Hl) as (m & Hm & Em). exists m.
  unfold base64_item in Em. destruct (b64_clean (group data m 0)) as [s| |]; try discriminate.
  cbn [bind] in Em. exists s. destruct (b64_accept s) as [[|]| |] eqn:Ea; try discriminate; cbn [bind] in Em;
    injection Em as <-; [|contradiction].
  destruct (a2b_base64 s) as [b| |]; try contradiction. destruct Hn as [<-|[]].
  split; [exact Hm|]. split; [reflexivity|]. split; [apply b64_accept_true, Ea|]. split; reflexivity.
Qed.

(* completeness: a match whose cleaned text is accepted and decodes yields its node *)
Theorem find_base64_post_complete data ms out m s b :
  Forall (fun m => participates m 0 = true) ms ->
  find_base64_post data ms = Ok out -> In m ms ->
  b64_clean (group data m 0) = Ok s -> b64_accept s = Ok true -> a2b_base64 s = Ok b ->
  In (Node [] b (L"encoding.base64") (m_start m 0) (m_end m 0) []) out.
Proof.
  intros Hp E Hm Ec Ea Eb. rewrite find_base64_post_items in E by exact Hp.
  destruct (mapM (base64_item data) ms) as [ls| |] eqn:El; try discriminate. cbn [bind] in E.
  injection E as <-. destruct (mapM_ok_nth _ _ _ El m Hm) as (l & Hl & Em).
  apply in_concat. exists l. split; [exact Hl|].
  unfold base64_item in Em. rewrite Ec in Em. cbn [bind] in Em. rewrite Ea in Em. cbn [bind] in Em.
  rewrite Eb in Em. injection Em as <-. left. reflexivity.
Qed.

(* no exception can escape from the loop (the regex calls of the model can only succeed or run out of fuel) *)
Lemma base64_item_no_raise data m e : base64_item data m <> Raise e.
Proof.
  unfold base64_item. pose proof (b64_clean_no_raise (group data m 0)) as Hc.
  destruct (b64_clean (group data m 0)) as [s|e'|]; cbn [bind]; [|intros _; apply (Hc e'); reflexivity|discriminate].
  pose proof (b64_accept_no_raise s) as Ha.
  destruct (b64_accept s) as [ok|e'|]; cbn [bind]; [discriminate|intros _; apply (Ha e'); reflexivity|discriminate].
Qed.

Theorem find_base64_post_no_raise data ms e :
  Forall (fun m => participates m 0 = true) ms -> find_base64_post data ms <> Raise e.
Proof.
  intros Hp. rewrite find_base64_post_items by exact Hp.
  pose proof (mapM_no_raise (base64_item data) ms e (fun x e' _ => base64_item_no_raise data x e')) as H.
  destruct (mapM (base64_item data) ms); cbn [bind]; [discriminate| |discriminate].
  intros [= ->]. apply H. reflexivity.
Qed.

(* totality, relative to the inner regex calls: if re.sub and the two fullmatch calls of every match terminate
   within the model's fuel, the decoder returns normally *)
Theorem find_base64_post_total data ms :
  Forall (fun m => participates m 0 = true) ms ->
  (forall m, In m ms -> exists s, b64_clean (group data m 0) = Ok s /\ b64_accept s <> Hang) ->
  exists out, find_base64_post data ms = Ok out.
Proof.
  intros Hp Hr. rewrite find_base64_post_items by exact Hp.
  destruct (mapM_total (base64_item data) ms) as [ls ->]; [|eexists; reflexivity].
  intros m Hm. destruct (Hr m Hm) as (s & Ec & Ha). unfold base64_item. rewrite Ec. cbn [bind].
  pose proof (b64_accept_no_raise s) as Hn.
  destruct (b64_accept s) as [ok|e'|]; cbn [bind]; [eexists; reflexivity|exfalso; apply (Hn e'); reflexivity|congruence].
Qed.

(* ================================================================== *)
(* hex.py                                                              *)
(* ================================================================== *)

(* an even number of hex digits *)
Definition even_hex (t : bytes) : Prop := Z.even (blen t) = true /\ forallb is_hex_digit t = true.

Lemma even_hex_unhexlify t : even_hex t -> exists v, unhexlify t = Ok v.
Proof. intros H. apply unhexlify_ok_iff. exact H. Qed.

(* "spelled bytes": v is the byte string whose lower-case hex spelling is the text *)
Definition hex_spells (t v : bytes) : Prop :=
  unhexlify t = Ok v /\ hexlify v = lower t /\ blen t = 2 * blen v /\ wf_bytes v.

Lemma unhexlify_spells t v : unhexlify t = Ok v -> hex_spells t v.
Proof.
  intros E. split; [exact E|]. split; [apply hexlify_unhexlify, E|].
  split; [apply unhexlify_length, E|eapply unhexlify_wf, E].
Qed.

(* the three list comprehensions, for any preparation step whose result is an even number of hex digits:
   no exception, one node per match, in order *)
Theorem hex_list_post_spec prep data ms :
  Forall (fun m => participates m 0 = true /\ exists s, prep (group data m 0) = Ok s /\ even_hex s) ms ->
  exists out, hex_list_post prep data ms = Ok out /\
    Forall2 (fun m n => exists s v, prep (group data m 0) = Ok s /\ hex_spells s v /\
                                    n = Node [] v (L"decoded.hexadecimal") (m_start m 0) (m_end m 0) []) ms out.
Proof.
  unfold hex_list_post. induction 1 as [|m ms (Hp & s & Es & Hs) Hms (out & Eo & F)].
  - exists []. split; [reflexivity|constructor].
  - destruct (even_hex_unhexlify s Hs) as [v Ev].
    exists (Node [] v DEC_HEX (m_start m 0) (m_end m 0) [] :: out). split.
    + cbn [mapM]. rewrite group_arg_ok by exact Hp. cbn [bind]. rewrite Es. cbn [bind]. rewrite Ev. cbn [bind].
      rewrite Eo. reflexivity.
    + constructor; [|exact F]. exists s, v. split; [exact Es|]. split; [apply unhexlify_spells, Ev|reflexivity].
Qed.

Definition ms_ok_hex (g : nat) (data : bytes) (ms : list mtch) : Prop :=
  Forall (fun m => span_ok data m /\ grp_ok data m g even_hex) ms.

(* C13 for find_hex: never raises; each value is the unhexlify of the match text *)
Theorem find_hex_post_spec data ms :
  ms_ok_hex 0 data ms ->
  exists out, find_hex_post data ms = Ok out /\
    Forall2 (fun m n => exists v, hex_spells (group data m 0) v /\
                                  n = Node [] v (L"decoded.hexadecimal") (m_start m 0) (m_end m 0) []) ms out.
Proof.
  intros Hok. unfold find_hex_post.
  destruct (hex_list_post_spec (fun t => Ok t) data ms) as (out & Eo & F).
  { eapply Forall_impl; [|exact Hok]. intros m [Hs Hg]. split; [eapply span_ok_participates, Hs|].
    exists (group data m 0). split; [reflexivity|]. eapply grp_ok_text in Hg. exact Hg. }
  exists out. split; [exact Eo|]. eapply Forall2_imp; [|exact F].
  intros m n (s & v & [= <-] & Hv & ->). exists v. split; [exact Hv|reflexivity].
Qed.

(* find_hex_space / find_hex_comma: the same, for the text after the whitespace (and comma) removal *)
Theorem find_hex_space_post_spec data ms :
  Forall (fun m => participates m 0 = true /\
                   exists s, re_sub_const RE_hex_find_hex_space_0 NG_hex_find_hex_space_0 [] (group data m 0) = Ok s /\
                             even_hex s) ms ->
  exists out, find_hex_space_post data ms = Ok out /\
    Forall2 (fun m n => exists s v,
               re_sub_const RE_hex_find_hex_space_0 NG_hex_find_hex_space_0 [] (group data m 0) = Ok s /\
               hex_spells s v /\
               n = Node [] v (L"decoded.hexadecimal") (m_start m 0) (m_end m 0) []) ms out.
Proof. apply hex_list_post_spec. Qed.

Theorem find_hex_comma_post_spec data ms :
  Forall (fun m => participates m 0 = true /\
                   exists s, re_sub_const RE_hex_find_hex_comma_0 NG_hex_find_hex_comma_0 [] (group data m 0) = Ok s /\
                             even_hex s) ms ->
  exists out, find_hex_comma_post data ms = Ok out /\
    Forall2 (fun m n => exists s v,
               re_sub_const RE_hex_find_hex_comma_0 NG_hex_find_hex_comma_0 [] (group data m 0) = Ok s /\
               hex_spells s v /\
               n = Node [] v (L"decoded.hexadecimal") (m_start m 0) (m_end m 0) []) ms out.
Proof. apply hex_list_post_spec. Qed.

(* the other direction: unhexlify is NOT guarded in find_hex, so one bad match text aborts the whole decoder
   with binascii.Error (unreachable through HEX_RE, which only matches pairs of hex digits) *)
Theorem find_hex_post_raises data ms :
  Forall (fun m => participates m 0 = true) ms ->
  Exists (fun m => ~ even_hex (group data m 0)) ms ->
  find_hex_post data ms = Raise (L"Error").
Proof.
  unfold find_hex_post, hex_list_post.
  match goal with |- _ -> _ -> mapM ?g ms = _ => set (f := g) end.
  induction 1 as [|m ms Hp Hms IH]; intros Hex; [inversion Hex|].
  cbn [mapM]. unfold f at 1. rewrite group_arg_ok by exact Hp. cbn [bind].
  destruct (unhexlify_total (group data m 0)) as [[v Ev]| Ev]; rewrite Ev; cbn [bind]; [|reflexivity].
  inversion Hex as [? ? Hbad|? ? Htl]; subst.
  - exfalso. apply Hbad. apply unhexlify_ok_iff. exists v. exact Ev.
  - rewrite (IH Htl). reflexivity.
Qed.

(* --- find_FromHexString --- *)

Lemma try_unhexlify_cases t :
  (exists v, unhexlify t = Ok v /\ try_unhexlify t = Ok (Some v)) \/
  (unhexlify t = Raise (L"Error") /\ try_unhexlify t = Ok None).
Proof.
  unfold try_unhexlify. destruct (unhexlify_total t) as [[v E]|E]; rewrite E.
  - left. exists v. split; reflexivity.
  - right. split; reflexivity.
Qed.

Definition fromhex_nodes (key : option Z) (data : bytes) (m : mtch) : list node :=
  match unhexlify (group data m 2) with
  | Ok v => [Node (L"powershell.bytes") v (L"encoding.hexidecimal") (m_start m 0) (m_end m 0)
                  (key_kids (L"powershell.bytes") key v)]
  | _ => []
  end.

Theorem find_FromHexString_post_spec key data ms :
  key_ok key -> Forall (fun m => participates m 2 = true) ms ->
  find_FromHexString_post key data ms = Ok (flat_map (fromhex_nodes key data) ms).
Proof.
  intros Hk. induction 1 as [|m ms Hm Hms IH]; [reflexivity|].
  cbn [find_FromHexString_post flat_map]. rewrite group_arg_ok by exact Hm. cbn [bind].
  rewrite IH. remember (flat_map (fromhex_nodes key data) ms) as tl. unfold fromhex_nodes.
  destruct (try_unhexlify_cases (group data m 2)) as [(v & E & T)|[E T]]; rewrite T, E; cbn [bind]; [|reflexivity].
  rewrite maybe_xor_spec by (try exact Hk; eapply unhexlify_wf, E). reflexivity.
Qed.

(* under ms_ok every match yields exactly one node *)
Theorem find_FromHexString_post_ok key data ms :
  key_ok key -> ms_ok_hex 2 data ms ->
  exists out, find_FromHexString_post key data ms = Ok out /\
    Forall2 (fun m n => exists v, hex_spells (group data m 2) v /\
               n = Node (L"powershell.bytes") v (L"encoding.hexidecimal") (m_start m 0) (m_end m 0)
                        (key_kids (L"powershell.bytes") key v)) ms out.
Proof.
  intros Hk Hok. eexists. split.
  - apply find_FromHexString_post_spec; [exact Hk|].
    eapply Forall_impl; [|exact Hok]. intros m [_ Hg]. eapply grp_ok_participates, Hg.
  - induction Hok as [|m ms [_ Hg] Hms IH]; [constructor|].
    cbn [flat_map]. apply (grp_ok_text data m 2 even_hex) in Hg. destruct (even_hex_unhexlify _ Hg) as [v Ev].
    unfold fromhex_nodes at 1. rewrite Ev. cbn [app]. constructor; [|exact IH].
    exists v. split; [apply unhexlify_spells, Ev|reflexivity].
Qed.

(* ================================================================== *)
(* powershell.py: find_powershell_bytes                                *)
(* ================================================================== *)

Definition ws (l : bytes) : Prop := Forall (fun c => is_space_ascii c = true) l.

Lemma lstrip_app_ws w r : ws w -> lstrip_space (w ++ r) = lstrip_space r.
Proof. induction 1 as [|c w Hc Hw IH]; [reflexivity|]. cbn [app lstrip_space]. rewrite Hc. exact IH. Qed.

Lemma rstrip_ws w : ws w -> rstrip_space w = [].
Proof. induction 1 as [|c w Hc Hw IH]; [reflexivity|]. cbn [rstrip_space]. rewrite IH, Hc. reflexivity. Qed.

Lemma rstrip_app_ws b w : ws w -> rstrip_space (b ++ w) = rstrip_space b.
Proof.
  intros Hw. induction b as [|c b IH]; [cbn [app]; rewrite (rstrip_ws w Hw); reflexivity|].
  cbn [app rstrip_space]. rewrite IH. reflexivity.
Qed.

(* strip() of a token: white space, a core without white space at its ends, white space *)
Lemma strip_core w1 core w2 :
  ws w1 -> ws w2 -> core <> [] -> Forall (fun c => is_space_ascii c = false) core ->
  strip (w1 ++ core ++ w2) = core.
Proof.
  intros H1 H2 Hne Hc. unfold strip. rewrite lstrip_app_ws by exact H1.
  destruct core as [|c core]; [congruence|]. inversion Hc as [|? ? Hc0 Hc1]; subst.
  cbn [app]. rewrite lstrip_space_head by exact Hc0.
  change (c :: core ++ w2) with ((c :: core) ++ w2). rewrite rstrip_app_ws by exact H2.
  apply rstrip_space_nospace. exact Hc.
Qed.

Lemma hex_digit_small c v : hex_digit_val c = Some v -> (c < 128)%N.
Proof.
  unfold hex_digit_val, is_digit_ascii. intros H.
  destruct ((48 <=? c)%N && (c <=? 57)%N) eqn:E1; [bool_lia|].
  destruct ((97 <=? c)%N && (c <=? 102)%N) eqn:E2; [bool_lia|].
  destruct ((65 <=? c)%N && (c <=? 70)%N) eqn:E3; [bool_lia|discriminate].
Qed.

Lemma hex_digit_not_space' c v : hex_digit_val c = Some v -> is_space_ascii c = false.
Proof. apply hex_digit_not_space. Qed.

(* int("0x" h1 h2, 16) *)
Lemma int16_0x_two_hex h1 h2 x y :
  hex_digit_val h1 = Some x -> hex_digit_val h2 = Some y ->
  int_of_bytes 16 [48; 120; h1; h2]%N = Ok (Z.of_N (x * 16 + y)).
Proof.
  intros H1 H2.
  assert (F : forallb (fun a => forallb (fun b =>
                match hex_digit_val a, hex_digit_val b with
                | Some u, Some v =>
                    match int_of_bytes 16 [48; 120; a; b]%N with
                    | Ok z => z =? Z.of_N (u * 16 + v)
                    | _ => false
                    end
                | _, _ => true
                end) (map N.of_nat (seq 0 128))) (map N.of_nat (seq 0 128)) = true)
    by (vm_compute; reflexivity).
  rewrite forallb_forall in F. specialize (F h1 (in_range 128 h1 (hex_digit_small h1 x H1))).
  rewrite forallb_forall in F. specialize (F h2 (in_range 128 h2 (hex_digit_small h2 y H2))).
  rewrite H1, H2 in F. destruct (int_of_bytes 16 [48; 120; h1; h2]%N) as [z| |]; try discriminate.
  apply Z.eqb_eq in F. congruence.
Qed.

(* the two token shapes POWERSHELL_BYTES_RE allows (after the comma there may be white space):
   "0x" and exactly two hex digits, or one to three decimal digits; with the integer each denotes *)
Inductive ps_tok : bytes -> Z -> Prop :=
| ps_tok_hex w1 w2 h1 h2 x y :
    ws w1 -> ws w2 -> hex_digit_val h1 = Some x -> hex_digit_val h2 = Some y ->
    ps_tok (w1 ++ [48; 120; h1; h2]%N ++ w2) (Z.of_N (x * 16 + y))
| ps_tok_dec w1 w2 d :
    ws w1 -> ws w2 -> all_digits d -> 1 <= blen d <= 3 ->
    ps_tok (w1 ++ d ++ w2) (dec_value d).

Lemma all_digits_nospace d : all_digits d -> Forall (fun c => is_space_ascii c = false) d.
Proof. apply Forall_impl. intros c. apply digit_not_space. Qed.

Lemma all_digits_ascii d : all_digits d -> forallb (fun c => (c <? 128)%N) d = true.
Proof.
  intros H. apply forallb_forall. intros c Hc. unfold all_digits in H. rewrite Forall_forall in H.
  specialize (H c Hc). apply digit_range in H. apply N.ltb_lt. lia.
Qed.

Lemma all_digits_not_0x d : all_digits d -> startswith d (L"0x") = false.
Proof.
  intros H. unfold startswith. change (L"0x") with [48; 120]%N.
  destruct d as [|a [|b r]]; cbn [prefixb]; [reflexivity|apply andb_false_r|].
  inversion H as [|? ? _ H']; subst. inversion H' as [|? ? Hb _]; subst.
  apply digit_range in Hb.
  replace (120 =? b)%N with false by (symmetry; apply N.eqb_neq; lia).
  apply andb_false_r.
Qed.

Theorem decode_byte_tok tok v : ps_tok tok v -> decode_byte tok = Ok v /\ 0 <= v <= 999.
Proof.
  intros [w1 w2 h1 h2 x y H1 H2 Hx Hy | w1 w2 d H1 H2 Hd Hl]; unfold decode_byte.
  - rewrite strip_core; try assumption; [|discriminate|].
    2:{ repeat constructor; try reflexivity; eapply hex_digit_not_space; eassumption. }
    unfold decode_ascii.
    assert (Ha : forallb (fun c => (c <? 128)%N) [48; 120; h1; h2]%N = true).
    { cbn [forallb]. pose proof (hex_digit_small h1 x Hx). pose proof (hex_digit_small h2 y Hy).
      replace (h1 <? 128)%N with true by (symmetry; apply N.ltb_lt; assumption).
      replace (h2 <? 128)%N with true by (symmetry; apply N.ltb_lt; assumption). reflexivity. }
    rewrite Ha. cbn [bind].
    replace (startswith [48; 120; h1; h2]%N (L"0x")) with true by reflexivity.
    split; [apply int16_0x_two_hex; assumption|].
    pose proof (hex_digit_val_lt h1 x Hx). pose proof (hex_digit_val_lt h2 y Hy). lia.
  - assert (Hne : d <> []) by (intros ->; unfold blen in Hl; cbn in Hl; lia).
    rewrite strip_core; try assumption; [|apply all_digits_nospace, Hd].
    unfold decode_ascii. rewrite (all_digits_ascii d Hd). cbn [bind].
    rewrite (all_digits_not_0x d Hd). split; [apply int10_short_digits; assumption|].
    apply digits_dec_value_bound; [exact Hd|lia].
Qed.

(* bytes(decode_byte(t) for t in tokens): all values at most 255 -> the listed bytes; one value above 255 ->
   ValueError, caught: the match is skipped *)
Lemma ps_tokens_mapM toks vals :
  Forall2 ps_tok toks vals ->
  mapM (fun tok => do z <- decode_byte tok; byte_of_int z) toks =
  if forallb (fun v => v <=? 255) vals then Ok (map Z.to_N vals) else Raise (L"ValueError").
Proof.
  induction 1 as [|tok v toks vals Ht Hts IH]; [reflexivity|].
  cbn [mapM forallb map]. destruct (decode_byte_tok tok v Ht) as [-> [Hv0 Hv1]]. cbn [bind].
  rewrite IH. unfold byte_of_int. replace (v <? 0) with false by (symmetry; apply Z.ltb_ge; lia). cbn [orb].
  destruct (Z.leb_spec v 255) as [Hle|Hgt].
  - replace (255 <? v) with false by (symmetry; apply Z.ltb_ge; lia). cbn [bind andb].
    destruct (forallb (fun v0 => v0 <=? 255) vals); reflexivity.
  - replace (255 <? v) with true by (symmetry; apply Z.ltb_lt; lia). reflexivity.
Qed.

Theorem ps_binary_spec t vals :
  Forall2 ps_tok (split_on 44%N t) vals ->
  ps_binary t = Ok (if forallb (fun v => v <=? 255) vals then Some (map Z.to_N vals) else None).
Proof.
  intros H. unfold ps_binary. rewrite (ps_tokens_mapM _ _ H).
  destruct (forallb (fun v => v <=? 255) vals); reflexivity.
Qed.

Lemma ps_values_wf vals : forallb (fun v => v <=? 255) vals = true -> Forall (fun v => 0 <= v) vals ->
  wf_bytes (map Z.to_N vals).
Proof.
  intros Hb Hn. unfold wf_bytes. apply Forall_forall. intros c Hc. apply in_map_iff in Hc as (v & <- & Hv).
  rewrite forallb_forall in Hb. specialize (Hb v Hv). apply Z.leb_le in Hb.
  rewrite Forall_forall in Hn. specialize (Hn v Hv). lia.
Qed.

Lemma ps_tok_nonneg toks vals : Forall2 ps_tok toks vals -> Forall (fun v => 0 <= v) vals.
Proof.
  induction 1 as [|tok v toks vals Ht Hts IH]; constructor; [|exact IH].
  destruct (decode_byte_tok tok v Ht) as [_ H]. lia.
Qed.

Section PowershellProofs.
  Variable xortool : bytes -> list bytes.

  (* ms_ok for one match: the whole match participates, lies inside the data and is a comma separated list of
     tokens of the two shapes; [vals] are the integers the tokens denote *)
  Definition ps_match_ok (data : bytes) (m : mtch) (vals : list Z) : Prop :=
    span_ok data m /\ Forall2 ps_tok (split_on 44%N (group data m 0)) vals.

  (* children of the node: single-byte xor key found in the data, else multi-byte key guessing when the data
     mentions -bxor, else none *)
  Definition ps_kids (data : bytes) (key : option Z) (binary : bytes) : list node :=
    match truthy_key key with
    | Some k => xor_kids (L"powershell.bytes") k binary
    | None =>
        if contains data (L"-bxor") then
          match xortool binary with
          | p :: _ => [Node (L"powershell.bytes") p (L"cipher.multibyte_xor") 0 (blen binary) []]
          | [] => []
          end
        else []
    end.

  Definition ps_nodes (data : bytes) (key : option Z) (mv : mtch * list Z) : list node :=
    let (m, vals) := mv in
    if forallb (fun v => v <=? 255) vals
    then [Node (L"powershell.bytes") (map Z.to_N vals) [] (m_start m 0) (m_end m 0)
               (ps_kids data key (map Z.to_N vals))]
    else [].

  (* C13 for find_powershell_bytes: value = the listed byte values; a token above 255 makes the match skipped;
     no exception escapes *)
  Theorem find_powershell_bytes_post_spec data key ms valss :
    get_xorkey data = Ok key -> key_ok key ->
    Forall2 (ps_match_ok data) ms valss ->
    find_powershell_bytes_post xortool data ms = Ok (flat_map (ps_nodes data key) (combine ms valss)).
  Proof.
    intros Ek Hk. induction 1 as [|m vals ms valss [Hs Ht] Hms IH]; [reflexivity|].
    cbn [find_powershell_bytes_post combine flat_map].
    rewrite group_arg_ok by (eapply span_ok_participates, Hs). cbn [bind].
    rewrite (ps_binary_spec _ _ Ht). cbn [bind]. rewrite IH.
    remember (flat_map (ps_nodes data key) (combine ms valss)) as tl. unfold ps_nodes.
    destruct (forallb (fun v => v <=? 255) vals) eqn:Eb; [|reflexivity].
    rewrite Ek. cbn [bind]. unfold ps_kids.
    destruct (truthy_key key) as [k|] eqn:Et.
    - rewrite apply_xor_key_spec;
        [|pose proof (truthy_key_ok _ _ Hk Et); lia|apply ps_values_wf; [exact Eb|eapply ps_tok_nonneg, Ht]].
      reflexivity.
    - destruct (contains data (L"-bxor")); [|reflexivity].
      destruct (xortool (map Z.to_N vals)); reflexivity.
  Qed.

  (* the same with the search result of get_xorkey made explicit, when there are no matches nothing is searched *)
  Corollary find_powershell_bytes_post_nil data : find_powershell_bytes_post xortool data [] = Ok [].
  Proof. reflexivity. Qed.

  (* totality *)
  Corollary find_powershell_bytes_post_total data key ms valss :
    get_xorkey data = Ok key -> key_ok key -> Forall2 (ps_match_ok data) ms valss ->
    exists out, find_powershell_bytes_post xortool data ms = Ok out.
  Proof. intros Ek Hk H. eexists. apply (find_powershell_bytes_post_spec data key ms valss Ek Hk H). Qed.
End PowershellProofs.

(* ================================================================== *)
(* Totality under ms_ok: none of the _post functions raises or hangs   *)
(* ================================================================== *)

Theorem find_atob_post_total data ms : ms_ok_b64 1 data ms -> exists out, find_atob_post data ms = Ok out.
Proof. intros H. eexists. apply find_atob_post_spec, H. Qed.

Theorem find_Base64Decode_post_total data ms :
  ms_ok_b64 1 data ms -> exists out, find_Base64Decode_post data ms = Ok out.
Proof. intros H. eexists. apply find_Base64Decode_post_spec, H. Qed.

Theorem find_FromBase64String_post_total key data ms :
  key_ok key -> ms_ok_b64 2 data ms -> exists out, find_FromBase64String_post key data ms = Ok out.
Proof.
  intros Hk H. eexists. apply find_FromBase64String_post_spec; [exact Hk|].
  exact (ms_ok_b64_participates 2 data ms H).
Qed.

Theorem find_hex_post_total data ms : ms_ok_hex 0 data ms -> exists out, find_hex_post data ms = Ok out.
Proof. intros H. destruct (find_hex_post_spec data ms H) as (out & E & _). exists out. exact E. Qed.

Theorem find_FromHexString_post_total key data ms :
  key_ok key -> ms_ok_hex 2 data ms -> exists out, find_FromHexString_post key data ms = Ok out.
Proof. intros Hk H. destruct (find_FromHexString_post_ok key data ms Hk H) as (out & E & _). exists out. exact E. Qed.

(* find_base64_post_total, find_hex_space_post_spec, find_hex_comma_post_spec and find_powershell_bytes_post_total
   (above) are the corresponding statements for the decoders that call the regex engine again per match:
   they are relative to those inner calls returning within the model's fuel. *)

(* the emitted spans are in bounds and ordered like the matches *)
Theorem b64_call_post_spans ty g data ms out n :
  ms_ok_b64 g data ms -> b64_call_post ty g data ms = Ok out -> In n out ->
  0 <= n_st n /\ n_st n <= n_en n /\ n_en n <= blen data.
Proof.
  intros Hok E Hin. rewrite b64_call_post_spec in E by exact (ms_ok_b64_participates g data ms Hok).
  injection E as <-. apply in_flat_map in Hin as (m & Hm & Hn).
  unfold ms_ok_b64 in Hok. rewrite Forall_forall in Hok. destruct (Hok m Hm) as [Hs _].
  eapply b64_nodes_span; eassumption.
Qed.

(* ================================================================== *)
(* The two filter patterns of find_base64 in character terms           *)
(* ================================================================== *)
(* For a pattern of the shape "one or more bytes of one class" the model's fullmatch is decided here once and
   for all (this is a fact about that small shape only, not about the matcher in general): it never runs out
   of fuel on texts shorter than 3999996 bytes and answers "non empty and every byte in the class". *)

Definition kend : pos -> caps -> out :=
  fun p' c' => match p_after p' with [] => Found p' c' | _ => NoMatch end.

Lemma adv_cons p b w : p_after p = b :: w ->
  adv p = Some (b, {| p_i := p_i p + 1; p_before := b :: p_before p; p_after := w |}).
Proof. intros H. unfold adv. rewrite H. reflexivity. Qed.

Lemma adv_nil p : p_after p = [] -> adv p = None.
Proof. intros H. unfold adv. rewrite H. reflexivity. Qed.

Definition or_else (o alt : out) : out := match o with NoMatch => alt | Fuel => o | Found _ _ => o end.

Lemma m_rep0_cls_step mk f p c k :
  m (S (S f)) (Rep 0 None (Cls mk)) p c k =
  or_else (match adv p with
           | Some (b, p') => if N.testbit mk b
                             then (if p_i p' =? p_i p then NoMatch else m (S f) (Rep 0 None (Cls mk)) p' c k)
                             else NoMatch
           | None => NoMatch
           end) (k p c).
Proof. reflexivity. Qed.

Lemma m_rep1_cls_step mk f p c k :
  m (S (S f)) (Rep 1 None (Cls mk)) p c k =
  match adv p with
  | Some (b, p') => if N.testbit mk b
                    then (if p_i p' =? p_i p then NoMatch else m (S f) (Rep 0 None (Cls mk)) p' c k)
                    else NoMatch
  | None => NoMatch
  end.
Proof. reflexivity. Qed.

Lemma rep0_cls_full mk : forall w f p c, p_after p = w -> (List.length w + 2 <= f)%nat ->
  (forallb (N.testbit mk) w = true -> exists e, m f (Rep 0 None (Cls mk)) p c kend = Found e c) /\
  (forallb (N.testbit mk) w = false -> m f (Rep 0 None (Cls mk)) p c kend = NoMatch).
Proof.
  induction w as [|b w IH]; intros f p c Hp Hf.
  - destruct f as [|[|f]]; cbn [List.length] in Hf; try lia.
    rewrite m_rep0_cls_step. rewrite (adv_nil p Hp). unfold or_else, kend. rewrite Hp.
    split; [intros _; eexists; reflexivity|discriminate].
  - destruct f as [|[|f]]; cbn [List.length] in Hf; try lia.
    rewrite m_rep0_cls_step. rewrite (adv_cons p b w Hp). cbn [forallb]. unfold or_else.
    destruct (N.testbit mk b); cbn [andb].
    + cbn [p_i]. replace (p_i p + 1 =? p_i p) with false by (symmetry; apply Z.eqb_neq; lia).
      destruct (IH (S f) {| p_i := p_i p + 1; p_before := b :: p_before p; p_after := w |} c eq_refl ltac:(lia))
        as [Ht Hfalse].
      split.
      * intros Hw. destruct (Ht Hw) as [e ->]. eexists; reflexivity.
      * intros Hw. rewrite (Hfalse Hw). unfold kend. rewrite Hp. reflexivity.
    + split; [discriminate|]. intros _. unfold kend. rewrite Hp. reflexivity.
Qed.

Definition nonempty_all (mk : N) (w : list N) : bool :=
  match w with [] => false | _ => forallb (N.testbit mk) w end.

Lemma rep1_cls_full mk w f p c : p_after p = w -> (List.length w + 3 <= f)%nat ->
  (nonempty_all mk w = true -> exists e, m f (Rep 1 None (Cls mk)) p c kend = Found e c) /\
  (nonempty_all mk w = false -> m f (Rep 1 None (Cls mk)) p c kend = NoMatch).
Proof.
  intros Hp Hf. destruct f as [|[|f]]; try lia. rewrite m_rep1_cls_step.
  destruct w as [|b w].
  - rewrite (adv_nil p Hp). split; [discriminate|reflexivity].
  - rewrite (adv_cons p b w Hp). unfold nonempty_all. cbn [forallb List.length] in *.
    destruct (N.testbit mk b); cbn [andb]; [|split; [discriminate|reflexivity]].
    cbn [p_i]. replace (p_i p + 1 =? p_i p) with false by (symmetry; apply Z.eqb_neq; lia).
    apply rep0_cls_full; [reflexivity|lia].
Qed.

Theorem fullmatch_class_plus mk s :
  blen s + 4 <= 4000000 ->
  fullmatch (Rep 1 None (Cls mk)) s = Some (nonempty_all mk s).
Proof.
  intros Hl. unfold fullmatch. fold kend.
  destruct (rep1_cls_full mk s default_fuel (start_pos s) [] eq_refl) as [Ht Hfalse].
  { unfold default_fuel, blen in *. lia. }
  destruct (nonempty_all mk s).
  - destruct (Ht eq_refl) as [e ->]. reflexivity.
  - rewrite (Hfalse eq_refl). reflexivity.
Qed.

Corollary re_fullmatch_class_plus r mk s :
  r = Rep 1 None (Cls mk) -> blen s + 4 <= 4000000 -> re_fullmatch r s = Ok (nonempty_all mk s).
Proof. intros -> Hl. unfold re_fullmatch. rewrite fullmatch_class_plus by exact Hl. reflexivity. Qed.

(* The acceptance tests in character terms, for ANY two filter patterns of the shape "one or more bytes of a
   class" (mkh, mkc are the class masks the translator produced for HEX_RE and CAMEL_RE). *)
Theorem b64_accept_classes mkh mkc s :
  RE_base64_HEX_RE = Rep 1 None (Cls mkh) -> RE_base64_CAMEL_RE = Rep 1 None (Cls mkc) ->
  blen s + 4 <= 4000000 ->
  b64_accept s =
  Ok ((blen s mod 4 =? 0) && (MIN_B64_CHARS <? n_distinct s) &&
      negb (forallb (N.testbit mkh) s) && negb (forallb (N.testbit mkc) s) &&
      (32 * count_byte 47%N s <=? 3 * blen s)).
Proof.
  intros Eh Ec Hl. unfold b64_accept. pose proof (n_distinct_le s) as Hle.
  destruct (Z.eqb_spec (blen s mod 4) 0) as [H4|H4]; cbn [negb orb andb]; [|reflexivity].
  destruct (Z.leb_spec (n_distinct s) MIN_B64_CHARS) as [Hd|Hd].
  { replace (MIN_B64_CHARS <? n_distinct s) with false by (symmetry; apply Z.ltb_ge; lia). reflexivity. }
  replace (MIN_B64_CHARS <? n_distinct s) with true by (symmetry; apply Z.ltb_lt; lia). cbn [andb].
  rewrite (re_fullmatch_class_plus _ mkh s Eh Hl), (re_fullmatch_class_plus _ mkc s Ec Hl). cbn [bind].
  assert (Hne : s <> []) by (intros ->; unfold MIN_B64_CHARS, n_distinct, blen in Hd; cbn in Hd; lia).
  unfold nonempty_all. destruct s as [|x r]; [congruence|].
  destruct (forallb (N.testbit mkh) (x :: r)); cbn [negb andb]; [reflexivity|].
  destruct (forallb (N.testbit mkc) (x :: r)); cbn [negb andb]; [reflexivity|].
  destruct (Z.eqb_spec (blen (x :: r)) 0) as [H0|H0]; [rewrite blen_cons in H0; pose proof (blen_nonneg r); lia|].
  destruct (Z.ltb_spec (3 * blen (x :: r)) (32 * count_byte 47%N (x :: r)));
    destruct (Z.leb_spec (32 * count_byte 47%N (x :: r)) (3 * blen (x :: r))); try lia; reflexivity.
Qed.

(* in particular the two fullmatch calls never run out of fuel on realistic sizes *)
Corollary b64_accept_no_hang mkh mkc s :
  RE_base64_HEX_RE = Rep 1 None (Cls mkh) -> RE_base64_CAMEL_RE = Rep 1 None (Cls mkc) ->
  blen s + 4 <= 4000000 -> b64_accept s <> Hang.
Proof. intros Eh Ec Hl. rewrite (b64_accept_classes mkh mkc s Eh Ec Hl). discriminate. Qed.

(* ================================================================== *)
(* Test vectors: the right-hand sides are what /venv/bin/python 3.12.1 prints for the real decoders *)
(* ================================================================== *)
Example atob_ex1 :
  find_atob (L"x = atob('aGVsbG8gd29ybGQ=');")
  = Ok [Node (L"javascript.string") (L"hello world") (L"encoding.base64") 4 28 []].
Proof. vm_compute. reflexivity. Qed.
Example atob_ex2 :
  find_atob [97;116;111;98;40;34;81;85;74;68;34;41;32;97;116;111;98;40;39;81;81;61;61;39;41]%N
  = Ok [Node (L"javascript.string") (L"ABC") (L"encoding.base64") 0 12 []; Node (L"javascript.string") (L"A") (L"encoding.base64") 13 25 []].
Proof. vm_compute. reflexivity. Qed.
Example atob_ex3 :
  find_atob (L"atob('QUJDR')")
  = Ok [].
Proof. vm_compute. reflexivity. Qed.
Example atob_ex4 :
  find_atob (L"atob('QQ=')")
  = Ok [].
Proof. vm_compute. reflexivity. Qed.
Example atob_ex5 :
  find_atob (L"atob('QUJD=')")
  = Ok [Node (L"javascript.string") (L"ABC") (L"encoding.base64") 0 13 []].
Proof. vm_compute. reflexivity. Qed.
Example atob_ex6 :
  find_atob (L"atob('QUI')")
  = Ok [].
Proof. vm_compute. reflexivity. Qed.
Example atob_ex7 :
  find_atob (L"Atob('QUJD')")
  = Ok [].
Proof. vm_compute. reflexivity. Qed.
Example atob_ex8 :
  find_atob [97;116;111;98;40;39;81;85;74;68;34;41]%N
  = Ok [Node (L"javascript.string") (L"ABC") (L"encoding.base64") 0 12 []].
Proof. vm_compute. reflexivity. Qed.
Example atob_ex9 :
  find_atob (L"atob('')")
  = Ok [].
Proof. vm_compute. reflexivity. Qed.
Example atob_ex10 :
  find_atob (L"atob('QUJD'")
  = Ok [].
Proof. vm_compute. reflexivity. Qed.
Example atob_ex11 :
  find_atob (L"atob('////')")
  = Ok [Node (L"javascript.string") [255;255;255]%N (L"encoding.base64") 0 12 []].
Proof. vm_compute. reflexivity. Qed.
Example b64decode_ex1 :
  find_Base64Decode [66;97;115;101;54;52;68;101;99;111;100;101;40;34;97;71;86;115;98;71;56;61;34;41]%N
  = Ok [Node (L"vba.string") (L"hello") (L"encoding.base64") 0 24 []].
Proof. vm_compute. reflexivity. Qed.
Example b64decode_ex2 :
  find_Base64Decode (L"BASE64DECODE('QUJD')")
  = Ok [Node (L"vba.string") (L"ABC") (L"encoding.base64") 0 20 []].
Proof. vm_compute. reflexivity. Qed.
Example b64decode_ex3 :
  find_Base64Decode (L"x=base64decode('QUJDRA==') & Base64Decode('QQ')")
  = Ok [Node (L"vba.string") (L"ABCD") (L"encoding.base64") 2 26 []].
Proof. vm_compute. reflexivity. Qed.
Example b64decode_ex4 :
  find_Base64Decode (L"Base64Decode('QUJD==')")
  = Ok [Node (L"vba.string") (L"ABC") (L"encoding.base64") 0 22 []].
Proof. vm_compute. reflexivity. Qed.
Example b64decode_ex5 :
  find_Base64Decode (L"Base64Decode(QUJD)")
  = Ok [].
Proof. vm_compute. reflexivity. Qed.
Example b64decode_ex6 :
  find_Base64Decode (L"Base64Decode('QU JD')")
  = Ok [].
Proof. vm_compute. reflexivity. Qed.
Example b64decode_ex7 :
  find_Base64Decode (L"Base64Decode('QUJDRUY')")
  = Ok [].
Proof. vm_compute. reflexivity. Qed.
Example b64decode_ex8 :
  find_Base64Decode (L"Base64Decode('+/+/')")
  = Ok [Node (L"vba.string") [251;255;191]%N (L"encoding.base64") 0 20 []].
Proof. vm_compute. reflexivity. Qed.
Example b64decode_ex9 :
  find_Base64Decode (L"Base64Decode('A')")
  = Ok [].
Proof. vm_compute. reflexivity. Qed.
Example b64decode_ex10 :
  find_Base64Decode (L"Base64Decode ('QUJD')")
  = Ok [].
Proof. vm_compute. reflexivity. Qed.
Example fromb64_ex1 :
  find_FromBase64String (L"[System.Convert]::FromBase64String('aGVsbG8=')")
  = Ok [Node (L"powershell.bytes") (L"hello") (L"encoding.base64") 0 46 []].
Proof. vm_compute. reflexivity. Qed.
Example fromb64_ex2 :
  find_FromBase64String [70;114;111;109;66;97;115;101;54;52;83;116;114;105;110;103;40;34;81;85;74;68;34;41;32;45;98;120;111;114;32;51;53]%N
  = Ok [Node (L"powershell.bytes") (L"ABC") (L"encoding.base64") 0 24 [Node (L"powershell.bytes") (L"ba`") (L"cipher.xor35") 0 3 []]].
Proof. vm_compute. reflexivity. Qed.
Example fromb64_ex3 :
  find_FromBase64String (L"-bxor 0 frombase64string('QUJD')")
  = Ok [Node (L"powershell.bytes") (L"ABC") (L"encoding.base64") 8 32 []].
Proof. vm_compute. reflexivity. Qed.
Example fromb64_ex4 :
  find_FromBase64String (L"FromBase64String('QUJD') -bxor 300")
  = Ok [Node (L"powershell.bytes") (L"ABC") (L"encoding.base64") 0 24 []].
Proof. vm_compute. reflexivity. Qed.
Example fromb64_ex5 :
  find_FromBase64String (L"FromBase64String('QUJD') -xor 1234")
  = Ok [Node (L"powershell.bytes") (L"ABC") (L"encoding.base64") 0 24 [Node (L"powershell.bytes") (L":98") (L"cipher.xor123") 0 3 []]].
Proof. vm_compute. reflexivity. Qed.
Example fromb64_ex6 :
  find_FromBase64String (L"[SystemXConvert]::FromBase64String('QUJD')")
  = Ok [Node (L"powershell.bytes") (L"ABC") (L"encoding.base64") 0 42 []].
Proof. vm_compute. reflexivity. Qed.
Example fromb64_ex7 :
  find_FromBase64String (L"FromBase64String('QUJDR') -bxor 1")
  = Ok [].
Proof. vm_compute. reflexivity. Qed.
Example fromb64_ex8 :
  find_FromBase64String [45;66;88;79;82;9;55;32;70;114;111;109;66;97;115;101;54;52;83;116;114;105;110;103;40;39;81;81;61;61;39;41;32;70;114;111;109;66;97;115;101;54;52;83;116;114;105;110;103;40;39;81;107;77;61;39;41]%N
  = Ok [Node (L"powershell.bytes") (L"A") (L"encoding.base64") 8 32 [Node (L"powershell.bytes") (L"F") (L"cipher.xor7") 0 1 []]; Node (L"powershell.bytes") (L"BC") (L"encoding.base64") 33 57 [Node (L"powershell.bytes") (L"ED") (L"cipher.xor7") 0 2 []]].
Proof. vm_compute. reflexivity. Qed.
Example fromb64_ex9 :
  find_FromBase64String (L"FromBase64String('QUJD') -bxor 255")
  = Ok [Node (L"powershell.bytes") (L"ABC") (L"encoding.base64") 0 24 [Node (L"powershell.bytes") [190;189;188]%N (L"cipher.xor255") 0 3 []]].
Proof. vm_compute. reflexivity. Qed.
Example fromb64_ex10 :
  find_FromBase64String (L"FromBase64String('QUJD') -bxor 256")
  = Ok [Node (L"powershell.bytes") (L"ABC") (L"encoding.base64") 0 24 []].
Proof. vm_compute. reflexivity. Qed.
Example fromb64_ex11 :
  find_FromBase64String (L"System.Convert]::FromBase64String('QUJD')")
  = Ok [Node (L"powershell.bytes") (L"ABC") (L"encoding.base64") 17 41 []].
Proof. vm_compute. reflexivity. Qed.
Example base64_ex1 :
  find_base64 (L"VGhlIHF1aWNrIGJyb3duIGZveCBqdW1wcyBvdmVyIHRoZSBsYXp5IGRvZyEh")
  = Ok [Node [] (L"The quick brown fox jumps over the lazy dog!!") (L"encoding.base64") 0 60 []].
Proof. vm_compute. reflexivity. Qed.
Example base64_ex2 :
  find_base64 [120;120;32;86;71;104;108;73;72;70;49;97;87;78;114;73;71;74;121;98;51;100;117;73;71;90;118;101;67;66;113;100;87;49;119;13;10;99;121;66;118;100;109;86;121;73;72;82;111;90;83;66;115;89;88;112;53;73;71;82;118;90;121;69;104;32;121;121]%N
  = Ok [Node [] (L"The quick brown fox jumps over the lazy dog!!") (L"encoding.base64") 3 65 []].
Proof. vm_compute. reflexivity. Qed.
Example base64_ex3 :
  find_base64 (L"VGhlIHF1aWNrIGJyb3duIGZveCBqdW1w&#13;&#10;cyBvdmVyIHRoZSBsYXp5IGRvZyEh")
  = Ok [Node [] (L"The quick brown fox jumps over the lazy dog!!") (L"encoding.base64") 0 70 []].
Proof. vm_compute. reflexivity. Qed.
Example base64_ex4 :
  find_base64 (L"VGhlIHF1aWNrIGJyb3duIGZveCBqdW1w&#xD;&#xA;cyBvdmVyIHRoZSBsYXp5IGRvZyEh")
  = Ok [Node [] (L"The quick brown fox jumps over the lazy dog!!") (L"encoding.base64") 0 70 []].
Proof. vm_compute. reflexivity. Qed.
Example base64_ex5 :
  find_base64 (L"VGhlIHF1aWNrIGJyb3duIGZveCBqdW1w&#xAcyBvdmVyIHRoZSBsYXp5IGRvZyEh")
  = Ok [Node [] (L"The quick brown fox jump") (L"encoding.base64") 0 32 []].
Proof. vm_compute. reflexivity. Qed.
Example base64_ex6 :
  find_base64 (L"VGhlIHF1aWNrIGJyb3du&#xAIGZveCBqdW1wcyBvdmVy&#xAIHRoZSBsYXp5IGRvZyEh")
  = Ok [].
Proof. vm_compute. reflexivity. Qed.
Example base64_ex7 :
  find_base64 [86;71;104;108;73;72;70;49;97;87;78;114;73;71;74;121;60;0;32;32;0;98;51;100;117;73;71;90;118;101;67;66;113;100;87;49;119;99;121;66;118;100;109;86;121;73;72;82;111;90;83;66;115;89;88;112;53;73;71;82;118;90;121;69;104]%N
  = Ok [Node [] (L"The quick brown fox jumps over the lazy dog!!") (L"encoding.base64") 0 65 []].
Proof. vm_compute. reflexivity. Qed.
Example base64_ex8 :
  find_base64 (L"0123456789abcdef0123456789abcdef")
  = Ok [].
Proof. vm_compute. reflexivity. Qed.
Example base64_ex9 :
  find_base64 (L"ThisIsSomeCamelCaseIdentifierNam")
  = Ok [].
Proof. vm_compute. reflexivity. Qed.
Example base64_ex10 :
  find_base64 (L"usr/lib/python3/dist/packages/xy")
  = Ok [].
Proof. vm_compute. reflexivity. Qed.
Example base64_ex11 :
  find_base64 (L"abababababababababababababababab")
  = Ok [].
Proof. vm_compute. reflexivity. Qed.
Example base64_ex12 :
  find_base64 (L"VGhlIHF1aWNrIGJyb3duIGZveCBqdW1wcyBvdmVyIHRoZSBsYXp5IGRvZyE")
  = Ok [].
Proof. vm_compute. reflexivity. Qed.
Example base64_ex13 :
  find_base64 (L"VGhlIHF1aWNrIGJyb3duIGZveCBqdW1wcyBvdmVyIHRoZSBsYXp5IGRvZy==")
  = Ok [Node [] (L"The quick brown fox jumps over the lazy dog") (L"encoding.base64") 0 60 []].
Proof. vm_compute. reflexivity. Qed.
Example base64_ex14 :
  find_base64 (L"QUJDREVGR0hJSktMTU5PUFFSU1RVVldY=")
  = Ok [].
Proof. vm_compute. reflexivity. Qed.
Example base64_ex15 :
  find_base64 ([86;71;104;108;73;72;70;49;97;87;78;114;73;71;74;121;98;51;100;117;73;71;90;118;101;67;66;113;100;87;49;119;99;121;66;118;100;109;86;121;73;72;82;111;90;83;66;115;89;88;112;53;73;71;82;118;90;121;69;104;10;86;71;104;108;73;72;70;49;97;87;78;114;73;71;74;121;98;51;100;117;73;71;90;118;101;67;66;113;100;87;49;119;99;121;66;118;100;109;86;121;73;72;82;111;90;83;66;115;89;88;112;53;73;71;82;118;90;121;69;104]%N)
  = Ok [Node [] (L"The quick brown fox jumps over the lazy dog!!The quick brown fox jumps over the lazy dog!!") (L"encoding.base64") 0 121 []].
Proof. vm_compute. reflexivity. Qed.
Example hex_ex1 :
  find_hex (L"68656c6c6f20776f726c6421")
  = Ok [Node [] (L"hello world!") (L"decoded.hexadecimal") 0 24 []].
Proof. vm_compute. reflexivity. Qed.
Example hex_ex2 :
  find_hex (L"68656C6C6F20776F726C6421")
  = Ok [Node [] (L"hello world!") (L"decoded.hexadecimal") 0 24 []].
Proof. vm_compute. reflexivity. Qed.
Example hex_ex3 :
  find_hex (L"68656c6c6f20776f726C6421AABBCCDDEEFF00112233")
  = Ok [Node [] [114;108;100;33;170;187;204;221;238;255;0;17;34;51]%N (L"decoded.hexadecimal") 16 44 []].
Proof. vm_compute. reflexivity. Qed.
Example hex_ex4 :
  find_hex (L"x 68656c6c6f20776f726c642 y")
  = Ok [Node [] (L"hello world") (L"decoded.hexadecimal") 2 24 []].
Proof. vm_compute. reflexivity. Qed.
Example hex_ex5 :
  find_hex (L"68656c6c6f20776f72")
  = Ok [].
Proof. vm_compute. reflexivity. Qed.
Example hex_ex6 :
  find_hex (L"68656c6c6f20776f726c; 4142434445464748494a4b4c")
  = Ok [Node [] (L"hello worl") (L"decoded.hexadecimal") 0 20 []; Node [] (L"ABCDEFGHIJKL") (L"decoded.hexadecimal") 22 46 []].
Proof. vm_compute. reflexivity. Qed.
Example hex_ex7 :
  find_hex (L"00000000000000000000")
  = Ok [Node [] [0;0;0;0;0;0;0;0;0;0]%N (L"decoded.hexadecimal") 0 20 []].
Proof. vm_compute. reflexivity. Qed.
Example hex_ex8 :
  find_hex (L"6g656c6c6f20776f726c6421aa")
  = Ok [Node [] [101;108;108;111;32;119;111;114;108;100;33;170]%N (L"decoded.hexadecimal") 2 26 []].
Proof. vm_compute. reflexivity. Qed.
Example hex_ex9 :
  find_hex []
  = Ok [].
Proof. vm_compute. reflexivity. Qed.
Example hex_ex10 :
  find_hex (L"ABCDEFabcdefABCDEFabcdef0011223344556677889900")
  = Ok [Node [] [171;205;239;0;17;34;51;68;85;102;119;136;153;0]%N (L"decoded.hexadecimal") 18 46 []].
Proof. vm_compute. reflexivity. Qed.
Example hexspace_ex1 :
  find_hex_space (L"68 65 6c 6c 6f 20 77 6f 72 6c")
  = Ok [Node [] (L"hello worl") (L"decoded.hexadecimal") 0 29 []].
Proof. vm_compute. reflexivity. Qed.
Example hexspace_ex2 :
  find_hex_space [54;56;32;54;53;32;54;67;32;54;99;9;54;102;10;50;48;32;32;55;55;32;54;102;32;55;50;32;54;99;32;54;52]%N
  = Ok [Node [] (L"hello world") (L"decoded.hexadecimal") 0 33 []].
Proof. vm_compute. reflexivity. Qed.
Example hexspace_ex3 :
  find_hex_space (L"68 65 6c 6c 6f 20 77 6f 72")
  = Ok [].
Proof. vm_compute. reflexivity. Qed.
Example hexspace_ex4 :
  find_hex_space (L"68 65 6c 6c 6f 20 77 6f 72 6")
  = Ok [].
Proof. vm_compute. reflexivity. Qed.
Example hexspace_ex5 :
  find_hex_space (L"686 65 6c 6c 6f 20 77 6f 72 6c 64")
  = Ok [Node [] [134;101;108;108;111;32;119;111;114;108;100]%N (L"decoded.hexadecimal") 1 33 []].
Proof. vm_compute. reflexivity. Qed.
Example hexspace_ex6 :
  find_hex_space (L"68 65 6c 6c 6f 20 77 6f 72 6c, 41 42 43 44 45 46 47 48 49 4a")
  = Ok [Node [] (L"hello worl") (L"decoded.hexadecimal") 0 29 []; Node [] (L"ABCDEFGHIJ") (L"decoded.hexadecimal") 31 60 []].
Proof. vm_compute. reflexivity. Qed.
Example hexspace_ex7 :
  find_hex_space [54;56;11;54;53;12;54;99;13;54;99;32;54;102;32;50;48;32;55;55;32;54;102;32;55;50;32;54;99]%N
  = Ok [Node [] (L"hello worl") (L"decoded.hexadecimal") 0 29 []].
Proof. vm_compute. reflexivity. Qed.
Example hexspace_ex8 :
  find_hex_space (L"68 65 6c 6c 6f 20 77 6f 72 6c64")
  = Ok [Node [] (L"hello worl") (L"decoded.hexadecimal") 0 29 []].
Proof. vm_compute. reflexivity. Qed.
Example hexspace_ex9 :
  find_hex_space (L"68,65,6c,6c,6f,20,77,6f,72,6c")
  = Ok [].
Proof. vm_compute. reflexivity. Qed.
Example hexspace_ex10 :
  find_hex_space (L"aa bb cc dd ee ff 00 11 22 33 44 55 66 ")
  = Ok [Node [] [170;187;204;221;238;255;0;17;34;51;68;85;102]%N (L"decoded.hexadecimal") 0 38 []].
Proof. vm_compute. reflexivity. Qed.
Example hexcomma_ex1 :
  find_hex_comma (L"68,65,6c,6c,6f,20,77,6f,72,6c")
  = Ok [Node [] (L"hello worl") (L"decoded.hexadecimal") 0 29 []].
Proof. vm_compute. reflexivity. Qed.
Example hexcomma_ex2 :
  find_hex_comma [54;56;44;32;54;53;32;44;54;67;32;44;32;54;99;44;9;54;102;44;10;50;48;44;55;55;44;54;102;44;55;50;44;54;99;44;54;52]%N
  = Ok [Node [] (L"hello world") (L"decoded.hexadecimal") 0 38 []].
Proof. vm_compute. reflexivity. Qed.
Example hexcomma_ex3 :
  find_hex_comma (L"68,65,6c,6c,6f,20,77,6f,72")
  = Ok [].
Proof. vm_compute. reflexivity. Qed.
Example hexcomma_ex4 :
  find_hex_comma (L"68,65,6c,6c,6f,20,77,6f,72,6")
  = Ok [].
Proof. vm_compute. reflexivity. Qed.
Example hexcomma_ex5 :
  find_hex_comma (L"68,,65,6c,6c,6f,20,77,6f,72,6c,64")
  = Ok [Node [] (L"ello world") (L"decoded.hexadecimal") 4 33 []].
Proof. vm_compute. reflexivity. Qed.
Example hexcomma_ex6 :
  find_hex_comma (L"0x68,65,6c,6c,6f,20,77,6f,72,6c,64")
  = Ok [Node [] (L"hello world") (L"decoded.hexadecimal") 2 34 []].
Proof. vm_compute. reflexivity. Qed.
Example hexcomma_ex7 :
  find_hex_comma (L"68 65 6c 6c 6f 20 77 6f 72 6c")
  = Ok [].
Proof. vm_compute. reflexivity. Qed.
Example hexcomma_ex8 :
  find_hex_comma (L"68,65,6c,6c,6f,20,77,6f,72,6c;41,42,43,44,45,46,47,48,49,4a")
  = Ok [Node [] (L"hello worl") (L"decoded.hexadecimal") 0 29 []; Node [] (L"ABCDEFGHIJ") (L"decoded.hexadecimal") 30 59 []].
Proof. vm_compute. reflexivity. Qed.
Example hexcomma_ex9 :
  find_hex_comma (L"686,65,6c,6c,6f,20,77,6f,72,6c,64")
  = Ok [Node [] [134;101;108;108;111;32;119;111;114;108;100]%N (L"decoded.hexadecimal") 1 33 []].
Proof. vm_compute. reflexivity. Qed.
Example hexcomma_ex10 :
  find_hex_comma (L"a1, b2, c3, d4, e5, f6, 07, 18, 29, 3a, ")
  = Ok [Node [] [161;178;195;212;229;246;7;24;41;58]%N (L"decoded.hexadecimal") 0 38 []].
Proof. vm_compute. reflexivity. Qed.
Example fromhex_ex1 :
  find_FromHexString (L"[System.Convert]::FromHexString('68656c6c6f20776f726c6421')")
  = Ok [Node (L"powershell.bytes") (L"hello world!") (L"encoding.hexidecimal") 0 59 []].
Proof. vm_compute. reflexivity. Qed.
Example fromhex_ex2 :
  find_FromHexString (L"FromHexString('68656C6C6F20776F726C') -bxor 32")
  = Ok [Node (L"powershell.bytes") (L"hello worl") (L"encoding.hexidecimal") 0 37 [Node (L"powershell.bytes") [72;69;76;76;79;0;87;79;82;76]%N (L"cipher.xor32") 0 10 []]].
Proof. vm_compute. reflexivity. Qed.
Example fromhex_ex3 :
  find_FromHexString (L"fromhexstring('68656c6C6f20776F726c')")
  = Ok [Node (L"powershell.bytes") (L"hello worl") (L"encoding.hexidecimal") 0 37 []].
Proof. vm_compute. reflexivity. Qed.
Example fromhex_ex4 :
  find_FromHexString (L"FromHexString('68656c6c6f20776f726') -bxor 1")
  = Ok [].
Proof. vm_compute. reflexivity. Qed.
Example fromhex_ex5 :
  find_FromHexString [70;114;111;109;72;101;120;83;116;114;105;110;103;40;34;54;56;54;53;54;99;54;99;54;102;50;48;55;55;54;102;55;50;54;99;34;41]%N
  = Ok [].
Proof. vm_compute. reflexivity. Qed.
Example fromhex_ex6 :
  find_FromHexString (L"-bxor 0 FromHexString('4141414141414141414141')")
  = Ok [Node (L"powershell.bytes") (L"AAAAAAAAAAA") (L"encoding.hexidecimal") 8 47 []].
Proof. vm_compute. reflexivity. Qed.
Example fromhex_ex7 :
  find_FromHexString (L"FromHexString('41414141414141414141') -bxor 300")
  = Ok [Node (L"powershell.bytes") (L"AAAAAAAAAA") (L"encoding.hexidecimal") 0 37 []].
Proof. vm_compute. reflexivity. Qed.
Example fromhex_ex8 :
  find_FromHexString (L"FromHexString('41414141414141414141')FromHexString('42424242424242424242')-xor 3")
  = Ok [Node (L"powershell.bytes") (L"AAAAAAAAAA") (L"encoding.hexidecimal") 0 37 [Node (L"powershell.bytes") (L"BBBBBBBBBB") (L"cipher.xor3") 0 10 []]; Node (L"powershell.bytes") (L"BBBBBBBBBB") (L"encoding.hexidecimal") 37 74 [Node (L"powershell.bytes") (L"AAAAAAAAAA") (L"cipher.xor3") 0 10 []]].
Proof. vm_compute. reflexivity. Qed.
Example fromhex_ex9 :
  find_FromHexString (L"FromHexString('414141414141414141')")
  = Ok [].
Proof. vm_compute. reflexivity. Qed.
Example fromhex_ex10 :
  find_FromHexString (L"[System_Convert]::FromHexString('41414141414141414141') -bxor 999")
  = Ok [Node (L"powershell.bytes") (L"AAAAAAAAAA") (L"encoding.hexidecimal") 0 55 []].
Proof. vm_compute. reflexivity. Qed.
Example get_xorkey_ex1 : get_xorkey (L"-bxor 35") = Ok (Some 35).
Proof. vm_compute. reflexivity. Qed.
Example get_xorkey_ex2 : get_xorkey (L"x -XOR  7") = Ok (Some 7).
Proof. vm_compute. reflexivity. Qed.
Example get_xorkey_ex3 : get_xorkey (L"-bxor 1234") = Ok (Some 123).
Proof. vm_compute. reflexivity. Qed.
Example get_xorkey_ex4 : get_xorkey (L"-bxor 0x41") = Ok (Some 0).
Proof. vm_compute. reflexivity. Qed.
Example get_xorkey_ex5 : get_xorkey (L"-bxor") = Ok None.
Proof. vm_compute. reflexivity. Qed.
Example get_xorkey_ex6 : get_xorkey (L"-b xor 3") = Ok None.
Proof. vm_compute. reflexivity. Qed.
Example get_xorkey_ex7 : get_xorkey (L"-xor007") = Ok (Some 7).
Proof. vm_compute. reflexivity. Qed.
Example get_xorkey_ex8 : get_xorkey (L"no key") = Ok None.
Proof. vm_compute. reflexivity. Qed.
Example get_xorkey_ex9 : get_xorkey [45;98;120;111;114;10;9;49;51;32;45;98;120;111;114;32;53]%N = Ok (Some 13).
Proof. vm_compute. reflexivity. Qed.
Example get_xorkey_ex10 : get_xorkey (L"-bxor 999") = Ok (Some 999).
Proof. vm_compute. reflexivity. Qed.
Example apply_xor_key_ex1 :
  apply_xor_key 35 (L"ABC") (Node (L"t") (L"v") (L"o") 1 2 [Node (L"k") [] [] 0 0 []]) (L"new")
  = Ok (Node (L"t") (L"v") (L"o") 1 2 [Node (L"k") [] [] 0 0 []; Node (L"new") (L"ba`") (L"cipher.xor35") 0 3 []]).
Proof. vm_compute. reflexivity. Qed.
Example apply_xor_key_ex2 :
  apply_xor_key 0 (L"ABC") (Node (L"t") (L"v") (L"o") 1 2 [Node (L"k") [] [] 0 0 []]) (L"new")
  = Ok (Node (L"t") (L"v") (L"o") 1 2 [Node (L"k") [] [] 0 0 []; Node (L"new") (L"ABC") (L"cipher.xor0") 0 3 []]).
Proof. vm_compute. reflexivity. Qed.
Example apply_xor_key_ex3 :
  apply_xor_key 255 [0;255;128]%N (Node (L"t") (L"v") (L"o") 1 2 [Node (L"k") [] [] 0 0 []]) (L"new")
  = Ok (Node (L"t") (L"v") (L"o") 1 2 [Node (L"k") [] [] 0 0 []; Node (L"new") [255;0;127]%N (L"cipher.xor255") 0 3 []]).
Proof. vm_compute. reflexivity. Qed.
Example apply_xor_key_ex4 :
  apply_xor_key 256 (L"ABC") (Node (L"t") (L"v") (L"o") 1 2 [Node (L"k") [] [] 0 0 []]) (L"new")
  = Ok (Node (L"t") (L"v") (L"o") 1 2 [Node (L"k") [] [] 0 0 []]).
Proof. vm_compute. reflexivity. Qed.
Example apply_xor_key_ex5 :
  apply_xor_key 999 [] (Node (L"t") (L"v") (L"o") 1 2 [Node (L"k") [] [] 0 0 []]) (L"new")
  = Ok (Node (L"t") (L"v") (L"o") 1 2 [Node (L"k") [] [] 0 0 []]).
Proof. vm_compute. reflexivity. Qed.
Example apply_xor_key_ex6 :
  apply_xor_key (-1) (L"A") (Node (L"t") (L"v") (L"o") 1 2 [Node (L"k") [] [] 0 0 []]) (L"new")
  = Raise (L"ValueError").
Proof. vm_compute. reflexivity. Qed.
Example apply_xor_key_ex7 :
  apply_xor_key (-1) [] (Node (L"t") (L"v") (L"o") 1 2 [Node (L"k") [] [] 0 0 []]) (L"new")
  = Ok (Node (L"t") (L"v") (L"o") 1 2 [Node (L"k") [] [] 0 0 []; Node (L"new") [] (L"cipher.xor-1") 0 0 []]).
Proof. vm_compute. reflexivity. Qed.
Example apply_xor_key_ex8 :
  apply_xor_key 1 [] (Node (L"t") (L"v") (L"o") 1 2 [Node (L"k") [] [] 0 0 []]) (L"new")
  = Ok (Node (L"t") (L"v") (L"o") 1 2 [Node (L"k") [] [] 0 0 []; Node (L"new") [] (L"cipher.xor1") 0 0 []]).
Proof. vm_compute. reflexivity. Qed.
Example decode_byte_ex1 : decode_byte (L"0x41") = Ok 65.
Proof. vm_compute. reflexivity. Qed.
Example decode_byte_ex2 : decode_byte (L" 0xfF") = Ok 255.
Proof. vm_compute. reflexivity. Qed.
Example decode_byte_ex3 : decode_byte [10;9;50;53;53;32]%N = Ok 255.
Proof. vm_compute. reflexivity. Qed.
Example decode_byte_ex4 : decode_byte (L"256") = Ok 256.
Proof. vm_compute. reflexivity. Qed.
Example decode_byte_ex5 : decode_byte (L"0X41") = Raise (L"ValueError").
Proof. vm_compute. reflexivity. Qed.
Example decode_byte_ex6 : decode_byte (L"007") = Ok 7.
Proof. vm_compute. reflexivity. Qed.
Example decode_byte_ex7 : decode_byte [] = Raise (L"ValueError").
Proof. vm_compute. reflexivity. Qed.
Example decode_byte_ex8 : decode_byte (L"0x") = Raise (L"ValueError").
Proof. vm_compute. reflexivity. Qed.
Example decode_byte_ex9 : decode_byte (L"0x_4_1") = Ok 65.
Proof. vm_compute. reflexivity. Qed.
Example decode_byte_ex10 : decode_byte (L"+5") = Ok 5.
Proof. vm_compute. reflexivity. Qed.
Example decode_byte_ex11 : decode_byte (L"-1") = Ok (-1).
Proof. vm_compute. reflexivity. Qed.
Example decode_byte_ex12 : decode_byte (L"1_0") = Ok 10.
Proof. vm_compute. reflexivity. Qed.
Example decode_byte_ex13 : decode_byte [28;53]%N = Raise (L"ValueError").
Proof. vm_compute. reflexivity. Qed.
Example decode_byte_ex14 : decode_byte [49;50;128]%N = Raise (L"UnicodeDecodeError").
Proof. vm_compute. reflexivity. Qed.
Example decode_byte_ex15 : decode_byte (L"0x100") = Ok 256.
Proof. vm_compute. reflexivity. Qed.
Example ps_ex1 :
  find_powershell_bytes (fun b => [firstn 3 b; L"zz"]) (concat (repeat (L"0x41,") 500) ++ (L"0x42"))
  = Ok [Node (L"powershell.bytes") (repeat 65%N 500 ++ (L"B")) [] 0 2504 []].
Proof. vm_compute. reflexivity. Qed.
Example ps_ex2 :
  find_powershell_bytes (fun b => [firstn 3 b; L"zz"]) ((L"$x = ") ++ concat (repeat (L"65, ") 500) ++ (L"66; -bxor 32"))
  = Ok [Node (L"powershell.bytes") (repeat 65%N 500 ++ (L"B")) [] 5 2007 [Node (L"powershell.bytes") (repeat 97%N 500 ++ (L"b")) (L"cipher.xor32") 0 501 []]].
Proof. vm_compute. reflexivity. Qed.
Example ps_ex3 :
  find_powershell_bytes (fun b => [firstn 3 b; L"zz"]) (concat (repeat (L"65,") 300) ++ (L"256,") ++ concat (repeat (L"66,") 300) ++ (L"1"))
  = Ok [].
Proof. vm_compute. reflexivity. Qed.
Example ps_ex4 :
  find_powershell_bytes (fun b => [firstn 3 b; L"zz"]) (concat (repeat (L"0x41,") 250) ++ (L"0X41,") ++ concat (repeat (L"0x41,") 250) ++ (L"0x41"))
  = Ok [].
Proof. vm_compute. reflexivity. Qed.
Example ps_ex5 :
  find_powershell_bytes (fun b => [firstn 3 b; L"zz"]) ((L"-bxor $k ") ++ concat (repeat [55;44;13;10]%N 500) ++ (L"8"))
  = Ok [Node (L"powershell.bytes") (repeat 7%N 500 ++ [8]%N) [] 9 2010 [Node (L"powershell.bytes") [7;7;7]%N (L"cipher.multibyte_xor") 0 501 []]].
Proof. vm_compute. reflexivity. Qed.
Example ps_ex6 :
  find_powershell_bytes (fun b => [firstn 3 b; L"zz"]) (concat (repeat (L"1,") 499) ++ (L"2"))
  = Ok [].
Proof. vm_compute. reflexivity. Qed.
Example ps_ex7 :
  find_powershell_bytes (fun b => [firstn 3 b; L"zz"]) ((L"-bxor 0 ") ++ concat (repeat (L"200,") 500) ++ (L"0xfe -xor 3"))
  = Ok [Node (L"powershell.bytes") (repeat 200%N 500 ++ [254]%N) [] 8 2012 [Node (L"powershell.bytes") [200;200;200]%N (L"cipher.multibyte_xor") 0 501 []]].
Proof. vm_compute. reflexivity. Qed.
Example ps_ex8 :
  find_powershell_bytes (fun b => [firstn 3 b; L"zz"]) ((L"-xor 300;") ++ concat (repeat (L"1,") 500) ++ (L"2"))
  = Ok [Node (L"powershell.bytes") (repeat 1%N 500 ++ [2]%N) [] 9 1010 []].
Proof. vm_compute. reflexivity. Qed.

(* ================================================================== *)
(* PINNED TO THE CURRENT PATTERNS                                      *)
(* ================================================================== *)
(* The statements below say what the two filter patterns of find_base64 mean TODAY: they inspect the generated
   terms (by name) and are expected to FAIL when HEX_RE or CAMEL_RE of decoders/base64.py is edited - which is
   the intent: such an edit changes what find_base64 accepts and C13 has to be looked at again.  Everything
   above this line is independent of the shape of any pattern. *)

Lemma HEX_RE_is_hex_plus :
  exists mk, RE_base64_HEX_RE = Rep 1 None (Cls mk) /\
             forall c, (c < 256)%N -> N.testbit mk c = is_hex_digit c.
Proof.
  eexists. split; [reflexivity|]. intros c Hc.
  match goal with |- N.testbit ?mk c = _ =>
    assert (F : forallb (fun x => Bool.eqb (N.testbit mk x) (is_hex_digit x)) (map N.of_nat (seq 0 256)) = true)
      by (vm_compute; reflexivity)
  end.
  rewrite forallb_forall in F. specialize (F c (in_range 256 c Hc)). apply Bool.eqb_prop in F. exact F.
Qed.

Lemma CAMEL_RE_is_alpha_plus :
  exists mk, RE_base64_CAMEL_RE = Rep 1 None (Cls mk) /\
             forall c, (c < 256)%N -> N.testbit mk c = is_alpha_ascii c.
Proof.
  eexists. split; [reflexivity|]. intros c Hc.
  match goal with |- N.testbit ?mk c = _ =>
    assert (F : forallb (fun x => Bool.eqb (N.testbit mk x) (is_alpha_ascii x)) (map N.of_nat (seq 0 256)) = true)
      by (vm_compute; reflexivity)
  end.
  rewrite forallb_forall in F. specialize (F c (in_range 256 c Hc)). apply Bool.eqb_prop in F. exact F.
Qed.

Lemma forallb_ext_wf (f g : N -> bool) s :
  (forall c, (c < 256)%N -> f c = g c) -> wf_bytes s -> forallb f s = forallb g s.
Proof.
  intros H. induction 1 as [|c r Hc Hr IH]; [reflexivity|]. cbn [forallb]. rewrite (H c Hc), IH. reflexivity.
Qed.

(* find_base64 attempts the decode exactly when: length multiple of 4, more than MIN_B64_CHARS distinct bytes,
   not all hex digits, not all ASCII letters, and 32 * slashes <= 3 * length *)
Theorem b64_accept_chars s :
  wf_bytes s -> blen s + 4 <= 4000000 ->
  b64_accept s =
  Ok ((blen s mod 4 =? 0) && (MIN_B64_CHARS <? n_distinct s) &&
      negb (forallb is_hex_digit s) && negb (forallb is_alpha_ascii s) &&
      (32 * count_byte 47%N s <=? 3 * blen s)).
Proof.
  intros Hwf Hl.
  destruct HEX_RE_is_hex_plus as (mkh & Eh & Hh). destruct CAMEL_RE_is_alpha_plus as (mkc & Ec & Hc).
  rewrite (b64_accept_classes mkh mkc s Eh Ec Hl).
  rewrite (forallb_ext_wf _ _ s Hh Hwf), (forallb_ext_wf _ _ s Hc Hwf). reflexivity.
Qed.

(* ================================================================== *)
Print Assumptions xor_bytes_ok.
Print Assumptions apply_xor_key_spec.
Print Assumptions get_xorkey_of_ok.
Print Assumptions b64_call_post_spec.
Print Assumptions b64_call_post_sound.
Print Assumptions b64_call_post_canonical.
Print Assumptions find_atob_post_total.
Print Assumptions find_Base64Decode_post_total.
Print Assumptions find_FromBase64String_post_sound.
Print Assumptions find_FromBase64String_post_total.
Print Assumptions find_FromBase64String_post_canonical.
Print Assumptions b64_clean_no_crlf.
Print Assumptions b64_accept_true.
Print Assumptions find_base64_post_sound.
Print Assumptions find_base64_post_complete.
Print Assumptions find_base64_post_no_raise.
Print Assumptions find_base64_post_total.
Print Assumptions find_hex_post_spec.
Print Assumptions find_hex_post_raises.
Print Assumptions find_hex_space_post_spec.
Print Assumptions find_hex_comma_post_spec.
Print Assumptions find_FromHexString_post_ok.
Print Assumptions find_FromHexString_post_total.
Print Assumptions decode_byte_tok.
Print Assumptions ps_binary_spec.
Print Assumptions find_powershell_bytes_post_spec.
Print Assumptions find_powershell_bytes_post_total.
Print Assumptions b64_call_post_spans.
Print Assumptions fullmatch_class_plus.
Print Assumptions b64_accept_classes.
Print Assumptions b64_accept_chars.
