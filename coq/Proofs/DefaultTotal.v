(* C01, assembly: the whole shipped registry never raises.
   1. Weak engine totality: the pop loop of scan_node only reads the END of a hit, so the engine is total
      as soon as every kept hit ends inside the searched value (no hypothesis on the start: finding F6).
      More generally, whatever scan_node_r fails with, some registry call failed with.
   2. Every searcher of the shipped registry only reports hits that end inside the data, and never raises.
   3. scan_default never raises. *)
From Coq Require Import Sorting.Permutation.
From MD Require Import Lib.Base Model.Node Model.Engine Model.EngineR
  Proofs.BaseProofs Proofs.SortProofs Proofs.EngineRefine Proofs.EngineTotal.
From MD Require Import Regex.Syntax Regex.Backtrack Regex.BacktrackProofs Generated.Regexes Generated.Tables
  Generated.RegistryTable Model.Keyword Model.Registry Model.Default Model.Dec.ReLib Model.Dec.EscDec Model.Dec.StrOps
  Model.Dec.Shell Model.Dec.B64Hex Model.Dec.PathDec Model.Dec.Network.
From MD Require Import Proofs.KeywordProofs Proofs.EscDecProofs Proofs.StrOpsProofs Proofs.ShellProofs Proofs.B64HexProofs
  Proofs.PathDecProofs Proofs.NetworkProofs Proofs.Shapes1 Proofs.Shapes2 Proofs.Shapes3.

Local Arguments shift : simpl never.

(* ====================================================================== *)
(* 1. Weak engine totality                                                 *)
(* ====================================================================== *)

(* The invariant of the context stack, for the scan of node [n]: the bottom frame is [n] itself and
   [offset] is the sum of the starts of the open context frames above it (push adds the start of the
   new context, pop subtracts the start of the context it closes). *)
Fixpoint off_inv (n : node) (c : frame) (stk : list frame) (off : Z) : Prop :=
  match stk with
  | [] => f_node c = n /\ off = 0
  | p :: stk' => off_inv n p stk' (off - n_st (f_node c))
  end.

(* the same, in closed form *)
Definition open_starts (c : frame) (stk : list frame) : Z :=
  fold_right Z.add 0 (map (fun f => n_st (f_node f)) (removelast (c :: stk))).

Lemma last_cons_default {A} : forall (l : list A) a d, last (a :: l) d = last l a.
Proof.
  induction l as [|b l IH]; intros a d; [reflexivity|].
  change (last (a :: b :: l) d) with (last (b :: l) d). rewrite (IH b d), (IH b a). reflexivity.
Qed.

Lemma off_inv_closed_form n : forall stk c off,
  off_inv n c stk off <-> (f_node (last stk c) = n /\ off = open_starts c stk).
Proof.
  induction stk as [|p stk IH]; intros c off.
  - cbn [off_inv last]. unfold open_starts. cbn. tauto.
  - cbn [off_inv]. rewrite IH, last_cons_default. unfold open_starts.
    change (removelast (c :: p :: stk)) with (c :: removelast (p :: stk)).
    cbn [map fold_right].
    split; intros [H1 H2]; (split; [exact H1 | lia]).
Qed.

Lemma off_inv_node n stk c c' off :
  f_node c' = f_node c -> off_inv n c stk off -> off_inv n c' stk off.
Proof. intros E. destruct stk as [|p stk]; cbn [off_inv]; rewrite E; trivial. Qed.

(* the pop loop finds a containing context at the latest at the bottom frame: never Hang *)
Lemma pop_until_weak n hend : hend <= blen (n_val n) ->
  forall stk c off, off_inv n c stk off ->
  exists c' stk' off', pop_until hend c stk off = Ok (c', stk', off') /\ off_inv n c' stk' off'.
Proof.
  intros Hb. induction stk as [|p stk IH]; intros c off Hinv.
  - cbn [off_inv] in Hinv. destruct Hinv as [Hc ->]. cbn [pop_until]. rewrite Hc.
    destruct (Z.gtb_spec hend (0 + blen (n_val n))) as [Hgt|_]; [lia|].
    exists c, [], 0. split; [reflexivity|]. cbn [off_inv]. split; [exact Hc | reflexivity].
  - cbn [pop_until]. destruct (Z.gtb_spec hend (off + blen (n_val (f_node c)))) as [_|_].
    + apply IH. cbn [off_inv] in Hinv. eapply off_inv_node; [|exact Hinv]. reflexivity.
    + exists c, (p :: stk), off. split; [reflexivity | exact Hinv].
Qed.

(* an outcome that is either fine or a failure handed up unchanged from a call of [f] *)
Definition fail_from {A B S} (f : A -> res B) (r : res S) (P : S -> Prop) : Prop :=
  match r with
  | Ok s => P s
  | Raise e => exists x, f x = Raise e
  | Hang => exists x, f x = Hang
  end.

Definition st_inv (n : node) (s : state) : Prop := off_inv n (cur s) (stack s) (offset s).

Lemma init_st_inv n : st_inv n (init_state n).
Proof. unfold st_inv, init_state. cbn. split; reflexivity. Qed.

(* one iteration keeps the invariant; it fails only when the recursive scan of a decoded hit fails *)
Lemma step_weak n rec s hit :
  st_inv n s -> n_en hit <= blen (n_val n) -> fail_from rec (step rec s hit) (st_inv n).
Proof.
  intros Hinv Hb. unfold step.
  destruct (n_en hit <=? decode_end s); [exact Hinv|].
  destruct (pop_until_weak n (n_en hit) Hb _ _ _ Hinv) as (c & stk & off & Hp & Hi).
  rewrite Hp. cbn [bind].
  destruct (restates (f_node c) (shift hit (- off))); [exact Hi|].
  destruct (is_decoding (n_val (f_node c)) (shift hit (- off))).
  - destruct (rec (shift hit (- off))) as [h2|e|] eqn:Er; cbn [bind fail_from].
    + unfold st_inv. cbn [cur stack offset]. eapply off_inv_node; [|exact Hi]. reflexivity.
    + eexists. exact Er.
    + eexists. exact Er.
  - unfold fail_from, st_inv. cbn [cur stack offset off_inv open_frame f_node].
    replace (off + n_st (shift hit (- off)) - n_st (shift hit (- off))) with off by lia. exact Hi.
Qed.

Lemma foldM_step_weak n rec : forall l s,
  st_inv n s -> Forall (fun h => n_en h <= blen (n_val n)) l ->
  fail_from rec (foldM (step rec) l s) (fun _ => True).
Proof.
  induction l as [|h l IH]; intros s Hinv Hall; [exact I|].
  inversion Hall as [|? ? Hh Hl]; subst. cbn [foldM].
  pose proof (step_weak n rec s h Hinv Hh) as Hs.
  destruct (step rec s h) as [s'|e|]; cbn [bind fail_from] in *; [apply IH; assumption | exact Hs ..].
Qed.

Lemma mapM_fail_from {A B} (f : A -> res B) : forall l, fail_from f (mapM f l) (fun _ => True).
Proof.
  induction l as [|x l IH]; [exact I|]. cbn [mapM].
  destruct (f x) as [y|e|] eqn:Ex; cbn [bind fail_from]; [|eexists; exact Ex ..].
  destruct (mapM f l) as [ys|e|]; cbn [bind fail_from] in *; [exact I | exact IH ..].
Qed.

Section Weak.
  Variable searchr : bytes -> res (list node).
  (* the END of every kept hit lies inside the searched value; nothing is asked of the start *)
  Hypothesis Hends : forall v hs, searchr v = Ok hs ->
    forall h, In h hs -> nonempty_val h = true -> n_en h <= blen v.

  Definition origin (r : res node) : Prop :=
    match r with
    | Ok _ => True
    | Raise e => exists v, searchr v = Raise e
    | Hang => exists v, searchr v = Hang
    end.

  (* whatever the scan of a node fails with, a registry call failed with: the engine itself adds no
     exception and no non-termination *)
  Theorem scan_node_r_failure_origin : forall d n, origin (scan_node_r searchr d n).
  Proof.
    induction d as [|d IH]; intros n; [exact I|].
    cbn [scan_node_r]. destruct (n_kids n) as [|c0 cs] eqn:Ek.
    - destruct (searchr (n_val n)) as [hits|e|] eqn:Es; cbn [bind origin]; [|exists (n_val n); exact Es ..].
      assert (Hall : Forall (fun h => n_en h <= blen (n_val n)) (sort_hits (filter nonempty_val hits))).
      { apply Forall_forall. intros h Hin.
        apply (Permutation_in _ (sort_hits_perm _)) in Hin. apply filter_In in Hin. destruct Hin as [Hin Hne].
        apply (Hends _ _ Es h Hin Hne). }
      pose proof (foldM_step_weak n (scan_node_r searchr d) _ _ (init_st_inv n) Hall) as Hf.
      destruct (foldM _ _ _) as [s|e|]; cbn [bind fail_from origin] in *; [exact I | |].
      + destruct Hf as [h Hh]. specialize (IH h). rewrite Hh in IH. exact IH.
      + destruct Hf as [h Hh]. specialize (IH h). rewrite Hh in IH. exact IH.
    - pose proof (mapM_fail_from (scan_node_r searchr d) (c0 :: cs)) as Hf.
      destruct (mapM _ _) as [ks|e|]; cbn [bind fail_from origin] in *; [exact I | |].
      + destruct Hf as [h Hh]. specialize (IH h). rewrite Hh in IH. exact IH.
      + destruct Hf as [h Hh]. specialize (IH h). rewrite Hh in IH. exact IH.
  Qed.

  Corollary scan_r_failure_origin depth data : origin (scan_r searchr depth data).
  Proof. unfold scan_r. destruct (depth <=? 0); [exact I | apply scan_node_r_failure_origin]. Qed.
End Weak.

(* ---------- the pure engine ---------- *)
Theorem scan_node_total_weak search :
  (forall v h, In h (search v) -> nonempty_val h = true -> n_en h <= blen v) ->
  forall d n, exists t, scan_node search d n = Ok t.
Proof.
  intros H d n.
  rewrite <- (scan_node_r_pure (fun v => Ok (search v)) search (fun v => eq_refl)).
  pose proof (scan_node_r_failure_origin (fun v => Ok (search v))) as Ho.
  specialize (Ho ltac:(intros v hs E; injection E as <-; apply H) d n).
  destruct (scan_node_r _ d n) as [t|e|]; cbn [origin] in Ho;
    [exists t; reflexivity | destruct Ho as [v Hv]; discriminate Hv ..].
Qed.

Theorem scan_total_weak search :
  (forall v h, In h (search v) -> nonempty_val h = true -> n_en h <= blen v) ->
  forall depth data, exists t, scan search depth data = Ok t.
Proof.
  intros H depth data. unfold scan.
  destruct (depth <=? 0); [eexists; reflexivity | apply scan_node_total_weak, H].
Qed.

(* ---------- a registry that may hang but not raise ---------- *)
Theorem scan_node_r_never_raises searchr :
  (forall v, searchr v = Hang \/
             exists hs, searchr v = Ok hs /\ forall h, In h hs -> nonempty_val h = true -> n_en h <= blen v) ->
  forall d n, scan_node_r searchr d n = Hang \/ exists t, scan_node_r searchr d n = Ok t.
Proof.
  intros H d n.
  pose proof (scan_node_r_failure_origin searchr) as Ho.
  specialize (Ho ltac:(intros v hs E; destruct (H v) as [E'|(hs' & E' & Hb)];
                       [congruence | rewrite E in E'; injection E' as <-; exact Hb]) d n).
  destruct (scan_node_r searchr d n) as [t|e|]; cbn [origin] in Ho; [right; exists t; reflexivity | | left; reflexivity].
  destruct Ho as [v Hv]. destruct (H v) as [E|(hs & E & _)]; congruence.
Qed.

Theorem scan_r_never_raises searchr :
  (forall v, searchr v = Hang \/
             exists hs, searchr v = Ok hs /\ forall h, In h hs -> nonempty_val h = true -> n_en h <= blen v) ->
  forall depth data, scan_r searchr depth data = Hang \/ exists t, scan_r searchr depth data = Ok t.
Proof.
  intros H depth data. unfold scan_r.
  destruct (depth <=? 0); [right; eexists; reflexivity | apply scan_node_r_never_raises, H].
Qed.

Theorem scan_r_total_weak searchr :
  (forall v, exists hs, searchr v = Ok hs /\ forall h, In h hs -> nonempty_val h = true -> n_en h <= blen v) ->
  forall depth data, exists t, scan_r searchr depth data = Ok t.
Proof.
  intros H depth data.
  pose proof (scan_r_failure_origin searchr) as Ho.
  specialize (Ho ltac:(intros v hs E; destruct (H v) as (hs' & E' & Hb);
                       rewrite E in E'; injection E' as <-; exact Hb) depth data).
  destruct (scan_r searchr depth data) as [t|e|]; cbn [origin] in Ho; [exists t; reflexivity | |];
    destruct Ho as [v Hv]; destruct (H v) as (hs & E & _); congruence.
Qed.

(* ---------- a registry given as a list of searchers ---------- *)
Lemma run_all_cases (P : node -> Prop) v : forall ds,
  Forall (fun d => d v = Hang \/ exists hs, d v = Ok hs /\ forall h, In h hs -> P h) ds ->
  run_all ds v = Hang \/ exists hs, run_all ds v = Ok hs /\ forall h, In h hs -> P h.
Proof.
  induction ds as [|d ds IH]; intros Hall.
  - right. exists []. split; [reflexivity | intros h []].
  - inversion Hall as [|? ? Hd Hrest]; subst. cbn [run_all].
    destruct Hd as [-> |(a & -> & Ha)]; cbn [bind]; [left; reflexivity|].
    destruct (IH Hrest) as [-> |(b & -> & Hb)]; cbn [bind]; [left; reflexivity | right].
    exists (a ++ b). split; [reflexivity|]. intros h Hin. apply in_app_or in Hin. destruct Hin; auto.
Qed.

Lemma run_all_all_ok (P : node -> Prop) v : forall ds,
  Forall (fun d => exists hs, d v = Ok hs /\ forall h, In h hs -> P h) ds ->
  exists hs, run_all ds v = Ok hs /\ forall h, In h hs -> P h.
Proof.
  induction ds as [|d ds IH]; intros Hall.
  - exists []. split; [reflexivity | intros h []].
  - inversion Hall as [|? ? (a & Ea & Ha) Hrest]; subst. cbn [run_all]. rewrite Ea. cbn [bind].
    destruct (IH Hrest) as (b & -> & Hb). cbn [bind].
    exists (a ++ b). split; [reflexivity|]. intros h Hin. apply in_app_or in Hin. destruct Hin; auto.
Qed.

Theorem scan_run_all_total_weak ds :
  (forall v, Forall (fun d => exists hs, d v = Ok hs /\
                              forall h, In h hs -> nonempty_val h = true -> n_en h <= blen v) ds) ->
  forall depth data, exists t, scan_r (run_all ds) depth data = Ok t.
Proof.
  intros H. apply scan_r_total_weak. intros v.
  apply (run_all_all_ok (fun h => nonempty_val h = true -> n_en h <= blen v) v ds (H v)).
Qed.

Theorem scan_run_all_never_raises ds :
  (forall v, Forall (fun d => d v = Hang \/
                              exists hs, d v = Ok hs /\
                                         (forall h, In h hs -> nonempty_val h = true -> n_en h <= blen v)) ds) ->
  forall depth data, scan_r (run_all ds) depth data = Hang \/ exists t, scan_r (run_all ds) depth data = Ok t.
Proof.
  intros H. apply scan_r_never_raises. intros v.
  apply (run_all_cases (fun h => nonempty_val h = true -> n_en h <= blen v) v ds (H v)).
Qed.

(* the weak precondition is really weaker: a hit whose end precedes its start (the shape of F6) is
   rejected by hit_ok, and the engine goes through *)
Definition search_f6 (v : bytes) : list node :=
  if beqb v (L"abcdefgh") then [Node (L"t") (L"XY") (L"o") 6 2 []] else [].

Example scan_f6_total : scan search_f6 5 (L"abcdefgh") =
  Ok (Node [] (L"abcdefgh") [] 0 8 [Node (L"t") (L"XY") (L"o") 6 2 []]).
Proof. vm_compute. reflexivity. Qed.

Example search_f6_not_hit_ok : ~ hit_ok (L"abcdefgh") (Node (L"t") (L"XY") (L"o") 6 2 []).
Proof. unfold hit_ok. cbn. lia. Qed.

(* ====================================================================== *)
(* 2. Every searcher of the shipped registry: never raises, hits end inside the data *)
(* ====================================================================== *)
Definition ends_in (v : bytes) (n : node) : Prop := n_en n <= blen v.

Definition dec_ok (d : bytes -> res (list node)) : Prop :=
  forall v, d v = Hang \/ exists hs, d v = Ok hs /\ Forall (ends_in v) hs.

Lemma dec_ok_intro (P : bytes -> node -> Prop) d :
  (forall v n, P v n -> n_en n <= blen v) ->
  (forall v, d v = Hang \/ exists ns, d v = Ok ns /\ Forall (P v) ns) -> dec_ok d.
Proof.
  intros HP H v. destruct (H v) as [E|(ns & E & Hall)]; [left; exact E | right].
  exists ns. split; [exact E|]. eapply Forall_impl; [|exact Hall]. intros n. apply HP.
Qed.

(* ---------- keyword searchers: always Ok, spans [s, s + len kw) inside the data ---------- *)
Lemma find_keywords_ends lbl kws data :
  exists hs, find_keywords lbl kws data = Ok hs /\ Forall (ends_in data) hs.
Proof.
  rewrite find_keywords_spec. eexists. split; [reflexivity|]. apply Forall_forall. intros h Hin.
  apply in_flat_map in Hin. destruct Hin as (kw & _ & Hin). apply in_map_iff in Hin. destruct Hin as (s & <- & Hs).
  unfold ends_in, keyword_hit. cbn [n_en].
  pose proof (blen_lower kw) as Hk. pose proof (blen_lower data) as Hd.
  destruct (lower kw) as [|c r] eqn:El; [destruct Hs|]. apply filter_In in Hs. destruct Hs as [Hs _].
  apply greedy_occ_sound in Hs. destruct Hs as [H0 Hp]. apply prefixb_length in Hp. rewrite skipn_length in Hp.
  unfold blen in *. cbn [List.length] in Hp, Hk. lia.
Qed.

(* ---------- escapes (Shapes1) ---------- *)
Lemma find_xml_hex_ok : dec_ok find_xml_hex.
Proof. apply (dec_ok_intro xml_node_ok); [|exact find_xml_hex_total]. intros v n (_&_&_&_&_&H&_). exact H. Qed.

Lemma find_chr_ok : dec_ok find_chr.
Proof. apply (dec_ok_intro chr_node_ok); [|exact find_chr_total]. intros v n (_&_&_&_&_&H&_). exact H. Qed.

Lemma find_unescape_ok : dec_ok find_unescape.
Proof. apply (dec_ok_intro unescape_node_ok); [|exact find_unescape_total]. intros v n (_&_&_&_&_&H&_). exact H. Qed.

Lemma find_utf16_ok : dec_ok find_utf16.
Proof. apply (dec_ok_intro utf16_node_ok); [|exact find_utf16_total]. intros v n (_&_&_&_&_&H&_). exact H. Qed.

(* ---------- shell (Shapes1) ---------- *)
Lemma find_cmd_strings_ok : dec_ok find_cmd_strings.
Proof.
  apply (dec_ok_intro cmd_node_ok); [intros v n (_&_&_&_&H); exact H|].
  intros v. destruct (find_cmd_strings_never_raises v) as [H|(nodes & H & Hall & _)]; [left; exact H | right].
  exists nodes. split; assumption.
Qed.

Lemma mtch_ok_m_start0 r ng data mt : mtch_ok r ng data mt -> m_start mt 0 = mstart mt.
Proof. intros (s & e & groups & -> & _). reflexivity. Qed.

(* OBLIGATION on the generated regex term, by computation: the indicator always captures group 1 *)
Lemma ps_indicator_group1_mandatory :
  group_mandatory RE_shell_POWERSHELL_INDICATOR_RE 1 && Nat.leb 1 NG_shell_POWERSHELL_INDICATOR_RE = true.
Proof. vm_compute. reflexivity. Qed.

(* find_powershell_strings: the END of every node is inside the data, also for the nodes whose end precedes
   their start (F6: end = len(data) - start, with 0 <= start) *)
Theorem find_powershell_strings_ends data :
  find_powershell_strings data = Hang \/
  exists nodes, find_powershell_strings data = Ok nodes /\ Forall (ends_in data) nodes.
Proof.
  unfold find_powershell_strings.
  destruct (fi_cases RE_shell_POWERSHELL_INDICATOR_RE NG_shell_POWERSHELL_INDICATOR_RE data)
    as [H|(ms & Hfi & Hok & Hmand)]; [left; rewrite H; reflexivity|]. rewrite Hfi. cbn [bind].
  pose proof ps_indicator_group1_mandatory as Hg. apply andb_true_iff in Hg. destruct Hg as [Hg1 Hg2].
  apply Nat.leb_le in Hg2. specialize (Hmand 1%nat Hg1 (le_n 1) Hg2).
  rewrite Forall_forall in Hok, Hmand.
  assert (Hstart : forall ind, In ind ms ->
            0 <= m_start ind 1 /\ m_start ind 1 <= m_end ind 1 /\ m_end ind 1 <= m_end ind 0 /\ m_end ind 0 <= blen data).
  { intros ind Hin. specialize (Hok ind Hin). specialize (Hmand ind Hin). cbv beta in Hmand.
    destruct (mtch_ok_group0 _ _ _ _ Hok) as (Hs0 & _ & _).
    destruct (mtch_ok_groupk _ _ _ _ 0 Hok Hmand) as (Hs1 & _ & B2 & _).
    destruct (EscDecProofs.span_ok_bounds data ind 0 Hs0) as (_ & _ & A2 & _).
    destruct (EscDecProofs.span_ok_bounds data ind 1 Hs1) as (C0 & C1 & _ & _). lia. }
  destruct (find_powershell_strings_post data ms) as [nodes|e|] eqn:E.
  - right. exists nodes. split; [reflexivity|]. unfold find_powershell_strings_post in E.
    assert (Hctx : forall ind c, In ind ms -> ps_context data ind = Ok c ->
              0 <= m_start ind 1 <= blen data /\ ctx_ok data (m_start ind 1) c).
    { intros ind c Hin Hc. destruct (Hstart ind Hin) as (S0 & S1 & S2 & S3). split; [lia|].
      destruct c as [en|b|]; cbn [ctx_ok]; [|apply (ps_bounds_ok_all data ms ind b Hin Hc) | exact I].
      unfold ps_context in Hc.
      destruct (re_match_at RE_shell_ENC_RE NG_shell_ENC_RE data (m_end ind 0)) as [[enc|]| |] eqn:Ee;
        cbn [bind] in Hc; try discriminate Hc.
      - injection Hc as <-. unfold re_match_at in Ee.
        destruct (match_at RE_shell_ENC_RE NG_shell_ENC_RE data (m_end ind 0)) as [[enc'|]|] eqn:Em;
          try discriminate Ee. injection Ee as ->.
        destruct (match_at_sound _ _ _ _ _ Em) as [Henc Hk].
        destruct (mtch_ok_group0 _ _ _ _ Henc) as (Hs & _ & _).
        destruct (EscDecProofs.span_ok_bounds data enc 0 Hs) as (_ & D1 & D2 & _).
        rewrite (mtch_ok_m_start0 _ _ _ _ Henc), Hk in D1. lia.
      - destruct (re_search _ _ _) as [[bm|]| |]; cbn [bind] in Hc; discriminate Hc. }
    pose proof (ps_end_ge_start_nodes (ps_context data) data ms nodes Hctx E) as Hall.
    eapply Forall_impl; [|exact Hall]. unfold ends_in.
    intros n [H|(ind & Hin & _ & Hst & Hen)]; [lia|].
    destruct (Hstart ind Hin) as (S0 & _). lia.
  - exfalso. revert E. apply find_powershell_strings_post_total. apply ps_bounds_ok_all.
  - left. reflexivity.
Qed.

Lemma find_powershell_strings_ok : dec_ok find_powershell_strings.
Proof. exact find_powershell_strings_ends. Qed.

(* ---------- base64 / hex / byte arrays (Shapes2) ---------- *)
Lemma find_atob_ok : dec_ok find_atob.
Proof.
  apply (dec_ok_intro (b64_node_ok (L"javascript.string"))); [|exact find_atob_total].
  intros v n (_&_&_&_&_&H&_). exact H.
Qed.

Lemma find_Base64Decode_ok : dec_ok find_Base64Decode.
Proof.
  apply (dec_ok_intro (b64_node_ok (L"vba.string"))); [|exact find_Base64Decode_total].
  intros v n (_&_&_&_&_&H&_). exact H.
Qed.

Lemma find_FromBase64String_ok : dec_ok find_FromBase64String.
Proof.
  intros v. destruct (find_FromBase64String_total v) as [H|(key & nodes & _ & _ & H & Hall)]; [left; exact H | right].
  exists nodes. split; [exact H|]. eapply Forall_impl; [|exact Hall]. intros n (_&_&_&_&_&Hn&_). exact Hn.
Qed.

Lemma find_base64_ok : dec_ok find_base64.
Proof. apply (dec_ok_intro base64_node_ok); [|exact find_base64_total]. intros v n (_&_&_&_&_&H&_). exact H. Qed.

Lemma find_hex_ok : dec_ok find_hex.
Proof. apply (dec_ok_intro hex_node_ok); [|exact find_hex_total]. intros v n (_&_&_&_&_&H&_). exact H. Qed.

Lemma find_FromHexString_ok : dec_ok find_FromHexString.
Proof.
  intros v. destruct (find_FromHexString_total v) as [H|(key & nodes & _ & _ & H & Hall)]; [left; exact H | right].
  exists nodes. split; [exact H|]. eapply Forall_impl; [|exact Hall]. intros n (_&_&_&_&Hn&_). exact Hn.
Qed.

(* any total oracle xortool *)
Lemma find_powershell_bytes_ok xortool : dec_ok (find_powershell_bytes xortool).
Proof.
  apply (dec_ok_intro (psb_node_ok xortool)); [|exact (find_powershell_bytes_total xortool)].
  intros v n (_&_&_&_&H&_). exact H.
Qed.

(* ---------- file names, paths, PE files (Shapes2) ---------- *)
Lemma find_executable_name_ok : dec_ok find_executable_name.
Proof.
  apply (dec_ok_intro (hit_node_ok RE_filename_EXECUTABLE_RE (L"executable.filename"))); [|exact find_executable_name_total].
  intros v n (_&_&_&_&_&H&_). exact H.
Qed.

Lemma find_library_ok : dec_ok find_library.
Proof.
  apply (dec_ok_intro (hit_node_ok RE_filename_LIBRARY_RE (L"executable.library.filename"))); [|exact find_library_total].
  intros v n (_&_&_&_&_&H&_). exact H.
Qed.

Lemma find_path_ok : dec_ok find_path.
Proof.
  apply (dec_ok_intro (hit_node_ok RE_path_PATH_RE (L"path"))); [|exact find_path_total].
  intros v n (_&_&_&_&_&H&_). exact H.
Qed.

Lemma find_windows_path_ok is_domain : dec_ok (find_windows_path is_domain).
Proof.
  apply (dec_ok_intro wpath_node_ok); [|exact (find_windows_path_total is_domain)].
  intros v n (_&_&H&_). exact H.
Qed.

(* ANY oracle pe_size: the model clips the reported end at the end of the data *)
Lemma find_pe_files_ok pe_size : dec_ok (find_pe_files pe_size).
Proof.
  intros v. destruct (find_pe_files_total pe_size v) as [H|(nodes & H & Hall & _)]; [left; exact H | right].
  exists nodes. split; [exact H|]. eapply Forall_impl; [|exact Hall]. intros n (_&_&_&_&_&Hn&_). exact Hn.
Qed.

(* ---------- network (Shapes3) ---------- *)
Lemma find_domains_ok tlds root_fpos tld_fpos : dec_ok (Network.find_domains tlds root_fpos tld_fpos).
Proof.
  apply (dec_ok_intro (domain_node_ok tlds)); [|exact (find_domains_total tlds root_fpos tld_fpos)].
  intros v n (_&_&_&_&_&H&_). exact H.
Qed.

Lemma find_emails_ok tlds : dec_ok (Network.find_emails tlds).
Proof.
  apply (dec_ok_intro (email_node_total_ok tlds)); [|exact (find_emails_total tlds)].
  intros v n (_&_&_&H). exact H.
Qed.

Lemma find_ips_ok : dec_ok Network.find_ips.
Proof. apply (dec_ok_intro ip_node_ok); [|exact find_ips_total]. intros v n (_&_&_&_&_&_&H). exact H. Qed.

Lemma find_urls_ok tlds : dec_ok (Network.find_urls tlds).
Proof.
  apply (dec_ok_intro (url_node_ok tlds)); [|exact (find_urls_total tlds)].
  intros v n (_&_&_&H&_). exact H.
Qed.

(* ---------- string operations: the span hypotheses of StrOpsProofs, from the matcher ---------- *)
Lemma mapM_cases {A B} (f : A -> res B) (P : B -> Prop) l :
  Forall (fun x => f x = Hang \/ exists y, f x = Ok y /\ P y) l ->
  mapM f l = Hang \/ exists ys, mapM f l = Ok ys /\ Forall P ys.
Proof.
  induction 1 as [|x l Hx _ IH]; [right; exists []; split; [reflexivity | constructor]|].
  cbn [mapM]. destruct Hx as [-> |(y & -> & Hy)]; cbn [bind]; [left; reflexivity|].
  destruct IH as [-> |(ys & -> & Hys)]; cbn [bind]; [left; reflexivity | right].
  exists (y :: ys). split; [reflexivity | constructor; assumption].
Qed.

(* the groups gs are mandatory groups of r (checked by computation on the generated term) *)
Definition mand_ok (r : re) (ng : nat) (gs : list nat) : bool :=
  forallb (fun g => group_mandatory r g && Nat.leb 1 g && Nat.leb g ng) gs.

Lemma fi_spans r ng data gs : mand_ok r ng gs = true ->
  fi r ng data = Hang \/
  exists ms, fi r ng data = Ok ms /\
    Forall (fun m => EscDecProofs.span_ok data m 0 /\ forall g, In g gs -> EscDecProofs.span_ok data m g) ms.
Proof.
  intros Hm. destruct (fi_cases r ng data) as [H|(ms & Hfi & Hok & Hmand)]; [left; exact H | right].
  exists ms. split; [exact Hfi|]. apply Forall_forall. intros m Hin.
  rewrite Forall_forall in Hok. specialize (Hok m Hin).
  destruct (mtch_ok_group0 _ _ _ _ Hok) as (Hs0 & _ & _). split; [exact Hs0|].
  intros g Hg. unfold mand_ok in Hm. rewrite forallb_forall in Hm. specialize (Hm g Hg).
  apply andb_true_iff in Hm. destruct Hm as [Hm H2]. apply andb_true_iff in Hm. destruct Hm as [Hm H1].
  apply Nat.leb_le in H1. apply Nat.leb_le in H2.
  specialize (Hmand g Hm H1 H2). rewrite Forall_forall in Hmand. specialize (Hmand m Hin). cbv beta in Hmand.
  destruct g as [|k]; [lia|]. destruct (mtch_ok_groupk _ _ _ _ k Hok Hmand) as (Hs & _). exact Hs.
Qed.

Lemma span0_end data m : EscDecProofs.span_ok data m 0 -> m_end m 0 <= blen data.
Proof. intros H. destruct (EscDecProofs.span_ok_bounds data m 0 H) as (_ & _ & H2 & _). exact H2. Qed.

(* reverse.py / vba.py StrReverse *)
Lemma deob_rev_ok ty obf r ng : mand_ok r ng [1%nat] = true ->
  dec_ok (fun data => find_and_deobfuscate ty r ng data (fun s => Ok (rev_slice s, obf)) 1 0).
Proof.
  intros Hm v. unfold find_and_deobfuscate.
  destruct (fi_spans r ng v [1%nat] Hm) as [-> |(ms & -> & Hall)]; cbn [bind]; [left; reflexivity | right].
  rewrite (deob_rev_post_total ty obf v ms).
  - eexists. split; [reflexivity|]. apply Forall_map. eapply Forall_impl; [|exact Hall].
    intros m [H0 _]. unfold ends_in. cbn [n_en]. apply (span0_end v m H0).
  - eapply Forall_impl; [|exact Hall]. intros m [H0 H1]. split; [exact H0 | apply H1; left; reflexivity].
Qed.

Lemma reverse_mandatory : mand_ok RE_reverse_REVERSE_RE NG_reverse_REVERSE_RE [1%nat] = true.
Proof. vm_compute. reflexivity. Qed.
Lemma strreverse_mandatory : mand_ok RE_vba_STRREVERSE_RE NG_vba_STRREVERSE_RE [1%nat] = true.
Proof. vm_compute. reflexivity. Qed.

Lemma find_reverse_ok : dec_ok find_reverse.
Proof. exact (deob_rev_ok (L"string") (L"reverse") _ _ reverse_mandatory). Qed.

Lemma find_strreverse_ok : dec_ok find_strreverse.
Proof. exact (deob_rev_ok (L"vba.string") (L"vba.reverse") _ _ strreverse_mandatory). Qed.

(* replace.py: groups 1, 2, 3 always take part *)
Lemma replace_ok ty obf strip2 r ng : mand_ok r ng [1; 2; 3]%nat = true ->
  dec_ok (fun data => do ms <- fi r ng data; mapM (replace_node ty obf strip2 data) ms).
Proof.
  intros Hm v. cbv beta.
  destruct (fi_spans r ng v [1; 2; 3]%nat Hm) as [-> |(ms & -> & Hall)]; cbn [bind]; [left; reflexivity | right].
  rewrite (mapM_map_ok (replace_node ty obf strip2 v)
             (fun m => Node ty (py_replace (slice (group v m 1) 1 (-1))
                                           (if strip2 then slice (group v m 2) 1 (-1) else group v m 2)
                                           (slice (group v m 3) 1 (-1))) obf (m_start m 0) (m_end m 0) [])).
  - eexists. split; [reflexivity|]. apply Forall_map. eapply Forall_impl; [|exact Hall].
    intros m [H0 _]. unfold ends_in. cbn [n_en]. apply (span0_end v m H0).
  - eapply Forall_impl; [|exact Hall]. intros m (_ & Hg). unfold replace_node.
    rewrite (group_req_ok _ _ _ _ (Hg 1%nat ltac:(cbn; tauto))),
            (group_req_ok _ _ _ _ (Hg 2%nat ltac:(cbn; tauto))),
            (group_req_ok _ _ _ _ (Hg 3%nat ltac:(cbn; tauto))). reflexivity.
Qed.

Lemma replace_mandatory : mand_ok RE_replace_REPLACE_RE NG_replace_REPLACE_RE [1; 2; 3]%nat = true.
Proof. vm_compute. reflexivity. Qed.
Lemma powershell_replace_mandatory :
  mand_ok RE_replace_POWERSHELL_REPLACE_RE NG_replace_POWERSHELL_REPLACE_RE [1; 2; 3]%nat = true.
Proof. vm_compute. reflexivity. Qed.
Lemma vba_replace_mandatory : mand_ok RE_replace_VBA_REPLACE_RE NG_replace_VBA_REPLACE_RE [1; 2; 3]%nat = true.
Proof. vm_compute. reflexivity. Qed.
Lemma js_regex_replace_mandatory :
  mand_ok RE_replace_JS_REGEX_REPLACE_RE NG_replace_JS_REGEX_REPLACE_RE [1; 2; 3]%nat = true.
Proof. vm_compute. reflexivity. Qed.

Lemma find_replace_ok : dec_ok find_replace.
Proof. exact (replace_ok (L"string") (L"replace") true _ _ replace_mandatory). Qed.
Lemma find_powershell_replace_ok : dec_ok find_powershell_replace.
Proof. exact (replace_ok (L"powershell.string") (L"replace") true _ _ powershell_replace_mandatory). Qed.
Lemma find_vba_replace_ok : dec_ok find_vba_replace.
Proof. exact (replace_ok (L"vba.string") (L"vba.replace") true _ _ vba_replace_mandatory). Qed.
Lemma find_js_regex_replace_ok : dec_ok find_js_regex_replace.
Proof. exact (replace_ok (L"javascript.string") (L"replace") false _ _ js_regex_replace_mandatory). Qed.

(* concat.py: the inner pattern is run on the match text; it can only add Hang *)
Lemma find_concat_ok : dec_ok find_concat.
Proof.
  intros v. unfold find_concat.
  destruct (fi_spans RE_concat_CONCAT_RE NG_concat_CONCAT_RE v [] eq_refl) as [-> |(ms & -> & Hall)];
    cbn [bind]; [left; reflexivity|].
  unfold find_concat_post. apply mapM_cases. eapply Forall_impl; [|exact Hall]. intros m [Hs0 _].
  unfold concat_node. rewrite (group_req_ok _ _ _ _ Hs0). cbn [bind].
  destruct (fi RE_concat_find_concat_0 NG_concat_find_concat_0 (group v m 0)) as [inner|e|] eqn:E; cbn [bind].
  - right. eexists. split; [reflexivity|]. unfold ends_in. cbn [n_en]. apply (span0_end v m Hs0).
  - exfalso. apply (fi_not_raise _ _ _ _ E).
  - left. reflexivity.
Qed.

(* vba.py CreateObject: the end is the index after the balancing parenthesis, inside the data *)
Lemma find_createobject_ok : dec_ok find_createobject.
Proof.
  intros v. unfold find_createobject.
  destruct (fi_spans RE_vba_CREATE_OBJECT_RE NG_vba_CREATE_OBJECT_RE v [] eq_refl) as [-> |(ms & -> & Hall)];
    cbn [bind]; [left; reflexivity | right].
  assert (Hs : Forall (fun m => EscDecProofs.span_ok v m 0) ms).
  { eapply Forall_impl; [|exact Hall]. intros m [H _]. exact H. }
  rewrite (find_createobject_post_exact v ms Hs). eexists. split; [reflexivity|].
  apply Forall_flat_map_in. intros m Hin. apply Forall_forall. intros n Hn. rewrite Forall_forall in Hs.
  destruct (createobject_node_spec v m n (Hs m Hin) Hn) as (_&_&_&_&_&H&_). exact H.
Qed.

(* ====================================================================== *)
(* 3. The shipped registry                                                 *)
(* ====================================================================== *)
(* the decoder names the model knows *)
Definition modelled_names : list label :=
  [L"find_xml_hex"; L"find_chr"; L"find_unescape"; L"find_utf16"; L"find_concat"; L"find_reverse"; L"find_strreverse"; L"find_replace"; L"find_powershell_replace"; L"find_vba_replace"; L"find_js_regex_replace"; L"find_createobject"; L"find_cmd_strings"; L"find_powershell_strings"; L"find_atob"; L"find_base64"; L"find_Base64Decode"; L"find_FromBase64String"; L"find_hex"; L"find_FromHexString"; L"find_powershell_bytes"; L"find_executable_name"; L"find_library"; L"find_path"; L"find_windows_path"; L"find_pe_files"; L"find_domains"; L"find_emails"; L"find_ips"; L"find_urls"].

Section DefaultOk.
  Variable pe_size : bytes -> Z.
  Variable xortool : bytes -> list bytes.
  Variable extra : label -> option (bytes -> res (list node)).

  Lemma modelled_ok name : In name modelled_names -> dec_ok (decoder_by_name pe_size xortool extra name).
  Proof.
    unfold modelled_names. intros [<-|[<-|[<-|[<-|[<-|[<-|[<-|[<-|[<-|[<-|[<-|[<-|[<-|[<-|[<-|[<-|[<-|[<-|[<-|[<-|[<-|[<-|[<-|[<-|[<-|[<-|[<-|[<-|[<-|[<-|[]]]]]]]]]]]]]]]]]]]]]]]]]]]]]]].
    - exact find_xml_hex_ok.
    - exact find_chr_ok.
    - exact find_unescape_ok.
    - exact find_utf16_ok.
    - exact find_concat_ok.
    - exact find_reverse_ok.
    - exact find_strreverse_ok.
    - exact find_replace_ok.
    - exact find_powershell_replace_ok.
    - exact find_vba_replace_ok.
    - exact find_js_regex_replace_ok.
    - exact find_createobject_ok.
    - exact find_cmd_strings_ok.
    - exact find_powershell_strings_ok.
    - exact find_atob_ok.
    - exact find_base64_ok.
    - exact find_Base64Decode_ok.
    - exact find_FromBase64String_ok.
    - exact find_hex_ok.
    - exact find_FromHexString_ok.
    - exact (find_powershell_bytes_ok xortool).
    - exact find_executable_name_ok.
    - exact find_library_ok.
    - exact find_path_ok.
    - exact (find_windows_path_ok is_domain_default).
    - exact (find_pe_files_ok pe_size).
    - exact (find_domains_ok TOP_LEVEL_DOMAINS root_fpos tld_fpos).
    - exact (find_emails_ok TOP_LEVEL_DOMAINS).
    - exact find_ips_ok.
    - exact (find_urls_ok TOP_LEVEL_DOMAINS).
  Qed.
End DefaultOk.

(* OBLIGATION on the generated registry table, by computation: every function the source registers is one of
   the modelled decoders (a decoder added to the source without a model makes this fail) *)
Lemma registered_names_modelled_b :
  forallb (fun n => existsb (beqb n) modelled_names) (concat (map snd decoder_modules)) = true.
Proof. vm_compute. reflexivity. Qed.

Lemma registered_names_modelled : Forall (fun n => In n modelled_names) (concat (map snd decoder_modules)).
Proof.
  apply Forall_forall. intros n Hn. pose proof registered_names_modelled_b as H.
  rewrite forallb_forall in H. specialize (H n Hn). apply existsb_exists in H.
  destruct H as (x & Hx & E). apply beqb_eq in E. subst x. exact Hx.
Qed.

Lemma get_analyzers_incl {D} (modules : list (label * list D)) inc exc x :
  In x (get_analyzers modules inc exc) -> In x (concat (map snd modules)).
Proof.
  unfold get_analyzers. intros H. apply in_flat_map in H. destruct H as (md & Hmd & Hx).
  destruct (selected inc exc (fst md)); [|destruct Hx].
  apply in_concat. exists (snd md). split; [apply in_map, Hmd | exact Hx].
Qed.

(* every searcher of the registry built from the shipped decoder table, for ANY keyword directory, ANY
   include / exclude lists and ANY oracles *)
Theorem registry_ok pe_size xortool extra kwdir inc exc :
  Forall dec_ok (registry pe_size xortool extra decoder_modules kwdir inc exc).
Proof.
  unfold registry. apply Forall_app. split.
  - apply Forall_map. apply Forall_forall. intros kw _ v. right. unfold keyword_searcher. apply find_keywords_ends.
  - apply Forall_map. apply Forall_forall. intros name Hin. apply modelled_ok.
    apply get_analyzers_incl in Hin. pose proof registered_names_modelled as H. rewrite Forall_forall in H. apply H, Hin.
Qed.

Lemma dec_ok_premise ds : Forall dec_ok ds ->
  forall v, Forall (fun d => d v = Hang \/
                             exists hs, d v = Ok hs /\
                                        (forall h, In h hs -> nonempty_val h = true -> n_en h <= blen v)) ds.
Proof.
  intros H v. eapply Forall_impl; [|exact H]. intros d Hd. destruct (Hd v) as [E|(hs & E & Hall)]; [left; exact E | right].
  exists hs. split; [exact E|]. intros h Hin _. rewrite Forall_forall in Hall. apply Hall, Hin.
Qed.

(* C01 for the shipped registry, with include / exclude lists *)
Theorem scan_registry_never_raises pe_size xortool extra kwdir inc exc depth data :
  let r := scan_r (run_all (registry pe_size xortool extra decoder_modules kwdir inc exc)) depth data in
  r = Hang \/ exists t, r = Ok t.
Proof. cbv zeta. apply scan_run_all_never_raises. apply dec_ok_premise, registry_ok. Qed.

(* C01 for Multidecoder().scan: no input, no depth limit, no keyword directory makes the scan raise.
   (The hypothesis on pe_size is not used: see find_pe_files_ok.) *)
Theorem scan_default_never_raises : forall pe_size xortool extra, (forall b, 0 <= pe_size b) ->
  forall kwdir depth data,
    scan_default pe_size xortool extra decoder_modules kwdir depth data = Hang \/
    exists t, scan_default pe_size xortool extra decoder_modules kwdir depth data = Ok t.
Proof.
  intros pe_size xortool extra _ kwdir depth data. unfold scan_default, search_default.
  apply (scan_registry_never_raises pe_size xortool extra kwdir [] [] depth data).
Qed.

Corollary scan_default_no_raise pe_size xortool extra kwdir depth data e :
  scan_default pe_size xortool extra decoder_modules kwdir depth data <> Raise e.
Proof.
  unfold scan_default, search_default.
  destruct (scan_registry_never_raises pe_size xortool extra kwdir [] [] depth data) as [H|(t & H)];
    cbv zeta in H; rewrite H; discriminate.
Qed.

(* the registry search itself (one call of every searcher on one value) *)
Corollary search_default_never_raises pe_size xortool extra kwdir v :
  search_default pe_size xortool extra decoder_modules kwdir v = Hang \/
  exists hs, search_default pe_size xortool extra decoder_modules kwdir v = Ok hs /\ Forall (ends_in v) hs.
Proof.
  unfold search_default.
  destruct (run_all_cases (ends_in v) v (registry pe_size xortool extra decoder_modules kwdir [] [])) as [H|(hs & H & Hall)].
  - eapply Forall_impl; [|apply registry_ok]. intros d Hd. destruct (Hd v) as [E|(hs & E & Hall)]; [left; exact E | right].
    exists hs. split; [exact E|]. intros h Hin. rewrite Forall_forall in Hall. apply Hall, Hin.
  - left. exact H.
  - right. exists hs. split; [exact H|]. apply Forall_forall. exact Hall.
Qed.

(* ---------- test vectors: the right-hand sides are what Multidecoder(decoders=get_analyzers()).scan(data)
   returns under /venv/bin/python (3.12.1); no keyword files, oracles never called on these inputs ---------- *)
Definition scan_default_nokw : Z -> bytes -> res node :=
  scan_default (fun _ => 0) (fun _ => []) (fun _ => None) decoder_modules (Dir [] []).

Definition f6_text : bytes :=
  L"powershell -Command curl blah.com && cmd /c curl https://abc.org && powershell -Command cat /etc/passwd".

(* the known finding F6 on the input of tests/test_decoders/test_shell.py: a hit with start = 68, end = 35 ... *)
Example f6_hits : find_powershell_strings f6_text =
  Ok [Node (L"shell.powershell") f6_text [] 0 103 [];
      Node (L"shell.powershell") (L"powershell -Command cat /etc/passwd") [] 68 35 []].
Proof. vm_compute. reflexivity. Qed.

(* ... so the shipped registry does not meet the strong precondition of scan_run_all_total ... *)
Example f6_not_hit_ok : ~ hit_ok f6_text (Node (L"shell.powershell") (L"powershell -Command cat /etc/passwd") [] 68 35 []).
Proof. unfold hit_ok. cbn [n_st n_en]. lia. Qed.

(* ... and the scan goes through all the same *)
Example scan_default_f6 : scan_default_nokw 10 f6_text =
  Ok (Node [] f6_text [] 0 103
       [Node (L"shell.powershell") f6_text [] 0 103
          [Node (L"network.domain") (L"blah.com") [] 25 33 [];
           Node (L"shell.cmd") (L"cmd /c curl https://abc.org && powershell -Command cat /etc/passwd") [] 37 103
             [Node (L"network.url") (L"https://abc.org") [] 12 27
                [Node (L"network.url.scheme") (L"https") [] 0 5 []; Node (L"network.domain") (L"abc.org") [] 8 15 []];
              Node (L"path") (L"/etc/passwd") [] 55 66 []]]]).
Proof. vm_compute. reflexivity. Qed.

Example scan_default_ex2 : scan_default_nokw 10 (L"x = atob('aGVsbG8gd29ybGQ=') ; 'a'+'b' mail bob@example.com") =
  Ok (Node [] (L"x = atob('aGVsbG8gd29ybGQ=') ; 'a'+'b' mail bob@example.com") [] 0 59
       [Node (L"javascript.string") (L"hello world") (L"encoding.base64") 4 28 [];
        Node (L"string") (L"ab") (L"concatenation") 31 38 [];
        Node (L"network.email") (L"bob@example.com") [] 44 59 [Node (L"network.domain") (L"example.com") [] 4 15 []]]).
Proof. vm_compute. reflexivity. Qed.

Example scan_default_ex3 : scan_default_nokw 10 [] = Ok (Node [] [] [] 0 0 []) /\
                           scan_default_nokw 0 f6_text = Ok (Node [] f6_text [] 0 103 []).
Proof. vm_compute. split; reflexivity. Qed.

(* a keyword file: the searcher named after the file *)
Example scan_default_kw :
  scan_default (fun _ => 0) (fun _ => []) (fun _ => None) decoder_modules
    (Dir [(L"api", L"VirtualAlloc" ++ [10%N] ++ L"strlen")] []) 10 (L"call virtualalloc(1)") =
  Ok (Node [] (L"call virtualalloc(1)") [] 0 20 [Node (L"api") (L"VirtualAlloc") [] 5 17 []]).
Proof. vm_compute. reflexivity. Qed.

(* without a model, a registered decoder fails closed: the hypothesis-free statement is about the table *)
Example unmodelled_raises pe_size xortool :
  decoder_by_name pe_size xortool (fun _ => None) (L"find_new_thing") [] = Raise (L"UnmodelledDecoder").
Proof. reflexivity. Qed.

(* ====================================================================== *)
Print Assumptions off_inv_closed_form.
Print Assumptions scan_node_r_failure_origin.
Print Assumptions scan_node_total_weak.
Print Assumptions scan_total_weak.
Print Assumptions scan_node_r_never_raises.
Print Assumptions scan_r_never_raises.
Print Assumptions scan_r_total_weak.
Print Assumptions scan_run_all_total_weak.
Print Assumptions scan_run_all_never_raises.
Print Assumptions find_keywords_ends.
Print Assumptions find_powershell_strings_ends.
Print Assumptions modelled_ok.
Print Assumptions registered_names_modelled.
Print Assumptions registry_ok.
Print Assumptions scan_registry_never_raises.
Print Assumptions scan_default_never_raises.
Print Assumptions scan_default_no_raise.
Print Assumptions search_default_never_raises.
