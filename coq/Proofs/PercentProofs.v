(* Proofs about Model/Codec/Percent.v : unquote_to_bytes and normalize_percent_encoding. *)
From MD Require Import Lib.Base Model.Codec.Percent Model.Dec.XmlChr.

(* ---------- finite facts about hex digits ---------- *)
Lemma is_hex_small h : is_hex_ascii h = true -> (h < 128)%N.
Proof.
  unfold is_hex_ascii, is_digit_ascii. intros H.
  destruct (N.ltb_spec h 128) as [|Hge]; [assumption|exfalso].
  replace (h <=? 57)%N with false in H by (symmetry; apply N.leb_gt; lia).
  replace (h <=? 102)%N with false in H by (symmetry; apply N.leb_gt; lia).
  replace (h <=? 70)%N with false in H by (symmetry; apply N.leb_gt; lia).
  rewrite !andb_false_r in H. discriminate.
Qed.

Lemma in_small_range h (k : nat) : (h < N.of_nat k)%N -> In h (map N.of_nat (seq 0 k)).
Proof.
  intros H. apply in_map_iff. exists (N.to_nat h). split; [apply N2Nat.id|].
  apply in_seq. lia.
Qed.

Lemma hex_forall (P : N -> bool) :
  forallb (fun h => implb (is_hex_ascii h) (P h)) (map N.of_nat (seq 0 128)) = true ->
  forall h, is_hex_ascii h = true -> P h = true.
Proof.
  intros H h Hh. rewrite forallb_forall in H.
  specialize (H h (in_small_range h 128 (is_hex_small h Hh))). rewrite Hh in H. exact H.
Qed.

Lemma hex_not_pct h : is_hex_ascii h = true -> (h =? PCT)%N = false.
Proof.
  intros Hh. apply (hex_forall (fun h => negb (h =? PCT)%N)) in Hh; [|vm_compute; reflexivity].
  destruct (h =? PCT)%N; [discriminate|reflexivity].
Qed.

Lemma hex_upper_hex h : is_hex_ascii h = true -> is_hex_ascii (upper1 h) = true.
Proof. apply (hex_forall (fun h => is_hex_ascii (upper1 h))). vm_compute. reflexivity. Qed.

Lemma hex_upper_val h : is_hex_ascii h = true -> hex_val (upper1 h) = hex_val h.
Proof.
  intros Hh. apply N.eqb_eq. revert h Hh.
  apply (hex_forall (fun h => (hex_val (upper1 h) =? hex_val h)%N)). vm_compute. reflexivity.
Qed.

Lemma hex_upper_upper h : is_hex_ascii h = true -> upper1 (upper1 h) = upper1 h.
Proof.
  intros Hh. apply N.eqb_eq. revert h Hh.
  apply (hex_forall (fun h => (upper1 (upper1 h) =? upper1 h)%N)). vm_compute. reflexivity.
Qed.

Lemma hex_val_small h : is_hex_ascii h = true -> (hex_val h < 16)%N.
Proof.
  intros Hh. apply N.ltb_lt. revert h Hh.
  apply (hex_forall (fun h => (hex_val h <? 16)%N)). vm_compute. reflexivity.
Qed.

Lemma hex_byte_upper h1 h2 :
  is_hex_ascii h1 = true -> is_hex_ascii h2 = true -> hex_byte (upper1 h1) (upper1 h2) = hex_byte h1 h2.
Proof. intros H1 H2. unfold hex_byte. rewrite !hex_upper_val by assumption. reflexivity. Qed.

Lemma hex_byte_small h1 h2 :
  is_hex_ascii h1 = true -> is_hex_ascii h2 = true -> (hex_byte h1 h2 < 256)%N.
Proof.
  intros H1 H2. unfold hex_byte. pose proof (hex_val_small h1 H1). pose proof (hex_val_small h2 H2). lia.
Qed.

Lemma unreserved_not_pct v : is_unreserved v = true -> (v =? PCT)%N = false.
Proof.
  intros H. destruct (N.eqb_spec v PCT) as [->|]; [|reflexivity]. vm_compute in H. discriminate.
Qed.

(* every byte < 256 survives quoting *)
Lemma quote_byte_spec c : (c < 256)%N ->
  is_hex_ascii (hex_digit_upper (c / 16)) = true /\ is_hex_ascii (hex_digit_upper (c mod 16)) = true /\
  hex_byte (hex_digit_upper (c / 16)) (hex_digit_upper (c mod 16)) = c.
Proof.
  intros Hc.
  assert (H : forallb (fun c => is_hex_ascii (hex_digit_upper (c / 16)) && is_hex_ascii (hex_digit_upper (c mod 16)) &&
                       (hex_byte (hex_digit_upper (c / 16)) (hex_digit_upper (c mod 16)) =? c)%N)
                      (map N.of_nat (seq 0 256)) = true) by (vm_compute; reflexivity).
  rewrite forallb_forall in H. specialize (H c (in_small_range c 256 Hc)).
  rewrite !andb_true_iff, N.eqb_eq in H. tauto.
Qed.

(* ---------- the three shapes of a scan step, and an induction principle for them ---------- *)
Definition two_hex (r : bytes) : bool :=
  match r with h1 :: h2 :: _ => is_hex_ascii h1 && is_hex_ascii h2 | _ => false end.

Lemma percent_scan_ind (P : bytes -> Prop) :
  P [] ->
  (forall c r, (c =? PCT)%N = false -> P r -> P (c :: r)) ->
  (forall h1 h2 r, is_hex_ascii h1 = true -> is_hex_ascii h2 = true -> P r -> P (PCT :: h1 :: h2 :: r)) ->
  (forall r, two_hex r = false -> P r -> P (PCT :: r)) ->
  forall b, P b.
Proof.
  intros Hnil Hother Hesc Hstray b.
  assert (H : forall (k : nat) b, (List.length b <= k)%nat -> P b).
  { induction k as [|k IH]; intros b' Hk.
    - destruct b'; [exact Hnil|cbn in Hk; lia].
    - destruct b' as [|c r]; [exact Hnil|]. cbn [List.length] in Hk.
      destruct (N.eqb_spec c PCT) as [->|Hne].
      + destruct (two_hex r) eqn:E.
        * destruct r as [|h1 [|h2 r']]; try discriminate. cbn [two_hex] in E.
          apply andb_true_iff in E as [E1 E2]. apply Hesc; [assumption|assumption|].
          apply IH. cbn [List.length] in Hk. lia.
        * apply Hstray; [exact E|]. apply IH. lia.
      + apply Hother; [apply N.eqb_neq, Hne|]. apply IH. lia. }
  apply (H (List.length b)). apply le_n.
Qed.

Lemma unquote_other c r : (c =? PCT)%N = false -> unquote_to_bytes (c :: r) = c :: unquote_to_bytes r.
Proof. intros H. cbn [unquote_to_bytes]. rewrite H. reflexivity. Qed.

Lemma unquote_esc h1 h2 r : is_hex_ascii h1 = true -> is_hex_ascii h2 = true ->
  unquote_to_bytes (PCT :: h1 :: h2 :: r) = hex_byte h1 h2 :: unquote_to_bytes r.
Proof. intros H1 H2. cbn [unquote_to_bytes]. rewrite N.eqb_refl, H1, H2. reflexivity. Qed.

Lemma unquote_stray r : two_hex r = false -> unquote_to_bytes (PCT :: r) = PCT :: unquote_to_bytes r.
Proof.
  intros H. destruct r as [|h1 [|h2 r']]; try reflexivity.
  cbn [two_hex] in H. change (unquote_to_bytes (PCT :: h1 :: h2 :: r')) with
    (if (PCT =? PCT)%N then (if is_hex_ascii h1 && is_hex_ascii h2 then hex_byte h1 h2 :: unquote_to_bytes r'
                             else PCT :: unquote_to_bytes (h1 :: h2 :: r'))
     else PCT :: unquote_to_bytes (h1 :: h2 :: r')).
  rewrite N.eqb_refl, H. reflexivity.
Qed.

Lemma normalize_other c r : (c =? PCT)%N = false -> normalize_percent (c :: r) = c :: normalize_percent r.
Proof. intros H. cbn [normalize_percent]. rewrite H. reflexivity. Qed.

Lemma normalize_esc h1 h2 r : is_hex_ascii h1 = true -> is_hex_ascii h2 = true ->
  normalize_percent (PCT :: h1 :: h2 :: r) =
  if is_unreserved (hex_byte h1 h2) then hex_byte h1 h2 :: normalize_percent r
  else PCT :: upper1 h1 :: upper1 h2 :: normalize_percent r.
Proof. intros H1 H2. cbn [normalize_percent]. rewrite N.eqb_refl, H1, H2. reflexivity. Qed.

Lemma normalize_stray r : two_hex r = false -> normalize_percent (PCT :: r) = PCT :: normalize_percent r.
Proof.
  intros H. destruct r as [|h1 [|h2 r']]; try reflexivity.
  cbn [two_hex] in H. change (normalize_percent (PCT :: h1 :: h2 :: r')) with
    (if (PCT =? PCT)%N then (if is_hex_ascii h1 && is_hex_ascii h2
                             then (if is_unreserved (hex_byte h1 h2) then hex_byte h1 h2 :: normalize_percent r'
                                   else PCT :: upper1 h1 :: upper1 h2 :: normalize_percent r')
                             else PCT :: normalize_percent (h1 :: h2 :: r'))
     else PCT :: normalize_percent (h1 :: h2 :: r')).
  rewrite N.eqb_refl, H. reflexivity.
Qed.

Lemma wfb_other c r : (c =? PCT)%N = false -> percent_wfb (c :: r) = percent_wfb r.
Proof. intros H. cbn [percent_wfb]. rewrite H. reflexivity. Qed.

Lemma wfb_esc h1 h2 r : is_hex_ascii h1 = true -> is_hex_ascii h2 = true ->
  percent_wfb (PCT :: h1 :: h2 :: r) = percent_wfb r.
Proof. intros H1 H2. cbn [percent_wfb]. rewrite N.eqb_refl, H1, H2. reflexivity. Qed.

Lemma wfb_stray r : two_hex r = false -> percent_wfb (PCT :: r) = false.
Proof.
  intros H. destruct r as [|h1 [|h2 r']]; try reflexivity.
  cbn [two_hex] in H. cbn [percent_wfb]. rewrite N.eqb_refl, H. reflexivity.
Qed.

(* ---------- unquote_to_bytes ---------- *)
Theorem unquote_no_percent b : ~ In PCT b -> unquote_to_bytes b = b.
Proof.
  induction b as [|c r IH]; intros H; [reflexivity|].
  rewrite unquote_other.
  - rewrite IH; [reflexivity|]. intros Hin. apply H. right. exact Hin.
  - apply N.eqb_neq. intros ->. apply H. left. reflexivity.
Qed.

Theorem unquote_quote_all b : wf_bytes b -> unquote_to_bytes (quote_all b) = b.
Proof.
  induction 1 as [|c r Hc Hr IH]; [reflexivity|].
  unfold quote_all. cbn [flat_map]. fold (quote_all r). unfold quote_byte. cbn [app].
  destruct (quote_byte_spec c Hc) as (H1 & H2 & H3).
  rewrite unquote_esc by assumption. rewrite H3, IH. reflexivity.
Qed.

Theorem unquote_wf b : wf_bytes b -> wf_bytes (unquote_to_bytes b).
Proof.
  revert b. apply (percent_scan_ind (fun b => wf_bytes b -> wf_bytes (unquote_to_bytes b))).
  - intros _. apply Forall_nil.
  - intros c r Hc IH Hwf. inversion Hwf as [|? ? Hc1 Hr1]; subst. rewrite unquote_other by exact Hc.
    apply Forall_cons; [exact Hc1|apply IH, Hr1].
  - intros h1 h2 r H1 H2 IH Hwf. rewrite unquote_esc by assumption.
    apply Forall_cons; [apply hex_byte_small; assumption|]. apply IH.
    inversion Hwf as [|? ? _ Hw1]; subst. inversion Hw1 as [|? ? _ Hw2]; subst. inversion Hw2; subst. assumption.
  - intros r Hs IH Hwf. rewrite unquote_stray by exact Hs. inversion Hwf as [|? ? Hc1 Hr1]; subst.
    apply Forall_cons; [exact Hc1|apply IH, Hr1].
Qed.

(* The formulation used by urllib/parse.py: split on the percent sign, look at the first two bytes of
   every chunk but the first. *)
Definition unquote_chunk (item : bytes) : bytes :=
  match item with
  | h1 :: h2 :: rest => if is_hex_ascii h1 && is_hex_ascii h2 then hex_byte h1 h2 :: rest else PCT :: item
  | _ => PCT :: item
  end.

Definition unquote_to_bytes_py (s : bytes) : bytes :=
  match split_on PCT s with
  | first :: (_ :: _) as items => first ++ flat_map unquote_chunk items
  | _ => s
  end.

Lemma split_on_nonempty sep b : split_on sep b <> [].
Proof.
  destruct b as [|c r]; [discriminate|]. cbn [split_on].
  destruct (split_on sep r); [discriminate|]. destruct (c =? sep)%N; discriminate.
Qed.

Lemma split_on_cons sep c r :
  split_on sep (c :: r) =
  match split_on sep r with
  | h :: t => if (c =? sep)%N then [] :: h :: t else (c :: h) :: t
  | [] => [[c]]
  end.
Proof. reflexivity. Qed.

Lemma split_on_prefix sep b : forall h t, split_on sep b = h :: t -> exists rest, b = h ++ rest.
Proof.
  induction b as [|c r IH]; intros h t H.
  - cbn in H. injection H as <- <-. exists []. reflexivity.
  - rewrite split_on_cons in H. destruct (split_on sep r) as [|h' t'] eqn:E; [elim (split_on_nonempty sep r E)|].
    destruct (c =? sep)%N.
    + injection H as <- <-. exists (c :: r). reflexivity.
    + injection H as <- <-. destruct (IH h' t' eq_refl) as [rest ->]. exists rest. reflexivity.
Qed.

Lemma split_on_single sep b h : split_on sep b = [h] -> b = h.
Proof.
  revert h. induction b as [|c r IH]; intros h H.
  - cbn in H. congruence.
  - rewrite split_on_cons in H. destruct (split_on sep r) as [|h' t'] eqn:E; [elim (split_on_nonempty sep r E)|].
    destruct (c =? sep)%N; [discriminate|]. injection H as <- ->. rewrite (IH h' eq_refl). reflexivity.
Qed.

Lemma two_hex_prefix h rest : two_hex (h ++ rest) = false -> two_hex h = false.
Proof. destruct h as [|h1 [|h2 h']]; try reflexivity. cbn [app two_hex]. auto. Qed.

Lemma unquote_chunk_stray item : two_hex item = false -> unquote_chunk item = PCT :: item.
Proof.
  destruct item as [|h1 [|h2 r]]; try reflexivity. cbn [two_hex unquote_chunk]. intros ->. reflexivity.
Qed.

Lemma unquote_split_gen b : forall h t,
  split_on PCT b = h :: t -> unquote_to_bytes b = h ++ flat_map unquote_chunk t.
Proof.
  revert b. apply (percent_scan_ind (fun b => forall h t, split_on PCT b = h :: t ->
                                        unquote_to_bytes b = h ++ flat_map unquote_chunk t)).
  - intros h t H. cbn in H. injection H as <- <-. reflexivity.
  - intros c r Hc IH h t H. rewrite split_on_cons, Hc in H.
    destruct (split_on PCT r) as [|h' t'] eqn:E; [elim (split_on_nonempty PCT r E)|].
    injection H as <- <-. rewrite unquote_other by exact Hc. rewrite (IH h' t' eq_refl). reflexivity.
  - intros h1 h2 r H1 H2 IH h t H.
    rewrite split_on_cons, N.eqb_refl in H. rewrite split_on_cons, (hex_not_pct h1 H1) in H.
    rewrite split_on_cons, (hex_not_pct h2 H2) in H.
    destruct (split_on PCT r) as [|h' t'] eqn:E; [elim (split_on_nonempty PCT r E)|].
    injection H as <- <-. rewrite unquote_esc by assumption. rewrite (IH h' t' eq_refl).
    cbn [flat_map unquote_chunk app]. rewrite H1, H2. reflexivity.
  - intros r Hs IH h t H. rewrite split_on_cons, N.eqb_refl in H.
    destruct (split_on PCT r) as [|h' t'] eqn:E; [elim (split_on_nonempty PCT r E)|].
    injection H as <- <-. rewrite unquote_stray by exact Hs. rewrite (IH h' t' eq_refl).
    destruct (split_on_prefix PCT r h' t' E) as [rest Er].
    cbn [flat_map app]. rewrite unquote_chunk_stray; [reflexivity|].
    rewrite Er in Hs. eapply two_hex_prefix, Hs.
Qed.

(* the scanning model is the urllib code *)
Theorem unquote_to_bytes_split s : unquote_to_bytes s = unquote_to_bytes_py s.
Proof.
  unfold unquote_to_bytes_py. destruct (split_on PCT s) as [|h [|i t]] eqn:E.
  - elim (split_on_nonempty PCT s E).
  - rewrite (unquote_split_gen s h [] E). cbn [flat_map]. rewrite app_nil_r. symmetry. apply split_on_single in E. exact E.
  - apply (unquote_split_gen s h (i :: t) E).
Qed.

(* ---------- normalize_percent_encoding ---------- *)
(* number of escapes that the scan decodes *)
Fixpoint count_unreserved_escapes (b : bytes) : Z :=
  match b with
  | [] => 0
  | c :: r =>
      if (c =? PCT)%N then
        match r with
        | h1 :: h2 :: r' =>
            if is_hex_ascii h1 && is_hex_ascii h2
            then (if is_unreserved (hex_byte h1 h2) then 1 else 0) + count_unreserved_escapes r'
            else count_unreserved_escapes r
        | _ => count_unreserved_escapes r
        end
      else count_unreserved_escapes r
  end.

Lemma blen_cons {A} (c : A) r : blen (c :: r) = 1 + blen r.
Proof. unfold blen. cbn [List.length]. lia. Qed.

Theorem normalize_percent_length u :
  0 <= count_unreserved_escapes u /\
  blen u = blen (normalize_percent u) + 2 * count_unreserved_escapes u.
Proof.
  revert u. apply percent_scan_ind.
  - cbn. lia.
  - intros c r Hc IH. rewrite normalize_other by exact Hc. cbn [count_unreserved_escapes]. rewrite Hc.
    rewrite !blen_cons. lia.
  - intros h1 h2 r H1 H2 IH. rewrite normalize_esc by assumption.
    cbn [count_unreserved_escapes]. rewrite N.eqb_refl, H1, H2. cbn [andb].
    destruct (is_unreserved (hex_byte h1 h2)); rewrite !blen_cons; lia.
  - intros r Hs IH. rewrite normalize_stray by exact Hs.
    assert (E : count_unreserved_escapes (PCT :: r) = count_unreserved_escapes r).
    { destruct r as [|h1 [|h2 r']]; try reflexivity. cbn [two_hex] in Hs.
      cbn [count_unreserved_escapes]. rewrite N.eqb_refl, Hs. reflexivity. }
    rewrite E, !blen_cons. lia.
Qed.

Corollary normalize_percent_never_longer u : blen (normalize_percent u) <= blen u.
Proof. pose proof (normalize_percent_length u). lia. Qed.

Lemma PERCENT_OBF_nonempty : PERCENT_OBF <> [].
Proof. discriminate. Qed.

(* the label is set iff the value got shorter ... *)
Theorem normalize_percent_label_iff u :
  snd (normalize_percent_encoding u) = PERCENT_OBF <-> blen (fst (normalize_percent_encoding u)) < blen u.
Proof.
  unfold normalize_percent_encoding. cbn [fst snd].
  destruct (Z.ltb_spec (blen (normalize_percent u)) (blen u)) as [Hlt|Hge]; split; intros H'; try reflexivity; try lia.
  symmetry in H'. elim (PERCENT_OBF_nonempty H').
Qed.

Theorem normalize_percent_label_cases u :
  snd (normalize_percent_encoding u) = PERCENT_OBF \/ snd (normalize_percent_encoding u) = [].
Proof. unfold normalize_percent_encoding. cbn [snd]. destruct (_ <? _); auto. Qed.

(* ... iff at least one escape of an unreserved byte was decoded; otherwise the length is unchanged *)
Theorem normalize_percent_label_count u :
  snd (normalize_percent_encoding u) = PERCENT_OBF <-> 0 < count_unreserved_escapes u.
Proof. rewrite normalize_percent_label_iff. cbn [fst normalize_percent_encoding]. pose proof (normalize_percent_length u). lia. Qed.

Theorem normalize_percent_nolabel_length u :
  snd (normalize_percent_encoding u) = [] <-> blen (fst (normalize_percent_encoding u)) = blen u.
Proof.
  unfold normalize_percent_encoding. cbn [fst snd]. pose proof (normalize_percent_never_longer u).
  destruct (Z.ltb_spec (blen (normalize_percent u)) (blen u)) as [Hlt|Hge]; split; intros H'; try reflexivity; try lia.
  elim (PERCENT_OBF_nonempty H').
Qed.

(* well-formed escapes stay well formed *)
Lemma normalize_percent_wfb u : percent_wfb u = true -> percent_wfb (normalize_percent u) = true.
Proof.
  revert u. apply (percent_scan_ind (fun u => percent_wfb u = true -> percent_wfb (normalize_percent u) = true)).
  - reflexivity.
  - intros c r Hc IH H. rewrite wfb_other in H by exact Hc. rewrite normalize_other, wfb_other by exact Hc. auto.
  - intros h1 h2 r H1 H2 IH H. rewrite wfb_esc in H by assumption. rewrite normalize_esc by assumption.
    destruct (is_unreserved (hex_byte h1 h2)) eqn:Eu.
    + rewrite wfb_other by (apply unreserved_not_pct, Eu). auto.
    + rewrite wfb_esc by (apply hex_upper_hex; assumption). auto.
  - intros r Hs _ H. rewrite wfb_stray in H by exact Hs. discriminate.
Qed.

(* Idempotence holds when every percent sign of the input starts an escape ... *)
Theorem normalize_percent_idempotent u :
  percent_wfb u = true ->
  normalize_percent_encoding (fst (normalize_percent_encoding u)) = (fst (normalize_percent_encoding u), []).
Proof.
  intros Hwf. cbn [fst normalize_percent_encoding].
  assert (E : normalize_percent (normalize_percent u) = normalize_percent u).
  { revert u Hwf. apply (percent_scan_ind (fun u => percent_wfb u = true ->
                                             normalize_percent (normalize_percent u) = normalize_percent u)).
    - reflexivity.
    - intros c r Hc IH H. rewrite wfb_other in H by exact Hc.
      rewrite !normalize_other by exact Hc. rewrite IH by exact H. reflexivity.
    - intros h1 h2 r H1 H2 IH H. rewrite wfb_esc in H by assumption. rewrite normalize_esc by assumption.
      destruct (is_unreserved (hex_byte h1 h2)) eqn:Eu.
      + rewrite normalize_other by (apply unreserved_not_pct, Eu). rewrite IH by exact H. reflexivity.
      + rewrite normalize_esc by (apply hex_upper_hex; assumption).
        rewrite hex_byte_upper, Eu by assumption. rewrite !hex_upper_upper by assumption.
        rewrite IH by exact H. reflexivity.
    - intros r Hs _ H. rewrite wfb_stray in H by exact Hs. discriminate. }
  unfold normalize_percent_encoding. rewrite E. rewrite Z.ltb_irrefl. reflexivity.
Qed.

(* ... and fails otherwise: a stray percent sign can combine with a freshly decoded digit. *)
Example normalize_percent_not_idempotent :
  normalize_percent_encoding (L"%%341") = (L"%41", PERCENT_OBF) /\
  normalize_percent_encoding (L"%41") = (L"A", PERCENT_OBF).
Proof. split; vm_compute; reflexivity. Qed.

(* Normalising does not change what the URL decodes to - again only for well-formed escapes. *)
Theorem normalize_percent_unquote u :
  percent_wfb u = true ->
  unquote_to_bytes (fst (normalize_percent_encoding u)) = unquote_to_bytes u.
Proof.
  cbn [fst normalize_percent_encoding]. revert u.
  apply (percent_scan_ind (fun u => percent_wfb u = true ->
                             unquote_to_bytes (normalize_percent u) = unquote_to_bytes u)).
  - reflexivity.
  - intros c r Hc IH H. rewrite wfb_other in H by exact Hc.
    rewrite normalize_other, !unquote_other by exact Hc. rewrite IH by exact H. reflexivity.
  - intros h1 h2 r H1 H2 IH H. rewrite wfb_esc in H by assumption.
    rewrite normalize_esc, unquote_esc by assumption.
    destruct (is_unreserved (hex_byte h1 h2)) eqn:Eu.
    + rewrite unquote_other by (apply unreserved_not_pct, Eu). rewrite IH by exact H. reflexivity.
    + rewrite unquote_esc by (apply hex_upper_hex; assumption).
      rewrite hex_byte_upper by assumption. rewrite IH by exact H. reflexivity.
  - intros r Hs _ H. rewrite wfb_stray in H by exact Hs. discriminate.
Qed.

Example normalize_percent_unquote_fails_on_stray_percent :
  unquote_to_bytes (L"%2%35") = L"%25" /\
  unquote_to_bytes (fst (normalize_percent_encoding (L"%2%35"))) = L"%".
Proof. split; vm_compute; reflexivity. Qed.

(* quote_all output is well formed, already normal unless it contains unreserved bytes *)
Theorem quote_all_wfb b : wf_bytes b -> percent_wfb (quote_all b) = true.
Proof.
  induction 1 as [|c r Hc Hr IH]; [reflexivity|].
  unfold quote_all. cbn [flat_map]. fold (quote_all r). unfold quote_byte. cbn [app].
  destruct (quote_byte_spec c Hc) as (H1 & H2 & _). rewrite wfb_esc by assumption. exact IH.
Qed.

(* ---------- test vectors: every right-hand side was printed by /venv/bin/python (3.12.1) ---------- *)
Example uq_ex01 : unquote_to_bytes (L"abc%20def") = L"abc def". Proof. vm_compute. reflexivity. Qed.
Example uq_ex02 : unquote_to_bytes (L"%") = L"%". Proof. vm_compute. reflexivity. Qed.
Example uq_ex03 : unquote_to_bytes (L"%4") = L"%4". Proof. vm_compute. reflexivity. Qed.
Example uq_ex04 : unquote_to_bytes (L"%zz%41") = L"%zzA". Proof. vm_compute. reflexivity. Qed.
Example uq_ex05 : unquote_to_bytes (L"%%341") = L"%41". Proof. vm_compute. reflexivity. Qed.
Example uq_ex06 : unquote_to_bytes (L"%e9%E9") = [233; 233]%N. Proof. vm_compute. reflexivity. Qed.
Example uq_ex07 : unquote_to_bytes (L"%4g%g4%4%") = L"%4g%g4%4%". Proof. vm_compute. reflexivity. Qed.
Example uq_ex08 : unquote_to_bytes_py (L"%zz%41%%341") = L"%zzA%41". Proof. vm_compute. reflexivity. Qed.
Example npe_ex01 : normalize_percent_encoding (L"%41") = (L"A", PERCENT_OBF). Proof. vm_compute. reflexivity. Qed.
Example npe_ex02 : normalize_percent_encoding (L"%e9%E9%2f%7e%7E%41%5a%61%7a%30%39%2d%2e%5f")
                   = (L"%E9%E9%2F~~AZaz09-._", PERCENT_OBF). Proof. vm_compute. reflexivity. Qed.
Example npe_ex03 : normalize_percent_encoding (L"%2f%zz%4") = (L"%2F%zz%4", []). Proof. vm_compute. reflexivity. Qed.
Example npe_ex04 : normalize_percent_encoding (L"%25%32%35") = (L"%2525", PERCENT_OBF). Proof. vm_compute. reflexivity. Qed.
Example npe_ex05 : normalize_percent_encoding (L"%2%35") = (L"%25", PERCENT_OBF). Proof. vm_compute. reflexivity. Qed.
Example npe_ex06 : normalize_percent_encoding [] = ([], []). Proof. vm_compute. reflexivity. Qed.
Example qa_ex01 : quote_all [0; 10; 171; 255]%N = L"%00%0A%AB%FF". Proof. vm_compute. reflexivity. Qed.

Print Assumptions unquote_quote_all.
Print Assumptions unquote_no_percent.
Print Assumptions unquote_wf.
Print Assumptions unquote_to_bytes_split.
Print Assumptions normalize_percent_length.
Print Assumptions normalize_percent_label_iff.
Print Assumptions normalize_percent_label_count.
Print Assumptions normalize_percent_nolabel_length.
Print Assumptions normalize_percent_idempotent.
Print Assumptions normalize_percent_unquote.
Print Assumptions quote_all_wfb.
