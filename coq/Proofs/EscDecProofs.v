(* C14: the character-escape decoders (Model/Dec/EscDec.v) are exact on the match lists their patterns produce.
   Every theorem is about  find_xxx_post data ms  for an ARBITRARY match list ms satisfying an explicit
   hypothesis (spans in bounds + the shape of the groups); nothing is assumed about finditer. *)
From MD Require Import Lib.Base Model.Node Regex.Syntax Regex.Backtrack Model.Dec.ReLib.
From MD Require Import Model.Codec.PyInt Model.Codec.Utf Model.Codec.Percent Model.Dec.XmlChr Model.Dec.EscDec.
From MD Require Import Proofs.BaseProofs Proofs.PyIntProofs Proofs.UtfProofs Proofs.PercentProofs Proofs.XmlChrProofs.

(* ---------- generic facts shared with StrOpsProofs ---------- *)

(* group k of m participated and its span lies inside data *)
Definition span_ok (data : bytes) (m : mtch) (k : nat) : Prop :=
  exists s e, nth_error m k = Some (Some (s, e)) /\ 0 <= s /\ s <= e /\ e <= blen data.

Lemma span_ok_nth data m k :
  span_ok data m k -> (k < List.length m)%nat /\ exists s e, nth k m None = Some (s, e) /\ 0 <= s /\ s <= e /\ e <= blen data.
Proof.
  intros (s & e & Hn & Hb). split.
  - apply nth_error_Some. congruence.
  - exists s, e. split; [|exact Hb]. apply nth_error_nth with (d := None) in Hn. exact Hn.
Qed.

Lemma group_req_ok exn data m k : span_ok data m k -> group_req exn data m k = Ok (group data m k).
Proof.
  intros H. destruct (span_ok_nth data m k H) as [Hlt (s & e & Hn & _)].
  unfold group_req, group. replace (k <? List.length m)%nat with true by (symmetry; apply Nat.ltb_lt; exact Hlt).
  rewrite Hn. reflexivity.
Qed.

(* the node span is the match span, and the text under it is the match text *)
Lemma span_ok_bounds data m k :
  span_ok data m k ->
  0 <= m_start m k /\ m_start m k <= m_end m k /\ m_end m k <= blen data /\
  group data m k = slice data (m_start m k) (m_end m k) /\ blen (group data m k) = m_end m k - m_start m k.
Proof.
  intros H. destruct (span_ok_nth data m k H) as [_ (s & e & Hn & H0 & H1 & H2)].
  unfold m_start, m_end, span, group. rewrite Hn. cbn [fst snd].
  repeat split; try assumption. apply blen_slice; assumption.
Qed.

Lemma mapM_Forall2 {A B} (f : A -> res B) l l' :
  Forall2 (fun x y => f x = Ok y) l l' -> mapM f l = Ok l'.
Proof.
  induction 1 as [|x y l l' Hxy _ IH]; [reflexivity|]. cbn [mapM]. rewrite Hxy, IH. reflexivity.
Qed.

Lemma mapM_map_ok {A B} (f : A -> res B) (g : A -> B) l :
  Forall (fun x => f x = Ok (g x)) l -> mapM f l = Ok (map g l).
Proof.
  induction 1 as [|x l Hx _ IH]; [reflexivity|]. cbn [mapM map]. rewrite Hx, IH. reflexivity.
Qed.

Lemma mapM_combine_ok {A B C} (f : A -> res C) (g : A * B -> C) (P : A -> B -> Prop) l l' :
  (forall x y, P x y -> f x = Ok (g (x, y))) ->
  Forall2 P l l' -> mapM f l = Ok (map g (combine l l')).
Proof.
  intros Hf. induction 1 as [|x y l l' Hxy _ IH]; [reflexivity|].
  cbn [mapM combine map]. rewrite (Hf x y Hxy), IH. reflexivity.
Qed.

Lemma Forall2_combine_length {A B} (P : A -> B -> Prop) l l' :
  Forall2 P l l' -> List.length (combine l l') = List.length l.
Proof. induction 1 as [|x y l l' _ _ IH]; [reflexivity|]. cbn [combine List.length]. rewrite IH. reflexivity. Qed.

Lemma mapM_outcomes {A B} (f : A -> res B) (e : label) l :
  Forall (fun x => (exists y, f x = Ok y) \/ f x = Raise e) l ->
  (exists l', mapM f l = Ok l') \/ mapM f l = Raise e.
Proof.
  induction 1 as [|x l Hx _ IH]; [left; eexists; reflexivity|]. cbn [mapM].
  destruct Hx as [[y ->]| ->]; [|right; reflexivity]. cbn [bind].
  destruct IH as [[l' ->]| ->]; [left; eexists; reflexivity|right; reflexivity].
Qed.

Lemma mapM_length {A B} (f : A -> res B) l l' : mapM f l = Ok l' -> List.length l' = List.length l.
Proof.
  revert l'. induction l as [|x l IH]; intros l' H; cbn [mapM] in H.
  - injection H as <-. reflexivity.
  - destruct (f x) as [y| |]; cbn [bind] in H; try discriminate.
    destruct (mapM f l) as [ys| |]; cbn [bind] in H; try discriminate.
    injection H as <-. cbn [List.length]. rewrite (IH ys eq_refl). reflexivity.
Qed.

Lemma Forall_firstn' {A} (P : A -> Prop) (n : nat) : forall l, Forall P l -> Forall P (firstn n l).
Proof.
  induction n as [|n IH]; intros l H; [constructor|].
  destruct H as [|x l Hx Hl]; [constructor|]. cbn [firstn]. constructor; [exact Hx|apply IH, Hl].
Qed.

Lemma Forall_skipn' {A} (P : A -> Prop) (n : nat) : forall l, Forall P l -> Forall P (skipn n l).
Proof.
  induction n as [|n IH]; intros l H; [exact H|].
  destruct H as [|x l Hx Hl]; [constructor|]. cbn [skipn]. apply IH, Hl.
Qed.

Lemma wf_bytes_slice b lo hi : wf_bytes b -> wf_bytes (slice b lo hi).
Proof. unfold wf_bytes, slice. intros H. apply Forall_firstn', Forall_skipn', H. Qed.

Lemma wf_bytes_group data m k : wf_bytes data -> wf_bytes (group data m k).
Proof.
  intros H. unfold group. destruct (nth k m None) as [[s e]|]; [apply wf_bytes_slice, H|constructor].
Qed.

(* ---------- xml.py find_xml_hex ---------- *)

(* what XML_ESCAPE_RE matches: a run of references, each item well shaped (XmlChr.xml_item_okb) *)
Definition xml_m_ok (data : bytes) (m : mtch) (items : list bytes) : Prop :=
  span_ok data m 0 /\ group data m 0 = concat (map xml_reference items) /\ xml_items_ok items.

Definition xml_expected (mi : mtch * list bytes) : node :=
  Node [] (map xml_item_num (snd mi)) (L"unescape.xml") (m_start (fst mi) 0) (m_end (fst mi) 0) [].

Theorem find_xml_hex_post_exact data ms itemss :
  Forall2 (xml_m_ok data) ms itemss ->
  find_xml_hex_post data ms = Ok (map xml_expected (combine ms itemss)).
Proof.
  unfold find_xml_hex_post. apply mapM_combine_ok. intros m items (Hs & Hg & Hi).
  unfold xml_node. rewrite (group_req_ok _ _ _ _ Hs), Hg. cbn [bind].
  destruct (unescape_xml_items items Hi) as [E _]. rewrite E. reflexivity.
Qed.

(* one node per match, in order, covering exactly the match, decoded bytes well formed; never raises *)
Corollary find_xml_hex_post_total data ms itemss :
  Forall2 (xml_m_ok data) ms itemss ->
  exists nodes, find_xml_hex_post data ms = Ok nodes /\ List.length nodes = List.length ms /\
    Forall (fun n => wf_bytes (n_val n) /\ n_obf n = L"unescape.xml" /\ n_ty n = [] /\
                     0 <= n_st n <= n_en n /\ n_en n <= blen data) nodes.
Proof.
  intros H. eexists. split; [apply find_xml_hex_post_exact, H|]. split.
  - rewrite map_length. apply (Forall2_combine_length _ _ _ H).
  - induction H as [|m items ms itemss (Hs & Hg & Hi) _ IH]; [constructor|].
    cbn [combine map]. constructor; [|exact IH].
    unfold xml_expected. cbn [fst snd n_val n_obf n_ty n_st n_en].
    destruct (unescape_xml_items items Hi) as [_ Hwf].
    destruct (span_ok_bounds data m 0 Hs) as (H0 & H1 & H2 & _).
    repeat split; assumption.
Qed.

(* for ANY match list with participating group 0: a result, or the ValueError of unescape_xml *)
Theorem find_xml_hex_post_outcomes data ms :
  Forall (fun m => span_ok data m 0) ms ->
  (exists nodes, find_xml_hex_post data ms = Ok nodes) \/ find_xml_hex_post data ms = Raise value_error.
Proof.
  intros H. unfold find_xml_hex_post. apply mapM_outcomes. eapply Forall_impl; [|exact H].
  intros m Hs. cbv beta in Hs. unfold xml_node. rewrite (group_req_ok _ _ _ _ Hs). cbn [bind].
  destruct (unescape_xml_outcomes (group data m 0)) as [(b & -> & _)| ->]; [left; eexists; reflexivity|right; reflexivity].
Qed.

(* ---------- chr.py find_chr ---------- *)

(* what CHR_RE captures in group 1: zeros, then one to five digits *)
Definition chr_m_ok (data : bytes) (m : mtch) (kd : nat * bytes) : Prop :=
  span_ok data m 0 /\ span_ok data m 1 /\
  group data m 1 = repeat 48%N (fst kd) ++ snd kd /\ all_digits (snd kd) /\ 1 <= blen (snd kd) <= 5.

(* skipped: more than 4300 digit characters (int() raises ValueError), or a surrogate (UnicodeEncodeError) *)
Definition chr_expected (mk : mtch * (nat * bytes)) : list node :=
  let m := fst mk in
  let d' := snd (snd mk) in
  if (MAX_STR_DIGITS <? Z.of_nat (fst (snd mk)) + blen d') || is_surrogate (dec_value d') then []
  else [Node (L"string") (utf8_bytes_cp (dec_value d')) (L"function.chr") (m_start m 0) (m_end m 0) []].

Lemma blen_app {A} (a b : list A) : blen (a ++ b) = blen a + blen b.
Proof. unfold blen. rewrite app_length. lia. Qed.

Lemma blen_repeat {A} (x : A) k : blen (repeat x k) = Z.of_nat k.
Proof. unfold blen. rewrite repeat_length. reflexivity. Qed.

Theorem find_chr_post_exact data ms kds :
  Forall2 (chr_m_ok data) ms kds ->
  find_chr_post data ms = Ok (flat_map chr_expected (combine ms kds)).
Proof.
  induction 1 as [|m [k d'] ms kds (Hs0 & Hs1 & Hg & Hd & Hl) _ IH]; [reflexivity|].
  cbn [fst snd] in Hg, Hd, Hl.
  cbn [find_chr_post combine flat_map]. rewrite (group_req_ok _ _ _ _ Hs1), Hg. cbn [bind].
  destruct (chr_value_regex_shape k d' Hd Hl) as [E1 E2]. cbv zeta in E1, E2.
  rewrite E1, IH. cbn [bind]. f_equal. unfold chr_expected. cbn [fst snd].
  assert (Hlen : blen (repeat 48%N k ++ d') = Z.of_nat k + blen d') by (rewrite blen_app, blen_repeat; reflexivity).
  destruct (Z.ltb_spec MAX_STR_DIGITS (Z.of_nat k + blen d')) as [Hlong|Hshort]; cbn [orb].
  - assert (Hall : all_digits (repeat 48%N k ++ d')).
    { apply Forall_app. split; [|exact Hd]. apply Forall_forall. intros c Hc. apply repeat_spec in Hc. subst. reflexivity. }
    pose proof (chr_value_too_long _ Hall ltac:(lia)) as E3. rewrite E1 in E3. injection E3 as ->. reflexivity.
  - rewrite E2 by lia. destruct (is_surrogate (dec_value d')); reflexivity.
Qed.

Corollary find_chr_post_total data ms kds :
  Forall2 (chr_m_ok data) ms kds ->
  exists nodes, find_chr_post data ms = Ok nodes /\
    Forall (fun n => n_ty n = L"string" /\ n_obf n = L"function.chr" /\ 0 <= n_st n <= n_en n /\ n_en n <= blen data) nodes.
Proof.
  intros H. eexists. split; [apply find_chr_post_exact, H|].
  induction H as [|m kd ms kds (Hs0 & _) _ IH]; [constructor|].
  cbn [combine flat_map]. apply Forall_app. split; [|exact IH].
  unfold chr_expected. cbn [fst snd]. destruct (_ || _); constructor; [|constructor].
  cbn [n_ty n_obf n_st n_en]. destruct (span_ok_bounds data m 0 Hs0) as (H0 & H1 & H2 & _).
  repeat split; assumption.
Qed.

(* ---------- javascript.py find_unescape ---------- *)

Definition unescape_expected (data : bytes) (m : mtch) : node :=
  Node (L"string") (unquote_to_bytes (group data m 1)) (L"function.unescape") (m_start m 0) (m_end m 0) [].

Theorem find_unescape_post_exact data ms :
  Forall (fun m => span_ok data m 1) ms ->
  find_unescape_post data ms = Ok (map (unescape_expected data) ms).
Proof.
  intros H. unfold find_unescape_post. apply mapM_map_ok. eapply Forall_impl; [|exact H].
  intros m Hs. cbv beta in Hs. unfold unescape_node. rewrite (group_req_ok _ _ _ _ Hs). reflexivity.
Qed.

(* the decoder inverts "escape everything" *)
Corollary find_unescape_post_quote_all data ms bs :
  Forall2 (fun m b => span_ok data m 1 /\ group data m 1 = quote_all b /\ wf_bytes b) ms bs ->
  find_unescape_post data ms =
  Ok (map (fun mb => Node (L"string") (snd mb) (L"function.unescape") (m_start (fst mb) 0) (m_end (fst mb) 0) [])
          (combine ms bs)).
Proof.
  unfold find_unescape_post. apply mapM_combine_ok. intros m b (Hs & Hg & Hwf).
  unfold unescape_node. rewrite (group_req_ok _ _ _ _ Hs), Hg. cbn [bind fst snd].
  rewrite unquote_quote_all by exact Hwf. reflexivity.
Qed.

(* text without a percent sign is returned unchanged *)
Corollary unescape_expected_plain data m :
  ~ In PCT (group data m 1) -> n_val (unescape_expected data m) = group data m 1.
Proof. intros H. cbn [unescape_expected n_val]. apply unquote_no_percent, H. Qed.

Corollary find_unescape_post_total data ms :
  wf_bytes data -> Forall (fun m => span_ok data m 0 /\ span_ok data m 1) ms ->
  exists nodes, find_unescape_post data ms = Ok nodes /\ List.length nodes = List.length ms /\
    Forall (fun n => wf_bytes (n_val n) /\ 0 <= n_st n <= n_en n /\ n_en n <= blen data) nodes.
Proof.
  intros Hwf H. eexists. split; [apply find_unescape_post_exact; eapply Forall_impl; [|exact H]; cbv beta; tauto|].
  split; [apply map_length|]. apply Forall_map. eapply Forall_impl; [|exact H].
  intros m [Hs0 _]. cbn [unescape_expected n_val n_st n_en].
  destruct (span_ok_bounds data m 0 Hs0) as (H0 & H1 & H2 & _).
  split; [apply unquote_wf, wf_bytes_group, Hwf|]. repeat split; assumption.
Qed.

(* ---------- codec.py find_utf16 ---------- *)

(* what UTF16_RE matches: bytes < 256 each followed by a zero byte; the separators (one or two zero code units)
   are units of value 0, see utf16_runs_text below *)
Definition utf16_m_ok (data : bytes) (m : mtch) (units : bytes) : Prop :=
  span_ok data m 0 /\ group data m 0 = interleave0 units /\ wf_bytes units.

Definition utf16_expected (mu : mtch * bytes) : node :=
  Node [] (flat_map utf8_latin1 (snd mu)) (L"codec.uft-16") (m_start (fst mu) 0) (m_end (fst mu) 0) [].

Theorem find_utf16_post_exact data ms unitss :
  Forall2 (utf16_m_ok data) ms unitss ->
  find_utf16_post data ms = Ok (map utf16_expected (combine ms unitss)).
Proof.
  unfold find_utf16_post. apply mapM_combine_ok. intros m units (Hs & Hg & Hwf).
  unfold utf16_node. rewrite (group_req_ok _ _ _ _ Hs), Hg. cbn [bind].
  rewrite utf16_to_utf8_latin1 by exact Hwf. reflexivity.
Qed.

(* the literal shape of the pattern: a run, then (separator of 2 or 4 zero bytes, run) repeated *)
Definition utf16_sep_text (dbl : bool) : bytes := if dbl then [0; 0; 0; 0]%N else [0; 0]%N.
Definition utf16_sep_units (dbl : bool) : bytes := if dbl then [0; 0]%N else [0]%N.

Definition utf16_runs_text (r : bytes) (rest : list (bool * bytes)) : bytes :=
  interleave0 r ++ flat_map (fun sr => utf16_sep_text (fst sr) ++ interleave0 (snd sr)) rest.
Definition utf16_runs_units (r : bytes) (rest : list (bool * bytes)) : bytes :=
  r ++ flat_map (fun sr => utf16_sep_units (fst sr) ++ snd sr) rest.

Lemma interleave0_app a b : interleave0 (a ++ b) = interleave0 a ++ interleave0 b.
Proof. unfold interleave0. apply flat_map_app. Qed.

Lemma utf16_runs_text_units r rest : utf16_runs_text r rest = interleave0 (utf16_runs_units r rest).
Proof.
  unfold utf16_runs_text, utf16_runs_units. rewrite interleave0_app. f_equal.
  induction rest as [|[dbl r'] rest IH]; [reflexivity|].
  cbn [flat_map fst snd]. rewrite !interleave0_app, IH. destruct dbl; reflexivity.
Qed.

Lemma utf8_latin1_zero : utf8_latin1 0 = [0%N].
Proof. reflexivity. Qed.

(* value for the literal shape: the UTF-8 of every run, the separators become NUL bytes *)
Corollary find_utf16_runs_value r rest :
  wf_bytes r -> Forall (fun sr => wf_bytes (snd sr)) rest ->
  utf16_to_utf8 (utf16_runs_text r rest) =
  Ok (flat_map utf8_latin1 r ++ flat_map (fun sr => utf16_sep_units (fst sr) ++ flat_map utf8_latin1 (snd sr)) rest).
Proof.
  intros Hr Hrest. rewrite utf16_runs_text_units. rewrite utf16_to_utf8_latin1.
  - f_equal. unfold utf16_runs_units. rewrite flat_map_app. f_equal.
    induction rest as [|[dbl r'] rest IH]; [reflexivity|].
    inversion Hrest as [|? ? _ Hrest']; subst.
    cbn [flat_map fst snd]. rewrite !flat_map_app, (IH Hrest'). destruct dbl; reflexivity.
  - unfold utf16_runs_units. apply Forall_app. split; [exact Hr|].
    induction Hrest as [|[dbl r'] rest Hr' _ IH]; [constructor|].
    cbn [flat_map fst snd] in *. apply Forall_app. split; [|exact IH].
    apply Forall_app. split; [|exact Hr']. destruct dbl; repeat constructor.
Qed.

Corollary find_utf16_post_total data ms unitss :
  Forall2 (utf16_m_ok data) ms unitss ->
  exists nodes, find_utf16_post data ms = Ok nodes /\ List.length nodes = List.length ms /\
    Forall (fun n => n_obf n = L"codec.uft-16" /\ 0 <= n_st n <= n_en n /\ n_en n <= blen data) nodes.
Proof.
  intros H. eexists. split; [apply find_utf16_post_exact, H|]. split.
  - rewrite map_length. apply (Forall2_combine_length _ _ _ H).
  - induction H as [|m units ms unitss (Hs & _) _ IH]; [constructor|].
    cbn [combine map]. constructor; [|exact IH]. cbn [utf16_expected fst snd n_obf n_st n_en].
    destruct (span_ok_bounds data m 0 Hs) as (H0 & H1 & H2 & _). repeat split; assumption.
Qed.

(* for ANY in-bounds match list over well-formed data the only exception is UnicodeDecodeError *)
Theorem find_utf16_post_outcomes data ms :
  wf_bytes data -> Forall (fun m => span_ok data m 0) ms ->
  (exists nodes, find_utf16_post data ms = Ok nodes) \/ find_utf16_post data ms = Raise unicode_decode_error.
Proof.
  intros Hwf H. unfold find_utf16_post. apply mapM_outcomes. eapply Forall_impl; [|exact H].
  intros m Hs. cbv beta in Hs. unfold utf16_node. rewrite (group_req_ok _ _ _ _ Hs). cbn [bind].
  destruct (utf16_to_utf8_outcomes (group data m 0) (wf_bytes_group data m 0 Hwf)) as [[b ->]| ->];
    [left; eexists; reflexivity|right; reflexivity].
Qed.

(* a group the code needs but that did not participate: the Python exception, not a silent default *)
Lemma group_req_none exn data m k : (k < List.length m)%nat -> nth k m None = None -> group_req exn data m k = Raise exn.
Proof.
  intros Hlt Hn. unfold group_req. replace (k <? List.length m)%nat with true by (symmetry; apply Nat.ltb_lt; exact Hlt).
  rewrite Hn. reflexivity.
Qed.

(* ---------- test vectors: every right-hand side was returned by the real decoder under /venv/bin/python (3.12.1) ---------- *)
Example xml_ex01 : find_xml_hex (L"&#x41;&#X42;&#67;&#068;&#x45;") = Ok [Node [] (L"ABCDE") (L"unescape.xml") 0 29 []]. Proof. vm_compute. reflexivity. Qed.
Example xml_ex02 : find_xml_hex (L"a&#104;&#105;&#32;&#x74;&#x6f;&#255;z") = Ok [Node [] ([104; 105; 32; 116; 111; 255]%N) (L"unescape.xml") 1 36 []]. Proof. vm_compute. reflexivity. Qed.
Example xml_ex03 : find_xml_hex (L"&#1;&#2;&#3;&#4;") = Ok []. Proof. vm_compute. reflexivity. Qed.
Example xml_ex04 : find_xml_hex (L"&#1;&#2;&#3;&#4;&#5;&#6;&#256;") = Ok [Node [] ([1; 2; 3; 4; 5; 6]%N) (L"unescape.xml") 0 24 []]. Proof. vm_compute. reflexivity. Qed.
Example xml_ex05 : find_xml_hex (L"&#x41;&#x42;&#x43;&#x44;&#x45;&#x4;&#x46;&#x47;&#x48;&#x49;&#x4a;") = Ok [Node [] (L"ABCDE") (L"unescape.xml") 0 30 []; Node [] (L"FGHIJ") (L"unescape.xml") 35 65 []]. Proof. vm_compute. reflexivity. Qed.
Example xml_ex06 : find_xml_hex (L"&#199;&#200;&#255;&#001;&#01;&#1;&#300;") = Ok [Node [] ([199; 200; 255; 1; 1; 1]%N) (L"unescape.xml") 0 33 []]. Proof. vm_compute. reflexivity. Qed.
Example xml_ex07 : find_xml_hex (L"&#00;&#0;&#000;&#x00;&#X0a;") = Ok [Node [] ([0; 0; 0; 0; 10]%N) (L"unescape.xml") 0 27 []]. Proof. vm_compute. reflexivity. Qed.
Example xml_ex08 : find_xml_hex (L"&#1;&#2;&#3;&#4;&#5;x&#6;&#7;&#8;&#9;&#10;") = Ok [Node [] ([1; 2; 3; 4; 5]%N) (L"unescape.xml") 0 20 []; Node [] ([6; 7; 8; 9; 10]%N) (L"unescape.xml") 21 42 []]. Proof. vm_compute. reflexivity. Qed.
Example xml_ex09 : find_xml_hex [] = Ok []. Proof. vm_compute. reflexivity. Qed.
Example xml_ex10 : find_xml_hex (L"&#x4g;&#1;&#2;&#3;&#4;&#5") = Ok []. Proof. vm_compute. reflexivity. Qed.
Example chr_ex01 : find_chr (L"chr(65)") = Ok [Node (L"string") (L"A") (L"function.chr") 0 7 []]. Proof. vm_compute. reflexivity. Qed.
Example chr_ex02 : find_chr (L"ChrW(8364) & CHRB(200)") = Ok [Node (L"string") ([226; 130; 172]%N) (L"function.chr") 0 10 []; Node (L"string") ([195; 136]%N) (L"function.chr") 13 22 []]. Proof. vm_compute. reflexivity. Qed.
Example chr_ex03 : find_chr (L"chr(55296)chr(57343)chr(57344)") = Ok [Node (L"string") ([238; 128; 128]%N) (L"function.chr") 20 30 []]. Proof. vm_compute. reflexivity. Qed.
Example chr_ex04 : find_chr (L"chr(000000065)") = Ok [Node (L"string") (L"A") (L"function.chr") 0 14 []]. Proof. vm_compute. reflexivity. Qed.
Example chr_ex05 : find_chr (L"chr(99999)chr(100000)") = Ok [Node (L"string") ([240; 152; 154; 159]%N) (L"function.chr") 0 10 []]. Proof. vm_compute. reflexivity. Qed.
Example chr_ex06 : find_chr (L"chr(0)") = Ok [Node (L"string") ([0]%N) (L"function.chr") 0 6 []]. Proof. vm_compute. reflexivity. Qed.
Example chr_ex07 : find_chr (L"chr()chr(-1)chr( 65)") = Ok []. Proof. vm_compute. reflexivity. Qed.
Example chr_ex08 : find_chr (L"chrx(65) xchr(66)") = Ok [Node (L"string") (L"B") (L"function.chr") 10 17 []]. Proof. vm_compute. reflexivity. Qed.
Example chr_ex09 : find_chr (L"chr(65") = Ok []. Proof. vm_compute. reflexivity. Qed.
Example chr_ex10 : find_chr (L"chr(1234567)") = Ok []. Proof. vm_compute. reflexivity. Qed.
Example unescape_ex01 : find_unescape (L"unescape('%41%42c')") = Ok [Node (L"string") (L"ABc") (L"function.unescape") 0 19 []]. Proof. vm_compute. reflexivity. Qed.
Example unescape_ex02 : find_unescape (L"unescape('')") = Ok [Node (L"string") [] (L"function.unescape") 0 12 []]. Proof. vm_compute. reflexivity. Qed.
Example unescape_ex03 : find_unescape (L"unescape('%4')unescape('%')") = Ok [Node (L"string") (L"%4") (L"function.unescape") 0 14 []; Node (L"string") (L"%") (L"function.unescape") 14 27 []]. Proof. vm_compute. reflexivity. Qed.
Example unescape_ex04 : find_unescape (L"unescape('%u0041%41')") = Ok [Node (L"string") (L"%u0041A") (L"function.unescape") 0 21 []]. Proof. vm_compute. reflexivity. Qed.
Example unescape_ex05 : find_unescape (L"unescape('%zz%4g%41')") = Ok [Node (L"string") (L"%zz%4gA") (L"function.unescape") 0 21 []]. Proof. vm_compute. reflexivity. Qed.
Example unescape_ex06 : find_unescape (L"unescape(""%41"")") = Ok []. Proof. vm_compute. reflexivity. Qed.
Example unescape_ex07 : find_unescape (L"x=unescape('a%20b');y=unescape('%ff%FE')") = Ok [Node (L"string") (L"a b") (L"function.unescape") 2 19 []; Node (L"string") ([255; 254]%N) (L"function.unescape") 22 40 []]. Proof. vm_compute. reflexivity. Qed.
Example unescape_ex08 : find_unescape (L"Unescape('%41')") = Ok []. Proof. vm_compute. reflexivity. Qed.
Example unescape_ex09 : find_unescape (L"unescape('%%41')") = Ok [Node (L"string") (L"%A") (L"function.unescape") 0 16 []]. Proof. vm_compute. reflexivity. Qed.
Example unescape_ex10 : find_unescape (L"unescape('%41'") = Ok []. Proof. vm_compute. reflexivity. Qed.
Example utf16_ex01 : find_utf16 ([104; 0; 101; 0; 108; 0; 108; 0; 111; 0; 32; 0; 119; 0]%N) = Ok [Node [] (L"hello w") (L"codec.uft-16") 0 14 []]. Proof. vm_compute. reflexivity. Qed.
Example utf16_ex02 : find_utf16 ([104; 0; 101; 0; 108; 0; 108; 0; 111; 0; 32; 0]%N) = Ok []. Proof. vm_compute. reflexivity. Qed.
Example utf16_ex03 : find_utf16 ([104; 0; 101; 0; 108; 0; 108; 0; 111; 0; 32; 0; 119; 0; 0; 0; 111; 0; 114; 0; 108; 0; 100; 0; 97; 0; 98; 0; 99; 0]%N) = Ok [Node [] ([104; 101; 108; 108; 111; 32; 119; 0; 111; 114; 108; 100; 97; 98; 99]%N) (L"codec.uft-16") 0 30 []]. Proof. vm_compute. reflexivity. Qed.
Example utf16_ex04 : find_utf16 ([104; 0; 101; 0; 108; 0; 108; 0; 111; 0; 32; 0; 119; 0; 0; 0; 0; 0; 111; 0; 114; 0; 108; 0; 100; 0; 97; 0; 98; 0; 99; 0]%N) = Ok [Node [] ([104; 101; 108; 108; 111; 32; 119; 0; 0; 111; 114; 108; 100; 97; 98; 99]%N) (L"codec.uft-16") 0 32 []]. Proof. vm_compute. reflexivity. Qed.
Example utf16_ex05 : find_utf16 ([104; 0; 101; 0; 108; 0; 108; 0; 111; 0; 32; 0; 119; 0; 0; 0; 0; 0; 0; 0; 111; 0; 114; 0; 108; 0; 100; 0; 97; 0; 98; 0; 99; 0]%N) = Ok [Node [] (L"hello w") (L"codec.uft-16") 0 14 []; Node [] (L"orldabc") (L"codec.uft-16") 20 34 []]. Proof. vm_compute. reflexivity. Qed.
Example utf16_ex06 : find_utf16 ([233; 0; 255; 0; 160; 0; 254; 0; 97; 0; 98; 0; 99; 0]%N) = Ok [Node [] ([195; 169; 195; 191; 194; 160; 195; 190; 97; 98; 99]%N) (L"codec.uft-16") 0 14 []]. Proof. vm_compute. reflexivity. Qed.
Example utf16_ex07 : find_utf16 ([0; 104; 0; 101; 0; 108; 0; 108; 0; 111; 0; 32; 0; 119; 0; 111]%N) = Ok [Node [] (L"hello w") (L"codec.uft-16") 1 15 []]. Proof. vm_compute. reflexivity. Qed.
Example utf16_ex08 : find_utf16 ([255; 254; 104; 0; 101; 0; 108; 0; 108; 0; 111; 0; 32; 0; 119; 0]%N) = Ok [Node [] (L"hello w") (L"codec.uft-16") 2 16 []]. Proof. vm_compute. reflexivity. Qed.
Example utf16_ex09 : find_utf16 ([97; 0; 98; 0; 99; 0; 100; 0; 101; 0; 102; 0; 127; 0; 103; 0]%N) = Ok []. Proof. vm_compute. reflexivity. Qed.
Example utf16_ex10 : find_utf16 ([97; 0; 98; 0; 99; 0; 100; 0; 101; 0; 102; 0; 103; 0; 0; 0; 104; 0]%N) = Ok [Node [] (L"abcdefg") (L"codec.uft-16") 0 14 []]. Proof. vm_compute. reflexivity. Qed.

Print Assumptions find_xml_hex_post_exact.
Print Assumptions find_xml_hex_post_total.
Print Assumptions find_xml_hex_post_outcomes.
Print Assumptions find_chr_post_exact.
Print Assumptions find_chr_post_total.
Print Assumptions find_unescape_post_exact.
Print Assumptions find_unescape_post_quote_all.
Print Assumptions find_unescape_post_total.
Print Assumptions find_utf16_post_exact.
Print Assumptions find_utf16_runs_value.
Print Assumptions find_utf16_post_total.
Print Assumptions find_utf16_post_outcomes.
