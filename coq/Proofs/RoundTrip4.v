(* END-TO-END round trips  encode -> find  for the BARE forms of C13 (the remaining half of the converse):
   find_hex on hexlify p (lower case) and on its upper-case spelling, find_base64 on b64_encode p, unwrapped and
   line-wrapped, INCLUDING span selection by the model's own backtracking matcher (Regex/Backtrack.v) on the
   regenerated regex terms (Generated/Regexes.v, referred to by name only; the terms are unfolded by the proof
   scripts, never copied).  Continuation of Proofs/RoundTrip.v / RoundTrip2.v: same conclusion shape (the form is
   the FIRST node, with exactly its span and the payload as value; every other node starts at or after its end),
   same fuel discipline.

   find_hex     (section 5): at least ten payload bytes; the suffix must not go on with a PAIR of digits of the
                same case ([hex_stop_lower] / [hex_stop_upper]: exact); the upper-case spelling needs a letter among
                its first ten pairs ([upper_has_letter]: exact, this is the known finding F11 - the lower-case
                alternative of the pattern comes first and grabs a run of ten digit-only pairs; see
                rt4_F11_counterexample).  The post-processing applies no filter.
   find_base64  (sections 2, 4): the pattern is NOT backtrack-free on its own encoding: the first group swallows the
                whole alphabet run, then the matcher gives bytes back until FIVE groups of four and two more
                alphabet bytes fit.  [rep_fail] / [rep_exact] / [rep_top] describe that search for any pattern of
                the shape  (class{A,} optional-separators){J,} class{T,} =? =?  ; the form needs A*J+T = 22
                alphabet bytes (payloads of at least 16 bytes: a side condition the property text does not mention,
                see rt4_b64_min_length_counterexample), the acceptance rules of the post-processing
                ([b64_acceptable], the boolean of B64HexProofs.b64_accept_chars) and a suffix that starts with
                neither an alphabet byte, '=', nor a byte that can start a separator ([b64_stop]).
   wrapped      (sections 2b, 5b): full lines of at least four alphabet bytes, each followed by LF or CR LF, then
                the last line and the padding.  Every full line is one group; what is still wanted of the five
                groups must fit into the last line: 4*(5 - number of full lines) + 2 <= its alphabet bytes
                (sufficient, not necessary: the matcher can also split earlier lines).  The cleaning step joins the
                lines, so the value is the payload and the span covers the line breaks.  The separators written as
                character references and the marker are NOT covered.

   The prefix is any text in which no attempt succeeds ([quiet]); the decidable sufficient condition is
   [neutral]: no byte of the prefix can start a match (for both patterns: no byte of the pattern's own alphabet).
   [Hang] stays in the conclusions only because the scan of the arbitrary suffix may run out of fuel; an
   exception while the other matches are processed is excluded by Shapes2.find_hex_total / find_base64_total. *)
From Coq Require Import List ZArith NArith Bool Lia Arith.
From MD Require Import Lib.Base Model.Node Regex.Syntax Regex.DerivProofs Regex.MonitorProofs
  Regex.Backtrack Regex.BacktrackProofs Regex.LocalityProofs Generated.Regexes Model.Dec.ReLib.
From MD Require Import Model.Codec.Base64 Model.Codec.Hex Model.Dec.XmlChr Model.Dec.B64Hex.
From MD Require Import Proofs.BaseProofs Proofs.Base64Proofs Proofs.HexProofs Proofs.B64HexProofs
  Proofs.Shapes1 Proofs.Shapes2 Proofs.RoundTrip Proofs.RoundTrip2.
Import ListNotations.
Open Scope Z_scope.

(* ------------------------------------------------------------------ *)
(* 1.  Matcher facts: a greedy class repeat gives bytes back            *)
(* ------------------------------------------------------------------ *)
Lemma seek_split w y p j :
  p_after p = w ++ y -> (j <= List.length w)%nat ->
  p_after (seek j p) = skipn j w ++ y /\ p_i (seek j p) = p_i p + Z.of_nat j.
Proof.
  intros Hp Hj.
  assert (E : p_after p = firstn j w ++ (skipn j w ++ y)) by (rewrite app_assoc, firstn_skipn; exact Hp).
  destruct (seek_word _ p _ 0 E) as (_ & S2 & S3).
  rewrite firstn_length, Nat.min_l in S2, S3 by lia. split; assumption.
Qed.

Lemma seek_add w y p a b :
  p_after p = w ++ y -> (a <= List.length w)%nat -> seek (a + b) p = seek b (seek a p).
Proof.
  intros Hp Ha.
  assert (E : p_after p = firstn a w ++ (skipn a w ++ y)) by (rewrite app_assoc, firstn_skipn; exact Hp).
  destruct (seek_word _ p _ b E) as (S1 & _ & _).
  rewrite firstn_length, Nat.min_l in S1 by lia. exact S1.
Qed.

(* class{lo,}: the continuation fails at every admissible end: the repeat fails *)
Lemma m_rep_cls_fail mk : forall w lo f p c K y,
  Forall (fun b => N.testbit mk b = true) w -> hd_out mk y ->
  p_after p = w ++ y -> (List.length w + 2 <= f)%nat ->
  (forall j, (lo <= j <= List.length w)%nat -> K (seek j p) c = NoMatch) ->
  m f (Rep lo None (Cls mk)) p c K = NoMatch.
Proof.
  induction w as [|b w IH]; intros lo f p c K y HF Hy Hp Hf HK.
  - cbn [List.length app] in *. destruct f as [|f]; [lia|]. cbn [m].
    pose proof (blocked_first (Cls mk) y eq_refl Hy) as Hb.
    rewrite (Hb f p c _ Hp ltac:(cbn [spine]; lia)).
    destruct lo as [|lo]; [apply (HK 0%nat); lia | reflexivity].
  - inversion HF as [|? ? Hb HF']; subst. cbn [List.length app] in *.
    destruct f as [|f]; [lia|]. cbn [m option_map].
    rewrite (m_cls_take f mk p c _ b (w ++ y) Hp Hb ltac:(lia)). cbn [p_i].
    replace (p_i p + 1 =? p_i p) with false by (symmetry; apply Z.eqb_neq; lia).
    set (p1 := {| p_i := p_i p + 1; p_before := b :: p_before p; p_after := w ++ y |}).
    assert (Hp1 : p_after p1 = w ++ y) by reflexivity.
    rewrite (IH (pred lo) f p1 c K y HF' Hy Hp1 ltac:(lia)).
    + destruct lo as [|lo]; [apply (HK 0%nat); lia | reflexivity].
    + intros j Hj. unfold p1. rewrite <- (seek_S _ p b (w ++ y) Hp). apply HK. lia.
Qed.

(* class{lo,}: the longest admissible end at which the continuation does not fail is the answer *)
Lemma m_rep_cls_first mk : forall w lo f p c K y j0,
  Forall (fun b => N.testbit mk b = true) w -> hd_out mk y ->
  p_after p = w ++ y -> (List.length w + 2 <= f)%nat ->
  (lo <= j0 <= List.length w)%nat ->
  (forall j, (j0 < j <= List.length w)%nat -> K (seek j p) c = NoMatch) ->
  K (seek j0 p) c <> NoMatch ->
  m f (Rep lo None (Cls mk)) p c K = K (seek j0 p) c.
Proof.
  induction w as [|b w IH]; intros lo f p c K y j0 HF Hy Hp Hf Hj0 HK Hne.
  - cbn [List.length app] in *. assert (j0 = 0%nat) by lia. subst j0. assert (lo = 0%nat) by lia. subst lo.
    destruct f as [|f]; [lia|]. cbn [m seek].
    pose proof (blocked_first (Cls mk) y eq_refl Hy) as Hb.
    rewrite (Hb f p c _ Hp ltac:(cbn [spine]; lia)). reflexivity.
  - inversion HF as [|? ? Hb HF']; subst. cbn [List.length app] in *.
    destruct f as [|f]; [lia|]. cbn [m option_map].
    rewrite (m_cls_take f mk p c _ b (w ++ y) Hp Hb ltac:(lia)). cbn [p_i].
    replace (p_i p + 1 =? p_i p) with false by (symmetry; apply Z.eqb_neq; lia).
    set (p1 := {| p_i := p_i p + 1; p_before := b :: p_before p; p_after := w ++ y |}).
    assert (Hp1 : p_after p1 = w ++ y) by reflexivity.
    destruct j0 as [|j0].
    + assert (lo = 0%nat) by lia. subst lo. cbn [pred].
      rewrite (m_rep_cls_fail mk w 0 f p1 c K y HF' Hy Hp1 ltac:(lia)); [reflexivity|].
      intros j Hj. unfold p1. rewrite <- (seek_S _ p b (w ++ y) Hp). apply HK. lia.
    + assert (E : m f (Rep (pred lo) None (Cls mk)) p1 c K = K (seek (S j0) p) c).
      { rewrite (seek_S _ p b (w ++ y) Hp). fold p1.
        apply (IH (pred lo) f p1 c K y j0 HF' Hy Hp1); [lia | lia | |].
        - intros j Hj. unfold p1. rewrite <- (seek_S _ p b (w ++ y) Hp). apply HK. lia.
        - unfold p1. rewrite <- (seek_S _ p b (w ++ y) Hp). exact Hne. }
      rewrite E. destruct lo as [|lo]; [apply out_first; exact Hne | reflexivity].
Qed.

(* a sequence of optional parts none of which can start: nothing is consumed, the continuation decides *)
Fixpoint skippable (r : re) : bool :=
  match r with
  | Rep O _ a => startable a
  | Seq a b => skippable a && skippable b
  | _ => false
  end.

Lemma skippable_nullable r : skippable r = true -> nullable r = true.
Proof.
  induction r as [| | |a IHa b IHb| | lo hi a IHa | | | | |]; cbn [skippable nullable]; try discriminate.
  - intros H. apply andb_true_iff in H. destruct H as [H1 H2]. rewrite (IHa H1), (IHb H2). reflexivity.
  - destruct lo; [reflexivity | discriminate].
Qed.

Lemma det_skip r : forall x, skippable r = true -> hd_out (first_cls r) x -> det (spine r) r [] x cf_id.
Proof.
  induction r as [| | |a IHa b IHb| | lo hi a IHa | | | | |]; intros x Hs Hx; cbn [skippable] in Hs; try discriminate Hs.
  - apply andb_true_iff in Hs. destruct Hs as [Ha Hb].
    cbn [first_cls spine] in *. rewrite (skippable_nullable a Ha) in *.
    eapply det_ext; [|apply (det_seq (spine a) (spine b) a b [] [] x cf_id cf_id)].
    + intros i c. reflexivity.
    + apply IHa; [exact Ha | apply (hd_out_lor_l _ _ _ Hx)].
    + apply IHb; [exact Hb | apply (hd_out_lor_r _ _ _ Hx)].
  - destruct lo as [|lo]; [|discriminate Hs]. cbn [first_cls spine] in *.
    apply det_rep_stop_blocked. apply blocked_first; assumption.
Qed.

(* ------------------------------------------------------------------ *)
(* 2.  (class{A,} separators){J,} class{T,} =? =?  on its own encoding    *)
(* ------------------------------------------------------------------ *)
(* The text is a run w of class bytes (none of which can start a separator) followed by y, which can neither
   continue the run nor start a separator.  With r bytes of the run left, j more groups and then T class bytes
   are wanted: the search fails when r < A*j + T, and for r = A*j + T it ends with every group at its minimum. *)
Section B64Shape.
  Variables (mk : N) (Sp : re) (A T : nat) (y : list N).
  Hypothesis HA : (1 <= A)%nat.
  Hypothesis HS : skippable Sp = true.
  Hypothesis Hy_mk : hd_out mk y.
  Hypothesis Hy_S : hd_out (first_cls Sp) y.

  Definition okw (w : list N) : Prop :=
    Forall (fun b => N.testbit mk b = true /\ N.testbit (first_cls Sp) b = false) w.
  Definition Bd : re := Seq (Rep A None (Cls mk)) Sp.
  (* the continuation fails when fewer than T bytes of the run are left *)
  Definition kshort (K : pos -> caps -> out) : Prop :=
    forall p w c, p_after p = w ++ y -> okw w -> (List.length w < T)%nat -> K p c = NoMatch.
  Definition Kiter (f j : nat) (p : pos) (K : pos -> caps -> out) : pos -> caps -> out :=
    fun p' c' => if p_i p' =? p_i p then NoMatch else m f (Rep (pred j) None Bd) p' c' K.

  Lemma okw_mk w : okw w -> Forall (fun b => N.testbit mk b = true) w.
  Proof. intros H. eapply Forall_impl; [|exact H]. intros b [H1 _]. exact H1. Qed.

  Lemma okw_skipn j w : okw w -> okw (skipn j w).
  Proof.
    intros H. unfold okw in *. rewrite <- (firstn_skipn j w) in H. apply Forall_app in H. apply H.
  Qed.

  Lemma iter_unfold f j p c K :
    m (S (S f)) (Rep j None Bd) p c K =
    let again := m f (Rep A None (Cls mk)) p c (fun p' c' => m f Sp p' c' (Kiter (S f) j p K)) in
    match j with S _ => again | O => match again with NoMatch => K p c | o => o end end.
  Proof. reflexivity. Qed.

  Lemma S_at w p f c K : okw w -> p_after p = w ++ y -> (spine Sp <= f)%nat -> m f Sp p c K = K p c.
  Proof.
    intros Hw Hp Hf.
    assert (Hx : hd_out (first_cls Sp) (w ++ y)).
    { destruct w as [|b w]; [exact Hy_S|]. inversion Hw as [|? ? [_ Hb] _]; subst. exact Hb. }
    apply (det_skip Sp (w ++ y) HS Hx f p c K Hp Hf).
  Qed.

  (* a candidate end of the inner class repeat: the separators are skipped and the next group is entered *)
  Lemma cand f j p c K w jj :
    okw w -> p_after p = w ++ y -> (1 <= jj <= List.length w)%nat -> (spine Sp <= f)%nat ->
    m f Sp (seek jj p) c (Kiter (S f) j p K) = m (S f) (Rep (pred j) None Bd) (seek jj p) c K.
  Proof.
    intros Hw Hp Hjj Hf. destruct (seek_split w y p jj Hp ltac:(lia)) as [Q1 Q2].
    rewrite (S_at (skipn jj w) (seek jj p) f c _ (okw_skipn jj w Hw) Q1 Hf).
    unfold Kiter. replace (p_i (seek jj p) =? p_i p) with false by (symmetry; apply Z.eqb_neq; lia).
    reflexivity.
  Qed.

  Lemma rep_fail : forall r w j f p c K,
    List.length w = r -> okw w -> p_after p = w ++ y -> (r < A * j + T)%nat -> kshort K ->
    (r + 4 + spine Sp <= f)%nat ->
    m f (Rep j None Bd) p c K = NoMatch.
  Proof.
    induction r as [r IH] using lt_wf_ind. intros w j f p c K Hr Hw Hp Hlt HK Hf.
    destruct f as [|[|f]]; [lia | lia |]. rewrite iter_unfold. cbv zeta.
    rewrite (m_rep_cls_fail mk w A f p c _ y (okw_mk w Hw) Hy_mk Hp ltac:(lia)).
    - destruct j as [|j]; [|reflexivity]. apply (HK p w c Hp Hw). rewrite Nat.mul_0_r in Hlt. lia.
    - intros jj Hjj. cbv beta. rewrite (cand f j p c K w jj Hw Hp ltac:(lia) ltac:(lia)).
      destruct (seek_split w y p jj Hp ltac:(lia)) as [Q1 _].
      apply (IH (r - jj)%nat ltac:(lia) (skipn jj w) (pred j) (S f) (seek jj p) c K);
        [rewrite skipn_length; lia | apply okw_skipn; exact Hw | exact Q1 | | exact HK | lia].
      destruct j as [|j]; cbn [pred].
      + rewrite Nat.mul_0_r in *. lia.
      + rewrite Nat.mul_succ_r in Hlt. lia.
  Qed.

  Lemma rep_exact : forall j w f p c K,
    okw w -> p_after p = w ++ y -> List.length w = (A * j + T)%nat -> kshort K ->
    K (seek (A * j) p) c <> NoMatch -> (List.length w + 4 + spine Sp <= f)%nat ->
    m f (Rep j None Bd) p c K = K (seek (A * j) p) c.
  Proof.
    induction j as [|j IH]; intros w f p c K Hw Hp Hlen HK Hne Hf.
    - rewrite Nat.mul_0_r in *. cbn [seek Nat.add] in *.
      destruct f as [|[|f]]; [lia | lia |]. rewrite iter_unfold. cbv zeta.
      rewrite (m_rep_cls_fail mk w A f p c _ y (okw_mk w Hw) Hy_mk Hp ltac:(lia)); [reflexivity|].
      intros jj Hjj. cbv beta. rewrite (cand f 0 p c K w jj Hw Hp ltac:(lia) ltac:(lia)).
      destruct (seek_split w y p jj Hp ltac:(lia)) as [Q1 _].
      apply (rep_fail (List.length w - jj)%nat (skipn jj w) (pred 0) (S f) (seek jj p) c K);
        [rewrite skipn_length; lia | apply okw_skipn; exact Hw | exact Q1 | cbn [pred]; rewrite Nat.mul_0_r; lia | exact HK | lia].
    - rewrite Nat.mul_succ_r in Hlen.
      assert (Es : seek (A * S j) p = seek (A * j) (seek A p)).
      { rewrite Nat.mul_succ_r, (Nat.add_comm (A * j) A). apply (seek_add w y p A (A * j) Hp). lia. }
      rewrite Es in Hne |- *.
      destruct (seek_split w y p A Hp ltac:(lia)) as [Q1 _].
      assert (E : m (S (pred (pred f))) (Rep j None Bd) (seek A p) c K = K (seek (A * j) (seek A p)) c).
      { apply (IH (skipn A w) _ (seek A p) c K);
          [apply okw_skipn; exact Hw | exact Q1 | rewrite skipn_length; lia | exact HK | exact Hne | rewrite skipn_length; lia]. }
      destruct f as [|[|f]]; [lia | lia |]. cbn [pred] in E. rewrite iter_unfold. cbv zeta.
      set (K2 := fun p' c' => m f Sp p' c' (Kiter (S f) (S j) p K)).
      assert (E2 : K2 (seek A p) c = K (seek (A * j) (seek A p)) c).
      { unfold K2. rewrite (cand f (S j) p c K w A Hw Hp ltac:(lia) ltac:(lia)). cbn [pred]. exact E. }
      rewrite <- E2.
      apply (m_rep_cls_first mk w A f p c K2 y A (okw_mk w Hw) Hy_mk Hp ltac:(lia) ltac:(lia)).
      + intros jj Hjj. unfold K2. rewrite (cand f (S j) p c K w jj Hw Hp ltac:(lia) ltac:(lia)). cbn [pred].
        destruct (seek_split w y p jj Hp ltac:(lia)) as [Q1' _].
        apply (rep_fail (List.length w - jj)%nat (skipn jj w) j (S f) (seek jj p) c K);
          [rewrite skipn_length; lia | apply okw_skipn; exact Hw | exact Q1' | lia | exact HK | lia].
      + rewrite E2. exact Hne.
  Qed.

  (* the whole repeat, entered with at least A*J+T bytes of the run: the first group takes all but A*(J-1)+T *)
  Lemma rep_top J w f p c K :
    (1 <= J)%nat -> okw w -> p_after p = w ++ y -> (A * J + T <= List.length w)%nat -> kshort K ->
    K (seek (List.length w - T) p) c <> NoMatch -> (List.length w + 4 + spine Sp <= f)%nat ->
    m f (Rep J None Bd) p c K = K (seek (List.length w - T) p) c.
  Proof.
    intros HJ Hw Hp Hlen HK Hne Hf. destruct J as [|j]; [lia|]. rewrite Nat.mul_succ_r in Hlen.
    set (j0 := (List.length w - (A * j + T))%nat).
    assert (Es : seek (List.length w - T) p = seek (A * j) (seek j0 p)).
    { replace (List.length w - T)%nat with (j0 + A * j)%nat by (unfold j0; lia).
      apply (seek_add w y p j0 (A * j) Hp). unfold j0. lia. }
    rewrite Es in Hne |- *.
    destruct (seek_split w y p j0 Hp ltac:(unfold j0; lia)) as [Q1 _].
    destruct f as [|[|f]]; [lia | lia |]. rewrite iter_unfold. cbv zeta.
    set (K2 := fun p' c' => m f Sp p' c' (Kiter (S f) (S j) p K)).
    assert (E2 : K2 (seek j0 p) c = K (seek (A * j) (seek j0 p)) c).
    { unfold K2. rewrite (cand f (S j) p c K w j0 Hw Hp ltac:(unfold j0; lia) ltac:(lia)). cbn [pred].
      apply (rep_exact j (skipn j0 w) (S f) (seek j0 p) c K);
        [apply okw_skipn; exact Hw | exact Q1 | rewrite skipn_length; unfold j0; lia | exact HK | exact Hne
        | rewrite skipn_length; lia]. }
    rewrite <- E2.
    apply (m_rep_cls_first mk w A f p c K2 y j0 (okw_mk w Hw) Hy_mk Hp ltac:(lia) ltac:(unfold j0; lia)).
    - intros jj Hjj. unfold K2. rewrite (cand f (S j) p c K w jj Hw Hp ltac:(unfold j0 in Hjj; lia) ltac:(lia)). cbn [pred].
      destruct (seek_split w y p jj Hp ltac:(lia)) as [Q1' _].
      apply (rep_fail (List.length w - jj)%nat (skipn jj w) j (S f) (seek jj p) c K);
        [rewrite skipn_length; lia | apply okw_skipn; exact Hw | exact Q1' | unfold j0 in Hjj; lia | exact HK | lia].
    - rewrite E2. exact Hne.
  Qed.
End B64Shape.

(* class{T,} =? =? over the last bytes of the run and the padding *)
Lemma b64_tail_runs mk e1 e2 T w pad x :
  Forall (fun c => N.testbit mk c = true) w -> (T <= List.length w)%nat -> pad_ok pad ->
  N.testbit mk 61 = false -> N.testbit e1 61 = true -> N.testbit e2 61 = true ->
  hd_out mk x -> hd_out e1 x -> hd_out e2 x ->
  runs (List.length w + 10)
       (Seq (Rep T None (Cls mk)) (Seq (Rep 0 (Some 1%nat) (Cls e1)) (Rep 0 (Some 1%nat) (Cls e2))))
       (w ++ pad) x cf_id.
Proof.
  intros HF Hlo Hpad Hmk He1 He2 Xmk Xe1 Xe2.
  assert (Hx : hd_out mk (pad ++ x)).
  { destruct Hpad as [-> | [-> | ->]]; [exact Xmk | exact Hmk | exact Hmk]. }
  pose proof (runs_rep_cls mk T w (pad ++ x) HF Hx Hlo) as R1.
  assert (R2 : runs 6 (Seq (Rep 0 (Some 1%nat) (Cls e1)) (Rep 0 (Some 1%nat) (Cls e2))) pad x cf_id).
  { destruct Hpad as [-> | [-> | ->]].
    - apply (runs_mono (S (Nat.max 2 2))); [|lia].
      apply (runs_seq 2 2 _ _ [] [] x cf_id cf_id); apply (runs_opt_skip (Cls _)); try reflexivity; assumption.
    - apply (runs_mono (S (Nat.max 3 2))); [|lia].
      apply (runs_seq 3 2 _ _ [61%N] [] x cf_id cf_id);
        [apply runs_opt_take; exact He1 | apply (runs_opt_skip (Cls _)); [reflexivity | exact Xe2]].
    - apply (runs_mono (S (Nat.max 3 3))); [|lia].
      apply (runs_seq 3 3 _ _ [61%N] [61%N] x cf_id cf_id); apply runs_opt_take; assumption. }
  apply (runs_mono (S (Nat.max (List.length w + 2) 6))); [|lia].
  apply (runs_seq _ _ _ _ w pad x cf_id cf_id R1 R2).
Qed.

(* THE SHAPE THEOREM: a pattern (class{A,} separators){J,} class{T,} =? =? runs over an unwrapped encoding with at
   least A*J+T alphabet bytes, although it has to give bytes back to get there *)
Theorem b64_shape_runs mk Sp e1 e2 A T J main pad x :
  (1 <= A)%nat -> (1 <= J)%nat -> skippable Sp = true ->
  okw mk Sp main -> (A * J + T <= List.length main)%nat -> pad_ok pad ->
  N.testbit mk 61 = false -> N.testbit (first_cls Sp) 61 = false ->
  N.testbit e1 61 = true -> N.testbit e2 61 = true ->
  hd_out mk x -> hd_out (first_cls Sp) x -> hd_out e1 x -> hd_out e2 x ->
  runs (List.length main + spine Sp + 20)
       (Seq (Rep J None (Seq (Rep A None (Cls mk)) Sp))
            (Seq (Rep T None (Cls mk)) (Seq (Rep 0 (Some 1%nat) (Cls e1)) (Rep 0 (Some 1%nat) (Cls e2)))))
       (main ++ pad) x cf_id.
Proof.
  intros HA HJ HS Hw Hlen Hpad Hmk HSp He1 He2 Xmk XS Xe1 Xe2 f p c k Hp Hf Hk.
  rewrite <- app_assoc in Hp. unfold cf_id in Hk |- *.
  assert (Ymk : hd_out mk (pad ++ x)).
  { destruct Hpad as [-> | [-> | ->]]; [exact Xmk | exact Hmk | exact Hmk]. }
  assert (YS : hd_out (first_cls Sp) (pad ++ x)).
  { destruct Hpad as [-> | [-> | ->]]; [exact XS | exact HSp | exact HSp]. }
  destruct f as [|f]; [lia|]. cbn [m].
  set (Tl := Seq (Rep T None (Cls mk)) (Seq (Rep 0 (Some 1%nat) (Cls e1)) (Rep 0 (Some 1%nat) (Cls e2)))) in *.
  set (K := fun p' c' => m f Tl p' c' k).
  set (a := (List.length main - T)%nat).
  destruct (seek_split main (pad ++ x) p a Hp ltac:(unfold a; lia)) as [Q1 _].
  assert (Q1' : p_after (seek a p) = (skipn a main ++ pad) ++ x) by (rewrite <- app_assoc; exact Q1).
  assert (Hsk : List.length (skipn a main) = T) by (rewrite skipn_length; unfold a; lia).
  assert (EK : K (seek a p) c = k (seek (List.length (main ++ pad)) p) c).
  { unfold K.
    pose proof (b64_tail_runs mk e1 e2 T (skipn a main) pad x) as R.
    assert (Hsw : Forall (fun c0 => N.testbit mk c0 = true) (skipn a main))
      by (apply (okw_mk mk Sp); apply okw_skipn; exact Hw).
    specialize (R Hsw ltac:(lia) Hpad Hmk He1 He2 Xmk Xe1 Xe2).
    assert (Es : seek (List.length (main ++ pad)) p = seek (List.length (skipn a main ++ pad)) (seek a p)).
    { rewrite !app_length, Hsk. replace (List.length main + List.length pad)%nat with (a + (T + List.length pad))%nat by (unfold a; lia).
      apply (seek_add main (pad ++ x) p a _ Hp). unfold a. lia. }
    rewrite Es in Hk |- *.
    apply (R f (seek a p) c k Q1' ltac:(lia)). unfold cf_id. exact Hk. }
  rewrite <- EK.
  apply (rep_top mk Sp A T (pad ++ x) HA HS Ymk YS J main f p c K HJ Hw Hp Hlen); [| fold a; rewrite EK; exact Hk | lia].
  intros p' w' c' Hp' Hw' Hlt. unfold K, Tl. destruct f as [|f']; [lia|]. cbn [m].
  apply (m_rep_cls_fail mk w' T f' p' c' _ (pad ++ x) (okw_mk mk Sp w' Hw') Ymk Hp'); [lia|].
  intros j Hj. lia.
Qed.

(* ------------------------------------------------------------------ *)
(* 2b.  The same pattern on a LINE-WRAPPED encoding                        *)
(* ------------------------------------------------------------------ *)
(* Lines of at least A class bytes, each followed by a separator the separator part runs over; then the last
   line lm and the padding.  Every full line is one group (the greedy choice succeeds); what is still wanted of
   the J groups when the last line is reached must fit into it, as in the unwrapped case. *)
Fixpoint wtext (ls : list (list N * list N)) (lm : list N) : list N :=
  match ls with
  | [] => lm
  | ln :: r => fst ln ++ snd ln ++ wtext r lm
  end.

Lemma rep0_as_rep1 a f p c K :
  m f (Rep 1 None a) p c K <> NoMatch -> m f (Rep 0 None a) p c K = m f (Rep 1 None a) p c K.
Proof.
  destruct f as [|f]; [reflexivity|]. cbn [m pred option_map]. intros H.
  match goal with |- match ?o with _ => _ end = _ => destruct o; [congruence | reflexivity | reflexivity] end.
Qed.

Lemma wtext_length_line ln r lm : List.length (wtext (ln :: r) lm) = (List.length (fst ln) + List.length (snd ln) + List.length (wtext r lm))%nat.
Proof. cbn [wtext]. rewrite !app_length. lia. Qed.

Section Wrapped.
  Variables (mk : N) (Sp : re) (e1 e2 : N) (A T ns : nat) (pad x : list N).
  Hypothesis HA : (1 <= A)%nat.
  Hypothesis HS : skippable Sp = true.
  Hypothesis Hpad : pad_ok pad.
  Hypothesis Hmk : N.testbit mk 61 = false.
  Hypothesis HSp : N.testbit (first_cls Sp) 61 = false.
  Hypothesis He1 : N.testbit e1 61 = true.
  Hypothesis He2 : N.testbit e2 61 = true.
  Hypothesis Xmk : hd_out mk x.
  Hypothesis XS : hd_out (first_cls Sp) x.
  Hypothesis Xe1 : hd_out e1 x.
  Hypothesis Xe2 : hd_out e2 x.

  Definition w_tail : re :=
    Seq (Rep T None (Cls mk)) (Seq (Rep 0 (Some 1%nat) (Cls e1)) (Rep 0 (Some 1%nat) (Cls e2))).
  Definition Ktl (f0 : nat) (k : pos -> caps -> out) : pos -> caps -> out := fun p' c' => m f0 w_tail p' c' k.
  Definition sep_ok (s : list N) : Prop := s <> [] /\ hd_out mk s /\ forall rest, runs ns Sp s rest cf_id.
  Definition line_ok (l : list N) : Prop := Forall (fun b => N.testbit mk b = true) l /\ (A <= List.length l)%nat.

  Lemma Ymk : hd_out mk (pad ++ x).
  Proof. destruct Hpad as [-> | [-> | ->]]; [exact Xmk | exact Hmk | exact Hmk]. Qed.
  Lemma YS : hd_out (first_cls Sp) (pad ++ x).
  Proof. destruct Hpad as [-> | [-> | ->]]; [exact XS | exact HSp | exact HSp]. Qed.

  Lemma Ktl_short f0 k : (T + 3 <= f0)%nat -> kshort mk Sp T (pad ++ x) (Ktl f0 k).
  Proof.
    intros Hf p' w' c' Hp' Hw' Hlt. unfold Ktl, w_tail. destruct f0 as [|f']; [lia|]. cbn [m].
    apply (m_rep_cls_fail mk w' T f' p' c' _ (pad ++ x) (okw_mk mk Sp w' Hw') Ymk Hp'); [lia|].
    intros j Hj. lia.
  Qed.

  Lemma Ktl_at f0 k q c w :
    okw mk Sp w -> (T <= List.length w)%nat -> p_after q = w ++ pad ++ x -> (List.length w + 10 <= f0)%nat ->
    k (seek (List.length w + List.length pad) q) c <> NoMatch ->
    Ktl f0 k q c = k (seek (List.length w + List.length pad) q) c.
  Proof.
    intros Hw HT Hq Hf Hk. unfold Ktl, w_tail.
    pose proof (b64_tail_runs mk e1 e2 T w pad x (okw_mk mk Sp w Hw) HT Hpad Hmk He1 He2 Xmk Xe1 Xe2) as R.
    rewrite app_assoc in Hq. rewrite <- app_length in Hk |- *.
    apply (R f0 q c k Hq Hf). unfold cf_id. exact Hk.
  Qed.

  (* the last line, with lo groups still wanted *)
  Lemma last_line lo f f0 q c k lm :
    okw mk Sp lm -> (A * lo + T <= List.length lm)%nat -> p_after q = lm ++ pad ++ x ->
    k (seek (List.length lm + List.length pad) q) c <> NoMatch ->
    (List.length lm + 4 + spine Sp <= f)%nat -> (List.length lm + 10 <= f0)%nat ->
    m f (Rep lo None (Bd mk Sp A)) q c (Ktl f0 k) = k (seek (List.length lm + List.length pad) q) c.
  Proof.
    intros Hw Hlen Hq Hk Hf Hf0.
    assert (HKs : kshort mk Sp T (pad ++ x) (Ktl f0 k)) by (apply Ktl_short; lia).
    (* the tail entered with exactly T bytes of the line left *)
    assert (EKT : (T <= List.length lm)%nat ->
                  Ktl f0 k (seek (List.length lm - T) q) c = k (seek (List.length lm + List.length pad) q) c).
    { intros HT. set (a := (List.length lm - T)%nat).
      destruct (seek_split lm (pad ++ x) q a Hq ltac:(unfold a; lia)) as [Q1 _].
      assert (Hsk : List.length (skipn a lm) = T) by (rewrite skipn_length; unfold a; lia).
      assert (Es : seek (List.length lm + List.length pad) q = seek (List.length (skipn a lm) + List.length pad) (seek a q)).
      { rewrite Hsk. replace (List.length lm + List.length pad)%nat with (a + (T + List.length pad))%nat by (unfold a; lia).
        apply (seek_add lm (pad ++ x) q a _ Hq). unfold a. lia. }
      rewrite Es in Hk |- *.
      apply (Ktl_at f0 k (seek a q) c (skipn a lm)); [apply okw_skipn; exact Hw | lia | exact Q1 | lia | exact Hk]. }
    assert (Top : forall J, (1 <= J)%nat -> (A * J + T <= List.length lm)%nat ->
                  m f (Rep J None (Bd mk Sp A)) q c (Ktl f0 k) = k (seek (List.length lm + List.length pad) q) c).
    { intros J HJ HJl. rewrite <- (EKT ltac:(lia)).
      apply (rep_top mk Sp A T (pad ++ x) HA HS Ymk YS J lm f q c (Ktl f0 k) HJ Hw Hq HJl HKs); [|exact Hf].
      rewrite (EKT ltac:(lia)). exact Hk. }
    destruct lo as [|lo]; [|apply Top; lia].
    rewrite Nat.mul_0_r in Hlen. cbn [Nat.add] in Hlen.
    destruct (le_lt_dec (A * 1 + T) (List.length lm)) as [Hbig|Hsmall].
    - rewrite rep0_as_rep1; rewrite (Top 1%nat ltac:(lia) Hbig); [reflexivity | exact Hk].
    - destruct f as [|[|f]]; [lia | lia |]. rewrite iter_unfold. cbv zeta.
      rewrite (m_rep_cls_fail mk lm A f q c _ (pad ++ x) (okw_mk mk Sp lm Hw) Ymk Hq ltac:(lia)).
      + apply (Ktl_at f0 k q c lm Hw Hlen Hq Hf0 Hk).
      + intros jj Hjj. cbv beta. rewrite (cand mk Sp A (pad ++ x) HA HS YS f 0 q c _ lm jj Hw Hq ltac:(lia) ltac:(lia)).
        destruct (seek_split lm (pad ++ x) q jj Hq ltac:(lia)) as [Q1 _].
        apply (rep_fail mk Sp A T (pad ++ x) HA HS Ymk YS (List.length lm - jj)%nat (skipn jj lm) (pred 0) (S f) (seek jj q) c _);
          [rewrite skipn_length; lia | apply okw_skipn; exact Hw | exact Q1 | cbn [pred]; lia | exact HKs | lia].
  Qed.

  Lemma wrapped_rep : forall ls lo f f0 p c k lm,
    Forall (fun ln => line_ok (fst ln) /\ sep_ok (snd ln)) ls ->
    okw mk Sp lm -> (A * (lo - List.length ls) + T <= List.length lm)%nat ->
    p_after p = wtext ls lm ++ pad ++ x ->
    k (seek (List.length (wtext ls lm) + List.length pad) p) c <> NoMatch ->
    (List.length (wtext ls lm) + 6 + spine Sp + ns <= f)%nat -> (List.length lm + 10 <= f0)%nat ->
    m f (Rep lo None (Bd mk Sp A)) p c (Ktl f0 k) = k (seek (List.length (wtext ls lm) + List.length pad) p) c.
  Proof.
    induction ls as [|[l s] ls IH]; intros lo f f0 p c k lm HF Hw Hlen Hp Hk Hf Hf0.
    - cbn [wtext List.length] in *. rewrite Nat.sub_0_r in Hlen.
      apply (last_line lo f f0 p c k lm Hw Hlen Hp Hk); lia.
    - inversion HF as [|? ? [[Hl1 Hl2] (Hs1 & Hs2 & Hs3)] HF']; subst. cbn [fst snd] in *.
      rewrite wtext_length_line in Hk, Hf |- *. cbn [fst snd] in Hk, Hf |- *. cbn [wtext fst snd] in Hp.
      rewrite <- !app_assoc in Hp.
      set (rest := wtext ls lm ++ pad ++ x) in *.
      assert (Hsl : (1 <= List.length s)%nat) by (destruct s; [congruence | cbn [List.length]; lia]).
      destruct (seek_word l p (s ++ rest) 0 Hp) as (_ & S2 & S3).
      destruct (seek_word s (seek (List.length l) p) rest 0 S2) as (_ & S2' & S3').
      assert (Es : seek (List.length l + List.length s + List.length (wtext ls lm) + List.length pad) p
                   = seek (List.length (wtext ls lm) + List.length pad) (seek (List.length s) (seek (List.length l) p))).
      { destruct (seek_word l p (s ++ rest) (List.length s + (List.length (wtext ls lm) + List.length pad)) Hp) as (E1 & _ & _).
        destruct (seek_word s (seek (List.length l) p) rest (List.length (wtext ls lm) + List.length pad) S2) as (E2 & _ & _).
        rewrite <- E2, <- E1. f_equal. lia. }
      rewrite Es in Hk |- *.
      destruct f as [|[|f]]; [lia | lia |]. rewrite iter_unfold. cbv zeta.
      set (q := seek (List.length s) (seek (List.length l) p)) in *.
      set (K2 := fun p' c' => m f Sp p' c' (Kiter mk Sp A (S f) lo p (Ktl f0 k))).
      assert (E2 : K2 (seek (List.length l) p) c = k (seek (List.length (wtext ls lm) + List.length pad) q) c).
      { unfold K2.
        assert (EI : Kiter mk Sp A (S f) lo p (Ktl f0 k) q c = k (seek (List.length (wtext ls lm) + List.length pad) q) c).
        { unfold Kiter. replace (p_i q =? p_i p) with false by (symmetry; apply Z.eqb_neq; lia).
          apply (IH (pred lo) (S f) f0 q c k lm HF' Hw); [| exact S2' | exact Hk | lia | exact Hf0].
          cbn [List.length] in Hlen. replace (pred lo - List.length ls)%nat with (lo - S (List.length ls))%nat by lia. exact Hlen. }
        rewrite <- EI.
        apply (Hs3 rest f (seek (List.length l) p) c _ S2 ltac:(lia)). unfold cf_id. fold q. rewrite EI. exact Hk. }
      assert (Eag : m f (Rep A None (Cls mk)) p c K2 = k (seek (List.length (wtext ls lm) + List.length pad) q) c).
      { rewrite <- E2.
        apply (m_rep_cls_first mk l A f p c K2 (s ++ rest) (List.length l) Hl1); [| exact Hp | lia | lia | | rewrite E2; exact Hk].
        - destruct s as [|b s]; [congruence|]. exact Hs2.
        - intros j Hj. lia. }
      rewrite Eag. destruct lo as [|lo]; [apply out_first; exact Hk | reflexivity].
  Qed.

  (* THE SHAPE THEOREM, line-wrapped *)
  Theorem b64_wrapped_runs J ls lm :
    Forall (fun ln => line_ok (fst ln) /\ sep_ok (snd ln)) ls ->
    okw mk Sp lm -> (A * (J - List.length ls) + T <= List.length lm)%nat ->
    runs (List.length (wtext ls lm) + spine Sp + ns + 20)
         (Seq (Rep J None (Seq (Rep A None (Cls mk)) Sp)) w_tail) (wtext ls lm ++ pad) x cf_id.
  Proof.
    intros HF Hw Hlen f p c k Hp Hf Hk. rewrite <- app_assoc in Hp. unfold cf_id in Hk |- *.
    rewrite app_length in Hk |- *.
    destruct f as [|f]; [lia|]. cbn [m]. fold (Bd mk Sp A). fold (Ktl f k).
    apply (wrapped_rep ls J f f p c k lm HF Hw Hlen Hp Hk); [lia|].
    assert (List.length lm <= List.length (wtext ls lm))%nat; [|lia].
    clear. induction ls as [|ln ls IH]; [cbn [wtext]; lia|]. rewrite wtext_length_line. lia.
  Qed.
End Wrapped.

(* ------------------------------------------------------------------ *)
(* 3.  Glue shared by the two decoders                                    *)
(* ------------------------------------------------------------------ *)
(* finditer finds nothing in a text without any byte of the first set *)
Lemma fi_neutral r ng data :
  startable r = true -> (spine r <= default_fuel)%nat -> neutral r data = true -> fi r ng data = Ok [].
Proof.
  intros Hs Hf Hn. unfold fi, finditer. cbn [finditer_pos].
  rewrite (search_pos_neutral default_fuel r Hs Hf); [reflexivity | exact Hn].
Qed.

Lemma filter_all {A} (f : A -> bool) l : forallb f l = true -> filter f l = l.
Proof.
  induction l as [|a l IH]; [reflexivity|]. cbn [forallb filter]. intros H. apply andb_true_iff in H.
  destruct H as [H1 H2]. rewrite H1, (IH H2). reflexivity.
Qed.

(* bytes.replace(old, new) when the first byte of old does not occur *)
Lemma replace_absent b o os new : ~ In o b -> replace b (o :: os) new = b.
Proof.
  unfold replace. induction b as [|c r IH]; intros Hn; [reflexivity|].
  cbn [replace_aux prefixb]. destruct (N.eqb_spec o c) as [E|E].
  - exfalso. apply Hn. left. symmetry. exact E.
  - cbn [andb]. rewrite IH; [reflexivity|]. intros H. apply Hn. right. exact H.
Qed.

Lemma slice_from_0 {A} (t : list A) : slice_from t 0 = t.
Proof.
  unfold slice_from, clamp_idx. cbn [Z.ltb Z.compare]. pose proof (blen_nonneg t) as H.
  rewrite Z.min_l by exact H. reflexivity.
Qed.

Lemma default_fuel_Z : Z.of_nat default_fuel = 4000000.
Proof. unfold default_fuel. rewrite Z2Nat.id; lia. Qed.

Lemma mapM_starts {B} (f : mtch -> res B) (st : B -> Z) lo :
  (forall mt y, f mt = Ok y -> lo <= m_start mt 0 -> lo <= st y) ->
  forall ms out, Forall (fun mt => lo <= m_start mt 0) ms -> mapM f ms = Ok out -> Forall (fun nd => lo <= st nd) out.
Proof.
  intros Hf. induction ms as [|mt ms IH]; intros out HF H; cbn [mapM] in H.
  - injection H as <-. constructor.
  - inversion HF as [|? ? Hm HF']; subst.
    destruct (f mt) as [y0| |] eqn:Ey; cbn [bind] in H; try discriminate H.
    destruct (mapM f ms) as [ys| |]; cbn [bind] in H; try discriminate H.
    injection H as <-. constructor; [apply (Hf mt y0 Ey Hm) | apply IH; [exact HF' | reflexivity]].
Qed.

(* ------------------------------------------------------------------ *)
(* 4.  find_base64                                                        *)
(* ------------------------------------------------------------------ *)
(* the byte after the form (if any): not an alphabet byte, not '=', and not a byte that can start one of the
   separators the pattern allows inside an encoding ('<' of the marker, '&' of the references, CR, LF) *)
Definition b64_stop_byte (b : N) : bool :=
  negb (is_b64_char b) && negb (b =? 61)%N && negb (b =? 60)%N && negb (b =? 38)%N
  && negb (b =? 13)%N && negb (b =? 10)%N.
Definition b64_stop (suf : bytes) : bool := match suf with [] => true | b :: _ => b64_stop_byte b end.

(* the acceptance rules of find_base64 on the cleaned text, as the boolean of B64HexProofs.b64_accept_chars:
   length multiple of 4, more than MIN_B64_CHARS distinct bytes, not all hex digits, not all letters,
   at most 3/32 slashes *)
Definition b64_acceptable (s : bytes) : bool :=
  (blen s mod 4 =? 0) && (MIN_B64_CHARS <? n_distinct s) &&
  negb (forallb is_hex_digit s) && negb (forallb is_alpha_ascii s) &&
  (32 * count_byte 47%N s <=? 3 * blen s).

Lemma okw_of_b64 mk Sp w :
  forallb (fun c => implb (is_b64_char c) (N.testbit mk c && negb (N.testbit (first_cls Sp) c))) bytes256 = true ->
  forallb is_b64_char w = true -> okw mk Sp w.
Proof.
  intros Hm Hw. apply Forall_forall. intros c Hc. rewrite forallb_forall in Hw, Hm. specialize (Hw c Hc).
  specialize (Hm c (bytes256_in c (is_b64_char_lt c Hw))). rewrite Hw in Hm. cbn [implb] in Hm.
  apply andb_true_iff in Hm. destruct Hm as [H1 H2]. apply negb_true_iff in H2. split; assumption.
Qed.

Ltac stop_goal Hs P :=
  eapply (hd_out_of_pred _ P); [vm_compute; reflexivity | vm_compute; reflexivity | exact Hs].

(* the generated pattern runs over an unwrapped encoding with at least 22 alphabet bytes *)
Lemma base64_runs main pad suf :
  forallb is_b64_char main = true -> (22 <= List.length main)%nat -> pad_ok pad -> b64_stop suf = true ->
  runs (List.length main + 60) RE_base64_BASE64_RE (main ++ pad) suf cf_id.
Proof.
  intros HF Hlen Hpad Hstop. unfold RE_base64_BASE64_RE.
  assert (Hs : match suf with [] => True | b :: _ => b64_stop_byte b = true end).
  { destruct suf as [|b suf]; [exact I | exact Hstop]. }
  eapply runs_mono.
  - eapply b64_shape_runs;
      [ lia | lia | vm_compute; reflexivity
      | apply okw_of_b64; [vm_compute; reflexivity | exact HF]
      | lia | exact Hpad
      | vm_compute; reflexivity | vm_compute; reflexivity | vm_compute; reflexivity | vm_compute; reflexivity
      | stop_goal Hs b64_stop_byte | stop_goal Hs b64_stop_byte | stop_goal Hs b64_stop_byte | stop_goal Hs b64_stop_byte ].
  - match goal with |- (_ + ?s + 20 <= _)%nat => let v := eval vm_compute in s in change s with v end. lia.
Qed.

Lemma b64_significant_not c : b64_significant c = true -> c <> 38%N /\ c <> 10%N /\ c <> 13%N /\ c <> 60%N.
Proof. intros H. repeat split; intros ->; vm_compute in H; discriminate H. Qed.

(* an encoding is not changed by the cleaning step *)
Lemma b64_clean_id t : forallb b64_significant t = true -> b64_clean t = Ok t.
Proof.
  intros H. unfold b64_clean, re_sub_const.
  rewrite (fi_neutral RE_base64_HTML_ESCAPE_RE NG_base64_HTML_ESCAPE_RE t);
    [| vm_compute; reflexivity | spine_goal
     | apply (neutral_of_class _ b64_significant t b64_significant_lt); [vm_compute; reflexivity | exact H] ].
  cbn [bind splice_const]. rewrite slice_from_0.
  assert (Hin : forall c, In c t -> c <> 38%N /\ c <> 10%N /\ c <> 13%N /\ c <> 60%N).
  { intros c Hc. rewrite forallb_forall in H. apply b64_significant_not. apply H. exact Hc. }
  assert (H10 : ~ In 10%N t) by (intros Hc; destruct (Hin _ Hc) as (_ & E & _); congruence).
  assert (H13 : ~ In 13%N t) by (intros Hc; destruct (Hin _ Hc) as (_ & _ & E & _); congruence).
  assert (H60 : ~ In 60%N t) by (intros Hc; destruct (Hin _ Hc) as (_ & _ & _ & E); congruence).
  rewrite (replace_absent t 10 [] [] H10), (replace_absent t 13 [] [] H13).
  unfold B64_MARKER. rewrite (replace_absent t 60 _ [] H60). reflexivity.
Qed.

Lemma wf_b64_encode p : wf_bytes (b64_encode p).
Proof.
  apply Forall_forall. intros c Hc. pose proof (b64_encode_alphabet p) as H. rewrite forallb_forall in H.
  apply b64_significant_lt. apply H. exact Hc.
Qed.

Lemma base64_post_starts data lo : forall ms out,
  Forall (fun mt => lo <= m_start mt 0) ms -> find_base64_post data ms = Ok out ->
  Forall (fun nd => lo <= n_st nd) out.
Proof.
  induction ms as [|mt ms IH]; intros out HF H; cbn [find_base64_post] in H.
  - injection H as <-. constructor.
  - inversion HF as [|? ? Hm HF']; subst.
    destruct (group_arg data mt 0) as [t| |]; cbn [bind] in H; try discriminate H.
    destruct (b64_clean t) as [s| |]; cbn [bind] in H; try discriminate H.
    destruct (b64_accept s) as [ok| |]; cbn [bind] in H; try discriminate H.
    destruct (if ok then try_a2b s else Ok None) as [o| |]; cbn [bind] in H; try discriminate H.
    destruct (find_base64_post data ms) as [out'| |]; cbn [bind] in H; try discriminate H.
    injection H as <-. apply cons_opt_Forall; [|apply IH; [exact HF' | reflexivity]].
    intros nd E. destruct o as [b|]; [|discriminate E]. injection E as <-. exact Hm.
Qed.

(* payloads of at least 16 bytes have at least 22 alphabet bytes in their encoding *)
Lemma b64_main_length p main pad :
  (16 <= List.length p)%nat -> b64_encode p = main ++ pad -> pad_ok pad -> (22 <= List.length main)%nat.
Proof.
  intros Hp E Hpad. pose proof (b64_encode_length p) as HL. rewrite E in HL. unfold blen in HL.
  rewrite app_length in HL.
  assert (H6 : 6 <= (Z.of_nat (List.length p) + 2) / 3) by (apply Z.div_le_lower_bound; lia).
  assert (Hpl : (List.length pad <= 2)%nat) by (destruct Hpad as [-> | [-> | ->]]; cbn [List.length]; lia).
  lia.
Qed.

Theorem find_base64_roundtrip_quiet pre p suf :
  wf_bytes p -> (16 <= List.length p)%nat ->
  b64_acceptable (b64_encode p) = true -> b64_stop suf = true ->
  (List.length (b64_encode p) + 64 <= default_fuel)%nat ->
  let form := b64_encode p in
  let data := pre ++ form ++ suf in
  quiet default_fuel RE_base64_BASE64_RE (List.length pre) (start_pos data) ->
  find_base64 data = Hang \/
  exists rest, find_base64 data = Ok (Node [] p ENC_B64 (blen pre) (blen pre + blen form) [] :: rest) /\
               Forall (fun nd => blen pre + blen form <= n_st nd) rest.
Proof.
  intros Hwf Hlen Hacc Hstop Hfuel form data Hquiet.
  assert (Hne : p <> []) by (destruct p; [cbn [List.length] in Hlen; lia | discriminate]).
  destruct (b64_encode_split p Hne) as (main & pad & E & Hm & HF & Hpad).
  pose proof (b64_main_length p main pad Hlen E Hpad) as Hml.
  assert (Hl2 : (List.length main <= List.length form)%nat) by (unfold form; rewrite E, app_length; lia).
  assert (Hfne : form <> []) by (unfold form; rewrite E; destruct main; [congruence | discriminate]).
  pose proof (base64_runs main pad suf HF Hml Hpad Hstop) as R. rewrite <- E in R. fold form in R.
  unfold find_base64. fold data.
  destruct (fi_form RE_base64_BASE64_RE NG_base64_BASE64_RE pre form suf _ _ Hquiet R ltac:(unfold form in *; lia) Hfne)
    as [H | (rest & Hfi & Hrest)].
  { left. fold data in H. rewrite H. reflexivity. }
  fold data in Hfi.
  set (s := blen pre) in *. set (e := s + blen form) in *.
  change (mk_mtch NG_base64_BASE64_RE s e (cf_id s [])) with ([Some (s, e)] : mtch) in Hfi.
  set (mt := ([Some (s, e)] : mtch)) in *.
  assert (Eg : slice data s e = form) by (unfold e, s, data; apply slice_mid).
  assert (Eacc : b64_accept form = Ok true).
  { rewrite (b64_accept_chars form (wf_b64_encode p)); [fold (b64_acceptable form); unfold form; rewrite Hacc; reflexivity|].
    unfold blen, form. pose proof default_fuel_Z. lia. }
  assert (Epost : find_base64_post data (mt :: rest)
                  = do out <- find_base64_post data rest; Ok (Node [] p ENC_B64 s e [] :: out)).
  { cbn [find_base64_post]. unfold group_arg, participates, group, mt at 1 2. cbn [nth]. rewrite Eg. cbn [bind].
    unfold form at 1. rewrite (b64_clean_id _ (b64_encode_alphabet p)). cbn [bind]. fold form. rewrite Eacc. cbn [bind].
    unfold try_a2b, form. rewrite (a2b_encode p Hwf). cbn [bind]. reflexivity. }
  rewrite Hfi. cbn [bind]. rewrite Epost.
  destruct (find_base64_post data rest) as [out|ex|] eqn:ER; cbn [bind].
  - right. exists out. split; [reflexivity|]. apply (base64_post_starts data e rest out Hrest ER).
  - exfalso. destruct (find_base64_total data) as [HT | (nodes & HT & _)];
      unfold find_base64 in HT; rewrite Hfi in HT; cbn [bind] in HT; rewrite Epost in HT; discriminate HT.
  - left. reflexivity.
Qed.

Theorem find_base64_roundtrip pre p suf :
  wf_bytes p -> (16 <= List.length p)%nat ->
  b64_acceptable (b64_encode p) = true -> b64_stop suf = true ->
  (List.length (b64_encode p) + 64 <= default_fuel)%nat ->
  neutral RE_base64_BASE64_RE pre = true ->
  let form := b64_encode p in
  let data := pre ++ form ++ suf in
  find_base64 data = Hang \/
  exists rest, find_base64 data = Ok (Node [] p ENC_B64 (blen pre) (blen pre + blen form) [] :: rest) /\
               Forall (fun nd => blen pre + blen form <= n_st nd) rest.
Proof.
  intros Hwf Hlen Hacc Hstop Hfuel Hn form data.
  apply find_base64_roundtrip_quiet; try assumption.
  apply quiet_no_first; [vm_compute; reflexivity | spine_goal | exact Hn].
Qed.

(* ------------------------------------------------------------------ *)
(* 5.  find_hex                                                           *)
(* ------------------------------------------------------------------ *)
Definition is_lower_hex (c : N) : bool := is_digit_ascii c || ((97 <=? c)%N && (c <=? 102)%N).
Definition is_upper_hex (c : N) : bool := is_digit_ascii c || ((65 <=? c)%N && (c <=? 70)%N).

(* the suffix does not go on with a PAIR of digits of the class (one more digit is harmless: the pattern only
   takes pairs) *)
Definition pair_stop (P : N -> bool) (suf : bytes) : bool :=
  match suf with a :: b :: _ => negb (P a && P b) | _ => true end.
Definition hex_stop_lower : bytes -> bool := pair_stop is_lower_hex.
Definition hex_stop_upper : bytes -> bool := pair_stop is_upper_hex.

(* F11: the upper-case spelling is found as one unit only if a letter occurs among its first ten pairs *)
Definition upper_has_letter (form : bytes) : bool := negb (forallb is_digit_ascii (firstn 20 form)).

Lemma is_lower_hex_lt c : is_lower_hex c = true -> (c < 256)%N.
Proof.
  intros H. destruct (N.ltb_spec c 256) as [Hlt|Hge]; [exact Hlt | exfalso].
  unfold is_lower_hex, is_digit_ascii in H.
  replace (c <=? 57)%N with false in H by (symmetry; apply N.leb_gt; lia).
  replace (c <=? 102)%N with false in H by (symmetry; apply N.leb_gt; lia).
  rewrite !andb_false_r in H. discriminate H.
Qed.

Lemma is_upper_hex_lt c : is_upper_hex c = true -> (c < 256)%N.
Proof.
  intros H. destruct (N.ltb_spec c 256) as [Hlt|Hge]; [exact Hlt | exfalso].
  unfold is_upper_hex, is_digit_ascii in H.
  replace (c <=? 57)%N with false in H by (symmetry; apply N.leb_gt; lia).
  replace (c <=? 70)%N with false in H by (symmetry; apply N.leb_gt; lia).
  rewrite !andb_false_r in H. discriminate H.
Qed.

(* a class mask that is exactly a predicate on bytes *)
Lemma mask_pred_eq mk (P : N -> bool) :
  mask_ok mk = true -> (forall c, P c = true -> (c < 256)%N) ->
  forallb (fun c => Bool.eqb (N.testbit mk c) (P c)) bytes256 = true ->
  forall c, N.testbit mk c = P c.
Proof.
  intros Hm HP Hchk c. destruct (N.ltb_spec c 256) as [Hlt|Hge].
  - rewrite forallb_forall in Hchk. specialize (Hchk c (bytes256_in c Hlt)). apply Bool.eqb_prop in Hchk. exact Hchk.
  - destruct (N.testbit mk c) eqn:E1.
    + pose proof (mask_ok_bit mk c Hm E1). lia.
    + destruct (P c) eqn:E2; [|reflexivity]. pose proof (HP c E2). lia.
Qed.

(* class{2} fails when the next two bytes are not both in the class *)
Lemma blocked_pair mk x :
  match x with a :: b :: _ => N.testbit mk a && N.testbit mk b = false | _ => True end ->
  blocked 3 (Rep 2 (Some 2%nat) (Cls mk)) x.
Proof.
  intros H f p c k Hp Hf. destruct f as [|f]; [lia|]. cbn [m pred option_map].
  destruct x as [|a x].
  { apply (blocked_first (Cls mk) [] eq_refl I f p c _ Hp). cbn [spine]. lia. }
  destruct (N.testbit mk a) eqn:Ea.
  - rewrite (m_cls_take f mk p c _ a x Hp Ea ltac:(lia)). cbn [p_i].
    replace (p_i p + 1 =? p_i p) with false by (symmetry; apply Z.eqb_neq; lia).
    destruct f as [|f]; [lia|]. cbn [m pred option_map].
    apply (blocked_first (Cls mk) x eq_refl); [| reflexivity | cbn [spine]; lia].
    destruct x as [|b x]; [exact I|]. cbn [hd_out first_cls]. cbn [andb] in H. exact H.
  - apply (blocked_first (Cls mk) (a :: x) eq_refl); [exact Ea | exact Hp | cbn [spine]; lia].
Qed.

Lemma pair_stop_blocked mk (P : N -> bool) suf :
  (forall c, N.testbit mk c = P c) -> pair_stop P suf = true -> blocked 3 (Rep 2 (Some 2%nat) (Cls mk)) suf.
Proof.
  intros HP Hs. apply blocked_pair. destruct suf as [|a [|b suf]]; try exact I.
  cbn [pair_stop] in Hs. rewrite !HP. apply negb_true_iff. exact Hs.
Qed.

(* class{2} on two bytes of the class: exactly one way *)
Lemma pair_take mk a b x f p c k :
  p_after p = a :: b :: x -> N.testbit mk a = true -> N.testbit mk b = true -> (3 <= f)%nat ->
  m f (Rep 2 (Some 2%nat) (Cls mk)) p c k = k (seek 2 p) c.
Proof.
  intros Hp Ha Hb Hf. destruct f as [|f]; [lia|]. cbn [m pred option_map].
  rewrite (m_cls_take f mk p c _ a (b :: x) Hp Ha ltac:(lia)). cbn [p_i].
  replace (p_i p + 1 =? p_i p) with false by (symmetry; apply Z.eqb_neq; lia).
  destruct f as [|f]; [lia|]. cbn [m pred option_map].
  set (p1 := {| p_i := p_i p + 1; p_before := a :: p_before p; p_after := b :: x |}).
  rewrite (m_cls_take f mk p1 c _ b x eq_refl Hb ltac:(lia)). cbn [p_i p1].
  replace (p_i p + 1 + 1 =? p_i p + 1) with false by (symmetry; apply Z.eqb_neq; lia).
  destruct f as [|f]; [lia|]. cbn [m]. cbn [seek]. unfold adv. rewrite Hp. cbn [p_after]. reflexivity.
Qed.

(* (class{2}){lo,} fails when a byte outside the class occurs among the first lo pairs *)
Lemma blocked_rep_pairs mk : forall lo t,
  (1 <= lo)%nat -> forallb (N.testbit mk) (firstn (2 * lo) t) = false ->
  blocked (lo + 4) (Rep lo None (Rep 2 (Some 2%nat) (Cls mk))) t.
Proof.
  induction lo as [|lo IH]; intros t Hlo Hbad f p c k Hp Hf; [lia|].
  destruct f as [|f]; [lia|]. cbn [m pred option_map].
  destruct t as [|a [|b t]].
  - apply (blocked_pair mk [] I f p c _ Hp). lia.
  - apply (blocked_pair mk [a] I f p c _ Hp). lia.
  - destruct (N.testbit mk a && N.testbit mk b) eqn:Eab.
    + apply andb_true_iff in Eab. destruct Eab as [Ea Eb].
      rewrite (pair_take mk a b t f p c _ Hp Ea Eb ltac:(lia)).
      destruct (seek_word [a; b] p t 0 Hp) as (_ & S2 & S3). cbn [List.length] in S2, S3.
      replace (p_i (seek 2 p) =? p_i p) with false by (symmetry; apply Z.eqb_neq; lia).
      replace (2 * S lo)%nat with (S (S (2 * lo))) in Hbad by lia. cbn [firstn forallb] in Hbad.
      rewrite Ea, Eb in Hbad. cbn [andb] in Hbad.
      destruct lo as [|lo]; [cbn [Nat.mul firstn forallb] in Hbad; discriminate Hbad|].
      apply (IH t ltac:(lia) Hbad f (seek 2 p) c k S2). lia.
    + apply (blocked_pair mk (a :: b :: t) Eab f p c _ Hp). lia.
Qed.

(* the spelled text: hexlify, then a map on the digits (identity / ASCII upper-casing) *)
Definition digit_mask_ok (g : N -> N) (mk : N) : bool :=
  forallb (fun v => N.testbit mk (g (hex_digit v))) (map N.of_nat (seq 0 16)).

Lemma digit_mask_digit g mk n : digit_mask_ok g mk = true -> N.testbit mk (g (hex_digit n)) = true.
Proof.
  intros H. unfold digit_mask_ok in H. rewrite forallb_forall in H.
  assert (E : hex_digit n = hex_digit (n mod 16)).
  { unfold hex_digit. rewrite N.mod_mod by discriminate. reflexivity. }
  rewrite E. apply H. apply in_range. change (N.of_nat 16) with 16%N. apply N.mod_lt. discriminate.
Qed.

Lemma map_hexlify_chunks (g : N -> N) p : map g (hexlify p) = concat (map (fun x => map g (hex_chunk x)) p).
Proof. induction p as [|x p IH]; [reflexivity|]. cbn [hexlify map concat hex_chunk app]. rewrite IH. reflexivity. Qed.

Lemma runs_hex_form g mk lo nb p x :
  digit_mask_ok g mk = true -> blocked nb (Rep 2 (Some 2%nat) (Cls mk)) x -> (lo <= List.length p)%nat ->
  runs (List.length p + 6 + nb) (Rep lo None (Rep 2 (Some 2%nat) (Cls mk))) (map g (hexlify p)) x cf_id.
Proof.
  intros Hm Hx Hlo. rewrite map_hexlify_chunks.
  apply (runs_mono (List.length (map (fun x => map g (hex_chunk x)) p) + S (Nat.max 4 nb))); [|rewrite map_length; lia].
  apply runs_rep_chunks.
  - exact Hx.
  - apply Forall_forall. intros u Hu. apply in_map_iff in Hu. destruct Hu as (b & <- & _).
    split; [discriminate|]. intros x'. cbn [hex_chunk map]. apply runs_rep2_cls; apply digit_mask_digit; exact Hm.
  - rewrite map_length. exact Hlo.
Qed.

Lemma map_id_eq (l : list N) : map (fun c => c) l = l.
Proof. apply map_id. Qed.

Definition hex_cf (form : bytes) : Z -> caps -> caps :=
  fun i c => (1%nat, (i, i + Z.of_nat (List.length form))) :: cf_id i c.

(* lower case: the first alternative of the pattern *)
Lemma hex_lower_runs p suf :
  (10 <= List.length p)%nat -> hex_stop_lower suf = true ->
  runs (List.length p + 20) RE_hex_HEX_RE (hexlify p) suf (hex_cf (hexlify p)).
Proof.
  intros Hlen Hstop. unfold RE_hex_HEX_RE, hex_cf. rewrite <- (map_id_eq (hexlify p)).
  eapply runs_mono.
  - eapply runs_grp. eapply runs_alt_l.
    eapply (runs_hex_form (fun c => c)); [vm_compute; reflexivity | | exact Hlen].
    eapply (pair_stop_blocked _ is_lower_hex); [|exact Hstop].
    apply mask_pred_eq; [vm_compute; reflexivity | exact is_lower_hex_lt | vm_compute; reflexivity].
  - lia.
Qed.

Lemma upper_hexlify_digits mk p :
  forallb (fun v => Bool.eqb (N.testbit mk (upper1 (hex_digit v))) (is_digit_ascii (upper1 (hex_digit v))))
          (map N.of_nat (seq 0 16)) = true ->
  Forall (fun c => N.testbit mk c = is_digit_ascii c) (upper (hexlify p)).
Proof.
  intros H. rewrite forallb_forall in H.
  assert (HD : forall n, N.testbit mk (upper1 (hex_digit n)) = is_digit_ascii (upper1 (hex_digit n))).
  { intros n. assert (E : hex_digit n = hex_digit (n mod 16)).
    { unfold hex_digit. rewrite N.mod_mod by discriminate. reflexivity. }
    rewrite E. apply Bool.eqb_prop. apply H. apply in_range. change (N.of_nat 16) with 16%N. apply N.mod_lt. discriminate. }
  unfold upper. induction p as [|x p IH]; [constructor|]. cbn [hexlify map].
  constructor; [apply HD|]. constructor; [apply HD | exact IH].
Qed.

Lemma forallb_ext_Forall {A} (f g : A -> bool) l : Forall (fun c => f c = g c) l -> forallb f l = forallb g l.
Proof. induction 1 as [|c l Hc Hl IH]; [reflexivity|]. cbn [forallb]. rewrite Hc, IH. reflexivity. Qed.

Lemma Forall_firstn' {A} (P : A -> Prop) n l : Forall P l -> Forall P (firstn n l).
Proof.
  intros H. rewrite <- (firstn_skipn n l) in H. apply Forall_app in H. apply H.
Qed.

(* upper case: the lower-case alternative is tried first and fails on the letter, then the second alternative *)
Lemma hex_upper_runs p suf :
  (10 <= List.length p)%nat -> hex_stop_upper suf = true -> upper_has_letter (upper (hexlify p)) = true ->
  runs (List.length p + 40) RE_hex_HEX_RE (upper (hexlify p)) suf (hex_cf (upper (hexlify p))).
Proof.
  intros Hlen Hstop Hlet. unfold RE_hex_HEX_RE, hex_cf.
  assert (H20 : (20 <= List.length (upper (hexlify p)))%nat).
  { unfold upper. rewrite map_length. pose proof (hexlify_length p) as HL. unfold blen in HL. lia. }
  eapply runs_mono.
  - eapply runs_grp. eapply runs_alt_r.
    + eapply blocked_rep_pairs; [lia|].
      change (2 * 10)%nat with 20%nat. rewrite firstn_app.
      replace (20 - List.length (upper (hexlify p)))%nat with 0%nat by lia. rewrite firstn_O, app_nil_r.
      erewrite forallb_ext_Forall;
        [| apply Forall_firstn'; apply upper_hexlify_digits; vm_compute; reflexivity].
      apply negb_true_iff. exact Hlet.
    + unfold upper. eapply (runs_hex_form upper1); [vm_compute; reflexivity | | exact Hlen].
      eapply (pair_stop_blocked _ is_upper_hex); [|exact Hstop].
      apply mask_pred_eq; [vm_compute; reflexivity | exact is_upper_hex_lt | vm_compute; reflexivity].
  - lia.
Qed.

(* unhexlify accepts the upper-case spelling *)
Lemma unhex_pairs_upper p : wf_bytes p -> unhex_pairs (upper (hexlify p)) = Ok p.
Proof.
  assert (HD : forall v, (v < 16)%N -> hex_digit_val (upper1 (hex_digit v)) = Some v).
  { intros v Hv.
    assert (H : forallb (fun v => match hex_digit_val (upper1 (hex_digit v)) with Some u => (u =? v)%N | None => false end)
                        (map N.of_nat (seq 0 16)) = true) by (vm_compute; reflexivity).
    rewrite forallb_forall in H. specialize (H v (in_range 16 v Hv)).
    destruct (hex_digit_val (upper1 (hex_digit v))) as [u|]; [|discriminate H]. apply N.eqb_eq in H. subst u. reflexivity. }
  unfold upper. induction 1 as [|x p Hx Hp IH]; [reflexivity|]. cbn [hexlify map unhex_pairs].
  rewrite (HD (x / 16)%N) by (apply N.div_lt_upper_bound; [discriminate | lia]).
  rewrite (HD (x mod 16)%N) by (apply N.mod_lt; discriminate).
  rewrite IH. cbn [bind]. f_equal. f_equal.
  rewrite N.mul_comm. symmetry. apply N.div_mod. discriminate.
Qed.

Lemma unhexlify_upper p : wf_bytes p -> unhexlify (upper (hexlify p)) = Ok p.
Proof.
  intros Hwf. unfold unhexlify.
  assert (E : blen (upper (hexlify p)) = 2 * blen p).
  { unfold upper. rewrite blen_map. apply hexlify_length. }
  rewrite E. rewrite Z.odd_mul. cbn [Z.odd andb]. apply unhex_pairs_upper. exact Hwf.
Qed.

Lemma hex_post_starts data lo : forall ms out,
  Forall (fun mt => lo <= m_start mt 0) ms -> find_hex_post data ms = Ok out ->
  Forall (fun nd => lo <= n_st nd) out.
Proof.
  unfold find_hex_post, hex_list_post. apply mapM_starts.
  intros mt nd E Hm. destruct (group_arg data mt 0) as [t| |]; cbn [bind] in E; try discriminate E.
  destruct (unhexlify t) as [v| |]; cbn [bind] in E; try discriminate E. injection E as <-. exact Hm.
Qed.

(* the common part: any text the pattern runs over (as group 1 = the whole match) and unhexlify accepts *)
Theorem hex_form_roundtrip pre form p suf n :
  runs n RE_hex_HEX_RE form suf (hex_cf form) -> (n <= default_fuel)%nat -> form <> [] ->
  unhexlify form = Ok p ->
  let data := pre ++ form ++ suf in
  quiet default_fuel RE_hex_HEX_RE (List.length pre) (start_pos data) ->
  find_hex data = Hang \/
  exists rest, find_hex data = Ok (Node [] p DEC_HEX (blen pre) (blen pre + blen form) [] :: rest) /\
               Forall (fun nd => blen pre + blen form <= n_st nd) rest.
Proof.
  intros R Hn Hfne Hun data Hquiet. unfold find_hex. fold data.
  destruct (fi_form RE_hex_HEX_RE NG_hex_HEX_RE pre form suf _ _ Hquiet R Hn Hfne) as [H | (rest & Hfi & Hrest)].
  { left. fold data in H. rewrite H. reflexivity. }
  fold data in Hfi.
  set (s := blen pre) in *. set (e := s + blen form) in *.
  change (mk_mtch NG_hex_HEX_RE s e (hex_cf form s []))
    with ([Some (s, e); Some (s, s + Z.of_nat (List.length form))] : mtch) in Hfi.
  set (mt := ([Some (s, e); Some (s, s + Z.of_nat (List.length form))] : mtch)) in *.
  assert (Eg : slice data s e = form) by (unfold e, s, data; apply slice_mid).
  assert (Epost : find_hex_post data (mt :: rest)
                  = do out <- find_hex_post data rest; Ok (Node [] p DEC_HEX s e [] :: out)).
  { unfold find_hex_post, hex_list_post. cbn [mapM]. unfold group_arg, participates, group, mt at 1 2. cbn [nth].
    rewrite Eg. cbn [bind]. rewrite Hun. cbn [bind]. reflexivity. }
  rewrite Hfi. cbn [bind]. rewrite Epost.
  destruct (find_hex_post data rest) as [out|ex|] eqn:ER; cbn [bind].
  - right. exists out. split; [reflexivity|]. apply (hex_post_starts data e rest out Hrest ER).
  - exfalso. destruct (find_hex_total data) as [HT | (nodes & HT & _)];
      unfold find_hex in HT; rewrite Hfi in HT; cbn [bind] in HT; rewrite Epost in HT; discriminate HT.
  - left. reflexivity.
Qed.

Lemma hexlify_nonempty p : (10 <= List.length p)%nat -> hexlify p <> [].
Proof. destruct p; [cbn [List.length]; lia | discriminate]. Qed.

Lemma hexlify_len_nat p : List.length (hexlify p) = (2 * List.length p)%nat.
Proof. pose proof (hexlify_length p) as H. unfold blen in H. lia. Qed.

(* ---- lower case ---- *)
Theorem find_hex_roundtrip_lower_quiet pre p suf :
  wf_bytes p -> (10 <= List.length p)%nat -> hex_stop_lower suf = true ->
  (List.length (hexlify p) + 64 <= default_fuel)%nat ->
  let form := hexlify p in
  let data := pre ++ form ++ suf in
  quiet default_fuel RE_hex_HEX_RE (List.length pre) (start_pos data) ->
  find_hex data = Hang \/
  exists rest, find_hex data = Ok (Node [] p DEC_HEX (blen pre) (blen pre + blen form) [] :: rest) /\
               Forall (fun nd => blen pre + blen form <= n_st nd) rest.
Proof.
  intros Hwf Hlen Hstop Hfuel form data Hquiet.
  apply (hex_form_roundtrip pre form p suf _ (hex_lower_runs p suf Hlen Hstop));
    [rewrite hexlify_len_nat in Hfuel; lia | apply hexlify_nonempty; exact Hlen | apply unhexlify_hexlify; exact Hwf | exact Hquiet].
Qed.

Theorem find_hex_roundtrip_lower pre p suf :
  wf_bytes p -> (10 <= List.length p)%nat -> hex_stop_lower suf = true ->
  (List.length (hexlify p) + 64 <= default_fuel)%nat ->
  neutral RE_hex_HEX_RE pre = true ->
  let form := hexlify p in
  let data := pre ++ form ++ suf in
  find_hex data = Hang \/
  exists rest, find_hex data = Ok (Node [] p DEC_HEX (blen pre) (blen pre + blen form) [] :: rest) /\
               Forall (fun nd => blen pre + blen form <= n_st nd) rest.
Proof.
  intros Hwf Hlen Hstop Hfuel Hn form data.
  apply find_hex_roundtrip_lower_quiet; try assumption.
  apply quiet_no_first; [vm_compute; reflexivity | spine_goal | exact Hn].
Qed.

(* ---- upper case: with the hypothesis that excludes F11 ---- *)
Theorem find_hex_roundtrip_upper_quiet pre p suf :
  wf_bytes p -> (10 <= List.length p)%nat -> hex_stop_upper suf = true ->
  upper_has_letter (upper (hexlify p)) = true ->
  (List.length (hexlify p) + 64 <= default_fuel)%nat ->
  let form := upper (hexlify p) in
  let data := pre ++ form ++ suf in
  quiet default_fuel RE_hex_HEX_RE (List.length pre) (start_pos data) ->
  find_hex data = Hang \/
  exists rest, find_hex data = Ok (Node [] p DEC_HEX (blen pre) (blen pre + blen form) [] :: rest) /\
               Forall (fun nd => blen pre + blen form <= n_st nd) rest.
Proof.
  intros Hwf Hlen Hstop Hlet Hfuel form data Hquiet.
  apply (hex_form_roundtrip pre form p suf _ (hex_upper_runs p suf Hlen Hstop Hlet));
    [rewrite hexlify_len_nat in Hfuel; lia | | apply unhexlify_upper; exact Hwf | exact Hquiet].
  unfold form, upper. intros E. apply map_eq_nil in E. revert E. apply hexlify_nonempty. exact Hlen.
Qed.

Theorem find_hex_roundtrip_upper pre p suf :
  wf_bytes p -> (10 <= List.length p)%nat -> hex_stop_upper suf = true ->
  upper_has_letter (upper (hexlify p)) = true ->
  (List.length (hexlify p) + 64 <= default_fuel)%nat ->
  neutral RE_hex_HEX_RE pre = true ->
  let form := upper (hexlify p) in
  let data := pre ++ form ++ suf in
  find_hex data = Hang \/
  exists rest, find_hex data = Ok (Node [] p DEC_HEX (blen pre) (blen pre + blen form) [] :: rest) /\
               Forall (fun nd => blen pre + blen form <= n_st nd) rest.
Proof.
  intros Hwf Hlen Hstop Hlet Hfuel Hn form data.
  apply find_hex_roundtrip_upper_quiet; try assumption.
  apply quiet_no_first; [vm_compute; reflexivity | spine_goal | exact Hn].
Qed.

(* ------------------------------------------------------------------ *)
(* 5b.  find_base64 on a LINE-WRAPPED encoding (LF or CR LF after every full line)  *)
(* ------------------------------------------------------------------ *)
Definition is_nl (s : bytes) : bool := beqb s [10%N] || beqb s [13%N; 10%N].

(* a wrapped encoding: full lines of alphabet bytes, each followed by LF or CR LF, then the last line *)
Definition lines_ok (ls : list (list N * list N)) : Prop :=
  Forall (fun ln => forallb is_b64_char (fst ln) = true /\ (4 <= List.length (fst ln))%nat /\ is_nl (snd ln) = true) ls.

Lemma is_nl_cases s : is_nl s = true -> s = [10%N] \/ s = [13%N; 10%N].
Proof.
  unfold is_nl. intros H. apply orb_true_iff in H. destruct H as [H|H]; apply beqb_eq in H; [left | right]; exact H.
Qed.

Ltac sep_skip := eapply runs_seq_skip; [eapply runs_opt_skip; [vm_compute; reflexivity | hd_goal] | ].

Lemma base64_wrapped_runs ls lm pad suf :
  lines_ok ls -> forallb is_b64_char lm = true ->
  (4 * (5 - List.length ls) + 2 <= List.length lm)%nat -> pad_ok pad -> b64_stop suf = true ->
  runs (List.length (wtext ls lm) + 80) RE_base64_BASE64_RE (wtext ls lm ++ pad) suf cf_id.
Proof.
  intros Hls HF Hlen Hpad Hstop. unfold RE_base64_BASE64_RE.
  assert (Hs : match suf with [] => True | b :: _ => b64_stop_byte b = true end).
  { destruct suf as [|b suf]; [exact I | exact Hstop]. }
  eapply runs_mono.
  - eapply (b64_wrapped_runs _ _ _ _ _ _ 20%nat);
      [ lia | vm_compute; reflexivity | exact Hpad
      | vm_compute; reflexivity | vm_compute; reflexivity | vm_compute; reflexivity | vm_compute; reflexivity
      | stop_goal Hs b64_stop_byte | stop_goal Hs b64_stop_byte | stop_goal Hs b64_stop_byte | stop_goal Hs b64_stop_byte
      | | apply okw_of_b64; [vm_compute; reflexivity | exact HF] | exact Hlen ].
    eapply Forall_impl; [|exact Hls]. intros [l s] (H1 & H2 & H3). cbn [fst snd] in *. split.
    + split; [apply Forall_b64_mask; [vm_compute; reflexivity | exact H1] | exact H2].
    + destruct (is_nl_cases s H3) as [-> | ->]; (split; [discriminate|]); (split; [vm_compute; reflexivity|]); intros rest.
      * eapply runs_mono; [do 4 sep_skip; eapply runs_opt_take; vm_compute; reflexivity | apply Nat.leb_le; vm_compute; reflexivity].
      * eapply runs_ext; [| eapply runs_mono;
          [ do 3 sep_skip; eapply (runs_seq _ _ _ _ [13%N] [10%N]); eapply runs_opt_take; vm_compute; reflexivity
          | apply Nat.leb_le; vm_compute; reflexivity ] ].
        intros i c. reflexivity.
  - match goal with |- (_ + ?s + 20 + 20 <= _)%nat => let v := eval vm_compute in s in change s with v end. lia.
Qed.

Lemma wtext_app ls lm pad : wtext ls lm ++ pad = wtext ls (lm ++ pad).
Proof. induction ls as [|ln ls IH]; [reflexivity|]. cbn [wtext]. rewrite <- !app_assoc, IH. reflexivity. Qed.

Lemma wtext_length_ge ls lm : (List.length (concat (map fst ls) ++ lm) <= List.length (wtext ls lm))%nat.
Proof.
  induction ls as [|ln ls IH]; [cbn [map concat wtext app]; lia|].
  cbn [map concat wtext]. rewrite <- app_assoc, !app_length in *. lia.
Qed.

Definition not10 (c : N) : bool := negb (N.eqb 10 c).
Definition not13 (c : N) : bool := negb (N.eqb 13 c).

Lemma sig_filters w : forallb b64_significant w = true -> filter not13 (filter not10 w) = w.
Proof.
  intros H. rewrite (filter_all not10), (filter_all not13); [reflexivity | |];
    apply forallb_forall; intros c Hc; rewrite forallb_forall in H; specialize (H c Hc);
    destruct (b64_significant_not c H) as (_ & E10 & E13 & _); unfold not10, not13; apply negb_true_iff; apply N.eqb_neq; congruence.
Qed.

Lemma b64_char_significant l : forallb is_b64_char l = true -> forallb b64_significant l = true.
Proof.
  intros H. apply forallb_forall. intros c Hc. rewrite forallb_forall in H. unfold b64_significant. rewrite (H c Hc). reflexivity.
Qed.

(* removing LF and CR joins the lines *)
Lemma unwrap_filter ls w :
  lines_ok ls -> forallb b64_significant w = true ->
  filter not13 (filter not10 (wtext ls w)) = concat (map fst ls) ++ w.
Proof.
  intros Hls Hw. induction Hls as [|[l s] ls (H1 & _ & H3) Hls IH]; [apply sig_filters; exact Hw|].
  cbn [wtext map concat fst snd] in *. rewrite !filter_app, IH, (sig_filters l (b64_char_significant l H1)).
  rewrite <- app_assoc. f_equal.
  destruct (is_nl_cases s H3) as [-> | ->]; reflexivity.
Qed.

Definition wrap_byte (c : N) : bool := b64_significant c || (c =? 10)%N || (c =? 13)%N.

Lemma wrap_byte_lt c : wrap_byte c = true -> (c < 256)%N.
Proof.
  unfold wrap_byte. intros H. apply orb_true_iff in H. destruct H as [H|H]; [apply orb_true_iff in H; destruct H as [H|H]|].
  - apply b64_significant_lt. exact H.
  - apply N.eqb_eq in H. subst c. reflexivity.
  - apply N.eqb_eq in H. subst c. reflexivity.
Qed.

Lemma wtext_wrap_bytes ls w : lines_ok ls -> forallb b64_significant w = true -> forallb wrap_byte (wtext ls w) = true.
Proof.
  intros Hls Hw. induction Hls as [|[l s] ls (H1 & _ & H3) Hls IH].
  - cbn [wtext]. apply forallb_forall. intros c Hc. rewrite forallb_forall in Hw. unfold wrap_byte. rewrite (Hw c Hc). reflexivity.
  - cbn [wtext fst snd]. rewrite !forallb_app, IH, andb_true_r. apply andb_true_iff. split.
    + apply forallb_forall. intros c Hc. pose proof (b64_char_significant l H1) as Hl. rewrite forallb_forall in Hl.
      unfold wrap_byte. rewrite (Hl c Hc). reflexivity.
    + destruct (is_nl_cases s H3) as [-> | ->]; reflexivity.
Qed.

(* the cleaning step removes the line breaks *)
Lemma b64_clean_wrapped ls w :
  lines_ok ls -> forallb b64_significant w = true -> b64_clean (wtext ls w) = Ok (concat (map fst ls) ++ w).
Proof.
  intros Hls Hw. pose proof (wtext_wrap_bytes ls w Hls Hw) as Hb. unfold b64_clean, re_sub_const.
  rewrite (fi_neutral RE_base64_HTML_ESCAPE_RE NG_base64_HTML_ESCAPE_RE (wtext ls w));
    [| vm_compute; reflexivity | spine_goal
     | apply (neutral_of_class _ wrap_byte _ wrap_byte_lt); [vm_compute; reflexivity | exact Hb] ].
  cbn [bind splice_const]. rewrite slice_from_0.
  rewrite !replace_single_nil. fold not10. fold not13. rewrite (unwrap_filter ls w Hls Hw).
  unfold B64_MARKER. rewrite replace_absent; [reflexivity|].
  intros Hin. rewrite <- (unwrap_filter ls w Hls Hw) in Hin.
  apply filter_In in Hin. destruct Hin as [Hin _]. apply filter_In in Hin. destruct Hin as [Hin _].
  rewrite forallb_forall in Hb. specialize (Hb _ Hin). vm_compute in Hb. discriminate Hb.
Qed.

Theorem find_base64_roundtrip_wrapped_quiet pre p ls lm pad suf :
  wf_bytes p -> lines_ok ls -> forallb is_b64_char lm = true -> pad_ok pad ->
  b64_encode p = concat (map fst ls) ++ lm ++ pad ->
  (4 * (5 - List.length ls) + 2 <= List.length lm)%nat ->
  b64_acceptable (b64_encode p) = true -> b64_stop suf = true ->
  let form := wtext ls lm ++ pad in
  (List.length form + 100 <= default_fuel)%nat ->
  let data := pre ++ form ++ suf in
  quiet default_fuel RE_base64_BASE64_RE (List.length pre) (start_pos data) ->
  find_base64 data = Hang \/
  exists rest, find_base64 data = Ok (Node [] p ENC_B64 (blen pre) (blen pre + blen form) [] :: rest) /\
               Forall (fun nd => blen pre + blen form <= n_st nd) rest.
Proof.
  intros Hwf Hls HF Hpad Eenc Hlen Hacc Hstop form Hfuel data Hquiet.
  assert (Hl2 : (List.length (wtext ls lm) <= List.length form)%nat) by (unfold form; rewrite app_length; lia).
  assert (Hfne : form <> []).
  { unfold form. intros E. apply (f_equal (@List.length N)) in E. rewrite app_length in E. cbn [List.length] in E.
    pose proof (wtext_length_ge ls lm) as G. rewrite app_length in G. lia. }
  pose proof (base64_wrapped_runs ls lm pad suf Hls HF Hlen Hpad Hstop) as R. fold form in R.
  unfold find_base64. fold data.
  destruct (fi_form RE_base64_BASE64_RE NG_base64_BASE64_RE pre form suf _ _ Hquiet R ltac:(lia) Hfne)
    as [H | (rest & Hfi & Hrest)].
  { left. fold data in H. rewrite H. reflexivity. }
  fold data in Hfi.
  set (s := blen pre) in *. set (e := s + blen form) in *.
  change (mk_mtch NG_base64_BASE64_RE s e (cf_id s [])) with ([Some (s, e)] : mtch) in Hfi.
  set (mt := ([Some (s, e)] : mtch)) in *.
  assert (Eg : slice data s e = form) by (unfold e, s, data; apply slice_mid).
  assert (Hsig : forallb b64_significant (lm ++ pad) = true).
  { rewrite forallb_app, (b64_char_significant lm HF). destruct Hpad as [-> | [-> | ->]]; reflexivity. }
  assert (Eclean : b64_clean form = Ok (b64_encode p)).
  { unfold form. rewrite wtext_app, (b64_clean_wrapped ls (lm ++ pad) Hls Hsig), Eenc. reflexivity. }
  assert (Eacc : b64_accept (b64_encode p) = Ok true).
  { rewrite (b64_accept_chars _ (wf_b64_encode p)); [fold (b64_acceptable (b64_encode p)); rewrite Hacc; reflexivity|].
    pose proof (wtext_length_ge ls (lm ++ pad)) as G. rewrite <- wtext_app in G. fold form in G.
    rewrite <- Eenc in G. unfold blen. pose proof default_fuel_Z. lia. }
  assert (Epost : find_base64_post data (mt :: rest)
                  = do out <- find_base64_post data rest; Ok (Node [] p ENC_B64 s e [] :: out)).
  { cbn [find_base64_post]. unfold group_arg, participates, group, mt at 1 2. cbn [nth]. rewrite Eg. cbn [bind].
    rewrite Eclean. cbn [bind]. rewrite Eacc. cbn [bind].
    unfold try_a2b. rewrite (a2b_encode p Hwf). cbn [bind]. reflexivity. }
  rewrite Hfi. cbn [bind]. rewrite Epost.
  destruct (find_base64_post data rest) as [out|ex|] eqn:ER; cbn [bind].
  - right. exists out. split; [reflexivity|]. apply (base64_post_starts data e rest out Hrest ER).
  - exfalso. destruct (find_base64_total data) as [HT | (nodes & HT & _)];
      unfold find_base64 in HT; rewrite Hfi in HT; cbn [bind] in HT; rewrite Epost in HT; discriminate HT.
  - left. reflexivity.
Qed.

Theorem find_base64_roundtrip_wrapped pre p ls lm pad suf :
  wf_bytes p -> lines_ok ls -> forallb is_b64_char lm = true -> pad_ok pad ->
  b64_encode p = concat (map fst ls) ++ lm ++ pad ->
  (4 * (5 - List.length ls) + 2 <= List.length lm)%nat ->
  b64_acceptable (b64_encode p) = true -> b64_stop suf = true ->
  let form := wtext ls lm ++ pad in
  (List.length form + 100 <= default_fuel)%nat ->
  neutral RE_base64_BASE64_RE pre = true ->
  let data := pre ++ form ++ suf in
  find_base64 data = Hang \/
  exists rest, find_base64 data = Ok (Node [] p ENC_B64 (blen pre) (blen pre + blen form) [] :: rest) /\
               Forall (fun nd => blen pre + blen form <= n_st nd) rest.
Proof.
  intros Hwf Hls HF Hpad Eenc Hlen Hacc Hstop form Hfuel Hn data.
  apply (find_base64_roundtrip_wrapped_quiet pre p ls lm pad suf); try assumption.
  apply quiet_no_first; [vm_compute; reflexivity | spine_goal | exact Hn].
Qed.

(* ------------------------------------------------------------------ *)
(* 6.  Examples: non-vacuity, the tie with Python, the side conditions    *)
(* ------------------------------------------------------------------ *)
(* Expected values = what /venv/bin/python prints for the same bytes with multidecoder.decoders.base64.find_base64
   and multidecoder.decoders.hex.find_hex (generated by a script from the live decoders). *)
Example rt4_first_sets :
  first_cls RE_hex_HEX_RE = mask_of (L"0123456789abcdefABCDEF") /\
  first_cls RE_base64_BASE64_RE = mask_of (L"ABCDEFGHIJKLMNOPQRSTUVWXYZabcdefghijklmnopqrstuvwxyz0123456789+/") /\
  map startable [RE_hex_HEX_RE; RE_base64_BASE64_RE] = [true; true].
Proof. vm_compute. repeat split; reflexivity. Qed.

(* the hypotheses of the theorems hold for the runs below: the theorems are not vacuous *)
Example rt4_b64_apply :
  let data := L"$_ = '" ++ b64_encode (L"Hello, World!123") ++ L"';" in
  find_base64 data = Hang \/
  exists rest, find_base64 data = Ok (Node [] (L"Hello, World!123") ENC_B64 6 (6 + 24) [] :: rest) /\
               Forall (fun nd => 6 + 24 <= n_st nd) rest.
Proof.
  apply (find_base64_roundtrip (L"$_ = '") (L"Hello, World!123") (L"';"));
    [apply wf_bytes_b; reflexivity | cbn [s2b List.length]; lia | vm_compute; reflexivity | reflexivity
    | small_fuel | vm_compute; reflexivity].
Qed.
Example rt4_hex_lower_apply :
  let data := L"x = " ++ hexlify [48; 49; 50; 51; 52; 53; 54; 55; 56; 57; 171; 255; 0]%N ++ L"a; y" in
  find_hex data = Hang \/
  exists rest, find_hex data = Ok (Node [] [48; 49; 50; 51; 52; 53; 54; 55; 56; 57; 171; 255; 0]%N DEC_HEX 4 (4 + 26) [] :: rest) /\
               Forall (fun nd => 4 + 26 <= n_st nd) rest.
Proof.
  apply (find_hex_roundtrip_lower (L"x = ") [48; 49; 50; 51; 52; 53; 54; 55; 56; 57; 171; 255; 0]%N (L"a; y"));
    [apply wf_bytes_b; reflexivity | cbn [List.length]; lia | reflexivity | small_fuel | vm_compute; reflexivity].
Qed.
Example rt4_hex_upper_apply :
  let data := L"x = " ++ upper (hexlify [48; 49; 50; 51; 52; 53; 54; 55; 56; 171; 57]%N) ++ L"A; y" in
  find_hex data = Hang \/
  exists rest, find_hex data = Ok (Node [] [48; 49; 50; 51; 52; 53; 54; 55; 56; 171; 57]%N DEC_HEX 4 (4 + 22) [] :: rest) /\
               Forall (fun nd => 4 + 22 <= n_st nd) rest.
Proof.
  apply (find_hex_roundtrip_upper (L"x = ") [48; 49; 50; 51; 52; 53; 54; 55; 56; 171; 57]%N (L"A; y"));
    [apply wf_bytes_b; reflexivity | cbn [List.length]; lia | reflexivity | vm_compute; reflexivity | small_fuel
    | vm_compute; reflexivity].
Qed.

Definition ex_p40 : bytes :=
  [3; 10; 17; 24; 31; 38; 45; 52; 59; 66; 73; 80; 87; 94; 101; 108; 115; 122; 129; 136; 143; 150; 157; 164; 171; 178; 185; 192; 199; 206; 213; 220; 227; 234; 241; 248; 255; 6; 13; 20]%N.
Definition ex_lines : list (list N * list N) :=
  [(L"AwoRGB8m", [13; 10]%N); (L"LTQ7QklQ", [10]%N); (L"V15lbHN6", [13; 10]%N); (L"gYiPlp2k", [10]%N);
   (L"q7K5wMfO", [13; 10]%N); (L"1dzj6vH4", [10]%N)].
Example rt4_wrap_apply :
  let data := L"$_ = '" ++ (wtext ex_lines (L"/wYNFA") ++ L"==") ++ L"';" in
  find_base64 data = Hang \/
  exists rest, find_base64 data = Ok (Node [] ex_p40 ENC_B64 6 (6 + 65) [] :: rest) /\
               Forall (fun nd => 6 + 65 <= n_st nd) rest.
Proof.
  apply (find_base64_roundtrip_wrapped (L"$_ = '") ex_p40 ex_lines (L"/wYNFA") (L"==") (L"';"));
    [ apply wf_bytes_b; reflexivity
    | unfold lines_ok, ex_lines;
      repeat (constructor; [split; [vm_compute; reflexivity | split; [apply Nat.leb_le; vm_compute; reflexivity | reflexivity]]|]);
      constructor
    | vm_compute; reflexivity | right; right; reflexivity | vm_compute; reflexivity
    | apply Nat.leb_le; vm_compute; reflexivity | vm_compute; reflexivity | reflexivity
    | small_fuel | vm_compute; reflexivity ].
Qed.

(* F11: WITHOUT [upper_has_letter] the statement of find_hex_roundtrip_upper is false - every other hypothesis
   holds for this payload (ten digit-only pairs, then AB), and the conclusion does not *)
Example rt4_F11_counterexample :
  let p := [48; 49; 50; 51; 52; 53; 54; 55; 56; 57; 171]%N in
  let pre := L"x = " in let suf := L"; y" in
  let form := upper (hexlify p) in let data := pre ++ form ++ suf in
  wf_bytes p /\ (10 <= List.length p)%nat /\ hex_stop_upper suf = true /\ neutral RE_hex_HEX_RE pre = true /\
  upper_has_letter form = false /\
  ~ (find_hex data = Hang \/
     exists rest, find_hex data = Ok (Node [] p DEC_HEX (blen pre) (blen pre + blen form) [] :: rest) /\
                  Forall (fun nd => blen pre + blen form <= n_st nd) rest).
Proof.
  cbv zeta. split; [apply wf_bytes_b; reflexivity|]. split; [cbn [List.length]; lia|].
  split; [reflexivity|]. split; [vm_compute; reflexivity|]. split; [vm_compute; reflexivity|].
  assert (E : find_hex (L"x = " ++ upper (hexlify [48; 49; 50; 51; 52; 53; 54; 55; 56; 57; 171]%N) ++ L"; y")
              = Ok [Node [] (L"0123456789") DEC_HEX 4 24 []]) by (vm_compute; reflexivity).
  rewrite E. intros [H | (rest & H & _)]; [discriminate H|]. injection H as H _. discriminate H.
Qed.

(* the minimum length of find_base64 (a side condition the property text does not mention): for a 15-byte payload
   every other hypothesis of find_base64_roundtrip holds and the conclusion does not *)
Example rt4_b64_min_length_counterexample :
  let p := L"Hello, World!12" in
  let pre := L"$_ = '" in let suf := L"';" in
  let form := b64_encode p in let data := pre ++ form ++ suf in
  wf_bytes p /\ List.length p = 15%nat /\ b64_acceptable form = true /\ b64_stop suf = true /\
  neutral RE_base64_BASE64_RE pre = true /\
  ~ (find_base64 data = Hang \/
     exists rest, find_base64 data = Ok (Node [] p ENC_B64 (blen pre) (blen pre + blen form) [] :: rest) /\
                  Forall (fun nd => blen pre + blen form <= n_st nd) rest).
Proof.
  cbv zeta. split; [apply wf_bytes_b; reflexivity|]. split; [reflexivity|].
  split; [vm_compute; reflexivity|]. split; [reflexivity|]. split; [vm_compute; reflexivity|].
  assert (E : find_base64 (L"$_ = '" ++ b64_encode (L"Hello, World!12") ++ L"';") = Ok []) by (vm_compute; reflexivity).
  rewrite E. intros [H | (rest & H & _)]; discriminate H.
Qed.

(* the stop conditions as booleans on the suffixes of the examples below *)
Example rt4_stop_values :
  map b64_stop [L"';"; L"=';"; L"A';"; [10; 65]%N; [13; 65]%N; L"&#10;ABCDEFGH"; [60; 0]%N; []]
  = [true; false; false; false; false; false; false; true] /\
  map hex_stop_lower [L"; y"; L"a; y"; L"ab; y"; L"AB; y"; L"a"; []] = [true; true; false; true; true; true] /\
  map hex_stop_upper [L"; y"; L"A; y"; L"AB; y"; L"ab; y"; L"0"; []] = [true; true; false; true; true; true].
Proof. vm_compute. repeat split; reflexivity. Qed.

(* sixteen payload bytes: 22 alphabet bytes and two pads *)
Example rt4_b64_run16 :
  find_base64 ((L"$_ = '") ++ b64_encode (L"Hello, World!123") ++ (L"';"))
  = Ok [Node [] (L"Hello, World!123") ENC_B64 6 30 []].
Proof. vm_compute. reflexivity. Qed.
Example rt4_b64_run17 :
  find_base64 ((L"$_ = '") ++ b64_encode (L"Hello, World!1234") ++ (L"';"))
  = Ok [Node [] (L"Hello, World!1234") ENC_B64 6 30 []].
Proof. vm_compute. reflexivity. Qed.
(* a second encoding in the suffix *)
Example rt4_b64_run18 :
  find_base64 ((L"$_ = '") ++ b64_encode (L"Hello, World!12345") ++ (L"'; $b = '") ++ b64_encode [200; 201; 202; 203; 204; 205; 206; 207; 208; 209; 210; 211; 212; 213; 214; 215; 216; 217; 218; 219; 220; 221; 222; 223; 224; 225; 226; 227; 228; 229]%N ++ (L"'"))
  = Ok [Node [] (L"Hello, World!12345") ENC_B64 6 30 []; Node [] [200; 201; 202; 203; 204; 205; 206; 207; 208; 209; 210; 211; 212; 213; 214; 215; 216; 217; 218; 219; 220; 221; 222; 223; 224; 225; 226; 227; 228; 229]%N ENC_B64 39 79 []].
Proof. vm_compute. reflexivity. Qed.
Example rt4_b64_bin :
  find_base64 ([0; 1]%N ++ b64_encode [0; 255; 16; 33; 7; 9; 200; 100; 50; 25; 12; 6; 3; 1; 128; 64; 32]%N ++ [0]%N)
  = Ok [Node [] [0; 255; 16; 33; 7; 9; 200; 100; 50; 25; 12; 6; 3; 1; 128; 64; 32]%N ENC_B64 2 26 []].
Proof. vm_compute. reflexivity. Qed.
(* SIDE CONDITION (not in the property text): fewer than 22 alphabet bytes (payloads under 16 bytes) are never found *)
Example rt4_side_b64_short :
  find_base64 ((L"$_ = '") ++ b64_encode (L"Hello, World!12") ++ (L"';"))
  = Ok [].
Proof. vm_compute. reflexivity. Qed.
(* b64_stop: a following = is swallowed, the length test then rejects the text *)
Example rt4_side_b64_stop_eq :
  find_base64 ((L"$_ = '") ++ b64_encode (L"Hello, World!12345") ++ (L"=';"))
  = Ok [].
Proof. vm_compute. reflexivity. Qed.
Example rt4_side_b64_stop_eq2 :
  find_base64 ((L"$_ = '") ++ b64_encode (L"Hello, World!1234") ++ (L"=';"))
  = Ok [].
Proof. vm_compute. reflexivity. Qed.
(* b64_stop: an alphabet byte continues the run *)
Example rt4_side_b64_stop_alpha :
  find_base64 ((L"$_ = '") ++ b64_encode (L"Hello, World!12345") ++ (L"A';"))
  = Ok [].
Proof. vm_compute. reflexivity. Qed.
(* b64_stop: LF, CR, the reference and the marker are separators INSIDE an encoding for the pattern *)
Example rt4_side_b64_stop_lf :
  find_base64 ((L"$_ = '") ++ b64_encode (L"Hello, World!12345") ++ [10; 65; 66; 67; 68; 69; 70]%N)
  = Ok [].
Proof. vm_compute. reflexivity. Qed.
Example rt4_side_b64_stop_cr :
  find_base64 ((L"$_ = '") ++ b64_encode (L"Hello, World!12345") ++ [13; 65; 66; 67; 68; 69; 70; 71; 72]%N)
  = Ok [Node [] [72; 101; 108; 108; 111; 44; 32; 87; 111; 114; 108; 100; 33; 49; 50; 51; 52; 53; 0; 16; 131; 16; 81; 135]%N ENC_B64 6 39 []].
Proof. vm_compute. reflexivity. Qed.
Example rt4_side_b64_stop_amp :
  find_base64 ((L"$_ = '") ++ b64_encode (L"Hello, World!12345") ++ (L"&#10;ABCDEFGH"))
  = Ok [Node [] [72; 101; 108; 108; 111; 44; 32; 87; 111; 114; 108; 100; 33; 49; 50; 51; 52; 53; 0; 16; 131; 16; 81; 135]%N ENC_B64 6 43 []].
Proof. vm_compute. reflexivity. Qed.
Example rt4_side_b64_stop_marker :
  find_base64 ((L"$_ = '") ++ b64_encode (L"Hello, World!12345") ++ [60; 0; 32; 32; 0; 65; 66; 67; 68]%N)
  = Ok [Node [] [72; 101; 108; 108; 111; 44; 32; 87; 111; 114; 108; 100; 33; 49; 50; 51; 52; 53; 0; 16; 131]%N ENC_B64 6 39 []].
Proof. vm_compute. reflexivity. Qed.
(* b64_stop is sufficient, not necessary: a separator that is not followed by alphabet bytes is given back *)
Example rt4_side_b64_stop_not_necessary :
  find_base64 ((L"$_ = '") ++ b64_encode (L"Hello, World!12345") ++ [10; 39; 59]%N)
  = Ok [Node [] (L"Hello, World!12345") ENC_B64 6 30 []].
Proof. vm_compute. reflexivity. Qed.
Example rt4_side_b64_stop_not_necessary2 :
  find_base64 ((L"$_ = '") ++ b64_encode (L"Hello, World!12345") ++ (L"&amp;"))
  = Ok [Node [] (L"Hello, World!12345") ENC_B64 6 30 []].
Proof. vm_compute. reflexivity. Qed.
(* the prefix must be quiet: an alphabet byte in front of the form belongs to the match *)
Example rt4_side_b64_prefix :
  find_base64 ((L"$_ = 'x") ++ b64_encode (L"Hello, World!12345") ++ (L"';"))
  = Ok [].
Proof. vm_compute. reflexivity. Qed.
(* neutrality is sufficient, not necessary *)
Example rt4_side_b64_prefix_ok :
  find_base64 ((L"xyz = '") ++ b64_encode (L"Hello, World!12345") ++ (L"';"))
  = Ok [Node [] (L"Hello, World!12345") ENC_B64 7 31 []].
Proof. vm_compute. reflexivity. Qed.
(* acceptance rules: too few distinct characters *)
Example rt4_side_b64_accept_distinct :
  find_base64 ((L"$_ = '") ++ b64_encode [0; 0; 0; 0; 0; 0; 0; 0; 0; 0; 0; 0; 0; 0; 0; 0; 0; 0]%N ++ (L"';"))
  = Ok [].
Proof. vm_compute. reflexivity. Qed.
(* acceptance rules: all hex digits *)
Example rt4_side_b64_accept_hex :
  find_base64 ((L"$_ = '") ++ b64_encode [211; 93; 183; 227; 158; 187; 243; 214; 155; 113; 215; 159; 211; 93; 183; 227; 158; 187]%N ++ (L"';"))
  = Ok [].
Proof. vm_compute. reflexivity. Qed.
(* acceptance rules: all letters *)
Example rt4_side_b64_accept_camel :
  find_base64 ((L"$_ = '") ++ b64_encode [9; 169; 158; 148; 38; 172; 121; 55; 177; 180; 139; 13; 162; 208; 90; 177; 229; 216]%N ++ (L"';"))
  = Ok [].
Proof. vm_compute. reflexivity. Qed.
(* acceptance rules: more than 3/32 slashes *)
Example rt4_side_b64_accept_slash :
  find_base64 ((L"$_ = '") ++ b64_encode [254; 235; 43; 253; 184; 167; 253; 233; 239; 254; 156; 173; 134; 137; 255; 165; 171; 97]%N ++ (L"';"))
  = Ok [].
Proof. vm_compute. reflexivity. Qed.
(* lower case *)
Example rt4_hex_lower_run :
  find_hex ((L"x = ") ++ hexlify [48; 49; 50; 51; 52; 53; 54; 55; 56; 57; 171; 255; 0]%N ++ (L"; y"))
  = Ok [Node [] [48; 49; 50; 51; 52; 53; 54; 55; 56; 57; 171; 255; 0]%N DEC_HEX 4 30 []].
Proof. vm_compute. reflexivity. Qed.
(* hex_stop_lower: ONE more digit does not extend the match ... *)
Example rt4_hex_lower_one_more :
  find_hex ((L"x = ") ++ hexlify (L"0123456789") ++ (L"a; y"))
  = Ok [Node [] (L"0123456789") DEC_HEX 4 24 []].
Proof. vm_compute. reflexivity. Qed.
(* ... a PAIR does *)
Example rt4_side_hex_lower_pair :
  find_hex ((L"x = ") ++ hexlify (L"0123456789") ++ (L"ab; y"))
  = Ok [Node [] [48; 49; 50; 51; 52; 53; 54; 55; 56; 57; 171]%N DEC_HEX 4 26 []].
Proof. vm_compute. reflexivity. Qed.
(* a pair of the other case does not *)
Example rt4_hex_lower_then_upper :
  find_hex ((L"x = ") ++ hexlify (L"0123456789") ++ (L"AB; y"))
  = Ok [Node [] (L"0123456789") DEC_HEX 4 24 []].
Proof. vm_compute. reflexivity. Qed.
(* nine payload bytes are not found *)
Example rt4_side_hex_short :
  find_hex ((L"x = ") ++ hexlify (L"012345678") ++ (L"; y"))
  = Ok [].
Proof. vm_compute. reflexivity. Qed.
(* upper case, a letter in the tenth pair *)
Example rt4_hex_upper_run :
  find_hex ((L"x = ") ++ upper (hexlify [48; 49; 50; 51; 52; 53; 54; 55; 56; 171; 57]%N) ++ (L"; y"))
  = Ok [Node [] [48; 49; 50; 51; 52; 53; 54; 55; 56; 171; 57]%N DEC_HEX 4 26 []].
Proof. vm_compute. reflexivity. Qed.
Example rt4_hex_upper_one_more :
  find_hex ((L"x = ") ++ upper (hexlify [48; 49; 50; 51; 52; 53; 54; 55; 56; 171; 57]%N) ++ (L"A; y"))
  = Ok [Node [] [48; 49; 50; 51; 52; 53; 54; 55; 56; 171; 57]%N DEC_HEX 4 26 []].
Proof. vm_compute. reflexivity. Qed.
Example rt4_side_hex_upper_pair :
  find_hex ((L"x = ") ++ upper (hexlify [48; 49; 50; 51; 52; 53; 54; 55; 56; 171; 57]%N) ++ (L"AB; y"))
  = Ok [Node [] [48; 49; 50; 51; 52; 53; 54; 55; 56; 171; 57; 171]%N DEC_HEX 4 28 []].
Proof. vm_compute. reflexivity. Qed.
Example rt4_hex_upper_then_lower :
  find_hex ((L"x = ") ++ upper (hexlify [48; 49; 50; 51; 52; 53; 54; 55; 56; 171; 57]%N) ++ (L"ab; y"))
  = Ok [Node [] [48; 49; 50; 51; 52; 53; 54; 55; 56; 171; 57]%N DEC_HEX 4 26 []].
Proof. vm_compute. reflexivity. Qed.
(* F11: ten digit-only pairs first: the lower-case alternative takes them and stops at the letter *)
Example rt4_side_hex_upper_F11 :
  find_hex ((L"x = ") ++ upper (hexlify [48; 49; 50; 51; 52; 53; 54; 55; 56; 57; 171]%N) ++ (L"; y"))
  = Ok [Node [] (L"0123456789") DEC_HEX 4 24 []].
Proof. vm_compute. reflexivity. Qed.
(* the prefix must be quiet: a digit in front of the form shifts the pairs *)
Example rt4_side_hex_prefix :
  find_hex ((L"x = a") ++ hexlify (L"0123456789") ++ (L"; y"))
  = Ok [Node [] [163; 3; 19; 35; 51; 67; 83; 99; 115; 131]%N DEC_HEX 4 24 []].
Proof. vm_compute. reflexivity. Qed.
Example rt4_side_hex_prefix_upper :
  find_hex ((L"x = A") ++ hexlify (L"0123456789") ++ (L"; y"))
  = Ok [Node [] [163; 3; 19; 35; 51; 67; 83; 99; 115; 131]%N DEC_HEX 4 24 []].
Proof. vm_compute. reflexivity. Qed.

(* line-wrapped encodings; the last three show that the hypothesis on the last line is sufficient, not necessary,
   while 22 alphabet bytes in all stay necessary *)
(* six full lines of eight bytes, LF *)
Example rt4_wrap_lf8 :
  find_base64 ((L"$_ = '") ++ (wtext [((L"AwoRGB8m"), [10]%N); ((L"LTQ7QklQ"), [10]%N); ((L"V15lbHN6"), [10]%N); ((L"gYiPlp2k"), [10]%N); ((L"q7K5wMfO"), [10]%N); ((L"1dzj6vH4"), [10]%N)] (L"/wYNFA") ++ (L"==")) ++ (L"';"))
  = Ok [Node [] [3; 10; 17; 24; 31; 38; 45; 52; 59; 66; 73; 80; 87; 94; 101; 108; 115; 122; 129; 136; 143; 150; 157; 164; 171; 178; 185; 192; 199; 206; 213; 220; 227; 234; 241; 248; 255; 6; 13; 20]%N ENC_B64 6 68 []].
Proof. vm_compute. reflexivity. Qed.
(* CR LF and LF mixed *)
Example rt4_wrap_mixed8 :
  find_base64 ((L"$_ = '") ++ (wtext [((L"AwoRGB8m"), [13; 10]%N); ((L"LTQ7QklQ"), [10]%N); ((L"V15lbHN6"), [13; 10]%N); ((L"gYiPlp2k"), [10]%N); ((L"q7K5wMfO"), [13; 10]%N); ((L"1dzj6vH4"), [10]%N)] (L"/wYNFA") ++ (L"==")) ++ (L"';"))
  = Ok [Node [] [3; 10; 17; 24; 31; 38; 45; 52; 59; 66; 73; 80; 87; 94; 101; 108; 115; 122; 129; 136; 143; 150; 157; 164; 171; 178; 185; 192; 199; 206; 213; 220; 227; 234; 241; 248; 255; 6; 13; 20]%N ENC_B64 6 71 []].
Proof. vm_compute. reflexivity. Qed.
(* MIME: three full lines of 76 and a last line of 40 *)
Example rt4_wrap_mime76 :
  find_base64 ([10; 10]%N ++ (wtext [((L"BRAbJjE8R1JdaHN+iZSfqrXAy9bh7PcCDRgjLjlET1plcHuGkZynsr3I097p9P8KFSArNkFMV2Jt"), [13; 10]%N); ((L"eIOOmaSvusXQ2+bx/AcSHSgzPklUX2p1gIuWoay3ws3Y4+75BA8aJTA7RlFcZ3J9iJOeqbS/ytXg"), [13; 10]%N); ((L"6/YBDBciLThDTllkb3qFkJumsbzH0t3o8/4JFB8qNUBLVmFsd4KNmKOuucTP2uXw+wYRHCcyPUhT"), [13; 10]%N)] (L"Xml0f4qVoKu2wczX4u34Aw4ZJC86RVBbZnF8h5I") ++ (L"=")) ++ [13; 10; 45; 45]%N)
  = Ok [Node [] [5; 16; 27; 38; 49; 60; 71; 82; 93; 104; 115; 126; 137; 148; 159; 170; 181; 192; 203; 214; 225; 236; 247; 2; 13; 24; 35; 46; 57; 68; 79; 90; 101; 112; 123; 134; 145; 156; 167; 178; 189; 200; 211; 222; 233; 244; 255; 10; 21; 32; 43; 54; 65; 76; 87; 98; 109; 120; 131; 142; 153; 164; 175; 186; 197; 208; 219; 230; 241; 252; 7; 18; 29; 40; 51; 62; 73; 84; 95; 106; 117; 128; 139; 150; 161; 172; 183; 194; 205; 216; 227; 238; 249; 4; 15; 26; 37; 48; 59; 70; 81; 92; 103; 114; 125; 136; 147; 158; 169; 180; 191; 202; 213; 224; 235; 246; 1; 12; 23; 34; 45; 56; 67; 78; 89; 100; 111; 122; 133; 144; 155; 166; 177; 188; 199; 210; 221; 232; 243; 254; 9; 20; 31; 42; 53; 64; 75; 86; 97; 108; 119; 130; 141; 152; 163; 174; 185; 196; 207; 218; 229; 240; 251; 6; 17; 28; 39; 50; 61; 72; 83; 94; 105; 116; 127; 138; 149; 160; 171; 182; 193; 204; 215; 226; 237; 248; 3; 14; 25; 36; 47; 58; 69; 80; 91; 102; 113; 124; 135; 146]%N ENC_B64 2 276 []].
Proof. vm_compute. reflexivity. Qed.
(* three full lines of 16 and a last line of 6 alphabet bytes: the hypothesis on the last line fails (10 bytes wanted) *)
Example rt4_side_wrap_few_lines :
  find_base64 ((L"$_ = '") ++ (wtext [((L"AwoRGB8mLTQ7QklQ"), [10]%N); ((L"V15lbHN6gYiPlp2k"), [10]%N); ((L"q7K5wMfO1dzj6vH4"), [10]%N)] (L"/wYNFA") ++ (L"==")) ++ (L"';"))
  = Ok [Node [] [3; 10; 17; 24; 31; 38; 45; 52; 59; 66; 73; 80; 87; 94; 101; 108; 115; 122; 129; 136; 143; 150; 157; 164; 171; 178; 185; 192; 199; 206; 213; 220; 227; 234; 241; 248; 255; 6; 13; 20]%N ENC_B64 6 65 []].
Proof. vm_compute. reflexivity. Qed.
(* two lines of twelve *)
Example rt4_side_wrap_two_lines :
  find_base64 ((L"$_ = '") ++ (wtext [((L"SGVsbG8sIFdv"), [10]%N)] (L"cmxkITEyMzQ1") ++ []) ++ (L"';"))
  = Ok [Node [] (L"Hello, World!12345") ENC_B64 6 31 []].
Proof. vm_compute. reflexivity. Qed.
(* two lines of eight: sixteen alphabet bytes *)
Example rt4_side_wrap_two_lines8 :
  find_base64 ((L"$_ = '") ++ (wtext [((L"SGVsbG8s"), [10]%N)] (L"IFdvcmxk") ++ []) ++ (L"';"))
  = Ok [].
Proof. vm_compute. reflexivity. Qed.

(* the acceptance boolean on the accepted and the four rejected encodings above *)
Example rt4_acceptable_values :
  map (fun p => b64_acceptable (b64_encode p))
      [ L"Hello, World!123";
        [0; 0; 0; 0; 0; 0; 0; 0; 0; 0; 0; 0; 0; 0; 0; 0; 0; 0]%N;
        [211; 93; 183; 227; 158; 187; 243; 214; 155; 113; 215; 159; 211; 93; 183; 227; 158; 187]%N;
        [9; 169; 158; 148; 38; 172; 121; 55; 177; 180; 139; 13; 162; 208; 90; 177; 229; 216]%N;
        [254; 235; 43; 253; 184; 167; 253; 233; 239; 254; 156; 173; 134; 137; 255; 165; 171; 97]%N ]
  = [true; false; false; false; false].
Proof. vm_compute. reflexivity. Qed.

Print Assumptions m_rep_cls_fail.
Print Assumptions m_rep_cls_first.
Print Assumptions det_skip.
Print Assumptions rep_fail.
Print Assumptions rep_exact.
Print Assumptions rep_top.
Print Assumptions b64_tail_runs.
Print Assumptions b64_shape_runs.
Print Assumptions last_line.
Print Assumptions wrapped_rep.
Print Assumptions b64_wrapped_runs.
Print Assumptions fi_neutral.
Print Assumptions base64_runs.
Print Assumptions b64_clean_id.
Print Assumptions find_base64_roundtrip_quiet.
Print Assumptions find_base64_roundtrip.
Print Assumptions blocked_pair.
Print Assumptions blocked_rep_pairs.
Print Assumptions runs_hex_form.
Print Assumptions hex_lower_runs.
Print Assumptions hex_upper_runs.
Print Assumptions unhexlify_upper.
Print Assumptions hex_form_roundtrip.
Print Assumptions find_hex_roundtrip_lower_quiet.
Print Assumptions find_hex_roundtrip_lower.
Print Assumptions find_hex_roundtrip_upper_quiet.
Print Assumptions find_hex_roundtrip_upper.
Print Assumptions base64_wrapped_runs.
Print Assumptions b64_clean_wrapped.
Print Assumptions find_base64_roundtrip_wrapped_quiet.
Print Assumptions find_base64_roundtrip_wrapped.
Print Assumptions rt4_F11_counterexample.
Print Assumptions rt4_b64_min_length_counterexample.
Print Assumptions rt4_wrap_apply.
