(* END-TO-END round trips  instance -> find  for DOMAINS, CreateObject calls, POSIX PATHS (property C11) and for
   caret-escaped cmd command lines (C16 / the caret layer of C02), INCLUDING span selection by the model's own
   backtracking matcher (Regex/Backtrack.v) on the regenerated regex terms (Generated/Regexes.v, referred to by
   name only; the terms are unfolded by the proof scripts, never copied).
   Continuation of Proofs/RoundTrip.v, RoundTrip2.v, RoundTrip3.v (same conclusion shape, same fuel discipline).

   find_createobject  (section 2):  name( arg )  with balanced parentheses in arg, ANY suffix
   find_path          (section 3):  [.][.]/ seg / ... / seg / file
   find_domains       (section 4):  label . label . ... . tld   outside the false-positive shapes
   find_cmd_strings   (section 5):  cmd <space> args   up to the end of the text, a NUL or the first unbalanced
                                    closing parenthesis; the value is the caret-unescaped text

   Section 1 extends the matcher calculus: an attempt whose first byte is outside the FIRST set fails also when the
   pattern tests assertions before it consumes a byte ([m_blocked_a]; the cmd pattern starts with an optional literal
   followed by a word boundary), finditer with a quiet GAP after the form ([fi_formB_gap]; the CreateObject node is
   longer than the regex match), and the quiet criterion "no dot in the prefix" for the domain pattern.

   Side conditions the statements need (each has an Example in section 6 where the conclusion fails without it, with
   the value /venv/bin/python computes on the same bytes) are listed at the head of each section. *)
From Coq Require Import List ZArith NArith Bool Lia Arith.
From MD Require Import Lib.Base Model.Node Regex.Syntax Regex.DerivProofs Regex.MonitorProofs
  Regex.Backtrack Regex.BacktrackProofs Regex.LocalityProofs Generated.Regexes Model.Dec.ReLib.
From MD Require Import Model.Dec.Ip Model.Dec.Network Model.Dec.PathDec Model.Dec.StrOps Model.Dec.Carets
  Model.Dec.Shell Generated.Tables.
From MD Require Proofs.Base64Proofs.
From MD Require Import Proofs.BaseProofs Proofs.CaretsProofs Proofs.StrOpsProofs Proofs.ShellProofs
  Proofs.NetworkProofs Proofs.PathDecProofs Proofs.Shapes1 Proofs.Shapes2 Proofs.DefaultTotal
  Proofs.RoundTrip Proofs.RoundTrip2 Proofs.RoundTrip3.
Import ListNotations.
Open Scope Z_scope.

(* ------------------------------------------------------------------ *)
(* 1.  Matcher calculus: additions                                       *)
(* ------------------------------------------------------------------ *)
(* ---- 1a. FIRST sets for patterns that test assertions before the first byte ---- *)
Fixpoint front_ok_a (r : re) : bool :=
  match r with
  | Emp | Eps | Cls _ => true
  | Seq a b => front_ok_a a && (if nullable a then front_ok_a b else true)
  | Alt a b => front_ok_a a && front_ok_a b
  | Rep _ _ a => front_ok_a a && negb (nullable a)
  | Grp _ a => front_ok_a a
  | NLook _ _ | WordB | Bol | Eol => is_assert r
  end.

Definition startable_a (r : re) : bool := front_ok_a r && negb (nullable r).

(* one unit of fuel more than [spine]: an assertion over a class needs two units *)
Theorem m_blocked_a : forall f r p c k,
  front_ok_a r = true -> hd_out (first_cls r) (p_after p) -> (S (spine r) <= f)%nat ->
  (nullable r = true -> forall c', k p c' = NoMatch) ->
  m f r p c k = NoMatch.
Proof.
  induction f as [|f IH]; intros r p c k Hf Hh Hs Hk; [lia|].
  assert (AS : is_assert r = true -> nullable r = true -> m (S f) r p c k = NoMatch).
  { intros Ha Hn. destruct (m_assert (S f) r p c k Ha) as [E | E].
    - pose proof (spine_pos r). lia.
    - exact E.
    - rewrite E. apply Hk. exact Hn. }
  destruct r as [| |mk|a b|a b|lo hi a|g a|bh a| | |];
    cbn [front_ok_a first_cls spine nullable] in Hf, Hh, Hs, Hk;
    try (apply AS; [exact Hf | reflexivity]).
  - destruct f; [lia|]. reflexivity.
  - destruct f; [lia|]. cbn [m]. apply Hk. reflexivity.
  - destruct f; [lia|]. cbn [m]. unfold adv. destruct (p_after p) as [|b l]; [reflexivity|].
    cbn [hd_out] in Hh. rewrite Hh. reflexivity.
  - (* Seq *)
    cbn [m]. apply andb_true_iff in Hf. destruct Hf as [Hfa Hfb]. destruct (nullable a) eqn:Na.
    + apply IH; [exact Hfa | apply (hd_out_lor_l _ _ _ Hh) | lia |].
      intros _ c'. apply IH; [exact Hfb | apply (hd_out_lor_r _ _ _ Hh) | lia | exact Hk].
    + apply IH; [exact Hfa | exact Hh | lia | intros E; congruence].
  - (* Alt *)
    cbn [m]. apply andb_true_iff in Hf. destruct Hf as [Hfa Hfb].
    rewrite (IH a p c k Hfa (hd_out_lor_l _ _ _ Hh) ltac:(lia)).
    + apply IH; [exact Hfb | apply (hd_out_lor_r _ _ _ Hh) | lia |].
      intros E. apply Hk. rewrite E. apply orb_true_r.
    + intros E. apply Hk. rewrite E. reflexivity.
  - (* Rep *)
    cbn [m]. apply andb_true_iff in Hf. destruct Hf as [Hfa Hna]. apply negb_true_iff in Hna.
    assert (Again : forall K, m f a p c K = NoMatch).
    { intros K. apply IH; [exact Hfa | exact Hh | lia | intros E; congruence]. }
    destruct hi as [[|h]|].
    + destruct lo as [|lo]; [apply Hk; reflexivity | reflexivity].
    + rewrite Again. destruct lo as [|lo]; [apply Hk; reflexivity | reflexivity].
    + rewrite Again. destruct lo as [|lo]; [apply Hk; reflexivity | reflexivity].
  - (* Grp *)
    cbn [m]. apply IH; [exact Hf | exact Hh | lia |]. intros E c'. apply Hk. exact E.
Qed.

Lemma blocked_first_a r x : startable_a r = true -> hd_out (first_cls r) x -> blocked (S (spine r)) r x.
Proof.
  intros Hs Hh f p c k Hp Hf. unfold startable_a in Hs. apply andb_true_iff in Hs. destruct Hs as [H1 H2].
  apply negb_true_iff in H2. apply m_blocked_a; [exact H1 | rewrite Hp; exact Hh | exact Hf | intros E; congruence].
Qed.

Lemma quiet_no_first_a_gen fuel r : startable_a r = true -> (S (spine r) <= fuel)%nat ->
  forall pre body p, p_after p = pre ++ body -> neutral r pre = true -> quiet fuel r (List.length pre) p.
Proof.
  intros Hs Hf. induction pre as [|b pre IH]; intros body p Hp Hn; [exact I|].
  apply neutral_cons in Hn. destruct Hn as [Hb Hn]. cbn [List.length quiet]. split.
  - unfold match_here. apply (blocked_first_a r (p_after p) Hs); [rewrite Hp; exact Hb | reflexivity | exact Hf].
  - unfold adv. rewrite Hp. cbn [app]. apply (IH body); [reflexivity | exact Hn].
Qed.

(* no attempt succeeds inside a prefix none of whose bytes is in the FIRST set, assertions or not *)
Theorem quiet_no_first_a r pre body :
  startable_a r = true -> (S (spine r) <= default_fuel)%nat -> neutral r pre = true ->
  quiet default_fuel r (List.length pre) (start_pos (pre ++ body)).
Proof. intros Hs Hf Hn. apply (quiet_no_first_a_gen _ _ Hs Hf pre body); [reflexivity | exact Hn]. Qed.

(* ---- 1b. runsB: alternatives, a skipped optional part ---- *)
Lemma runsB_alt_r B na nb a b w x cf :
  blocked na a (w ++ x) -> runsB B nb b w x cf -> runsB B (S (Nat.max na nb)) (Alt a b) w x cf.
Proof.
  intros Ha Hb f p c k Hp HB Hf Hk. destruct f as [|f]; [lia|]. cbn [m].
  rewrite (Ha f p c k Hp ltac:(lia)). apply Hb; [exact Hp | exact HB | lia | exact Hk].
Qed.

Lemma blocked_grp n g a x : blocked n a x -> blocked (S n) (Grp g a) x.
Proof. intros Ha f p c k Hp Hf. destruct f as [|f]; [lia|]. cbn [m]. apply Ha; [exact Hp | lia]. Qed.

(* ---- 1c. finditer with a quiet gap after the form ---- *)
Theorem fi_formB_gap B r ng pre form gap suf n cf :
  quiet default_fuel r (List.length pre) (start_pos (pre ++ form ++ gap ++ suf)) ->
  runsB B n r form (gap ++ suf) cf -> B (rev pre) -> (n <= default_fuel)%nat -> form <> [] ->
  (forall p, p_after p = gap ++ suf -> quiet default_fuel r (List.length gap) p) ->
  fi r ng (pre ++ form ++ gap ++ suf) = Hang \/
  exists rest, fi r ng (pre ++ form ++ gap ++ suf)
               = Ok (mk_mtch ng (blen pre) (blen pre + blen form) (cf (blen pre) []) :: rest) /\
               Forall (fun mt => blen pre + blen form + blen gap <= m_start mt 0) rest.
Proof.
  intros Hq Hr HB Hn Hne Hgap. unfold fi, finditer.
  set (data := pre ++ form ++ gap ++ suf) in *.
  rewrite (finditer_pos_quiet default_fuel r ng _ (List.length pre) (start_pos data));
    [| cbn [start_pos p_after]; unfold data; rewrite app_length; lia | exact Hq].
  pose proof (start_pos_ok data) as Hp0.
  destruct (seek_ok _ (List.length pre) _ Hp0) as (Hp & _ & _).
  destruct (seek_ok _ (List.length form) _ Hp) as (He & _ & _).
  destruct (seek_ok _ (List.length gap) _ He) as (Hg & _ & _).
  unfold data in Hp, He, Hg |- *. rewrite seek_start_pos in Hp, He, Hg |- *.
  set (p := pos_at pre (form ++ gap ++ suf)) in *.
  set (e := seek (List.length form) p) in *.
  assert (Hpa : p_after p = form ++ gap ++ suf) by reflexivity.
  assert (Hpi : p_i p = blen pre) by reflexivity.
  destruct (seek_word form p (gap ++ suf) 0 Hpa) as (_ & S2 & S3). fold e in S2, S3.
  destruct (seek_word gap e suf 0 S2) as (_ & _ & S5).
  assert (HM : match_here default_fuel r p = Found e (cf (p_i p) [])).
  { apply (match_here_formB B n r form (gap ++ suf) cf default_fuel p Hr Hpa HB Hn). }
  cbn [finditer_pos]. rewrite (search_pos_here _ _ _ _ _ _ HM).
  assert (Hlen : 0 < Z.of_nat (List.length form)) by (destruct form; [congruence | cbn [List.length]; lia]).
  replace (p_i e =? p_i p) with false by (symmetry; apply Z.eqb_neq; lia).
  rewrite (finditer_pos_quiet default_fuel r ng _ (List.length gap) e);
    [| rewrite S2, app_length; lia | apply Hgap; exact S2].
  destruct (finditer_pos default_fuel r ng (List.length (pre ++ form ++ gap ++ suf)) (seek (List.length gap) e))
    as [rest|] eqn:ER; [right | left; reflexivity].
  exists rest. split.
  - rewrite S3, Hpi. unfold blen. reflexivity.
  - destruct (finditer_pos_sound _ _ _ _ _ _ _ Hg ER) as (F1 & _ & F3).
    rewrite Forall_forall in F1, F3. apply Forall_forall. intros mt Hin.
    rewrite (mtch_ok_m_start _ _ _ _ (F1 mt Hin)). specialize (F3 mt Hin). cbv beta in F3.
    rewrite S5, S3, Hpi in F3. unfold blen. exact F3.
Qed.

(* ------------------------------------------------------------------ *)
(* 2.  find_createobject:  name( arg )  with balanced parentheses        *)
(* ------------------------------------------------------------------ *)
(* Side conditions: none on the suffix.  The OTHER nodes start after the opening parenthesis, not after the
   form: a nested call inside the argument is reported as well (rt5_co_nested); when the argument contains
   no byte that can start the name they start after the form (find_createobject_roundtrip_neutral). *)

(* arg is balanced and none of its prefixes closes more than it opens; k = parentheses open before arg *)
Fixpoint bal_ok (l : bytes) (k : Z) : bool :=
  match l with
  | [] => k =? 0
  | c :: t => let k' := k + brace_delta 40 41 c in (0 <=? k') && bal_ok t k'
  end.
Definition paren_balanced (arg : bytes) : bool := bal_ok arg 0.

(* the specification vocabulary of StrOpsProofs (get_closing_brace_spec) implies the boolean *)
Lemma bal_ok_of_spec : forall arg k,
  (forall a b, arg = a ++ b -> 0 <= k + brace_bal 40 41 a) -> k + brace_bal 40 41 arg = 0 -> bal_ok arg k = true.
Proof.
  induction arg as [|c t IH]; intros k Hpre Hz; cbn [bal_ok].
  - cbn [brace_bal] in Hz. apply Z.eqb_eq. lia.
  - cbn [brace_bal] in Hz. apply andb_true_iff. split.
    + apply Z.leb_le. specialize (Hpre [c] t eq_refl). cbn [brace_bal] in Hpre. lia.
    + apply IH; [|lia]. intros a b E. specialize (Hpre (c :: a) b ltac:(rewrite E; reflexivity)).
      cbn [brace_bal] in Hpre. lia.
Qed.

Lemma gcb_scan_zero op cl suf i : gcb_scan op cl suf i 0 = i.
Proof. destruct suf; reflexivity. Qed.

(* the scan of get_closing_brace stops just after the parenthesis that closes a balanced argument *)
Lemma gcb_scan_balanced suf : forall arg i k, 0 <= k -> bal_ok arg k = true ->
  gcb_scan 40 41 (arg ++ 41%N :: suf) i (k + 1) = i + blen arg + 1.
Proof.
  induction arg as [|c t IH]; intros i k Hk Hb; cbn [bal_ok] in Hb.
  - apply Z.eqb_eq in Hb. subst k. cbn [app gcb_scan]. change (0 + 1 =? 0) with false. cbv iota.
    change (0 + 1 + brace_delta 40 41 41) with 0. rewrite gcb_scan_zero. unfold blen. cbn [List.length]. lia.
  - apply andb_true_iff in Hb. destruct Hb as [H1 H2]. apply Z.leb_le in H1. cbn [app gcb_scan].
    replace (k + 1 =? 0) with false by (symmetry; apply Z.eqb_neq; lia).
    replace (k + 1 + brace_delta 40 41 c) with (k + brace_delta 40 41 c + 1) by lia.
    rewrite (IH (i + 1) _ H1 H2). unfold blen. cbn [List.length]. lia.
Qed.

Lemma createobject_runs nm suf :
  lower nm = L"createobject(" -> runs 40 RE_vba_CREATE_OBJECT_RE nm suf cf_id.
Proof.
  intros Hnm.
  change (L"createobject(") with [99; 114; 101; 97; 116; 101; 111; 98; 106; 101; 99; 116; 40]%N in Hnm.
  split_name Hnm. unfold RE_vba_CREATE_OBJECT_RE.
  eapply runs_ext;
    [| eapply runs_mono;
       [ step_lits; eapply runs_cls; eapply testbit_lower; [eassumption | vm_compute; reflexivity | vm_compute; reflexivity]
       | lia ] ].
  intros i c. reflexivity.
Qed.

Lemma createobject_post_starts data lo : forall ms out,
  Forall (fun mt => lo <= m_start mt 0) ms -> find_createobject_post data ms = Ok out ->
  Forall (fun nd => lo <= n_st nd) out.
Proof.
  induction ms as [|mt ms IH]; intros out HF H; cbn [find_createobject_post] in H.
  - injection H as <-. constructor.
  - inversion HF as [|? ? Hm HF']; subst.
    destruct (get_closing_brace data (m_end mt 0) 40) as [idx| |]; cbn [bind] in H; try discriminate H.
    destruct (find_createobject_post data ms) as [out'| |]; cbn [bind] in H; try discriminate H.
    injection H as <-. destruct (0 <? idx); [constructor; [exact Hm|] |]; apply IH; try exact HF'; reflexivity.
Qed.

Lemma skipn_app_exact {A} (a b : list A) : skipn (List.length a) (a ++ b) = b.
Proof. rewrite skipn_app, skipn_all, Nat.sub_diag. reflexivity. Qed.

(* the common part: lo is where the other matches start *)
Lemma createobject_post_form pre nm arg suf rest lo :
  lower nm = L"createobject(" -> paren_balanced arg = true ->
  let form := nm ++ arg ++ [41%N] in
  let data := pre ++ form ++ suf in
  fi RE_vba_CREATE_OBJECT_RE NG_vba_CREATE_OBJECT_RE data
  = Ok (mk_mtch NG_vba_CREATE_OBJECT_RE (blen pre) (blen pre + blen nm) (cf_id (blen pre) []) :: rest) ->
  Forall (fun mt => lo <= m_start mt 0) rest ->
  find_createobject data = Hang \/
  exists out, find_createobject data
              = Ok (Node (L"vba.function.createobject") form [] (blen pre) (blen pre + blen form) [] :: out) /\
              Forall (fun nd => lo <= n_st nd) out.
Proof.
  intros Hnm Hbal form data Hfi Hrest.
  set (s := blen pre) in *. set (e := s + blen nm) in *.
  change (mk_mtch NG_vba_CREATE_OBJECT_RE s e (cf_id s [])) with ([Some (s, e)] : mtch) in Hfi.
  set (mt := ([Some (s, e)] : mtch)) in *.
  assert (Hs0 : 0 <= s) by apply blen_nonneg. assert (Hn0 : 0 <= blen nm) by apply blen_nonneg.
  assert (Eidx : get_closing_brace data (m_end mt 0) 40 = Ok (s + blen form)).
  { change (m_end mt 0) with e. rewrite (get_closing_brace_scan data e 40 41 eq_refl) by lia. f_equal.
    replace data with ((pre ++ nm) ++ arg ++ 41%N :: suf)
      by (unfold data, form; rewrite <- !app_assoc; reflexivity).
    replace (Z.to_nat e) with (List.length (pre ++ nm))
      by (unfold e, s, blen; rewrite app_length; lia).
    rewrite skipn_app_exact. change 1 with (0 + 1) at 1. rewrite (gcb_scan_balanced suf arg e 0 ltac:(lia) Hbal).
    unfold form, e. rewrite !Base64Proofs.blen_app. change (blen [41%N]) with 1. lia. }
  assert (Eval : slice data s (s + blen form) = form) by (unfold s, data; apply slice_mid).
  assert (Epos : (0 <? s + blen form) = true).
  { apply Z.ltb_lt. unfold form. rewrite !Base64Proofs.blen_app. change (blen [41%N]) with 1.
    pose proof (blen_nonneg arg). lia. }
  assert (Epost : find_createobject_post data (mt :: rest)
                  = do out <- find_createobject_post data rest;
                    Ok (Node (L"vba.function.createobject") form [] s (s + blen form) [] :: out)).
  { cbn [find_createobject_post]. rewrite Eidx. cbn [bind]. rewrite Epos. change (m_start mt 0) with s.
    rewrite Eval. reflexivity. }
  destruct (find_createobject_ok data) as [HT | (hs & HT & _)];
    unfold find_createobject in HT |- *; rewrite Hfi in HT |- *; cbn [bind] in HT |- *; rewrite Epost in HT |- *;
    destruct (find_createobject_post data rest) as [out|ex|] eqn:ER; cbn [bind] in HT |- *; try discriminate HT;
    try (left; reflexivity).
  right. exists out. split; [reflexivity|]. apply (createobject_post_starts data lo rest out Hrest ER).
Qed.

(* ---- the round trip: any letter case of the name (the pattern has the flag i), any balanced argument, ANY suffix ---- *)
Theorem find_createobject_roundtrip_quiet nm pre arg suf :
  lower nm = L"createobject(" -> paren_balanced arg = true ->
  let form := nm ++ arg ++ [41%N] in
  let data := pre ++ form ++ suf in
  quiet default_fuel RE_vba_CREATE_OBJECT_RE (List.length pre) (start_pos data) ->
  find_createobject data = Hang \/
  exists rest, find_createobject data
               = Ok (Node (L"vba.function.createobject") form [] (blen pre) (blen pre + blen form) [] :: rest) /\
               Forall (fun nd => blen pre + blen nm <= n_st nd) rest.
Proof.
  intros Hnm Hbal form data Hq.
  assert (Ed : data = pre ++ nm ++ (arg ++ [41%N] ++ suf)).
  { unfold data, form. rewrite <- !app_assoc. reflexivity. }
  assert (Hne : nm <> []) by (apply (lower_nonempty nm _ Hnm); discriminate).
  rewrite Ed in Hq.
  destruct (fi_form RE_vba_CREATE_OBJECT_RE NG_vba_CREATE_OBJECT_RE pre nm (arg ++ [41%N] ++ suf) 40 cf_id Hq
              (createobject_runs nm _ Hnm) ltac:(apply (Nat.le_trans _ 1000); [lia | exact fuel_1000]) Hne)
    as [H | (rest & Hfi & Hrest)].
  { left. unfold find_createobject. rewrite Ed, H. reflexivity. }
  rewrite <- Ed in Hfi.
  apply (createobject_post_form pre nm arg suf rest _ Hnm Hbal Hfi Hrest).
Qed.

Theorem find_createobject_roundtrip nm pre arg suf :
  lower nm = L"createobject(" -> paren_balanced arg = true ->
  neutral RE_vba_CREATE_OBJECT_RE pre = true ->
  let form := nm ++ arg ++ [41%N] in
  let data := pre ++ form ++ suf in
  find_createobject data = Hang \/
  exists rest, find_createobject data
               = Ok (Node (L"vba.function.createobject") form [] (blen pre) (blen pre + blen form) [] :: rest) /\
               Forall (fun nd => blen pre + blen nm <= n_st nd) rest.
Proof.
  intros Hnm Hbal Hn form data.
  apply find_createobject_roundtrip_quiet; try assumption.
  apply quiet_no_first; [vm_compute; reflexivity | spine_goal | exact Hn].
Qed.

(* when the argument contains no byte that can start the name, every other node starts after the form *)
Theorem find_createobject_roundtrip_neutral nm pre arg suf :
  lower nm = L"createobject(" -> paren_balanced arg = true ->
  neutral RE_vba_CREATE_OBJECT_RE pre = true -> neutral RE_vba_CREATE_OBJECT_RE arg = true ->
  let form := nm ++ arg ++ [41%N] in
  let data := pre ++ form ++ suf in
  find_createobject data = Hang \/
  exists rest, find_createobject data
               = Ok (Node (L"vba.function.createobject") form [] (blen pre) (blen pre + blen form) [] :: rest) /\
               Forall (fun nd => blen pre + blen form <= n_st nd) rest.
Proof.
  intros Hnm Hbal Hn Ha form data.
  assert (Ed : data = pre ++ nm ++ (arg ++ [41%N]) ++ suf).
  { unfold data, form. rewrite <- !app_assoc. reflexivity. }
  assert (Hne : nm <> []) by (apply (lower_nonempty nm _ Hnm); discriminate).
  assert (Hsp : (spine RE_vba_CREATE_OBJECT_RE <= default_fuel)%nat) by spine_goal.
  assert (Hst : startable RE_vba_CREATE_OBJECT_RE = true) by (vm_compute; reflexivity).
  assert (Hq : quiet default_fuel RE_vba_CREATE_OBJECT_RE (List.length pre)
                 (start_pos (pre ++ nm ++ (arg ++ [41%N]) ++ suf))).
  { apply quiet_no_first; assumption. }
  destruct (fi_formB_gap anyB RE_vba_CREATE_OBJECT_RE NG_vba_CREATE_OBJECT_RE pre nm (arg ++ [41%N]) suf 40 cf_id Hq
              (runsB_of_runs anyB _ _ _ _ _ (createobject_runs nm _ Hnm)) I
              ltac:(apply (Nat.le_trans _ 1000); [lia | exact fuel_1000]) Hne)
    as [H | (rest & Hfi & Hrest)].
  { intros p Hp. apply (quiet_no_first_gen _ _ Hst Hsp (arg ++ [41%N]) suf p Hp).
    rewrite neutral_app, Ha. vm_compute. reflexivity. }
  { left. unfold find_createobject. rewrite Ed, H. reflexivity. }
  rewrite <- Ed in Hfi.
  assert (Hrest' : Forall (fun mt => blen pre + blen form <= m_start mt 0) rest).
  { eapply Forall_impl; [|exact Hrest]. intros mt. unfold form. rewrite !Base64Proofs.blen_app. lia. }
  apply (createobject_post_form pre nm arg suf rest _ Hnm Hbal Hfi Hrest').
Qed.

(* ------------------------------------------------------------------ *)
(* 3.  find_path:  [.][.]/ seg / ... / seg / file                         *)
(* ------------------------------------------------------------------ *)
(* Side conditions: every directory segment has at least three word bytes, the file part at least three bytes
   (word bytes and dots); the prefix contains neither a dot nor a slash (a dot or slash just before would be taken into
   the match or hide it); the byte after is not a word byte, a dot or a slash (a word byte or dot extends the file
   part; a slash after an all-word file part makes it one more segment: sufficient, not necessary). *)
Fixpoint span_p (P : N -> bool) (l : bytes) : bytes * bytes :=
  match l with
  | [] => ([], [])
  | c :: t => if P c then (c :: fst (span_p P t), snd (span_p P t)) else ([], l)
  end.

Lemma span_p_spec P l :
  l = fst (span_p P l) ++ snd (span_p P l) /\ forallb P (fst (span_p P l)) = true /\
  match snd (span_p P l) with [] => True | c :: _ => P c = false end.
Proof.
  induction l as [|c t (IH1 & IH2 & IH3)]; cbn [span_p]; [repeat split|].
  destruct (P c) eqn:E; cbn [fst snd app forallb].
  - rewrite E, IH2. repeat split; [f_equal; exact IH1 | exact IH3].
  - repeat split. exact E.
Qed.

Definition path_dots (d : bytes) : bool := beqb d [] || beqb d [46%N] || beqb d [46%N; 46%N].
Definition seg_ok (s : bytes) : bool := forallb is_word s && (3 <=? List.length s)%nat.
Definition fname_byte (c : N) : bool := is_word c || (c =? 46)%N.
Definition fname_ok (f : bytes) : bool := forallb fname_byte f && (3 <=? List.length f)%nat.
Definition path_stop_byte (b : N) : bool := negb (is_word b || (b =? 46)%N || (b =? 47)%N).
Definition path_stop (suf : bytes) : bool := match suf with [] => true | b :: _ => path_stop_byte b end.
Definition path_body (segs : list bytes) (fname : bytes) : bytes :=
  concat (map (fun s => s ++ [47%N]) segs) ++ fname.
Definition path_form (dots : bytes) (segs : list bytes) (fname : bytes) : bytes :=
  dots ++ 47%N :: path_body segs fname.

(* what may follow the word run of the file part: a dot of the file part, or the byte after the path *)
Definition seg_end_byte (b : N) : bool := negb (is_word b) && negb (b =? 47)%N.

Lemma fname_byte_lt c : fname_byte c = true -> (c < 256)%N.
Proof.
  unfold fname_byte. intros H. apply orb_true_iff in H. destruct H as [H|H]; [apply is_word_lt; exact H|].
  apply N.eqb_eq in H. subst c. reflexivity.
Qed.

Definition PATH_CORE_RE : re := seq_r (seq_r RE_path_PATH_RE).
Definition PATH_SEG_RE : re := rep_body (seq_l (seq_r PATH_CORE_RE)).

(* one more directory segment cannot be read off the file part *)
Lemma path_seg_blocked fname suf :
  forallb fname_byte fname = true -> path_stop suf = true ->
  blocked (List.length fname + 6) PATH_SEG_RE (fname ++ suf).
Proof.
  intros HF Hstop.
  destruct (span_p_spec is_word fname) as (E & Hu & Hv).
  set (u := fst (span_p is_word fname)) in *. set (v := snd (span_p is_word fname)) in *.
  assert (Hx : match v ++ suf with [] => True | b :: _ => seg_end_byte b = true end).
  { destruct v as [|c v'].
    - destruct suf as [|b suf]; [exact I|]. cbn [app]. cbn [path_stop] in Hstop. unfold path_stop_byte in Hstop.
      apply negb_true_iff in Hstop. apply orb_false_iff in Hstop. destruct Hstop as [Hstop H47].
      apply orb_false_iff in Hstop. destruct Hstop as [Hw _]. unfold seg_end_byte. rewrite Hw, H47. reflexivity.
    - cbn [app]. rewrite E, forallb_app in HF. apply andb_true_iff in HF. destruct HF as [_ HF].
      cbn [forallb] in HF. apply andb_true_iff in HF. destruct HF as [Hc _]. unfold fname_byte in Hc.
      rewrite Hv in Hc. cbn [orb] in Hc. apply N.eqb_eq in Hc. subst c. reflexivity. }
  assert (Hlen : (List.length u <= List.length fname)%nat) by (pose proof (f_equal (@List.length N) E) as EL; rewrite app_length in EL; lia).
  apply (blocked_mono (S (List.length u + 5))); [|lia].
  rewrite E, <- app_assoc. unfold PATH_SEG_RE, PATH_CORE_RE, RE_path_PATH_RE. cbn [seq_l seq_r rep_body].
  apply blocked_grp; apply blocked_run_sep.
  - rewrite forallb_forall in Hu |- *. intros c Hc. apply negb_true_iff.
    eapply (hd_out_mask_ok _ (fun c => negb (is_word c))); [vm_compute; reflexivity | vm_compute; reflexivity|].
    rewrite (Hu c Hc). reflexivity.
  - eapply (hd_out_of_pred _ seg_end_byte); [vm_compute; reflexivity | vm_compute; reflexivity | exact Hx].
  - eapply (hd_out_of_pred _ seg_end_byte); [vm_compute; reflexivity | vm_compute; reflexivity | exact Hx].
Qed.

Lemma seg_ok_parts s : seg_ok s = true -> forallb is_word s = true /\ (3 <= List.length s)%nat.
Proof.
  unfold seg_ok. intros H. apply andb_true_iff in H. destruct H as [H1 H2]. apply Nat.leb_le in H2. split; assumption.
Qed.

(* a directory segment followed by its slash *)
Lemma path_seg_runs s : seg_ok s = true ->
  exists cf, forall x', runs (List.length s + 6) PATH_SEG_RE (s ++ [47%N]) x' cf.
Proof.
  intros Hs. destruct (seg_ok_parts s Hs) as [Hw H3].
  unfold PATH_SEG_RE, PATH_CORE_RE, RE_path_PATH_RE. cbn [seq_l seq_r rep_body].
  eexists. intros x'.
  eapply runs_mono;
    [ eapply runs_grp; eapply (runs_seq _ _ _ _ s [47%N] x');
      [ apply runs_rep_cls;
        [ apply (Forall_of_pred _ is_word); [exact is_word_lt | vm_compute; reflexivity | exact Hw]
        | cbn [app hd_out]; vm_compute; reflexivity
        | exact H3 ]
      | apply runs_cls; vm_compute; reflexivity ]
    | lia ].
Qed.

Lemma path_body_length segs fname : (List.length segs <= List.length (path_body segs fname))%nat.
Proof.
  unfold path_body. rewrite app_length. induction segs as [|s segs IH]; [cbn; lia|].
  cbn [map concat]. rewrite !app_length. cbn [List.length] in *. lia.
Qed.

(* slash, the segments, the file part *)
Lemma path_core_runs segs fname suf :
  segs <> [] -> forallb seg_ok segs = true -> fname_ok fname = true -> path_stop suf = true ->
  exists cf, runs (2 * List.length (path_body segs fname) + 30) PATH_CORE_RE (47%N :: path_body segs fname) suf cf.
Proof.
  intros Hne Hsegs Hf Hstop.
  unfold fname_ok in Hf. apply andb_true_iff in Hf. destruct Hf as [Hfb Hf3]. apply Nat.leb_le in Hf3.
  assert (Hs : match suf with [] => True | b :: _ => path_stop_byte b = true end) by (destruct suf; [exact I | exact Hstop]).
  pose proof (path_seg_blocked fname suf Hfb Hstop) as Hbl.
  set (chunks := map (fun s => s ++ [47%N]) segs).
  destruct (runs_rep_chunks_ex (List.length (concat chunks) + 6) _ PATH_SEG_RE (fname ++ suf) Hbl chunks 1) as [cf1 H1].
  { apply Forall_forall. intros w Hw. apply in_map_iff in Hw. destruct Hw as (s & <- & Hin).
    split; [destruct s; discriminate|].
    rewrite forallb_forall in Hsegs. destruct (path_seg_runs s (Hsegs s Hin)) as [cf Hcf]. exists cf. intros x'.
    eapply runs_mono; [apply Hcf|].
    assert (Hi : In (s ++ [47%N]) chunks) by (exact (in_map (fun s => s ++ [47%N]) segs s Hin)).
    apply in_concat_length in Hi. rewrite app_length in Hi. lia. }
  { unfold chunks. rewrite map_length. destruct segs; [congruence | cbn [List.length]; lia]. }
  pose proof (path_body_length segs fname) as HL.
  assert (HL2 : List.length (path_body segs fname) = (List.length (concat chunks) + List.length fname)%nat)
    by (unfold path_body; rewrite app_length; reflexivity).
  assert (EC : seq_r (seq_r RE_path_PATH_RE) = PATH_CORE_RE) by reflexivity.
  assert (ES : rep_body (seq_l (seq_r (seq_r (seq_r RE_path_PATH_RE)))) = PATH_SEG_RE) by reflexivity.
  unfold PATH_CORE_RE. unfold RE_path_PATH_RE in ES |- *. cbn [seq_l seq_r rep_body] in ES |- *. rewrite ES.
  eexists. unfold path_body. fold chunks.
  eapply runs_mono;
    [ eapply runs_seq_cls; [vm_compute; reflexivity|];
      eapply (runs_seq _ _ _ _ (concat chunks) fname suf);
      [ exact H1
      | apply runs_rep_cls;
        [ apply (Forall_of_pred _ fname_byte); [exact fname_byte_lt | vm_compute; reflexivity | exact Hfb]
        | eapply (hd_out_of_pred _ path_stop_byte); [vm_compute; reflexivity | vm_compute; reflexivity | exact Hs]
        | exact Hf3 ] ]
    | assert (Hcl : List.length chunks = List.length segs) by (unfold chunks; apply map_length);
      rewrite app_length; rewrite HL2 in HL; lia ].
Qed.

(* the whole pattern: the optional dots are taken when they are there, skipped in front of the slash *)
Lemma path_runs dots segs fname suf :
  path_dots dots = true -> segs <> [] -> forallb seg_ok segs = true -> fname_ok fname = true -> path_stop suf = true ->
  exists cf, runs (2 * List.length (path_form dots segs fname) + 40) RE_path_PATH_RE (path_form dots segs fname) suf cf.
Proof.
  intros Hd Hne Hsegs Hf Hstop.
  destruct (path_core_runs segs fname suf Hne Hsegs Hf Hstop) as [cf Hc].
  assert (EC : seq_r (seq_r RE_path_PATH_RE) = PATH_CORE_RE) by reflexivity.
  unfold RE_path_PATH_RE in EC |- *. cbn [seq_r] in EC. rewrite EC. unfold path_form.
  unfold path_dots in Hd. apply orb_true_iff in Hd. destruct Hd as [Hd | Hd]; [apply orb_true_iff in Hd; destruct Hd as [Hd | Hd]|];
    apply beqb_eq in Hd; subst dots; cbn [app]; eexists.
  - eapply runs_mono;
      [ eapply runs_seq_skip; [eapply (runs_opt_skip (Cls _)); [reflexivity | cbn [hd_out app]; vm_compute; reflexivity]|];
        eapply runs_seq_skip; [eapply (runs_opt_skip (Cls _)); [reflexivity | cbn [hd_out app]; vm_compute; reflexivity]|];
        exact Hc
      | cbn [spine List.length]; lia ].
  - eapply runs_mono;
      [ eapply (runs_seq _ _ _ _ [46%N] (47%N :: path_body segs fname) suf);
        [ eapply runs_opt_take; vm_compute; reflexivity |];
        eapply runs_seq_skip; [eapply (runs_opt_skip (Cls _)); [reflexivity | cbn [hd_out app]; vm_compute; reflexivity]|];
        exact Hc
      | cbn [spine List.length]; lia ].
  - eapply runs_mono;
      [ eapply (runs_seq _ _ _ _ [46%N] (46%N :: 47%N :: path_body segs fname) suf);
        [ eapply runs_opt_take; vm_compute; reflexivity |];
        eapply (runs_seq _ _ _ _ [46%N] (47%N :: path_body segs fname) suf);
        [ eapply runs_opt_take; vm_compute; reflexivity |];
        exact Hc
      | cbn [spine List.length]; lia ].
Qed.

Theorem find_path_roundtrip_quiet pre dots segs fname suf :
  path_dots dots = true -> segs <> [] -> forallb seg_ok segs = true -> fname_ok fname = true -> path_stop suf = true ->
  (2 * List.length (path_form dots segs fname) + 64 <= default_fuel)%nat ->
  let form := path_form dots segs fname in
  let data := pre ++ form ++ suf in
  quiet default_fuel RE_path_PATH_RE (List.length pre) (start_pos data) ->
  find_path data = Hang \/
  exists rest, find_path data = Ok (Node (L"path") form [] (blen pre) (blen pre + blen form) [] :: rest) /\
               Forall (fun nd => blen pre + blen form <= n_st nd) rest.
Proof.
  intros Hd Hne Hsegs Hf Hstop Hfuel form data Hq.
  destruct (path_runs dots segs fname suf Hd Hne Hsegs Hf Hstop) as [cf R]. fold form in R.
  assert (Hfne : form <> []) by (unfold form, path_form; destruct dots; discriminate).
  apply (regex_hits_roundtrip anyB RE_path_PATH_RE NG_path_PATH_RE PathDec.PATH_TYPE pre form suf _ cf Hq
           (runsB_of_runs anyB _ _ _ _ _ R) I ltac:(fold form in Hfuel; lia) Hfne).
Qed.

Theorem find_path_roundtrip pre dots segs fname suf :
  path_dots dots = true -> segs <> [] -> forallb seg_ok segs = true -> fname_ok fname = true -> path_stop suf = true ->
  (2 * List.length (path_form dots segs fname) + 64 <= default_fuel)%nat ->
  neutral RE_path_PATH_RE pre = true ->
  let form := path_form dots segs fname in
  let data := pre ++ form ++ suf in
  find_path data = Hang \/
  exists rest, find_path data = Ok (Node (L"path") form [] (blen pre) (blen pre + blen form) [] :: rest) /\
               Forall (fun nd => blen pre + blen form <= n_st nd) rest.
Proof.
  intros Hd Hne Hsegs Hf Hstop Hfuel Hn form data.
  apply find_path_roundtrip_quiet; try assumption.
  apply quiet_no_first; [vm_compute; reflexivity | spine_goal | exact Hn].
Qed.

(* ------------------------------------------------------------------ *)
(* 4.  find_domains:  label . label . ... . tld                           *)
(* ------------------------------------------------------------------ *)
(* Side conditions (section 6 has an Example for each):
   - the byte before is not a word byte, a hyphen, a dot or a backslash (look-behind; a hyphen or digit before would
     otherwise be taken into the match); the decidable criterion for the prefix is: no dot in it;
   - the byte after is not a letter, a digit 1 to 9, an underscore, a dot, a hyphen, an opening parenthesis or an equals sign;
     a digit 0 IS allowed (look-ahead), provided the run of label bytes after it does not end in a dot (else the name goes on);
   - the top level domain has between TLD_MIN and TLD_MAX letters and is in the table; the text has seven bytes at least;
   - the text has none of the false-positive shapes [domain_fp_b]: next + iterator, attribute access
     (lower-case letters, a dot, an upper-case letter, a lower-case letter: a capitalised second label after an
     all-lower-case first label hides the name), a variable-like root with a common attribute name as last label
     (or a one-letter root), a leading this., x.prototype.y with short ends. *)

(* ---- 4a. quiet prefixes: no dot, and the last byte is not a label byte ---- *)
Definition dom_shape (r : re) : bool :=
  match r with
  | Seq a (Seq (Rep (S _) None (Seq (Rep _ None (Cls _)) (Cls _))) _) => is_assert a
  | _ => false
  end.
Definition dom_run_cls (r : re) : N :=
  match r with Seq _ (Seq (Rep _ None (Seq (Rep _ None (Cls w)) _)) _) => w | _ => 0%N end.
Definition dom_sep_cls (r : re) : N :=
  match r with Seq _ (Seq (Rep _ None (Seq _ (Cls d))) _) => d | _ => 0%N end.
Definition dom_sep_free (r : re) (pre : list N) : bool :=
  match pre with
  | [] => true
  | _ => forallb (fun c => negb (N.testbit (dom_sep_cls r) c)) pre && negb (N.testbit (dom_run_cls r) (last pre 0%N))
  end.

Lemma dom_sep_free_tail r b pre : dom_sep_free r (b :: pre) = true -> dom_sep_free r pre = true.
Proof.
  destruct pre as [|b' pre]; [reflexivity|]. unfold dom_sep_free. intros H. apply andb_true_iff in H. destruct H as [H1 H2].
  apply andb_true_iff. split; [|exact H2].
  rewrite forallb_forall in H1 |- *. intros x Hx. apply H1. right. exact Hx.
Qed.

Lemma quiet_dom_sep_free_gen fuel r : dom_shape r = true ->
  forall pre body p, p_after p = pre ++ body -> dom_sep_free r pre = true -> (List.length pre + 8 <= fuel)%nat ->
  quiet fuel r (List.length pre) p.
Proof.
  intros Hs. destruct r as [| | |a r1| | | | | | |]; try discriminate Hs.
  destruct r1 as [| | |r2 rest| | | | | | |]; try discriminate Hs.
  destruct r2 as [| | | | |lo hi r2| | | | |]; try discriminate Hs.
  destruct lo as [|lo]; [discriminate Hs|].
  destruct hi as [hi|]; [discriminate Hs|].
  destruct r2 as [| | |r3 r4| | | | | | |]; try discriminate Hs.
  destruct r3 as [| | | | |lo2 hi2 r3| | | | |]; try discriminate Hs.
  destruct hi2 as [hi2|]; [discriminate Hs|].
  destruct r3 as [| |w| | | | | | | |]; try discriminate Hs.
  destruct r4 as [| |d| | | | | | | |]; try discriminate Hs.
  cbn [dom_shape] in Hs.
  induction pre as [|b pre IH]; intros body p Hp Hn Hf; [exact I|].
  cbn [List.length quiet]. split.
  - unfold match_here. cbn [List.length] in Hf. destruct fuel as [|f]; [lia|]. rewrite m_seq_eq.
    assert (E : forall c', m f (Seq (Rep (S lo) None (Seq (Rep lo2 None (Cls w)) (Cls d))) rest) p c'
                             (fun p' c'' => Found p' c'') = NoMatch).
    { intros c'. destruct f as [|f1]; [lia|]. rewrite m_seq_eq.
      destruct f1 as [|f2]; [lia|]. rewrite m_rep_unfold.
      destruct f2 as [|f3]; [lia|]. rewrite m_seq_eq.
      apply (rep_sep_fail w d body (b :: pre)); [discriminate | | | exact Hp | cbn [List.length]; lia |].
      - unfold dom_sep_free in Hn. cbn [dom_sep_cls] in Hn. apply andb_true_iff in Hn. apply Hn.
      - unfold dom_sep_free in Hn. cbn [dom_run_cls] in Hn. apply andb_true_iff in Hn. destruct Hn as [_ Hn].
        apply negb_true_iff in Hn. exact Hn.
      - intros p' c'' Hh.
        apply (blocked_first (Cls d) (p_after p')); [reflexivity | exact Hh | reflexivity | cbn [spine]; lia]. }
    destruct (m_assert f a p []
                (fun p' c' => m f (Seq (Rep (S lo) None (Seq (Rep lo2 None (Cls w)) (Cls d))) rest) p' c' (fun p'' c'' => Found p'' c''))
                Hs ltac:(lia)) as [H | H]; [exact H | rewrite H; apply E].
  - unfold adv. rewrite Hp. cbn [app]. apply (IH body); [reflexivity | apply (dom_sep_free_tail _ b); exact Hn |].
    cbn [List.length] in Hf. lia.
Qed.

Theorem quiet_dom_sep_free r pre body :
  dom_shape r = true -> dom_sep_free r pre = true -> (List.length pre + 8 <= default_fuel)%nat ->
  quiet default_fuel r (List.length pre) (start_pos (pre ++ body)).
Proof. intros Hs Hn Hf. apply (quiet_dom_sep_free_gen _ _ Hs pre body); [reflexivity | exact Hn | exact Hf]. Qed.

(* the byte before the name: not a word byte, a hyphen, a dot or a backslash *)
Definition dom_edge_byte (b : N) : bool := negb (is_word b || (b =? 45)%N || (b =? 46)%N || (b =? 92)%N).
Definition dom_abut_ok (pre : bytes) : bool := match pre with [] => true | _ => dom_edge_byte (last pre 0%N) end.
(* the decidable condition on the prefix: no dot in it, and its last byte is such a byte *)
Definition dom_pre_ok (pre : bytes) : bool := forallb (fun c => negb (c =? 46)%N) pre && dom_abut_ok pre.

Definition DOMAIN_LB_CLS : N := match seq_l RE_network_DOMAIN_RE with NLook _ (Cls mk) => mk | _ => 0%N end.

Lemma dom_abut_lookbehind pre : dom_abut_ok pre = true -> hd_out DOMAIN_LB_CLS (rev pre).
Proof.
  intros H. destruct pre as [|b pre]; [exact I|].
  destruct (rev_last_hd (b :: pre) 0%N ltac:(discriminate)) as [t E]. rewrite E.
  apply (hd_out_of_pred _ dom_edge_byte); [vm_compute; reflexivity | vm_compute; reflexivity | exact H].
Qed.

Lemma dom_pre_sep_free pre : dom_pre_ok pre = true -> dom_sep_free RE_network_DOMAIN_RE pre = true.
Proof.
  unfold dom_pre_ok. intros H. apply andb_true_iff in H. destruct H as [H1 H2].
  destruct pre as [|b pre]; [reflexivity|]. unfold dom_sep_free. apply andb_true_iff. split.
  - rewrite forallb_forall in H1 |- *. intros c Hc. apply negb_true_iff.
    eapply (hd_out_mask_ok _ (fun c => (c =? 46)%N)); [vm_compute; reflexivity | vm_compute; reflexivity|].
    apply negb_true_iff. apply H1. exact Hc.
  - apply negb_true_iff. unfold dom_abut_ok in H2.
    eapply (hd_out_mask_ok _ (fun c => negb (dom_edge_byte c))); [vm_compute; reflexivity | vm_compute; reflexivity|].
    rewrite H2. reflexivity.
Qed.

(* ---- 4b. the byte after the name ---- *)
Definition zero_stop_byte (b : N) : bool := negb (label_byte b || (b =? 46)%N).
Definition zero_stop (t : bytes) : bool := match t with [] => true | b :: _ => zero_stop_byte b end.
(* after a digit 0: the run of label bytes that follows must not end in a dot *)
Definition dom_stop (suf : bytes) : bool :=
  match suf with
  | [] => true
  | b :: t => email_stop_byte b || ((b =? 48)%N && zero_stop (snd (span_p label_byte t)))
  end.

(* the part of the pattern after the look-behind is the domain part of the e-mail pattern (the source builds the
   latter from the former) *)
Lemma domain_rest_eq : seq_r RE_network_DOMAIN_RE = DOMAIN_REST_RE.
Proof. reflexivity. Qed.

(* the digit 0 after the name: the last attempt of the label loop runs over the top level domain, the 0 and the label
   bytes after it, and fails for lack of a dot *)
Lemma domain_rest_runs0 labels tld z x :
  labels_ok labels = true -> tld_ok tld = true -> forallb label_byte z = true -> zero_stop x = true ->
  runs (2 * List.length (dotted labels) + List.length tld + List.length z + 30) DOMAIN_REST_RE
       (dotted labels ++ tld) (48%N :: z ++ x) cf_id.
Proof.
  intros Hlabels Htld Hz Hstop.
  assert (Ht : match x with [] => True | b :: _ => zero_stop_byte b = true end) by (destruct x; [exact I | exact Hstop]).
  destruct (tld_ok_parts tld Htld) as [Halpha Hlen]. pose proof tld_min_2 as Hmin.
  pose proof (dotted_length labels) as HL.
  unfold DOMAIN_REST_RE, EMAIL_DOMAIN_RE, RE_network_EMAIL_RE. cbn [seq_l seq_r grp_body].
  eapply runs_ext; [|eapply runs_mono;
    [ eapply (runs_seq _ _ _ _ (dotted labels) tld (48%N :: z ++ x));
      [ unfold dotted;
        eapply (runs_rep_chunks (List.length (dotted labels) + 4) _ _ (tld ++ 48%N :: z ++ x));
        [ replace (tld ++ 48%N :: z ++ x) with ((tld ++ 48%N :: z) ++ x) by (rewrite <- app_assoc; reflexivity);
          eapply blocked_run_sep;
          [ rewrite forallb_app; apply andb_true_iff; split;
            [ rewrite forallb_forall in Halpha |- *; intros c Hc; apply negb_true_iff;
              eapply (hd_out_mask_ok _ (fun c => negb (is_alpha_ascii c)));
              [vm_compute; reflexivity | vm_compute; reflexivity | rewrite (Halpha c Hc); reflexivity]
            | cbn [forallb]; apply andb_true_iff; split; [vm_compute; reflexivity|];
              rewrite forallb_forall in Hz |- *; intros c Hc; apply negb_true_iff;
              eapply (hd_out_mask_ok _ (fun c => negb (label_byte c)));
              [vm_compute; reflexivity | vm_compute; reflexivity | rewrite (Hz c Hc); reflexivity] ]
          | eapply (hd_out_of_pred _ zero_stop_byte); [vm_compute; reflexivity | vm_compute; reflexivity | exact Ht]
          | eapply (hd_out_of_pred _ zero_stop_byte); [vm_compute; reflexivity | vm_compute; reflexivity | exact Ht] ]
        | apply Forall_forall; intros w Hw; apply in_map_iff in Hw; destruct Hw as (l & <- & Hl);
          assert (Hl2 : forallb label_byte l = true /\ l <> []);
          [ destruct labels as [|l0 ls]; [discriminate Hlabels|]; unfold labels_ok in Hlabels;
            rewrite forallb_forall in Hlabels; specialize (Hlabels l Hl); apply andb_true_iff in Hlabels;
            destruct Hlabels as [Ha Hb]; split; [exact Ha | apply negb_true_iff, beqb_neq in Hb; exact Hb]
          | destruct Hl2 as [Ha Hb]; split; [destruct l; [congruence | discriminate]|]; intros x';
            eapply runs_mono;
            [ apply label_chunk_runs; [vm_compute; reflexivity | vm_compute; reflexivity | vm_compute; reflexivity | exact Ha | exact Hb]
            | assert (Hin : In (l ++ [46%N]) (map (fun l => l ++ [46%N]) labels)) by (exact (in_map (fun l => l ++ [46%N]) labels l Hl));
              apply in_concat_length in Hin; fold (dotted labels) in Hin; rewrite app_length in Hin; lia ] ]
        | rewrite map_length; destruct labels; [discriminate Hlabels | cbn [List.length]; lia] ]
      | eapply runs_seq_end;
        [ eapply runs_alt_r;
          [ destruct tld as [|t1 [|t2 tl]]; [cbn [List.length] in Hlen; lia | cbn [List.length] in Hlen; lia |]; clear Hlen;
            cbn [app]; apply blocked_3lits;
            destruct tl as [|t3 tl];
            [ cbn [app hd_out]; vm_compute; reflexivity
            | cbn [app hd_out]; cbn [forallb] in Halpha;
              apply andb_true_iff in Halpha; destruct Halpha as [_ Halpha];
              apply andb_true_iff in Halpha; destruct Halpha as [_ Halpha];
              apply andb_true_iff in Halpha; destruct Halpha as [Ht3 _];
              eapply (hd_out_mask_ok _ (fun c => negb (is_alpha_ascii c)));
              [vm_compute; reflexivity | vm_compute; reflexivity | rewrite Ht3; reflexivity] ]
          | apply runs_rep_cls_hi;
            [ apply (Forall_of_pred _ is_alpha_ascii); [exact is_alpha_lt | vm_compute; reflexivity | exact Halpha]
            | exact Hlen | right; cbn [hd_out]; vm_compute; reflexivity ] ]
        | apply runs_lookahead; cbn [hd_out]; vm_compute; reflexivity ] ]
    | rewrite map_length, ?app_length; cbn [List.length]; unfold bytes in HL |- *; lia ]].
  intros i c. reflexivity.
Qed.

Lemma domain_rest_runs_stop labels tld suf :
  labels_ok labels = true -> tld_ok tld = true -> dom_stop suf = true ->
  runs (2 * List.length (dotted labels) + List.length tld + List.length suf + 30) DOMAIN_REST_RE (dotted labels ++ tld) suf cf_id.
Proof.
  intros Hlabels Htld Hstop.
  destruct suf as [|b t]; [eapply runs_mono; [apply domain_rest_runs; try assumption; reflexivity | lia]|].
  cbn [dom_stop] in Hstop. destruct (email_stop_byte b) eqn:Eb.
  - eapply runs_mono; [apply domain_rest_runs; [exact Hlabels | exact Htld | exact Eb] | lia].
  - cbn [orb] in Hstop. apply andb_true_iff in Hstop. destruct Hstop as [H48 Hz]. apply N.eqb_eq in H48. subst b.
    destruct (span_p_spec label_byte t) as (Et & Hu & _).
    set (z := fst (span_p label_byte t)) in *. set (x := snd (span_p label_byte t)) in *.
    assert (Hl : (List.length z <= List.length t)%nat).
    { pose proof (f_equal (@List.length N) Et) as EL. rewrite app_length in EL. lia. }
    eapply runs_mono; [|cbn [List.length]; apply Nat.add_le_mono_r, Nat.add_le_mono_l, (Nat.le_trans _ _ _ Hl), Nat.le_succ_diag_r].
    rewrite Et. apply domain_rest_runs0; assumption.
Qed.

(* the whole pattern: look-behind, labels, top level domain, look-ahead *)
Lemma domain_runs labels tld suf :
  labels_ok labels = true -> tld_ok tld = true -> dom_stop suf = true ->
  runsB (hd_out DOMAIN_LB_CLS) (2 * List.length (dotted labels) + List.length tld + List.length suf + 40)
        RE_network_DOMAIN_RE (dotted labels ++ tld) suf cf_id.
Proof.
  intros Hlabels Htld Hstop.
  pose proof (domain_rest_runs_stop labels tld suf Hlabels Htld Hstop) as R. rewrite <- domain_rest_eq in R.
  unfold DOMAIN_LB_CLS. unfold RE_network_DOMAIN_RE in R |- *. cbn [seq_l seq_r] in R |- *.
  eapply runsB_mono; [eapply runsB_seq_skip; [apply runsB_lookbehind | apply runsB_of_runs; exact R] | lia].
Qed.

(* ---- 4c. the attribute-access heuristic: re.match of  lower+ dot Upper lower+  at the start of the text ---- *)
Definition attr_tail (v : bytes) : bool :=
  match v with
  | c1 :: c2 :: c3 :: _ => (c1 =? 46)%N && is_upper_ascii c2 && is_lower_ascii c3
  | _ => false
  end.
Definition attr_shape (d : bytes) : bool :=
  negb (beqb (fst (span_p is_lower_ascii d)) []) && attr_tail (snd (span_p is_lower_ascii d)).

Definition ATTR_RE : re := RE_network_domain_is_false_positive_0.
Definition ATTR_REST_RE : re := seq_r ATTR_RE.

Lemma is_lower_lt c : is_lower_ascii c = true -> (c < 256)%N.
Proof. intros H. apply is_alpha_lt. unfold is_alpha_ascii. rewrite H. apply orb_true_r. Qed.
Lemma is_upper_lt c : is_upper_ascii c = true -> (c < 256)%N.
Proof. intros H. apply is_alpha_lt. unfold is_alpha_ascii. rewrite H. reflexivity. Qed.

(* class+ rest : rest fails after every non-empty part of the run of class bytes, and after the whole run *)
Lemma blocked_plus_then mk rest b w y nb :
  Forall (fun c => N.testbit mk c = true) (b :: w) -> hd_out mk y ->
  (forall c t, In c w -> blocked nb rest (c :: t)) -> blocked nb rest y ->
  blocked (List.length w + nb + 6) (Seq (Rep 1 None (Cls mk)) rest) (b :: w ++ y).
Proof.
  intros HF Hy Hin Hend f p c k Hp Hf. inversion HF as [|? ? Hb HFw]; subst.
  destruct f as [|f1]; [lia|]. rewrite m_seq_eq.
  destruct f1 as [|f2]; [lia|]. rewrite m_rep_unfold.
  rewrite (m_cls_take f2 mk p c _ b (w ++ y) Hp Hb ltac:(lia)). cbn [p_i].
  replace (p_i p + 1 =? p_i p) with false by (symmetry; apply Z.eqb_neq; lia). cbn [pred].
  set (p1 := {| p_i := p_i p + 1; p_before := b :: p_before p; p_after := w ++ y |}).
  assert (Hp1 : p_after p1 = w ++ y) by reflexivity.
  set (K := fun p' c' => m (S f2) rest p' c' k).
  assert (HK : forall j, (j <= List.length w)%nat -> K (seek j p1) c = NoMatch).
  { intros j Hj.
    assert (E : p_after p1 = firstn j w ++ (skipn j w ++ y)) by (rewrite app_assoc, firstn_skipn; exact Hp1).
    destruct (seek_word _ p1 _ 0 E) as (_ & S2 & _).
    rewrite firstn_length, Nat.min_l in S2 by lia. unfold K.
    destruct (skipn j w) as [|x t] eqn:Es.
    - apply (Hend (S f2) _ c k S2). lia.
    - assert (Hx : In x w) by (rewrite <- (firstn_skipn j w), Es; apply in_or_app; right; left; reflexivity).
      apply (Hin x (t ++ y) Hx (S f2) _ c k S2). lia. }
  rewrite (m_star_cls mk w f2 p1 c K y HFw Hy Hp1 ltac:(lia)).
  - apply HK. lia.
  - intros j Hj. apply HK. lia.
Qed.

Lemma blocked_first_le n r x :
  startable r = true -> hd_out (first_cls r) x -> (spine r <= n)%nat -> blocked n r x.
Proof. intros Hs Hh Hn. apply (blocked_mono (spine r)); [apply blocked_first; assumption | exact Hn]. Qed.

Lemma attr_rest_first l :
  match l with [] => True | c :: _ => (c =? 46)%N = false end -> blocked 3 ATTR_REST_RE l.
Proof.
  intros H. apply (blocked_mono (spine ATTR_REST_RE)); [|apply Nat.leb_le; vm_compute; reflexivity].
  apply blocked_first; [vm_compute; reflexivity|].
  apply (hd_out_of_pred _ (fun c => negb (c =? 46)%N)); [vm_compute; reflexivity | vm_compute; reflexivity|].
  destruct l as [|c l]; [exact I|]. rewrite H. reflexivity.
Qed.

Lemma attr_rest_blocked v : attr_tail v = false -> blocked 12 ATTR_REST_RE v.
Proof.
  intros H. destruct v as [|c1 v1]; [apply (blocked_mono 3); [apply attr_rest_first; exact I | lia]|].
  destruct (c1 =? 46)%N eqn:E1; [|apply (blocked_mono 3); [apply attr_rest_first; exact E1 | lia]].
  apply N.eqb_eq in E1. subst c1.
  unfold ATTR_REST_RE, ATTR_RE, RE_network_domain_is_false_positive_0. cbn [seq_r].
  apply (blocked_mono (S (S 8))); [|lia]. apply blocked_seq_cls; [vm_compute; reflexivity|].
  destruct v1 as [|c2 v2]; [apply blocked_first_le; [reflexivity | exact I | cbn [spine nullable Nat.max]; lia]|].
  destruct (is_upper_ascii c2) eqn:E2.
  - apply (blocked_mono (S (S 2))); [|lia].
    apply blocked_seq_cls; [apply (testbit_of_pred _ is_upper_ascii); [exact is_upper_lt | vm_compute; reflexivity | exact E2]|].
    apply blocked_first_le; [reflexivity | | cbn [spine]; lia].
    destruct v2 as [|c3 v3]; [exact I|]. cbn [hd_out first_cls].
    cbn [attr_tail] in H. rewrite N.eqb_refl, E2 in H. cbn [andb] in H.
    eapply (hd_out_mask_ok _ is_lower_ascii); [vm_compute; reflexivity | vm_compute; reflexivity | exact H].
  - apply blocked_first_le; [reflexivity | | cbn [spine nullable Nat.max]; lia]. cbn [hd_out first_cls nullable].
    eapply (hd_out_mask_ok _ is_upper_ascii); [vm_compute; reflexivity | vm_compute; reflexivity | exact E2].
Qed.

Lemma attr_blocked d : attr_shape d = false -> blocked (List.length d + 20) ATTR_RE d.
Proof.
  intros H. unfold attr_shape in H.
  destruct (span_p_spec is_lower_ascii d) as (E & Hu & Hv).
  destruct (fst (span_p is_lower_ascii d)) as [|b w] eqn:Eu.
  - cbn [app] in E. apply (blocked_mono (spine ATTR_RE)); [|apply (Nat.le_trans _ 20); [apply Nat.leb_le; vm_compute; reflexivity | lia]].
    apply blocked_first; [vm_compute; reflexivity|].
    apply (hd_out_of_pred _ (fun c => negb (is_lower_ascii c))); [vm_compute; reflexivity | vm_compute; reflexivity|].
    rewrite E. destruct (snd (span_p is_lower_ascii d)) as [|c l]; [exact I|]. rewrite Hv. reflexivity.
  - cbn [beqb negb andb] in H.
    set (v := snd (span_p is_lower_ascii d)) in *.
    assert (Hlen : (List.length w < List.length d)%nat).
    { pose proof (f_equal (@List.length N) E) as EL. rewrite app_length in EL. cbn [List.length] in EL. lia. }
    apply (blocked_mono (List.length w + 12 + 6)); [|lia]. rewrite E. cbn [app].
    unfold ATTR_RE, RE_network_domain_is_false_positive_0.
    assert (ER : seq_r RE_network_domain_is_false_positive_0 = ATTR_REST_RE) by reflexivity.
    unfold RE_network_domain_is_false_positive_0 in ER. cbn [seq_r] in ER. rewrite ER.
    apply blocked_plus_then.
    + apply (Forall_of_pred _ is_lower_ascii); [exact is_lower_lt | vm_compute; reflexivity | exact Hu].
    + apply (hd_out_of_pred _ (fun c => negb (is_lower_ascii c))); [vm_compute; reflexivity | vm_compute; reflexivity|].
      destruct v as [|c l]; [exact I|]. rewrite Hv. reflexivity.
    + intros c t Hc. apply (blocked_mono 3); [|lia]. apply attr_rest_first.
      cbn [forallb] in Hu. apply andb_true_iff in Hu. destruct Hu as [_ Hw]. rewrite forallb_forall in Hw.
      specialize (Hw c Hc). destruct (N.eqb_spec c 46) as [->|]; [discriminate Hw | reflexivity].
    + apply attr_rest_blocked. exact H.
Qed.

Lemma attr_no_match d : attr_shape d = false -> (List.length d + 20 <= default_fuel)%nat ->
  re_match RE_network_domain_is_false_positive_0 NG_network_domain_is_false_positive_0 d = Ok None.
Proof.
  intros H Hf. unfold re_match, re_match_at, match_at.
  replace (Z.of_nat (List.length d) <? 0) with false by (symmetry; apply Z.ltb_ge; lia).
  cbn [Z.ltb Z.compare orb Z.to_nat seek]. unfold match_here.
  rewrite (attr_blocked d H default_fuel (start_pos d) [] _ eq_refl Hf). reflexivity.
Qed.

(* ---- 4d. the false-positive filter as a boolean ---- *)
Definition domain_fp_b (rf tf : list bytes) (domain : bytes) : bool :=
  let domain_lower := lower domain in
  let split := Ip.split_on ch_dot domain_lower in
  (blen split <? 2) ||
  (let tld := last split [] in
   let root := hd [] split in
   (beqb tld (L"next") && contains domain_lower (L"iterator")) || attr_shape domain ||
   ((mem tld tf && (mem root rf || (blen root =? 1)))
    || startswith domain_lower (L"this.")
    || ((blen split =? 3) && beqb (nth 1 split []) (L"prototype") && (blen root <? 3) && (blen tld <? 3))
    || (startswith domain_lower (L"lib") && false))).

Lemma domain_fp_b_false rf tf d :
  domain_fp_b rf tf d = false -> (List.length d + 20 <= default_fuel)%nat ->
  domain_is_false_positive rf tf d = Ok false.
Proof.
  unfold domain_fp_b, domain_is_false_positive. cbv zeta. intros H Hf.
  destruct (blen (Ip.split_on ch_dot (lower d)) <? 2); [discriminate H|]. cbn [orb] in H.
  destruct (beqb (last (Ip.split_on ch_dot (lower d)) []) (L"next") && contains (lower d) (L"iterator"));
    [discriminate H|]. cbn [orb] in H.
  destruct (attr_shape d) eqn:Ea; [discriminate H|]. cbn [orb] in H.
  rewrite (attr_no_match d Ea Hf). cbn [bind is_some]. rewrite H. reflexivity.
Qed.

(* ---- 4e. the Python after finditer ---- *)
Lemma find_domains_post_starts tlds rf tf data lo : forall ms out,
  Forall (fun mt => lo <= m_start mt 0) ms -> find_domains_post tlds rf tf data ms = Ok out ->
  Forall (fun nd => lo <= n_st nd) out.
Proof.
  unfold find_domains_post. induction ms as [|mt ms IH]; intros out HF H; cbn [collect] in H.
  - injection H as <-. constructor.
  - inversion HF as [|? ? Hm HF']; subst.
    destruct (find_domains_one tlds rf tf data mt) as [o| |] eqn:E1; cbn [bind] in H; try discriminate H.
    destruct (collect (find_domains_one tlds rf tf data) ms) as [out'| |]; cbn [bind] in H; try discriminate H.
    injection H as <-. destruct o as [n|]; [|apply IH; [exact HF' | reflexivity]].
    constructor; [|apply IH; [exact HF' | reflexivity]].
    unfold find_domains_one in E1. destruct (_ || _); [discriminate E1|].
    destruct (domain_is_false_positive rf tf _) as [fp| |]; cbn [bind] in E1; try discriminate E1.
    destruct fp; [discriminate E1|]. injection E1 as <-. cbn [match_to_hit n_st]. exact Hm.
Qed.

Definition domain_form (labels : list bytes) (tld : bytes) : bytes := dotted labels ++ tld.

(* ---- 4f. the round trip ---- *)
Theorem find_domains_roundtrip_quiet tlds rf tf pre labels tld suf :
  labels_ok labels = true -> tld_ok tld = true -> In (upper tld) tlds ->
  let form := domain_form labels tld in
  7 <= blen form -> domain_fp_b rf tf form = false ->
  dom_abut_ok pre = true -> dom_stop suf = true ->
  (2 * List.length form + List.length suf + 64 <= default_fuel)%nat ->
  let data := pre ++ form ++ suf in
  quiet default_fuel RE_network_DOMAIN_RE (List.length pre) (start_pos data) ->
  find_domains tlds rf tf data = Hang \/
  exists rest, find_domains tlds rf tf data
               = Ok (Node (L"network.domain") form [] (blen pre) (blen pre + blen form) [] :: rest) /\
               Forall (fun nd => blen pre + blen form <= n_st nd) rest.
Proof.
  intros Hlabels Htld Hin form H7 Hfp Hpre Hstop Hfuel data Hq.
  pose proof (domain_runs labels tld suf Hlabels Htld Hstop) as R. fold (domain_form labels tld) in R. fold form in R.
  assert (Hlen : List.length form = (List.length (dotted labels) + List.length tld)%nat)
    by (unfold form, domain_form; apply app_length).
  assert (Hne : form <> []) by (intros E; rewrite E in H7; unfold blen in H7; cbn in H7; lia).
  destruct (fi_formB _ RE_network_DOMAIN_RE NG_network_DOMAIN_RE pre form suf _ _ Hq R (dom_abut_lookbehind pre Hpre)
              ltac:(lia) Hne) as [H | (rest & Hfi & Hrest)].
  { left. unfold find_domains. fold data in H. rewrite H. reflexivity. }
  fold data in Hfi.
  set (s := blen pre) in *. set (e := s + blen form) in *.
  change (mk_mtch NG_network_DOMAIN_RE s e (cf_id s [])) with ([Some (s, e)] : mtch) in Hfi.
  set (mt := ([Some (s, e)] : mtch)) in *.
  assert (Eg0 : group data mt 0 = form) by (unfold group, mt; cbn [nth]; unfold e, s, data; apply slice_mid).
  assert (Hdom : is_domain tlds form = true).
  { destruct (dotted_name labels Hlabels) as (name & En & Hnn). unfold form, domain_form. rewrite En, <- app_assoc.
    apply is_domain_complete; [exact Hnn | exact Hin |].
    intros Hd. destruct (tld_ok_parts tld Htld) as [Halpha _]. rewrite forallb_forall in Halpha.
    specialize (Halpha _ Hd). vm_compute in Halpha. discriminate Halpha. }
  assert (Eone : find_domains_one tlds rf tf data mt = Ok (Some (Node (L"network.domain") form [] s e []))).
  { unfold find_domains_one. rewrite Eg0, Hdom. cbn [negb orb].
    replace (blen form <? 7) with false by (symmetry; apply Z.ltb_ge; exact H7).
    rewrite (domain_fp_b_false rf tf form Hfp ltac:(lia)). cbn [bind].
    unfold match_to_hit. rewrite Eg0. reflexivity. }
  unfold find_domains. rewrite Hfi. cbn [bind]. unfold find_domains_post. cbn [collect]. rewrite Eone. cbn [bind].
  destruct (collect (find_domains_one tlds rf tf data) rest) as [out|ex|] eqn:ER; cbn [bind].
  - right. exists out. split; [reflexivity|]. apply (find_domains_post_starts tlds rf tf data e rest out Hrest ER).
  - exfalso. exact (find_domains_post_no_raise tlds rf tf data rest ex ER).
  - left. reflexivity.
Qed.

(* decidable form: no dot in the prefix, its last byte is not a word byte, a hyphen or a backslash *)
Theorem find_domains_roundtrip tlds rf tf pre labels tld suf :
  labels_ok labels = true -> tld_ok tld = true -> In (upper tld) tlds ->
  let form := domain_form labels tld in
  7 <= blen form -> domain_fp_b rf tf form = false ->
  dom_pre_ok pre = true -> dom_stop suf = true ->
  (List.length pre + 2 * List.length form + List.length suf + 64 <= default_fuel)%nat ->
  let data := pre ++ form ++ suf in
  find_domains tlds rf tf data = Hang \/
  exists rest, find_domains tlds rf tf data
               = Ok (Node (L"network.domain") form [] (blen pre) (blen pre + blen form) [] :: rest) /\
               Forall (fun nd => blen pre + blen form <= n_st nd) rest.
Proof.
  intros Hlabels Htld Hin form H7 Hfp Hpre Hstop Hfuel data.
  apply find_domains_roundtrip_quiet; try assumption.
  - unfold dom_pre_ok in Hpre. apply andb_true_iff in Hpre. apply Hpre.
  - unfold form in Hfuel. lia.
  - apply quiet_dom_sep_free; [reflexivity | apply dom_pre_sep_free; exact Hpre | lia].
Qed.

(* with the regenerated tables, membership being a computation *)
Corollary find_domains_roundtrip_table pre labels tld suf :
  labels_ok labels = true -> tld_ok tld = true -> mem (upper tld) TOP_LEVEL_DOMAINS = true ->
  let form := domain_form labels tld in
  7 <= blen form -> domain_fp_b root_fpos tld_fpos form = false ->
  dom_pre_ok pre = true -> dom_stop suf = true ->
  (List.length pre + 2 * List.length form + List.length suf + 64 <= default_fuel)%nat ->
  let data := pre ++ form ++ suf in
  find_domains TOP_LEVEL_DOMAINS root_fpos tld_fpos data = Hang \/
  exists rest, find_domains TOP_LEVEL_DOMAINS root_fpos tld_fpos data
               = Ok (Node (L"network.domain") form [] (blen pre) (blen pre + blen form) [] :: rest) /\
               Forall (fun nd => blen pre + blen form <= n_st nd) rest.
Proof.
  intros Hlabels Htld Hin. apply find_domains_roundtrip; try assumption. apply tld_in_table. exact Hin.
Qed.

(* ------------------------------------------------------------------ *)
(* 5.  find_cmd_strings:  cmd <space> arguments                           *)
(* ------------------------------------------------------------------ *)
(* The pattern takes everything up to the first NUL byte (or the end of the text); the decoder then cuts the text at
   the first closing parenthesis that has no partner and removes the caret escapes.
   Side conditions (section 6 has an Example for each):
   - the byte before the command word is not a word byte (word boundary);
   - no parenthesis closes more than was opened INSIDE the command text (else the node ends there: the text after an
     unbalanced closing parenthesis is not part of the command);
   - the command text ends at the end of the input, at a NUL byte, or at a closing parenthesis that has no partner
     (the command text itself being balanced);
   - the prefix is quiet (decidable criterion: it contains no double quote and no letter c, in either case). *)
Definition nn_byte (c : N) : bool := (1 <=? c)%N && (c <? 256)%N.

Lemma nn_byte_lt c : nn_byte c = true -> (c < 256)%N.
Proof. unfold nn_byte. intros H. apply andb_true_iff in H. apply N.ltb_lt. apply H. Qed.

(* no prefix of l closes more parentheses than it opens; k = parentheses open before l *)
Fixpoint par_ok (l : bytes) (k : Z) : bool :=
  match l with
  | [] => true
  | c :: t => let k' := k + paren_delta c in (0 <=? k') && par_ok t k'
  end.

Lemma paren_cut_from_app : forall a x i k, par_ok a k = true ->
  paren_cut_from (a ++ x) i k = paren_cut_from x (i + blen a) (k + balance a).
Proof.
  induction a as [|c t IH]; intros x i k H; cbn [app paren_cut_from balance par_ok] in *.
  - unfold blen. cbn [List.length]. f_equal; lia.
  - apply andb_true_iff in H. destruct H as [H1 H2]. apply Z.leb_le in H1.
    replace (k + paren_delta c <? 0) with false by (symmetry; apply Z.ltb_ge; exact H1).
    rewrite (IH x (i + 1) _ H2). unfold blen. cbn [List.length]. f_equal; lia.
Qed.

(* the command text ends where the suffix begins: end of input, a byte the tail class rejects (NUL), or a closing
   parenthesis that has no partner in the (balanced) command text *)
Definition cmd_end_ok (form suf : bytes) : bool :=
  match suf with
  | [] => true
  | b :: _ => negb (nn_byte b) || ((b =? 41)%N && (balance form =? 0))
  end.

Lemma paren_cut_form form tailx :
  par_ok form 0 = true ->
  (tailx = [] \/ exists t, tailx = 41%N :: t /\ balance form = 0) ->
  paren_cut (form ++ tailx) = blen form.
Proof.
  intros Hp Ht. unfold paren_cut. rewrite (paren_cut_from_app form tailx 0 0 Hp).
  destruct Ht as [-> | (t & -> & Hb)]; [reflexivity|]. rewrite Hb. reflexivity.
Qed.

Definition CMD_KW_RE : re := grp_body (seq_l RE_shell_CMD_RE).
Definition CMD_TAIL_CLS : N := match seq_r RE_shell_CMD_RE with Rep _ _ (Cls mk) => mk | _ => 0%N end.

Ltac lo_in := eapply testbit_lower; [eassumption | vm_compute; reflexivity | vm_compute; reflexivity].
Ltac lo_out := cbn [hd_out app first_cls]; eapply testbit_lower_out; [eassumption | vm_compute; reflexivity | vm_compute; reflexivity].

Lemma is_word_of_lower b l : lower1 b = l -> is_word l = true -> is_word b = true.
Proof. intros <- H. rewrite is_word_lower1 in H. exact H. Qed.

(* the command word (second alternative of the group: optional system directory, word boundary, the three letters
   with optional carets between them, word boundary) on the three letters in any case *)
Lemma cmd_kw_runs k1 k2 k3 x :
  lower1 k1 = 99%N -> lower1 k2 = 109%N -> lower1 k3 = 100%N -> word_at x = false ->
  runsB (fun bf => word_at bf = false) 60 CMD_KW_RE [k1; k2; k3] x cf_id.
Proof.
  intros H1 H2 H3 Hx. unfold CMD_KW_RE, RE_shell_CMD_RE. cbn [seq_l grp_body].
  eapply runsB_ext; [|eapply runsB_mono;
    [ eapply runsB_alt_r;
      [ eapply blocked_first; [vm_compute; reflexivity | lo_out]
      | eapply runsB_seq_skip;
        [ apply runsB_of_runs; eapply runs_rep_stop_blocked; cbn [app];
          eapply blocked_seq_cls; [lo_in | eapply blocked_first; [vm_compute; reflexivity | lo_out]]
        | eapply runsB_seq_skip;
          [ eapply (runsB_weaken (wordb_at _)); [|apply runsB_wordb];
            intros bf Hbf; unfold wordb_at; rewrite Hbf; cbn [app word_at];
            rewrite (is_word_of_lower k1 _ H1 eq_refl); reflexivity
          | apply runsB_of_runs;
            eapply runs_seq_cls; [lo_in|];
            eapply runs_seq_skip; [eapply (runs_opt_skip (Cls _)); [reflexivity | lo_out]|];
            eapply runs_seq_cls; [lo_in|];
            eapply runs_seq_skip; [eapply (runs_opt_skip (Cls _)); [reflexivity | lo_out]|];
            eapply runs_cls_wordb; [lo_in | exact (is_word_of_lower k3 _ H3 eq_refl) | exact Hx] ] ] ]
    | apply Nat.leb_le; vm_compute; reflexivity ]].
  intros i c. reflexivity.
Qed.

(* the whole pattern: the command word, then every byte up to the first one the tail class rejects *)
Lemma cmd_runs k1 k2 k3 tail stop :
  lower1 k1 = 99%N -> lower1 k2 = 109%N -> lower1 k3 = 100%N ->
  word_at (tail ++ stop) = false -> forallb nn_byte tail = true ->
  match stop with [] => True | b :: _ => nn_byte b = false end ->
  runsB (fun bf => word_at bf = false) (List.length tail + 70) RE_shell_CMD_RE ([k1; k2; k3] ++ tail) stop
        (fun i c => (1%nat, (i, i + 3)) :: c).
Proof.
  intros H1 H2 H3 Hw Ht Hstop.
  pose proof (cmd_kw_runs k1 k2 k3 (tail ++ stop) H1 H2 H3 Hw) as R.
  assert (E : grp_body (seq_l RE_shell_CMD_RE) = CMD_KW_RE) by reflexivity.
  unfold RE_shell_CMD_RE in E |- *. cbn [seq_l grp_body] in E. rewrite E.
  eapply runsB_ext; [|eapply runsB_mono;
    [ eapply (runsB_seq _ anyB _ _ _ _ [k1; k2; k3] tail stop);
      [ apply runsB_grp; exact R
      | apply runsB_of_runs; apply runs_rep_cls;
        [ apply (Forall_of_pred _ nn_byte); [exact nn_byte_lt | vm_compute; reflexivity | exact Ht]
        | apply (hd_out_of_pred _ (fun c => negb (nn_byte c))); [vm_compute; reflexivity | vm_compute; reflexivity|];
          destruct stop as [|b stop']; [exact I | rewrite Hstop; reflexivity]
        | apply Nat.le_0_l ]
      | intros bf _; exact I ]
    | lia ]].
  intros i c. cbv beta. unfold cf_id. cbn [List.length]. change (Z.of_nat 3) with 3. reflexivity.
Qed.

(* ---- the Python after finditer ---- *)
Lemma lower1_cases b l : lower1 b = l -> b = l \/ (b + 32)%N = l.
Proof. unfold lower1. destruct (is_upper_ascii b); intros H; [right | left]; exact H. Qed.

Lemma is_space_not_word sp : is_space_ascii sp = true -> is_word sp = false /\ nn_byte sp = true.
Proof.
  intros H.
  assert (T : forallb (fun c => implb (is_space_ascii c) (negb (is_word c) && nn_byte c)) bytes256 = true) by (vm_compute; reflexivity).
  assert (Hlt : (sp < 256)%N).
  { unfold is_space_ascii in H. apply orb_true_iff in H. destruct H as [H|H]; [apply N.eqb_eq in H; subst; reflexivity|].
    apply andb_true_iff in H. destruct H as [_ H]. apply N.leb_le in H. lia. }
  rewrite forallb_forall in T. specialize (T sp (bytes256_in sp Hlt)). rewrite H in T. cbn [implb] in T.
  apply andb_true_iff in T. destruct T as [T1 T2]. apply negb_true_iff in T1. split; assumption.
Qed.

Lemma cmd_unescape_space sp t : is_space_ascii sp = true ->
  cmd_unescape_from false (sp :: t) = sp :: cmd_unescape_from false t.
Proof.
  intros H. cbn [cmd_unescape_from].
  assert (T : forallb (fun c => implb (is_space_ascii c) (negb (c =? ch_caret)%N && negb (c =? ch_dquote)%N)) bytes256 = true)
    by (vm_compute; reflexivity).
  assert (Hlt : (sp < 256)%N) by (apply nn_byte_lt, is_space_not_word; exact H).
  rewrite forallb_forall in T. specialize (T sp (bytes256_in sp Hlt)). rewrite H in T. cbn [implb] in T.
  apply andb_true_iff in T. destruct T as [T1 T2]. apply negb_true_iff in T1, T2. rewrite T1, T2. cbn [andb].
  destruct (sp =? ch_cr)%N; reflexivity.
Qed.

Lemma cmd_unescape_plain c t :
  (c =? ch_caret)%N = false -> (c =? ch_dquote)%N = false -> (c =? ch_cr)%N = false ->
  cmd_unescape_from false (c :: t) = c :: cmd_unescape_from false t.
Proof. intros H1 H2 H3. cbn [cmd_unescape_from]. rewrite H1, H2, H3. reflexivity. Qed.

Lemma split_ws_word3 a b c sp X :
  is_space_ascii a = false -> is_space_ascii b = false -> is_space_ascii c = false -> is_space_ascii sp = true ->
  split_ws (a :: b :: c :: sp :: X) = [a; b; c] :: split_ws (sp :: X).
Proof.
  intros Ha Hb Hc Hsp. rewrite split_ws_unfold. rewrite (drop_ws_id a _ Ha).
  cbn [take_word drop_word]. rewrite Ha, Hb, Hc, Hsp. reflexivity.
Qed.

Lemma cmd_post_starts data lo : forall ms out,
  Forall (fun mt => lo <= m_start mt 0) ms -> find_cmd_strings_post data ms = Ok out ->
  Forall (fun nd => lo <= n_st nd) out.
Proof.
  unfold find_cmd_strings_post. induction ms as [|mt ms IH]; intros out HF H; cbn [mapM] in H.
  - injection H as <-. constructor.
  - inversion HF as [|? ? Hm HF']; subst.
    destruct (cmd_one data mt) as [y| |] eqn:Ey; cbn [bind] in H; try discriminate H.
    destruct (mapM (cmd_one data) ms) as [ys| |]; cbn [bind] in H; try discriminate H.
    injection H as <-. constructor; [|apply IH; [exact HF' | reflexivity]].
    unfold cmd_one in Ey. destruct (deobfuscate_cmd _) as [[dv ob]| |]; cbn [bind] in Ey; try discriminate Ey.
    destruct (list_head _) as [w0| |]; cbn [bind] in Ey; try discriminate Ey.
    injection Ey as <-. exact Hm.
Qed.

Definition cmd_label (form : bytes) : label := if beqb (cmd_unescape form) form then [] else carets_label.

(* ---- the round trip: the word cmd in any letter case, a white-space byte, any arguments ---- *)
Theorem find_cmd_strings_roundtrip_quiet kw sp args pre suf :
  lower kw = L"cmd" -> is_space_ascii sp = true -> forallb nn_byte args = true ->
  let form := kw ++ sp :: args in
  par_ok form 0 = true -> cmd_end_ok form suf = true ->
  word_at (rev pre) = false ->
  (List.length form + List.length suf + 80 <= default_fuel)%nat ->
  let data := pre ++ form ++ suf in
  quiet default_fuel RE_shell_CMD_RE (List.length pre) (start_pos data) ->
  find_cmd_strings data = Hang \/
  exists rest, find_cmd_strings data
               = Ok (Node (L"shell.cmd") (cmd_unescape form) (cmd_label form) (blen pre) (blen pre + blen form) [] :: rest) /\
               Forall (fun nd => blen pre + blen form <= n_st nd) rest.
Proof.
  intros Hkw Hsp Hargs form Hpar Hend Hpre Hfuel data Hq.
  change (L"cmd") with [99; 109; 100]%N in Hkw. split_name Hkw.
  match goal with
  | A : lower1 ?a = 99%N, B : lower1 ?b = 109%N, C : lower1 ?c = 100%N |- _ =>
      rename a into k1; rename b into k2; rename c into k3; rename A into Hk1; rename B into Hk2; rename C into Hk3
  end.
  destruct (is_space_not_word sp Hsp) as [Hspw Hspn].
  (* the part of the suffix the pattern still takes, and where it stops *)
  destruct (span_p_spec nn_byte suf) as (Esuf & Htx & Hstop).
  set (tailx := fst (span_p nn_byte suf)) in *. set (stop := snd (span_p nn_byte suf)) in *.
  assert (Htail : tailx = [] \/ exists t, tailx = 41%N :: t /\ balance form = 0).
  { destruct tailx as [|b t] eqn:Et; [left; reflexivity | right].
    rewrite Esuf in Hend. cbn [app cmd_end_ok] in Hend. cbn [forallb] in Htx. apply andb_true_iff in Htx.
    destruct Htx as [Hb _]. rewrite Hb in Hend. cbn [negb orb] in Hend. apply andb_true_iff in Hend.
    destruct Hend as [E1 E2]. apply N.eqb_eq in E1. apply Z.eqb_eq in E2. subst b. exists t. split; [reflexivity | exact E2]. }
  set (tail := sp :: args ++ tailx).
  set (mform := [k1; k2; k3] ++ tail).
  assert (Emf : mform = form ++ tailx) by reflexivity.
  assert (Ed : data = pre ++ mform ++ stop).
  { unfold data. rewrite Emf, Esuf, <- !app_assoc. reflexivity. }
  assert (Hlt : (List.length tailx <= List.length suf)%nat).
  { pose proof (f_equal (@List.length N) Esuf) as EL. rewrite app_length in EL. lia. }
  assert (R : runsB (fun bf => word_at bf = false) (List.length tail + 70) RE_shell_CMD_RE mform stop
                (fun i c => (1%nat, (i, i + 3)) :: c)).
  { apply cmd_runs; [exact Hk1 | exact Hk2 | exact Hk3 | exact Hspw | | exact Hstop].
    unfold tail. cbn [forallb]. rewrite Hspn, forallb_app, Hargs, Htx. reflexivity. }
  assert (Hfl : (List.length tail + 70 <= default_fuel)%nat).
  { unfold tail. cbn [List.length]. rewrite app_length. unfold form in Hfuel. cbn [List.length app] in Hfuel. lia. }
  rewrite Ed in Hq.
  destruct (fi_formB _ RE_shell_CMD_RE NG_shell_CMD_RE pre mform stop _ _ Hq R Hpre Hfl ltac:(discriminate))
    as [H | (rest & Hfi & Hrest)].
  { left. unfold find_cmd_strings. rewrite Ed, H. reflexivity. }
  rewrite <- Ed in Hfi.
  set (s := blen pre) in *. set (e := s + blen mform) in *.
  change (mk_mtch NG_shell_CMD_RE s e [(1%nat, (s, s + 3))]) with ([Some (s, e); Some (s, s + 3)] : mtch) in Hfi.
  set (mt := ([Some (s, e); Some (s, s + 3)] : mtch)) in *.
  assert (Eg0 : group data mt 0 = mform) by (unfold group, mt; cbn [nth]; unfold e, s; rewrite Ed; apply slice_mid).
  assert (Ecutn : paren_cut mform = blen form) by (rewrite Emf; apply paren_cut_form; assumption).
  assert (Ecut : cmd_cut mform = form) by (unfold cmd_cut; rewrite Ecutn, Emf; apply slice_0_app_whole).
  assert (Hbl : blen mform = blen form + blen tailx) by (rewrite Emf; apply Base64Proofs.blen_app).
  assert (Een : (if paren_cut mform <? blen mform then s + paren_cut mform else e) = s + blen form).
  { rewrite Ecutn. destruct (blen form <? blen mform) eqn:El; [reflexivity|].
    apply Z.ltb_ge in El. pose proof (blen_nonneg tailx). unfold e. lia. }
  (* the three letters are c m d in either case: the first word of the de-escaped text is the command word *)
  assert (Hsplit : exists ws, split_ws (cmd_unescape form) = [k1; k2; k3] :: ws /\ trailing_quote [k1; k2; k3] = false).
  { unfold form, cmd_unescape. cbn [app].
    destruct (lower1_cases _ _ Hk1) as [-> | E1]; [|assert (k1 = 67%N) by lia; subst k1];
    (destruct (lower1_cases _ _ Hk2) as [-> | E2]; [|assert (k2 = 77%N) by lia; subst k2]);
    (destruct (lower1_cases _ _ Hk3) as [-> | E3]; [|assert (k3 = 68%N) by lia; subst k3]);
    do 3 (rewrite cmd_unescape_plain by reflexivity);
    rewrite (cmd_unescape_space sp args Hsp);
    (eexists; split; [apply split_ws_word3; [reflexivity | reflexivity | reflexivity | exact Hsp] | vm_compute; reflexivity]). }
  destruct Hsplit as (ws & Hws & Htq).
  pose proof (cmd_one_spec data mt) as Hone. cbv zeta in Hone. rewrite Eg0, Ecut, Hws, Htq in Hone.
  change (m_start mt 0) with s in Hone. change (m_end mt 0) with e in Hone. rewrite Een in Hone.
  assert (Elab : (if negb (beqb (cmd_unescape form) form) then carets_label else []) = cmd_label form).
  { unfold cmd_label. destruct (beqb (cmd_unescape form) form); reflexivity. }
  rewrite Elab in Hone.
  assert (Hrest' : Forall (fun mt => s + blen form <= m_start mt 0) rest).
  { eapply Forall_impl; [|exact Hrest]. intros x Hx. fold e in Hx. pose proof (blen_nonneg tailx). unfold e in Hx. lia. }
  destruct (find_cmd_strings_never_raises data) as [HT | (nodes & HT & _)];
    unfold find_cmd_strings in HT |- *; rewrite Hfi in HT |- *; cbn [bind] in HT |- *;
    unfold find_cmd_strings_post in HT |- *; cbn [mapM] in HT |- *; rewrite Hone in HT |- *; cbn [bind] in HT |- *;
    destruct (mapM (cmd_one data) rest) as [out|ex|] eqn:ER; cbn [bind] in HT |- *; try discriminate HT;
    try (left; reflexivity).
  right. exists out. split; [reflexivity|]. apply (cmd_post_starts data _ rest out Hrest' ER).
Qed.

(* decidable form of the hypothesis on the prefix: no byte of it can start a match (no double quote, no letter c) *)
Theorem find_cmd_strings_roundtrip kw sp args pre suf :
  lower kw = L"cmd" -> is_space_ascii sp = true -> forallb nn_byte args = true ->
  let form := kw ++ sp :: args in
  par_ok form 0 = true -> cmd_end_ok form suf = true ->
  neutral RE_shell_CMD_RE pre = true -> word_at (rev pre) = false ->
  (List.length form + List.length suf + 80 <= default_fuel)%nat ->
  let data := pre ++ form ++ suf in
  find_cmd_strings data = Hang \/
  exists rest, find_cmd_strings data
               = Ok (Node (L"shell.cmd") (cmd_unescape form) (cmd_label form) (blen pre) (blen pre + blen form) [] :: rest) /\
               Forall (fun nd => blen pre + blen form <= n_st nd) rest.
Proof.
  intros Hkw Hsp Hargs form Hpar Hend Hn Hpre Hfuel data.
  apply find_cmd_strings_roundtrip_quiet; try assumption.
  apply quiet_no_first_a; [vm_compute; reflexivity | | exact Hn].
  apply (Nat.le_trans _ 1000); [apply Nat.leb_le; vm_compute; reflexivity | exact fuel_1000].
Qed.

(* ---- the caret layer (C02): for the documented spelling  cmd /c e  the value is  cmd /c  followed by the
   de-escaped e; it is labelled exactly when de-escaping changed e ---- *)
Lemma cmd_c_unescape e : cmd_unescape (L"cmd /c " ++ e) = L"cmd /c " ++ cmd_unescape e.
Proof. reflexivity. Qed.

Corollary find_cmd_strings_caret_layer pre e p suf :
  cmd_unescape e = p -> forallb nn_byte e = true -> par_ok e 0 = true ->
  cmd_end_ok e suf = true ->
  neutral RE_shell_CMD_RE pre = true -> word_at (rev pre) = false ->
  (List.length e + List.length suf + 90 <= default_fuel)%nat ->
  let form := L"cmd /c " ++ e in
  let data := pre ++ form ++ suf in
  find_cmd_strings data = Hang \/
  exists rest, find_cmd_strings data
               = Ok (Node (L"shell.cmd") (L"cmd /c " ++ p) (if beqb p e then [] else carets_label)
                          (blen pre) (blen pre + blen form) [] :: rest) /\
               Forall (fun nd => blen pre + blen form <= n_st nd) rest.
Proof.
  intros Hp He Hpar Hend Hn Hpre Hfuel form data.
  pose proof (find_cmd_strings_roundtrip (L"cmd") 32%N (L"/c " ++ e) pre suf eq_refl eq_refl) as T.
  cbv zeta in T. change (L"cmd" ++ 32%N :: L"/c " ++ e) with form in T.
  assert (Ev : cmd_unescape form = L"cmd /c " ++ p) by (unfold form; rewrite cmd_c_unescape, Hp; reflexivity).
  assert (El : cmd_label form = if beqb p e then [] else carets_label).
  { unfold cmd_label. rewrite Ev. reflexivity. }
  rewrite Ev, El in T. apply T; [exact He | exact Hpar | exact Hend | exact Hn | exact Hpre |].
  unfold form. rewrite app_length. change (List.length (L"cmd /c ")) with 7%nat. lia.
Qed.

(* the same, in terms of the transliterated strip_carets loop *)
Corollary find_cmd_strings_caret_layer_impl pre e p suf :
  strip_carets_impl e = Ok p -> forallb nn_byte e = true -> par_ok e 0 = true ->
  cmd_end_ok e suf = true ->
  neutral RE_shell_CMD_RE pre = true -> word_at (rev pre) = false ->
  (List.length e + List.length suf + 90 <= default_fuel)%nat ->
  let form := L"cmd /c " ++ e in
  let data := pre ++ form ++ suf in
  find_cmd_strings data = Hang \/
  exists rest, find_cmd_strings data
               = Ok (Node (L"shell.cmd") (L"cmd /c " ++ p) (if beqb p e then [] else carets_label)
                          (blen pre) (blen pre + blen form) [] :: rest) /\
               Forall (fun nd => blen pre + blen form <= n_st nd) rest.
Proof.
  intros Hp. rewrite strip_carets_correct in Hp. injection Hp as Hp. apply find_cmd_strings_caret_layer. exact Hp.
Qed.

(* ------------------------------------------------------------------ *)
(* 6.  Examples: non-vacuity, the tie with Python, the side conditions   *)
(* ------------------------------------------------------------------ *)
(* Expected values = what /venv/bin/python prints for the same bytes with multidecoder.decoders.vba.find_createobject,
   multidecoder.decoders.path.find_path, multidecoder.decoders.network.find_domains and
   multidecoder.decoders.shell.find_cmd_strings. *)
Ltac small_fuel5 := apply (Nat.le_trans _ 1000); [apply Nat.leb_le; vm_compute; reflexivity | exact fuel_1000].

Example rt5_shapes :
  startable RE_vba_CREATE_OBJECT_RE = true /\ startable RE_path_PATH_RE = true /\
  dom_shape RE_network_DOMAIN_RE = true /\ startable_a RE_shell_CMD_RE = true /\ startable RE_shell_CMD_RE = false.
Proof. vm_compute. repeat split; reflexivity. Qed.

(* ---- find_createobject ---- *)
Example rt5_co_hyps :
  lower (L"CreateObject(") = L"createobject(" /\ paren_balanced (L"""WScript.Shell""") = true /\
  neutral RE_vba_CREATE_OBJECT_RE (L"Set o = ") = true.
Proof. vm_compute. repeat split; reflexivity. Qed.
Example rt5_co_run :
  find_createobject (L"Set o = " ++ (L"CreateObject(" ++ L"""WScript.Shell""" ++ L")") ++ L": o.Run x")
  = Ok [Node (L"vba.function.createobject") (L"CreateObject(""WScript.Shell"")") [] 8 37 []].
Proof. vm_compute. reflexivity. Qed.
Example rt5_co_thm :
  let data := L"Set o = " ++ (L"CreateObject(" ++ L"""WScript.Shell""" ++ L")") ++ L": o.Run x" in
  find_createobject data = Hang \/
  exists rest, find_createobject data
               = Ok (Node (L"vba.function.createobject") (L"CreateObject(""WScript.Shell"")") [] 8 37 [] :: rest) /\
               Forall (fun nd => 21 <= n_st nd) rest.
Proof.
  apply (find_createobject_roundtrip (L"CreateObject(") (L"Set o = ") (L"""WScript.Shell""") (L": o.Run x"));
    vm_compute; reflexivity.
Qed.
(* an argument without the letter c: the other nodes start after the form *)
Example rt5_co_thm_neutral :
  let data := L"Set o = " ++ (L"CreateObject(" ++ L"""ADODB.Stream""" ++ L")") ++ L": o.Open" in
  find_createobject data = Hang \/
  exists rest, find_createobject data
               = Ok (Node (L"vba.function.createobject") (L"CreateObject(""ADODB.Stream"")") [] 8 36 [] :: rest) /\
               Forall (fun nd => 36 <= n_st nd) rest.
Proof.
  apply (find_createobject_roundtrip_neutral (L"CreateObject(") (L"Set o = ") (L"""ADODB.Stream""") (L": o.Open"));
    vm_compute; reflexivity.
Qed.
(* any letter case, nested parentheses in the argument, a suffix that begins with a closing parenthesis *)
Example rt5_co_case :
  lower (L"cReAtEoBjEcT(") = L"createobject(" /\ paren_balanced (L"a(b)(c)") = true /\
  find_createobject (L"y = " ++ (L"cReAtEoBjEcT(" ++ L"a(b)(c)" ++ L")") ++ L") z")
  = Ok [Node (L"vba.function.createobject") (L"cReAtEoBjEcT(a(b)(c))") [] 4 25 []].
Proof. vm_compute. repeat split; reflexivity. Qed.
(* the empty argument; two calls in a row *)
Example rt5_co_empty :
  paren_balanced [] = true /\
  find_createobject (L"CreateObject(" ++ [] ++ L")") = Ok [Node (L"vba.function.createobject") (L"CreateObject()") [] 0 14 []] /\
  find_createobject (L"x" ++ (L"CreateObject(" ++ L"1" ++ L")") ++ L"CreateObject(2)")
  = Ok [Node (L"vba.function.createobject") (L"CreateObject(1)") [] 1 16 [];
        Node (L"vba.function.createobject") (L"CreateObject(2)") [] 16 31 []].
Proof. vm_compute. repeat split; reflexivity. Qed.
(* WHY the other nodes are only known to start after the opening parenthesis: a nested call in the argument is
   reported too, and it starts inside the first node (the argument is not neutral) *)
Example rt5_co_nested :
  paren_balanced (L"CreateObject(""a"").b(1)") = true /\
  neutral RE_vba_CREATE_OBJECT_RE (L"CreateObject(""a"").b(1)") = false /\
  find_createobject (L"x = " ++ (L"CreateObject(" ++ L"CreateObject(""a"").b(1)" ++ L")") ++ L" + 1")
  = Ok [Node (L"vba.function.createobject") (L"CreateObject(CreateObject(""a"").b(1))") [] 4 40 [];
        Node (L"vba.function.createobject") (L"CreateObject(""a"")") [] 17 34 []].
Proof. vm_compute. repeat split; reflexivity. Qed.
(* SIDE CONDITION: an argument that opens a parenthesis it does not close: no node *)
Example rt5_side_co_unbalanced :
  paren_balanced (L"(a") = false /\ find_createobject (L"CreateObject(" ++ L"(a" ++ L")") = Ok [].
Proof. vm_compute. split; reflexivity. Qed.
(* ... and one that closes more than it opens: the node ends at that parenthesis *)
Example rt5_side_co_closing :
  paren_balanced (L"a)b") = false /\
  find_createobject (L"CreateObject(" ++ L"a)b" ++ L")") = Ok [Node (L"vba.function.createobject") (L"CreateObject(a)") [] 0 15 []].
Proof. vm_compute. split; reflexivity. Qed.
(* the neutrality criterion (no letter c in the prefix) is sufficient, not necessary: this prefix is quiet *)
Example rt5_co_quiet_c :
  neutral RE_vba_CREATE_OBJECT_RE (L"c = ") = false /\
  quiet default_fuel RE_vba_CREATE_OBJECT_RE 4 (start_pos (L"c = " ++ L"CreateObject(""x"")")) /\
  find_createobject (L"c = " ++ L"CreateObject(""x"")") = Ok [Node (L"vba.function.createobject") (L"CreateObject(""x"")") [] 4 21 []].
Proof. split; [vm_compute; reflexivity|]. split; [|vm_compute; reflexivity]. cbn [quiet]. repeat split; vm_compute; reflexivity. Qed.

(* ---- find_path ---- *)
Example rt5_path_hyps :
  path_dots [] = true /\ forallb seg_ok [L"usr"; L"local"] = true /\ fname_ok (L"bin") = true /\ path_stop (L" ok") = true /\
  neutral RE_path_PATH_RE (L"see ") = true /\ path_form [] [L"usr"; L"local"] (L"bin") = L"/usr/local/bin".
Proof. vm_compute. repeat split; reflexivity. Qed.
Example rt5_path_run :
  find_path (L"see " ++ path_form [] [L"usr"; L"local"] (L"bin") ++ L" ok") = Ok [Node (L"path") (L"/usr/local/bin") [] 4 18 []].
Proof. vm_compute. reflexivity. Qed.
Example rt5_path_thm :
  let data := L"see " ++ path_form [] [L"usr"; L"local"] (L"bin") ++ L" ok" in
  find_path data = Hang \/
  exists rest, find_path data = Ok (Node (L"path") (L"/usr/local/bin") [] 4 18 [] :: rest) /\ Forall (fun nd => 18 <= n_st nd) rest.
Proof.
  apply (find_path_roundtrip (L"see ") [] [L"usr"; L"local"] (L"bin") (L" ok"));
    [ vm_compute; reflexivity | discriminate | vm_compute; reflexivity | vm_compute; reflexivity | vm_compute; reflexivity
    | small_fuel5 | vm_compute; reflexivity ].
Qed.
(* one and two leading dots, dots in the file part, a second path after *)
Example rt5_path_dots :
  find_path (L"x=" ++ path_form (L".") [L"foo"] (L"bar.txt") ++ L";") = Ok [Node (L"path") (L"./foo/bar.txt") [] 2 15 []] /\
  find_path (L"""" ++ path_form (L"..") [L"abc"; L"def"] (L"ghi.jk") ++ L"""") = Ok [Node (L"path") (L"../abc/def/ghi.jk") [] 1 18 []] /\
  find_path (L"see " ++ path_form [] [L"usr"; L"local"] (L"bin") ++ L", /etc/passwd")
  = Ok [Node (L"path") (L"/usr/local/bin") [] 4 18 []; Node (L"path") (L"/etc/passwd") [] 20 31 []].
Proof. vm_compute. repeat split; reflexivity. Qed.
(* SIDE CONDITIONS: three bytes at least in every segment and in the file part *)
Example rt5_side_path_short :
  seg_ok (L"ab") = false /\ find_path (path_form [] [L"ab"] (L"cde")) = Ok [] /\
  fname_ok (L"de") = false /\ find_path (path_form [] [L"abc"] (L"de")) = Ok [].
Proof. vm_compute. repeat split; reflexivity. Qed.
(* a dot in a directory segment ends the path there *)
Example rt5_side_path_seg_dot :
  seg_ok (L"lo.al") = false /\ find_path (path_form [] [L"usr"; L"lo.al"] (L"bin")) = Ok [Node (L"path") (L"/usr/lo.al") [] 0 10 []].
Proof. vm_compute. split; reflexivity. Qed.
(* the byte after: a word byte or a dot extends the file part *)
Example rt5_side_path_suffix :
  map path_stop [L"x"; L"."; L"/ x"] = [false; false; false] /\
  find_path (path_form [] [L"usr"; L"local"] (L"bin") ++ L"x") = Ok [Node (L"path") (L"/usr/local/binx") [] 0 15 []] /\
  find_path (path_form [] [L"usr"; L"local"] (L"bin") ++ L".") = Ok [Node (L"path") (L"/usr/local/bin.") [] 0 15 []].
Proof. vm_compute. repeat split; reflexivity. Qed.
(* a slash after is excluded by path_stop but does not hurt (the attempt to read one more segment is undone):
   the condition is sufficient, not necessary *)
Example rt5_side_path_slash_not_necessary :
  find_path (path_form [] [L"usr"; L"local"] (L"bin") ++ L"/ x") = Ok [Node (L"path") (L"/usr/local/bin") [] 0 14 []].
Proof. vm_compute. reflexivity. Qed.
(* the prefix: a dot just before is taken into the match, a path-like prefix swallows the form *)
Example rt5_side_path_prefix :
  neutral RE_path_PATH_RE (L"a.") = false /\ neutral RE_path_PATH_RE (L"/abc") = false /\
  find_path (L"a." ++ path_form [] [L"usr"; L"local"] (L"bin")) = Ok [Node (L"path") (L"./usr/local/bin") [] 1 16 []] /\
  find_path (L"/abc" ++ path_form [] [L"usr"; L"local"] (L"bin")) = Ok [Node (L"path") (L"/abc/usr/local/bin") [] 0 18 []].
Proof. vm_compute. repeat split; reflexivity. Qed.

(* ---- find_domains ---- *)
Example rt5_dom_hyps :
  labels_ok [L"www"; L"example"] = true /\ tld_ok (L"com") = true /\ mem (upper (L"com")) TOP_LEVEL_DOMAINS = true /\
  domain_form [L"www"; L"example"] (L"com") = L"www.example.com" /\
  domain_fp_b root_fpos tld_fpos (L"www.example.com") = false /\
  dom_pre_ok (L"see ") = true /\ dom_stop (L" now") = true.
Proof. vm_compute. repeat split; reflexivity. Qed.
Example rt5_dom_run :
  find_domains TOP_LEVEL_DOMAINS root_fpos tld_fpos (L"see " ++ L"www.example.com" ++ L" now")
  = Ok [Node (L"network.domain") (L"www.example.com") [] 4 19 []].
Proof. vm_compute. reflexivity. Qed.
Example rt5_dom_thm :
  let data := L"see " ++ L"www.example.com" ++ L" now" in
  find_domains TOP_LEVEL_DOMAINS root_fpos tld_fpos data = Hang \/
  exists rest, find_domains TOP_LEVEL_DOMAINS root_fpos tld_fpos data
               = Ok (Node (L"network.domain") (L"www.example.com") [] 4 19 [] :: rest) /\ Forall (fun nd => 19 <= n_st nd) rest.
Proof.
  apply (find_domains_roundtrip_table (L"see ") [L"www"; L"example"] (L"com") (L" now"));
    [ vm_compute; reflexivity | vm_compute; reflexivity | vm_compute; reflexivity | vm_compute; discriminate
    | vm_compute; reflexivity | vm_compute; reflexivity | vm_compute; reflexivity | small_fuel5 ].
Qed.
(* the digit 0 after the name is allowed by the look-ahead (strings of PE files) *)
Example rt5_dom_zero :
  dom_stop (L"0") = true /\ dom_stop (L"0- y") = true /\ dom_stop (L"00 y") = true /\
  find_domains TOP_LEVEL_DOMAINS root_fpos tld_fpos (L"visit: " ++ L"www.example.com" ++ L"0")
  = Ok [Node (L"network.domain") (L"www.example.com") [] 7 22 []] /\
  find_domains TOP_LEVEL_DOMAINS root_fpos tld_fpos (L"x " ++ L"www.example.com" ++ L"0- y")
  = Ok [Node (L"network.domain") (L"www.example.com") [] 2 17 []].
Proof. vm_compute. repeat split; reflexivity. Qed.
Example rt5_dom_zero_thm :
  let data := L"visit: " ++ L"www.example.com" ++ L"0" in
  find_domains TOP_LEVEL_DOMAINS root_fpos tld_fpos data = Hang \/
  exists rest, find_domains TOP_LEVEL_DOMAINS root_fpos tld_fpos data
               = Ok (Node (L"network.domain") (L"www.example.com") [] 7 22 [] :: rest) /\ Forall (fun nd => 22 <= n_st nd) rest.
Proof.
  apply (find_domains_roundtrip_table (L"visit: ") [L"www"; L"example"] (L"com") (L"0"));
    [ vm_compute; reflexivity | vm_compute; reflexivity | vm_compute; reflexivity | vm_compute; discriminate
    | vm_compute; reflexivity | vm_compute; reflexivity | vm_compute; reflexivity | small_fuel5 ].
Qed.
(* ... unless the run of label bytes after the 0 ends in a dot: then the name goes on *)
Example rt5_side_dom_zero_more :
  dom_stop (L"0.org y") = false /\
  find_domains TOP_LEVEL_DOMAINS root_fpos tld_fpos (L"x " ++ L"www.example.com" ++ L"0.org y")
  = Ok [Node (L"network.domain") (L"www.example.com0.org") [] 2 22 []] /\
  find_domains TOP_LEVEL_DOMAINS root_fpos tld_fpos (L"x " ++ L"www.example.com" ++ L"00 y")
  = Ok [Node (L"network.domain") (L"www.example.com") [] 2 17 []].
Proof. vm_compute. repeat split; reflexivity. Qed.
(* hyphens and digits in labels, a long top level domain, upper case first label, brackets, bytes above 127 around *)
Example rt5_dom_run2 :
  find_domains TOP_LEVEL_DOMAINS root_fpos tld_fpos (L"x " ++ domain_form [L"mail-1"; L"ex-ample"] (L"museum") ++ L", y")
  = Ok [Node (L"network.domain") (L"mail-1.ex-ample.museum") [] 2 24 []] /\
  find_domains TOP_LEVEL_DOMAINS root_fpos tld_fpos (domain_form [L"example"] (L"travelersinsurance") ++ L"0")
  = Ok [Node (L"network.domain") (L"example.travelersinsurance") [] 0 26 []] /\
  find_domains TOP_LEVEL_DOMAINS root_fpos tld_fpos (domain_form [L"Example"] (L"Com"))
  = Ok [Node (L"network.domain") (L"Example.Com") [] 0 11 []] /\
  find_domains TOP_LEVEL_DOMAINS root_fpos tld_fpos (L"[" ++ L"www.example.com" ++ L"]")
  = Ok [Node (L"network.domain") (L"www.example.com") [] 1 16 []] /\
  find_domains TOP_LEVEL_DOMAINS root_fpos tld_fpos ([233%N] ++ L"www.example.com" ++ [233%N])
  = Ok [Node (L"network.domain") (L"www.example.com") [] 1 16 []] /\
  find_domains TOP_LEVEL_DOMAINS root_fpos tld_fpos (L"www.example.com" ++ L" www.example.org")
  = Ok [Node (L"network.domain") (L"www.example.com") [] 0 15 []; Node (L"network.domain") (L"www.example.org") [] 16 31 []].
Proof. vm_compute. repeat split; reflexivity. Qed.
(* the criterion "no dot in the prefix" is sufficient, not necessary: these prefixes are quiet *)
Example rt5_dom_quiet_dot :
  dom_pre_ok (L"v1.0: ") = false /\
  quiet default_fuel RE_network_DOMAIN_RE 6 (start_pos (L"v1.0: " ++ L"www.example.com")) /\
  find_domains TOP_LEVEL_DOMAINS root_fpos tld_fpos (L"v1.0: " ++ L"www.example.com")
  = Ok [Node (L"network.domain") (L"www.example.com") [] 6 21 []].
Proof. split; [vm_compute; reflexivity|]. split; [|vm_compute; reflexivity]. cbn [quiet]. repeat split; vm_compute; reflexivity. Qed.

(* SIDE CONDITIONS of find_domains (all agree with Python) *)
(* the byte before: a hyphen is taken into the match; an underscore or a backslash hides the name; a dot-terminated
   prefix makes a longer name *)
Example rt5_side_dom_pre :
  map dom_abut_ok [L"-"; L"_"; L"\"; L"mail."] = [false; false; false; false] /\
  find_domains TOP_LEVEL_DOMAINS root_fpos tld_fpos (L"-" ++ L"www.example.com")
  = Ok [Node (L"network.domain") (L"-www.example.com") [] 0 16 []] /\
  find_domains TOP_LEVEL_DOMAINS root_fpos tld_fpos (L"_" ++ L"www.example.com") = Ok [] /\
  find_domains TOP_LEVEL_DOMAINS root_fpos tld_fpos (L"\" ++ L"www.example.com") = Ok [] /\
  find_domains TOP_LEVEL_DOMAINS root_fpos tld_fpos (L"mail." ++ L"www.example.com")
  = Ok [Node (L"network.domain") (L"mail.www.example.com") [] 0 20 []].
Proof. vm_compute. repeat split; reflexivity. Qed.
(* the byte after *)
Example rt5_side_dom_suffix :
  map dom_stop [L"("; L"="; L"_"; L"-"; L"1"; L"."; L"x"] = [false; false; false; false; false; false; false] /\
  map (fun s => find_domains TOP_LEVEL_DOMAINS root_fpos tld_fpos (L"www.example.com" ++ s))
      [L"("; L"="; L"_"; L"-"; L"1"; L"."; L"x"] = [Ok []; Ok []; Ok []; Ok []; Ok []; Ok []; Ok []].
Proof. vm_compute. split; reflexivity. Qed.
(* seven bytes at least; the top level domain must be in the table *)
Example rt5_side_dom_short :
  find_domains TOP_LEVEL_DOMAINS root_fpos tld_fpos (domain_form [L"abc"] (L"de")) = Ok [] /\
  find_domains TOP_LEVEL_DOMAINS root_fpos tld_fpos (domain_form [L"abcd"] (L"de"))
  = Ok [Node (L"network.domain") (L"abcd.de") [] 0 7 []] /\
  mem (upper (L"zzzz")) TOP_LEVEL_DOMAINS = false /\
  find_domains TOP_LEVEL_DOMAINS root_fpos tld_fpos (domain_form [L"www"; L"example"] (L"zzzz")) = Ok [].
Proof. vm_compute. repeat split; reflexivity. Qed.
(* the false-positive shapes: attribute access (a capitalised label after an all-lower-case first label), a variable-like
   root with a common attribute name, a one-letter root, this., prototype, next + iterator *)
Example rt5_side_dom_fp :
  map (domain_fp_b root_fpos tld_fpos)
      [L"www.Example.com"; L"data.my.io"; L"x.example.io"; L"this.example.com"; L"ab.prototype.io"; L"iterator.example.next"]
  = [true; true; true; true; true; true] /\
  attr_shape (L"www.Example.com") = true /\ attr_shape (L"Example.Com") = false /\
  map (fun s => find_domains TOP_LEVEL_DOMAINS root_fpos tld_fpos (L"a " ++ s ++ L" b"))
      [L"www.Example.com"; L"data.my.io"; L"x.example.io"; L"this.example.com"; L"ab.prototype.io"; L"iterator.example.next"]
  = [Ok []; Ok []; Ok []; Ok []; Ok []; Ok []] /\
  domain_fp_b root_fpos tld_fpos (L"my.data.io") = false /\
  find_domains TOP_LEVEL_DOMAINS root_fpos tld_fpos (L"my.data.io") = Ok [Node (L"network.domain") (L"my.data.io") [] 0 10 []].
Proof. vm_compute. repeat split; reflexivity. Qed.
(* the last clause of the filter compares bytes with a str and never fires: libfoo.so is reported *)
Example rt5_dom_lib_so :
  domain_fp_b root_fpos tld_fpos (L"libfoo.so") = false /\
  find_domains TOP_LEVEL_DOMAINS root_fpos tld_fpos (L"libfoo.so") = Ok [Node (L"network.domain") (L"libfoo.so") [] 0 9 []].
Proof. vm_compute. split; reflexivity. Qed.
(* the boolean filter agrees with the model of the Python filter on the examples above *)
Example rt5_dom_fp_agrees :
  map (domain_is_false_positive root_fpos tld_fpos)
      [L"www.Example.com"; L"data.my.io"; L"x.example.io"; L"this.example.com"; L"ab.prototype.io"; L"iterator.example.next";
       L"my.data.io"; L"www.example.com"; L"Example.Com"; L"libfoo.so"]
  = map (fun d => Ok (domain_fp_b root_fpos tld_fpos d))
      [L"www.Example.com"; L"data.my.io"; L"x.example.io"; L"this.example.com"; L"ab.prototype.io"; L"iterator.example.next";
       L"my.data.io"; L"www.example.com"; L"Example.Com"; L"libfoo.so"].
Proof. vm_compute. reflexivity. Qed.

(* ---- find_cmd_strings ---- *)
Definition NUL : bytes := [0%N].
Example rt5_cmd_hyps :
  lower (L"cmd") = L"cmd" /\ is_space_ascii 32 = true /\ forallb nn_byte (L"/c echo hi") = true /\
  par_ok (L"cmd /c echo hi") 0 = true /\ cmd_end_ok (L"cmd /c echo hi") [] = true /\
  neutral RE_shell_CMD_RE (L"x ") = true /\ word_at (rev (L"x ")) = false.
Proof. vm_compute. repeat split; reflexivity. Qed.
Example rt5_cmd_run :
  find_cmd_strings (L"x " ++ L"cmd /c echo hi") = Ok [Node (L"shell.cmd") (L"cmd /c echo hi") [] 2 16 []].
Proof. vm_compute. reflexivity. Qed.
Example rt5_cmd_thm :
  let data := L"x " ++ (L"cmd" ++ 32%N :: L"/c echo hi") ++ [] in
  find_cmd_strings data = Hang \/
  exists rest, find_cmd_strings data = Ok (Node (L"shell.cmd") (L"cmd /c echo hi") [] 2 16 [] :: rest) /\
               Forall (fun nd => 16 <= n_st nd) rest.
Proof.
  apply (find_cmd_strings_roundtrip (L"cmd") 32%N (L"/c echo hi") (L"x ") []);
    [ vm_compute; reflexivity | vm_compute; reflexivity | vm_compute; reflexivity | vm_compute; reflexivity
    | vm_compute; reflexivity | vm_compute; reflexivity | vm_compute; reflexivity | small_fuel5 ].
Qed.
(* the caret layer: the value is the de-escaped text, labelled because de-escaping changed it *)
Example rt5_cmd_carets :
  cmd_unescape (L"p^ow^ersh^ell -e^nc ABC") = L"powershell -enc ABC" /\
  find_cmd_strings (L"run: " ++ L"cmd /c " ++ L"p^ow^ersh^ell -e^nc ABC")
  = Ok [Node (L"shell.cmd") (L"cmd /c powershell -enc ABC") (L"unescape.shell.carets") 5 35 []].
Proof. vm_compute. split; reflexivity. Qed.
Example rt5_cmd_carets_thm :
  let data := L"run: " ++ (L"cmd /c " ++ L"p^ow^ersh^ell -e^nc ABC") ++ [] in
  find_cmd_strings data = Hang \/
  exists rest, find_cmd_strings data
               = Ok (Node (L"shell.cmd") (L"cmd /c powershell -enc ABC") (L"unescape.shell.carets") 5 35 [] :: rest) /\
               Forall (fun nd => 35 <= n_st nd) rest.
Proof.
  apply (find_cmd_strings_caret_layer (L"run: ") (L"p^ow^ersh^ell -e^nc ABC") (L"powershell -enc ABC") []);
    [ vm_compute; reflexivity | vm_compute; reflexivity | vm_compute; reflexivity | vm_compute; reflexivity
    | vm_compute; reflexivity | vm_compute; reflexivity | small_fuel5 ].
Qed.
(* a caret inside double quotes is literal, a trailing caret is dropped, carets in the command name *)
Example rt5_cmd_carets2 :
  find_cmd_strings (L"cmd /c ""a^b"" ^& x") = Ok [Node (L"shell.cmd") (L"cmd /c ""a^b"" & x") (L"unescape.shell.carets") 0 17 []] /\
  find_cmd_strings (L"cmd /c dir^") = Ok [Node (L"shell.cmd") (L"cmd /c dir") (L"unescape.shell.carets") 0 11 []] /\
  find_cmd_strings (L"cmd /c e^c^h^o hi") = Ok [Node (L"shell.cmd") (L"cmd /c echo hi") (L"unescape.shell.carets") 0 17 []].
Proof. vm_compute. repeat split; reflexivity. Qed.
(* the command ends at a NUL byte; the next command is found after it *)
Example rt5_cmd_nul :
  cmd_end_ok (L"cmd /c dir") (NUL ++ L"junk cmd /c x") = true /\
  find_cmd_strings (L"cmd /c dir" ++ NUL ++ L"junk cmd /c x")
  = Ok [Node (L"shell.cmd") (L"cmd /c dir") [] 0 10 []; Node (L"shell.cmd") (L"cmd /c x") [] 16 24 []].
Proof. vm_compute. split; reflexivity. Qed.
(* ... or at a closing parenthesis that has no partner; balanced parentheses inside are kept *)
Example rt5_cmd_paren :
  cmd_end_ok (L"cmd /c echo hi") (L") & other") = true /\ par_ok (L"cmd /c (echo a) & (echo b)") 0 = true /\
  find_cmd_strings (L"(" ++ L"cmd /c echo hi" ++ L") & other") = Ok [Node (L"shell.cmd") (L"cmd /c echo hi") [] 1 15 []] /\
  find_cmd_strings (L"cmd /c (echo a) & (echo b)") = Ok [Node (L"shell.cmd") (L"cmd /c (echo a) & (echo b)") [] 0 26 []].
Proof. vm_compute. repeat split; reflexivity. Qed.
Example rt5_cmd_paren_thm :
  let data := L"(" ++ (L"cmd" ++ 32%N :: L"/c echo hi") ++ L") & other" in
  find_cmd_strings data = Hang \/
  exists rest, find_cmd_strings data = Ok (Node (L"shell.cmd") (L"cmd /c echo hi") [] 1 15 [] :: rest) /\
               Forall (fun nd => 15 <= n_st nd) rest.
Proof.
  apply (find_cmd_strings_roundtrip (L"cmd") 32%N (L"/c echo hi") (L"(") (L") & other"));
    [ vm_compute; reflexivity | vm_compute; reflexivity | vm_compute; reflexivity | vm_compute; reflexivity
    | vm_compute; reflexivity | vm_compute; reflexivity | vm_compute; reflexivity | small_fuel5 ].
Qed.
(* any letter case of the word, a tab after it, line breaks inside the command text *)
Example rt5_cmd_spellings :
  find_cmd_strings (L"CMD /C dir") = Ok [Node (L"shell.cmd") (L"CMD /C dir") [] 0 10 []] /\
  find_cmd_strings (L"cmd" ++ [9%N] ++ L"/c dir") = Ok [Node (L"shell.cmd") (L"cmd" ++ [9%N] ++ L"/c dir") [] 0 10 []] /\
  find_cmd_strings (L"cmd /c dir" ++ [10%N] ++ L"next line") = Ok [Node (L"shell.cmd") (L"cmd /c dir" ++ [10%N] ++ L"next line") [] 0 20 []].
Proof. vm_compute. repeat split; reflexivity. Qed.
(* the neutrality criterion (no letter c, no double quote in the prefix) is sufficient, not necessary *)
Example rt5_cmd_quiet_c :
  neutral RE_shell_CMD_RE (L"echo ") = false /\
  quiet default_fuel RE_shell_CMD_RE 5 (start_pos (L"echo " ++ L"cmd /c dir")) /\
  find_cmd_strings (L"echo " ++ L"cmd /c dir") = Ok [Node (L"shell.cmd") (L"cmd /c dir") [] 5 15 []].
Proof. split; [vm_compute; reflexivity|]. split; [|vm_compute; reflexivity]. cbn [quiet]. repeat split; vm_compute; reflexivity. Qed.

(* SIDE CONDITIONS of find_cmd_strings (all agree with Python) *)
(* the byte before the word must not be a word byte *)
Example rt5_side_cmd_pre :
  word_at (rev (L"x")) = true /\ word_at (rev (L"_")) = true /\ word_at (rev (L"-")) = false /\
  find_cmd_strings (L"x" ++ L"cmd /c dir") = Ok [] /\ find_cmd_strings (L"_" ++ L"cmd /c dir") = Ok [] /\
  find_cmd_strings (L"-" ++ L"cmd /c dir") = Ok [Node (L"shell.cmd") (L"cmd /c dir") [] 1 11 []].
Proof. vm_compute. repeat split; reflexivity. Qed.
(* a closing parenthesis without partner INSIDE the text ends the node there *)
Example rt5_side_cmd_unbalanced :
  par_ok (L"cmd /c echo a) b") 0 = false /\
  find_cmd_strings (L"cmd /c echo a) b") = Ok [Node (L"shell.cmd") (L"cmd /c echo a") [] 0 13 []].
Proof. vm_compute. split; reflexivity. Qed.
(* FINDING: the parenthesis cut is made BEFORE the carets are removed and ignores quotes, so an ESCAPED closing parenthesis
   cuts the command as well: for the payload  echo ) x  and its spelling  echo ^) x  the value is not  cmd /c echo ) x
   (the caret layer law needs par_ok of the ESCAPED text) *)
Example rt5_side_cmd_escaped_paren :
  cmd_unescape (L"echo ^) x") = L"echo ) x" /\ par_ok (L"echo ^) x") 0 = false /\
  find_cmd_strings (L"cmd /c " ++ L"echo ^) x") = Ok [Node (L"shell.cmd") (L"cmd /c echo ") (L"unescape.shell.carets") 0 13 []] /\
  find_cmd_strings (L"cmd /c " ++ L"echo "")"" x") = Ok [Node (L"shell.cmd") (L"cmd /c echo """) [] 0 13 []].
Proof. vm_compute. repeat split; reflexivity. Qed.
(* text after the command that is neither a NUL nor an unbalanced parenthesis belongs to the command *)
Example rt5_side_cmd_suffix :
  cmd_end_ok (L"cmd /c dir") (L" && x") = false /\
  find_cmd_strings (L"cmd /c dir" ++ L" && x") = Ok [Node (L"shell.cmd") (L"cmd /c dir && x") [] 0 15 []].
Proof. vm_compute. split; reflexivity. Qed.
(* a double quote before the word: the closing quote stays in the value *)
Example rt5_side_cmd_quote :
  neutral RE_shell_CMD_RE (L"""") = false /\
  find_cmd_strings (L"""" ++ L"cmd /c dir" ++ L"""") = Ok [Node (L"shell.cmd") (L"cmd /c dir""") [] 1 12 []].
Proof. vm_compute. split; reflexivity. Qed.

Print Assumptions m_blocked_a.
Print Assumptions quiet_no_first_a.
Print Assumptions runsB_alt_r.
Print Assumptions fi_formB_gap.
Print Assumptions bal_ok_of_spec.
Print Assumptions gcb_scan_balanced.
Print Assumptions createobject_runs.
Print Assumptions find_createobject_roundtrip_quiet.
Print Assumptions find_createobject_roundtrip.
Print Assumptions find_createobject_roundtrip_neutral.
Print Assumptions path_seg_blocked.
Print Assumptions path_runs.
Print Assumptions find_path_roundtrip_quiet.
Print Assumptions find_path_roundtrip.
Print Assumptions quiet_dom_sep_free.
Print Assumptions domain_rest_runs0.
Print Assumptions domain_runs.
Print Assumptions blocked_plus_then.
Print Assumptions attr_blocked.
Print Assumptions attr_no_match.
Print Assumptions domain_fp_b_false.
Print Assumptions find_domains_roundtrip_quiet.
Print Assumptions find_domains_roundtrip.
Print Assumptions find_domains_roundtrip_table.
Print Assumptions paren_cut_form.
Print Assumptions cmd_kw_runs.
Print Assumptions cmd_runs.
Print Assumptions find_cmd_strings_roundtrip_quiet.
Print Assumptions find_cmd_strings_roundtrip.
Print Assumptions find_cmd_strings_caret_layer.
Print Assumptions find_cmd_strings_caret_layer_impl.
