(* END-TO-END round trips  instance -> find  for URLs (C11 / C10) and Windows drive paths (C12), INCLUDING span
   selection by the model's own backtracking matcher (Regex/Backtrack.v) on the regenerated regex terms
   (Generated/Regexes.v, referred to by name only; the terms are unfolded by the proof scripts, never copied).
   Continuation of Proofs/RoundTrip.v .. RoundTrip4.v: same conclusion shape (the form is the FIRST node, with exactly
   its span; every other node starts at or after its end), same fuel discipline.

   find_urls (sections 1-5).  [find_urls_roundtrip_simple]: URLs  scheme :// host path  with scheme in http, https,
   ftp (lower case), host = dotted labels followed by a top level domain of the table (RoundTrip3.labels_ok / tld_ok),
   of URL_HOST_MIN to URL_HOST_MAX bytes (read off the term), path = empty or a slash followed by bytes of the unreserved
   class and slashes, without dot segments and not ending in a full stop ([url_path_ok]).
   [find_urls_roundtrip_query]: the same followed by an optional  ? query  (unreserved bytes, equals sign, ampersand) and
   an optional  # fragment  (unreserved bytes), the LAST byte of the text not being a full stop ([url_qf_ok]).
   The pattern is NOT backtrack-free on such a text: the optional userinfo part first swallows the whole host (its class
   contains the host class) and the trailing punctuation, finds no at sign, gives every byte back and is skipped
   ([runs_userinfo_skip]); the star of the path part swallows the rest of the URL and the trailing punctuation and gives
   bytes back until the final class accepts one ([runs_star_last]).
   The suffix ([url_stop]): any number of bytes of quote, closing parenthesis, comma, semicolon (the pattern gives them
   back), then the end of the text or a byte outside the star class of the path part.  A full stop is NOT in that set:
   after a URL without path it belongs to the host class (rt6_side_url_full_stop).
   The prefix: quiet (no attempt succeeds in it; decidable sufficient condition [neutral]: no h, H, f, F) and
   [url_ctx_ok], the EXACT test of the model for the Pascal-string cut (never triggered by a printable prefix:
   [url_ctx_ok_printable]); the quote / parenthesis cut cannot happen because the text contains neither quote nor closing
   parenthesis.
   The Python after finditer: is_url accepts ([is_url_simple] / [is_url_qf], through the urlsplit model), percent
   normalisation and path normalisation are the identity, socket.inet_aton refuses the host because of the letters at its
   end ([aton_domain_raises]) and is_domain accepts it: the node is network.url with the text as value, no label, and the
   children scheme / network.domain / path / query / fragment with their exact spans ([url_simple_kids], [url_qf_kids]).

   find_windows_path (section 6).  [find_windows_path_roundtrip_drive]: a drive letter, colon, backslash, one or more
   directory names of at least three bytes of the class of the pattern (word bytes, full stop, hyphen; so none is a dot
   segment), each followed by a backslash, then a file name  base . ext  ([wfile_ok]); the suffix starts with neither a
   class byte nor a backslash.  ntpath.normpath is the identity ([normpath_wpath]), the node is windows.path with the text
   as value, no label, and one child: the file name, typed by its extension ([wpath_kids]).
   [Hang] stays in the conclusions only because the scan of the arbitrary suffix may run out of fuel. *)
From Coq Require Import List ZArith NArith Bool Lia Arith.
From MD Require Import Lib.Base Model.Node Regex.Syntax Regex.DerivProofs Regex.MonitorProofs
  Regex.Backtrack Regex.BacktrackProofs Regex.LocalityProofs Generated.Regexes Generated.Consts Model.Dec.ReLib.
From MD Require Import Model.Codec.Percent Model.Dec.Ip Model.Dec.UrlPath Model.Dec.UrlSplit Model.Dec.Network
  Generated.Tables.
From MD Require Import Proofs.BaseProofs Proofs.IpProofs Proofs.PercentProofs Proofs.UrlPathProofs Proofs.UrlSplitProofs
  Proofs.NetworkProofs Proofs.Shapes1 Proofs.Shapes2 Proofs.Shapes3 Proofs.RoundTrip Proofs.RoundTrip2 Proofs.RoundTrip3
  Proofs.RoundTrip4.
Import ListNotations.
Open Scope Z_scope.

(* ------------------------------------------------------------------ *)
(* 1.  Matcher facts                                                     *)
(* ------------------------------------------------------------------ *)
(* a negative look-ahead whose body fails *)
Lemma runs_nlook_blocked n a x : blocked n a x -> runs (S n) (NLook false a) [] x cf_id.
Proof.
  intros Hb f p c k Hp Hf Hk. destruct f as [|f]; [lia|]. cbn [m]. cbn [app] in Hp.
  rewrite (Hb f p c _ Hp ltac:(lia)). reflexivity.
Qed.

(* (class* at)? on a run of the class without at sign, followed by a byte that is neither: the star takes the
   run, the at sign is found nowhere, every byte is given back, the optional part is skipped *)
Lemma runs_userinfo_skip U AT hi w y :
  Forall (fun b => N.testbit U b = true /\ N.testbit AT b = false) w -> hd_out U y -> hd_out AT y ->
  runs (List.length w + 8) (Rep 0 hi (Seq (Rep 0 None (Cls U)) (Cls AT))) [] (w ++ y) cf_id.
Proof.
  intros HF HU HA.
  apply (runs_mono (S (List.length w + 4 + Nat.max 1 (spine (Cls AT))))); [|cbn [spine]; lia].
  apply runs_rep_stop_blocked.
  apply (blocked_star_then U (Cls AT) w y 1); [reflexivity | exact HF | exact HU |].
  apply (blocked_first (Cls AT) y); [reflexivity | exact HA].
Qed.

Lemma hd_out_skipn mk t x i :
  Forall (fun c => N.testbit mk c = false) t -> hd_out mk x -> hd_out mk (skipn i t ++ x).
Proof.
  intros HF Hx. destruct (skipn i t) as [|c r] eqn:E; [exact Hx|]. cbn [app hd_out].
  rewrite Forall_forall in HF. apply HF. rewrite <- (firstn_skipn i t), E. apply in_or_app. right. left. reflexivity.
Qed.

(* class* last  on a run of the class whose final byte b is in the class last, followed by a run t of bytes of the
   class that last refuses, then by a byte outside both: the star takes everything, last fails after it, the
   bytes of t and then b are given back *)
Lemma runs_star_last P PL w b t x :
  Forall (fun c => N.testbit P c = true) w -> N.testbit P b = true -> N.testbit PL b = true ->
  Forall (fun c => N.testbit P c = true /\ N.testbit PL c = false) t ->
  hd_out P x -> hd_out PL x ->
  runs (List.length w + List.length t + 6) (Seq (Rep 0 None (Cls P)) (Cls PL)) (w ++ [b]) (t ++ x) cf_id.
Proof.
  intros HF HPb HLb HT HPx HLx f p c k Hp Hf Hk. destruct f as [|f]; [lia|]. cbn [m]. unfold cf_id in Hk |- *.
  set (W := (w ++ [b]) ++ t).
  assert (HpW : p_after p = W ++ x) by (unfold W; rewrite <- app_assoc; exact Hp).
  assert (HFW : Forall (fun c0 => N.testbit P c0 = true) W).
  { unfold W. apply Forall_app. split; [apply Forall_app; split; [exact HF | constructor; [exact HPb | constructor]]|].
    eapply Forall_impl; [|exact HT]. intros a [Ha _]. exact Ha. }
  assert (HTL : Forall (fun c0 => N.testbit PL c0 = false) t).
  { eapply Forall_impl; [|exact HT]. intros a [_ Ha]. exact Ha. }
  assert (Hlen : List.length (w ++ [b]) = S (List.length w)) by (rewrite app_length; cbn [List.length]; lia).
  assert (HlenW : List.length W = (S (List.length w) + List.length t)%nat) by (unfold W; rewrite app_length, Hlen; reflexivity).
  destruct (seek_split (w ++ [b]) (t ++ x) p (List.length w) Hp ltac:(lia)) as [Q1 _].
  rewrite skipn_app, skipn_all, Nat.sub_diag in Q1. cbn [skipn app] in Q1.
  assert (Es : seek (List.length (w ++ [b])) p = seek 1 (seek (List.length w) p)).
  { rewrite Hlen. replace (S (List.length w)) with (List.length w + 1)%nat by lia.
    apply (seek_add (w ++ [b]) (t ++ x) p (List.length w) 1 Hp). lia. }
  assert (E1 : seek 1 (seek (List.length w) p)
               = {| p_i := p_i (seek (List.length w) p) + 1; p_before := b :: p_before (seek (List.length w) p);
                    p_after := t ++ x |}).
  { cbn [seek]. unfold adv. rewrite Q1. reflexivity. }
  set (K := fun p' c' => m f (Cls PL) p' c' k).
  assert (EK : K (seek (List.length w) p) c = k (seek (List.length (w ++ [b])) p) c).
  { unfold K. rewrite (m_cls_take f PL _ c k b (t ++ x) Q1 HLb ltac:(lia)). rewrite Es, E1. reflexivity. }
  rewrite <- EK.
  apply (m_rep_cls_first P W 0 f p c K x (List.length w) HFW HPx HpW); [lia | lia | | rewrite EK; exact Hk].
  intros j Hj. destruct (seek_split W x p j HpW ltac:(lia)) as [Q2 _].
  unfold K. apply (blocked_first (Cls PL) (skipn j W ++ x)); [reflexivity | | exact Q2 | cbn [spine]; lia].
  cbn [first_cls]. unfold W. rewrite skipn_app, Hlen.
  replace (skipn j (w ++ [b])) with (@nil N) by (symmetry; apply skipn_all2; rewrite Hlen; lia). cbn [app].
  apply hd_out_skipn; assumption.
Qed.

(* the same text when no byte can be final: the sequence fails *)
Lemma blocked_star_nolast P PL t x :
  Forall (fun c => N.testbit P c = true /\ N.testbit PL c = false) t -> hd_out P x -> hd_out PL x ->
  blocked (List.length t + 3) (Seq (Rep 0 None (Cls P)) (Cls PL)) (t ++ x).
Proof.
  intros HT HPx HLx f p c k Hp Hf. destruct f as [|f]; [lia|]. cbn [m].
  assert (HTP : Forall (fun c0 => N.testbit P c0 = true) t) by (eapply Forall_impl; [|exact HT]; intros a [Ha _]; exact Ha).
  assert (HTL : Forall (fun c0 => N.testbit PL c0 = false) t) by (eapply Forall_impl; [|exact HT]; intros a [_ Ha]; exact Ha).
  apply (m_rep_cls_fail P t 0 f p c _ x HTP HPx Hp); [lia|].
  intros j Hj. destruct (seek_split t x p j Hp ltac:(lia)) as [Q2 _].
  apply (blocked_first (Cls PL) (skipn j t ++ x)); [reflexivity | | exact Q2 | cbn [spine]; lia].
  cbn [first_cls]. apply hd_out_skipn; assumption.
Qed.

Lemma runs_opt_once na a w x cf : w <> [] -> runs na a w x cf -> runs (S (Nat.max na 1)) (Rep 0 (Some 1%nat) a) w x cf.
Proof.
  intros Hw Ha.
  pose proof (runs_rep_step na 1 0 (Some 1%nat) a w [] x cf cf_id ltac:(discriminate) Hw) as H.
  rewrite app_nil_r in H. eapply runs_ext; [|apply H].
  - intros i c. reflexivity.
  - cbn [app]. exact Ha.
  - cbn [pred option_map]. apply runs_rep_stop_hi.
Qed.

Lemma last_default {A} (l : list A) d d' : l <> [] -> last l d = last l d'.
Proof.
  induction l as [|a l IH]; [congruence|]. intros _. destruct l as [|b l]; [reflexivity|].
  change (last (b :: l) d = last (b :: l) d'). apply IH. discriminate.
Qed.


(* (class* last)?  over what follows the first byte of the path, in front of a run t the final class refuses *)
Lemma runs_path_inner P PL w t x :
  Forall (fun c => N.testbit P c = true) w -> (w = [] \/ N.testbit PL (last w 0%N) = true) ->
  Forall (fun c => N.testbit P c = true /\ N.testbit PL c = false) t ->
  hd_out P x -> hd_out PL x ->
  runs (List.length w + List.length t + 10) (Rep 0 (Some 1%nat) (Seq (Rep 0 None (Cls P)) (Cls PL))) w (t ++ x) cf_id.
Proof.
  intros HF Hl HT HPx HLx. destruct w as [|c0 w0].
  - apply (runs_mono (S (List.length t + 3))); [|cbn [List.length]; lia].
    apply runs_rep_stop_blocked. apply blocked_star_nolast; assumption.
  - destruct Hl as [Hl | Hl]; [discriminate Hl|].
    assert (Hne : c0 :: w0 <> []) by discriminate.
    rewrite (app_removelast_last 0%N Hne) in HF |- *.
    set (w' := removelast (c0 :: w0)) in *. set (b := last (c0 :: w0) 0%N) in *.
    apply Forall_app in HF. destruct HF as [HF1 HF2]. inversion HF2 as [|? ? Hb _]; subst.
    apply (runs_mono (S (Nat.max (List.length w' + List.length t + 6) 1))); [|rewrite app_length; cbn [List.length]; lia].
    apply runs_opt_once; [destruct w'; discriminate|].
    apply runs_star_last; assumption.
Qed.
(* ------------------------------------------------------------------ *)
(* 2.  The text classes and the parts of the regenerated pattern         *)
(* ------------------------------------------------------------------ *)
Definition alt_l (r : re) : re := match r with Alt a _ => a | _ => Emp end.
(* the pattern after the scheme and the three literal bytes: userinfo, host, port, path *)
Definition URL_TAIL_RE : re := seq_r (seq_r (seq_r (seq_r RE_network_URL_RE))).
(* the class repeat of the host (first alternative, after its look-ahead) and its bounds, read off the term *)
Definition URL_HOST_REP_RE : re := seq_r (alt_l (seq_l (seq_r URL_TAIL_RE))).
Definition URL_HOST_MIN : nat := rep_lo URL_HOST_REP_RE.
Definition URL_HOST_MAX : nat := rep_hi URL_HOST_REP_RE.

Definition url_scheme_ok (s : bytes) : Prop := s = L"http" \/ s = L"https" \/ s = L"ftp".
(* host bytes: letters, digits, hyphen, full stop *)
Definition host_byte (c : N) : bool := label_byte c || (c =? 46)%N.
(* the unreserved class of RFC 3986: letters, digits, hyphen, full stop, underscore, tilde *)
Definition unreserved_byte (c : N) : bool :=
  is_alnum_ascii c || (c =? 45)%N || (c =? 46)%N || (c =? 95)%N || (c =? 126)%N.
Definition path_byte (c : N) : bool := unreserved_byte c || (c =? 47)%N.
(* the final class of the pattern refuses a full stop (and quote, closing parenthesis, comma, semicolon) *)
Definition path_end_byte (c : N) : bool := path_byte c && negb (c =? 46)%N.
(* the path: empty, or a slash followed by path bytes, the last of which is not a full stop, no dot segment *)
Definition url_path_ok (path : bytes) : bool :=
  match path with
  | [] => true
  | c :: w => (c =? 47)%N && forallb path_byte w && path_end_byte (last w 47%N)
              && negb (has_dot_segment (Ip.split_on ch_slash path))
  end.
(* the path without the condition on its last byte *)
Definition url_path_shape (path : bytes) : bool :=
  match path with
  | [] => true
  | c :: w => (c =? 47)%N && forallb path_byte w && negb (has_dot_segment (Ip.split_on ch_slash path))
  end.
(* what may follow the host, as the pattern sees it: a delimiter (slash, question mark, hash), then bytes of the
   path, query and fragment classes (unreserved, slash, question mark, hash, equals sign, ampersand), the last of
   which is not a full stop *)
Definition delim_byte (c : N) : bool := (c =? 47)%N || (c =? 63)%N || (c =? 35)%N.
Definition rest_byte (c : N) : bool := path_byte c || (c =? 63)%N || (c =? 35)%N || (c =? 61)%N || (c =? 38)%N.
Definition rest_end_byte (c : N) : bool := rest_byte c && negb (c =? 46)%N.
Definition url_rest_ok (r : bytes) : bool :=
  match r with
  | [] => true
  | d0 :: w => delim_byte d0 && forallb rest_byte w && rest_end_byte (last w 47%N)
  end.
(* the bytes the final class of the pattern refuses although the star of the path takes them, and which neither
   the host class nor the port nor a delimiter accepts: quote, closing parenthesis, comma, semicolon *)
Definition trail_byte (c : N) : bool := existsb (N.eqb c) (L"'),;").
Fixpoint take_trail (s : bytes) : bytes :=
  match s with c :: r => if trail_byte c then c :: take_trail r else [] | [] => [] end.
Fixpoint drop_trail (s : bytes) : bytes :=
  match s with c :: r => if trail_byte c then drop_trail r else s | [] => [] end.
(* a byte outside the star class of the path part (which contains the userinfo class, the host class, the colon of
   the port, the three delimiters and the at sign) *)
Definition url_stop_byte (b : N) : bool := negb (is_word b || existsb (N.eqb b) (L"!#$%&'()*+,-./:;=?@~")).
(* the suffix: any number of trailing punctuation bytes, then the end of the text or a byte outside the star class *)
Definition url_stop (suf : bytes) : bool := match drop_trail suf with [] => true | b :: _ => url_stop_byte b end.

Lemma trail_split suf : suf = take_trail suf ++ drop_trail suf /\ forallb trail_byte (take_trail suf) = true.
Proof.
  induction suf as [|c r [IH1 IH2]]; [split; reflexivity|]. cbn [take_trail drop_trail].
  destruct (trail_byte c) eqn:E; [|split; reflexivity]. cbn [app forallb]. rewrite E, IH2, <- IH1. split; reflexivity.
Qed.

Lemma take_trail_length suf : (List.length (take_trail suf) <= List.length suf)%nat.
Proof. destruct (trail_split suf) as [E _]. rewrite E at 2. rewrite app_length. lia. Qed.

Lemma trail_byte_lt c : trail_byte c = true -> (c < 256)%N.
Proof.
  unfold trail_byte. cbn [existsb s2b]. intros H.
  repeat (apply orb_true_iff in H; destruct H as [H|H]; [apply N.eqb_eq in H; subst c; reflexivity|]). discriminate H.
Qed.

Lemma host_byte_lt c : host_byte c = true -> (c < 256)%N.
Proof.
  unfold host_byte. intros H. apply orb_true_iff in H. destruct H as [H|H]; [apply label_byte_lt; exact H|].
  apply N.eqb_eq in H. subst c. reflexivity.
Qed.

Lemma path_byte_lt c : path_byte c = true -> (c < 256)%N.
Proof.
  unfold path_byte, unreserved_byte. intros H.
  do 5 (apply orb_true_iff in H; destruct H as [H|H]; [|apply N.eqb_eq in H; subst c; reflexivity]).
  apply is_word_lt, is_alnum_word. exact H.
Qed.

Lemma path_end_byte_lt c : path_end_byte c = true -> (c < 256)%N.
Proof. unfold path_end_byte. intros H. apply andb_true_iff in H. apply path_byte_lt, H. Qed.

(* a fact about all the bytes of a class, by table *)
Lemma pred_table (P Q : N -> bool) :
  (forall c, P c = true -> (c < 256)%N) -> forallb (fun c => implb (P c) (Q c)) bytes256 = true ->
  forall c, P c = true -> Q c = true.
Proof.
  intros Hlt Hchk c Hc. rewrite forallb_forall in Hchk. specialize (Hchk c (bytes256_in c (Hlt c Hc))).
  rewrite Hc in Hchk. exact Hchk.
Qed.

Lemma forallb_table (P Q : N -> bool) w :
  (forall c, P c = true -> (c < 256)%N) -> forallb (fun c => implb (P c) (Q c)) bytes256 = true ->
  forallb P w = true -> forallb Q w = true.
Proof.
  intros Hlt Hchk Hw. rewrite forallb_forall in Hw |- *. intros c Hc. apply (pred_table P Q Hlt Hchk). apply Hw, Hc.
Qed.

Lemma url_host_min_pos : (1 <= URL_HOST_MIN)%nat.
Proof. apply Nat.leb_le. vm_compute. reflexivity. Qed.

(* the parts of url_path_ok *)
Lemma url_path_ok_parts path : url_path_ok path = true ->
  path = [] \/ exists w, path = 47%N :: w /\ forallb path_byte w = true /\ path_end_byte (last w 47%N) = true /\
                         has_dot_segment (Ip.split_on ch_slash path) = false.
Proof.
  destruct path as [|c w]; [left; reflexivity|]. intros H. right. cbn [url_path_ok] in H.
  apply andb_true_iff in H. destruct H as [H H4]. apply andb_true_iff in H. destruct H as [H H3].
  apply andb_true_iff in H. destruct H as [H1 H2]. apply N.eqb_eq in H1. subst c.
  exists w. repeat split; try assumption. apply negb_true_iff. exact H4.
Qed.

Lemma url_path_bytes path : url_path_ok path = true -> forallb path_byte path = true.
Proof.
  intros H. destruct (url_path_ok_parts path H) as [-> | (w & -> & Hw & _)]; [reflexivity|].
  cbn [forallb]. rewrite Hw. reflexivity.
Qed.


Lemma rest_byte_lt c : rest_byte c = true -> (c < 256)%N.
Proof.
  unfold rest_byte. intros H.
  do 4 (apply orb_true_iff in H; destruct H as [H|H]; [|apply N.eqb_eq in H; subst c; reflexivity]).
  apply path_byte_lt. exact H.
Qed.

Lemma rest_end_byte_lt c : rest_end_byte c = true -> (c < 256)%N.
Proof. unfold rest_end_byte. intros H. apply andb_true_iff in H. apply rest_byte_lt, H. Qed.

Lemma delim_byte_lt c : delim_byte c = true -> (c < 256)%N.
Proof.
  unfold delim_byte. intros H.
  do 2 (apply orb_true_iff in H; destruct H as [H|H]; [|apply N.eqb_eq in H; subst c; reflexivity]).
  apply N.eqb_eq in H. subst c. reflexivity.
Qed.

Lemma testbit_in_table (P : N -> bool) mk b :
  (forall c, P c = true -> (c < 256)%N) ->
  forallb (fun c => implb (P c) (N.testbit mk c)) bytes256 = true -> P b = true -> N.testbit mk b = true.
Proof. intros Hlt Hchk Hb. exact (pred_table P _ Hlt Hchk b Hb). Qed.

Lemma testbit_out_table (P : N -> bool) mk b :
  (forall c, P c = true -> (c < 256)%N) ->
  forallb (fun c => implb (P c) (negb (N.testbit mk c))) bytes256 = true -> P b = true -> N.testbit mk b = false.
Proof. intros Hlt Hchk Hb. apply negb_true_iff. exact (pred_table P _ Hlt Hchk b Hb). Qed.

Lemma url_path_ok_shape path : url_path_ok path = true -> url_path_shape path = true.
Proof.
  destruct path as [|c w]; [reflexivity|]. cbn [url_path_ok url_path_shape]. intros H.
  apply andb_true_iff in H. destruct H as [H H4]. apply andb_true_iff in H. destruct H as [H H3]. rewrite H, H4. reflexivity.
Qed.

Lemma url_path_shape_parts path : url_path_shape path = true ->
  path = [] \/ exists w, path = 47%N :: w /\ forallb path_byte w = true /\
                         has_dot_segment (Ip.split_on ch_slash path) = false.
Proof.
  destruct path as [|c w]; [left; reflexivity|]. intros H. right. cbn [url_path_shape] in H.
  apply andb_true_iff in H. destruct H as [H H4]. apply andb_true_iff in H. destruct H as [H1 H2].
  apply N.eqb_eq in H1. subst c. exists w. repeat split; try assumption. apply negb_true_iff. exact H4.
Qed.

Lemma url_path_shape_bytes path : url_path_shape path = true -> forallb path_byte path = true.
Proof.
  intros H. destruct (url_path_shape_parts path H) as [-> | (w & -> & Hw & _)]; [reflexivity|].
  cbn [forallb]. rewrite Hw. reflexivity.
Qed.

Lemma path_rest_bytes w : forallb path_byte w = true -> forallb rest_byte w = true.
Proof. apply (forallb_table path_byte rest_byte w path_byte_lt). vm_compute. reflexivity. Qed.

Lemma url_rest_ok_parts r : url_rest_ok r = true ->
  r = [] \/ exists d0 w, r = d0 :: w /\ delim_byte d0 = true /\ forallb rest_byte w = true /\ rest_end_byte (last w 47%N) = true.
Proof.
  destruct r as [|d0 w]; [left; reflexivity|]. intros H. right. cbn [url_rest_ok] in H.
  apply andb_true_iff in H. destruct H as [H H3]. apply andb_true_iff in H. destruct H as [H1 H2].
  exists d0, w. repeat split; assumption.
Qed.

Lemma url_rest_bytes r : url_rest_ok r = true -> forallb rest_byte r = true.
Proof.
  intros H. destruct (url_rest_ok_parts r H) as [-> | (d0 & w & -> & Hd & Hw & _)]; [reflexivity|].
  cbn [forallb]. rewrite Hw, andb_true_r.
  exact (pred_table delim_byte rest_byte delim_byte_lt ltac:(vm_compute; reflexivity) d0 Hd).
Qed.

(* a path of the simple class is such a text *)
Lemma url_path_rest path : url_path_ok path = true -> url_rest_ok path = true.
Proof.
  intros H. destruct (url_path_ok_parts path H) as [-> | (w & -> & Hw & Hl & _)]; [reflexivity|].
  cbn [url_rest_ok]. rewrite (path_rest_bytes w Hw). change (delim_byte 47) with true. cbn [andb].
  revert Hl. generalize (last w 47%N). apply (pred_table path_end_byte rest_end_byte path_end_byte_lt). vm_compute. reflexivity.
Qed.
Lemma url_stop_head suf : url_stop suf = true ->
  match suf with [] => True | b :: _ => (url_stop_byte b || trail_byte b) = true end.
Proof.
  destruct suf as [|b r]; [intros _; exact I|]. unfold url_stop. cbn [drop_trail].
  destruct (trail_byte b); [intros _; apply orb_true_r|]. intros H. rewrite H. reflexivity.
Qed.

(* a class that contains neither the trailing punctuation nor any byte outside the star class cannot start in the suffix *)
Lemma hd_out_stop mk suf :
  mask_ok mk = true ->
  forallb (fun c => implb (url_stop_byte c || trail_byte c) (negb (N.testbit mk c))) bytes256 = true ->
  url_stop suf = true -> hd_out mk suf.
Proof.
  intros Hm Hchk Hs. apply (hd_out_of_pred mk (fun c => url_stop_byte c || trail_byte c)); [exact Hm | exact Hchk |].
  apply url_stop_head. exact Hs.
Qed.

Lemma url_stop_drop suf : url_stop suf = true ->
  match drop_trail suf with [] => True | b :: _ => url_stop_byte b = true end.
Proof. unfold url_stop. destruct (drop_trail suf); [intros _; exact I | intros H; exact H]. Qed.

Ltac hd_stop Hs := apply hd_out_stop; [vm_compute; reflexivity | vm_compute; reflexivity | exact Hs].
Ltac hd_drop Hs := eapply (hd_out_of_pred _ url_stop_byte); [vm_compute; reflexivity | vm_compute; reflexivity | exact (url_stop_drop _ Hs)].
Ltac by_table P Plt := apply (pred_table P _ Plt); vm_compute; reflexivity.

Lemma Forall_in_not (P : N -> bool) mk1 mk2 w :
  (forall c, P c = true -> (c < 256)%N) ->
  forallb (fun c => implb (P c) (N.testbit mk1 c && negb (N.testbit mk2 c))) bytes256 = true -> forallb P w = true ->
  Forall (fun c => N.testbit mk1 c = true /\ N.testbit mk2 c = false) w.
Proof.
  intros Hlt Hchk Hw. apply Forall_forall. intros c Hc. rewrite forallb_forall in Hw.
  pose proof (pred_table P _ Hlt Hchk c (Hw c Hc)) as H. cbv beta in H. apply andb_true_iff in H. destruct H as [H1 H2].
  apply negb_true_iff in H2. split; assumption.
Qed.

(* ---- the tail of the pattern: userinfo (skipped after giving everything back), host, port (skipped), path ---- *)
(* no path: the userinfo star runs over the host AND the trailing punctuation *)
Lemma url_tail_runs_nopath host suf :
  forallb host_byte host = true -> (URL_HOST_MIN <= List.length host <= URL_HOST_MAX)%nat -> url_stop suf = true ->
  runs (List.length host + List.length (take_trail suf) + 40) URL_TAIL_RE host suf cf_id.
Proof.
  intros Hhost Hlen Hstop. pose proof url_host_min_pos as Hmin.
  destruct (trail_split suf) as [Esuf Ht]. set (t := take_trail suf) in *. set (x := drop_trail suf) in *.
  assert (Hh0 : hd_out (mask_of (L"%")) (host ++ suf)).
  { destruct host as [|h0 host']; [cbn [List.length] in Hlen; lia|]. cbn [app hd_out].
    cbn [forallb] in Hhost. apply andb_true_iff in Hhost. destruct Hhost as [Hh0 _]. apply negb_true_iff.
    exact (pred_table host_byte (fun c => negb (N.testbit (mask_of (L"%")) c)) host_byte_lt
             ltac:(vm_compute; reflexivity) h0 Hh0). }
  unfold URL_TAIL_RE, RE_network_URL_RE. cbn [seq_r].
  eapply runs_ext; [|eapply runs_mono;
    [ eapply runs_seq_skip;
      [ replace (host ++ suf) with ((host ++ t) ++ x) by (rewrite <- app_assoc, <- Esuf; reflexivity);
        eapply runs_userinfo_skip;
        [ apply Forall_app; split;
          [ apply (Forall_in_not host_byte _ _ host host_byte_lt);
            [vm_compute; reflexivity | exact Hhost]
          | apply (Forall_in_not trail_byte _ _ t trail_byte_lt);
            [vm_compute; reflexivity | exact Ht] ]
        | hd_drop Hstop | hd_drop Hstop ]
      | eapply runs_seq_end;
        [ eapply runs_alt_l; eapply runs_seq_skip;
          [ eapply runs_nlook_blocked; eapply blocked_first; [reflexivity | cbn [first_cls nullable]; exact Hh0]
          | eapply runs_rep_cls_hi;
            [ apply (Forall_of_pred _ host_byte); [exact host_byte_lt | vm_compute; reflexivity | exact Hhost]
            | exact Hlen
            | right; hd_stop Hstop ] ]
        | eapply runs_seq_skip;
          [ eapply runs_opt_skip; [vm_compute; reflexivity | cbn [first_cls nullable app]; hd_stop Hstop]
          | eapply runs_opt_skip; [vm_compute; reflexivity | cbn [first_cls nullable]; hd_stop Hstop] ] ] ]
    | cbn [spine nullable]; rewrite ?app_length; cbn [List.length]; lia ]]; intros i c; reflexivity.
Qed.

(* something after the host: the userinfo star stops at its delimiter; the star of the path part runs over the rest
   AND the trailing punctuation *)
Lemma url_tail_runs_rest host d0 w suf :
  forallb host_byte host = true -> (URL_HOST_MIN <= List.length host <= URL_HOST_MAX)%nat ->
  delim_byte d0 = true -> forallb rest_byte w = true -> rest_end_byte (last w 47%N) = true -> url_stop suf = true ->
  runs (List.length host + List.length w + List.length (take_trail suf) + 40) URL_TAIL_RE (host ++ d0 :: w) suf cf_id.
Proof.
  intros Hhost Hlen Hd0 Hw Hl Hstop. pose proof url_host_min_pos as Hmin.
  destruct (trail_split suf) as [Esuf Ht]. set (t := take_trail suf) in *. set (x := drop_trail suf) in *.
  assert (Hh0 : hd_out (mask_of (L"%")) (host ++ (d0 :: w) ++ suf)).
  { destruct host as [|h0 host']; [cbn [List.length] in Hlen; lia|]. cbn [app hd_out].
    cbn [forallb] in Hhost. apply andb_true_iff in Hhost. destruct Hhost as [Hh0 _]. apply negb_true_iff.
    exact (pred_table host_byte (fun c => negb (N.testbit (mask_of (L"%")) c)) host_byte_lt
             ltac:(vm_compute; reflexivity) h0 Hh0). }
  unfold URL_TAIL_RE, RE_network_URL_RE. cbn [seq_r].
  eapply runs_ext; [|eapply runs_mono;
    [ eapply runs_seq_skip;
      [ rewrite <- app_assoc; eapply runs_userinfo_skip;
        [ apply (Forall_in_not host_byte _ _ host host_byte_lt); [vm_compute; reflexivity | exact Hhost]
        | cbn [app hd_out]; eapply (testbit_out_table delim_byte); [exact delim_byte_lt | vm_compute; reflexivity | exact Hd0]
        | cbn [app hd_out]; eapply (testbit_out_table delim_byte); [exact delim_byte_lt | vm_compute; reflexivity | exact Hd0] ]
      | eapply (runs_seq _ _ _ _ host (d0 :: w) suf);
        [ eapply runs_alt_l; eapply runs_seq_skip;
          [ eapply runs_nlook_blocked; eapply blocked_first; [reflexivity | cbn [first_cls nullable]; exact Hh0]
          | eapply runs_rep_cls_hi;
            [ apply (Forall_of_pred _ host_byte); [exact host_byte_lt | vm_compute; reflexivity | exact Hhost]
            | exact Hlen
            | right; cbn [app hd_out]; eapply (testbit_out_table delim_byte); [exact delim_byte_lt | vm_compute; reflexivity | exact Hd0] ] ]
        | eapply runs_seq_skip;
          [ eapply runs_opt_skip; [vm_compute; reflexivity | cbn [first_cls nullable app hd_out];
              eapply (testbit_out_table delim_byte); [exact delim_byte_lt | vm_compute; reflexivity | exact Hd0]]
          | eapply runs_opt_once; [discriminate|];
            eapply runs_seq_cls; [eapply (testbit_in_table delim_byte); [exact delim_byte_lt | vm_compute; reflexivity | exact Hd0]|];
            rewrite Esuf; eapply runs_path_inner;
            [ apply (Forall_of_pred _ rest_byte); [exact rest_byte_lt | vm_compute; reflexivity | exact Hw]
            | destruct w as [|w0 w1]; [left; reflexivity | right];
              replace (last (w0 :: w1) 0%N) with (last (w0 :: w1) 47%N) by (apply last_default; discriminate);
              revert Hl; generalize (last (w0 :: w1) 47%N); by_table rest_end_byte rest_end_byte_lt
            | apply (Forall_in_not trail_byte _ _ t trail_byte_lt); [vm_compute; reflexivity | exact Ht]
            | hd_drop Hstop | hd_drop Hstop ] ] ] ]
    | cbn [spine nullable]; cbn [List.length]; lia ]]; intros i c; reflexivity.
Qed.

Lemma url_tail_runs host rest suf :
  forallb host_byte host = true -> (URL_HOST_MIN <= List.length host <= URL_HOST_MAX)%nat ->
  url_rest_ok rest = true -> url_stop suf = true ->
  runs (List.length host + List.length rest + List.length (take_trail suf) + 40) URL_TAIL_RE (host ++ rest) suf cf_id.
Proof.
  intros Hhost Hlen Hrest Hstop. destruct (url_rest_ok_parts rest Hrest) as [-> | (d0 & w & -> & Hd0 & Hw & Hl)].
  - rewrite app_nil_r. eapply runs_mono; [apply url_tail_runs_nopath; assumption | cbn [List.length]; lia].
  - eapply runs_mono; [apply url_tail_runs_rest; assumption | cbn [List.length]; lia].
Qed.

(* the whole pattern: the scheme (the first alternative fails on an h; the optional s is taken or skipped), the
   three literal bytes, then the tail *)
Definition url_form (scheme host rest : bytes) : bytes := scheme ++ L"://" ++ host ++ rest.

Lemma url_runs scheme host path suf :
  url_scheme_ok scheme ->
  forallb host_byte host = true -> (URL_HOST_MIN <= List.length host <= URL_HOST_MAX)%nat ->
  url_rest_ok path = true -> url_stop suf = true ->
  runs (List.length host + List.length path + List.length (take_trail suf) + 80) RE_network_URL_RE (url_form scheme host path) suf cf_id.
Proof.
  intros Hsch Hhost Hlen Hpath Hstop.
  pose proof (url_tail_runs host path suf Hhost Hlen Hpath Hstop) as T.
  unfold URL_TAIL_RE in T. unfold RE_network_URL_RE in T |- *. cbn [seq_r] in T. unfold url_form.
  change (L"://") with [58; 47; 47]%N.
  destruct Hsch as [-> | [-> | ->]].
  - change (L"http") with [104; 116; 116; 112]%N. cbn [app].
    eapply runs_ext; [|eapply runs_mono;
      [ eapply (runs_seq _ _ _ _ [104; 116; 116; 112]%N (58 :: 47 :: 47 :: host ++ path)%N suf);
        [ eapply runs_alt_r; [blocked_tac | step_lits; eapply (runs_opt_skip (Cls _)); [reflexivity | hd_goal]]
        | step_lits; exact T ]
      | cbn [spine nullable]; lia ]]; intros i c; reflexivity.
  - change (L"https") with [104; 116; 116; 112; 115]%N. cbn [app].
    eapply runs_ext; [|eapply runs_mono;
      [ eapply (runs_seq _ _ _ _ [104; 116; 116; 112; 115]%N (58 :: 47 :: 47 :: host ++ path)%N suf);
        [ eapply runs_alt_r; [blocked_tac | step_lits; eapply runs_opt_take; vm_compute; reflexivity]
        | step_lits; exact T ]
      | cbn [spine nullable]; lia ]]; intros i c; reflexivity.
  - change (L"ftp") with [102; 116; 112]%N. cbn [app].
    eapply runs_ext; [|eapply runs_mono;
      [ eapply (runs_seq _ _ _ _ [102; 116; 112]%N (58 :: 47 :: 47 :: host ++ path)%N suf);
        [ eapply runs_alt_l; last_lits
        | step_lits; exact T ]
      | cbn [spine nullable]; lia ]]; intros i c; reflexivity.
Qed.

(* ------------------------------------------------------------------ *)
(* 3.  The Python after finditer on such a text                          *)
(* ------------------------------------------------------------------ *)
(* ---- partitions of a text without the separator ---- *)
Lemma span_until_stop (p : N -> bool) : forall a r,
  forallb (fun c => negb (p c)) a = true -> match r with [] => True | c :: _ => p c = true end ->
  span_until p (a ++ r) = (a, r).
Proof.
  induction a as [|c a IH]; intros r Ha Hr.
  - cbn [app]. destruct r as [|c r]; [reflexivity|]. cbn [span_until]. rewrite Hr. reflexivity.
  - cbn [forallb] in Ha. apply andb_true_iff in Ha. destruct Ha as [Hc Ha]. apply negb_true_iff in Hc.
    cbn [app span_until]. rewrite Hc, (IH r Ha Hr). reflexivity.
Qed.

Lemma notin_forallb c s : ~ In c s -> forallb (fun x => negb (N.eqb c x)) s = true.
Proof.
  intros H. apply forallb_forall. intros x Hx. apply negb_true_iff, N.eqb_neq. intros E. subst x. exact (H Hx).
Qed.

Lemma partition_absent c s : ~ In c s -> partition c s = (s, false, []).
Proof.
  intros H. unfold partition.
  pose proof (span_until_stop (N.eqb c) s [] (notin_forallb c s H) I) as E. rewrite app_nil_r in E. rewrite E. reflexivity.
Qed.

Lemma rpartition_absent c s : ~ In c s -> rpartition c s = ([], false, s).
Proof.
  intros H. unfold rpartition. rewrite partition_absent; [reflexivity|]. intros Hin. apply H, in_rev. exact Hin.
Qed.

(* a byte outside a class does not occur in a text of the class *)
Lemma notin_class (P : N -> bool) c s : P c = false -> forallb P s = true -> ~ In c s.
Proof. intros Hc Hs Hin. rewrite forallb_forall in Hs. rewrite (Hs c Hin) in Hc. discriminate Hc. Qed.

Lemma has_byte_class (P : N -> bool) c s : P c = false -> forallb P s = true -> has_byte c s = false.
Proof.
  intros Hc Hs. destruct (has_byte c s) eqn:E; [|reflexivity]. apply has_byte_in in E.
  exfalso. exact (notin_class P c s Hc Hs E).
Qed.

Lemma find_absent c : forall d, ~ In c d -> find d [c] = -1.
Proof.
  intros d H. unfold find, find_from. pose proof (blen_nonneg d) as Hn.
  destruct (Z.ltb_spec (blen d) 0) as [E|E]; [lia|]. cbn [Z.to_nat skipn]. clear Hn E.
  generalize 0. induction d as [|x d IH]; intros i; cbn [find_at prefixb]; [reflexivity|].
  replace (N.eqb c x) with false.
  - cbn [andb]. apply IH. intros Hin. apply H. right. exact Hin.
  - symmetry. apply N.eqb_neq. intros ->. apply H. left. reflexivity.
Qed.

(* ---- urlsplit ---- *)
Lemma split_scheme_lit pre rest :
  pre <> [] -> is_alpha_ascii (hd 0%N pre) = true -> forallb scheme_char pre = true ->
  ~ In b_colon pre -> split_scheme (pre ++ b_colon :: rest) = (lower pre, rest).
Proof.
  intros Hne Ha Hsc Hc. unfold split_scheme.
  rewrite (span_until_stop (N.eqb b_colon) pre (b_colon :: rest) (notin_forallb _ _ Hc) (N.eqb_refl _)).
  destruct pre as [|c0 pre']; [congruence|]. cbn [hd] in Ha. rewrite Ha, Hsc. reflexivity.
Qed.

Lemma split_netloc_slashes t : split_netloc (b_slash :: b_slash :: t) = Some (span_until is_netloc_delim t).
Proof. unfold split_netloc. rewrite N.eqb_refl. reflexivity. Qed.

Lemma host_facts host : forallb host_byte host = true ->
  is_ascii host = true /\ forallb (fun c => negb (is_netloc_delim c)) host = true /\
  ~ In b_at host /\ ~ In b_lbr host /\ ~ In b_rbr host /\ ~ In b_colon host /\ ~ In PCT host /\ ~ In 0%N host /\
  has_byte b_lbr host = false /\ has_byte b_rbr host = false /\ has_byte b_at host = false.
Proof.
  intros H. split; [|split].
  - unfold is_ascii. apply (forallb_table host_byte _ host host_byte_lt); [vm_compute; reflexivity | exact H].
  - apply (forallb_table host_byte _ host host_byte_lt); [vm_compute; reflexivity | exact H].
  - repeat split; try (apply (notin_class host_byte); [reflexivity | exact H]);
      apply (has_byte_class host_byte); try reflexivity; exact H.
Qed.

Lemma path_facts path : url_path_shape path = true ->
  is_ascii path = true /\ match path with [] => True | c :: _ => is_netloc_delim c = true end /\
  ~ In b_hash path /\ ~ In b_qmark path /\ ~ In PCT path /\ ~ In 39%N path /\ ~ In 41%N path /\
  forallb (fun c => negb (is_unsafe c)) path = true.
Proof.
  intros H. pose proof (url_path_shape_bytes path H) as Hb. split; [|split; [|split; [|split; [|split; [|split; [|split]]]]]].
  - unfold is_ascii. apply (forallb_table path_byte _ path path_byte_lt); [vm_compute; reflexivity | exact Hb].
  - destruct (url_path_shape_parts path H) as [-> | (w & -> & _)]; [exact I | reflexivity].
  - apply (notin_class path_byte); [reflexivity | exact Hb].
  - apply (notin_class path_byte); [reflexivity | exact Hb].
  - apply (notin_class path_byte); [reflexivity | exact Hb].
  - apply (notin_class path_byte); [reflexivity | exact Hb].
  - apply (notin_class path_byte); [reflexivity | exact Hb].
  - apply (forallb_table path_byte _ path path_byte_lt); [vm_compute; reflexivity | exact Hb].
Qed.

(* a text of the rest class *)
Lemma rest_facts r : forallb rest_byte r = true ->
  is_ascii r = true /\ ~ In PCT r /\ ~ In 39%N r /\ ~ In 41%N r /\ forallb (fun c => negb (is_unsafe c)) r = true.
Proof.
  intros Hb. split; [|split; [|split; [|split]]].
  - unfold is_ascii. apply (forallb_table rest_byte _ r rest_byte_lt); [vm_compute; reflexivity | exact Hb].
  - apply (notin_class rest_byte); [reflexivity | exact Hb].
  - apply (notin_class rest_byte); [reflexivity | exact Hb].
  - apply (notin_class rest_byte); [reflexivity | exact Hb].
  - apply (forallb_table rest_byte _ r rest_byte_lt); [vm_compute; reflexivity | exact Hb].
Qed.

Lemma scheme_facts scheme : url_scheme_ok scheme ->
  scheme <> [] /\ is_alpha_ascii (hd 0%N scheme) = true /\ forallb scheme_char scheme = true /\ ~ In b_colon scheme /\
  lower scheme = scheme /\ is_ascii scheme = true /\ mem scheme url_schemes = true /\
  forallb (fun c => negb (is_unsafe c)) scheme = true /\ is_c0_or_space (hd 0%N scheme) = false /\
  ~ In 39%N scheme /\ ~ In 41%N scheme.
Proof.
  intros [-> | [-> | ->]]; (split; [discriminate|]); repeat (split; [reflexivity|]);
    (split; [|repeat (split; [reflexivity|])]);
    try (intros H; cbn in H; repeat (destruct H as [H|H]; [discriminate H|]); exact H);
    split; intros H; cbn in H; repeat (destruct H as [H|H]; [discriminate H|]); exact H.
Qed.

Lemma is_ascii_cons c t : is_ascii (c :: t) = (c <? 128)%N && is_ascii t.
Proof. reflexivity. Qed.

Lemma url_form_ascii scheme host path :
  url_scheme_ok scheme -> forallb host_byte host = true -> forallb rest_byte path = true ->
  is_ascii (url_form scheme host path) = true.
Proof.
  intros Hs Hh Hp. unfold url_form. rewrite !is_ascii_app.
  destruct (scheme_facts scheme Hs) as (_ & _ & _ & _ & _ & A1 & _).
  destruct (host_facts host Hh) as (A2 & _). destruct (rest_facts path Hp) as (A3 & _).
  rewrite A1, A2, A3. reflexivity.
Qed.

Lemma url_form_clean scheme host path :
  url_scheme_ok scheme -> forallb host_byte host = true -> forallb rest_byte path = true ->
  clean (url_form scheme host path).
Proof.
  intros Hs Hh Hp. destruct (scheme_facts scheme Hs) as (Hne & _ & _ & _ & _ & _ & _ & U1 & C0 & _).
  destruct (rest_facts path Hp) as (_ & _ & _ & _ & U3).
  assert (U2 : forallb (fun c => negb (is_unsafe c)) host = true)
    by (apply (forallb_table host_byte _ host host_byte_lt); [vm_compute; reflexivity | exact Hh]).
  unfold clean, url_form. split.
  - destruct scheme as [|c0 sch]; [congruence|]. exact C0.
  - rewrite !forallb_app, U1, U2, U3. reflexivity.
Qed.

Theorem urlsplit_simple scheme host path :
  url_scheme_ok scheme -> forallb host_byte host = true -> url_path_shape path = true ->
  urlsplit (url_form scheme host path) = Ok (mkSplit scheme host path [] []).
Proof.
  intros Hs Hh Hp. unfold urlsplit.
  pose proof (path_rest_bytes path (url_path_shape_bytes path Hp)) as Hrest.
  rewrite (url_form_ascii scheme host path Hs Hh Hrest). cbn [negb].
  rewrite (clean_url_id _ (url_form_clean scheme host path Hs Hh Hrest)).
  destruct (scheme_facts scheme Hs) as (Hne & Ha & Hsc & Hc & Hl & _).
  destruct (host_facts host Hh) as (_ & Hd & _ & Hlb & Hrb & _ & _ & _ & Blb & Brb & _).
  destruct (path_facts path Hp) as (_ & Hp0 & Hhash & Hq & _).
  unfold url_form. change (L"://" ++ host ++ path) with (b_colon :: b_slash :: b_slash :: host ++ path).
  rewrite (split_scheme_lit scheme _ Hne Ha Hsc Hc), Hl.
  rewrite split_netloc_slashes, (span_until_stop is_netloc_delim host path Hd Hp0).
  unfold check_netloc. rewrite Blb, Brb. cbn [andb negb orb bind].
  rewrite (partition_absent b_hash path Hhash), (partition_absent b_qmark path Hq). reflexivity.
Qed.

Lemma hostinfo_plain host : forallb host_byte host = true -> hostinfo host = (host, None).
Proof.
  intros Hh. destruct (host_facts host Hh) as (_ & _ & Hat & Hlb & _ & Hc & _).
  unfold hostinfo. rewrite (rpartition_absent b_at host Hat), (partition_absent b_lbr host Hlb),
    (partition_absent b_colon host Hc). reflexivity.
Qed.

Theorem is_url_simple scheme host path :
  url_scheme_ok scheme -> forallb host_byte host = true -> host <> [] -> url_path_shape path = true ->
  is_url (url_form scheme host path) = Ok true.
Proof.
  intros Hs Hh Hne Hp. unfold is_url. rewrite (urlsplit_simple scheme host path Hs Hh Hp). cbn [bind].
  unfold sr_port, sr_hostname. cbn [sr_netloc sr_scheme]. rewrite (hostinfo_plain host Hh). cbn [fst snd bind].
  destruct (host_facts host Hh) as (_ & _ & _ & _ & _ & _ & Hpct & _).
  rewrite (partition_absent b_pct host Hpct).
  destruct (scheme_facts scheme Hs) as (Hsne & _ & _ & _ & _ & _ & Hm & _). rewrite Hm.
  destruct scheme as [|s0 sch]; [congruence|]. destruct host as [|h0 host']; [congruence|]. reflexivity.
Qed.

(* percent normalisation is the identity on a text without percent sign *)
Lemma normalize_percent_no_pct u : ~ In PCT u -> normalize_percent u = u.
Proof.
  induction u as [|c u IH]; intros H; [reflexivity|].
  rewrite normalize_other.
  - rewrite IH; [reflexivity|]. intros Hin. apply H. right. exact Hin.
  - apply N.eqb_neq. intros ->. apply H. left. reflexivity.
Qed.

Lemma url_form_no_pct scheme host path :
  url_scheme_ok scheme -> forallb host_byte host = true -> forallb rest_byte path = true ->
  ~ In PCT (url_form scheme host path).
Proof.
  intros Hs Hh Hp Hin. unfold url_form in Hin.
  destruct (host_facts host Hh) as (_ & _ & _ & _ & _ & _ & Hpct & _).
  destruct (rest_facts path Hp) as (_ & Hpp & _).
  apply in_app_or in Hin. destruct Hin as [Hin|Hin].
  - destruct Hs as [-> | [-> | ->]]; cbn in Hin; repeat (destruct Hin as [Hin|Hin]; [discriminate Hin|]); exact Hin.
  - apply in_app_or in Hin. destruct Hin as [Hin|Hin].
    + cbn in Hin. repeat (destruct Hin as [Hin|Hin]; [discriminate Hin|]). exact Hin.
    + apply in_app_or in Hin. destruct Hin as [Hin|Hin]; [exact (Hpct Hin) | exact (Hpp Hin)].
Qed.

Lemma normalize_percent_encoding_simple u : ~ In PCT u -> normalize_percent_encoding u = (u, []).
Proof.
  intros H. unfold normalize_percent_encoding. rewrite (normalize_percent_no_pct u H), Z.ltb_irrefl. reflexivity.
Qed.

(* ---- path normalisation is the identity ---- *)
Lemma decode_segments_id : forall p, ~ In ch_percent p ->
  map decode_segment (Ip.split_on ch_slash p) = Ip.split_on ch_slash p.
Proof.
  induction p as [|c p IH]; intros H; [reflexivity|].
  assert (Hp : ~ In ch_percent p) by (intros Hin; apply H; right; exact Hin).
  assert (Hc : (c =? ch_percent)%N = false) by (apply N.eqb_neq; intros ->; apply H; left; reflexivity).
  specialize (IH Hp). cbn [Ip.split_on]. destruct (c =? ch_slash)%N eqn:Es.
  - cbn [map]. rewrite IH. reflexivity.
  - destruct (Ip.split_on ch_slash p) as [|x r] eqn:E.
    + cbn [map]. unfold decode_segment. cbn [UrlPath.unquote_to_bytes]. rewrite Hc. cbn [UrlPath.unquote_to_bytes replace_slash flat_map].
      rewrite Es. reflexivity.
    + cbn [map] in IH |- *. injection IH as IH1 IH2. rewrite IH2. f_equal.
      unfold decode_segment in IH1 |- *. cbn [UrlPath.unquote_to_bytes]. rewrite Hc. cbn [replace_slash flat_map].
      rewrite Es. cbn [app]. f_equal. exact IH1.
Qed.

Theorem normalize_path_simple path : path <> [] -> url_path_shape path = true -> normalize_path path = (path, []).
Proof.
  intros Hne Hp. destruct (url_path_shape_parts path Hp) as [-> | (w & E & _ & Hdots)]; [congruence|].
  destruct (path_facts path Hp) as (_ & _ & _ & _ & Hpct & _).
  assert (Hseg : path_segments path = Ip.split_on ch_slash path) by (apply decode_segments_id; exact Hpct).
  assert (Hst : startswith path [ch_slash] = true) by (rewrite E; reflexivity).
  pose proof (normalize_path_spec path Hst) as H1.
  destruct (normalize_path_label_nonempty path Hne) as [_ [_ H2]].
  rewrite Hseg in H1, H2. rewrite (spec_identity _ Hdots) in H1. specialize (H2 Hdots).
  destruct (normalize_path path) as [v o]. cbn [fst snd] in H1, H2. subst v o. f_equal.
  rewrite E. change (47%N :: w) with (ch_slash :: w).
  pose proof (join_split ch_slash (ch_slash :: w)) as J.
  assert (S : Ip.split_on ch_slash (ch_slash :: w) = [] :: Ip.split_on ch_slash w)
    by (cbn [Ip.split_on]; rewrite N.eqb_refl; reflexivity).
  rewrite S in J |- *.
  destruct (Ip.split_on ch_slash w) as [|x r] eqn:Ew; [exfalso; exact (split_on_nonnil _ _ Ew)|]. exact J.
Qed.

(* ---- socket.inet_aton refuses a host that ends in letters ---- *)
Definition hexx (c : N) : bool := is_hex c || is_x c.

Lemma scan_digits_suffix base : forall s acc,
  exists u, s = u ++ snd (scan_digits base s acc) /\ forallb hexx u = true.
Proof.
  induction s as [|c s IH]; intros acc; cbn [scan_digits].
  - exists []. split; reflexivity.
  - destruct (digit_val base c) as [d|] eqn:E.
    + destruct (IH (acc * base + d)) as (u & E1 & E2). exists (c :: u). split; [cbn [app]; rewrite <- E1; reflexivity|].
      cbn [forallb]. rewrite E2, andb_true_r. unfold hexx, is_hex. unfold digit_val in E.
      destruct (hex_val c); [reflexivity | discriminate E].
    + exists []. split; reflexivity.
Qed.

Lemma strtoul0_suffix s : exists u, s = u ++ snd (strtoul0 s) /\ forallb hexx u = true.
Proof.
  unfold strtoul0. destruct s as [|c0 t0]; [exists []; split; reflexivity|].
  destruct (c0 =? ch_zero)%N eqn:E0; [|apply scan_digits_suffix].
  destruct t0 as [|c1 t1]; [apply scan_digits_suffix|].
  destruct (is_x c1) eqn:Ex; [|apply scan_digits_suffix].
  destruct t1 as [|c2 t2]; [apply scan_digits_suffix|].
  destruct (is_hex c2); [|apply scan_digits_suffix].
  destruct (scan_digits_suffix 16 (c2 :: t2) 0) as (u & E1 & E2).
  exists (c0 :: c1 :: u). split; [cbn [app]; rewrite <- E1; reflexivity|].
  cbn [forallb]. rewrite E2. apply N.eqb_eq in E0. subst c0. unfold hexx at 2. rewrite Ex, orb_true_r. reflexivity.
Qed.

Lemma app_split_nosep (sep : N) : forall u l R rest,
  l ++ sep :: R = u ++ rest -> ~ In sep u -> exists l2, l = u ++ l2 /\ rest = l2 ++ sep :: R.
Proof.
  induction u as [|a u IH]; intros l R rest E Hn.
  - exists l. split; [reflexivity | symmetry; exact E].
  - destruct l as [|b l]; cbn [app] in E; injection E as E1 E2.
    + exfalso. apply Hn. left. symmetry. exact E1.
    + subst b. destruct (IH l R rest E2 ltac:(intros Hin; apply Hn; right; exact Hin)) as (l2 & -> & ->).
      exists l2. split; reflexivity.
Qed.

Lemma alpha_not_digit c : is_alpha_ascii c = true -> is_digit_ascii c = false.
Proof.
  intros H. apply negb_true_iff. revert c H. apply (pred_table is_alpha_ascii _ is_alpha_lt). vm_compute. reflexivity.
Qed.

Lemma aton_domain_raises tld : tld <> [] -> forallb is_alpha_ascii tld = true ->
  forall labels room stored, Forall (fun l => forallb label_byte l = true) labels ->
  aton_parts room (dotted labels ++ tld) stored = Raise os_error.
Proof.
  intros Hne Ha. induction labels as [|l ls IH]; intros room stored HF; rewrite aton_parts_eq.
  - cbn [dotted map concat app]. destruct tld as [|c t]; [congruence|]. cbn [forallb] in Ha.
    apply andb_true_iff in Ha. destruct Ha as [Hc _]. cbn [starts_with_digit]. rewrite (alpha_not_digit c Hc). reflexivity.
  - inversion HF as [|? ? Hl HF']; subst. rewrite dotted_cons, <- !app_assoc. cbn [app].
    set (R := dotted ls ++ tld) in *. set (s := l ++ 46%N :: R).
    destruct (starts_with_digit s); cbn [negb]; [|reflexivity].
    destruct (strtoul0_suffix s) as (u & E1 & E2). destruct (strtoul0 s) as [v rest]. cbn [snd] in E1.
    destruct (4294967295 <? v); [reflexivity|].
    assert (Hu : ~ In 46%N u) by (apply (notin_class hexx); [reflexivity | exact E2]).
    destruct (app_split_nosep 46%N u l R rest E1 Hu) as (l2 & El & ->).
    destruct l2 as [|c l2]; cbn [app].
    + change (46 =? ch_dot)%N with true. cbv iota. destruct room as [|room]; [reflexivity|].
      destruct (255 <? v); [reflexivity|]. apply IH. exact HF'.
    + assert (Hc : label_byte c = true).
      { rewrite forallb_forall in Hl. apply Hl. rewrite El. apply in_or_app. right. left. reflexivity. }
      assert (H1 : (c =? ch_dot)%N = false).
      { apply negb_true_iff.
        exact (pred_table label_byte (fun c => negb (c =? ch_dot)%N) label_byte_lt ltac:(vm_compute; reflexivity) c Hc). }
      assert (H2 : trailing_ok (c :: l2 ++ 46%N :: R) = false).
      { cbn [trailing_ok]. apply negb_true_iff.
        exact (pred_table label_byte (fun c => negb ((c <? 128)%N && is_space_ascii c)) label_byte_lt
                 ltac:(vm_compute; reflexivity) c Hc). }
      rewrite H1, H2. reflexivity.
Qed.

Lemma no_nul_class (P : N -> bool) s : P 0%N = false -> forallb P s = true -> existsb (fun c => (c =? 0)%N) s = false.
Proof.
  intros H0. induction s as [|a s IH]; intros H; [reflexivity|]. cbn [forallb existsb] in *.
  apply andb_true_iff in H. destruct H as [Ha Hs]. destruct (a =? 0)%N eqn:E.
  - apply N.eqb_eq in E. subst a. congruence.
  - apply IH. exact Hs.
Qed.

(* ---- the host text ---- *)
Lemma labels_ok_bytes labels : labels_ok labels = true ->
  Forall (fun l => forallb label_byte l = true) labels /\ forallb host_byte (dotted labels) = true.
Proof.
  intros H. assert (HF : Forall (fun l => forallb label_byte l = true) labels).
  { destruct labels as [|l0 ls]; [discriminate H|]. unfold labels_ok in H. rewrite forallb_forall in H.
    apply Forall_forall. intros l Hl. specialize (H l Hl). apply andb_true_iff in H. apply H. }
  split; [exact HF|]. clear H. induction HF as [|l ls Hl _ IH]; [reflexivity|].
  rewrite dotted_cons, !forallb_app, IH. cbn [forallb]. rewrite andb_true_r.
  replace (forallb host_byte l) with true; [reflexivity|]. symmetry.
  rewrite forallb_forall in Hl |- *. intros c Hc. unfold host_byte. rewrite (Hl c Hc). reflexivity.
Qed.

Lemma tld_host_bytes tld : forallb is_alpha_ascii tld = true -> forallb host_byte tld = true.
Proof.
  intros H. rewrite forallb_forall in H |- *. intros c Hc. unfold host_byte, label_byte, is_alnum_ascii.
  rewrite (H c Hc). reflexivity.
Qed.

Lemma domain_host_bytes labels tld : labels_ok labels = true -> tld_ok tld = true ->
  forallb host_byte (dotted labels ++ tld) = true /\ dotted labels ++ tld <> [].
Proof.
  intros Hl Ht. destruct (labels_ok_bytes labels Hl) as [_ H1]. destruct (tld_ok_parts tld Ht) as [Ha Hlen].
  pose proof tld_min_2 as Hmin. split.
  - rewrite forallb_app, H1, (tld_host_bytes tld Ha). reflexivity.
  - destruct tld as [|t0 tl]; [cbn [List.length] in Hlen; lia|]. destruct (dotted labels); discriminate.
Qed.

Lemma parse_ip_node_domain labels tld : labels_ok labels = true -> tld_ok tld = true ->
  parse_ip_node (dotted labels ++ tld) = Raise value_error.
Proof.
  intros Hl Ht. destruct (domain_host_bytes labels tld Hl Ht) as [Hh _].
  destruct (labels_ok_bytes labels Hl) as [HF _]. destruct (tld_ok_parts tld Ht) as [Ha Hlen]. pose proof tld_min_2 as Hmin.
  assert (Hne : tld <> []) by (destruct tld; [cbn [List.length] in Hlen; lia | discriminate]).
  destruct (host_facts _ Hh) as (Hasc & _).
  unfold parse_ip_node, parse_ip. rewrite (ascii_utf8_valid _ Hasc). cbn [negb].
  unfold inet_aton. rewrite (no_nul_class host_byte _ eq_refl Hh).
  rewrite (aton_domain_raises tld Hne Ha labels 3 [] HF). reflexivity.
Qed.

Lemma is_domain_dotted tlds labels tld : labels_ok labels = true -> tld_ok tld = true -> In (upper tld) tlds ->
  is_domain tlds (dotted labels ++ tld) = true.
Proof.
  intros Hl Ht Hin. destruct (dotted_name labels Hl) as (name & En & Hnn). rewrite En, <- app_assoc.
  apply is_domain_complete; [exact Hnn | exact Hin |].
  intros Hd. destruct (tld_ok_parts tld Ht) as [Ha _]. rewrite forallb_forall in Ha. specialize (Ha _ Hd).
  vm_compute in Ha. discriminate Ha.
Qed.

(* ---- parse_url: scheme, network.domain, path ---- *)
Definition url_simple_kids (scheme host path : bytes) : list node :=
  let o := blen scheme + 3 in
  Node SCHEME_TYPE scheme [] 0 (blen scheme) [] ::
  Node DOMAIN_TYPE host [] o (o + blen host) [] ::
  match path with
  | [] => []
  | _ :: _ => [Node PATH_TYPE path [] (o + blen host) (o + blen host + blen path) []]
  end.

Lemma parse_authority_domain tlds labels tld :
  labels_ok labels = true -> tld_ok tld = true -> In (upper tld) tlds ->
  let host := dotted labels ++ tld in
  parse_authority tlds host = Ok [Node DOMAIN_TYPE host [] 0 (blen host) []].
Proof.
  intros Hl Ht Hin host. destruct (domain_host_bytes labels tld Hl Ht) as [Hh Hne]. fold host in Hh, Hne.
  destruct (host_facts host Hh) as (_ & _ & Hat & Hlb & _ & Hc & Hpct & _ & _ & _ & Bat).
  unfold parse_authority, auth_split, ends_colon_digits.
  rewrite (rpartition_absent b_at host Hat), (rpartition_absent b_colon host Hc). cbn [andb fst snd].
  change (partition b_colon []) with (@nil N, false, @nil N).
  cbn [auth_user_nodes UrlSplit.nonempty has_byte existsb]. 
  assert (Nh : UrlSplit.nonempty host = true) by (destruct host; [congruence | reflexivity]).
  rewrite Nh, Bat. cbn [negb].
  rewrite (unquote_no_percent host Hpct).
  unfold auth_host_nodes.
  assert (Sw : startswith host [b_lbr] = false).
  { destruct host as [|h0 host']; [congruence|]. unfold startswith. cbn [prefixb]. rewrite andb_true_r.
    apply N.eqb_neq. intros E. apply Hlb. left. symmetry. exact E. }
  rewrite Sw. unfold host. rewrite (parse_ip_node_domain labels tld Hl Ht). cbn [bind catch_value_error].
  change (is_value_error value_error) with true. cbv iota.
  rewrite (is_domain_dotted tlds labels tld Hl Ht Hin). reflexivity.
Qed.

Theorem parse_url_simple tlds scheme labels tld path :
  url_scheme_ok scheme -> labels_ok labels = true -> tld_ok tld = true -> In (upper tld) tlds ->
  url_path_shape path = true ->
  let host := dotted labels ++ tld in
  parse_url tlds (url_form scheme host path) = Ok (url_simple_kids scheme host path).
Proof.
  intros Hs Hl Ht Hin Hp host. destruct (domain_host_bytes labels tld Hl Ht) as [Hh Hne]. fold host in Hh, Hne.
  unfold parse_url. rewrite (urlsplit_simple scheme host path Hs Hh Hp). cbn [bind sr_scheme sr_netloc].
  destruct (scheme_facts scheme Hs) as (Hsne & _).
  assert (Ns : UrlSplit.nonempty scheme = true) by (destruct scheme; [congruence | reflexivity]).
  assert (Nh : UrlSplit.nonempty host = true) by (destruct host; [congruence | reflexivity]).
  unfold url_scheme_nodes. rewrite Ns.
  assert (Hhead : slice (url_form scheme host path) 0 (blen scheme) = scheme) by (unfold url_form; apply slice_prefix).
  rewrite Hhead, beqb_refl. cbn [orb]. rewrite Nh.
  unfold host at 1. rewrite (parse_authority_domain tlds labels tld Hl Ht Hin). fold host.
  cbn [bind catch_value_error map shift].
  unfold url_tail_nodes. cbn [sr_path sr_query sr_fragment UrlSplit.nonempty].
  unfold url_simple_kids. destruct path as [|p0 path'].
  - cbn [UrlSplit.nonempty app]. do 3 f_equal. f_equal; lia.
  - cbn [UrlSplit.nonempty]. rewrite (normalize_path_simple (p0 :: path') ltac:(discriminate) Hp). cbn [app].
    do 3 f_equal; [f_equal; lia|]. f_equal. f_equal; lia.
Qed.

(* ---- the context cut of find_urls ---- *)
(* the Pascal-string test of the model: the byte of the match at the index given by the byte before it is a zero
   digit, and the ten bytes before the match (a Python slice: a negative start wraps around) are not all printable *)
Definition url_pascal_cut (data form : bytes) (start : Z) (prev : N) : bool :=
  beqb (slice form (Z.of_N prev) (Z.of_N prev + 1)) [ch_zero] && negb (is_printable (slice data (start - 10) start)).
(* the EXACT condition on the prefix: it is empty, or its last byte does not trigger the Pascal-string cut *)
Definition url_ctx_ok (pre form suf : bytes) : bool :=
  match rev pre with
  | [] => true
  | prev :: _ => negb (url_pascal_cut (pre ++ form ++ suf) form (blen pre) prev)
  end.

Lemma url_context_cut_none data form start e prev :
  ~ In 39%N form -> ~ In 41%N form -> (start =? 0) = true \/ url_pascal_cut data form start prev = false ->
  url_context_cut data form start e prev = (form, e).
Proof.
  intros H39 H41 Hc. unfold url_context_cut. destruct (start =? 0); [reflexivity|].
  destruct Hc as [Hc|Hc]; [discriminate Hc|]. unfold url_pascal_cut in Hc. rewrite Hc.
  unfold contexts. destruct (prev =? 39)%N.
  - rewrite (find_absent 39%N form H39). reflexivity.
  - destruct (prev =? 40)%N; [|reflexivity]. rewrite (find_absent 41%N form H41). reflexivity.
Qed.

Lemma getitem_last_of_prefix pre prev t : getitem ((pre ++ [prev]) ++ t) (blen (pre ++ [prev]) - 1) = Ok prev.
Proof.
  unfold getitem. rewrite !blen_app. change (blen [prev]) with 1.
  pose proof (blen_nonneg pre) as H1. pose proof (blen_nonneg t) as H2.
  replace (blen pre + 1 - 1) with (blen pre) by lia. cbv zeta.
  destruct (Z.ltb_spec (blen pre) 0) as [E|E]; [lia|].
  destruct (Z.ltb_spec (blen pre) 0) as [E'|E']; [lia|].
  destruct (Z.leb_spec (blen pre + 1 + blen t) (blen pre)) as [E2|E2]; [lia|]. cbn [orb].
  unfold blen. rewrite Nat2Z.id, <- app_assoc, nth_error_app2 by lia. rewrite Nat.sub_diag. reflexivity.
Qed.

Lemma url_form_no_ctx scheme host path :
  url_scheme_ok scheme -> forallb host_byte host = true -> forallb rest_byte path = true ->
  ~ In 39%N (url_form scheme host path) /\ ~ In 41%N (url_form scheme host path).
Proof.
  intros Hs Hh Hp. destruct (scheme_facts scheme Hs) as (_ & _ & _ & _ & _ & _ & _ & _ & _ & S1 & S2).
  destruct (rest_facts path Hp) as (_ & _ & P1 & P2 & _).
  assert (H1 : ~ In 39%N host) by (apply (notin_class host_byte); [reflexivity | exact Hh]).
  assert (H2 : ~ In 41%N host) by (apply (notin_class host_byte); [reflexivity | exact Hh]).
  unfold url_form. split; intros Hin;
    (apply in_app_or in Hin; destruct Hin as [Hin|Hin]; [tauto|];
     apply in_app_or in Hin; destruct Hin as [Hin|Hin];
     [cbn in Hin; repeat (destruct Hin as [Hin|Hin]; [discriminate Hin|]); exact Hin|];
     apply in_app_or in Hin; destruct Hin as [Hin|Hin]; tauto).
Qed.

(* where the nodes of the other matches start *)
Lemma find_urls_post_starts tlds data lo : forall ms out,
  Forall (fun mt => lo <= m_start mt 0) ms -> find_urls_post tlds data ms = Ok out ->
  Forall (fun nd => lo <= n_st nd) out.
Proof.
  unfold find_urls_post. induction ms as [|mt ms IH]; intros out HF H; cbn [collect] in H.
  - injection H as <-. constructor.
  - inversion HF as [|? ? Hm HF']; subst.
    destruct (find_urls_one tlds data mt) as [o| |] eqn:E1; cbn [bind] in H; try discriminate H.
    destruct (collect (find_urls_one tlds data) ms) as [out'| |]; cbn [bind] in H; try discriminate H.
    injection H as <-. destruct o as [n|]; [|apply IH; [exact HF' | reflexivity]].
    constructor; [|apply IH; [exact HF' | reflexivity]].
    unfold find_urls_one in E1.
    destruct (getitem data (m_start mt 0 - 1)) as [prev| |]; cbn [bind] in E1; try discriminate E1.
    destruct (url_context_cut data (group data mt 0) (m_start mt 0) (m_end mt 0) prev) as [grp en].
    destruct (is_url grp) as [ok| |]; cbn [bind] in E1; try discriminate E1.
    destruct ok; cbn [negb] in E1; [|discriminate E1].
    destruct (normalize_percent_encoding grp) as [value obf].
    destruct (is_url value) as [ok2| |]; cbn [bind] in E1; try discriminate E1.
    destruct ok2; cbn [negb] in E1; [|discriminate E1].
    destruct (parse_url tlds value) as [kids| |]; cbn [bind] in E1; try discriminate E1.
    injection E1 as <-. cbn [n_st]. exact Hm.
Qed.

(* ------------------------------------------------------------------ *)
(* 4.  The round trip                                                    *)
(* ------------------------------------------------------------------ *)
(* the common part: any text  scheme :// host rest  the pattern runs over, which is_url accepts and parse_url splits *)
Theorem find_urls_roundtrip_gen tlds pre scheme host rest kids suf :
  url_scheme_ok scheme -> forallb host_byte host = true ->
  (URL_HOST_MIN <= List.length host <= URL_HOST_MAX)%nat ->
  url_rest_ok rest = true -> url_stop suf = true ->
  let form := url_form scheme host rest in
  is_url form = Ok true -> parse_url tlds form = Ok kids ->
  url_ctx_ok pre form suf = true ->
  (List.length form + List.length (take_trail suf) + 100 <= default_fuel)%nat ->
  let data := pre ++ form ++ suf in
  quiet default_fuel RE_network_URL_RE (List.length pre) (start_pos data) ->
  find_urls tlds data = Hang \/
  exists others, find_urls tlds data
               = Ok (Node URL_TYPE form [] (blen pre) (blen pre + blen form) kids :: others) /\
               Forall (fun nd => blen pre + blen form <= n_st nd) others.
Proof.
  intros Hs Hh Hlen Hrest Hstop form Hisurl Hparse Hctx Hfuel data Hq.
  pose proof (url_runs scheme host rest suf Hs Hh Hlen Hrest Hstop) as R. fold form in R.
  pose proof (url_rest_bytes rest Hrest) as Hrb.
  assert (Hfne : form <> []).
  { unfold form, url_form. destruct (scheme_facts scheme Hs) as (Hsne & _). destruct scheme; [congruence | discriminate]. }
  assert (Hflen : (List.length host + List.length rest <= List.length form)%nat).
  { unfold form, url_form. rewrite !app_length. lia. }
  destruct (fi_form RE_network_URL_RE NG_network_URL_RE pre form suf _ _ Hq R ltac:(lia) Hfne)
    as [H | (others & Hfi & Hothers)].
  { left. unfold find_urls. fold data in H. rewrite H. reflexivity. }
  fold data in Hfi.
  set (s := blen pre) in *. set (e := s + blen form) in *.
  change (mk_mtch NG_network_URL_RE s e (cf_id s [])) with ([Some (s, e)] : mtch) in Hfi.
  set (mt := ([Some (s, e)] : mtch)) in *.
  assert (Eg0 : group data mt 0 = form) by (unfold group, mt; cbn [nth]; unfold e, s, data; apply slice_mid).
  destruct (url_form_no_ctx scheme host rest Hs Hh Hrb) as [H39 H41]. fold form in H39, H41.
  assert (Hget : exists prev, getitem data (s - 1) = Ok prev /\
                              ((s =? 0) = true \/ url_pascal_cut data form s prev = false)).
  { unfold url_ctx_ok in Hctx. destruct (rev pre) as [|prev rp] eqn:Er.
    - assert (pre = []) by (rewrite <- (rev_involutive pre), Er; reflexivity). subst pre.
      destruct (getitem_ok data (s - 1)) as [c Hc].
      + unfold s, data. cbn [app]. change (blen []) with 0. rewrite blen_app.
        pose proof (blen_nonneg suf). assert (0 < blen form) by (destruct form; [congruence | rewrite blen_cons1; pose proof (blen_nonneg form); lia]). lia.
      + exists c. split; [exact Hc | left; reflexivity].
    - assert (Epre : pre = rev rp ++ [prev]) by (rewrite <- (rev_involutive pre), Er; reflexivity).
      exists prev. split.
      + unfold s, data. rewrite Epre. apply getitem_last_of_prefix.
      + right. apply negb_true_iff in Hctx. exact Hctx. }
  destruct Hget as (prev & Hgi & Hcut).
  assert (Eone : find_urls_one tlds data mt = Ok (Some (Node URL_TYPE form [] s e kids))).
  { unfold find_urls_one. rewrite Eg0. unfold m_start, m_end, span, mt. cbn [nth fst snd option_map].
    rewrite Hgi. cbn [bind]. rewrite (url_context_cut_none data form s e prev H39 H41 Hcut).
    rewrite Hisurl. cbn [bind negb].
    rewrite (normalize_percent_encoding_simple form (url_form_no_pct scheme host rest Hs Hh Hrb)).
    rewrite Hisurl. cbn [bind negb]. rewrite Hparse. reflexivity. }
  unfold find_urls. rewrite Hfi. cbn [bind]. unfold find_urls_post. cbn [collect]. rewrite Eone. cbn [bind].
  destruct (collect (find_urls_one tlds data) others) as [out|ex|] eqn:ER; cbn [bind].
  - right. exists out. split; [reflexivity|]. apply (find_urls_post_starts tlds data e others out Hothers ER).
  - exfalso. destruct (find_urls_total tlds data) as [HT | (nodes & HT & _)];
      unfold find_urls in HT; rewrite Hfi in HT; cbn [bind] in HT; unfold find_urls_post in HT; cbn [collect] in HT;
      rewrite Eone in HT; cbn [bind] in HT; rewrite ER in HT; discriminate HT.
  - left. reflexivity.
Qed.

Theorem find_urls_roundtrip_simple_quiet tlds pre scheme labels tld path suf :
  url_scheme_ok scheme -> labels_ok labels = true -> tld_ok tld = true -> In (upper tld) tlds ->
  let host := dotted labels ++ tld in
  (URL_HOST_MIN <= List.length host <= URL_HOST_MAX)%nat ->
  url_path_ok path = true -> url_stop suf = true ->
  let form := url_form scheme host path in
  url_ctx_ok pre form suf = true ->
  (List.length form + List.length (take_trail suf) + 100 <= default_fuel)%nat ->
  let data := pre ++ form ++ suf in
  quiet default_fuel RE_network_URL_RE (List.length pre) (start_pos data) ->
  find_urls tlds data = Hang \/
  exists rest, find_urls tlds data
               = Ok (Node URL_TYPE form [] (blen pre) (blen pre + blen form) (url_simple_kids scheme host path) :: rest) /\
               Forall (fun nd => blen pre + blen form <= n_st nd) rest.
Proof.
  intros Hs Hl Ht Hin host Hlen Hp0 Hstop form Hctx Hfuel data Hq.
  destruct (domain_host_bytes labels tld Hl Ht) as [Hh Hne]. fold host in Hh, Hne.
  pose proof (url_path_ok_shape path Hp0) as Hp.
  apply (find_urls_roundtrip_gen tlds pre scheme host path (url_simple_kids scheme host path) suf Hs Hh Hlen
           (url_path_rest path Hp0) Hstop); try assumption.
  - apply (is_url_simple scheme host path Hs Hh Hne Hp).
  - apply (parse_url_simple tlds scheme labels tld path Hs Hl Ht Hin Hp).
Qed.

(* decidable form of the hypothesis on the prefix: no byte of it can start a match (h, H, f, F) *)
Theorem find_urls_roundtrip_simple tlds pre scheme labels tld path suf :
  url_scheme_ok scheme -> labels_ok labels = true -> tld_ok tld = true -> In (upper tld) tlds ->
  let host := dotted labels ++ tld in
  (URL_HOST_MIN <= List.length host <= URL_HOST_MAX)%nat ->
  url_path_ok path = true -> url_stop suf = true ->
  let form := url_form scheme host path in
  neutral RE_network_URL_RE pre = true -> url_ctx_ok pre form suf = true ->
  (List.length form + List.length (take_trail suf) + 100 <= default_fuel)%nat ->
  let data := pre ++ form ++ suf in
  find_urls tlds data = Hang \/
  exists rest, find_urls tlds data
               = Ok (Node URL_TYPE form [] (blen pre) (blen pre + blen form) (url_simple_kids scheme host path) :: rest) /\
               Forall (fun nd => blen pre + blen form <= n_st nd) rest.
Proof.
  intros Hs Hl Ht Hin host Hlen Hp Hstop form Hn Hctx Hfuel data.
  apply find_urls_roundtrip_simple_quiet; try assumption.
  apply quiet_no_first; [vm_compute; reflexivity | spine_goal | exact Hn].
Qed.

(* ---- sufficient conditions for url_ctx_ok ---- *)
Lemma forallb_firstn {A} (P : A -> bool) k : forall l, forallb P l = true -> forallb P (firstn k l) = true.
Proof.
  induction k as [|k IH]; intros l H; [reflexivity|]. destruct l as [|a l]; [reflexivity|].
  cbn [forallb firstn] in *. apply andb_true_iff in H. destruct H as [Ha Hl]. rewrite Ha, (IH l Hl). reflexivity.
Qed.

Lemma forallb_skipn {A} (P : A -> bool) k : forall l, forallb P l = true -> forallb P (skipn k l) = true.
Proof.
  induction k as [|k IH]; intros l H; [exact H|]. destruct l as [|a l]; [reflexivity|].
  cbn [forallb skipn] in *. apply andb_true_iff in H. apply IH, H.
Qed.

(* a Python slice that ends at the end of the prefix consists of bytes of the prefix, whatever its start *)
Lemma forallb_slice_prefix (P : N -> bool) pre t lo :
  forallb P pre = true -> forallb P (slice (pre ++ t) lo (blen pre)) = true.
Proof.
  intros H. unfold slice. set (n := blen (pre ++ t)). set (l := clamp_idx n lo).
  pose proof (blen_nonneg pre) as H1. pose proof (blen_nonneg t) as H2.
  assert (Hn : n = blen pre + blen t) by (unfold n; apply blen_app).
  assert (Hh : clamp_idx n (blen pre) = blen pre).
  { unfold clamp_idx. destruct (Z.ltb_spec (blen pre) 0); lia. }
  rewrite Hh.
  assert (Hl : 0 <= l) by (unfold l, clamp_idx; destruct (Z.ltb_spec lo 0); lia).
  destruct (Z.le_gt_cases l (blen pre)) as [Hle|Hgt].
  - rewrite skipn_app.
    replace (Z.to_nat l - List.length pre)%nat with 0%nat by (unfold blen in Hle; lia). cbn [skipn].
    rewrite firstn_app.
    replace (Z.to_nat (blen pre - l) - List.length (skipn (Z.to_nat l) pre))%nat with 0%nat
      by (rewrite skipn_length; unfold blen in *; lia).
    cbn [firstn]. rewrite app_nil_r. apply forallb_firstn, forallb_skipn, H.
  - replace (Z.to_nat (blen pre - l)) with 0%nat by lia. reflexivity.
Qed.

(* a prefix of printable ASCII bytes never triggers the Pascal-string cut *)
Lemma url_ctx_ok_printable pre form suf : is_printable pre = true -> url_ctx_ok pre form suf = true.
Proof.
  intros H. unfold url_ctx_ok. destruct (rev pre) as [|prev rp]; [reflexivity|].
  unfold url_pascal_cut.
  unfold is_printable in *. rewrite (forallb_slice_prefix _ pre (form ++ suf) (blen pre - 10) H).
  rewrite andb_false_r. reflexivity.
Qed.

(* the round trip with the regenerated table of top level domains and a printable prefix *)
Corollary find_urls_roundtrip_simple_table pre scheme labels tld path suf :
  url_scheme_ok scheme -> labels_ok labels = true -> tld_ok tld = true -> mem (upper tld) TOP_LEVEL_DOMAINS = true ->
  let host := dotted labels ++ tld in
  (URL_HOST_MIN <= List.length host <= URL_HOST_MAX)%nat ->
  url_path_ok path = true -> url_stop suf = true ->
  let form := url_form scheme host path in
  neutral RE_network_URL_RE pre = true -> is_printable pre = true ->
  (List.length form + List.length (take_trail suf) + 100 <= default_fuel)%nat ->
  let data := pre ++ form ++ suf in
  find_urls TOP_LEVEL_DOMAINS data = Hang \/
  exists rest, find_urls TOP_LEVEL_DOMAINS data
               = Ok (Node URL_TYPE form [] (blen pre) (blen pre + blen form) (url_simple_kids scheme host path) :: rest) /\
               Forall (fun nd => blen pre + blen form <= n_st nd) rest.
Proof.
  intros Hs Hl Ht Hin host Hlen Hp Hstop form Hn Hpr Hfuel data.
  apply find_urls_roundtrip_simple; try assumption.
  - apply tld_in_table. exact Hin.
  - apply url_ctx_ok_printable. exact Hpr.
Qed.


(* ------------------------------------------------------------------ *)
(* 4b.  Query and fragment                                               *)
(* ------------------------------------------------------------------ *)
(* the URL may go on with  ? query  (unreserved bytes, equals sign, ampersand; not empty) and  # fragment
   (unreserved bytes; not empty); the path keeps its shape, and the LAST byte of the whole text is not a full stop *)
Definition query_byte (c : N) : bool := unreserved_byte c || (c =? 61)%N || (c =? 38)%N.
Definition opt_part (sep : N) (o : option bytes) : bytes := match o with None => [] | Some x => sep :: x end.
Definition opt_val (o : option bytes) : bytes := match o with None => [] | Some x => x end.
Definition opt_ok (P : N -> bool) (o : option bytes) : bool :=
  match o with None => true | Some x => forallb P x && negb (beqb x []) end.
Definition url_rest (path : bytes) (q f : option bytes) : bytes := path ++ opt_part 63%N q ++ opt_part 35%N f.
Definition url_qf_ok (path : bytes) (q f : option bytes) : bool :=
  url_path_shape path && opt_ok query_byte q && opt_ok unreserved_byte f && url_rest_ok (url_rest path q f).

Definition url_qf_kids (scheme host path : bytes) (q f : option bytes) : list node :=
  let o := blen scheme + 3 in
  let o2 := o + blen host in
  let o3 := o2 + blen path in
  Node SCHEME_TYPE scheme [] 0 (blen scheme) [] ::
  Node DOMAIN_TYPE host [] o o2 [] ::
  match path with [] => [] | _ :: _ => [Node PATH_TYPE path [] o2 o3 []] end ++
  match q with None => [] | Some qv => [Node QUERY_TYPE qv [] (o3 + 1) (o3 + 1 + blen qv) []] end ++
  match f with
  | None => []
  | Some fv => let o4 := o3 + blen (opt_part 63%N q) in [Node FRAGMENT_TYPE fv [] (o4 + 1) (o4 + 1 + blen fv) []]
  end.

Lemma unreserved_byte_lt c : unreserved_byte c = true -> (c < 256)%N.
Proof. intros H. apply path_byte_lt. unfold path_byte. rewrite H. reflexivity. Qed.

Lemma query_byte_lt c : query_byte c = true -> (c < 256)%N.
Proof.
  unfold query_byte. intros H.
  do 2 (apply orb_true_iff in H; destruct H as [H|H]; [|apply N.eqb_eq in H; subst c; reflexivity]).
  apply unreserved_byte_lt. exact H.
Qed.

Lemma partition_at c a b : ~ In c a -> partition c (a ++ c :: b) = (a, true, b).
Proof.
  intros H. unfold partition.
  rewrite (span_until_stop (N.eqb c) a (c :: b) (notin_forallb c a H) (N.eqb_refl c)). reflexivity.
Qed.

Lemma opt_ok_parts P o : opt_ok P o = true -> match o with None => True | Some x => forallb P x = true /\ x <> [] end.
Proof.
  destruct o as [x|]; [|intros _; exact I]. cbn [opt_ok]. intros H. apply andb_true_iff in H. destruct H as [H1 H2].
  apply negb_true_iff, beqb_neq in H2. split; assumption.
Qed.

Lemma url_qf_ok_parts path q f : url_qf_ok path q f = true ->
  url_path_shape path = true /\ opt_ok query_byte q = true /\ opt_ok unreserved_byte f = true /\
  url_rest_ok (url_rest path q f) = true.
Proof.
  unfold url_qf_ok. intros H. apply andb_true_iff in H. destruct H as [H H4]. apply andb_true_iff in H. destruct H as [H H3].
  apply andb_true_iff in H. destruct H as [H1 H2]. repeat split; assumption.
Qed.

Theorem urlsplit_qf scheme host path q f :
  url_scheme_ok scheme -> forallb host_byte host = true -> url_qf_ok path q f = true ->
  urlsplit (url_form scheme host (url_rest path q f)) = Ok (mkSplit scheme host path (opt_val q) (opt_val f)).
Proof.
  intros Hs Hh Hqf. destruct (url_qf_ok_parts path q f Hqf) as (Hp & Hq & Hf & Hrest).
  pose proof (url_rest_bytes _ Hrest) as Hrb. unfold urlsplit.
  rewrite (url_form_ascii scheme host _ Hs Hh Hrb). cbn [negb].
  rewrite (clean_url_id _ (url_form_clean scheme host _ Hs Hh Hrb)).
  destruct (scheme_facts scheme Hs) as (Hne & Ha & Hsc & Hc & Hl & _).
  destruct (host_facts host Hh) as (_ & Hd & _ & Hlb & Hrbr & _ & _ & _ & Blb & Brb & _).
  assert (Hr0 : match url_rest path q f with [] => True | c :: _ => is_netloc_delim c = true end).
  { destruct (url_rest_ok_parts _ Hrest) as [-> | (d0 & w & -> & Hd0 & _)]; [exact I | exact Hd0]. }
  unfold url_form. change (L"://" ++ host ++ url_rest path q f) with (b_colon :: b_slash :: b_slash :: host ++ url_rest path q f).
  rewrite (split_scheme_lit scheme _ Hne Ha Hsc Hc), Hl.
  rewrite split_netloc_slashes, (span_until_stop is_netloc_delim host _ Hd Hr0).
  unfold check_netloc. rewrite Blb, Brb. cbn [andb negb orb bind].
  pose proof (url_path_shape_bytes path Hp) as Hpb.
  assert (P1 : ~ In b_hash path) by (apply (notin_class path_byte); [reflexivity | exact Hpb]).
  assert (P2 : ~ In b_qmark path) by (apply (notin_class path_byte); [reflexivity | exact Hpb]).
  pose proof (opt_ok_parts _ _ Hq) as Hq'. pose proof (opt_ok_parts _ _ Hf) as Hf'.
  assert (Q1 : ~ In b_hash (path ++ opt_part 63%N q)).
  { intros Hin. apply in_app_or in Hin. destruct Hin as [Hin|Hin]; [exact (P1 Hin)|].
    destruct q as [qv|]; [|exact Hin]. destruct Hq' as [Hqv _]. cbn [opt_part] in Hin. destruct Hin as [Hin|Hin]; [discriminate Hin|].
    revert Hin. apply (notin_class query_byte); [reflexivity | exact Hqv]. }
  unfold url_rest. change 35%N with b_hash in *. change 63%N with b_qmark in *.
  destruct f as [fv|]; cbn [opt_part opt_val].
  - rewrite app_assoc. rewrite (partition_at b_hash _ fv Q1).
    destruct q as [qv|]; cbn [opt_part opt_val].
    + rewrite (partition_at b_qmark path qv P2). reflexivity.
    + rewrite app_nil_r, (partition_absent b_qmark path P2). reflexivity.
  - rewrite app_nil_r. rewrite (partition_absent b_hash _ Q1).
    destruct q as [qv|]; cbn [opt_part opt_val].
    + rewrite (partition_at b_qmark path qv P2). reflexivity.
    + rewrite app_nil_r, (partition_absent b_qmark path P2). reflexivity.
Qed.

Theorem is_url_qf scheme host path q f :
  url_scheme_ok scheme -> forallb host_byte host = true -> host <> [] -> url_qf_ok path q f = true ->
  is_url (url_form scheme host (url_rest path q f)) = Ok true.
Proof.
  intros Hs Hh Hne Hqf. unfold is_url. rewrite (urlsplit_qf scheme host path q f Hs Hh Hqf). cbn [bind].
  unfold sr_port, sr_hostname. cbn [sr_netloc sr_scheme]. rewrite (hostinfo_plain host Hh). cbn [fst snd bind].
  destruct (host_facts host Hh) as (_ & _ & _ & _ & _ & _ & Hpct & _).
  rewrite (partition_absent b_pct host Hpct).
  destruct (scheme_facts scheme Hs) as (Hsne & _ & _ & _ & _ & _ & Hm & _). rewrite Hm.
  destruct scheme as [|s0 sch]; [congruence|]. destruct host as [|h0 host']; [congruence|]. reflexivity.
Qed.

Ltac node_list_eq :=
  lazymatch goal with
  | |- Ok _ = Ok _ => apply f_equal; node_list_eq
  | |- _ :: _ = _ :: _ => apply f_equal2; [node_list_eq | node_list_eq]
  | |- Node _ _ _ _ _ _ = Node _ _ _ _ _ _ => (f_equal; rewrite ?blen_cons1; lia)
  | |- [] = [] => reflexivity
  | |- _ => idtac
  end.

Theorem parse_url_qf tlds scheme labels tld path q f :
  url_scheme_ok scheme -> labels_ok labels = true -> tld_ok tld = true -> In (upper tld) tlds ->
  url_qf_ok path q f = true ->
  let host := dotted labels ++ tld in
  parse_url tlds (url_form scheme host (url_rest path q f)) = Ok (url_qf_kids scheme host path q f).
Proof.
  intros Hs Hl Ht Hin Hqf host. destruct (domain_host_bytes labels tld Hl Ht) as [Hh Hne]. fold host in Hh, Hne.
  destruct (url_qf_ok_parts path q f Hqf) as (Hp & Hq & Hf & Hrest).
  unfold parse_url. rewrite (urlsplit_qf scheme host path q f Hs Hh Hqf). cbn [bind sr_scheme sr_netloc].
  destruct (scheme_facts scheme Hs) as (Hsne & _).
  assert (Ns : UrlSplit.nonempty scheme = true) by (destruct scheme; [congruence | reflexivity]).
  assert (Nh : UrlSplit.nonempty host = true) by (destruct host; [congruence | reflexivity]).
  unfold url_scheme_nodes. rewrite Ns.
  assert (Hhead : slice (url_form scheme host (url_rest path q f)) 0 (blen scheme) = scheme) by (unfold url_form; apply slice_prefix).
  rewrite Hhead, beqb_refl. cbn [orb]. rewrite Nh.
  unfold host at 1. rewrite (parse_authority_domain tlds labels tld Hl Ht Hin). fold host.
  cbn [bind catch_value_error map shift].
  unfold url_tail_nodes. cbn [sr_path sr_query sr_fragment].
  pose proof (opt_ok_parts _ _ Hq) as Hq'. pose proof (opt_ok_parts _ _ Hf) as Hf'.
  assert (Epath : forall p0 pt, path = p0 :: pt -> normalize_path path = (path, [])).
  { intros p0 pt E. apply normalize_path_simple; [rewrite E; discriminate | exact Hp]. }
  assert (Hslice : forall fv, q = None -> f = Some fv ->
            slice (url_form scheme host (url_rest path q f)) (blen scheme + 1 + 2 + blen host + blen path)
                  (blen scheme + 1 + 2 + blen host + blen path + 1) = [b_hash]).
  { intros fv -> ->. apply (slice_eq_mid _ (scheme ++ L"://" ++ host ++ path) [b_hash] fv).
    - unfold url_form, url_rest. cbn [opt_part app]. rewrite <- !app_assoc. reflexivity.
    - rewrite !blen_app. change (blen (L"://")) with 3. lia.
    - rewrite !blen_app. change (blen (L"://")) with 3. change (blen [b_hash]) with 1. lia. }
  assert (Nq : forall qv, q = Some qv -> UrlSplit.nonempty qv = true /\ Percent.unquote_to_bytes qv = qv).
  { intros qv ->. destruct Hq' as [Hb Hn]. split; [destruct qv; [congruence | reflexivity]|].
    apply unquote_no_percent. apply (notin_class query_byte); [reflexivity | exact Hb]. }
  assert (Nf : forall fv, f = Some fv -> UrlSplit.nonempty fv = true /\ Percent.unquote_to_bytes fv = fv).
  { intros fv ->. destruct Hf' as [Hb Hn]. split; [destruct fv; [congruence | reflexivity]|].
    apply unquote_no_percent. apply (notin_class unreserved_byte); [reflexivity | exact Hb]. }
  unfold url_qf_kids.
  destruct path as [|p0 pt].
  - assert (Hslice0 : forall fv, q = None -> f = Some fv ->
              slice (url_form scheme host (url_rest [] q f)) (blen scheme + 1 + 2 + blen host)
                    (blen scheme + 1 + 2 + blen host + 1) = [b_hash]).
    { intros fv Eq Ef. pose proof (Hslice fv Eq Ef) as Hsl. change (blen (@nil N)) with 0 in Hsl.
      rewrite Z.add_0_r in Hsl. exact Hsl. }
    destruct q as [qv|]; destruct f as [fv|]; cbn [opt_val opt_part UrlSplit.nonempty app];
      try (destruct (Nq qv eq_refl) as [Nq1 Nq2]; rewrite Nq1, Nq2);
      try (destruct (Nf fv eq_refl) as [Nf1 Nf2]; rewrite Nf1, Nf2);
      try rewrite (Hslice0 fv eq_refl eq_refl);
      try change (beqb [b_hash] [b_qmark]) with false;
      cbn [negb andb app]; change (blen (@nil N)) with 0; node_list_eq.
  - rewrite (Epath p0 pt eq_refl).
    destruct q as [qv|]; destruct f as [fv|]; cbn [opt_val opt_part UrlSplit.nonempty app];
      try (destruct (Nq qv eq_refl) as [Nq1 Nq2]; rewrite Nq1, Nq2);
      try (destruct (Nf fv eq_refl) as [Nf1 Nf2]; rewrite Nf1, Nf2);
      try rewrite (Hslice fv eq_refl eq_refl);
      try change (beqb [b_hash] [b_qmark]) with false;
      cbn [negb andb app]; change (blen (@nil N)) with 0; node_list_eq.
Qed.

Theorem find_urls_roundtrip_query_quiet tlds pre scheme labels tld path q f suf :
  url_scheme_ok scheme -> labels_ok labels = true -> tld_ok tld = true -> In (upper tld) tlds ->
  let host := dotted labels ++ tld in
  (URL_HOST_MIN <= List.length host <= URL_HOST_MAX)%nat ->
  url_qf_ok path q f = true -> url_stop suf = true ->
  let form := url_form scheme host (url_rest path q f) in
  url_ctx_ok pre form suf = true ->
  (List.length form + List.length (take_trail suf) + 100 <= default_fuel)%nat ->
  let data := pre ++ form ++ suf in
  quiet default_fuel RE_network_URL_RE (List.length pre) (start_pos data) ->
  find_urls tlds data = Hang \/
  exists rest, find_urls tlds data
               = Ok (Node URL_TYPE form [] (blen pre) (blen pre + blen form) (url_qf_kids scheme host path q f) :: rest) /\
               Forall (fun nd => blen pre + blen form <= n_st nd) rest.
Proof.
  intros Hs Hl Ht Hin host Hlen Hqf Hstop form Hctx Hfuel data Hq.
  destruct (domain_host_bytes labels tld Hl Ht) as [Hh Hne]. fold host in Hh, Hne.
  destruct (url_qf_ok_parts path q f Hqf) as (_ & _ & _ & Hrest).
  apply (find_urls_roundtrip_gen tlds pre scheme host (url_rest path q f) (url_qf_kids scheme host path q f) suf Hs Hh Hlen
           Hrest Hstop); try assumption.
  - apply (is_url_qf scheme host path q f Hs Hh Hne Hqf).
  - apply (parse_url_qf tlds scheme labels tld path q f Hs Hl Ht Hin Hqf).
Qed.

Theorem find_urls_roundtrip_query tlds pre scheme labels tld path q f suf :
  url_scheme_ok scheme -> labels_ok labels = true -> tld_ok tld = true -> In (upper tld) tlds ->
  let host := dotted labels ++ tld in
  (URL_HOST_MIN <= List.length host <= URL_HOST_MAX)%nat ->
  url_qf_ok path q f = true -> url_stop suf = true ->
  let form := url_form scheme host (url_rest path q f) in
  neutral RE_network_URL_RE pre = true -> url_ctx_ok pre form suf = true ->
  (List.length form + List.length (take_trail suf) + 100 <= default_fuel)%nat ->
  let data := pre ++ form ++ suf in
  find_urls tlds data = Hang \/
  exists rest, find_urls tlds data
               = Ok (Node URL_TYPE form [] (blen pre) (blen pre + blen form) (url_qf_kids scheme host path q f) :: rest) /\
               Forall (fun nd => blen pre + blen form <= n_st nd) rest.
Proof.
  intros Hs Hl Ht Hin host Hlen Hqf Hstop form Hn Hctx Hfuel data.
  apply find_urls_roundtrip_query_quiet; try assumption.
  apply quiet_no_first; [vm_compute; reflexivity | spine_goal | exact Hn].
Qed.

(* without query and fragment this is the simple statement *)
Lemma url_qf_simple scheme host path :
  url_rest path None None = path /\ url_qf_kids scheme host path None None = url_simple_kids scheme host path.
Proof.
  unfold url_rest, url_qf_kids, url_simple_kids. cbn [opt_part]. rewrite !app_nil_r. split; [reflexivity|].
  destruct path; reflexivity.
Qed.
(* ------------------------------------------------------------------ *)
(* 5.  Examples for find_urls: non-vacuity, the tie with Python, the side conditions *)
(* ------------------------------------------------------------------ *)
(* Expected values = what /venv/bin/python prints for the same bytes with multidecoder.decoders.network.find_urls. *)
Ltac small_fuel6 := apply (Nat.le_trans _ 2000); [apply Nat.leb_le; vm_compute; reflexivity | unfold default_fuel; lia].

Example rt6_url_pattern :
  startable RE_network_URL_RE = true /\ first_cls RE_network_URL_RE = mask_of (L"hHfF") /\
  NG_network_URL_RE = 0%nat /\ URL_HOST_MIN = 4%nat /\ URL_HOST_MAX = 253%nat.
Proof. vm_compute. repeat split; reflexivity. Qed.

(* the stop class is exactly the complement of the star class of the path part *)
Definition URL_PATH_STAR_CLS : N :=
  match rep_body (seq_r (rep_body (seq_r (seq_r (seq_r URL_TAIL_RE))))) with
  | Seq (Rep _ _ (Cls mk)) _ => mk
  | _ => 0%N
  end.
Example rt6_url_stop_exact :
  forallb (fun c => Bool.eqb (url_stop_byte c) (negb (N.testbit URL_PATH_STAR_CLS c))) bytes256 = true.
Proof. vm_compute. reflexivity. Qed.

Example rt6_url_hyps :
  url_scheme_ok (L"https") /\ labels_ok [L"www"; L"example"] = true /\ tld_ok (L"com") = true /\
  mem (upper (L"com")) TOP_LEVEL_DOMAINS = true /\ url_path_ok (L"/a/b-c_d~e/f.txt") = true /\
  url_stop ([34%N] ++ L" x") = true /\ neutral RE_network_URL_RE (L"see ") = true /\ is_printable (L"see ") = true /\
  url_form (L"https") (dotted [L"www"; L"example"] ++ L"com") (L"/a/b-c_d~e/f.txt") = L"https://www.example.com/a/b-c_d~e/f.txt".
Proof. split; [right; left; reflexivity|]. vm_compute. repeat split; reflexivity. Qed.
Example rt6_url_run :
  find_urls TOP_LEVEL_DOMAINS (L"see " ++ L"https://www.example.com/a/b-c_d~e/f.txt" ++ [34%N] ++ L" x")
  = Ok [Node (L"network.url") (L"https://www.example.com/a/b-c_d~e/f.txt") [] 4 43
          [Node (L"network.url.scheme") (L"https") [] 0 5 [];
           Node (L"network.domain") (L"www.example.com") [] 8 23 [];
           Node (L"network.url.path") (L"/a/b-c_d~e/f.txt") [] 23 39 []]].
Proof. vm_compute. reflexivity. Qed.
Example rt6_url_thm :
  let data := L"see " ++ url_form (L"https") (dotted [L"www"; L"example"] ++ L"com") (L"/a/b-c_d~e/f.txt") ++ [34%N] ++ L" x" in
  find_urls TOP_LEVEL_DOMAINS data = Hang \/
  exists rest, find_urls TOP_LEVEL_DOMAINS data
               = Ok (Node (L"network.url") (L"https://www.example.com/a/b-c_d~e/f.txt") [] 4 43
                       [Node (L"network.url.scheme") (L"https") [] 0 5 [];
                        Node (L"network.domain") (L"www.example.com") [] 8 23 [];
                        Node (L"network.url.path") (L"/a/b-c_d~e/f.txt") [] 23 39 []] :: rest) /\
               Forall (fun nd => 43 <= n_st nd) rest.
Proof.
  apply (find_urls_roundtrip_simple_table (L"see ") (L"https") [L"www"; L"example"] (L"com") (L"/a/b-c_d~e/f.txt") ([34%N] ++ L" x"));
    [ right; left; reflexivity | vm_compute; reflexivity | vm_compute; reflexivity | vm_compute; reflexivity
    | split; apply Nat.leb_le; vm_compute; reflexivity | vm_compute; reflexivity | vm_compute; reflexivity
    | vm_compute; reflexivity | vm_compute; reflexivity | small_fuel6 ].
Qed.
(* no path; inside parentheses and quotes (the text contains neither a closing parenthesis nor a quote: no cut);
   the root path alone; a second URL in the suffix *)
Example rt6_url_run2 :
  find_urls TOP_LEVEL_DOMAINS (L"(" ++ url_form (L"ftp") (dotted [L"files"; L"example"] ++ L"org") [] ++ L")")
  = Ok [Node (L"network.url") (L"ftp://files.example.org") [] 1 24
          [Node (L"network.url.scheme") (L"ftp") [] 0 3 []; Node (L"network.domain") (L"files.example.org") [] 6 23 []]] /\
  find_urls TOP_LEVEL_DOMAINS (L"'" ++ url_form (L"http") (dotted [L"a"; L"example"] ++ L"museum") (L"/") ++ L"'")
  = Ok [Node (L"network.url") (L"http://a.example.museum/") [] 1 25
          [Node (L"network.url.scheme") (L"http") [] 0 4 []; Node (L"network.domain") (L"a.example.museum") [] 7 23 [];
           Node (L"network.url.path") (L"/") [] 23 24 []]] /\
  find_urls TOP_LEVEL_DOMAINS (url_form (L"http") (dotted [L"one"; L"example"] ++ L"com") (L"/") ++ L" http://two.example.org/x")
  = Ok [Node (L"network.url") (L"http://one.example.com/") [] 0 23
          [Node (L"network.url.scheme") (L"http") [] 0 4 []; Node (L"network.domain") (L"one.example.com") [] 7 22 [];
           Node (L"network.url.path") (L"/") [] 22 23 []];
        Node (L"network.url") (L"http://two.example.org/x") [] 24 48
          [Node (L"network.url.scheme") (L"http") [] 0 4 []; Node (L"network.domain") (L"two.example.org") [] 7 22 [];
           Node (L"network.url.path") (L"/x") [] 22 24 []]].
Proof. vm_compute. repeat split; reflexivity. Qed.
Example rt6_url_hyps2 :
  neutral RE_network_URL_RE (L"(") = true /\ neutral RE_network_URL_RE (L"'") = true /\
  url_stop (L")") = true /\ url_stop (L"'") = true /\ url_stop (L" http://two.example.org/x") = true /\
  url_path_ok [] = true /\ url_path_ok (L"/") = true /\
  url_ctx_ok (L"(") (url_form (L"ftp") (dotted [L"files"; L"example"] ++ L"org") []) (L")") = true.
Proof. vm_compute. repeat split; reflexivity. Qed.

(* SIDE CONDITIONS (all agree with Python) *)
(* the path must not end in a full stop: the final class of the pattern refuses it, the URL ends one byte earlier *)
Example rt6_side_url_trailing_dot :
  url_path_ok (L"/a.b.") = false /\ url_path_ok (L"/a.b") = true /\
  find_urls TOP_LEVEL_DOMAINS (L"x " ++ url_form (L"http") (dotted [L"example"] ++ L"com") (L"/a.b.") ++ L" Next")
  = Ok [Node (L"network.url") (L"http://example.com/a.b") [] 2 24
          [Node (L"network.url.scheme") (L"http") [] 0 4 []; Node (L"network.domain") (L"example.com") [] 7 18 [];
           Node (L"network.url.path") (L"/a.b") [] 18 22 []]].
Proof. vm_compute. repeat split; reflexivity. Qed.
(* dot segments: the URL node is the same, but the path child is normalised and labelled *)
Example rt6_side_url_dot_segment :
  url_path_ok (L"/a/../b") = false /\
  find_urls TOP_LEVEL_DOMAINS (L"x " ++ url_form (L"http") (dotted [L"example"] ++ L"com") (L"/a/../b") ++ L" y")
  = Ok [Node (L"network.url") (L"http://example.com/a/../b") [] 2 27
          [Node (L"network.url.scheme") (L"http") [] 0 4 []; Node (L"network.domain") (L"example.com") [] 7 18 [];
           Node (L"network.url.path") (L"/b") (L"url.dotpath") 18 25 []]].
Proof. vm_compute. split; reflexivity. Qed.
(* FINDING (Pascal-string heuristic): the byte before the URL is a space (32), byte 32 of the URL is a zero digit and one
   of the ten bytes before is not printable (DEL): the URL is cut to 32 bytes and the host is lost.  url_ctx_ok
   excludes exactly this. *)
Definition ex6_pascal_pre : bytes := L"12345678" ++ [127; 32]%N.
Definition ex6_pascal_form : bytes := url_form (L"http") (dotted [L"abcdefghijklmnopqrstuvwxy0"] ++ L"com") (L"/a").
Example rt6_side_url_pascal :
  neutral RE_network_URL_RE ex6_pascal_pre = true /\ url_ctx_ok ex6_pascal_pre ex6_pascal_form [] = false /\
  find_urls TOP_LEVEL_DOMAINS (ex6_pascal_pre ++ ex6_pascal_form)
  = Ok [Node (L"network.url") (L"http://abcdefghijklmnopqrstuvwxy") [] 10 42 [Node (L"network.url.scheme") (L"http") [] 0 4 []]].
Proof. vm_compute. repeat split; reflexivity. Qed.
(* ... and the test is a Python slice: when fewer than ten bytes precede the URL its start is negative and wraps
   around, the slice is empty (for a text of ten bytes or more) and the cut does not happen *)
Example rt6_side_url_pascal_wrap :
  url_ctx_ok [127; 32]%N ex6_pascal_form [] = true /\ is_printable [127; 32]%N = false /\
  find_urls TOP_LEVEL_DOMAINS ([127; 32]%N ++ ex6_pascal_form)
  = Ok [Node (L"network.url") (L"http://abcdefghijklmnopqrstuvwxy0.com/a") [] 2 41
          [Node (L"network.url.scheme") (L"http") [] 0 4 []; Node (L"network.domain") (L"abcdefghijklmnopqrstuvwxy0.com") [] 7 37 [];
           Node (L"network.url.path") (L"/a") [] 37 39 []]].
Proof. vm_compute. repeat split; reflexivity. Qed.
(* the suffix: a byte of the path class extends the URL (here the host, which is then no domain); an at sign turns
   the host into a user name *)
Example rt6_side_url_suffix :
  url_stop (L"x") = false /\ url_stop (L"@evil.org/ x") = false /\
  find_urls TOP_LEVEL_DOMAINS (L"go " ++ url_form (L"http") (dotted [L"example"] ++ L"com") [] ++ L"x")
  = Ok [Node (L"network.url") (L"http://example.comx") [] 3 22 [Node (L"network.url.scheme") (L"http") [] 0 4 []]] /\
  find_urls TOP_LEVEL_DOMAINS (L"go " ++ url_form (L"http") (dotted [L"example"] ++ L"com") [] ++ L"@evil.org/ x")
  = Ok [Node (L"network.url") (L"http://example.com@evil.org/") [] 3 31
          [Node (L"network.url.scheme") (L"http") [] 0 4 []; Node (L"network.url.username") (L"example.com") [] 7 18 [];
           Node (L"network.domain") (L"evil.org") [] 19 27 []; Node (L"network.url.path") (L"/") [] 27 28 []]].
Proof. vm_compute. repeat split; reflexivity. Qed.
(* trailing punctuation (quote, closing parenthesis, comma, semicolon) is covered by url_stop: the pattern gives it back *)
Example rt6_url_trailing_punctuation :
  url_stop (L", and") = true /\ url_stop (L"'),;;) x") = true /\ url_stop (L"'),;;)") = true /\
  find_urls TOP_LEVEL_DOMAINS (L"go " ++ url_form (L"http") (dotted [L"example"] ++ L"com") [] ++ L", and")
  = Ok [Node (L"network.url") (L"http://example.com") [] 3 21
          [Node (L"network.url.scheme") (L"http") [] 0 4 []; Node (L"network.domain") (L"example.com") [] 7 18 []]] /\
  find_urls TOP_LEVEL_DOMAINS (L"go " ++ url_form (L"http") (dotted [L"example"] ++ L"com") (L"/a") ++ L"'),;;) x")
  = Ok [Node (L"network.url") (L"http://example.com/a") [] 3 23
          [Node (L"network.url.scheme") (L"http") [] 0 4 []; Node (L"network.domain") (L"example.com") [] 7 18 [];
           Node (L"network.url.path") (L"/a") [] 18 20 []]] /\
  find_urls TOP_LEVEL_DOMAINS (L"go " ++ url_form (L"http") (dotted [L"example"] ++ L"com") [] ++ L"'),;;)")
  = Ok [Node (L"network.url") (L"http://example.com") [] 3 21
          [Node (L"network.url.scheme") (L"http") [] 0 4 []; Node (L"network.domain") (L"example.com") [] 7 18 []]].
Proof. vm_compute. repeat split; reflexivity. Qed.
(* FINDING: the full stop is NOT trailing punctuation for a URL without path: it belongs to the host class, so a URL
   that ends a sentence keeps the full stop and loses its network.domain child; after a path the full stop is given
   back (url_stop is sufficient, not necessary) *)
Example rt6_side_url_full_stop :
  url_stop (L". End") = false /\
  find_urls TOP_LEVEL_DOMAINS (L"go " ++ url_form (L"http") (dotted [L"example"] ++ L"com") [] ++ L". End")
  = Ok [Node (L"network.url") (L"http://example.com.") [] 3 22 [Node (L"network.url.scheme") (L"http") [] 0 4 []]] /\
  find_urls TOP_LEVEL_DOMAINS (L"go " ++ url_form (L"http") (dotted [L"example"] ++ L"com") (L"/a") ++ L". End")
  = Ok [Node (L"network.url") (L"http://example.com/a") [] 3 23
          [Node (L"network.url.scheme") (L"http") [] 0 4 []; Node (L"network.domain") (L"example.com") [] 7 18 [];
           Node (L"network.url.path") (L"/a") [] 18 20 []]].
Proof. vm_compute. repeat split; reflexivity. Qed.
(* the top level domain must be in the table: otherwise there is no network.domain child *)
Example rt6_side_url_tld :
  mem (upper (L"zzzz")) TOP_LEVEL_DOMAINS = false /\
  find_urls TOP_LEVEL_DOMAINS (url_form (L"http") (dotted [L"example"] ++ L"zzzz") (L"/"))
  = Ok [Node (L"network.url") (L"http://example.zzzz/") [] 0 20
          [Node (L"network.url.scheme") (L"http") [] 0 4 []; Node (L"network.url.path") (L"/") [] 19 20 []]].
Proof. vm_compute. split; reflexivity. Qed.
(* the host is at most URL_HOST_MAX bytes: a longer one is cut by the pattern; here the 254-byte host loses its last
   byte and a DIFFERENT registered domain (.co) is reported *)
Definition ex6_long_labels : list bytes := [repeat 97%N 62; repeat 97%N 62; repeat 97%N 62; repeat 97%N 61].
Example rt6_side_url_long_host :
  List.length (dotted ex6_long_labels ++ L"com") = 254%nat /\
  match find_urls TOP_LEVEL_DOMAINS (url_form (L"http") (dotted ex6_long_labels ++ L"com") (L"/x")) with
  | Ok [Node ty v o s e [_; Node ty2 v2 _ s2 e2 _]] =>
      ty = L"network.url" /\ s = 0 /\ e = 260 /\ ty2 = L"network.domain" /\ s2 = 7 /\ e2 = 260 /\
      v2 = dotted ex6_long_labels ++ L"co"
  | _ => False
  end.
Proof. vm_compute. repeat split; reflexivity. Qed.
(* neutrality of the prefix is sufficient, not necessary; a complete URL inside the prefix comes first (rt6_url_run2) *)
Example rt6_side_url_prefix_not_necessary :
  neutral RE_network_URL_RE (L"href=") = false /\
  find_urls TOP_LEVEL_DOMAINS (L"href=" ++ url_form (L"http") (dotted [L"example"] ++ L"com") (L"/"))
  = Ok [Node (L"network.url") (L"http://example.com/") [] 5 24
          [Node (L"network.url.scheme") (L"http") [] 0 4 []; Node (L"network.domain") (L"example.com") [] 7 18 [];
           Node (L"network.url.path") (L"/") [] 18 19 []]].
Proof. vm_compute. split; reflexivity. Qed.
(* numeric labels and a label that looks like a hexadecimal number: inet_aton refuses the host because of the letters at its end *)
Example rt6_url_numeric_labels :
  parse_ip_node (dotted [L"1"; L"2"; L"3"] ++ L"com") = Raise value_error /\
  parse_ip_node (dotted [L"0x1f"] ++ L"com") = Raise value_error /\
  find_urls TOP_LEVEL_DOMAINS (url_form (L"http") (dotted [L"1"; L"2"; L"3"] ++ L"com") (L"/"))
  = Ok [Node (L"network.url") (L"http://1.2.3.com/") [] 0 17
          [Node (L"network.url.scheme") (L"http") [] 0 4 []; Node (L"network.domain") (L"1.2.3.com") [] 7 16 [];
           Node (L"network.url.path") (L"/") [] 16 17 []]].
Proof. vm_compute. repeat split; reflexivity. Qed.

Print Assumptions runs_nlook_blocked.
Print Assumptions runs_userinfo_skip.
Print Assumptions runs_star_last.
Print Assumptions runs_path_inner.
Print Assumptions url_tail_runs.
Print Assumptions url_runs.
Print Assumptions urlsplit_simple.
Print Assumptions is_url_simple.
Print Assumptions normalize_path_simple.
Print Assumptions aton_domain_raises.
Print Assumptions parse_ip_node_domain.
Print Assumptions parse_url_simple.
Print Assumptions url_ctx_ok_printable.
Print Assumptions find_urls_roundtrip_simple_quiet.
Print Assumptions find_urls_roundtrip_simple.
Print Assumptions find_urls_roundtrip_simple_table.

(* ---- query and fragment ---- *)
Example rt6_query_hyps :
  url_qf_ok (L"/a/b") (Some (L"k=v&x=1")) (Some (L"top")) = true /\
  url_form (L"http") (dotted [L"www"; L"example"] ++ L"com") (url_rest (L"/a/b") (Some (L"k=v&x=1")) (Some (L"top")))
  = L"http://www.example.com/a/b?k=v&x=1#top" /\
  url_qf_ok [] (Some (L"k=v")) None = true /\ url_qf_ok [] None (Some (L"frag")) = true.
Proof. vm_compute. repeat split; reflexivity. Qed.
Example rt6_query_run :
  find_urls TOP_LEVEL_DOMAINS (L"see " ++ L"http://www.example.com/a/b?k=v&x=1#top" ++ [34%N] ++ L" x")
  = Ok [Node (L"network.url") (L"http://www.example.com/a/b?k=v&x=1#top") [] 4 42
          [Node (L"network.url.scheme") (L"http") [] 0 4 []; Node (L"network.domain") (L"www.example.com") [] 7 22 [];
           Node (L"network.url.path") (L"/a/b") [] 22 26 []; Node (L"network.url.query") (L"k=v&x=1") [] 27 34 [];
           Node (L"network.url.fragment") (L"top") [] 35 38 []]] /\
  find_urls TOP_LEVEL_DOMAINS (L"(" ++ url_form (L"https") (dotted [L"example"] ++ L"org") (url_rest [] (Some (L"k=v")) None) ++ L")")
  = Ok [Node (L"network.url") (L"https://example.org?k=v") [] 1 24
          [Node (L"network.url.scheme") (L"https") [] 0 5 []; Node (L"network.domain") (L"example.org") [] 8 19 [];
           Node (L"network.url.query") (L"k=v") [] 20 23 []]] /\
  find_urls TOP_LEVEL_DOMAINS (url_form (L"ftp") (dotted [L"example"] ++ L"org") (url_rest [] None (Some (L"frag"))) ++ L" ")
  = Ok [Node (L"network.url") (L"ftp://example.org#frag") [] 0 22
          [Node (L"network.url.scheme") (L"ftp") [] 0 3 []; Node (L"network.domain") (L"example.org") [] 6 17 [];
           Node (L"network.url.fragment") (L"frag") [] 18 22 []]].
Proof. vm_compute. repeat split; reflexivity. Qed.
Example rt6_query_thm :
  let data := L"see " ++ url_form (L"http") (dotted [L"www"; L"example"] ++ L"com")
                                  (url_rest (L"/a/b") (Some (L"k=v&x=1")) (Some (L"top"))) ++ [34%N] ++ L" x" in
  find_urls TOP_LEVEL_DOMAINS data = Hang \/
  exists rest, find_urls TOP_LEVEL_DOMAINS data
               = Ok (Node (L"network.url") (L"http://www.example.com/a/b?k=v&x=1#top") [] 4 42
                       [Node (L"network.url.scheme") (L"http") [] 0 4 []; Node (L"network.domain") (L"www.example.com") [] 7 22 [];
                        Node (L"network.url.path") (L"/a/b") [] 22 26 []; Node (L"network.url.query") (L"k=v&x=1") [] 27 34 [];
                        Node (L"network.url.fragment") (L"top") [] 35 38 []] :: rest) /\
               Forall (fun nd => 42 <= n_st nd) rest.
Proof.
  apply (find_urls_roundtrip_query TOP_LEVEL_DOMAINS (L"see ") (L"http") [L"www"; L"example"] (L"com") (L"/a/b")
           (Some (L"k=v&x=1")) (Some (L"top")) ([34%N] ++ L" x"));
    [ left; reflexivity | vm_compute; reflexivity | vm_compute; reflexivity | apply tld_in_table; vm_compute; reflexivity
    | split; apply Nat.leb_le; vm_compute; reflexivity | vm_compute; reflexivity | vm_compute; reflexivity
    | vm_compute; reflexivity | vm_compute; reflexivity | small_fuel6 ].
Qed.
(* SIDE CONDITION: the last byte of the whole text must not be a full stop, wherever it stands; an EMPTY query followed by a
   fragment is outside the class (the question mark is there, the query node is not, the fragment moves by one) *)
Example rt6_side_query :
  url_qf_ok (L"/p") None (Some (L"f.")) = false /\ url_qf_ok (L"/p") (Some (L"k=v.")) None = false /\
  url_qf_ok (L"/p") (Some []) (Some (L"f")) = false /\
  find_urls TOP_LEVEL_DOMAINS (L"x " ++ url_form (L"http") (dotted [L"example"] ++ L"org") (url_rest (L"/p") None (Some (L"f."))))
  = Ok [Node (L"network.url") (L"http://example.org/p#f") [] 2 24
          [Node (L"network.url.scheme") (L"http") [] 0 4 []; Node (L"network.domain") (L"example.org") [] 7 18 [];
           Node (L"network.url.path") (L"/p") [] 18 20 []; Node (L"network.url.fragment") (L"f") [] 21 22 []]] /\
  find_urls TOP_LEVEL_DOMAINS (L"x " ++ url_form (L"http") (dotted [L"example"] ++ L"org") (url_rest (L"/p") (Some []) (Some (L"f"))) ++ L" ")
  = Ok [Node (L"network.url") (L"http://example.org/p?#f") [] 2 25
          [Node (L"network.url.scheme") (L"http") [] 0 4 []; Node (L"network.domain") (L"example.org") [] 7 18 [];
           Node (L"network.url.path") (L"/p") [] 18 20 []; Node (L"network.url.fragment") (L"f") [] 22 23 []]].
Proof. vm_compute. repeat split; reflexivity. Qed.

Print Assumptions urlsplit_qf.
Print Assumptions is_url_qf.
Print Assumptions parse_url_qf.
Print Assumptions find_urls_roundtrip_gen.
Print Assumptions find_urls_roundtrip_query_quiet.
Print Assumptions find_urls_roundtrip_query.

(* ================================================================== *)
(* 6.  find_windows_path: drive paths                                    *)
(* ================================================================== *)
From MD Require Import Model.Dec.NtPath Model.Dec.PathDec Proofs.NtPathProofs Proofs.PathDecProofs.

(* ---- matcher facts ---- *)
Lemma m_alt_eq6 f a b p c k :
  m (S f) (Alt a b) p c k = match m f a p c k with NoMatch => m f b p c k | o => o end.
Proof. destruct (m f a p c k) eqn:E; cbn [m]; rewrite E; reflexivity. Qed.

Lemma m_cls_either F mk p c K b x : p_after p = b :: x -> (1 <= F)%nat ->
  m F (Cls mk) p c K
  = if N.testbit mk b then K {| p_i := p_i p + 1; p_before := b :: p_before p; p_after := x |} c else NoMatch.
Proof. intros Hp HF. destruct F as [|F]; [lia|]. cbn [m]. unfold adv. rewrite Hp. reflexivity. Qed.

(* the segment alternatives  dot | dot dot | class{3,}  followed by the separator, on a text of at least three
   class bytes: the first two alternatives fail at the separator (a class byte follows), the third decides *)
Lemma wseg_alts_reduce D D1 D2 W BS f p c k s0 s1 s2 y :
  p_after p = s0 :: s1 :: s2 :: y -> N.testbit BS s1 = false -> N.testbit BS s2 = false -> (6 <= f)%nat ->
  exists f', (f = f' + 3)%nat /\ (1 <= f')%nat /\
  m f (Seq (Alt (Cls D) (Alt (Seq (Cls D1) (Cls D2)) (Rep 3 None (Cls W)))) (Cls BS)) p c k
  = m f' (Rep 3 None (Cls W)) p c (fun p' c' => m (S (S f')) (Cls BS) p' c' k).
Proof.
  intros Hp H1 H2 Hf.
  destruct f as [|f]; [lia|]. destruct f as [|f]; [lia|]. destruct f as [|f]; [lia|]. destruct f as [|f]; [lia|].
  exists (S f). split; [lia|]. split; [lia|].
  rewrite RoundTrip3.m_seq_eq. set (K := fun p' c' => m (S (S (S f))) (Cls BS) p' c' k).
  assert (KF : forall q c' b z, p_after q = b :: z -> N.testbit BS b = false -> K q c' = NoMatch).
  { intros q c' b z Hq Hb. unfold K. rewrite (m_cls_either (S (S (S f))) BS q c' k b z Hq ltac:(lia)), Hb. reflexivity. }
  rewrite m_alt_eq6.
  assert (A1 : m (S (S f)) (Cls D) p c K = NoMatch).
  { rewrite (m_cls_either (S (S f)) D p c K s0 _ Hp ltac:(lia)). destruct (N.testbit D s0); [|reflexivity].
    apply (KF {| p_i := p_i p + 1; p_before := s0 :: p_before p; p_after := s1 :: s2 :: y |} c s1 (s2 :: y) eq_refl H1). }
  rewrite A1. rewrite m_alt_eq6.
  assert (A2 : m (S f) (Seq (Cls D1) (Cls D2)) p c K = NoMatch).
  { rewrite RoundTrip3.m_seq_eq. rewrite (m_cls_either f D1 p c _ s0 _ Hp ltac:(lia)). destruct (N.testbit D1 s0); [|reflexivity].
    rewrite (m_cls_either f D2 {| p_i := p_i p + 1; p_before := s0 :: p_before p; p_after := s1 :: s2 :: y |} c K s1 (s2 :: y) eq_refl ltac:(lia)). destruct (N.testbit D2 s1); [|reflexivity].
    cbn [p_i p_before]. match goal with |- K ?q c = _ => apply (KF q c s2 y eq_refl H2) end. }
  rewrite A2. reflexivity.
Qed.

Lemma seg3_split (seg : list N) : (3 <= List.length seg)%nat -> exists s0 s1 s2 r, seg = s0 :: s1 :: s2 :: r.
Proof.
  destruct seg as [|s0 [|s1 [|s2 r]]]; cbn [List.length]; intros H; try lia. exists s0, s1, s2, r. reflexivity.
Qed.

(* one path segment and its separator *)
Lemma wseg_chunk_runs D D1 D2 W BS seg x :
  Forall (fun b => N.testbit W b = true /\ N.testbit BS b = false) seg -> (3 <= List.length seg)%nat ->
  N.testbit BS 92 = true -> N.testbit W 92 = false ->
  runs (List.length seg + 10)
       (Seq (Alt (Cls D) (Alt (Seq (Cls D1) (Cls D2)) (Rep 3 None (Cls W)))) (Cls BS)) (seg ++ [92%N]) x cf_id.
Proof.
  intros HF Hlen HBS HW f p c k Hp Hf Hk. unfold cf_id in Hk |- *.
  destruct (seg3_split seg Hlen) as (s0 & s1 & s2 & r & Eseg).
  assert (HB : N.testbit BS s1 = false /\ N.testbit BS s2 = false).
  { rewrite Eseg in HF. inversion HF as [|? ? _ HF1]; subst. inversion HF1 as [|? ? [_ B1] HF2]; subst.
    inversion HF2 as [|? ? [_ B2] _]; subst. split; assumption. }
  destruct HB as [B1 B2].
  assert (Hp' : p_after p = s0 :: s1 :: s2 :: (r ++ [92%N] ++ x)).
  { rewrite Hp, Eseg, <- app_assoc. reflexivity. }
  destruct (wseg_alts_reduce D D1 D2 W BS f p c k s0 s1 s2 _ Hp' B1 B2 ltac:(lia)) as (f' & Ef & Ef1 & ->).
  set (K := fun p' c' => m (S (S f')) (Cls BS) p' c' k).
  assert (HFW : Forall (fun b => N.testbit W b = true) seg) by (eapply Forall_impl; [|exact HF]; intros a [Ha _]; exact Ha).
  rewrite <- app_assoc in Hp.
  destruct (seek_split seg ([92%N] ++ x) p (List.length seg) Hp ltac:(lia)) as [Q1 _].
  rewrite skipn_all in Q1. cbn [app] in Q1.
  assert (Es : seek (List.length (seg ++ [92%N])) p = seek 1 (seek (List.length seg) p)).
  { rewrite app_length. cbn [List.length]. apply (seek_add seg ([92%N] ++ x) p (List.length seg) 1 Hp). lia. }
  assert (E1 : seek 1 (seek (List.length seg) p)
               = {| p_i := p_i (seek (List.length seg) p) + 1; p_before := 92%N :: p_before (seek (List.length seg) p);
                    p_after := x |}).
  { cbn [seek]. unfold adv. rewrite Q1. reflexivity. }
  assert (EK : K (seek (List.length seg) p) c = k (seek (List.length (seg ++ [92%N])) p) c).
  { unfold K. rewrite (m_cls_either (S (S f')) BS _ c k 92%N x Q1 ltac:(lia)), HBS, Es, E1. reflexivity. }
  rewrite <- EK.
  apply (runs_rep_cls W 3 seg ([92%N] ++ x) HFW ltac:(cbn [app hd_out]; exact HW) Hlen f' p c K Hp ltac:(lia)).
  unfold cf_id. rewrite EK. exact Hk.
Qed.

(* after the last separator: the file name is no further segment, because no separator follows it *)
Lemma wseg_end_blocked D D1 D2 W BS fname x :
  Forall (fun b => N.testbit W b = true /\ N.testbit BS b = false) fname -> (3 <= List.length fname)%nat ->
  hd_out W x -> hd_out BS x ->
  blocked (List.length fname + 10)
          (Seq (Alt (Cls D) (Alt (Seq (Cls D1) (Cls D2)) (Rep 3 None (Cls W)))) (Cls BS)) (fname ++ x).
Proof.
  intros HF Hlen HWx HBx f p c k Hp Hf.
  destruct (seg3_split fname Hlen) as (s0 & s1 & s2 & r & Eseg).
  assert (HB : Forall (fun b => N.testbit BS b = false) fname) by (eapply Forall_impl; [|exact HF]; intros a [_ Ha]; exact Ha).
  assert (HB12 : N.testbit BS s1 = false /\ N.testbit BS s2 = false).
  { rewrite Eseg in HB. inversion HB as [|? ? _ HF1]; subst. inversion HF1 as [|? ? B1 HF2]; subst.
    inversion HF2 as [|? ? B2 _]; subst. split; assumption. }
  destruct HB12 as [B1 B2].
  assert (Hp' : p_after p = s0 :: s1 :: s2 :: (r ++ x)) by (rewrite Hp, Eseg; reflexivity).
  destruct (wseg_alts_reduce D D1 D2 W BS f p c k s0 s1 s2 _ Hp' B1 B2 ltac:(lia)) as (f' & Ef & Ef1 & ->).
  assert (HFW : Forall (fun b => N.testbit W b = true) fname) by (eapply Forall_impl; [|exact HF]; intros a [Ha _]; exact Ha).
  apply (m_rep_cls_fail W fname 3 f' p c _ x HFW HWx Hp); [lia|].
  intros j Hj. destruct (seek_split fname x p j Hp ltac:(lia)) as [Q2 _].
  apply (blocked_first (Cls BS) (skipn j fname ++ x)); [reflexivity | | exact Q2 | cbn [spine]; lia].
  cbn [first_cls]. apply hd_out_skipn; assumption.
Qed.

(* ---- the text classes ---- *)
(* the class of the pattern: word bytes, full stop, hyphen *)
Definition wseg_byte (c : N) : bool := is_word c || (c =? 46)%N || (c =? 45)%N.
(* directory names: at least three bytes of the class each (so none is a dot segment), at least one directory *)
Definition wsegs_ok (segs : list bytes) : bool :=
  match segs with
  | [] => false
  | _ :: _ => forallb (fun s => forallb wseg_byte s && (3 <=? List.length s)%nat) segs
  end.
Definition wsegs_text (segs : list bytes) : bytes := concat (map (fun s => s ++ [92%N]) segs).
(* the file name  base . ext : the base has a byte other than a full stop, the extension has no full stop and is not empty *)
Definition wfile (base ext : bytes) : bytes := base ++ [46%N] ++ ext.
Definition wfile_ok (base ext : bytes) : bool :=
  forallb wseg_byte base && existsb (fun c => negb (c =? 46)%N) base &&
  forallb wseg_byte ext && negb (existsb (N.eqb 46%N) ext) && negb (beqb ext []).
Definition wpath_form (d : N) (segs : list bytes) (fname : bytes) : bytes := [d; 58%N; 92%N] ++ wsegs_text segs ++ fname.
(* the byte after the path: neither a byte of the class nor a backslash *)
Definition wpath_stop_byte (b : N) : bool := negb (wseg_byte b || (b =? 92)%N).
Definition wpath_stop (suf : bytes) : bool := match suf with [] => true | b :: _ => wpath_stop_byte b end.

Lemma wseg_byte_lt c : wseg_byte c = true -> (c < 256)%N.
Proof.
  unfold wseg_byte. intros H.
  do 2 (apply orb_true_iff in H; destruct H as [H|H]; [|apply N.eqb_eq in H; subst c; reflexivity]).
  apply is_word_lt. exact H.
Qed.

Lemma wsegs_ok_parts segs : wsegs_ok segs = true ->
  segs <> [] /\ Forall (fun s => forallb wseg_byte s = true /\ (3 <= List.length s)%nat) segs.
Proof.
  intros H. destruct segs as [|s0 ss]; [discriminate H|]. split; [discriminate|].
  unfold wsegs_ok in H. rewrite forallb_forall in H. apply Forall_forall. intros s Hs. specialize (H s Hs).
  apply andb_true_iff in H. destruct H as [H1 H2]. apply Nat.leb_le in H2. split; assumption.
Qed.

Lemma wfile_ok_parts base ext : wfile_ok base ext = true ->
  forallb wseg_byte base = true /\ existsb (fun c => negb (c =? 46)%N) base = true /\
  forallb wseg_byte ext = true /\ ~ In 46%N ext /\ ext <> [].
Proof.
  unfold wfile_ok. intros H. apply andb_true_iff in H. destruct H as [H H5]. apply andb_true_iff in H. destruct H as [H H4].
  apply andb_true_iff in H. destruct H as [H H3]. apply andb_true_iff in H. destruct H as [H1 H2].
  repeat split; try assumption.
  - apply negb_true_iff in H4. intros Hin. apply (proj2 (has_byte_in 46%N ext)) in Hin. unfold has_byte in Hin. congruence.
  - apply negb_true_iff, beqb_neq in H5. exact H5.
Qed.

Lemma wfile_bytes base ext : wfile_ok base ext = true ->
  forallb wseg_byte (wfile base ext) = true /\ (3 <= List.length (wfile base ext))%nat.
Proof.
  intros H. destruct (wfile_ok_parts base ext H) as (H1 & H2 & H3 & _ & H5). unfold wfile. split.
  - rewrite !forallb_app, H1, H3. reflexivity.
  - rewrite !app_length. cbn [List.length]. destruct base as [|b0 base']; [discriminate H2|].
    destruct ext as [|e0 ext']; [congruence|]. cbn [List.length]. lia.
Qed.

(* ---- the pattern runs over a drive path ---- *)
Lemma wpath_runs d segs fname suf :
  is_alpha_ascii d = true -> wsegs_ok segs = true ->
  forallb wseg_byte fname = true -> (3 <= List.length fname)%nat -> wpath_stop suf = true ->
  runs (2 * List.length (wsegs_text segs) + List.length fname + 60) RE_path_WINDOWS_PATH_RE (wpath_form d segs fname) suf cf_id.
Proof.
  intros Hd Hsegs Hfn Hflen Hstop. destruct (wsegs_ok_parts segs Hsegs) as [Hne HF].
  assert (Hs : match suf with [] => True | b :: _ => wpath_stop_byte b = true end) by (destruct suf; [exact I | exact Hstop]).
  assert (Hcl : (List.length (map (fun s => s ++ [92%N]) segs) <= List.length (wsegs_text segs))%nat).
  { unfold wsegs_text. clear. induction segs as [|s ss IH]; [cbn; lia|]. cbn [map concat List.length].
    rewrite !app_length. cbn [List.length]. lia. }
  unfold RE_path_WINDOWS_PATH_RE, wpath_form.
  eapply runs_ext; [|eapply runs_mono;
    [ eapply (runs_seq _ _ _ _ [d; 58%N; 92%N] (wsegs_text segs ++ fname) suf);
      [ eapply runs_opt_once; [discriminate|];
        eapply runs_alt_r;
        [ eapply blocked_first; [vm_compute; reflexivity|]; cbn [app hd_out];
          eapply (testbit_out_table is_alpha_ascii); [exact is_alpha_lt | vm_compute; reflexivity | exact Hd] |];
        eapply runs_alt_r;
        [ eapply blocked_first; [vm_compute; reflexivity|]; cbn [app hd_out];
          eapply (testbit_out_table is_alpha_ascii); [exact is_alpha_lt | vm_compute; reflexivity | exact Hd] |];
        eapply runs_alt_l;
        eapply runs_seq_cls;
        [ eapply (testbit_in_table is_alpha_ascii); [exact is_alpha_lt | vm_compute; reflexivity | exact Hd] |];
        eapply runs_seq_cls; [vm_compute; reflexivity|];
        eapply runs_opt_take; vm_compute; reflexivity
      | eapply (runs_seq _ _ _ _ (wsegs_text segs) fname suf);
        [ unfold wsegs_text;
          eapply (runs_rep_chunks (List.length (wsegs_text segs) + 10) _ _ (fname ++ suf));
          [ eapply wseg_end_blocked;
            [ apply (Forall_in_not wseg_byte _ _ fname wseg_byte_lt); [vm_compute; reflexivity | exact Hfn]
            | exact Hflen
            | eapply (hd_out_of_pred _ wpath_stop_byte); [vm_compute; reflexivity | vm_compute; reflexivity | exact Hs]
            | eapply (hd_out_of_pred _ wpath_stop_byte); [vm_compute; reflexivity | vm_compute; reflexivity | exact Hs] ]
          | apply Forall_forall; intros w Hw; apply in_map_iff in Hw; destruct Hw as (s & <- & Hin);
            rewrite Forall_forall in HF; destruct (HF s Hin) as [Hsb Hsl];
            split; [destruct s; discriminate|]; intros x';
            eapply runs_mono;
            [ eapply wseg_chunk_runs;
              [ apply (Forall_in_not wseg_byte _ _ s wseg_byte_lt); [vm_compute; reflexivity | exact Hsb]
              | exact Hsl | vm_compute; reflexivity | vm_compute; reflexivity ]
            | assert (Hin2 : In (s ++ [92%N]) (map (fun s => s ++ [92%N]) segs)) by (exact (in_map (fun s => s ++ [92%N]) segs s Hin));
              apply in_concat_length in Hin2; fold (wsegs_text segs) in Hin2; rewrite app_length in Hin2; lia ]
          | rewrite map_length; destruct segs; [congruence | cbn [List.length]; lia] ]
        | eapply runs_rep_cls;
          [ apply (Forall_of_pred _ wseg_byte); [exact wseg_byte_lt | vm_compute; reflexivity | exact Hfn]
          | eapply (hd_out_of_pred _ wpath_stop_byte); [vm_compute; reflexivity | vm_compute; reflexivity | exact Hs]
          | exact Hflen ] ] ]
    | cbn [spine nullable]; unfold bytes in *; lia ]]; intros i c; reflexivity.
Qed.

(* ---- the Python after finditer ---- *)
Lemma wsegs_text_join : forall segs fname, wsegs_text segs ++ fname = Ip.join [SEP] (segs ++ [fname]).
Proof.
  induction segs as [|s ss IH]; intros fname; [reflexivity|].
  unfold wsegs_text in *. cbn [map concat app]. rewrite <- !app_assoc, IH. cbn [app].
  destruct (ss ++ [fname]) as [|y l] eqn:E; [destruct ss; discriminate E|]. reflexivity.
Qed.

Lemma wseg_no_sep s : forallb wseg_byte s = true -> ~ In SEP s /\ ~ In ALTSEP s.
Proof. intros H. split; apply (notin_class wseg_byte); try reflexivity; exact H. Qed.

Lemma long_plain s : (3 <= List.length s)%nat -> NtPathProofs.plain s.
Proof.
  intros H. unfold NtPathProofs.plain. repeat split; intros E; subst s; unfold CURDIR, PARDIR in H; cbn [List.length] in H; lia.
Qed.

Lemma norm_comps_plain l : Forall NtPathProofs.plain l -> norm_comps true l = l.
Proof.
  intros H. rewrite <- (rev_involutive l). apply norm_comps_fixed.
  apply Forall_rev' in H. induction H as [|c out Hc _ IH].
  - apply (ok_par true 0). reflexivity.
  - apply ok_plain; assumption.
Qed.

Lemma rfind_from_absent c : forall p i last, ~ In c p -> rfind_from c p i last = last.
Proof.
  induction p as [|x p IH]; intros i last H; [reflexivity|]. cbn [rfind_from].
  replace (x =? c)%N with false by (symmetry; apply N.eqb_neq; intros ->; apply H; left; reflexivity).
  apply IH. intros Hin. apply H. right. exact Hin.
Qed.

Lemma rfind_from_last c b : ~ In c b -> forall a i last, rfind_from c (a ++ c :: b) i last = i + blen a.
Proof.
  intros Hb. induction a as [|x a IH]; intros i last.
  - cbn [app rfind_from]. rewrite N.eqb_refl. rewrite (rfind_from_absent c b (i + 1) i Hb). change (blen []) with 0. lia.
  - cbn [app rfind_from]. rewrite IH, blen_cons1. lia.
Qed.

Lemma splitext_wfile base ext : wfile_ok base ext = true -> ntpath_splitext (wfile base ext) = (base, 46%N :: ext).
Proof.
  intros H. destruct (wfile_ok_parts base ext H) as (H1 & H2 & H3 & H4 & H5).
  destruct (wfile_bytes base ext H) as [Hb _]. destruct (wseg_no_sep _ Hb) as [Ns Na].
  unfold ntpath_splitext, generic_splitext.
  assert (Rs : rfind1 (wfile base ext) SEP = -1) by (apply rfind_from_absent; exact Ns).
  assert (Ra : rfind1 (wfile base ext) ALTSEP = -1) by (apply rfind_from_absent; exact Na).
  assert (Rd : rfind1 (wfile base ext) DOT = blen base).
  { unfold rfind1, wfile. change (base ++ [46%N] ++ ext) with (base ++ DOT :: ext).
    rewrite (rfind_from_last DOT ext H4 base 0 (-1)). lia. }
  rewrite Rs, Ra, Rd. pose proof (blen_nonneg base) as Hn.
  replace (Z.max (-1) (-1) <? blen base) with true by (symmetry; apply Z.ltb_lt; lia).
  replace (Z.max (-1) (-1) + 1) with 0 by lia.
  assert (E1 : slice (wfile base ext) 0 (blen base) = base) by (unfold wfile; apply slice_prefix).
  assert (H2' : existsb (fun c => negb (c =? DOT)%N) base = true) by exact H2.
  rewrite E1, H2'. unfold slice_to, slice_from.
  assert (Ec : clamp_idx (blen (wfile base ext)) (blen base) = blen base).
  { unfold clamp_idx, wfile. rewrite blen_app. pose proof (blen_nonneg ([46%N] ++ ext)). destruct (Z.ltb_spec (blen base) 0); lia. }
  rewrite Ec. unfold blen. rewrite Nat2Z.id. unfold wfile.
  rewrite firstn_app_exact, skipn_app_exact by reflexivity. reflexivity.
Qed.

(* ntpath.normpath is the identity on such a path *)
Lemma normpath_wpath d segs fname :
  is_alpha_ascii d = true -> wsegs_ok segs = true -> forallb wseg_byte fname = true -> (3 <= List.length fname)%nat ->
  ntpath_normpath (wpath_form d segs fname) = wpath_form d segs fname /\
  Ip.split_on SEP (wpath_form d segs fname) = [d; 58%N] :: segs ++ [fname].
Proof.
  intros Hd Hsegs Hfn Hflen. destruct (wsegs_ok_parts segs Hsegs) as [Hne HF].
  assert (Hcomps : Forall (fun x => ~ In SEP x) (segs ++ [fname]) /\ Forall NtPathProofs.plain (segs ++ [fname]) /\
                   Forall (fun x => ~ In ALTSEP x) (segs ++ [fname])).
  { repeat split; apply Forall_app; split;
      try (apply Forall_forall; intros s Hs; rewrite Forall_forall in HF; destruct (HF s Hs) as [Hb Hl]);
      try (constructor; [|constructor]);
      try (apply (proj1 (wseg_no_sep _ Hb))); try (apply (proj2 (wseg_no_sep _ Hb)));
      try (apply long_plain; assumption);
      try (apply (proj1 (wseg_no_sep _ Hfn))); try (apply (proj2 (wseg_no_sep _ Hfn))). }
  destruct Hcomps as (Hnosep & Hplain & Hnoalt).
  assert (Hl : segs ++ [fname] <> []) by (destruct segs; discriminate).
  assert (Hd1 : is_sep d = false).
  { apply negb_true_iff. exact (pred_table is_alpha_ascii (fun c => negb (is_sep c)) is_alpha_lt ltac:(vm_compute; reflexivity) d Hd). }
  assert (Hdne : d <> SEP /\ d <> ALTSEP).
  { unfold is_sep in Hd1. apply orb_false_iff in Hd1. destruct Hd1 as [A B]. apply N.eqb_neq in A, B. split; assumption. }
  unfold wpath_form. rewrite (wsegs_text_join segs fname). set (tail := Ip.join [SEP] (segs ++ [fname])).
  assert (Hsplit : Ip.split_on SEP tail = segs ++ [fname]) by (apply split_on_join; assumption).
  assert (Hnoalt_tail : ~ In ALTSEP tail).
  { unfold tail. clear -Hnoalt. induction (segs ++ [fname]) as [|x l IH]; [intros []|].
    inversion Hnoalt as [|? ? Hx Hl']; subst. destruct l as [|y l']; [exact Hx|].
    rewrite join_cons2. intros Hin. apply in_app_or in Hin. destruct Hin as [Hin|Hin]; [exact (Hx Hin)|].
    apply in_app_or in Hin. destruct Hin as [Hin|Hin]; [cbn in Hin; destruct Hin as [Hin|[]]; discriminate Hin|].
    exact (IH Hl' Hin). }
  split.
  - assert (Hform_noalt : ~ In ALTSEP ([d; 58%N; 92%N] ++ tail)).
    { intros Hin. apply in_app_or in Hin. destruct Hin as [Hin|Hin]; [|exact (Hnoalt_tail Hin)].
      cbn in Hin. destruct Hin as [Hin|[Hin|[Hin|[]]]]; [apply (proj2 Hdne); exact Hin | discriminate Hin | discriminate Hin]. }
    assert (Hroot : ntpath_splitroot (replace_altsep ([d; 58%N; 92%N] ++ tail)) = ([d; 58%N], [92%N], tail)).
    { rewrite (replace_altsep_id _ Hform_noalt). cbn [app ntpath_splitroot]. rewrite Hd1.
      change (58 =? COLON)%N with true. change (is_sep 92) with true. reflexivity. }
    rewrite (normpath_unfold _ _ _ _ Hroot). rewrite Hsplit. change (negb (beqb [92%N] [])) with true.
    rewrite (norm_comps_plain _ Hplain). unfold final_comps. cbn [app]. reflexivity.
  - change ([d; 58%N; 92%N] ++ tail) with ([d; 58%N] ++ SEP :: tail).
    rewrite split_on_app, Hsplit; [reflexivity|].
    intros Hin. cbn in Hin. destruct Hin as [Hin|[Hin|[]]]; [apply (proj1 Hdne); exact Hin | discriminate Hin].
Qed.

Definition wpath_kids (form base ext : bytes) : list node :=
  [Node (ext_map (lower (46%N :: ext))) (wfile base ext) [] (blen form - blen (wfile base ext)) (blen form) []].

Lemma windows_path_node_drive is_domain data mt d segs base ext s e :
  is_alpha_ascii d = true -> wsegs_ok segs = true -> wfile_ok base ext = true ->
  nth 0 mt None = Some (s, e) -> slice data s e = wpath_form d segs (wfile base ext) ->
  windows_path_node is_domain data mt
  = Ok (Node WINDOWS_PATH_TYPE (wpath_form d segs (wfile base ext)) [] s e
          (wpath_kids (wpath_form d segs (wfile base ext)) base ext)).
Proof.
  intros Hd Hsegs Hfile Hn Hsl. destruct (wfile_bytes base ext Hfile) as [Hfb Hfl].
  destruct (normpath_wpath d segs (wfile base ext) Hd Hsegs Hfb Hfl) as [Hnorm Hsplit].
  unfold windows_path_node. unfold group, m_start, m_end, span. rewrite Hn. cbn [fst snd option_map]. rewrite Hsl, Hnorm.
  set (form := wpath_form d segs (wfile base ext)) in *. rewrite Z.ltb_irrefl.
  assert (Hd1 : (SEP =? d)%N = false).
  { apply negb_true_iff. exact (pred_table is_alpha_ascii (fun c => negb (SEP =? c)%N) is_alpha_lt ltac:(vm_compute; reflexivity) d Hd). }
  assert (S1 : startswith form PFX_DEV_DOT = false) by (unfold startswith, form, wpath_form, PFX_DEV_DOT, PFX_DEV_QM, PFX_UNC; cbn [app prefixb]; rewrite Hd1; reflexivity).
  assert (S2 : startswith form PFX_DEV_QM = false) by (unfold startswith, form, wpath_form, PFX_DEV_DOT, PFX_DEV_QM, PFX_UNC; cbn [app prefixb]; rewrite Hd1; reflexivity).
  assert (S3 : startswith form PFX_UNC = false) by (unfold startswith, form, wpath_form, PFX_DEV_DOT, PFX_DEV_QM, PFX_UNC; cbn [app prefixb]; rewrite Hd1; reflexivity).
  rewrite S1, S2, S3. cbn [orb bind]. rewrite Hsplit.
  match goal with |- context [seg_last ?l] => assert (Hlast : seg_last l = Ok (wfile base ext)) end.
  { unfold seg_last. cbn [rev]. rewrite rev_app_distr. reflexivity. }
  rewrite Hlast. cbn [bind]. rewrite (splitext_wfile base ext Hfile). cbn [app]. reflexivity.
Qed.

(* ---- the round trip ---- *)
Lemma windows_path_post_starts is_domain data lo : forall ms out,
  Forall (fun mt => lo <= m_start mt 0) ms -> find_windows_path_post is_domain data ms = Ok out ->
  Forall (fun nd => lo <= n_st nd) out.
Proof.
  unfold find_windows_path_post. apply (mapM_starts (windows_path_node is_domain data) n_st lo).
  intros mt y Hy Hm. unfold windows_path_node in Hy.
  destruct (if startswith _ PFX_DEV_DOT || startswith _ PFX_DEV_QM then _ else _) as [[ty ch]| |]; cbn [bind] in Hy; try discriminate Hy.
  destruct (seg_last _) as [fn| |]; cbn [bind] in Hy; try discriminate Hy.
  destruct (ntpath_splitext fn) as [b0 e0]. injection Hy as <-. cbn [n_st]. exact Hm.
Qed.

Theorem find_windows_path_roundtrip_drive_quiet is_domain pre d segs base ext suf :
  is_alpha_ascii d = true -> wsegs_ok segs = true -> wfile_ok base ext = true -> wpath_stop suf = true ->
  let form := wpath_form d segs (wfile base ext) in
  (2 * List.length form + 100 <= default_fuel)%nat ->
  let data := pre ++ form ++ suf in
  quiet default_fuel RE_path_WINDOWS_PATH_RE (List.length pre) (start_pos data) ->
  find_windows_path is_domain data = Hang \/
  exists rest, find_windows_path is_domain data
               = Ok (Node WINDOWS_PATH_TYPE form [] (blen pre) (blen pre + blen form) (wpath_kids form base ext) :: rest) /\
               Forall (fun nd => blen pre + blen form <= n_st nd) rest.
Proof.
  intros Hd Hsegs Hfile Hstop form Hfuel data Hq.
  destruct (wfile_bytes base ext Hfile) as [Hfb Hfl].
  pose proof (wpath_runs d segs (wfile base ext) suf Hd Hsegs Hfb Hfl Hstop) as R. fold form in R.
  assert (Hfne : form <> []) by discriminate.
  assert (Hflen : (List.length (wsegs_text segs) + List.length (wfile base ext) <= List.length form)%nat).
  { unfold form, wpath_form. rewrite !app_length. lia. }
  destruct (fi_form RE_path_WINDOWS_PATH_RE NG_path_WINDOWS_PATH_RE pre form suf _ _ Hq R ltac:(lia) Hfne)
    as [H | (rest & Hfi & Hrest)].
  { left. unfold find_windows_path. fold data in H. rewrite H. reflexivity. }
  fold data in Hfi.
  set (s := blen pre) in *. set (e := s + blen form) in *.
  change (mk_mtch NG_path_WINDOWS_PATH_RE s e (cf_id s [])) with ([Some (s, e)] : mtch) in Hfi.
  set (mt := ([Some (s, e)] : mtch)) in *.
  assert (Eone : windows_path_node is_domain data mt = Ok (Node WINDOWS_PATH_TYPE form [] s e (wpath_kids form base ext))).
  { apply (windows_path_node_drive is_domain data mt d segs base ext s e Hd Hsegs Hfile eq_refl).
    unfold e, s, data. apply slice_mid. }
  unfold find_windows_path. rewrite Hfi. cbn [bind]. unfold find_windows_path_post. cbn [mapM]. rewrite Eone. cbn [bind].
  destruct (mapM (windows_path_node is_domain data) rest) as [out|ex|] eqn:ER; cbn [bind].
  - right. exists out. split; [reflexivity|]. apply (windows_path_post_starts is_domain data e rest out Hrest ER).
  - exfalso. destruct (find_windows_path_total is_domain data) as [HT | (nodes & HT & _)];
      unfold find_windows_path in HT; rewrite Hfi in HT; cbn [bind] in HT; unfold find_windows_path_post in HT; cbn [mapM] in HT;
      rewrite Eone in HT; cbn [bind] in HT; rewrite ER in HT; discriminate HT.
  - left. reflexivity.
Qed.

(* decidable form: no byte of the prefix can start a match (no byte of the class, no backslash) *)
Theorem find_windows_path_roundtrip_drive is_domain pre d segs base ext suf :
  is_alpha_ascii d = true -> wsegs_ok segs = true -> wfile_ok base ext = true -> wpath_stop suf = true ->
  let form := wpath_form d segs (wfile base ext) in
  neutral RE_path_WINDOWS_PATH_RE pre = true ->
  (2 * List.length form + 100 <= default_fuel)%nat ->
  let data := pre ++ form ++ suf in
  find_windows_path is_domain data = Hang \/
  exists rest, find_windows_path is_domain data
               = Ok (Node WINDOWS_PATH_TYPE form [] (blen pre) (blen pre + blen form) (wpath_kids form base ext) :: rest) /\
               Forall (fun nd => blen pre + blen form <= n_st nd) rest.
Proof.
  intros Hd Hsegs Hfile Hstop form Hn Hfuel data.
  apply find_windows_path_roundtrip_drive_quiet; try assumption.
  apply quiet_no_first; [vm_compute; reflexivity | spine_goal | exact Hn].
Qed.

(* ---- Examples for find_windows_path (expected values printed by multidecoder.decoders.path.find_windows_path;
   the is_domain argument is irrelevant for drive paths) ---- *)
Definition no_domain : bytes -> bool := fun _ => false.

Example rt6_wpath_pattern :
  startable RE_path_WINDOWS_PATH_RE = true /\ NG_path_WINDOWS_PATH_RE = 0%nat /\
  forallb (fun c => Bool.eqb (N.testbit (first_cls RE_path_WINDOWS_PATH_RE) c) (wseg_byte c || (c =? 92)%N)) bytes256 = true.
Proof. vm_compute. repeat split; reflexivity. Qed.

Example rt6_wpath_hyps :
  is_alpha_ascii 67 = true /\ wsegs_ok [L"Users"; L"bob"] = true /\ wfile_ok (L"notes") (L"txt") = true /\
  wpath_stop ([34%N] ++ L" ") = true /\ neutral RE_path_WINDOWS_PATH_RE [62; 32]%N = true /\
  wpath_form 67 [L"Users"; L"bob"] (wfile (L"notes") (L"txt")) = L"C:\Users\bob\notes.txt".
Proof. vm_compute. repeat split; reflexivity. Qed.
Example rt6_wpath_run :
  find_windows_path no_domain ([62; 32]%N ++ L"C:\Users\bob\notes.txt" ++ [34%N] ++ L" ")
  = Ok [Node (L"windows.path") (L"C:\Users\bob\notes.txt") [] 2 24 [Node (L"filename") (L"notes.txt") [] 13 22 []]].
Proof. vm_compute. reflexivity. Qed.
Example rt6_wpath_thm :
  let data := [62; 32]%N ++ wpath_form 67 [L"Users"; L"bob"] (wfile (L"notes") (L"txt")) ++ [34%N] ++ L" " in
  find_windows_path no_domain data = Hang \/
  exists rest, find_windows_path no_domain data
               = Ok (Node (L"windows.path") (L"C:\Users\bob\notes.txt") [] 2 24 [Node (L"filename") (L"notes.txt") [] 13 22 []] :: rest) /\
               Forall (fun nd => 24 <= n_st nd) rest.
Proof.
  apply (find_windows_path_roundtrip_drive no_domain [62; 32]%N 67 [L"Users"; L"bob"] (L"notes") (L"txt") ([34%N] ++ L" "));
    [ vm_compute; reflexivity | vm_compute; reflexivity | vm_compute; reflexivity | vm_compute; reflexivity
    | vm_compute; reflexivity | small_fuel6 ].
Qed.
(* the executable types by extension (any letter case), a lower-case drive letter, hyphens and full stops in the
   directory names, a base name with a full stop; segments that begin with full stops *)
Example rt6_wpath_run2 :
  find_windows_path no_domain (L"(" ++ wpath_form 100 [L"Program-Files"; L"app.v2"] (wfile (L"run") (L"EXE")) ++ L")")
  = Ok [Node (L"windows.path") (L"d:\Program-Files\app.v2\run.EXE") [] 1 32 [Node (L"executable.filename") (L"run.EXE") [] 24 31 []]] /\
  find_windows_path no_domain (L" " ++ wpath_form 67 [L"Windows"; L"System32"] (wfile (L"kernel32") (L"dll")) ++ L",")
  = Ok [Node (L"windows.path") (L"C:\Windows\System32\kernel32.dll") [] 1 33
          [Node (L"executable.library.filename") (L"kernel32.dll") [] 20 32 []]] /\
  find_windows_path no_domain (L"= " ++ wpath_form 120 [L"lib"] (wfile (L"archive.tar") (L"gz")) ++ L" ")
  = Ok [Node (L"windows.path") (L"x:\lib\archive.tar.gz") [] 2 23 [Node (L"filename") (L"archive.tar.gz") [] 7 21 []]] /\
  find_windows_path no_domain (L" " ++ wpath_form 67 [L"dir"; L".git"; L"..x"] (wfile (L"a") (L"b")))
  = Ok [Node (L"windows.path") (L"C:\dir\.git\..x\a.b") [] 1 20 [Node (L"filename") (L"a.b") [] 16 19 []]].
Proof. vm_compute. repeat split; reflexivity. Qed.
Example rt6_wpath_hyps2 :
  wsegs_ok [L"Program-Files"; L"app.v2"] = true /\ wfile_ok (L"run") (L"EXE") = true /\ wfile_ok (L"archive.tar") (L"gz") = true /\
  wsegs_ok [L"dir"; L".git"; L"..x"] = true /\ wfile_ok (L"a") (L"b") = true /\
  neutral RE_path_WINDOWS_PATH_RE (L"(") = true /\ neutral RE_path_WINDOWS_PATH_RE (L"= ") = true /\
  wpath_stop (L")") = true /\ wpath_stop (L",") = true /\ wpath_stop [] = true.
Proof. vm_compute. repeat split; reflexivity. Qed.

(* SIDE CONDITIONS (all agree with Python) *)
(* every directory name needs three bytes: a path through a shorter one is not reported at all *)
Example rt6_side_wpath_short_dir :
  wsegs_ok [L"ab"] = false /\
  find_windows_path no_domain (L" " ++ wpath_form 67 [L"ab"] (wfile (L"notes") (L"txt")) ++ L" ") = Ok [].
Proof. vm_compute. split; reflexivity. Qed.
(* ... and so does the file name *)
Example rt6_side_wpath_short_file :
  find_windows_path no_domain (L" C:\dir\a.") = Ok [].
Proof. vm_compute. reflexivity. Qed.
(* a dot segment: normpath removes it, the value is shorter than the text and carries the label *)
Example rt6_side_wpath_dotdot :
  find_windows_path no_domain (L" C:\dir\..\notes.txt ")
  = Ok [Node (L"windows.path") (L"C:\notes.txt") (L"windows.dotpath") 1 20 [Node (L"filename") (L"notes.txt") [] 3 12 []]].
Proof. vm_compute. reflexivity. Qed.
(* the suffix: a backslash followed by three class bytes makes the file name a directory; a class byte extends the name;
   wpath_stop is sufficient, not necessary (a backslash followed by two bytes only is given back) *)
Example rt6_side_wpath_suffix :
  wpath_stop (L"\more") = false /\ wpath_stop (L"x") = false /\
  find_windows_path no_domain (L" " ++ wpath_form 67 [L"dir"] (wfile (L"notes") (L"txt")) ++ L"\more")
  = Ok [Node (L"windows.path") (L"C:\dir\notes.txt\more") [] 1 22 []] /\
  find_windows_path no_domain (L" " ++ wpath_form 67 [L"dir"] (wfile (L"notes") (L"txt")) ++ L"x")
  = Ok [Node (L"windows.path") (L"C:\dir\notes.txtx") [] 1 18 [Node (L"filename") (L"notes.txtx") [] 7 17 []]] /\
  find_windows_path no_domain (L" " ++ wpath_form 67 [L"dir"] (wfile (L"notes") (L"txt")) ++ L"\mo")
  = Ok [Node (L"windows.path") (L"C:\dir\notes.txt") [] 1 17 [Node (L"filename") (L"notes.txt") [] 7 16 []]].
Proof. vm_compute. repeat split; reflexivity. Qed.
(* the drive must be a letter: after a digit the path is reported as a rooted path without drive *)
Example rt6_side_wpath_drive :
  find_windows_path no_domain (L" 1:\dir\notes.txt")
  = Ok [Node (L"windows.path") (L"\dir\notes.txt") [] 3 17 [Node (L"filename") (L"notes.txt") [] 5 14 []]].
Proof. vm_compute. reflexivity. Qed.
(* no extension: no child *)
Example rt6_side_wpath_no_ext :
  find_windows_path no_domain (L" C:\dir\notes") = Ok [Node (L"windows.path") (L"C:\dir\notes") [] 1 13 []].
Proof. vm_compute. reflexivity. Qed.
(* neutrality of the prefix is sufficient, not necessary: class bytes before the drive letter are harmless here *)
Example rt6_side_wpath_prefix_not_necessary :
  neutral RE_path_WINDOWS_PATH_RE (L"ab ") = false /\
  find_windows_path no_domain (L"ab " ++ wpath_form 67 [L"dir"] (wfile (L"notes") (L"txt")))
  = Ok [Node (L"windows.path") (L"C:\dir\notes.txt") [] 3 19 [Node (L"filename") (L"notes.txt") [] 7 16 []]] /\
  find_windows_path no_domain (L"x" ++ wpath_form 67 [L"dir"] (wfile (L"notes") (L"txt")))
  = Ok [Node (L"windows.path") (L"C:\dir\notes.txt") [] 1 17 [Node (L"filename") (L"notes.txt") [] 7 16 []]].
Proof. vm_compute. repeat split; reflexivity. Qed.

Print Assumptions wseg_alts_reduce.
Print Assumptions wseg_chunk_runs.
Print Assumptions wseg_end_blocked.
Print Assumptions wpath_runs.
Print Assumptions splitext_wfile.
Print Assumptions normpath_wpath.
Print Assumptions windows_path_node_drive.
Print Assumptions find_windows_path_roundtrip_drive_quiet.
Print Assumptions find_windows_path_roundtrip_drive.
