(* C06: the step machine of multidecoder.py (relative coordinates, running offset, in-place shift)
   computes exactly the interval-nesting reference (absolute coordinates), for every registry whose
   kept hits are non-empty and in bounds, every node, every depth. *)
From Coq Require Import Sorting.Sorted Sorting.Permutation.
From MD Require Import Lib.Base Model.Node Model.Engine Model.Reference Proofs.BaseProofs Proofs.SortProofs.

Local Arguments shift : simpl never.

Definition map_res {A B} (f : A -> B) (r : res A) : res B :=
  match r with Ok a => Ok (f a) | Raise e => Raise e | Hang => Hang end.

Definition res_match {A B} (P : A -> B -> Prop) (x : res A) (y : res B) : Prop :=
  match x, y with
  | Ok a, Ok b => P a b
  | Raise e, Raise e' => e = e'
  | Hang, Hang => True
  | _, _ => False
  end.

Definition hit_ok (text : bytes) (h : node) : Prop := 0 <= n_st h /\ n_st h < n_en h /\ n_en h <= blen text.

(* the C06 precondition: every hit that survives the `if hit.value` filter is in bounds and non-empty *)
Definition wf_search (search : bytes -> list node) : Prop :=
  forall v h, In h (search v) -> nonempty_val h = true -> hit_ok v h.

(* ---------- erase / close ---------- *)
Lemma set_kids_set_kids n k1 k2 : set_kids (set_kids n k1) k2 = set_kids n k2.
Proof. destruct n; reflexivity. Qed.

Lemma erase_inject : forall n k a b, erase (inject k a b n) = n.
Proof.
  induction n as [t v o s e ks IH] using node_ind'; intros k a b.
  cbn [inject erase set_kids]. f_equal.
  rewrite map_map. induction IH as [|x xs Hx _ IHxs]; [reflexivity|].
  cbn [map]. rewrite Hx, IHxs. reflexivity.
Qed.

Definition frel (f : frame) (g : rframe) : Prop :=
  f_node f = r_node g /\ f_rkids f = map erase (r_rkids g).

Lemma close_erase f g : frel f g -> close f = erase (rclose g).
Proof.
  intros [Hn Hk]. unfold close, rclose. cbn [erase]. rewrite Hn, Hk, map_rev. reflexivity.
Qed.

Lemma frel_add f g k x : frel f g -> k = erase x -> frel (add_kid f k) (radd g x).
Proof. intros [Hn Hk] ->. split; cbn; [exact Hn | rewrite Hk; reflexivity]. Qed.

Lemma unwind_erase : forall stk rstk c rc, frel c rc -> Forall2 frel stk rstk ->
  unwind c stk = erase (runwind rc rstk).
Proof.
  induction stk as [|p stk IH]; intros rstk c rc Hc Hs; inversion Hs; subst; cbn [unwind runwind].
  - apply close_erase. exact Hc.
  - apply IH; [|assumption]. apply frel_add; [assumption|]. apply close_erase. exact Hc.
Qed.

(* ---------- the simulation invariant ---------- *)
Definition frame_ok (text : bytes) (g : rframe) : Prop :=
  0 <= f_lo g /\ f_lo g <= f_hi g /\ f_hi g <= blen text /\
  f_hi g = f_lo g + blen (n_val (r_node g)) /\
  lower (n_val (r_node g)) = lower (slice text (f_lo g) (f_hi g)).

Fixpoint chain_ok (text : bytes) (c : rframe) (stk : list rframe) : Prop :=
  frame_ok text c /\
  match stk with
  | [] => r_kind c <> KCtx /\ n_val (r_node c) = text
  | p :: stk' => r_kind c = KCtx /\ 0 <= n_st (r_node c) /\ f_lo c - n_st (r_node c) = f_lo p /\ chain_ok text p stk'
  end.

Lemma f_lo_radd g x : f_lo (radd g x) = f_lo g.
Proof. reflexivity. Qed.
Lemma f_hi_radd g x : f_hi (radd g x) = f_hi g.
Proof. reflexivity. Qed.

Lemma frame_ok_radd text g x : frame_ok text g -> frame_ok text (radd g x).
Proof. unfold frame_ok. rewrite f_lo_radd, f_hi_radd. cbn [radd r_node]. tauto. Qed.

Lemma chain_ok_radd text g x stk : chain_ok text g stk -> chain_ok text (radd g x) stk.
Proof.
  destruct stk as [|p stk]; cbn [chain_ok]; intros [Hf H]; (split; [apply frame_ok_radd; exact Hf|]).
  - exact H.
  - rewrite f_lo_radd. exact H.
Qed.

Record srel (text : bytes) (s : state) (r : rstate) : Prop := {
  sr_cur : frel (cur s) (rcur r);
  sr_stk : Forall2 frel (stack s) (rstack r);
  sr_dec : decode_end s = rdec r;
  sr_off : offset s = f_lo (rcur r);
  sr_chain : chain_ok text (rcur r) (rstack r) }.

Lemma pop_sim text a b : 0 <= a -> a < b -> b <= blen text ->
  forall stk rstk c rc, frel c rc -> Forall2 frel stk rstk -> chain_ok text rc rstk -> f_lo rc <= a ->
  exists c' stk' rc' rstk',
    pop_until b c stk (f_lo rc) = Ok (c', stk', f_lo rc') /\ rpop a b rc rstk = Ok (rc', rstk') /\
    frel c' rc' /\ Forall2 frel stk' rstk' /\ chain_ok text rc' rstk' /\ f_lo rc' <= a /\ b <= f_hi rc'.
Proof.
  intros Ha Hab Hb. induction stk as [|p stk IH]; intros rstk c rc Hc Hs Hch Hlo; inversion Hs; subst.
  - cbn [pop_until rpop]. pose proof Hch as Hch'. cbn [chain_ok] in Hch. destruct Hch as [Hf [Hk Hv]].
    destruct Hf as (F1 & F2 & F3 & F4 & F5).
    destruct Hc as [Hn Hkids]. rewrite Hn.
    assert (Hhi : f_hi rc = blen text) by (unfold f_hi; destruct (r_kind rc); try congruence; rewrite Hv; reflexivity).
    unfold contains.
    destruct (b >? f_lo rc + blen (n_val (r_node rc))) eqn:E; [apply Z.gtb_lt in E; lia|].
    replace (f_lo rc <=? a) with true by (symmetry; apply Z.leb_le; lia).
    replace (b <=? f_hi rc) with true by (symmetry; apply Z.leb_le; lia).
    cbn [andb]. exists c, [], rc, []. repeat split; try assumption; try constructor; try lia.
  - match goal with H : frel p ?y |- _ => rename y into rp; rename H into Hp end.
    match goal with H : Forall2 frel stk ?l |- _ => rename l into rstk'; rename H into Hs' end.
    cbn [pop_until rpop]. pose proof Hch as Hch'. cbn [chain_ok] in Hch.
    destruct Hch as [Hf [Hk [Hst [Hpar Hch2]]]].
    destruct Hf as (F1 & F2 & F3 & F4 & F5).
    pose proof Hc as [Hn Hkids]. rewrite Hn.
    unfold contains.
    replace (f_lo rc <=? a) with true by (symmetry; apply Z.leb_le; lia).
    cbn [andb].
    destruct (b >? f_lo rc + blen (n_val (r_node rc))) eqn:E.
    + apply Z.gtb_lt in E.
      replace (b <=? f_hi rc) with false by (symmetry; apply Z.leb_gt; lia).
      replace (f_lo rc - n_st (r_node rc)) with (f_lo (radd rp (rclose rc))) by (rewrite f_lo_radd; lia).
      apply IH.
      * apply frel_add; [exact Hp | apply close_erase; exact Hc].
      * exact Hs'.
      * apply chain_ok_radd. exact Hch2.
      * rewrite f_lo_radd. lia.
    + replace (b <=? f_hi rc) with true by (symmetry; apply Z.leb_le; lia).
      exists c, (p :: stk), rc, (rp :: rstk'). repeat split; try assumption; try lia.
Qed.

Lemma n_val_shift h off : n_val (shift h off) = n_val h.
Proof. destruct h; reflexivity. Qed.
Lemma n_ty_shift h off : n_ty (shift h off) = n_ty h.
Proof. destruct h; reflexivity. Qed.
Lemma n_st_shift h off : n_st (shift h off) = n_st h + off.
Proof. destruct h; reflexivity. Qed.
Lemma n_en_shift h off : n_en (shift h off) = n_en h + off.
Proof. destruct h; reflexivity. Qed.
Lemma n_kids_shift h off : n_kids (shift h off) = n_kids h.
Proof. destruct h; reflexivity. Qed.

Lemma beqb_lower_len a b : beqb (lower a) (lower b) = true -> blen a = blen b.
Proof. intros H. apply beqb_eq in H. apply lower_eq_blen. exact H. Qed.

Lemma step_sim text rec_e rec_r s r hit :
  srel text s r -> hit_ok text hit -> f_lo (rcur r) <= n_st hit ->
  (forall a b h, rec_e h = map_res erase (rec_r a b h)) ->
  res_match (fun s' r' => srel text s' r' /\ f_lo (rcur r') <= n_st hit)
            (step rec_e s hit) (rstep text rec_r r hit).
Proof.
  intros [Hcur Hstk Hdec Hoff Hch] (Ha & Hab & Hb) Hlo Hrec.
  unfold step, rstep. rewrite Hdec.
  destruct (n_en hit <=? rdec r) eqn:Edec.
  { cbn [res_match]. split; [constructor; assumption | exact Hlo]. }
  rewrite Hoff.
  destruct (pop_sim text (n_st hit) (n_en hit) Ha Hab Hb (stack s) (rstack r) (cur s) (rcur r) Hcur Hstk Hch Hlo)
    as (c' & stk' & rc' & rstk' & Hpe & Hpr & Hc' & Hs' & Hch' & Hlo' & Hhi').
  rewrite Hpe, Hpr. cbn [bind].
  pose proof Hc' as [Hn' Hk'].
  assert (Hfr : frame_ok text rc') by (destruct rstk'; cbn [chain_ok] in Hch'; tauto).
  destruct Hfr as (F1 & F2 & F3 & F4 & F5).
  (* restating test *)
  unfold restates. rewrite n_st_shift, n_val_shift, n_ty_shift, Hn'.
  replace (n_st hit + - f_lo rc' =? 0) with (n_st hit =? f_lo rc')
    by (destruct (n_st hit =? f_lo rc') eqn:E1; [apply Z.eqb_eq in E1; symmetry; apply Z.eqb_eq; lia
                                               | apply Z.eqb_neq in E1; symmetry; apply Z.eqb_neq; lia]).
  destruct ((n_st hit =? f_lo rc') && beqb (n_val hit) (n_val (r_node rc')) && beqb (n_ty hit) (n_ty (r_node rc'))) eqn:Erest.
  { cbn [res_match]. split; [constructor; cbn; try assumption; reflexivity | exact Hlo']. }
  (* decoding test: the context's value and the searched text agree up to case on the hit's interval *)
  assert (Horig : lower (original (n_val (r_node rc')) (shift hit (- f_lo rc'))) = lower (slice text (n_st hit) (n_en hit))).
  { unfold original. rewrite n_st_shift, n_en_shift, lower_slice, F5, <- lower_slice.
    replace (n_st hit + - f_lo rc') with (n_st hit - f_lo rc') by lia.
    replace (n_en hit + - f_lo rc') with (n_en hit - f_lo rc') by lia.
    rewrite slice_slice by lia. reflexivity. }
  unfold is_decoding. rewrite n_val_shift, n_kids_shift, Horig.
  change (match n_kids hit with [] => false | _ :: _ => true end) with (has_kids hit).
  destruct (negb (beqb (lower (n_val hit)) (lower (slice text (n_st hit) (n_en hit)))) || has_kids hit) eqn:Edecod.
  - (* decoded: recursive scan *)
    rewrite (Hrec (n_st hit) (n_en hit)).
    destruct (rec_r (n_st hit) (n_en hit) (shift hit (- f_lo rc'))) as [h2| |]; cbn [map_res bind res_match]; auto.
    split; [|exact Hlo'].
    constructor; cbn.
    + apply frel_add; [exact Hc' | reflexivity].
    + exact Hs'.
    + rewrite n_en_shift. lia.
    + reflexivity.
    + apply chain_ok_radd. exact Hch'.
  - (* undecoded context: push *)
    apply orb_false_iff in Edecod. destruct Edecod as [Eval Ekids].
    apply negb_false_iff in Eval.
    assert (Hlen : blen (n_val hit) = n_en hit - n_st hit).
    { rewrite (beqb_lower_len _ _ Eval). apply blen_slice; lia. }
    set (nf := {| r_kind := KCtx; r_a := n_st hit; r_b := n_en hit; r_node := shift hit (- f_lo rc'); r_rkids := [] |}).
    assert (Hnlo : f_lo nf = n_st hit) by reflexivity.
    assert (Hnhi : f_hi nf = n_en hit) by reflexivity.
    assert (Hnn : r_node nf = shift hit (- f_lo rc')) by reflexivity.
    assert (Hnk : r_kind nf = KCtx) by reflexivity.
    cbn [res_match]. split; [|cbn [rcur]; rewrite Hnlo; lia].
    constructor; cbn [cur stack decode_end offset rcur rstack rdec].
    + split; reflexivity.
    + constructor; assumption.
    + reflexivity.
    + rewrite Hnlo. lia.
    + cbn [chain_ok]. unfold frame_ok. rewrite Hnlo, Hnhi, Hnn, Hnk, n_val_shift, n_st_shift.
      repeat split; try lia; try assumption.
      apply beqb_eq. exact Eval.
Qed.

Definition le_st (x y : node) : Prop := n_st x <= n_st y.

Lemma fold_sim text rec_e rec_r :
  (forall a b h, rec_e h = map_res erase (rec_r a b h)) ->
  forall l s r, srel text s r -> Forall (hit_ok text) l -> StronglySorted le_st l ->
    Forall (fun h => f_lo (rcur r) <= n_st h) l ->
    res_match (srel text) (foldM (step rec_e) l s) (foldM (rstep text rec_r) l r).
Proof.
  intros Hrec. induction l as [|h l IH]; intros s r Hsr Hok Hsort Hlo.
  - cbn. exact Hsr.
  - cbn [foldM].
    inversion Hok as [|? ? Hokh Hokl]; subst.
    inversion Hsort as [|? ? Hsortl Hall]; subst.
    inversion Hlo as [|? ? Hloh Hlol]; subst.
    pose proof (step_sim text rec_e rec_r s r h Hsr Hokh Hloh Hrec) as Hstep.
    destruct (step rec_e s h) as [s'| |], (rstep text rec_r r h) as [r'| |]; cbn [res_match bind] in *; try contradiction; auto.
    destruct Hstep as [Hsr' Hlo'].
    apply IH; try assumption.
    eapply Forall_impl; [|exact Hall]. intros y Hy. unfold le_st in Hy. lia.
Qed.

Lemma mapM_sim {A B C} (f : A -> res B) (g : A -> res C) (e : C -> B) :
  forall l, (forall x, In x l -> f x = map_res e (g x)) -> mapM f l = map_res (map e) (mapM g l).
Proof.
  induction l as [|x l IH]; intros H; [reflexivity|].
  cbn [mapM]. rewrite (H x (or_introl eq_refl)).
  destruct (g x) as [y| |]; cbn [map_res bind]; try reflexivity.
  rewrite IH by (intros z Hz; apply H; right; exact Hz).
  destruct (mapM g l); reflexivity.
Qed.

Section Refine.
  Variable search : bytes -> list node.
  Hypothesis Hwf : wf_search search.

  Lemma results_ok n : Forall (hit_ok (n_val n)) (results search n).
  Proof.
    unfold results. apply Forall_forall. intros h Hin.
    apply (Permutation_in _ (sort_hits_perm _)) in Hin.
    apply filter_In in Hin. destruct Hin as [Hin Hne]. apply Hwf; assumption.
  Qed.

  Lemma results_sorted n : StronglySorted le_st (results search n).
  Proof. unfold results. apply sorted_st. apply sort_hits_sorted. Qed.

  Theorem engine_refines_reference : forall d k a b n,
    k <> KCtx ->
    scan_node search d n = map_res erase (ref_scan_node search d k a b n).
  Proof.
    induction d as [|d IH]; intros k a b n Hk.
    - cbn. rewrite erase_inject. reflexivity.
    - cbn [scan_node ref_scan_node]. destruct (n_kids n) as [|c0 cs] eqn:Ekids.
      + (* searched *)
        assert (Hl0 : f_lo (rcur (rinit k a b n)) = 0) by (unfold f_lo; cbn; destruct k; congruence).
        assert (Hh0 : f_hi (rcur (rinit k a b n)) = blen (n_val n)) by (unfold f_hi; cbn; destruct k; congruence).
        assert (Hinit : srel (n_val n) (init_state n) (rinit k a b n)).
        { constructor.
          - split; reflexivity.
          - constructor.
          - reflexivity.
          - rewrite Hl0. reflexivity.
          - cbn [chain_ok rinit rstack]. unfold frame_ok. rewrite Hl0, Hh0.
            pose proof (blen_nonneg (n_val n)).
            repeat split; try lia; try assumption.
            cbn. rewrite slice_full. reflexivity. }
        pose proof (fold_sim (n_val n) (scan_node search d) (ref_scan_node search d KDec)
                             (fun a' b' h => IH KDec a' b' h ltac:(congruence))
                             (results search n) _ _ Hinit (results_ok n) (results_sorted n)) as Hfold.
        assert (Hlo0 : Forall (fun h => f_lo (rcur (rinit k a b n)) <= n_st h) (results search n)).
        { eapply Forall_impl; [|apply results_ok]. intros h (H0 & _). rewrite Hl0. exact H0. }
        specialize (Hfold Hlo0).
        destruct (foldM (step (scan_node search d)) (results search n) (init_state n)) as [s'| |],
                 (foldM (rstep (n_val n) (ref_scan_node search d KDec)) (results search n) (rinit k a b n)) as [r'| |];
          cbn [res_match bind map_res] in *; try contradiction; try congruence; auto.
        f_equal. destruct Hfold as [Hc Hs _ _ _]. apply unwind_erase; assumption.
      + (* decoder-supplied sub-structure: only descend *)
        rewrite (mapM_sim (scan_node search d) (fun c => ref_scan_node search d KPre (n_st c) (n_en c) c) erase).
        2:{ intros x _. apply IH. congruence. }
        destruct (mapM (fun c => ref_scan_node search d KPre (n_st c) (n_en c) c) (c0 :: cs)); reflexivity.
  Qed.

  Theorem scan_refines_reference depth data :
    scan search depth data = map_res erase (ref_scan search depth data).
  Proof.
    unfold scan, ref_scan. destruct (depth <=? 0).
    - cbn [map_res]. rewrite erase_inject. reflexivity.
    - apply engine_refines_reference. congruence.
  Qed.
End Refine.
