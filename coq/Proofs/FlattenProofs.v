(* C19: Node.flatten = substitution of the selected children into the parent value;
   query.squash_replace agrees with it when the overlap skip cannot fire. *)
From MD Require Import Lib.Base Model.Node Model.Flatten.

(* ------------------------------------------------------------------ *)
(* Independent specification.                                          *)

(* (start, end, replacement) *)
Definition triple : Type := (Z * Z * bytes)%type.
Definition t_st (x : triple) : Z := fst (fst x).
Definition t_en (x : triple) : Z := snd (fst x).
Definition t_rep (x : triple) : bytes := snd x.

(* Left-to-right choice of the children that get substituted.  [fl c] is the flattened value of child
   [c]; [last_end] is the end of the last substituted child (0 at the beginning).
   - a child that starts below [last_end] is ignored (first of overlapping values wins);
   - a child whose flattened value equals the text it covers is ignored;
   - otherwise the child is substituted (between double quotes for ...string types). *)
Fixpoint selected (fl : node -> bytes) (v : bytes) (l : list node) (last_end : Z) : list triple :=
  match l with
  | [] => []
  | c :: l' =>
      if n_st c <? last_end then selected fl v l' last_end
      else if beqb (fl c) (original v c) then selected fl v l' last_end
      else (n_st c, n_en c, quote_if_string (n_ty c) (fl c)) :: selected fl v l' (n_en c)
  end.

(* v[pos:] with each (start, end, replacement) substituted, in list order: the text between the end of
   one substitution and the start of the next is copied (Python slice, so empty when they cross). *)
Fixpoint splice_from (v : bytes) (pos : Z) (tr : list triple) : bytes :=
  match tr with
  | [] => slice_from v pos
  | x :: tr' => slice v pos (t_st x) ++ t_rep x ++ splice_from v (t_en x) tr'
  end.

Definition splice (v : bytes) (tr : list triple) : bytes := splice_from v 0 tr.

(* every triple starts at or after the end of the previous one (and the first at or after [off]) *)
Fixpoint chained (off : Z) (tr : list triple) : Prop :=
  match tr with
  | [] => True
  | x :: tr' => off <= t_st x /\ chained (t_en x) tr'
  end.

(* ------------------------------------------------------------------ *)
(* Unfolding lemmas                                                     *)

Lemma flatten_unfold t v o s e ks : flatten (Node t v o s e ks) = flatten_loop flatten v ks 0.
Proof. reflexivity. Qed.

Lemma flatten_loop_nil fl v off : flatten_loop fl v [] off = slice_from v off.
Proof. reflexivity. Qed.

Lemma flatten_loop_cons fl v c l off :
  flatten_loop fl v (c :: l) off =
  if n_st c <? off then flatten_loop fl v l off
  else if beqb (fl c) (slice v (n_st c) (n_en c)) then flatten_loop fl v l off
  else slice v off (n_st c) ++ quote_if_string (n_ty c) (fl c) ++ flatten_loop fl v l (n_en c).
Proof. reflexivity. Qed.

Lemma squash_node_unfold t v o s e ks : squash_node (Node t v o s e ks) = squash_loop squash_node v ks 0.
Proof. reflexivity. Qed.

Lemma squash_loop_nil sq v off : squash_loop sq v [] off = slice_from v off.
Proof. reflexivity. Qed.

Lemma squash_loop_cons sq v c l off :
  squash_loop sq v (c :: l) off =
  if beqb (sq c) (slice v (n_st c) (n_en c)) then squash_loop sq v l off
  else slice v off (n_st c) ++ quote_if_string (n_ty c) (sq c) ++ squash_loop sq v l (n_en c).
Proof. reflexivity. Qed.

(* ------------------------------------------------------------------ *)
(* Slices with in-range bounds                                         *)

Lemma blen_nonneg {A} (b : list A) : 0 <= blen b.
Proof. unfold blen. lia. Qed.

Lemma clamp_idx_in n i : 0 <= i <= n -> clamp_idx n i = i.
Proof.
  intros Hi. unfold clamp_idx. destruct (i <? 0) eqn:E.
  - apply Z.ltb_lt in E. lia.
  - lia.
Qed.

Lemma slice_from_0 {A} (v : list A) : slice_from v 0 = v.
Proof.
  unfold slice_from. rewrite clamp_idx_in by (pose proof (blen_nonneg v); lia). reflexivity.
Qed.

Lemma slice_from_in {A} (v : list A) e : 0 <= e <= blen v -> slice_from v e = skipn (Z.to_nat e) v.
Proof. intros He. unfold slice_from. rewrite clamp_idx_in by lia. reflexivity. Qed.

Lemma slice_0_in {A} (v : list A) s : 0 <= s <= blen v -> slice v 0 s = firstn (Z.to_nat s) v.
Proof.
  intros Hs. unfold slice. rewrite !clamp_idx_in by lia.
  replace (s - 0) with s by lia. reflexivity.
Qed.

Lemma slice_in {A} (v : list A) lo hi : 0 <= lo <= hi -> hi <= blen v ->
  slice v lo hi = firstn (Z.to_nat (hi - lo)) (skipn (Z.to_nat lo) v).
Proof. intros H1 H2. unfold slice. rewrite !clamp_idx_in by lia. reflexivity. Qed.

Lemma blen_app {A} (a b : list A) : blen (a ++ b) = blen a + blen b.
Proof. unfold blen. rewrite app_length. lia. Qed.

Lemma blen_slice_in {A} (v : list A) lo hi : 0 <= lo <= hi -> hi <= blen v -> blen (slice v lo hi) = hi - lo.
Proof.
  intros H1 H2. rewrite slice_in by lia. unfold blen in *.
  rewrite firstn_length, skipn_length. lia.
Qed.

Lemma blen_slice_from_in {A} (v : list A) lo : 0 <= lo <= blen v -> blen (slice_from v lo) = blen v - lo.
Proof.
  intros H. rewrite slice_from_in by lia. unfold blen in *. rewrite skipn_length. lia.
Qed.

(* ------------------------------------------------------------------ *)
(* flatten = splice of the selected children                           *)

Lemma flatten_loop_spec fl v l : forall off,
  flatten_loop fl v l off = splice_from v off (selected fl v l off).
Proof.
  induction l as [|c l IH]; intros off.
  - reflexivity.
  - rewrite flatten_loop_cons. cbn [selected]. unfold original.
    destruct (n_st c <? off); [apply IH|].
    destruct (beqb (fl c) (slice v (n_st c) (n_en c))); [apply IH|].
    cbn [splice_from t_st t_en t_rep fst snd]. rewrite IH. reflexivity.
Qed.

Theorem flatten_spec n :
  flatten n = splice (n_val n) (selected flatten (n_val n) (n_kids n) 0).
Proof.
  destruct n as [t v o s e ks]. rewrite flatten_unfold. cbn [n_val n_kids].
  unfold splice. apply flatten_loop_spec.
Qed.

(* The substituted spans never run backwards: each starts at or after the end of the previous one
   (whatever the children look like - this is what the `node.start < offset` test buys). *)
Lemma selected_chained fl v l : forall off, chained off (selected fl v l off).
Proof.
  induction l as [|c l IH]; intros off; cbn [selected].
  - exact I.
  - destruct (n_st c <? off) eqn:E; [apply IH|].
    destruct (beqb (fl c) (original v c)); [apply IH|].
    cbn [chained t_st t_en fst snd]. split; [apply Z.ltb_ge in E; exact E | apply IH].
Qed.

(* Every substitution comes from a child, in order, and is that child's flattened value - quoted
   when the type ends in 'string' - and differs from the text it replaces. *)
Theorem selected_from_child fl v l : forall off x, In x (selected fl v l off) ->
  exists c, In c l /\ t_st x = n_st c /\ t_en x = n_en c /\
            fl c <> original v c /\ t_rep x = quote_if_string (n_ty c) (fl c).
Proof.
  induction l as [|c l IH]; intros off x Hx; cbn [selected] in Hx.
  - destruct Hx.
  - destruct (n_st c <? off).
    { destruct (IH _ _ Hx) as [c' [Hin Hc']]. exists c'. split; [right; exact Hin | exact Hc']. }
    destruct (beqb (fl c) (original v c)) eqn:E.
    { destruct (IH _ _ Hx) as [c' [Hin Hc']]. exists c'. split; [right; exact Hin | exact Hc']. }
    destruct Hx as [Hx | Hx].
    + exists c. subst x. cbn [t_st t_en t_rep fst snd].
      split; [left; reflexivity|]. repeat split. apply beqb_neq. exact E.
    + destruct (IH _ _ Hx) as [c' [Hin Hc']]. exists c'. split; [right; exact Hin | exact Hc'].
Qed.

Lemma quote_if_string_true ty d : endswith ty (L"string") = true ->
  quote_if_string ty d = [34%N] ++ d ++ [34%N].
Proof. intros H. unfold quote_if_string, str_string, dquote. rewrite H. reflexivity. Qed.

Lemma quote_if_string_false ty d : endswith ty (L"string") = false -> quote_if_string ty d = d.
Proof. intros H. unfold quote_if_string, str_string. rewrite H. reflexivity. Qed.

(* A substituted child whose type ends in 'string' contributes  dquote ++ flatten child ++ dquote *)
Theorem flatten_quotes n x :
  In x (selected flatten (n_val n) (n_kids n) 0) ->
  exists c, In c (n_kids n) /\ t_st x = n_st c /\ t_en x = n_en c /\
    (endswith (n_ty c) (L"string") = true -> t_rep x = [34%N] ++ flatten c ++ [34%N]) /\
    (endswith (n_ty c) (L"string") = false -> t_rep x = flatten c).
Proof.
  intros Hx. destruct (selected_from_child _ _ _ _ _ Hx) as [c [Hin [Hs [He [_ Hr]]]]].
  exists c. repeat split; try assumption.
  - intros Hq. rewrite Hr. apply quote_if_string_true. exact Hq.
  - intros Hq. rewrite Hr. apply quote_if_string_false. exact Hq.
Qed.

(* the one-child instance, without the specification vocabulary *)
Corollary flatten_quotes_single t v o s e c :
  0 <= n_st c -> flatten c <> slice v (n_st c) (n_en c) -> endswith (n_ty c) (L"string") = true ->
  flatten (Node t v o s e [c]) =
  slice v 0 (n_st c) ++ ([34%N] ++ flatten c ++ [34%N]) ++ slice_from v (n_en c).
Proof.
  intros Hs Hne Hq. rewrite flatten_unfold, flatten_loop_cons, flatten_loop_nil.
  destruct (n_st c <? 0) eqn:E; [apply Z.ltb_lt in E; lia|].
  apply beqb_neq in Hne. rewrite Hne. rewrite quote_if_string_true by exact Hq. reflexivity.
Qed.

(* ------------------------------------------------------------------ *)
(* Identity                                                            *)

Theorem flatten_leaf t v o s e : flatten (Node t v o s e []) = v.
Proof. rewrite flatten_unfold, flatten_loop_nil. apply slice_from_0. Qed.

Lemma flatten_loop_identity fl v l : forall off,
  Forall (fun c => fl c = original v c) l -> flatten_loop fl v l off = slice_from v off.
Proof.
  induction l as [|c l IH]; intros off Hall.
  - reflexivity.
  - inversion Hall as [|c' l' Hc Hl]; subst. rewrite flatten_loop_cons.
    destruct (n_st c <? off); [apply IH; exact Hl|].
    unfold original in Hc. rewrite Hc, beqb_refl. apply IH; exact Hl.
Qed.

(* If every child flattens to the text it covers in its parent, nothing is substituted. *)
Theorem flatten_identity n :
  Forall (fun c => flatten c = original (n_val n) c) (n_kids n) -> flatten n = n_val n.
Proof.
  destruct n as [t v o s e ks]. cbn [n_val n_kids]. intros Hall.
  rewrite flatten_unfold, flatten_loop_identity by exact Hall. apply slice_from_0.
Qed.

(* Deep version: every node of the tree carries exactly the text it covers in its parent. *)
Inductive all_original : node -> Prop :=
| all_original_node t v o s e ks :
    Forall (fun c => n_val c = original v c /\ all_original c) ks ->
    all_original (Node t v o s e ks).

Theorem flatten_identity_original n : all_original n -> flatten n = n_val n.
Proof.
  induction n as [t v o s e ks IH] using node_ind'. intros Hao.
  inversion Hao as [t' v' o' s' e' ks' Hks]; subst.
  apply flatten_identity. cbn [n_val n_kids].
  rewrite Forall_forall in *. intros c Hc.
  destruct (Hks c Hc) as [Hv Hc']. rewrite (IH c Hc Hc'). exact Hv.
Qed.

(* ------------------------------------------------------------------ *)
(* What lies outside the substituted spans is preserved                *)

Lemma last_default_irrelevant {A} (l : list A) : forall y d d', last (y :: l) d = last (y :: l) d'.
Proof.
  induction l as [|z l IH]; intros y d d'; [reflexivity|].
  change (last (y :: z :: l) d) with (last (z :: l) d).
  change (last (y :: z :: l) d') with (last (z :: l) d'). apply IH.
Qed.

Lemma last_in {A} (l : list A) : forall y d, In (last (y :: l) d) (y :: l).
Proof.
  induction l as [|z l IH]; intros y d; [left; reflexivity|].
  change (last (y :: z :: l) d) with (last (z :: l) d). right. apply IH.
Qed.

Lemma splice_from_ends v : forall tr pos x0,
  exists mid, splice_from v pos (x0 :: tr) =
              slice v pos (t_st x0) ++ mid ++ slice_from v (t_en (last tr x0)).
Proof.
  induction tr as [|y tr IH]; intros pos x0; cbn [splice_from].
  - exists (t_rep x0). reflexivity.
  - destruct (IH (t_en x0) y) as [mid Hmid].
    exists (t_rep x0 ++ slice v (t_en x0) (t_st y) ++ mid).
    cbn [splice_from] in Hmid. rewrite Hmid.
    rewrite (last_default_irrelevant tr y x0 y).
    destruct tr as [|z tr].
    + cbn [last]. rewrite <- !app_assoc. reflexivity.
    + change (last (y :: z :: tr) y) with (last (z :: tr) y).
      rewrite <- !app_assoc. reflexivity.
Qed.

(* in-bounds children: 0 <= start <= end <= len(parent value) *)
Definition in_bounds (v : bytes) (c : node) : Prop := 0 <= n_st c <= n_en c /\ n_en c <= blen v.

Lemma selected_in_bounds fl v l : forall off x, Forall (in_bounds v) l ->
  In x (selected fl v l off) -> 0 <= t_st x <= t_en x /\ t_en x <= blen v.
Proof.
  intros off x Hall Hx. destruct (selected_from_child _ _ _ _ _ Hx) as [c [Hin [Hs [He _]]]].
  rewrite Forall_forall in Hall. specialize (Hall c Hin). unfold in_bounds in Hall. lia.
Qed.

(* For in-bounds children (in particular start-ordered, non-overlapping ones), the part of the value
   before the first substituted span and the part after the last one survive as a prefix and a suffix
   of the output.  (When nothing is selected, flatten_spec gives flatten n = n_val n.) *)
Theorem flatten_outside_preserved n x0 rest :
  Forall (in_bounds (n_val n)) (n_kids n) ->
  selected flatten (n_val n) (n_kids n) 0 = x0 :: rest ->
  exists mid,
    flatten n = firstn (Z.to_nat (t_st x0)) (n_val n) ++ mid ++
                skipn (Z.to_nat (t_en (last rest x0))) (n_val n).
Proof.
  intros Hall Hsel. rewrite flatten_spec. unfold splice. rewrite Hsel.
  destruct (splice_from_ends (n_val n) rest 0 x0) as [mid Hmid].
  exists mid. rewrite Hmid.
  assert (H0 : In x0 (selected flatten (n_val n) (n_kids n) 0)) by (rewrite Hsel; left; reflexivity).
  assert (Hl : In (last rest x0) (selected flatten (n_val n) (n_kids n) 0)).
  { rewrite Hsel. destruct rest as [|y rest]; [left; reflexivity|]. right. apply last_in. }
  pose proof (selected_in_bounds _ _ _ _ _ Hall H0) as B0.
  pose proof (selected_in_bounds _ _ _ _ _ Hall Hl) as Bl.
  rewrite slice_0_in by lia. rewrite slice_from_in by lia. reflexivity.
Qed.

(* Length accounting for in-bounds children: every substitution trades (end - start) bytes for its
   replacement. *)
Fixpoint delta (tr : list triple) : Z :=
  match tr with
  | [] => 0
  | x :: tr' => blen (t_rep x) - (t_en x - t_st x) + delta tr'
  end.

Lemma splice_from_length v : forall tr pos, 0 <= pos <= blen v -> chained pos tr ->
  Forall (fun x => 0 <= t_st x <= t_en x /\ t_en x <= blen v) tr ->
  blen (splice_from v pos tr) = blen v - pos + delta tr.
Proof.
  induction tr as [|x tr IH]; intros pos Hpos Hch Hall; cbn [splice_from delta].
  - rewrite blen_slice_from_in by lia. lia.
  - inversion Hall as [|x' tr' Hx Htr]; subst. destruct Hch as [Hle Hch].
    rewrite !blen_app. rewrite blen_slice_in by lia. rewrite IH; [lia | lia | exact Hch | exact Htr].
Qed.

Theorem flatten_length n :
  Forall (in_bounds (n_val n)) (n_kids n) ->
  blen (flatten n) = blen (n_val n) + delta (selected flatten (n_val n) (n_kids n) 0).
Proof.
  intros Hall. rewrite flatten_spec. unfold splice.
  rewrite splice_from_length.
  - lia.
  - pose proof (blen_nonneg (n_val n)). lia.
  - apply selected_chained.
  - apply Forall_forall. intros x Hx. exact (selected_in_bounds _ _ _ _ _ Hall Hx).
Qed.

(* ------------------------------------------------------------------ *)
(* squash_replace = flatten when the overlap skip never fires          *)

Lemma squash_loop_flatten sq fl v l : forall off,
  Forall (fun c => sq c = fl c) l ->
  Forall (fun c => off <= n_st c) l ->
  ForallOrdPairs (fun a b => n_en a <= n_st b) l ->
  squash_loop sq v l off = flatten_loop fl v l off.
Proof.
  induction l as [|c l IH]; intros off Heq Hoff Hord.
  - reflexivity.
  - inversion Heq as [|c1 l1 Hc Hl]; subst.
    inversion Hoff as [|c2 l2 Hco Hlo]; subst.
    inversion Hord as [|c3 l3 Hcr Hlr]; subst.
    rewrite squash_loop_cons, flatten_loop_cons.
    destruct (n_st c <? off) eqn:E; [apply Z.ltb_lt in E; lia|].
    rewrite Hc. destruct (beqb (fl c) (slice v (n_st c) (n_en c))).
    + apply IH; assumption.
    + rewrite (IH (n_en c)); [reflexivity | assumption | assumption | assumption].
Qed.

(* children start at >= 0, are start-ordered and pairwise non-overlapping, in every descendant *)
Inductive tidy : node -> Prop :=
| tidy_node t v o s e ks :
    Forall (fun c => 0 <= n_st c) ks ->
    ForallOrdPairs (fun a b => n_en a <= n_st b) ks ->
    Forall tidy ks ->
    tidy (Node t v o s e ks).

Lemma squash_node_is_flatten n : tidy n -> squash_node n = flatten n.
Proof.
  induction n as [t v o s e ks IH] using node_ind'. intros Ht.
  inversion Ht as [t' v' o' s' e' ks' Hnn Hord Hks]; subst.
  rewrite squash_node_unfold, flatten_unfold.
  apply squash_loop_flatten; [| exact Hnn | exact Hord].
  rewrite Forall_forall in *. intros c Hc. apply (IH c Hc). apply (Hks c Hc).
Qed.

Theorem squash_replace_is_flatten n :
  tidy n -> squash_replace (n_val n) (n_kids n) = flatten n.
Proof.
  intros Ht. rewrite <- (squash_node_is_flatten n Ht).
  destruct n as [t v o s e ks]. reflexivity.
Qed.

(* ------------------------------------------------------------------ *)
(* Test vectors (values printed by /venv/bin/python for the same trees) *)

Definition mk (ty : string) (v : bytes) (s e : Z) (ks : list node) : node := Node (L ty) v [] s e ks.

Example ex_leaf : flatten (mk "x" (L"hello") 3 9 []) = L"hello".
Proof. vm_compute. reflexivity. Qed.

Example ex_one :
  flatten (mk "" (L"say aGk= now") 0 12 [mk "" (L"hi") 4 8 []]) = L"say hi now".
Proof. vm_compute. reflexivity. Qed.

Example ex_string_quoted :
  flatten (mk "" (L"say aGk= now") 0 12 [mk "powershell.string" (L"hi") 4 8 []])
  = L"say " ++ [34%N] ++ L"hi" ++ [34%N] ++ L" now".
Proof. vm_compute. reflexivity. Qed.

(* an unchanged 'string' child is not quoted *)
Example ex_same :
  flatten (mk "" (L"say aGk= now") 0 12 [mk "string" (L"aGk=") 4 8 []]) = L"say aGk= now".
Proof. vm_compute. reflexivity. Qed.

Definition t_overlap : node :=
  mk "" (L"0123456789") 0 10 [mk "a" (L"AB") 2 6 []; mk "b" (L"CD") 4 8 []; mk "c" (L"EF") 6 9 []].

Example ex_overlap_flatten : flatten t_overlap = L"01ABEF9".
Proof. vm_compute. reflexivity. Qed.

(* squash_replace has no overlap skip: it differs from flatten here *)
Example ex_overlap_squash : squash_replace (n_val t_overlap) (n_kids t_overlap) = L"01ABCDEF9".
Proof. vm_compute. reflexivity. Qed.

(* a negative start is always below the initial offset 0: flatten skips the child, squash_replace not *)
Example ex_negative_start :
  let t := mk "" (L"0123456789") 0 10 [mk "a" (L"AB") (-3) (-1) []] in
  flatten t = L"0123456789" /\ squash_replace (n_val t) (n_kids t) = L"0123456AB9".
Proof. vm_compute. split; reflexivity. Qed.

(* a negative end makes the offset negative, which disarms the overlap test: [3:5] overlaps [2:-4] = [2:6]
   but is substituted as well and the byte 5 is emitted although it was covered *)
Example ex_negative_end :
  flatten (mk "" (L"0123456789") 0 10 [mk "a" (L"AB") 2 (-4) []; mk "b" (L"CD") 3 5 []])
  = L"01ABCD56789".
Proof. vm_compute. reflexivity. Qed.

(* crossed span (end < start): bytes 3, 4 and 6 are emitted twice *)
Example ex_crossed :
  flatten (mk "" (L"0123456789") 0 10 [mk "a" (L"AB") 7 3 []; mk "b" (L"CD") 5 6 []])
  = L"0123456AB34CD6789".
Proof. vm_compute. reflexivity. Qed.

Example ex_out_of_range :
  flatten (mk "" (L"0123456789") 0 10 [mk "a" (L"AB") 8 20 []; mk "b" (L"CD") 25 30 []])
  = L"01234567ABCD".
Proof. vm_compute. reflexivity. Qed.

Example ex_nested :
  flatten (mk "root" (L"xx QUJD yy") 0 10 [mk "enc" (L"ABC") 3 7 [mk "string" (L"b") 1 2 []]])
  = L"xx A" ++ [34%N] ++ L"b" ++ [34%N] ++ L"C yy".
Proof. vm_compute. reflexivity. Qed.

(* an empty child over an empty span is unchanged; over a non-empty span it becomes two quotes *)
Example ex_empty_child :
  flatten (mk "" (L"abc") 0 3 [mk "string" [] 1 1 []]) = L"abc" /\
  flatten (mk "" (L"abc") 0 3 [mk "string" [] 1 2 []]) = L"a" ++ [34%N; 34%N] ++ L"c".
Proof. vm_compute. split; reflexivity. Qed.

Example ex_selected :
  selected flatten (n_val t_overlap) (n_kids t_overlap) 0 = [(2, 6, L"AB"); (6, 9, L"EF")].
Proof. vm_compute. reflexivity. Qed.

(* ------------------------------------------------------------------ *)
Print Assumptions flatten_spec.
Print Assumptions selected_chained.
Print Assumptions selected_from_child.
Print Assumptions flatten_quotes.
Print Assumptions flatten_quotes_single.
Print Assumptions flatten_leaf.
Print Assumptions flatten_identity.
Print Assumptions flatten_identity_original.
Print Assumptions flatten_outside_preserved.
Print Assumptions flatten_length.
Print Assumptions squash_replace_is_flatten.
