(* sorted(results, key=(start, -end)) as modelled by [sort_hits]: permutation, sortedness, stability *)
From Coq Require Import Sorting.Sorted Sorting.Permutation.
From MD Require Import Lib.Base Model.Node Model.Engine.

Definition hit_leP (a b : node) : Prop := hit_le a b = true.

Lemma hit_le_spec a b : hit_le a b = true <-> (n_st a < n_st b \/ (n_st a = n_st b /\ n_en b <= n_en a)).
Proof.
  unfold hit_le. rewrite orb_true_iff, andb_true_iff, Z.ltb_lt, Z.eqb_eq, Z.leb_le. tauto.
Qed.

Lemma hit_le_total a b : hit_le a b = false -> hit_le b a = true.
Proof.
  intros H. apply hit_le_spec.
  destruct (hit_le a b) eqn:E; [discriminate|].
  assert (~ (n_st a < n_st b \/ (n_st a = n_st b /\ n_en b <= n_en a))) as N
    by (intros X; apply hit_le_spec in X; congruence).
  lia.
Qed.

Lemma hit_le_trans a b c : hit_le a b = true -> hit_le b c = true -> hit_le a c = true.
Proof. rewrite !hit_le_spec. lia. Qed.

Lemma hit_le_st a b : hit_le a b = true -> n_st a <= n_st b.
Proof. rewrite hit_le_spec. lia. Qed.

Lemma insert_perm x l : Permutation (insert_hit x l) (x :: l).
Proof.
  induction l as [|y l IH]; simpl; [reflexivity|].
  destruct (hit_le x y); [reflexivity|].
  rewrite IH. apply perm_swap.
Qed.

Theorem sort_hits_perm l : Permutation (sort_hits l) l.
Proof.
  induction l as [|x l IH]; simpl; [reflexivity|].
  unfold sort_hits in *. simpl. rewrite insert_perm. constructor. exact IH.
Qed.

Lemma insert_sorted x l : StronglySorted hit_leP l -> StronglySorted hit_leP (insert_hit x l).
Proof.
  induction l as [|y l IH]; intros Hs; simpl.
  - constructor; constructor.
  - inversion Hs as [|? ? Hs' Hall]; subst.
    destruct (hit_le x y) eqn:E.
    + constructor; [exact Hs|]. constructor; [exact E|].
      eapply Forall_impl; [|exact Hall]. intros z Hz. eapply hit_le_trans; eauto.
    + constructor; [apply IH; exact Hs'|].
      assert (Hperm := insert_perm x l).
      apply (Permutation_Forall (Permutation_sym Hperm)).
      constructor; [apply hit_le_total; exact E | exact Hall].
Qed.

Theorem sort_hits_sorted l : StronglySorted hit_leP (sort_hits l).
Proof.
  induction l as [|x l IH]; [constructor|].
  unfold sort_hits in *. simpl. apply insert_sorted. exact IH.
Qed.

(* stability: hits with the same key keep their registry order *)
Definition same_key (k : node) (x : node) : bool := (n_st x =? n_st k) && (n_en x =? n_en k).

Lemma insert_stable k x l : StronglySorted hit_leP l ->
  filter (same_key k) (insert_hit x l) = filter (same_key k) (x :: l).
Proof.
  induction l as [|y l IH]; intros Hs; [reflexivity|].
  cbn [insert_hit]. destruct (hit_le x y) eqn:E; [reflexivity|].
  inversion Hs as [|? ? Hs' Hall]; subst.
  cbn [filter]. rewrite (IH Hs'). cbn [filter].
  destruct (same_key k x) eqn:Kx, (same_key k y) eqn:Ky; try reflexivity.
  (* both have key k: then hit_le x y would hold *)
  exfalso. unfold same_key in *. rewrite andb_true_iff, !Z.eqb_eq in *.
  assert (hit_le x y = true) by (apply hit_le_spec; lia). congruence.
Qed.

Theorem sort_hits_stable k l : filter (same_key k) (sort_hits l) = filter (same_key k) l.
Proof.
  induction l as [|x l IH]; [reflexivity|].
  unfold sort_hits in *. cbn [fold_right].
  rewrite insert_stable by apply sort_hits_sorted.
  cbn [filter]. fold (sort_hits l). unfold sort_hits. rewrite IH. reflexivity.
Qed.

Lemma sorted_st l : StronglySorted hit_leP l -> StronglySorted (fun x y => n_st x <= n_st y) l.
Proof.
  induction 1 as [|x l Hs IH Hall]; constructor; [exact IH|].
  eapply Forall_impl; [|exact Hall]. intros y Hy. apply hit_le_st. exact Hy.
Qed.
